(** C01 - single-bar redraw integrity: terminal = printed lines + current frame.
    Model: model/Sys.v (drawing system), model/Draw.v (draw_to_term), model/Term.v (terminal,
    an ASSUMPTION validated against the vt100 crate), model/SingleBar.v (configuration, ghost
    log/frame, Fits).  Proofs: proofs/TermProofs.v, proofs/SingleBarProofs.v. *)
From Coq Require Import List NArith Lia.
From IndModel Require Import SingleBar SysCheck Locks Brackets BracketsC01.
From IndGen Require Import LockFootprints.
From IndProofs Require Import TermProofs SingleBarProofs BracketsC01Proofs.
From Coq Require Import String.
Import ListNotations.
Open Scope N_scope.

(** For every terminal size W >= 1, H >= 1, every initial single-bar configuration [s0] (any
    template, message, prefix, position, length, finish behaviour, limiter states), every terminal
    [t0] in which earlier output [pre] has been written and whose cursor is on a fresh line, every
    timed op history [h] over the C01 alphabet outside ONE excluded situation ([hist_ok]: no suspend
    closure writes an EMPTY FIRST line while no frame is on the screen and the last call was a
    write_str - open finding 'empty-line-after-text-only-draw-swallowed', refuted below), under the
    proviso [Fits] (the bar rows of every PAINTED frame fit the height):
    executing all emitted TermLike calls on the terminal gives exactly
        pre ++ wrap W log ++ wrap W frame      (as rows of W cells; only blank rows below)
    where log = lines given to println + lines written by suspend closures, frame = rendering of
    the bar state at the last painted draw; and one more character would land at column 0 of the
    first row below.
    [_partial] (DESIGN naming rule): the property text is FALSE on the real code for the class [hist_ok]
    removes (C01_empty_line_swallowed_refuted); further restrictions: the 7-part template family,
    single-column characters, a [ready] start, no I/O failures, the sequential model (the tie to the
    locking discipline is C01_calls_have_at_most_one_bar_section below). *)
Theorem C01_screen_partial :
  forall (W H : N) (pre : list (list N)) (s0 : sys) (t0 : term) (h : list (N * op)),
  1 <= W -> 1 <= H ->
  sb_initial s0 -> ready (N.to_nat W) (N.to_nat H) pre t0 -> hist_ok W H s0 (ghost_for t0) h -> Fits W H s0 h ->
  let g := snd (fst (sb_run W H (s0, ghost_for t0, t0) h)) in
  let t := snd (sb_run W H (s0, ghost_for t0, t0) h) in
  (exists k, screen (N.to_nat W) t
             = map (pad (N.to_nat W)) (expected_rows W pre g) ++ repeat (repeat SP (N.to_nat W)) k)
  /\ next_cell (N.to_nat W) t = (List.length (expected_rows W pre g), 0%nat).
Proof. intros W H pre s0 t0 h HW HH. exact (c01_screen W H HW HH pre s0 t0 h). Qed.
Print Assumptions C01_screen_partial.

(** ... after EVERY op: the same for each prefix of a history that meets the hypotheses *)
Theorem C01_screen_after_every_op_partial :
  forall (W H : N) (pre : list (list N)) (s0 : sys) (t0 : term) (h1 h2 : list (N * op)),
  1 <= W -> 1 <= H ->
  sb_initial s0 -> ready (N.to_nat W) (N.to_nat H) pre t0 ->
  hist_ok W H s0 (ghost_for t0) (h1 ++ h2) -> Fits W H s0 (h1 ++ h2) ->
  let g := snd (fst (sb_run W H (s0, ghost_for t0, t0) h1)) in
  let t := snd (sb_run W H (s0, ghost_for t0, t0) h1) in
  (exists k, screen (N.to_nat W) t
             = map (pad (N.to_nat W)) (expected_rows W pre g) ++ repeat (repeat SP (N.to_nat W)) k)
  /\ next_cell (N.to_nat W) t = (List.length (expected_rows W pre g), 0%nat).
Proof. exact c01_screen_every_prefix. Qed.
Print Assumptions C01_screen_after_every_op_partial.

(** the fresh terminal is a well-formed start (pre = []) *)
Example C01_fresh_terminal : forall W H : nat, ready W H [] term_init.
Proof. intros W H. exact (ready_start W H [] 0 0 (Nat.le_0_l _)). Qed.

(** rows are compared as W cells: [chunks] cuts a string into rows of W cells *)
Example C01_wrap_example :
  wrap 5 [t "abcdefghijklm"; t ""; t "12345"] = [t "abcde"; t "fghij"; t "klm"; t ""; t "12345"].
Proof. reflexivity. Qed.

(** A non-trivial history that meets every hypothesis: W = 5, H = 10, template "{msg}\n{pos}/{len}",
    a message that wraps to three rows, a multi-line println with an empty line, a shrink to a
    one-row message, an inc, a println of an empty message, finish_and_clear. *)
Definition ex_s0 : sys :=
  mksys [new_bar (Some 3) FAndLeave [PMsg; PNewLine; PPos; PLit (t "/"); PLen]
                 (TTerm (new_ttarget None 0)) 0] (new_ms THidden) 0.
Definition ex_h : list (N * op) :=
  [(1000000000, OSetMsg 0 (t "abcdefghijklm"));
   (2000000000, OPrintln 0 (t "line one is long" ++ [NL; NL] ++ t "xy"));
   (3000000000, OSetMsg 0 (t "ab"));
   (4000000000, OInc 0 2);
   (5000000000, OSuspend 0 [t "from the closure"]);
   (6000000000, OPrintln 0 []);
   (7000000000, OFinish 0 FAndClear)].

Example C01_hypotheses_satisfiable :
  sb_initial ex_s0 /\ hist_ok 5 10 ex_s0 ghost0 ex_h /\ Fits 5 10 ex_s0 ex_h
  /\ ready 5 10 [t "$ run"] (run_ops 5 10 term_init [TLine (t "$ run")]).
Proof.
  split; [eexists; eexists; repeat split|].
  split; [vm_compute; reflexivity|]. split; [vm_compute; reflexivity|].
  exact (ready_start 5 10 [t "$ run"] 0 1 ltac:(lia)).
Qed.

(** what the theorem says about it, computed: after the third op (the shrink) and at the end *)
Example C01_example_after_shrink :
  let st := sb_run 5 10 (ex_s0, ghost0, term_init) (firstn 3 ex_h) in
  g_log (snd (fst st)) = [t "line one is long"; t ""; t "xy"]
  /\ map lt (g_frame (snd (fst st))) = [t "ab"; t "0/3"]
  /\ screen 5 (snd st)
     = map (pad 5) [t "line "; t "one i"; t "s lon"; t "g"; t ""; t "xy"; t "ab"; t "0/3"; t ""; t ""].
Proof. vm_compute. repeat split. Qed.

Example C01_example_at_the_end :
  let st := sb_run 5 10 (ex_s0, ghost0, term_init) ex_h in
  map lt (g_frame (snd (fst st))) = []
  /\ screen 5 (snd st)
     = map (pad 5) [t "line "; t "one i"; t "s lon"; t "g"; t ""; t "xy";
                    t "from "; t "the c"; t "losur"; t "e"; t ""; t ""; t ""]
  /\ next_cell 5 (snd st) = (11%nat, 0%nat).
Proof. vm_compute. repeat split. Qed.

(** The excluded situation is a genuine deviation (open finding, harness class
    'empty-line-after-text-only-draw-swallowed', reproduced on the real code by bins c01/c03):
    finish_and_clear; println "hello" paints a text line only and leaves the cursor wrap-pending at
    the right edge (last_line_count = 0); the EMPTY first line of the suspend closure then only
    resolves the pending wrap: it gets no row of its own (2 log rows demanded, 1 on the screen, the
    next output starts where the empty row should be). *)
Definition swallow_h : list (N * op) :=
  [(1000000000, OFinish 0 FAndClear); (2000000000, OPrintln 0 (t "hello"));
   (3000000000, OSuspend 0 [[]])].

Theorem C01_empty_line_swallowed_refuted :
  let st := sb_run 5 10 (ex_s0, ghost0, term_init) swallow_h in
  sb_initial ex_s0 /\ ready 5 10 [] term_init /\ Fits 5 10 ex_s0 swallow_h
  /\ hist_okb 5 10 ex_s0 ghost0 (firstn 2 swallow_h) = true     (* fine up to the suspend ... *)
  /\ hist_okb 5 10 ex_s0 ghost0 swallow_h = false               (* ... which is the excluded situation *)
  /\ g_log (snd (fst st)) = [t "hello"; []]
  /\ List.length (expected_rows 5 [] (snd (fst st))) = 2%nat    (* the property demands two rows *)
  /\ screen 5 (snd st) = map (pad 5) [t "hello"; t ""]          (* "hello" and the blank cursor row *)
  /\ next_cell 5 (snd st) = (1%nat, 0%nat).                     (* the next output lands on row 1, not 2 *)
Proof.
  cbv zeta. split; [eexists; eexists; repeat split|].
  split; [exact (ready_start 5 10 [] 0 0 (Nat.le_0_l _))|].
  vm_compute. repeat split.
Qed.
Print Assumptions C01_empty_line_swallowed_refuted.

(** ... and it is the ONLY excluded closure output: an empty first line while a frame is visible
    (the clear of suspend leaves the cursor at column 0), empty lines after the first, an empty
    first line on a fresh terminal are inside [hist_ok] and get their rows. *)
Example C01_empty_closure_lines_covered :
  let h := [(1000000000, OSuspend 0 [[]]);                      (* fresh terminal: column 0 *)
            (2000000000, OSetMsg 0 (t "ab"));
            (3000000000, OSuspend 0 [[]; t "x"; []]);           (* frame visible *)
            (4000000000, OFinish 0 FAndClear);
            (5000000000, OPrintln 0 (t "hello"));
            (6000000000, OSuspend 0 [t "y"; []])] in            (* empty line, but not the first *)
  let st := sb_run 5 10 (ex_s0, ghost0, term_init) h in
  hist_ok 5 10 ex_s0 ghost0 h /\ Fits 5 10 ex_s0 h
  /\ g_log (snd (fst st)) = [[]; []; t "x"; []; t "hello"; t "y"; []]
  /\ screen 5 (snd st) = map (pad 5) [t ""; t ""; t "x"; t ""; t "hello"; t "y"; t ""; t ""]
  /\ next_cell 5 (snd st) = (7%nat, 0%nat).
Proof. vm_compute. repeat split. Qed.

(** ------------------------------------------------------------------------------------------------
    How far "one op = one atomic step" is a faithful reading of the code when other threads hold
    clones of the handle.  The theorems above run a SEQUENTIAL model.  Over the structured lock
    footprints that tools/locks_extract.py regenerates from /repo/src on every run
    (gen/LockFootprints.v), on EVERY path of EVERY call of the C01 alphabet:
      - the call has AT MOST one outermost critical section over the bar mutex ([bar_sections]):
        EXACTLY one for every call except tick / inc / dec / set_position ([c01_may_skip]), which may
        do nothing under the mutex (steady ticker running; position limiter refuses the draw), and
      - every MARKED state access - taking the MultiState lock for the paint, BarState::tick, every
        user callback - happens while that mutex is held, the mutex is never given up by a condvar
        wait, and the trace is balanced ([inside_bar]);
    ProgressBar::drop never takes the bar mutex: the handle gives up its Arc first and everything
    else runs with exclusive ownership ([owned_access]); the number of its sections over the
    MultiState lock is the documented one (Brackets.allowed_sections, property C02).
    NOT covered (the footprints have no marker for them):
      - the unlocked atomics of inc / dec / set_position and tick: the position store
        (AtomicPosition fetch_add / store), the position limiter (`pos.allow(now)`) and the
        ticker-slot read run BEFORE the bar section, outside the mutex.  The sequential model does
        "store the position, ask the limiter, maybe paint" in one step; C01 has one thread issuing
        the calls, so nothing can come in between there; with concurrent clones it can (C02's open
        finding D33 is the concurrent consequence).  So the atomic-step reading is justified by this
        theorem only for what the calls do behind the mutex;
      - TermLike / Write calls are not marked individually (they are made by the draw, which is
        inside the MultiState section that [inside_bar] places inside the bar section). *)
Theorem C01_calls_have_at_most_one_bar_section :
  forall o : op, c01_op o = true ->
  exists name p, c01_call o = Some name /\ pg_lookup name all_programs = Some p /\
    forall tr, paths p tr ->
      if String.eqb name "ProgressBar::drop"
      then owned_access tr = true /\ (sections tr <= allowed_sections name)%nat
      else if c01_may_skip name
      then (bar_sections tr <= 1)%nat /\ inside_bar tr = true
      else bar_sections tr = 1%nat /\ inside_bar tr = true.
Proof. exact c01_calls_atomic. Qed.
Print Assumptions C01_calls_have_at_most_one_bar_section.

(** ... in particular the closure given to ProgressBar::suspend runs INSIDE the one bar section: on
    every path of the generated program (exactly one section), and there is a path on which a
    callback occurs *)
Theorem C01_suspend_closure_inside_bar_section :
  exists p, pg_lookup "ProgressBar::suspend" all_programs = Some p /\
    (forall tr, paths p tr -> bar_sections tr = 1%nat /\ inside_bar tr = true) /\
    (exists tr, paths p tr /\ In CCallback tr).
Proof. exact suspend_closure_inside. Qed.
Print Assumptions C01_suspend_closure_inside_bar_section.

(** the predicates do reject a suspend that releases the bar lock while the closure runs *)
Example C01_released_closure_rejected :
  let tr := [CAcq CBar; CAcq CMulti; CRel CMulti; CRel CBar; CCallback;
             CAcq CBar; CAcq CMulti; CRel CMulti; CRel CBar] in
  inside_bar tr = false /\ bar_sections tr = 2%nat /\ one_bar_section (PSeq (map PAct tr)) = false.
Proof. exact released_closure_rejected. Qed.
