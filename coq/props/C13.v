(** C13 – Progress-bar geometry, and the fraction clause of C07.
    Only statements; every proof is [exact <lemma from IndProofs.BarGeomProofs>].

    Model (model/BarGeom.v): [fraction pos len : f32] is ProgressState::fraction,
    [format_bar fract width c nchars : bar] is ProgressStyle::format_bar, both on Flocq's
    binary32 ([B2R] = real value of a float, [RN] = round-to-nearest-even to binary32).
    Domain: pos, len : u64 ([< U64]); bar width up to 2^24 ([W24]; the code has u16);
    character width c >= 1; 2 .. 2^24+2 progress characters (the property: 2..=10). *)
From IndModel Require Import Base BarGeom.
From IndProofs Require Import BarGeomProofs.
From Coq Require Import ZArith Reals List.
From Flocq Require Import Core BinarySingleNaN.
Open Scope N_scope.

(** G1 – {bar:N} has floor(N/c) cells: filled + partial + background = cells = N/c, so it is
    c*floor(N/c) <= N columns wide and misses N by exactly N mod c columns. *)
Theorem C13_G1_cells : forall pos len width c nchars,
  pos < U64 -> len_wf len -> width <= W24 ->
  let b := format_bar (fraction pos len) width c nchars in
  b_cells b = width / c /\
  b_filled b + b_head b + b_bg b = width / c /\
  nlen (bar_cells b nchars) = width / c /\
  bar_cols b c nchars = c * (width / c) /\
  bar_cols b c nchars <= width /\
  (c <> 0 -> width - bar_cols b c nchars = width mod c).
Proof. exact g1_cells. Qed.
Print Assumptions C13_G1_cells.

(** the element {bar:N} (bar + alignment padding) is exactly N columns wide *)
Theorem C13_G1_element_width : forall chars c n a pos len,
  2 <= nlen chars <= W24 + 2 -> pos < U64 -> len_wf len -> n <= W24 ->
  exists t l r,
    bar_line chars c (Some n) a pos len = Some (rep l BarGeom.SP ++ t ++ rep r BarGeom.SP) /\
    bar_text chars c (fraction pos len) n = Some t /\
    l + bar_cols (format_bar (fraction pos len) n c (nlen chars)) c (nlen chars) + r = n.
Proof. exact bar_line_width. Qed.
Print Assumptions C13_G1_element_width.

(** the filled count is floor(fraction * cells), the product rounded to binary32 *)
Theorem C13_filled_is_floor : forall pos len width c nchars,
  pos < U64 -> len_wf len -> width <= W24 ->
  Z.of_N (b_filled (format_bar (fraction pos len) width c nchars)) =
  Zfloor (round radix2 (FLT_exp (-149) 24) ZnearestE
            (B2R (fraction pos len) * IZR (Z.of_N (width / c)))).
Proof. exact filled_is_floor. Qed.
Print Assumptions C13_filled_is_floor.

(** G2 – there is a partial cell iff fill > 0 and filled < cells (never more than one) *)
Theorem C13_G2_head : forall pos len width c nchars,
  pos < U64 -> len_wf len -> width <= W24 ->
  let b := format_bar (fraction pos len) width c nchars in
  (b_head b = 1 <-> (0 < B2R (b_fill b))%R /\ b_filled b < b_cells b) /\
  (b_head b = 1 <-> exists i, b_cur b = Some i) /\
  (b_head b = 0 \/ b_head b = 1).
Proof. exact g2_head. Qed.
Print Assumptions C13_G2_head.

(** G2 in terms of the inputs: exactly when the bar is neither empty nor full *)
Theorem C13_G2_head_iff_inside : forall pos l width c nchars,
  0 < l <= W24 -> pos < U64 -> width <= W24 ->
  (b_head (format_bar (fraction pos (Some l)) width c nchars) = 1 <->
   0 < pos < l /\ 1 <= width / c).
Proof. exact g2_semantic. Qed.
Print Assumptions C13_G2_head_iff_inside.

(** G3 – the partial cell's index is a valid "current" character: for EVERY f32 [x]
    (NaN and infinities included), every width, every c *)
Theorem C13_G3_cur_in_range : forall (x : f32) width c nchars i,
  2 <= nchars <= W24 + 2 ->
  b_cur (format_bar x width c nchars) = Some i ->
  1 <= i <= N.max 1 (nchars - 2) /\ i < nchars.
Proof. exact cur_in_range. Qed.
Print Assumptions C13_G3_cur_in_range.

(** hence rendering never indexes out of progress_chars, and the text is the concatenation of
    the configured clusters *)
Theorem C13_G3_text : forall chars c (x : f32) width,
  2 <= nlen chars <= W24 + 2 ->
  bar_text chars c x width =
  Some (flat_map (fun i => nth (N.to_nat i) chars [])
          (bar_cells (format_bar x width c (nlen chars)) (nlen chars))) /\
  Forall (fun i => i < nlen chars) (bar_cells (format_bar x width c (nlen chars)) (nlen chars)).
Proof. exact g3_text. Qed.
Print Assumptions C13_G3_text.

(** G4 – the filled count is monotone in the position *)
Theorem C13_G4_monotone : forall pos pos' len width c nchars,
  pos <= pos' -> pos' < U64 -> len_wf len -> width <= W24 ->
  b_filled (format_bar (fraction pos len) width c nchars) <=
  b_filled (format_bar (fraction pos' len) width c nchars).
Proof. exact g4_mono. Qed.
Print Assumptions C13_G4_monotone.

(** G5 – empty at position 0 (length not 0) and for an unknown length *)
Theorem C13_G5_empty : forall pos len width c nchars,
  pos < U64 -> len_wf len -> width <= W24 ->
  (len = None \/ (pos = 0 /\ len <> Some 0)) ->
  let b := format_bar (fraction pos len) width c nchars in
  b_filled b = 0 /\ b_cur b = None /\ b_bg b = width / c.
Proof. exact g5_empty. Qed.
Print Assumptions C13_G5_empty.

(** G6 – full whenever pos >= len (every u64 length, 0 included) *)
Theorem C13_G6_full : forall pos l width c nchars,
  pos < U64 -> l < U64 -> width <= W24 -> l <= pos ->
  let b := format_bar (fraction pos (Some l)) width c nchars in
  b_filled b = width / c /\ b_cur b = None /\ b_bg b = 0.
Proof. exact g6_full. Qed.
Print Assumptions C13_G6_full.

(** G7 – and only then, for lengths up to 2^24 *)
Theorem C13_G7_not_full_before_end : forall pos l width c nchars,
  l <= W24 -> pos < l -> width <= W24 -> 1 <= width / c ->
  b_filled (format_bar (fraction pos (Some l)) width c nchars) < width / c.
Proof. exact g7_not_full. Qed.
Print Assumptions C13_G7_not_full_before_end.

(** the bound 2^24 is tight: len = 2^24+1, pos = 2^24 < len renders a full bar, fraction() = 1.0 *)
Theorem C13_G7_bound_is_tight :
  let pos := 16777216 in let l := 16777217 in
  pos < l /\
  b_filled (format_bar (fraction pos (Some l)) 50 1 3) = 50 /\
  f_bits (fraction pos (Some l)) = f_bits f_one.
Proof. exact g7_tight. Qed.
Print Assumptions C13_G7_bound_is_tight.

(** G8 – {wide_bar}: the line is rest + c*floor((W-rest)/c) columns: never wider than the
    terminal when the rest fits, short by less than one cell, exactly W for 1-column characters *)
Theorem C13_G8_wide : forall pos len c rest tw nchars,
  pos < U64 -> len_wf len -> tw <= W24 -> c <> 0 ->
  wide_cols c rest tw pos len nchars = rest + c * ((tw - rest) / c) /\
  (rest <= tw -> wide_cols c rest tw pos len nchars <= tw < wide_cols c rest tw pos len nchars + c) /\
  (rest <= tw -> c = 1 -> wide_cols c rest tw pos len nchars = tw) /\
  (tw < rest -> wide_cols c rest tw pos len nchars = rest).
Proof. exact g8_wide. Qed.
Print Assumptions C13_G8_wide.

(** ** fraction clause of C07 *)
(** never NaN / infinite, within [0,1] *)
Theorem C13_fraction_range : forall pos len, pos < U64 -> len_wf len ->
  is_finite (fraction pos len) = true /\ is_nan (fraction pos len) = false /\
  (0 <= B2R (fraction pos len) <= 1)%R.
Proof. exact fraction_range. Qed.
Print Assumptions C13_fraction_range.

(** 1.0 for a zero length, +0.0 for an unknown length, +0.0 at position 0 *)
Theorem C13_fraction_len0 : forall pos, fraction pos (Some 0) = f_one.
Proof. exact fraction_len0. Qed.
Print Assumptions C13_fraction_len0.

Theorem C13_fraction_unknown : forall pos, fraction pos None = f_zero.
Proof. exact fraction_unknown. Qed.
Print Assumptions C13_fraction_unknown.

Theorem C13_fraction_pos0 : forall len, len <> Some 0 -> fraction 0 len = f_zero.
Proof. exact fraction_pos0. Qed.
Print Assumptions C13_fraction_pos0.

(** 1 at and beyond the end; monotone; below 1 before the end (len <= 2^24); positive once started *)
Theorem C13_fraction_full : forall pos l, pos < U64 -> l < U64 -> l <= pos ->
  B2R (fraction pos (Some l)) = 1%R /\ is_finite (fraction pos (Some l)) = true.
Proof. exact fraction_full. Qed.
Print Assumptions C13_fraction_full.

Theorem C13_fraction_monotone : forall pos pos' len, pos <= pos' -> pos' < U64 -> len_wf len ->
  (B2R (fraction pos len) <= B2R (fraction pos' len))%R.
Proof. exact fraction_mono. Qed.
Print Assumptions C13_fraction_monotone.

Theorem C13_fraction_below_one : forall pos l, l <= W24 -> pos < l ->
  (B2R (fraction pos (Some l)) <= 1 - bpow radix2 (-24))%R.
Proof. exact fraction_lt1. Qed.
Print Assumptions C13_fraction_below_one.

Theorem C13_fraction_positive : forall pos l, pos <> 0 -> l <> 0 -> pos < U64 -> l < U64 ->
  (bpow radix2 (-64) <= B2R (fraction pos (Some l)))%R.
Proof. exact fraction_gt0. Qed.
Print Assumptions C13_fraction_positive.

(** ** Non-vacuity: concrete values meeting the hypotheses, evaluated by the model *)
Example C13_ex_third :   (* 1/3 of a 20-column bar, 5 characters: 6 filled, partial cell #1 ... *)
  let b := format_bar (fraction 1 (Some 3)) 20 1 5 in
  (b_cells b, b_filled b, b_cur b, b_bg b) = (20, 6, Some 1, 13) /\ f_bits (fraction 1 (Some 3)) = 1051372203.
Proof. vm_compute. split; reflexivity. Qed.

Example C13_ex_two_column :   (* 2-column characters in {bar:>21}: 10 cells and one padding space *)
  bar_line [[36914; 36914]; [25431; 25431]; [26410; 26410]] 2 (Some 21) ARight 1 (Some 2)
  = Some ([32] ++ flat_map (fun _ => [36914; 36914]) (seq 0 5) ++ [25431; 25431]
          ++ flat_map (fun _ => [26410; 26410]) (seq 0 4)).
Proof. vm_compute. reflexivity. Qed.

Example C13_ex_seven_tenths :  (* 7/10 of 10 cells: RN(0.69999999 * 10) = 7.0 exactly -> 7 cells *)
  b_filled (format_bar (fraction 7 (Some 10)) 10 1 3) = 7.
Proof. vm_compute. reflexivity. Qed.

Example C13_ex_wide :   (* "[{wide_bar}]" on a 30-column terminal: 2 + 28 = 30 columns *)
  wide_cols 1 2 30 1 (Some 2) 3 = 30 /\ wide_cols 2 3 30 1 (Some 2) 3 = 29.
Proof. vm_compute. split; reflexivity. Qed.

Example C13_ex_hyps :   (* the hypotheses of G7 / G2 / G3 are satisfiable *)
  (16777216 <= W24 /\ 16777215 < 16777216 /\ 65535 <= W24 /\ 1 <= 65535 / 2) /\
  (2 <= 10 <= W24 + 2) /\ len_wf (Some 18446744073709551615) /\
  b_cur (format_bar (fraction 16777215 (Some 16777216)) 65535 2 10) = Some 1.
Proof. vm_compute. repeat split; congruence. Qed.
