(** C12 – Field width, alignment and truncation contract.
    Only statements; every proof is [exact <lemma from IndProofs.PaddedProofs>].
    [padded s W align truncate] is the model of PaddedStringDisplay::fmt, [wide_line] of a
    template line containing {wide_msg}; a string is a list of characters with their UTF-8
    length ([chb], computed) and column width ([cw], data).  [cols] = measure_text_width. *)
From IndModel Require Import Base Padded.
From IndProofs Require Import PaddedProofs.
From Coq Require Import NArith List.
Import ListNotations.
Open Scope N_scope.

(** Content that fits: exactly W columns, the content unchanged in the middle, padding split
    (0,d) / (d,0) / (floor d/2, ceil d/2) for left / right / centre – every width (no bound:
    in particular all of 0..=u16::MAX), every alignment, truncation on or off, every content. *)
Theorem C12_fits : forall (s : str) (w : N) (a : align) (tr : bool),
  cols s <= w ->
  exists l r,
    padded s w a tr = Ok (spaces l ++ s ++ spaces r)
    /\ cols (spaces l ++ s ++ spaces r) = w
    /\ l + r = w - cols s
    /\ match a with
       | ALeft => l = 0
       | ARight => r = 0
       | ACenter => l = (w - cols s) / 2 /\ (r = l \/ r = l + 1)
       end.
Proof. exact fits. Qed.
Print Assumptions C12_fits.

(** Wider content without '!' is emitted unshortened – every content. *)
Theorem C12_no_trunc : forall (s : str) (w : N) (a : align),
  w < cols s -> padded s w a false = Ok s.
Proof. exact no_trunc. Qed.
Print Assumptions C12_no_trunc.

(** Wider content with '!', every character one byte and one column: exactly W columns are
    kept – the first W cells (left), the last W (right), or the W cells after dropping
    floor(excess/2) cells (centre). *)
Theorem C12_trunc_ascii : forall (s : str) (w : N) (a : align),
  Forall ascii1 s -> w < cols s ->
  padded s w a true = Ok (trunc_spec s w a)
  /\ cols (trunc_spec s w a) = w
  /\ length (trunc_spec s w a) = N.to_nat w.
Proof. exact trunc_ascii. Qed.
Print Assumptions C12_trunc_ascii.

(** `self.str.len() - excess` never underflows (no panic), whatever the width, alignment
    and content, given that no character is wider in columns than long in bytes (a fact about
    the unicode-width tables that the harness checks for all 0x110000 scalar values). *)
Theorem C12_no_panic : forall (s : str) (w : N) (a : align) (tr : bool),
  Forall ch_ok s -> exists o, padded s w a tr = Ok o.
Proof. exact no_panic. Qed.
Print Assumptions C12_no_panic.

(** What truncation really does for arbitrary content: it keeps [len - excess] BYTES taken
    at a byte offset computed from a column count (or, when an offset is not a character
    boundary, everything).  This is the root of the refutation below. *)
Theorem C12_trunc_bytes : forall (s : str) (w : N) (a : align),
  Forall ch_ok s -> w < cols s ->
  exists o, padded s w a true = Ok o /\
    (o = s \/ exists pre post, s = pre ++ o ++ post /\ blen o = blen s - (cols s - w)).
Proof. exact trunc_bytes. Qed.
Print Assumptions C12_trunc_bytes.

(** REFUTED for content in general (finding D4, open): "exactly W columns are kept" is false.
    Witness 1: 'é' x 9 at width 5, left: 7 columns are kept.
    Witness 2: "日本語" (6 columns) at width 4: emitted whole. *)
Theorem C12_trunc_general_refuted :
  exists s w a o, Forall ch_ok s /\ w < cols s /\ padded s w a true = Ok o /\ cols o <> w.
Proof. exact trunc_general_refuted. Qed.
Print Assumptions C12_trunc_general_refuted.

Theorem C12_trunc_wide_refuted :
  let s := [cjk 26085; cjk 26412; cjk 35486] in
  Forall ch_ok s /\ cols s = 6 /\ padded s 4 ALeft true = Ok s.
Proof. exact trunc_wide_refuted. Qed.
Print Assumptions C12_trunc_wide_refuted.

(** Outside the known class [trunc_nonascii] (truncation requested and needed, content
    containing a character that is not 1 byte / 1 column) the truncation clause holds. *)
Theorem C12_trunc_outside_known : forall (s : str) (w : N) (a : align),
  w < cols s -> ~ trunc_nonascii s w true ->
  padded s w a true = Ok (trunc_spec s w a) /\ cols (trunc_spec s w a) = w.
Proof. exact trunc_outside_known. Qed.
Print Assumptions C12_trunc_outside_known.

(** wide_msg is a truncating field ([padded] with truncate = true) whose width is what the
    rest of the line leaves of the terminal width (trailing white space trimmed when nothing
    follows it in the line). *)
Theorem C12_wide_is_field : forall (pre post msg : str) (a : align) (tw : N),
  wide_line pre post msg a tw =
  match padded msg (tw - (cols pre + cols post)) a true with
  | Ok f => Ok (pre ++ (match post with [] => trim_end f | _ => f end) ++ post)
  | Panic k => Panic k
  end.
Proof. exact wide_is_field. Qed.
Print Assumptions C12_wide_is_field.

(** … so a line with a wide_msg followed by something is exactly as wide as the terminal
    (message fits, or consists of 1-byte/1-column characters), every terminal width. *)
Theorem C12_wide_cols : forall (pre post msg : str) (a : align) (tw : N),
  post <> [] ->
  cols pre + cols post <= tw ->
  (cols msg <= tw - (cols pre + cols post) \/ Forall ascii1 msg) ->
  exists l, wide_line pre post msg a tw = Ok l /\ cols l = tw.
Proof. exact wide_cols. Qed.
Print Assumptions C12_wide_cols.

(** … and a line ending in wide_msg is that line minus trailing white space, never wider
    than the terminal. *)
Theorem C12_wide_last : forall (pre msg : str) (a : align) (tw : N),
  cols pre <= tw ->
  (cols msg <= tw - cols pre \/ Forall ascii1 msg) ->
  exists f t, padded msg (tw - cols pre) a true = Ok f /\ cols f = tw - cols pre
    /\ wide_line pre [] msg a tw = Ok (pre ++ trim_end f)
    /\ f = trim_end f ++ t /\ Forall (fun c => is_ws (cp c) = true) t
    /\ cols (pre ++ trim_end f) <= tw.
Proof. exact wide_last. Qed.
Print Assumptions C12_wide_last.

(** --- placeholders with a `.STYLE` part ------------------------------------------------------
    [styled_field_line pre post s (Some W) a tr (Some (spre, spost))] is the line
    pre{key:<a><W>[!].STYLE}post; [spre] / [spost] are the texts console writes before / after
    the value for that style (escape sequences; both empty when colours are off).  BY DEFINITION
    of the model a styled sized field is the field of [padded] - the one C12_fits, C12_no_trunc,
    C12_trunc_* speak about - with the style's texts around it (unfolding lemmas
    PaddedProofs.styled_is_field, a [reflexivity], and styled_none: NOT exported, they restate the
    [match] of [styled_field_line]).  That the CODE applies the style to the padded field, and not
    padding to styled text, is established by the CStyled correspondence cases only. *)
(** the clause "W columns when the content fits, padded by the alignment" for a styled field whose
    style texts occupy no column (escape sequences): every width, alignment, content that fits -
    the EMPTY content included -, truncation on or off *)
Theorem C12_styled_fits : forall (s : str) (w : N) (a : align) (tr : bool) (spre spost pre post : str),
  cols s <= w -> cols spre = 0 -> cols spost = 0 ->
  exists l r,
    styled_field_line pre post s (Some w) a tr (Some (spre, spost))
      = Ok (pre ++ (spre ++ (spaces l ++ s ++ spaces r) ++ spost) ++ post)
    /\ cols (spre ++ (spaces l ++ s ++ spaces r) ++ spost) = w
    /\ l + r = w - cols s
    /\ match a with
       | ALeft => l = 0
       | ARight => r = 0
       | ACenter => l = (w - cols s) / 2 /\ (r = l \/ r = l + 1)
       end.
Proof. exact styled_fits. Qed.
Print Assumptions C12_styled_fits.

(** an empty styled field is W blanks inside the style, whatever the alignment (what seeded
    defect C12-6 drops) *)
Theorem C12_styled_empty : forall (w : N) (a : align) (tr : bool) (spre spost pre post : str),
  styled_field_line pre post [] (Some w) a tr (Some (spre, spost))
  = Ok (pre ++ (spre ++ spaces w ++ spost) ++ post).
Proof. exact styled_empty. Qed.
Print Assumptions C12_styled_empty.

(** Non-vacuity. *)
Definition a_ (c : N) : ch := mkch c 1.
Example C12_ex_fits_center :
  padded [a_ 97; a_ 98] 7 ACenter true = Ok (spaces 2 ++ [a_ 97; a_ 98] ++ spaces 3).
Proof. reflexivity. Qed.
Example C12_ex_trunc_center :
  let s := map a_ [97; 98; 99; 100; 101; 102; 103; 104; 105] in      (* "abcdefghi" at 4, centre *)
  Forall ascii1 s /\ 4 < cols s /\ padded s 4 ACenter true = Ok (map a_ [99; 100; 101; 102]).
Proof. split; [repeat constructor | split; reflexivity]. Qed.
Example C12_ex_known_class :
  trunc_nonascii (repeat e_acute 9) 5 true.
Proof.
  split; [reflexivity | split; [reflexivity|]]. constructor. intros [H _]. discriminate H.
Qed.
Example C12_ex_not_known : ~ trunc_nonascii (map a_ [97; 98; 99]) 2 true.
Proof.
  intros [_ [_ H]]. repeat (inversion H as [? ? Hx | ? ? H']; [apply Hx; split; reflexivity | clear H; rename H' into H]).
  inversion H.
Qed.
Example C12_ex_wide :
  wide_line [a_ 91] [a_ 93] (map a_ [97; 98; 99; 100; 101; 102; 103; 104; 105; 106; 107; 108]) ALeft 8
  = Ok (map a_ [91; 97; 98; 99; 100; 101; 102; 93]).                  (* "[abcdef]" *)
Proof. reflexivity. Qed.
Example C12_ex_wide_last :
  wide_line [a_ 91] [] [a_ 97; a_ 98] ALeft 8 = Ok [a_ 91; a_ 97; a_ 98].   (* "[ab" *)
Proof. reflexivity. Qed.
(* the hypothesis of C12_no_panic is needed: a (fictitious) 1-byte character 3 columns wide *)
Example C12_ex_underflow : padded [mkch 97 3] 0 ALeft true = Panic 1.
Proof. reflexivity. Qed.
(* "|{prefix:>3.red} x" with an empty prefix, colours on: "|" ESC[31m, three blanks, ESC[0m, " x";
   the escape characters are zero columns wide (hypotheses of C12_styled_fits) *)
Example C12_ex_styled_empty :
  let e (c : N) : ch := mkch c 0 in
  let spre := [e 27; e 91; e 51; e 49; e 109] in
  let spost := [e 27; e 91; e 48; e 109] in
  styled_field_line [a_ 124] [a_ 32; a_ 120] [] (Some 3) ARight false (Some (spre, spost))
  = Ok ([a_ 124] ++ spre ++ [a_ 32; a_ 32; a_ 32] ++ spost ++ [a_ 32; a_ 120])
  /\ cols spre = 0 /\ cols spost = 0 /\ cols (@nil ch) <= 3.
Proof. repeat split; try reflexivity. cbn. lia. Qed.
(* the correspondence checker evaluates the hypothesis [cols spre = 0] of C12_styled_fits on the
   observed style texts: the line "x " for an empty {msg:1.S} whose style text "x" is handed over with
   0 columns is accepted, the same observation with "x" measured 1 column wide is a mismatch *)
Example C12_ex_style_text_columns_checked :
  c12_check (CStyled [] [] [] (Some 1) ALeft false [(120, 0, 1)] [] (Some [(120, 1); (32, 1)])) = true
  /\ c12_check (CStyled [] [] [] (Some 1) ALeft false [(120, 1, 1)] [] (Some [(120, 1); (32, 1)])) = false.
Proof. split; vm_compute; reflexivity. Qed.
