(** C15 - Human-readable formatters are total and faithful.
    Only statements; every proof is [exact <lemma from IndProofs.FmtProofs>]. *)
From IndModel Require Import Base Fmt.
From IndGen Require Import Constants.
From IndProofs Require Import FmtProofs.
From Coq Require Import List NArith ZArith String SpecFloat.
Import ListNotations.
Open Scope N_scope.

(** Totality: no formatter reaches a panic site (usize underflow of [len - idx - 1],
    Duration overflow of [cur + cur / 2], [UNITS[idx]] out of range, [UNITS.len() - 1])
    for ANY input: every N (so every u64), every 64-bit pattern / precision, every Duration. *)
Theorem C15_total : forall c : fcase, exists s, fmt_model c = Ok s.
Proof. exact fmt_total. Qed.
Print Assumptions C15_total.

(** HumanCount, digits: removing the commas leaves the decimal numeral of n, which
    consists of digits only, denotes n and has no leading zero (n > 0). *)
Theorem C15_count_numeral : forall n, exists out,
  human_count n = Ok out /\ strip_commas out = dec n
  /\ Forall is_digit (dec n) /\ dval (dec n) = n
  /\ (0 < n -> exists c r, dec n = c :: r /\ c <> CH_0)
  /\ (0 < n -> 10 ^ (len (dec n) - 1) <= n < 10 ^ len (dec n)).
Proof.
  intros n. exists (group (dec n)). split; [apply human_count_ok|].
  split; [apply strip_group, digit_not_comma, dec_digits|].
  split; [apply dec_digits|]. split; [apply dval_dec|]. split; [apply dec_head|apply dec_length].
Qed.
Print Assumptions C15_count_numeral.

(** HumanCount, commas: the character at index j is a comma iff its distance to the end
    of the string is a multiple of four - i.e. exactly before every group of three digits;
    the string has (digits - 1) / 3 commas. *)
Theorem C15_count_commas : forall n, exists out,
  human_count n = Ok out
  /\ List.length out = (List.length (dec n) + (List.length (dec n) - 1) / 3)%nat
  /\ forall j, (j < List.length out)%nat ->
       (nth j out 0 =? CH_COMMA) = (((List.length out - j) mod 4 =? 0)%nat).
Proof.
  intros n. exists (group (dec n)). split; [apply human_count_ok|].
  split; [apply group_length|apply group_commas, digit_not_comma, dec_digits].
Qed.
Print Assumptions C15_count_commas.

(** FormattedDuration prints [Dd ]HH:MM:SS of the whole seconds: two digits per field,
    the day part iff days > 0, the fields are THE decomposition of secs (nanos ignored). *)
Theorem C15_fduration : forall secs nanos,
  let d := secs / 86400 in
  let h := (secs / 3600) mod 24 in
  let m := (secs / 60) mod 60 in
  let s := secs mod 60 in
  formatted_duration secs nanos =
    (if d =? 0 then [] else dec d ++ str "d ") ++ two h ++ [CH_COLON] ++ two m ++ [CH_COLON] ++ two s
  /\ secs = ((d * 24 + h) * 60 + m) * 60 + s /\ h < 24 /\ m < 60 /\ s < 60.
Proof. exact formatted_duration_spec. Qed.
Print Assumptions C15_fduration.

Theorem C15_fduration_unique : forall d h m s d' h' m' s',
  h < 24 -> m < 60 -> s < 60 -> h' < 24 -> m' < 60 -> s' < 60 ->
  ((d * 24 + h) * 60 + m) * 60 + s = ((d' * 24 + h') * 60 + m') * 60 + s' ->
  d = d' /\ h = h' /\ m = m' /\ s = s'.
Proof. exact dhms_unique. Qed.
Print Assumptions C15_fduration_unique.

(** HumanDuration, unit selection (exact Duration arithmetic, all durations): the unit is
    the first of the table with 2 d + unit_(i+1) >= 3 unit_i, i.e. d >= 1.5 unit_i - unit_(i+1)/2,
    seconds if none; a longer duration never selects a smaller unit. *)
Theorem C15_hd_select : forall d,
  hd_loop d 0 UNITS 0 = Ok (hd_idx d)
  /\ (hd_idx d <= 5)%nat
  /\ (forall j, (j < hd_idx d)%nat -> qualifies d j = false)
  /\ ((hd_idx d < 5)%nat -> qualifies d (hd_idx d) = true)
  /\ (forall d', d <= d' -> (hd_idx d' <= hd_idx d)%nat).
Proof.
  intros d. split; [apply hd_loop_spec|]. destruct (hd_idx_rule d) as (A & B & C).
  repeat split; try assumption. intros d'. apply hd_idx_antitone.
Qed.
Print Assumptions C15_hd_select.

(** the five switch points in nanoseconds: 544 d, 10 d, 35.5 h, 89.5 min, 89.5 s *)
Theorem C15_hd_thresholds : forall d,
  hd_idx d =
    if 47001600000000000 <=? d then 0%nat
    else if 864000000000000 <=? d then 1%nat
    else if 127800000000000 <=? d then 2%nat
    else if 5370000000000 <=? d then 3%nat
    else if 89500000000 <=? d then 4%nat
    else 5%nat.
Proof. exact hd_idx_thresholds. Qed.
Print Assumptions C15_hd_thresholds.

(** HumanDuration, shape: "<t><alt>" / "<t> <name>" (t = 1) / "<t> <name>s" with the selected
    unit, and never "1 unit" above seconds (t >= 2 for every unit but the last). *)
Theorem C15_hd_shape : forall secs nanos alternate,
  let i := hd_idx (dur_ns secs nanos) in
  let t := hd_count secs nanos i in
  human_duration secs nanos alternate =
    Ok (if alternate then dec t ++ str (unit_alt i)
        else if t =? 1 then dec t ++ [CH_SP] ++ str (unit_name i)
        else dec t ++ [CH_SP] ++ str (unit_name i) ++ str "s")
  /\ ((i < 5)%nat -> 2 <= t).
Proof. exact human_duration_spec. Qed.
Print Assumptions C15_hd_shape.

(** number_prefix loop: k divisions, k the first index (<= 8) where the running amount is
    below kilo ("largest fitting prefix" of the binary64 amounts). *)
Theorem C15_prefix_loop : forall a kilo,
  exists k : nat,
    np_loop 9 a kilo 0 = (div_iter k a kilo, N.of_nat k)
    /\ (k <= 8)%nat
    /\ (forall j, (j < k)%nat -> BinarySingleNaN.Bleb kilo (div_iter j a kilo) = true)
    /\ (k = 8%nat \/ BinarySingleNaN.Bleb kilo (div_iter k a kilo) = false).
Proof.
  intros a kilo. destruct (np_loop_spec 9 a kilo 0) as (k & H1 & H2 & H3 & H4); [lia|cbn; lia|].
  exists k. rewrite N.add_0_l in *. split; [exact H1|]. split; [lia|]. split; [exact H3|].
  destruct H4 as [H4|H4]; [left; lia|right; exact H4].
Qed.
Print Assumptions C15_prefix_loop.

(** {:.p}: digits of q / 10^p, and for p > 0 a point and exactly p digits of q mod 10^p. *)
Theorem C15_fixed_digits : forall p q,
  fixed_digits p q = dec (q / 10 ^ p) ++
    (if p =? 0 then [] else CH_DOT :: lastdigs (N.to_nat p) (q mod 10 ^ p))
  /\ List.length (lastdigs (N.to_nat p) (q mod 10 ^ p)) = N.to_nat p
  /\ dval (lastdigs (N.to_nat p) (q mod 10 ^ p)) = q mod 10 ^ p.
Proof.
  intros p q. split; [apply fixed_digits_spec|]. split; [apply lastdigs_length|].
  apply lastdigs_val. rewrite N2Nat.id. apply N.mod_lt. apply N.pow_nonzero. discriminate.
Qed.
Print Assumptions C15_fixed_digits.

(** HumanFloatCount for a finite non-zero double (-1)^s m 2^e at precision p (default 4):
    sign, then the grouped digits of q / 10^p, then - if non-empty - a point and the p
    fraction digits of q with the trailing zeros removed, where q = [scaled m e p]. *)
Theorem C15_float_finite : forall precision s m e,
  let p := prec_of precision in
  let q := scaled m e p in
  human_float_count_sf precision (S754_finite s m e)
  = Ok (sign_str s ++ group (dec (q / 10 ^ p)) ++
        (let t := trim_end CH_0 (lastdigs (N.to_nat p) (q mod 10 ^ p)) in
         if (List.length t =? 0)%nat then [] else CH_DOT :: t)).
Proof. exact hfc_finite. Qed.
Print Assumptions C15_float_finite.

(** q is |x| * 10^p rounded to the nearest integer, ties to even (exact integer arithmetic). *)
Theorem C15_float_rounding : forall m e p,
  let q := scaled m e p in
  match e with
  | Z0 => q = Npos m * 10 ^ p
  | Zpos k => q = Npos m * 2 ^ Npos k * 10 ^ p
  | Zneg k =>
      let b := 2 ^ Npos k in let a := Npos m * 10 ^ p in
      (2 * (q * b) <= 2 * a + b) /\ (2 * a <= 2 * (q * b) + b)
      /\ ((2 * (q * b) = 2 * a + b \/ 2 * a = 2 * (q * b) + b) -> N.even q = true)
  end.
Proof. exact scaled_spec. Qed.
Print Assumptions C15_float_rounding.

(** trailing-zero trimming removes exactly the maximal suffix of '0's *)
Theorem C15_trim : forall l, exists k,
  l = trim_end CH_0 l ++ repeat CH_0 k /\ (forall t x, trim_end CH_0 l = t ++ [x] -> x <> CH_0).
Proof. exact (trim_end_spec CH_0). Qed.
Print Assumptions C15_trim.

(** zeros, infinities, NaN and every bit pattern *)
Theorem C15_float_specials : forall precision,
  (forall s, human_float_count_sf precision (S754_zero s) = Ok (sign_str s ++ [CH_0]))
  /\ (forall s, human_float_count_sf precision (S754_infinity s) = Ok (sign_str s ++ str "inf"))
  /\ human_float_count_sf precision S754_nan = Ok (str "NaN").
Proof. intros p. split; [apply hfc_zero|]. split; [apply hfc_inf|apply hfc_nan]. Qed.
Print Assumptions C15_float_specials.

Theorem C15_decode_cases : forall bits,
  (exists s, decode64 bits = S754_zero s) \/ (exists s, decode64 bits = S754_infinity s)
  \/ decode64 bits = S754_nan \/ (exists s m e, decode64 bits = S754_finite s m e).
Proof. exact decode64_cases. Qed.
Print Assumptions C15_decode_cases.

(** The grouping of the integer digits of HumanFloatCount obeys the same comma law. *)
Theorem C15_group_law : forall cs, Forall is_digit cs ->
  strip_commas (group cs) = cs
  /\ List.length (group cs) = (List.length cs + (List.length cs - 1) / 3)%nat
  /\ forall j, (j < List.length (group cs))%nat ->
       (nth j (group cs) 0 =? CH_COMMA) = (((List.length (group cs) - j) mod 4 =? 0)%nat).
Proof.
  intros cs H. pose proof (digit_not_comma cs H) as H'.
  split; [apply strip_group; exact H'|]. split; [apply group_length|apply group_commas; exact H'].
Qed.
Print Assumptions C15_group_law.

(* ------------------------------------------------------------------ non-vacuity *)
Example C15_ex_count : human_count 18446744073709551615 = Ok (str "18,446,744,073,709,551,615").
Proof. vm_compute. reflexivity. Qed.
Example C15_ex_fduration : formatted_duration 18446744073709551615 999999999 = str "213503982334601d 07:00:15".
Proof. vm_compute. reflexivity. Qed.
Example C15_ex_hd : human_duration 5369 999999999 false = Ok (str "89 minutes")
  /\ human_duration 5370 0 false = Ok (str "2 hours") /\ hd_idx (dur_ns 5370 0) = 3%nat.
Proof. vm_compute. repeat split. Qed.
Example C15_ex_float : human_float_count (Some 0) 4612811918334230528 (* 2.5 *) = Ok (str "2")
  /\ human_float_count None 13921425274538295296 (* -1234567.25 *) = Ok (str "-1,234,567.25").
Proof. vm_compute. repeat split. Qed.
Example C15_ex_rounding_neg_exp : exists m k p, scaled m (Zneg k) p = 2 /\ Npos m * 10 ^ p * 2 = 5 * 2 ^ Npos k.
Proof. exists 5%positive, 1%positive, 0. vm_compute. split; reflexivity. Qed.
