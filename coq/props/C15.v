(** C15 - Human-readable formatters are total and faithful.
    Only statements; every proof is [exact <lemma>] from IndProofs.FmtProofs (integer / list
    parts, closed under the global context) or IndProofs.FmtF64Proofs (binary64 parts, Flocq).
    Vocabulary: model/Fmt.v is the transcription of src/format.rs, model/FmtSpec.v holds the
    specification-side definitions ([group], [dval], [hd_idx], [near_within], [bytes_x] ...).
    Clause -> theorem table: docs/C15.md. *)
From IndModel Require Import Base Fmt FmtSpec.
From IndGen Require Import Constants.
From IndProofs Require Import FmtProofs FmtF64Proofs.
From Coq Require Import List NArith ZArith String SpecFloat.
Import ListNotations.
Open Scope N_scope.

(** Totality: no formatter reaches a panic site (1 usize underflow of [len - idx - 1],
    2 Duration overflow of [cur + cur / 2], 3 [UNITS[idx]] out of range, 4 [UNITS.len() - 1],
    5 [prefixes[prefix - 1]] of number_prefix) for ANY input: every N (so every u64), every
    64-bit pattern / precision, every Duration.  (The precision is an argument of the model;
    a format-string precision above u16::MAX cannot be written at all - C14.) *)
Theorem C15_total : forall c : fcase, exists s, fmt_model c = Ok s.
Proof. exact fmt_total. Qed.
Print Assumptions C15_total.

(** HumanCount, digits: removing the commas leaves the decimal numeral of n, which
    consists of digits only, denotes n and has no leading zero (n > 0). *)
Theorem C15_count_numeral : forall n, exists out,
  human_count n = Ok out /\ strip_commas out = dec n
  /\ Forall is_digit (dec n) /\ dval (dec n) = n
  /\ (0 < n -> exists c r, dec n = c :: r /\ c <> CH_0)
  /\ (0 < n -> 10 ^ (len (dec n) - 1) <= n < 10 ^ len (dec n)).
Proof. exact count_numeral. Qed.
Print Assumptions C15_count_numeral.

(** HumanCount, commas: the character at index j is a comma iff its distance to the end
    of the string is a multiple of four - i.e. exactly before every group of three digits;
    the string has (digits - 1) / 3 commas. *)
Theorem C15_count_commas : forall n, exists out,
  human_count n = Ok out
  /\ List.length out = (List.length (dec n) + (List.length (dec n) - 1) / 3)%nat
  /\ forall j, (j < List.length out)%nat ->
       (nth j out 0 =? CH_COMMA) = (((List.length out - j) mod 4 =? 0)%nat).
Proof. exact count_commas. Qed.
Print Assumptions C15_count_commas.

(** FormattedDuration prints [Dd ]HH:MM:SS of the whole seconds: two digits per field,
    the day part iff days > 0, the fields are THE decomposition of secs (nanos ignored). *)
Theorem C15_fduration : forall secs nanos,
  let d := secs / 86400 in
  let h := (secs / 3600) mod 24 in
  let m := (secs / 60) mod 60 in
  let s := secs mod 60 in
  formatted_duration secs nanos =
    (if d =? 0 then [] else dec d ++ str "d ") ++ two h ++ [CH_COLON] ++ two m ++ [CH_COLON] ++ two s
  /\ secs = ((d * 24 + h) * 60 + m) * 60 + s /\ h < 24 /\ m < 60 /\ s < 60.
Proof. exact formatted_duration_spec. Qed.
Print Assumptions C15_fduration.

Theorem C15_fduration_unique : forall d h m s d' h' m' s',
  h < 24 -> m < 60 -> s < 60 -> h' < 24 -> m' < 60 -> s' < 60 ->
  ((d * 24 + h) * 60 + m) * 60 + s = ((d' * 24 + h') * 60 + m') * 60 + s' ->
  d = d' /\ h = h' /\ m = m' /\ s = s'.
Proof. exact dhms_unique. Qed.
Print Assumptions C15_fduration_unique.

(** HumanDuration, unit selection (exact Duration arithmetic, all durations): the unit is
    the first of the table with 2 d + unit_(i+1) >= 3 unit_i, i.e. d >= 1.5 unit_i - unit_(i+1)/2,
    seconds if none; a longer duration never selects a smaller unit. *)
Theorem C15_hd_select : forall d,
  hd_loop d 0 UNITS 0 = Ok (hd_idx d)
  /\ (hd_idx d <= 5)%nat
  /\ (forall j, (j < hd_idx d)%nat -> qualifies d j = false)
  /\ ((hd_idx d < 5)%nat -> qualifies d (hd_idx d) = true)
  /\ (forall d', d <= d' -> (hd_idx d' <= hd_idx d)%nat).
Proof. exact hd_select. Qed.
Print Assumptions C15_hd_select.

(** the five switch points in nanoseconds: 544 d, 10 d, 35.5 h, 89.5 min, 89.5 s *)
Theorem C15_hd_thresholds : forall d,
  hd_idx d =
    if 47001600000000000 <=? d then 0%nat
    else if 864000000000000 <=? d then 1%nat
    else if 127800000000000 <=? d then 2%nat
    else if 5370000000000 <=? d then 3%nat
    else if 89500000000 <=? d then 4%nat
    else 5%nat.
Proof. exact hd_idx_thresholds. Qed.
Print Assumptions C15_hd_thresholds.

(** HumanDuration, shape: "<t><alt>" / "<t> <name>" (t = 1) / "<t> <name>s" with the selected
    unit, and never "1 unit" above seconds (t >= 2 for every unit but the last). *)
Theorem C15_hd_shape : forall secs nanos alternate,
  let i := hd_idx (dur_ns secs nanos) in
  let t := hd_count secs nanos i in
  human_duration secs nanos alternate =
    Ok (if alternate then dec t ++ str (unit_alt i)
        else if t =? 1 then dec t ++ [CH_SP] ++ str (unit_name i)
        else dec t ++ [CH_SP] ++ str (unit_name i) ++ str "s")
  /\ ((i < 5)%nat -> 2 <= t).
Proof. exact human_duration_spec. Qed.
Print Assumptions C15_hd_shape.

(** HumanDuration, nearest count (binary64 count of line 120, every Duration): the unclamped
    count r satisfies |r unit - d| <= unit/2 + d/2^50 ([near_within], integers, ns; the
    second term is the binary64 slack: 3 roundings); the printed count t is r, except that a
    "1 unit" above seconds is printed as "2 units" - only for d between the switch point
    (1.5 unit - half the next smaller unit) and 1.5 unit (+ slack) - so that always
    |t unit - d| <= (unit + next smaller unit)/2 + d/2^50. *)
Theorem C15_hd_nearest : forall secs nanos,
  dur_valid secs nanos ->
  let d := dur_ns secs nanos in
  let i := hd_idx d in
  let r := hd_raw_count secs nanos (unit_secs i) in
  let t := hd_count secs nanos i in
  near_within r (unit_ns i) d (unit_ns i)
  /\ (t = r \/ ((i < 5)%nat /\ r < 2 /\ t = 2
                /\ 3 * unit_ns i <= 2 * d + unit_ns (S i)
                /\ 2 ^ 51 * d <= 2 ^ 51 * unit_ns i + 2 ^ 50 * unit_ns i + 2 * d))
  /\ near_within t (unit_ns i) d (unit_ns i + unit_ns (S i)).
Proof. exact hd_nearest. Qed.
Print Assumptions C15_hd_nearest.

(** HumanDuration is monotone in the duration: for ALL pairs of Durations d <= d' the quantity
    shown (count x unit, in ns) does not decrease - inside a unit and across every unit
    switch (the largest value shown with a unit is below "2" of the next larger unit). *)
Theorem C15_hd_monotone : forall secs nanos secs' nanos',
  dur_valid secs nanos -> dur_valid secs' nanos' ->
  dur_ns secs nanos <= dur_ns secs' nanos' ->
  let i := hd_idx (dur_ns secs nanos) in
  let i' := hd_idx (dur_ns secs' nanos') in
  hd_count secs nanos i * unit_ns i <= hd_count secs' nanos' i' * unit_ns i'.
Proof. exact hd_monotone. Qed.
Print Assumptions C15_hd_monotone.

(** HumanBytes / BinaryBytes (binary = true, base 1024) and DecimalBytes (binary = false,
    base 1000), every u64 n, x = [bytes_x n] = n as f64 (see [C15_bytes_value]):
    k <= 6 is the LARGEST FITTING PREFIX of x, exactly: base^k <= x < base^(k+1);
    k = 0: the output is the whole number n and " B";
    k > 0: the output is q/100 with exactly two decimals ([fixed_digits 2 q], see
    [C15_fixed_digits]), a space, the k-th symbol and "B", where q is x / base^k in
    hundredths rounded to nearest - exactly, ties to even, for base 1024 (the divisions are
    exact), and within 2^-32 of a hundredth for base 1000 (k <= 6 rounded divisions);
    100 <= q <= 100 base (q = 100 base is reached: "1024.00 KiB", the prefix is chosen before
    the value is rounded to two decimals - docs/C15.md, Interpretations). *)
Theorem C15_bytes_shape : forall binary n, n <= U64MAX ->
  let b := bytes_base binary in
  let x := bytes_x n in
  exists (k : nat) (q : N),
    (k <= 6)%nat
    /\ (k = 0%nat \/ b ^ N.of_nat k <= x) /\ x < b ^ (N.of_nat k + 1)
    /\ bytes_fmt binary n =
         Ok (if (k =? 0)%nat then dec n ++ str " B"
             else fixed_digits 2 q ++ [CH_SP] ++ str (bytes_sym binary k) ++ str "B")
    /\ (k = 0%nat -> x = n)
    /\ ((0 < k)%nat -> hundredths_approx q x (b ^ N.of_nat k) /\ 100 <= q <= 100 * b)
    /\ ((0 < k)%nat -> binary = true -> hundredths_exact q x (b ^ N.of_nat k)).
Proof. exact bytes_shape. Qed.
Print Assumptions C15_bytes_shape.

(** the value that is formatted, [self.0 as f64]: n itself up to 2^53, beyond that the
    nearest binary64 number (an integer, relative distance at most 2^-53) *)
Theorem C15_bytes_value : forall n, n <= U64MAX ->
  2 ^ 53 * (bytes_x n - n) <= n /\ 2 ^ 53 * (n - bytes_x n) <= n /\ (n <= 2 ^ 53 -> bytes_x n = n).
Proof. exact bytes_x_near. Qed.
Print Assumptions C15_bytes_value.

(** number_prefix loop: k divisions, k the first index (<= 8) where the running amount is
    below kilo - the law of the loop for ARBITRARY binary64 amounts and kilo (auxiliary; what
    it means for the byte formatters is [C15_bytes_shape]). *)
Theorem C15_prefix_loop : forall a kilo,
  exists k : nat,
    np_loop 9 a kilo 0 = (div_iter k a kilo, N.of_nat k)
    /\ (k <= 8)%nat
    /\ (forall j, (j < k)%nat -> BinarySingleNaN.Bleb kilo (div_iter j a kilo) = true)
    /\ (k = 8%nat \/ BinarySingleNaN.Bleb kilo (div_iter k a kilo) = false).
Proof. exact prefix_loop. Qed.
Print Assumptions C15_prefix_loop.

(** {:.p}: digits of q / 10^p, and for p > 0 a point and exactly p digits of q mod 10^p. *)
Theorem C15_fixed_digits : forall p q,
  fixed_digits p q = dec (q / 10 ^ p) ++
    (if p =? 0 then [] else CH_DOT :: lastdigs (N.to_nat p) (q mod 10 ^ p))
  /\ List.length (lastdigs (N.to_nat p) (q mod 10 ^ p)) = N.to_nat p
  /\ dval (lastdigs (N.to_nat p) (q mod 10 ^ p)) = q mod 10 ^ p.
Proof. exact fixed_digits_full. Qed.
Print Assumptions C15_fixed_digits.

(** HumanFloatCount for a finite non-zero double (-1)^s m 2^e at precision p (default 4):
    sign, then the grouped digits of q / 10^p, then - if non-empty - a point and the p
    fraction digits of q with the trailing zeros removed, where q = [scaled m e p]. *)
Theorem C15_float_finite : forall precision s m e,
  let p := prec_of precision in
  let q := scaled m e p in
  human_float_count_sf precision (S754_finite s m e)
  = Ok (sign_str s ++ group (dec (q / 10 ^ p)) ++
        (let t := trim_end CH_0 (lastdigs (N.to_nat p) (q mod 10 ^ p)) in
         if (List.length t =? 0)%nat then [] else CH_DOT :: t)).
Proof. exact hfc_finite. Qed.
Print Assumptions C15_float_finite.

(** q is |x| * 10^p rounded to the nearest integer, ties to even (exact integer arithmetic). *)
Theorem C15_float_rounding : forall m e p,
  let q := scaled m e p in
  match e with
  | Z0 => q = Npos m * 10 ^ p
  | Zpos k => q = Npos m * 2 ^ Npos k * 10 ^ p
  | Zneg k =>
      let b := 2 ^ Npos k in let a := Npos m * 10 ^ p in
      (2 * (q * b) <= 2 * a + b) /\ (2 * a <= 2 * (q * b) + b)
      /\ ((2 * (q * b) = 2 * a + b \/ 2 * a = 2 * (q * b) + b) -> N.even q = true)
  end.
Proof. exact scaled_spec. Qed.
Print Assumptions C15_float_rounding.

(** trailing-zero trimming removes exactly the maximal suffix of '0's *)
Theorem C15_trim : forall l, exists k,
  l = trim_end CH_0 l ++ repeat CH_0 k /\ (forall t x, trim_end CH_0 l = t ++ [x] -> x <> CH_0).
Proof. exact (trim_end_spec CH_0). Qed.
Print Assumptions C15_trim.

(** zeros, infinities, NaN and every bit pattern *)
Theorem C15_float_specials : forall precision,
  (forall s, human_float_count_sf precision (S754_zero s) = Ok (sign_str s ++ [CH_0]))
  /\ (forall s, human_float_count_sf precision (S754_infinity s) = Ok (sign_str s ++ str "inf"))
  /\ human_float_count_sf precision S754_nan = Ok (str "NaN").
Proof. exact float_specials. Qed.
Print Assumptions C15_float_specials.

Theorem C15_decode_cases : forall bits,
  (exists s, decode64 bits = S754_zero s) \/ (exists s, decode64 bits = S754_infinity s)
  \/ decode64 bits = S754_nan \/ (exists s m e, decode64 bits = S754_finite s m e).
Proof. exact decode64_cases. Qed.
Print Assumptions C15_decode_cases.

(** The grouping of the integer digits of HumanFloatCount obeys the same comma law. *)
Theorem C15_group_law : forall cs, Forall is_digit cs ->
  strip_commas (group cs) = cs
  /\ List.length (group cs) = (List.length cs + (List.length cs - 1) / 3)%nat
  /\ forall j, (j < List.length (group cs))%nat ->
       (nth j (group cs) 0 =? CH_COMMA) = (((List.length (group cs) - j) mod 4 =? 0)%nat).
Proof. exact group_law. Qed.
Print Assumptions C15_group_law.

(* ------------------------------------------------------------------ non-vacuity *)
Example C15_ex_count : human_count 18446744073709551615 = Ok (str "18,446,744,073,709,551,615").
Proof. vm_compute. reflexivity. Qed.
Example C15_ex_fduration : formatted_duration 18446744073709551615 999999999 = str "213503982334601d 07:00:15".
Proof. vm_compute. reflexivity. Qed.
Example C15_ex_hd : human_duration 5369 999999999 false = Ok (str "89 minutes")
  /\ human_duration 5370 0 false = Ok (str "2 hours") /\ hd_idx (dur_ns 5370 0) = 3%nat.
Proof. vm_compute. repeat split. Qed.
Example C15_ex_hd_valid : dur_valid 5369 999999999 /\ dur_valid U64MAX 999999999.
Proof. split; split; vm_compute; try reflexivity; discriminate. Qed.
(** across the switch from seconds to minutes: 89.499999999 s shows 89 s, 89.5 s shows 2 min *)
Example C15_ex_hd_switch :
  hd_count 89 499999999 (hd_idx (dur_ns 89 499999999)) * unit_ns (hd_idx (dur_ns 89 499999999)) = 89000000000
  /\ hd_count 89 500000000 (hd_idx (dur_ns 89 500000000)) * unit_ns (hd_idx (dur_ns 89 500000000)) = 120000000000.
Proof. vm_compute. split; reflexivity. Qed.
(** [near_within] discriminates: 89.4999999998 min is "89 minutes", not "90 minutes" (off by 1 ns more than half a unit) *)
Example C15_ex_near : near_within 89 (unit_ns 4) (dur_ns 5369 999999999) (unit_ns 4)
  /\ ~ near_within 90 (unit_ns 4) (dur_ns 5369 999999999) (unit_ns 4).
Proof.
  unfold near_within. split; [split; vm_compute; discriminate|].
  intros [A _]. vm_compute in A. apply A. reflexivity.
Qed.
(** the clamp window: 89.5 s .. 90 s is "2 minutes" although the nearest count is 1 *)
Example C15_ex_hd_clamp : hd_raw_count 89 500000000 60 = 1 /\ hd_count 89 500000000 4 = 2
  /\ human_duration 89 500000000 false = Ok (str "2 minutes").
Proof. vm_compute. repeat split. Qed.
Example C15_ex_bytes : bytes_fmt true 1536 = Ok (str "1.50 KiB") /\ bytes_fmt false 1500 = Ok (str "1.50 kB")
  /\ bytes_fmt true 1023 = Ok (str "1023 B") /\ bytes_fmt false U64MAX = Ok (str "18.45 EB")
  /\ bytes_fmt true U64MAX = Ok (str "16.00 EiB") /\ bytes_x U64MAX = 2 ^ 64.
Proof. vm_compute. repeat split. Qed.
(** the prefix is chosen before the value is rounded to two decimals: q = 100 base is reached *)
Example C15_ex_bytes_boundary : bytes_fmt true 1048575 = Ok (str "1024.00 KiB")
  /\ bytes_fmt false 999999 = Ok (str "1000.00 kB") /\ bytes_fmt false 999994 = Ok (str "999.99 kB").
Proof. vm_compute. repeat split. Qed.
Example C15_ex_float : human_float_count (Some 0) 4612811918334230528 (* 2.5 *) = Ok (str "2")
  /\ human_float_count None 13921425274538295296 (* -1234567.25 *) = Ok (str "-1,234,567.25").
Proof. vm_compute. repeat split. Qed.
Example C15_ex_rounding_neg_exp : exists m k p, scaled m (Zneg k) p = 2 /\ Npos m * 10 ^ p * 2 = 5 * 2 ^ Npos k.
Proof. exists 5%positive, 1%positive, 0. vm_compute. split; reflexivity. Qed.
