(** C19 - terminal geometry: wrapped rows and height overflow are accounted for.
    Model: model/Text.v (wrapped_height, visual_line_count), model/Draw.v (draw_to_term with its
    height `break`), model/Term.v (terminal: an ASSUMPTION, validated against the vt100 crate by
    the C01 check), model/SingleBar.v.  Proofs: TermProofs.v, SingleBarProofs.v,
    GeomCeilProofs.v / GeomF64Proofs.v (Flocq).  The MultiProgress side of C19 is exercised by the
    correspondence + screen oracle of the harness (bin c19), see docs/C19.md. *)
From Coq Require Import List NArith ZArith Reals Lia.
From Flocq Require Import Core BinarySingleNaN.
From IndModel Require Import SingleBar SysCheck.
From IndProofs Require Import TermProofs SingleBarProofs GeomCeilProofs GeomF64Proofs.
From Coq Require Import String.
Import ListNotations.
Open Scope N_scope.

(** (a) what a string occupies: rows of W cells; max 1 (ceil (k / W)) of them *)
Theorem C19_chunks_rows : forall (W : nat) (s : text), (1 <= W)%nat ->
  chunks W s = (if Nat.leb (List.length s) W then [s] else firstn W s :: chunks W (skipn W s))
  /\ List.length (chunks W s) = Nat.max 1 ((List.length s + W - 1) / W)
  /\ List.concat (chunks W s) = s.
Proof.
  intros W s HW. split; [exact (chunks_unfold W s HW)|].
  split; [exact (chunks_length W s HW) | exact (chunks_concat W s)].
Qed.
Print Assumptions C19_chunks_rows.

(** (a) wrapped_height / visual_line_count are exactly the numbers of rows that wrapping
    produces, and a line written from a well-formed cursor occupies exactly those rows *)
Theorem C19_wrapped_height_rows : forall (W : N), 1 <= W ->
  (forall l : line, wrapped_height l W = N.of_nat (List.length (chunks (N.to_nat W) (lt l))))
  /\ (forall ls : list line,
        visual_line_count ls W = N.of_nat (List.length (wrap (N.to_nat W) (map lt ls))))
  /\ (forall (H : nat) (C : list (list N)) (t : term) (x : text), (1 <= H)%nat ->
        ready (N.to_nat W) H C t -> (x <> [] \/ t_col t = 0%nat) ->
        ready (N.to_nat W) H (C ++ chunks (N.to_nat W) x) (exec (N.to_nat W) H t (TLine x))).
Proof.
  intros W HW. split; [intros l; exact (wrapped_height_chunks l W HW)|].
  split; [intros ls; exact (visual_line_count_wrap ls W HW)|].
  intros H C t x HH Hr Hx.
  exact (proj1 (line_spec (N.to_nat W) H C t x ltac:(lia) HH Hr Hx)).
Qed.
Print Assumptions C19_wrapped_height_rows.

(** (b) the integer ceiling of the model is what the Rust code computes in f64:
    (cols as f64 / width as f64).ceil() as usize, for cols, width < 2^53 (both conversions exact,
    the division correctly rounded to nearest-even, ceil and the cast exact) *)
Theorem C19_wrapped_height_f64_exact : forall (l : line) (W : N),
  lwidth l < 2^53 -> 1 <= W < 2^53 ->
  wrapped_height l W =
    N.max 1 (Z.to_N (Zceil (round radix2 (FLT_exp (-1074) 53) ZnearestE
                              (IZR (Z.of_N (lwidth l)) / IZR (Z.of_N W))))).
Proof. exact wrapped_height_is_f64_ceiling. Qed.
Print Assumptions C19_wrapped_height_f64_exact.

(** (b) ... and the binary64 division of the two (exactly represented) operands is finite and is
    that rounded quotient (Flocq's IEEE-754 division, round to nearest even) *)
Theorem C19_f64_div_is_rounded_quotient :
  forall (Hp : Prec_gt_0 53) (Hm : Prec_lt_emax 53 1024)
         (fa fb : binary_float 53 1024) (a b : Z),
  (0 <= a < 2^53)%Z -> (1 <= b < 2^53)%Z ->
  is_finite fa = true -> B2R fa = IZR a -> B2R fb = IZR b ->
  is_finite (@Bdiv 53 1024 Hp Hm mode_NE fa fb) = true /\
  B2R (@Bdiv 53 1024 Hp Hm mode_NE fa fb)
  = round radix2 (FLT_exp (-1074) 53) ZnearestE (IZR a / IZR b).
Proof. exact f64_div_is_rounded_quotient. Qed.
Print Assumptions C19_f64_div_is_rounded_quotient.

(** (c) one draw (every line vector, every previous count, W, H): the new last_line_count is the
    number of rows of the painted Bar lines, at most H; the painted lines P are the MAXIMAL prefix
    (the first omitted line is a Bar line that does not fit); everything is painted as soon as
    the Bar lines fit (omitted bars appear as soon as there is room: recomputed from scratch) *)
Theorem C19_draw_rows_bounded : forall (W H : N) (ls : list line) (n : N) (below : bool),
  let n' := snd (fst (draw_to_term ls n Top below W H)) in
  let P := painted ls W H 0 in
  n' = bar_rows P W /\ n' <= H
  /\ (exists rest, ls = P ++ rest
        /\ match rest with
           | [] => True
           | l :: _ => is_bar l = true /\ H < bar_rows P W + wrapped_height l W
           end)
  /\ (bar_rows ls W <= H -> P = ls).
Proof. exact draw_rows_bounded. Qed.
Print Assumptions C19_draw_rows_bounded.

(** (c) over every history of the single bar, without any proviso: after every op
    last_line_count = rows of the maximal fitting prefix of the last painted frame <= H *)
Theorem C19_rows_bounded : forall (W H : N) (s0 : sys) (t0 : term) (h : list (N * op)),
  sb_initial s0 -> hist_ok h ->
  let st := sb_run W H (s0, ghost0, t0) h in
  exists b tg, s_bars (fst (fst st)) = [b] /\ b_target b = TTerm tg
    /\ tt_n tg = bar_rows (fitting_prefix W H (g_frame (snd (fst st)))) W
    /\ tt_n tg <= H.
Proof. exact c19_rows_bounded. Qed.
Print Assumptions C19_rows_bounded.

(** (d) erase exactness WITHOUT the Fits proviso, for every W >= 1, H >= 1: after every history
    outside the narrow class [NoTextCut] excludes, the terminal shows exactly
        pre ++ wrap W log ++ wrap W (maximal fitting prefix of the frame)
    i.e. every earlier frame (wrapped, taller than the terminal, cut by the height `break`) has
    been blanked completely by the next draw and nothing above it was touched. *)
Theorem C19_erase_exact :
  forall (W H : N) (pre : list (list N)) (s0 : sys) (t0 : term) (h : list (N * op)),
  1 <= W -> 1 <= H ->
  sb_initial s0 -> ready (N.to_nat W) (N.to_nat H) pre t0 -> hist_ok h -> NoTextCut W H s0 h ->
  let g := snd (fst (sb_run W H (s0, ghost0, t0) h)) in
  let t := snd (sb_run W H (s0, ghost0, t0) h) in
  exists k, screen (N.to_nat W) t
            = map (pad (N.to_nat W)) (expected_rows_cut W H pre g) ++ repeat (repeat SP (N.to_nat W)) k.
Proof. intros W H pre s0 t0 h HW HH. exact (c19_erase_exact W H HW HH pre s0 t0 h). Qed.
Print Assumptions C19_erase_exact.

(** the clear loop itself, from the end of the last of the n rows F at ANY column, n - 1 rows
    within reach: exactly F is blanked, the rows C above are untouched *)
Theorem C19_clear_loop_exact :
  forall (Wn Hn : nat) (C F : list (list N)) (k v : nat) (n : N),
  F <> [] -> List.length F = N.to_nat n -> (N.to_nat n - 1 <= v)%nat -> (v <= Hn - 1)%nat ->
  run_ops Wn Hn (at_end (C ++ F) k v) (clear_ops n)
  = app_state C [] (N.to_nat n - 1 + k) (v - (N.to_nat n - 1)).
Proof. exact erase_at_end. Qed.
Print Assumptions C19_clear_loop_exact.

(** the class NoTextCut excludes is a genuine defect (reproduced on the real code by the harness,
    class open finding D14, oracle class 'height-cut-leaves-cursor-mid-row'): W = 3, H = 1, template "AAAA" (2 rows > H):
    tick; println "x"; println "y" leaves the single row "xy" - the second line has no row. *)
Definition cut_s0 : sys :=
  mksys [new_bar None FAndLeave [PLit (t "AAAA")] (TTerm (new_ttarget None 0)) 0] (new_ms THidden) 0.
Definition cut_h : list (N * op) :=
  [(1000000000, OTick 0); (2000000000, OPrintln 0 (t "x")); (3000000000, OPrintln 0 (t "y"))].

Theorem C19_text_cut_refuted :
  sb_initial cut_s0 /\ hist_ok cut_h /\ ~ NoTextCut 3 1 cut_s0 cut_h
  /\ let st := sb_run 3 1 (cut_s0, ghost0, term_init) cut_h in
     g_log (snd (fst st)) = [t "x"; t "y"]
     /\ expected_rows_cut 3 1 [] (snd (fst st)) = [t "x"; t "y"]
     /\ all_rows (snd st) = [t "xy"].
Proof.
  split; [eexists; eexists; repeat split|]. split; [repeat constructor|].
  split; [vm_compute; discriminate|]. vm_compute. repeat split.
Qed.
Print Assumptions C19_text_cut_refuted.

(** D17 (open finding, class 'finished-bar-reaped-behind-the-cut') on the MultiProgress model
    (Sys.ms_draw): 3x2 terminal, members Z, "P\np", Q, R (all finish-and-leave).  After every bar was
    drawn, P and Q are dropped (zombies behind the live Z), Z is removed: the redraw paints P (2 rows
    = the whole height), Q is behind the cut and NOT painted - yet the reap loop takes BOTH head
    zombies off the list (Q's slot 2 is freed).  Q's final frame is never written by any call of
    the whole history although afterwards only R (1 row) is left and Q would fit. *)
Definition d17_case : syscase :=
  mkcase 3 2 [] None (ITerm None)
    [(None, FAndLeave, [PLit (t "Z")], IHidden);
     (None, FAndLeave, [PLit (t "P"); PNewLine; PLit (t "p")], IHidden);
     (None, FAndLeave, [PLit (t "Q")], IHidden);
     (None, FAndLeave, [PLit (t "R")], IHidden)]
    [(1000000000, OInsert BEnd 0); (2000000000, OInsert BEnd 1); (3000000000, OInsert BEnd 2);
     (4000000000, OInsert BEnd 3); (5000000000, OTick 0); (6000000000, OTick 1); (7000000000, OTick 2);
     (8000000000, OTick 3); (9000000000, ODrop 1); (10000000000, ODrop 2); (11000000000, ORemove 0);
     (12000000000, OTick 3); (13000000000, OTick 3)] [].

Theorem C19_D17_reaped_behind_cut_witness :
  let r := run_sys 3 2 (case_init d17_case) (c_ops d17_case) in
  let calls := List.concat (snd r) in
  ms_order (s_mp (fst r)) = [3]                      (* only R is still a member ... *)
  /\ ms_free (s_mp (fst r)) = [2; 1; 0]               (* ... Q's slot (2) has been reaped *)
  /\ existsb (writes_char 81) calls = false           (* no call ever wrote a 'Q' *)
  /\ existsb (writes_char 80) calls = true            (* (P was painted) *)
  /\ all_rows (run_ops 3 2 term_init calls) = [t "P"; t "pR "; t "R  "]
  /\ visual_line_count [mkline KBar (t "Q"); mkline KBar (t "R")] 3 <= 2.   (* Q and R would fit *)
Proof. vm_compute. repeat split; discriminate. Qed.
Print Assumptions C19_D17_reaped_behind_cut_witness.

(** hypotheses are satisfiable by a non-trivial history: a 2x3 terminal, a three-line template
    whose frame (1 + 2 + 1 = 4 rows) is taller than the terminal: only the leading lines are
    painted; after the message shrinks everything fits and is painted *)
Definition tall_s0 : sys :=
  mksys [new_bar (Some 5) FAndLeave [PLit (t "ab"); PNewLine; PMsg; PNewLine; PPos]
                 (TTerm (new_ttarget None 0)) 0] (new_ms THidden) 0.
Definition tall_h : list (N * op) :=
  [(1000000000, OSetMsg 0 (t "wxyz"));
   (2000000000, OPrintln 0 (t "log"));
   (3000000000, OSetMsg 0 (t "w"));
   (4000000000, OInc 0 1)].

Example C19_hypotheses_satisfiable :
  sb_initial tall_s0 /\ hist_ok tall_h /\ NoTextCut 2 3 tall_s0 tall_h /\ ~ Fits 2 3 tall_s0 tall_h.
Proof.
  split; [eexists; eexists; repeat split|]. split; [repeat constructor|].
  split; [vm_compute; reflexivity | vm_compute; discriminate].
Qed.

Example C19_example_cut_then_room :
  let st1 := sb_run 2 3 (tall_s0, ghost0, term_init) (firstn 2 tall_h) in
  let st2 := sb_run 2 3 (tall_s0, ghost0, term_init) tall_h in
  map lt (fit_prefix 2 3 (g_frame (snd (fst st1)))) = [t "ab"; t "wxyz"]
  /\ screen 2 (snd st1) = map (pad 2) [t "lo"; t "g"; t "ab"; t "wx"; t "yz"]
  /\ map lt (fit_prefix 2 3 (g_frame (snd (fst st2)))) = [t "ab"; t "w"; t "1"]
  /\ screen 2 (snd st2) = map (pad 2) [t "lo"; t "g"; t "ab"; t "w"; t "1"].
Proof. vm_compute. repeat split. Qed.

Example C19_wrapped_height_examples :
  wrapped_height (mkline KBar (t "")) 5 = 1 /\ wrapped_height (mkline KBar (t "12345")) 5 = 1
  /\ wrapped_height (mkline KBar (t "123456")) 5 = 2 /\ wrapped_height (mkline KBar (t "1234567890")) 5 = 2
  /\ wrapped_height (mkline KBar (t "x")) 1 = 1.
Proof. vm_compute. repeat split. Qed.
