(** C19 - terminal geometry: wrapped rows and height overflow are accounted for.
    Model: model/Text.v (wrapped_height, visual_line_count), model/Draw.v (draw_to_term with its
    height `break`), model/Term.v (terminal: an ASSUMPTION, validated against the vt100 crate by
    the C01 check), model/SingleBar.v.  Proofs: TermProofs.v, SingleBarProofs.v,
    GeomCeilProofs.v / GeomF64Proofs.v (Flocq).  The MultiProgress side of C19 is exercised by the
    correspondence + screen oracle of the harness (bin c19), see docs/C19.md. *)
From Coq Require Import List NArith ZArith Reals Lia.
From Flocq Require Import Core BinarySingleNaN.
From IndModel Require Import SingleBar SysCheck.
From IndProofs Require Import TermProofs SingleBarProofs GeomCeilProofs GeomF64Proofs.
From Coq Require Import String.
Import ListNotations.
Open Scope N_scope.

(** (a) what a string occupies: rows of W cells; max 1 (ceil (k / W)) of them *)
Theorem C19_chunks_rows : forall (W : nat) (s : text), (1 <= W)%nat ->
  chunks W s = (if Nat.leb (List.length s) W then [s] else firstn W s :: chunks W (skipn W s))
  /\ List.length (chunks W s) = Nat.max 1 ((List.length s + W - 1) / W)
  /\ List.concat (chunks W s) = s.
Proof.
  intros W s HW. split; [exact (chunks_unfold W s HW)|].
  split; [exact (chunks_length W s HW) | exact (chunks_concat W s)].
Qed.
Print Assumptions C19_chunks_rows.

(** (a) wrapped_height / visual_line_count are exactly the numbers of rows that wrapping
    produces, and a line written from a well-formed cursor occupies exactly those rows *)
Theorem C19_wrapped_height_rows : forall (W : N), 1 <= W ->
  (forall l : line, wrapped_height l W = N.of_nat (List.length (chunks (N.to_nat W) (lt l))))
  /\ (forall ls : list line,
        visual_line_count ls W = N.of_nat (List.length (wrap (N.to_nat W) (map lt ls))))
  /\ (forall (H : nat) (C : list (list N)) (t : term) (x : text), (1 <= H)%nat ->
        ready (N.to_nat W) H C t -> (x <> [] \/ t_col t = 0%nat) ->
        ready (N.to_nat W) H (C ++ chunks (N.to_nat W) x) (exec (N.to_nat W) H t (TLine x))).
Proof.
  intros W HW. split; [intros l; exact (wrapped_height_chunks l W HW)|].
  split; [intros ls; exact (visual_line_count_wrap ls W HW)|].
  intros H C t x HH Hr Hx.
  exact (proj1 (line_spec (N.to_nat W) H C t x ltac:(lia) HH Hr Hx)).
Qed.
Print Assumptions C19_wrapped_height_rows.

(** (b) the integer ceiling of the model is what the Rust code computes in f64:
    (cols as f64 / width as f64).ceil() as usize, for cols, width < 2^53 (both conversions exact,
    the division correctly rounded to nearest-even, ceil and the cast exact) *)
Theorem C19_wrapped_height_f64_exact : forall (l : line) (W : N),
  lwidth l < 2^53 -> 1 <= W < 2^53 ->
  wrapped_height l W =
    N.max 1 (Z.to_N (Zceil (round radix2 (FLT_exp (-1074) 53) ZnearestE
                              (IZR (Z.of_N (lwidth l)) / IZR (Z.of_N W))))).
Proof. exact wrapped_height_is_f64_ceiling. Qed.
Print Assumptions C19_wrapped_height_f64_exact.

(** (b) ... and the binary64 division of the two (exactly represented) operands is finite and is
    that rounded quotient (Flocq's IEEE-754 division, round to nearest even) *)
Theorem C19_f64_div_is_rounded_quotient :
  forall (Hp : Prec_gt_0 53) (Hm : Prec_lt_emax 53 1024)
         (fa fb : binary_float 53 1024) (a b : Z),
  (0 <= a < 2^53)%Z -> (1 <= b < 2^53)%Z ->
  is_finite fa = true -> B2R fa = IZR a -> B2R fb = IZR b ->
  is_finite (@Bdiv 53 1024 Hp Hm mode_NE fa fb) = true /\
  B2R (@Bdiv 53 1024 Hp Hm mode_NE fa fb)
  = round radix2 (FLT_exp (-1074) 53) ZnearestE (IZR a / IZR b).
Proof. exact f64_div_is_rounded_quotient. Qed.
Print Assumptions C19_f64_div_is_rounded_quotient.

(** (c) one draw (every line vector, every previous count, W, H): the new last_line_count is the
    number of rows of the painted Bar lines, at most H; the painted lines P are the MAXIMAL prefix
    (the first omitted line is a Bar line that does not fit); everything is painted as soon as
    the Bar lines fit (omitted bars appear as soon as there is room: recomputed from scratch) *)
Theorem C19_draw_rows_bounded : forall (W H : N) (ls : list line) (n : N) (below : bool),
  let n' := snd (fst (draw_to_term ls n Top below W H)) in
  let P := painted ls W H 0 in
  n' = bar_rows P W /\ n' <= H
  /\ (exists rest, ls = P ++ rest
        /\ match rest with
           | [] => True
           | l :: _ => is_bar l = true /\ H < bar_rows P W + wrapped_height l W
           end)
  /\ (bar_rows ls W <= H -> P = ls).
Proof. exact draw_rows_bounded. Qed.
Print Assumptions C19_draw_rows_bounded.

(** (c) over every history of the single bar in the C01 alphabet outside the situation [hist_ok]
    excludes (open finding D28; no Fits, no NoTextCut needed): after every op
    last_line_count = rows of the maximal fitting prefix of the last painted frame <= H.
    [_partial]: single bar, C01 alphabet, [hist_ok], no I/O failures. *)
Theorem C19_rows_bounded_partial : forall (W H : N) (s0 : sys) (t0 : term) (h : list (N * op)),
  sb_initial s0 -> hist_ok W H s0 (ghost_for t0) h ->
  let st := sb_run W H (s0, ghost_for t0, t0) h in
  exists b tg, s_bars (fst (fst st)) = [b] /\ b_target b = TTerm tg
    /\ tt_n tg = bar_rows (fitting_prefix W H (g_frame (snd (fst st)))) W
    /\ tt_n tg <= H.
Proof. exact c19_rows_bounded. Qed.
Print Assumptions C19_rows_bounded_partial.

(** (d) erase exactness WITHOUT the Fits proviso, for every W >= 1, H >= 1: after every single-bar
    history from a [ready] start outside the TWO refuted classes - [NoTextCut] (open finding D14,
    C19_text_cut_refuted) and [hist_ok] (open finding D28, C01_empty_line_swallowed_refuted) - the
    terminal shows exactly
        pre ++ wrap W log ++ wrap W (maximal fitting prefix of the frame)
    i.e. every earlier frame (wrapped, taller than the terminal, cut by the height `break`) has
    been blanked completely by the next draw and nothing above it was touched. *)
Theorem C19_erase_exact_partial :
  forall (W H : N) (pre : list (list N)) (s0 : sys) (t0 : term) (h : list (N * op)),
  1 <= W -> 1 <= H ->
  sb_initial s0 -> ready (N.to_nat W) (N.to_nat H) pre t0 -> hist_ok W H s0 (ghost_for t0) h -> NoTextCut W H s0 h ->
  let g := snd (fst (sb_run W H (s0, ghost_for t0, t0) h)) in
  let t := snd (sb_run W H (s0, ghost_for t0, t0) h) in
  exists k, screen (N.to_nat W) t
            = map (pad (N.to_nat W)) (expected_rows_cut W H pre g) ++ repeat (repeat SP (N.to_nat W)) k.
Proof. intros W H pre s0 t0 h HW HH. exact (c19_erase_exact W H HW HH pre s0 t0 h). Qed.
Print Assumptions C19_erase_exact_partial.

(** the clear loop itself, from the end of the last of the n rows F at ANY column, n - 1 rows
    within reach: exactly F is blanked, the rows C above are untouched *)
Theorem C19_clear_loop_exact :
  forall (Wn Hn : nat) (C F : list (list N)) (k v : nat) (n : N),
  F <> [] -> List.length F = N.to_nat n -> (N.to_nat n - 1 <= v)%nat -> (v <= Hn - 1)%nat ->
  run_ops Wn Hn (at_end (C ++ F) k v) (clear_ops n)
  = app_state C [] (N.to_nat n - 1 + k) (v - (N.to_nat n - 1)).
Proof. exact erase_at_end. Qed.
Print Assumptions C19_clear_loop_exact.

(** the class NoTextCut excludes is a genuine defect (reproduced on the real code by the harness,
    class open finding D14, oracle class 'height-cut-leaves-cursor-mid-row'): W = 3, H = 1, template "AAAA" (2 rows > H):
    tick; println "x"; println "y" leaves the single row "xy" - the second line has no row. *)
Definition cut_s0 : sys :=
  mksys [new_bar None FAndLeave [PLit (t "AAAA")] (TTerm (new_ttarget None 0)) 0] (new_ms THidden) 0.
Definition cut_h : list (N * op) :=
  [(1000000000, OTick 0); (2000000000, OPrintln 0 (t "x")); (3000000000, OPrintln 0 (t "y"))].

Theorem C19_text_cut_refuted :
  sb_initial cut_s0 /\ hist_ok 3 1 cut_s0 ghost0 cut_h /\ ~ NoTextCut 3 1 cut_s0 cut_h
  /\ let st := sb_run 3 1 (cut_s0, ghost0, term_init) cut_h in
     g_log (snd (fst st)) = [t "x"; t "y"]
     /\ expected_rows_cut 3 1 [] (snd (fst st)) = [t "x"; t "y"]
     /\ all_rows (snd st) = [t "xy"].
Proof.
  split; [eexists; eexists; repeat split|]. split; [vm_compute; reflexivity|].
  split; [vm_compute; discriminate|]. vm_compute. repeat split.
Qed.
Print Assumptions C19_text_cut_refuted.

(** D17 (open finding, class 'finished-bar-reaped-behind-the-cut') on the MultiProgress model
    (Sys.ms_draw): 3x2 terminal, members Z, "P\np", Q, R (all finish-and-leave).  After every bar was
    drawn, P and Q are dropped (zombies behind the live Z), Z is removed: the redraw paints P (2 rows
    = the whole height), Q is behind the cut and NOT painted - yet the reap loop takes BOTH head
    zombies off the list (Q's slot 2 is freed).  Q's final frame is never written by any call of
    the whole history although afterwards only R (1 row) is left and Q would fit. *)
Definition d17_case : syscase :=
  mkcase 3 2 [] None (ITerm None)
    [(None, FAndLeave, [PLit (t "Z")], IHidden);
     (None, FAndLeave, [PLit (t "P"); PNewLine; PLit (t "p")], IHidden);
     (None, FAndLeave, [PLit (t "Q")], IHidden);
     (None, FAndLeave, [PLit (t "R")], IHidden)]
    [(1000000000, OInsert BEnd 0); (2000000000, OInsert BEnd 1); (3000000000, OInsert BEnd 2);
     (4000000000, OInsert BEnd 3); (5000000000, OTick 0); (6000000000, OTick 1); (7000000000, OTick 2);
     (8000000000, OTick 3); (9000000000, ODrop 1); (10000000000, ODrop 2); (11000000000, ORemove 0);
     (12000000000, OTick 3); (13000000000, OTick 3)] [].

Theorem C19_D17_reaped_behind_cut_witness :
  let r := run_sys 3 2 (case_init d17_case) (c_ops d17_case) in
  let calls := List.concat (snd r) in
  ms_order (s_mp (fst r)) = [3]                      (* only R is still a member ... *)
  /\ ms_free (s_mp (fst r)) = [2; 1; 0]               (* ... Q's slot (2) has been reaped *)
  /\ existsb (writes_char 81) calls = false           (* no call ever wrote a 'Q' *)
  /\ existsb (writes_char 80) calls = true            (* (P was painted) *)
  /\ all_rows (run_ops 3 2 term_init calls) = [t "P"; t "pR "; t "R  "]
  /\ visual_line_count [mkline KBar (t "Q"); mkline KBar (t "R")] 3 <= 2.   (* Q and R would fit *)
Proof. vm_compute. repeat split; discriminate. Qed.
Print Assumptions C19_D17_reaped_behind_cut_witness.

(** Regression INSTANCE (one computed history, the behaviour AFTER the fix) for the defect fixed by 7d42cff "the redrawn region is never taller than the
    terminal" (audit 2, N1; harness class 'bottom-region-taller-than-terminal-scrolls'): 5x3 terminal,
    Bottom alignment; a, b, c drawn, finished visibly and dropped (three kept rows); d added and drawn;
    clear(); d.tick(); clear(); d.tick().  BEFORE the fix clear() added the 3 kept rows to the count
    (LineAdjust::Clear): 1 + 3 = 4 > H = 3, the count stayed 4 and the first visible row of the
    terminal moved down by one with EVERY call (counts [1;4;4;4;4], tops [0;1;2;3;4;5]).  Now the count
    is capped at the height before it is used: counts stay <= 3 and only the draw of `d` below three
    kept rows scrolls (by one row, like any fourth row on a 3-row screen). *)
Definition n1_case : syscase :=
  mkcase 5 3 [] None (ITerm None)
    [(Some 10, FAndLeave, [PLit (t "a"); PPos], IHidden); (Some 10, FAndLeave, [PLit (t "b"); PPos], IHidden);
     (Some 10, FAndLeave, [PLit (t "c"); PPos], IHidden); (Some 10, FAndLeave, [PLit (t "d"); PPos], IHidden)]
    [(1000000000, OSetAlign Bottom); (2000000000, OInsert BEnd 0); (3000000000, OInsert BEnd 1);
     (4000000000, OInsert BEnd 2); (5000000000, OTick 0); (6000000000, OTick 1); (7000000000, OTick 2);
     (8000000000, OFinish 0 FAndLeave); (9000000000, OFinish 1 FAndLeave); (10000000000, OFinish 2 FAndLeave);
     (11000000000, ODrop 0); (12000000000, ODrop 1); (13000000000, ODrop 2);
     (14000000000, OInsert BEnd 3); (15000000000, OTick 3); (16000000000, OMClear); (17000000000, OTick 3);
     (18000000000, OMClear); (19000000000, OTick 3)] [].

Example C19_bottom_count_capped_after_7d42cff_witness :
  let counts := map (fun k => target_n (ms_target (s_mp (fst (run_sys 5 3 (case_init n1_case)
                                                           (firstn k (c_ops n1_case)))))))
                    [15; 16; 17; 18; 19]%nat in
  let calls := snd (run_sys 5 3 (case_init n1_case) (c_ops n1_case)) in
  let tops := map (fun k => t_top (run_ops 5 3 term_init (List.concat (firstn k calls))))
                  [14; 15; 16; 17; 18; 19]%nat in
  counts = [1; 3; 3; 3; 3]                       (* last_line_count after ops 15..19: never above H = 3 *)
  /\ tops = [0; 1; 1; 1; 1; 1]%nat.              (* first visible row: no scrolling after d's first draw *)
Proof. vm_compute. split; reflexivity. Qed.

(** hypotheses are satisfiable by a non-trivial history: a 2x3 terminal, a three-line template
    whose frame (1 + 2 + 1 = 4 rows) is taller than the terminal: only the leading lines are
    painted; after the message shrinks everything fits and is painted *)
Definition tall_s0 : sys :=
  mksys [new_bar (Some 5) FAndLeave [PLit (t "ab"); PNewLine; PMsg; PNewLine; PPos]
                 (TTerm (new_ttarget None 0)) 0] (new_ms THidden) 0.
Definition tall_h : list (N * op) :=
  [(1000000000, OSetMsg 0 (t "wxyz"));
   (2000000000, OPrintln 0 (t "log"));
   (3000000000, OSetMsg 0 (t "w"));
   (4000000000, OInc 0 1)].

Example C19_hypotheses_satisfiable :
  sb_initial tall_s0 /\ hist_ok 2 3 tall_s0 ghost0 tall_h /\ NoTextCut 2 3 tall_s0 tall_h /\ ~ Fits 2 3 tall_s0 tall_h.
Proof.
  split; [eexists; eexists; repeat split|]. split; [vm_compute; reflexivity|].
  split; [vm_compute; reflexivity | vm_compute; discriminate].
Qed.

Example C19_example_cut_then_room :
  let st1 := sb_run 2 3 (tall_s0, ghost0, term_init) (firstn 2 tall_h) in
  let st2 := sb_run 2 3 (tall_s0, ghost0, term_init) tall_h in
  map lt (fit_prefix 2 3 (g_frame (snd (fst st1)))) = [t "ab"; t "wxyz"]
  /\ screen 2 (snd st1) = map (pad 2) [t "lo"; t "g"; t "ab"; t "wx"; t "yz"]
  /\ map lt (fit_prefix 2 3 (g_frame (snd (fst st2)))) = [t "ab"; t "w"; t "1"]
  /\ screen 2 (snd st2) = map (pad 2) [t "lo"; t "g"; t "ab"; t "w"; t "1"].
Proof. vm_compute. repeat split. Qed.

Example C19_wrapped_height_examples :
  wrapped_height (mkline KBar (t "")) 5 = 1 /\ wrapped_height (mkline KBar (t "12345")) 5 = 1
  /\ wrapped_height (mkline KBar (t "123456")) 5 = 2 /\ wrapped_height (mkline KBar (t "1234567890")) 5 = 2
  /\ wrapped_height (mkline KBar (t "x")) 1 = 1.
Proof. vm_compute. repeat split. Qed.

(* ============================================================================================
   Bottom alignment (MultiProgressAlignment::Bottom, Draw.paint_pad after fix commits 951c29f and
   8b11f76) and MultiProgress frames.  Proofs: TermBottomProofs.v, TermBottomMulti.v. *)
From IndModel Require MultiSpec.
From IndProofs Require Import TermBottomProofs TermBottomMulti.

(** vocabulary: a line vector is its leading Text/Empty lines [text_prefix] followed by the rest
    [from_bar] (which starts with the first Bar line); the padding of a shrunken Bottom region is
    on the screen ([bottom_padded]) iff the vector is empty or contains a Bar line *)
Theorem C19_bottom_vocabulary : forall ls : list line,
  ls = text_prefix ls ++ from_bar ls
  /\ Forall (fun l => is_bar l = false) (text_prefix ls)
  /\ match from_bar ls with [] => True | b :: _ => is_bar b = true end
  /\ bottom_padded ls = match ls with [] => true | _ => existsb is_bar ls end.
Proof. exact bottom_vocabulary. Qed.
Print Assumptions C19_bottom_vocabulary.

(** Bottom alignment while the region does not shrink (full_height >= last_line_count, shift = 0):
    the same calls, the same count, the same cursor_below flag as Top alignment - every Top
    theorem (C19_draw_rows_bounded, TermProofs.draw_to_term_spec_top) applies verbatim *)
Theorem C19_bottom_noshift_is_top : forall (ls : list line) (n : N) (below : bool) (W H : N),
  n <= visual_line_count ls W ->
  draw_to_term ls n Bottom below W H = draw_to_term ls n Top below W H.
Proof. exact draw_to_term_bottom_noshift. Qed.
Print Assumptions C19_bottom_noshift_is_top.

(** (c) for Bottom alignment, one draw (every line vector, every previous count n, W, H), after fix
    7d42cff (the count is capped at the height first: nc = min n H):
    n' = rows of the painted Bar lines + the counted padding sh, and n' <= H; the Bar rows are at
    most H; the region never grows: n' <= max nc (bar rows); sh is 0 or nc - full_height > 0;
    the painted lines are the maximal fitting prefix, everything as soon as the Bar lines fit *)
Theorem C19_draw_rows_bounded_bottom : forall (W H : N) (ls : list line) (n : N) (below : bool),
  let n' := snd (fst (draw_to_term ls n Bottom below W H)) in
  let P := painted ls W H 0 in
  let nc := N.min n H in
  let sh := bottom_shift ls nc W H in
  n' = bar_rows P W + sh /\ bar_rows P W <= H /\ n' <= H
  /\ n' <= N.max nc (bar_rows P W)
  /\ (sh = 0 \/ (visual_line_count ls W < nc /\ sh = nc - visual_line_count ls W))
  /\ (exists rest, ls = P ++ rest
        /\ match rest with
           | [] => True
           | l :: _ => is_bar l = true /\ H < bar_rows P W + wrapped_height l W
           end)
  /\ (bar_rows ls W <= H -> P = ls).
Proof. exact draw_rows_bounded_bottom. Qed.
Print Assumptions C19_draw_rows_bounded_bottom.

(** (d) one Bottom draw of a shrunken region ON THE TERMINAL, for every W >= 1, H >= 1, the Bar
    rows fitting H: from [ready (C ++ F)] with |F| = n = last_line_count rows within reach and the
    cursor where cursor_below says, a draw of [ls] with full_height < n (shift sh = n - full > 0):
    - exactly the rows F are erased, C is untouched, and C is followed by R = the rows of the leading
      text lines ++ sh blank rows ++ the rows of the rest (cell for cell the wrapping of the lines;
      the padding directly above the first Bar line, also for an empty vector; NO padding when
      there are only text lines);
    - n' = bar rows + sh (sh not counted without padding);
    - empty vector, n < H: cursor_below' = true and the cursor really is at column 0 of row
      |C| + n, the row below the padded region;
    - empty vector, n >= H (after fix 881c313; then n = H: the region fills the screen): one padding
      line less is written, cursor_below' = false, the cursor is at column 0 of the LAST row of the
      region (row |C| + n - 1 = the bottom row of the screen: at the end of the last of n blank
      rows), and the terminal did NOT scroll: the first visible row [t_top] is unchanged, it is
      row |C|, the top of the region - the whole region stays within reach of the next draw;
    - otherwise the cursor is wrap-pending at the right edge of the last row;
    - [ready] again (the next draw starts from the same kind of state) with the reach bookkeeping *)
Theorem C19_bottom_draw_exact_partial :
  forall (W H : N) (C F : list (list N)) (t : term) (ls : list line) (n : N) (below : bool),
  1 <= W -> 1 <= H ->
  ready (N.to_nat W) (N.to_nat H) (C ++ F) t -> List.length F = N.to_nat n ->
  (N.to_nat n <= reach t)%nat ->
  (if below then t_col t = 0%nat else t_col t <> 0%nat) ->
  visual_line_count ls W < n -> bar_rows ls W <= H ->
  let sh := n - visual_line_count ls W in
  let R := bottom_rows W sh ls in
  let d := draw_to_term ls n Bottom below W H in
  let t' := run_ops (N.to_nat W) (N.to_nat H) t (fst (fst d)) in
  snd (fst d) = bar_rows ls W + (if bottom_padded ls then sh else 0)
  /\ snd d = match ls with [] => (n <? H) | _ => false end
  /\ (ls = [] -> n < H ->
        R = repeat [] (N.to_nat n) /\ ready (N.to_nat W) (N.to_nat H) (C ++ R) t' /\ t_col t' = 0%nat
        /\ t_row t' = (List.length C + N.to_nat n)%nat
        /\ reach t' = Nat.min (N.to_nat H - 1) (reach t))
  /\ (ls = [] -> H <= n ->
        n = H /\ below = false
        /\ ready (N.to_nat W) (N.to_nat H) (C ++ repeat [] (N.to_nat n - 1)) t'
        /\ (exists k, t' = at_end (C ++ repeat [] (N.to_nat n)) k (N.to_nat H - 1))
        /\ t_col t' = 0%nat /\ S (t_row t') = (List.length C + N.to_nat n)%nat
        /\ t_vis t' = (N.to_nat H - 1)%nat
        /\ t_top t' = t_top t /\ t_top t' = List.length C)
  /\ (ls <> [] -> ready (N.to_nat W) (N.to_nat H) (C ++ R) t' /\ t_col t' <> 0%nat
                  /\ reach t' = Nat.min (N.to_nat H) (reach t - N.to_nat n + List.length R))
  /\ rows_equiv (N.to_nat W) R
       (wrap (N.to_nat W) (map lt (text_prefix ls))
          ++ (if bottom_padded ls then repeat [] (N.to_nat sh) else [])
          ++ wrap (N.to_nat W) (map lt (from_bar ls)))
  /\ List.length R = N.to_nat (visual_line_count ls W + (if bottom_padded ls then sh else 0)).
Proof. exact draw_to_term_spec_bottom_full. Qed.
Print Assumptions C19_bottom_draw_exact_partial.

(** (c) for MultiProgress: along EVERY history of the system model (any bars, members or not, any
    calls - valid in the sense of MultiSpec.hist_ok or not -, any alignment and any alignment changes)
    and for EVERY fault oracle [fails] (any terminal call may fail: [fails k] = the k-th fallible call
    returns an error), after every call the last_line_count of the multi draw target is at most H:
    the managed region never exceeds the terminal height.  Since fix 7d42cff this holds under Bottom
    alignment too (no padding ghost; before it the bound was false, see
    C19_bottom_count_capped_after_7d42cff_witness), and a FAILED draw leaves the count capped as well
    (the code caps `*bar_count` in place before its first fallible call; Sys.term_draw follows).
    Inside one call LineAdjust::Clear may push the count past H for a moment: every such adjust is
    followed, in the same call, by a draw that is never refused (it carries text lines) and ends
    <= H whether it fails or not.  A COUNTER statement: no terminal semantics is involved. *)
Theorem C19_multi_rows_bounded : forall (W H : N) (fails : N -> bool) (s : sys) (ops : list (N * op)),
  target_n (ms_target (s_mp s)) <= H ->
  target_n (ms_target (s_mp (MultiSpec.run W H fails s ops))) <= H.
Proof. intros W H fails s ops. exact (multi_rows_le_H W H fails ops s). Qed.
Print Assumptions C19_multi_rows_bounded.

(** (the older form of this bound with a padding ghost, `<= H + hist_shift`, said nothing beyond `<= H`
    and is no longer exported; the ghost machinery stays in proofs/TermBottomMulti.v, unused here) *)

(* ------------------------------------------------------------------ non-vacuity: Bottom alignment *)
(** the hypotheses of C19_bottom_draw_exact_partial hold for a non-trivial state: 4x3 terminal, the frame
    AAAA / BBBB on the screen, cursor wrap-pending on its last row; the new frame is the single
    Bar line B: one blank row, then B *)
Example C19_bottom_draw_exact_nonvacuous :
  let t0 := app_state [t "AAAA"] (t "BBBB") 0 1 in
  let ls := [mkline KBar (t "B")] in
  ready 4 3 ([] ++ [t "AAAA"; t "BBBB"]) t0 /\ (2 <= reach t0)%nat /\ t_col t0 <> 0%nat
  /\ visual_line_count ls 4 < 2 /\ bar_rows ls 4 <= 3
  /\ all_rows (run_ops 4 3 t0 (fst (fst (draw_to_term ls 2 Bottom false 4 3)))) = [[]; t "B   "]
  /\ snd (fst (draw_to_term ls 2 Bottom false 4 3)) = 2.
Proof.
  cbv zeta. split; [apply (ready_edge 4 3 _ [t "AAAA"] (t "BBBB") 0 1); [reflexivity | reflexivity | vm_compute; lia]|].
  vm_compute. repeat split; try lia; discriminate.
Qed.

(** ... and the branch n >= H of C19_bottom_draw_exact_partial: 5x3 terminal filled by the frame
    AAAAA / BBBBB / CCCCC, an empty vector: three blank rows, cursor on the last of them, flag false,
    nothing scrolled *)
Example C19_bottom_draw_exact_full_height_nonvacuous :
  let t0 := app_state [t "AAAAA"; t "BBBBB"] (t "CCCCC") 0 2 in
  let t1 := run_ops 5 3 t0 (fst (fst (draw_to_term [] 3 Bottom false 5 3))) in
  ready 5 3 ([] ++ [t "AAAAA"; t "BBBBB"; t "CCCCC"]) t0 /\ (3 <= reach t0)%nat /\ t_col t0 <> 0%nat
  /\ visual_line_count [] 5 < 3 /\ 3 <= 3
  /\ all_rows t1 = [[]; []; []] /\ (t_top t1, t_row t1, t_col t1) = (0, 2, 0)%nat
  /\ snd (draw_to_term [] 3 Bottom false 5 3) = false
  /\ snd (fst (draw_to_term [] 3 Bottom false 5 3)) = 3.
Proof.
  cbv zeta. split; [apply (ready_edge 5 3 _ [t "AAAAA"; t "BBBBB"] (t "CCCCC") 0 2); [reflexivity | reflexivity | vm_compute; lia]|].
  vm_compute. repeat split; try lia; discriminate.
Qed.

Definition bottom_bars : list (option N * fin * list tpart * tinit) :=
  [(None, FAndLeave, [PLit (t "A")], IHidden); (None, FAndLeave, [PLit (t "B")], IHidden);
   (None, FAndLeave, [PLit (t "C")], IHidden)].

Definition screen_after (c : syscase) (k : nat) : list (list N) :=
  all_rows (run_ops (N.to_nat (c_W c)) (N.to_nat (c_H c)) term_init
              (List.concat (snd (run_sys (c_W c) (c_H c) (case_init c) (firstn k (c_ops c)))))).
Definition count_after (c : syscase) (k : nat) : N :=
  target_n (ms_target (s_mp (fst (run_sys (c_W c) (c_H c) (case_init c) (firstn k (c_ops c)))))).

(** the witness of the defect fixed by 951c29f, on Sys.v + Term.v (W = 40): Bottom; add a, b, c;
    tick each; remove(a); b.finish_and_clear(); c.println("x"); c.tick(): the printed line is above the
    padding and survives the next draw *)
Definition bottom_println_case : syscase :=
  mkcase 40 10 [] None (ITerm None) bottom_bars
    [(1, OSetAlign Bottom); (2, OInsert BEnd 0); (3, OInsert BEnd 1); (4, OInsert BEnd 2);
     (5, OTick 0); (6, OTick 1); (7, OTick 2); (8, ORemove 0); (9, OFinish 1 FAndClear);
     (10, OPrintln 2 (t "x")); (11, OTick 2)] [].

Example C19_bottom_println_witness :
  screen_after bottom_println_case 7 = [t "A"; t "B"; pad 40 (t "C")]
  /\ screen_after bottom_println_case 8 = [[]; t "B"; pad 40 (t "C")]
  /\ screen_after bottom_println_case 9 = [[]; []; pad 40 (t "C")]
  /\ screen_after bottom_println_case 10 = [t "x"; []; pad 40 (t "C")]
  /\ screen_after bottom_println_case 11 = [t "x"; []; pad 40 (t "C")]
  /\ map (count_after bottom_println_case) [7; 8; 9; 10; 11]%nat = [3; 3; 3; 2; 2].
Proof. vm_compute. repeat split. Qed.

(** the witness of the defect fixed by 8b11f76: Bottom; add a, b; tick each; both finish_and_clear
    (an EMPTY frame: the region is padded, the cursor is on the row below it and cursor_below says
    so); two more empty frames do not move anything (no drift); a new bar c is painted at the
    bottom of the same two-row region; clear() blanks it *)
Definition bottom_empty_frame_case : syscase :=
  mkcase 40 10 [] None (ITerm None) bottom_bars
    [(1, OSetAlign Bottom); (2, OInsert BEnd 0); (3, OInsert BEnd 1);
     (5, OTick 0); (6, OTick 1); (8, OFinish 0 FAndClear); (9, OFinish 1 FAndClear);
     (10, OTick 1); (11, OTick 1); (12, OInsert BEnd 2); (13, OTick 2); (14, OMClear)] [].

Example C19_bottom_empty_frame_witness :
  screen_after bottom_empty_frame_case 5 = [t "A"; pad 40 (t "B")]
  /\ screen_after bottom_empty_frame_case 6 = [[]; pad 40 (t "B")]
  /\ screen_after bottom_empty_frame_case 7 = [[]; []; []]
  /\ screen_after bottom_empty_frame_case 9 = [[]; []; []]
  /\ screen_after bottom_empty_frame_case 11 = [[]; pad 40 (t "C"); []]
  /\ screen_after bottom_empty_frame_case 12 = [[]; []; []]
  /\ map (count_after bottom_empty_frame_case) [5; 6; 7; 8; 9; 10; 11; 12]%nat = [2; 2; 2; 2; 2; 2; 2; 2]
  /\ tt_below (match ms_target (s_mp (fst (run_sys 40 10 (case_init bottom_empty_frame_case)
                                             (firstn 7 (c_ops bottom_empty_frame_case))))) with
               | TTerm tg => tg | _ => new_ttarget None 0 end) = true.
Proof. vm_compute. repeat split. Qed.

(** the witness of the defect fixed by 881c313 (found by C19_bottom_draw_exact_partial's reach bookkeeping):
    5x3 terminal; Bottom; add a, b, c; tick each (the region fills the screen); clear() three times;
    a.tick().  Each clear pads with H - 1 lines only and leaves the cursor on the last row of the region
    (cursor_below = false): nothing scrolls (first visible row 0 throughout), the rows ever
    written are exactly the three rows of the region, which the last draw reuses *)
Definition bottom_full_height_case : syscase :=
  mkcase 5 3 [] None (ITerm None) bottom_bars
    [(1, OSetAlign Bottom); (2, OInsert BEnd 0); (3, OInsert BEnd 1); (4, OInsert BEnd 2);
     (5, OTick 0); (6, OTick 1); (7, OTick 2); (8, OMClear); (9, OMClear); (10, OMClear);
     (11, OTick 0)] [].

Definition term_after (c : syscase) (k : nat) : term :=
  run_ops (N.to_nat (c_W c)) (N.to_nat (c_H c)) term_init
          (List.concat (snd (run_sys (c_W c) (c_H c) (case_init c) (firstn k (c_ops c))))).

Example C19_bottom_full_height_witness :
  screen_after bottom_full_height_case 7 = [t "A"; t "B"; pad 5 (t "C")]
  /\ map (screen_after bottom_full_height_case) [8; 9; 10]%nat = repeat [[]; []; []] 3
  /\ screen_after bottom_full_height_case 11 = [t "A"; t "B"; pad 5 (t "C")]
  /\ map (fun k => let x := term_after bottom_full_height_case k in (t_top x, t_row x, t_col x))
         [7; 8; 9; 10; 11]%nat
     = [(0, 2, 5); (0, 2, 0); (0, 2, 0); (0, 2, 0); (0, 2, 5)]%nat
  /\ map (count_after bottom_full_height_case) [7; 8; 9; 10; 11]%nat = [3; 3; 3; 3; 3]
  /\ nth 8 (snd (run_sys 5 3 (case_init bottom_full_height_case) (c_ops bottom_full_height_case))) []
     = [TUp 2; TClear; TDown 1; TClear; TDown 1; TClear; TUp 2; TLine []; TLine []; TFlush].
Proof. vm_compute. repeat split. Qed.

(** C19_multi_rows_bounded is not vacuous: the witness history (Bottom alignment, padding on the
    screen) starts from last_line_count = 0 <= 10 and ends with a positive count, with and without faults *)
Example C19_multi_rows_bounded_nonvacuous :
  target_n (ms_target (s_mp (case_init bottom_println_case))) <= 10
  /\ target_n (ms_target (s_mp (MultiSpec.run 40 10 nofail (case_init bottom_println_case)
                                  (c_ops bottom_println_case)))) = 2
  (* the same history on a terminal whose calls all fail from the 25th on: the count differs (failed draws
     keep the old, capped count) and is still within the height *)
  /\ target_n (ms_target (s_mp (MultiSpec.run 40 10 (fun k => 25 <=? k) (case_init bottom_println_case)
                                  (c_ops bottom_println_case)))) = 3.
Proof. split; [vm_compute; discriminate|split; vm_compute; reflexivity]. Qed.

(** (d) at the level of the row COUNTERS, for MultiProgress WITHOUT the Fits proviso - partial (name):
    Top alignment, no dropped bars (no zombie rows), no I/O failures, every other call allowed
    (add/insert/remove, println, suspend, clear, finish*, ... on any number of bars).  After every
    history last_line_count of the multi target is EXACTLY the number of rows of the Bar lines the
    last attempted draw painted (P = the maximal fitting prefix of its line vector [hist_frame],
    at most H rows), zombie_lines_count = 0, hence the next draw erases exactly the rows painted
    by the previous one - also when frames are taller than the terminal.
    MISSING for the full clause (see docs/C19.md): the terminal side (that those rows are where
    the cursor-up reaches: screen invariant, proved under FitsAll in MultiScreenProofs.v only),
    histories with dropped bars (Keep/Clear of zombie rows), Bottom alignment. *)
Theorem C19_multi_erase_count_partial : forall (W H : N) (s : sys) (ops : list (N * op)),
  NoZ (s_mp s) -> TopAl (s_mp s) -> target_n (ms_target (s_mp s)) = 0 ->
  Forall (fun x => quiet_op (snd x)) ops ->
  let m' := s_mp (MultiSpec.run W H nofail s ops) in
  let P := painted (hist_frame W H s ops []) W H 0 in
  target_n (ms_target m') = bar_rows P W /\ bar_rows P W <= H
  /\ ms_zombie_lines m' = 0
  /\ (forall extra, MultiSpec.ms_erase_n m' extra = bar_rows P W).
Proof. intros W H s ops. exact (multi_erase_count_full W H ops s). Qed.
Print Assumptions C19_multi_erase_count_partial.

(** non-vacuity: 3x2 terminal, three one-row bars (frame taller than the terminal), a println and
    a removal: the hypotheses hold; the last frame was x ++ [A; B; C] cut to x, A, B (count 2), after
    remove(a) it is [B; C] (count 2) *)
Definition tall_multi_case : syscase :=
  mkcase 3 2 [] None (ITerm None) bottom_bars
    [(1, OInsert BEnd 0); (2, OInsert BEnd 1); (3, OInsert BEnd 2); (4, OTick 0); (5, OTick 1);
     (6, OTick 2); (7, OPrintln 1 (t "x")); (8, ORemove 0); (9, OMClear)] [].

Example C19_multi_erase_count_nonvacuous :
  NoZ (s_mp (case_init tall_multi_case)) /\ TopAl (s_mp (case_init tall_multi_case))
  /\ target_n (ms_target (s_mp (case_init tall_multi_case))) = 0
  /\ Forall (fun x => quiet_op (snd x)) (c_ops tall_multi_case)
  /\ map (fun k => map lt (hist_frame 3 2 (case_init tall_multi_case) (firstn k (c_ops tall_multi_case)) []))
         [6; 7; 8; 9]%nat
     = [[t "A"; t "B"; t "C"]; [t "x"; t "A"; t "B"; t "C"]; [t "B"; t "C"]; []]
  /\ map (count_after tall_multi_case) [6; 7; 8; 9]%nat = [2; 2; 2; 0].
Proof.
  split; [split; [reflexivity | constructor]|]. split.
  { split; [reflexivity|]. intros tg E. vm_compute in E. injection E as <-. reflexivity. }
  split; [reflexivity|]. split.
  { unfold tall_multi_case, c_ops. repeat (apply Forall_cons; [split; [discriminate | intros b; discriminate]|]). constructor. }
  vm_compute. split; reflexivity.
Qed.
