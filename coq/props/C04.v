(** C04 - Finishing or dropping a bar always paints its final state.
    Only statements; every proof is [exact <lemma from IndProofs.SimProofs / SimScreenProofs>].
    Model: coq/model/Sys.v ([bar_finish] = BarState::finish_using_style src/state.rs:43-72,
    [bar_draw] = BarState::draw src/state.rs:200-224 with force_draw |= is_finished(),
    [tt_allow] = drawable(force_draw, now) src/draw_target.rs:162-208, [bar_drop] = Drop for
    BarState src/state.rs:226-241, [ms_mark_zombie] = MultiState::mark_zombie src/multi.rs:244-274).
    LEVELS.  The theorems named `_partial` below are CALL-SEQUENCE level: they say which TermLike
    calls a finishing call makes ([draw_calls] = the calls of DrawState::draw_to_term for a line
    list), not what a terminal shows.  In particular they hold for ANY height H: when the frame
    is taller than the terminal, [draw_calls] stops at the height `break` of draw_to_term and the
    final frame / the supplied message is painted only in part or not at all (C19 territory: open
    findings D14, D17).  The screen-level statement for the standalone bar is
    [C04_final_screen_standalone], under C01's explicit proviso [Fits] (the bar rows of every
    painted frame fit the height); for MultiProgress members the screen level is
    [C04_kept_screen_partial] (appended below by the MultiScreen development, proviso FitsAll).
    The theorems quantify over EVERY state [s] - in particular every state of both limiters
    ([tt_rl] inside the target, [b_ap]) and every time stamp [now]: the proof is the case split
    `force' = true` bypasses [tt_allow], not a timing argument.  [no_faults]: no terminal call
    fails (C18 covers failing terminals). *)
From IndModel Require Import Base Text Draw Sys SimSpec.
From IndModel Require Import Term SingleBar.
From IndGen Require Import IterOverrides.
From IndProofs Require Import SimProofs SimScreenProofs SimIterProofs.
From Coq Require Import List NArith.
Import ListNotations.
Open Scope N_scope.

(** The final state a finish variant defines: position = length (when known) for finish /
    finish_with_message / finish_and_clear and unchanged for abandon / abandon_with_message;
    the supplied message if any; length, prefix, template, tick untouched; finished; the
    clearing variant shows nothing, the others the rendering of that state. *)
Theorem C04_final_state : forall k x,
  b_pos (final_of k x) = (if fin_is_finish k then match b_len x with Some l => l | None => b_pos x end
                          else b_pos x) /\
  b_msg (final_of k x) = (match fin_msg k with Some m => m | None => b_msg x end) /\
  b_len (final_of k x) = b_len x /\ b_prefix (final_of k x) = b_prefix x /\
  b_tmpl (final_of k x) = b_tmpl x /\ b_tick (final_of k x) = b_tick x /\
  b_target (final_of k x) = b_target x /\ b_alive (final_of k x) = b_alive x /\
  finished (final_of k x) = true /\
  frame_of (final_of k x) = (match k with FAndClear => [] | _ => render (final_of k x) end).
Proof. exact final_of_spec. Qed.
Print Assumptions C04_final_state.

(** C04_final_frame, standalone bar on a terminal, CALL level (`_partial`: the property speaks
    about the screen - see C04_final_screen_standalone for that, under Fits): from ANY state, at ANY time, each finish
    variant paints: the calls are exactly those of a draw of the final state's frame over the
    previous frame ([tt_n], alignment, cursor flag as the history left them); afterwards the bar
    IS that final state (only last_line_count / cursor flag updated), is_finished() holds, and
    nothing else changed. *)
Theorem C04_final_frame_standalone_partial : forall W H s b tg k now,
  b_target (get_bar s b) = TTerm tg ->
  let fb := final_of k (get_bar s b) in
  let ls := frame_of fb in
  let calls := draw_calls ls (tt_n tg) (tt_align tg) (tt_below tg) W H in
  let tg' := mktt (draw_n ls (tt_n tg) (tt_align tg) (tt_below tg) W H) (tt_rl tg) (tt_align tg)
                  (draw_below ls (tt_n tg) (tt_align tg) (tt_below tg) W H) in
  let '(s', e, ok) := step W H no_faults s now (OFinish b k) in
  e = calls /\ ok = true /\
  get_bar s' b = set_b_target fb (TTerm tg') /\
  finished (get_bar s' b) = true /\
  s_calls s' = s_calls s + N.of_nat (length calls) /\
  s_mp s' = s_mp s /\ (forall j, j <> b -> get_bar s' j = get_bar s j).
Proof. exact finish_paints_standalone. Qed.
Print Assumptions C04_final_frame_standalone_partial.

(** C04_final_frame, member of a visible MultiProgress, CALL level (`_partial`: nothing about
    the screen here; no height proviso, see the header): the finish call is a forced draw of the
    whole MultiProgress (orphan lines of earlier bar.println calls first) ... *)
Theorem C04_final_frame_member_partial : forall W H s b idx tg k now,
  b_target (get_bar s b) = TMulti idx -> ms_target (s_mp s) = TTerm tg ->
  let fb := final_of k (get_bar s b) in
  let m1 := ms_store (s_mp s) idx [] (frame_of fb) in
  let n1 := match ms_orphans (s_mp s) with [] => tt_n tg | _ => tt_n tg + ms_zombie_lines (s_mp s) end in
  let calls := draw_calls (ms_compose m1) n1 (ms_align (s_mp s)) (tt_below tg) W H in
  let '(s', e, ok) := step W H no_faults s now (OFinish b k) in
  e = calls /\ ok = true /\ get_bar s' b = fb /\ finished (get_bar s' b) = true /\
  s_calls s' = s_calls s + N.of_nat (length calls) /\
  (forall j, j <> b -> get_bar s' j = get_bar s j).
Proof. exact finish_paints_member. Qed.
Print Assumptions C04_final_frame_member_partial.

(** ... whose line list carries the final frame at the member's place in the ordering, between
    the frames of the members before and after it. *)
Theorem C04_member_frame_place : forall m idx fr pre post,
  (N.to_nat idx < length (ms_members m))%nat ->
  ms_order m = pre ++ idx :: post -> ~ In idx pre -> ~ In idx post ->
  ms_compose (ms_store m idx [] fr)
  = ms_orphans m ++ concat (map (member_lines (ms_members m)) pre) ++ fr
    ++ concat (map (member_lines (ms_members m)) post).
Proof. exact compose_store. Qed.
Print Assumptions C04_member_frame_place.

(** finish_using_style() is finish with the stored ProgressFinish.  This is a TRANSCRIPTION
    lemma (proved by reflexivity: Sys.v gives both ops the same body), recorded so that the
    final-frame theorems visibly apply to it with k = on_finish, whatever it is. *)
Theorem C04_finish_using_style : forall W H fails s b now,
  step W H fails s now (OFinishUsingStyle b)
  = step W H fails s now (OFinish b (b_on_finish (get_bar s b))).
Proof. exact finish_using_style_eq. Qed.
Print Assumptions C04_finish_using_style.

(** C04_iter: [iter_none_step] (SimSpec.v) transcribes ProgressBarIter::next for an exhausted
    iterator, guard included (src/iter.rs:125-126: `else if !self.progress.is_finished()
    { self.progress.finish_using_style() }`): on a finished bar nothing happens at all - no call,
    no state change; on an unfinished bar it IS finish with the stored ProgressFinish, so it
    paints the final frame by the theorems above.  That the iterator adaptor really behaves like
    [iter_none_step] is checked on the implementation (c04.rs executes `wrap_iter` loops call by
    call), not proved: iter.rs is not part of Sys.v. *)
Theorem C04_iter : forall W H fails s now b,
  (finished (get_bar s b) = true -> iter_none_step W H fails s now b = (s, [], true)) /\
  (finished (get_bar s b) = false ->
   iter_none_step W H fails s now b = step W H fails s now (OFinish b (b_on_finish (get_bar s b)))).
Proof. exact iter_none_spec. Qed.
Print Assumptions C04_iter.

(** C04_iter_consumers_audited: which iterator methods reach the end of the iteration.  The
    table [iter_overrides] is GENERATED from /repo/src/iter.rs by tools/iter_extract.py on every
    check (gen/IterOverrides.v): for Iterator / DoubleEndedIterator / ExactSizeIterator /
    FusedIterator the methods `impl .. for ProgressBarIter` defines itself.  It equals the audited
    table: only `next` (+ size_hint), `next_back` and `len` are ProgressBarIter's own; hence every
    other consumer - for loops, for_each, fold, try_fold, try_for_each, count, sum, product, last,
    min/max, nth, collect, by_ref + adaptors, rev, rfold, ... - is std's DEFAULT method and
    learns that the iteration is over only by getting None from `next` (resp. `next_back`), whose
    bodies are, token for token, the audited ones ([iter_next_finishes]): that None branch is
    [iter_none_step] (C04_iter) and finishes the bar.  Trusted, not proved: that std's default
    methods are implemented through next/next_back (they are, by the trait's contract), and the
    translator.  A new override (e.g. a `fold` that forgets to finish) changes the generated
    table and breaks this obligation; the harness drives every consumer family as well. *)
Theorem C04_iter_consumers_audited :
  iter_overrides = audited_iter_overrides /\
  exhaustion_methods iter_overrides = audited_exhaustion_methods (* = ["next"; "next_back"] *) /\
  iter_next_finishes = true /\ iter_next_back_finishes = true.
Proof. exact iter_consumers_audited. Qed.
Print Assumptions C04_iter_consumers_audited.

(** dropping the last handle of an UNFINISHED bar: the calls of finish_using_style, the same
    final state, then the slot bookkeeping and the handle is gone.  LEVEL: call sequence and model
    state (an equation between two [step] results, valid for every target, height and fault
    oracle) - it says nothing about the screen by itself; the screen-level consequence for the
    standalone bar is the ODrop case of C04_final_screen_standalone (under Fits). *)
Theorem C04_drop_unfinished : forall W H fails s b now,
  finished (get_bar s b) = false ->
  let '(s1, e1, _) := step W H fails s now (OFinishUsingStyle b) in
  step W H fails s now (ODrop b)
  = (upd_bar (mark_zombie W s1 b) b (fun x => set_b_alive x false), e1, true).
Proof. exact drop_unfinished_eq. Qed.
Print Assumptions C04_drop_unfinished.

(** the logic after any finishing call / drop, for any target and limiter state *)
Theorem C04_finish_logic : forall W H fails s now o,
  bars_logic (fst (fst (step W H fails s now o))) = lstep now o (bars_logic s).
Proof. exact step_logic. Qed.
Print Assumptions C04_finish_logic.

(** C04_drop_finished_silent, standalone: no call, nothing changes but the handle. *)
Theorem C04_drop_finished_silent : forall W H fails s b now,
  finished (get_bar s b) = true -> (forall idx, b_target (get_bar s b) <> TMulti idx) ->
  step W H fails s now (ODrop b) = (upd_bar s b (fun x => set_b_alive x false), [], true).
Proof. exact drop_finished_standalone. Qed.
Print Assumptions C04_drop_finished_silent.

(** ... member: no call; only MultiState::mark_zombie runs ... *)
Theorem C04_drop_finished_silent_member : forall W H fails s b idx now,
  finished (get_bar s b) = true -> b_target (get_bar s b) = TMulti idx ->
  step W H fails s now (ODrop b)
  = (upd_bar (set_s_mp s (ms_mark_zombie W (s_mp s) idx)) b (fun x => set_b_alive x false), [], true).
Proof. exact drop_finished_member. Qed.
Print Assumptions C04_drop_finished_silent_member.

(** ... which is pure bookkeeping: no line content, orphan line or alignment changes; rows only
    move from "erased by the next draw" (last_line_count) to "kept" (zombie_lines_count), their
    sum is conserved; the ordering at most loses the dropped member. *)
Theorem C04_mark_zombie_bookkeeping : forall W m idx,
  let m' := ms_mark_zombie W m idx in
  ms_orphans m' = ms_orphans m /\ ms_align m' = ms_align m /\
  is_term (ms_target m') = is_term (ms_target m) /\
  ms_zombie_lines m' + target_n (ms_target m') = ms_zombie_lines m + target_n (ms_target m) /\
  (ms_order m' = ms_order m \/
   ms_order m' = filter (fun x => negb (x =? idx)) (ms_order m)) /\
  (forall j, j <> idx -> nthN (ms_members m') j member_default = nthN (ms_members m) j member_default).
Proof. exact ms_mark_zombie_spec. Qed.
Print Assumptions C04_mark_zombie_bookkeeping.

(** C04_kept_partial (the drop phase of the kept clause): once the bars concerned are finished,
    dropping their handles - any bars, any order, any times, any terminal - makes NO TermLike
    call at all, so whatever the finishing draws painted (C04_final_frame_member: the final
    frames, at the members' places, in the order of the ordering) stays on the screen untouched;
    the bookkeeping conserves (kept rows + rows the next draw would erase) and loses no orphan
    line.  NOT proved here: that a later draw caused by dropping an UNFINISHED bar (which repaints
    and reaps head zombies with LineAdjust::Keep) leaves the kept rows intact on the screen -
    that needs the terminal semantics and the ordering invariants of C02/C03; it is checked on
    the implementation by the screen oracle (harness/src/sysoracle.rs) and it is FALSE in one
    recorded situation, the open finding D22 (known_findings.json, class
    bottom-alignment-kept-rows-misplaced): MultiProgressAlignment::Bottom with padding rows above
    the bars (shift > 0) when a visibly finished, dropped bar is reaped at the head of the
    ordering - Keep(rows) then keeps the padding rows, the bar's final frame is erased by the
    next draw.  So the screen-level kept clause is claimed (by oracle, not by theorem) for Top
    alignment and for Bottom alignment without shift only; the theorem below (the drop phase
    itself makes no call) holds for every alignment. *)
Theorem C04_kept_partial : forall W H fails ops s,
  Forall (fun to => exists b, snd to = ODrop b /\ finished (get_bar s b) = true) ops ->
  snd (run W H fails s ops) = [] /\
  s_calls (fst (run W H fails s ops)) = s_calls s /\
  kept_plus_live (fst (run W H fails s ops)) = kept_plus_live s /\
  ms_orphans (s_mp (fst (run W H fails s ops))) = ms_orphans (s_mp s).
Proof. exact drops_of_finished_silent. Qed.
Print Assumptions C04_kept_partial.

(** Non-vacuity: a bar on a 1 Hz terminal whose refresh limiter is exhausted (capacity 0, last
    draw at this very instant) and whose position limiter is exhausted as well: an ordinary
    tick paints nothing, finish_with_message paints the final frame "done:7" over the old one. *)
Definition ex04_tg : ttarget := mktt 1 (Some (mkrl 1000000000 0 5000)) Top false.
Definition ex04_sys : sys :=
  mksys [mkbar 3 (Some 7) 4 InProgress [119] [] [PMsg; PLit [58]; PPos] FAndClear (mkap 0 5000 0)
               (TTerm ex04_tg) true]
        (new_ms THidden) 0.
Example C04_nonvacuous_exhausted :
  snd (fst (step 20 10 no_faults ex04_sys 5000 (OTick 0))) = [] /\
  snd (fst (step 20 10 no_faults ex04_sys 5000 (OInc 0 1))) = [] /\
  snd (fst (step 20 10 no_faults ex04_sys 5000 (OFinish 0 (FWithMessage [100;111;110;101]))))
  = [TUp 0; TClear; TUp 0; TStr [100;111;110;101;58;55]; TStr (spaces 14); TFlush] /\
  snd (fst (step 20 10 no_faults ex04_sys 5000 (ODrop 0))) = [TUp 0; TClear; TUp 0; TFlush].
Proof. vm_compute. repeat split. Qed.
(* hypotheses of the member theorem are satisfiable: bar 0 of this system is a member at index 1,
   between members 0 and 2 *)
Example C04_nonvacuous_member :
  let m := mkms [mkmem (Some [mkline KBar [65]]) false; mkmem None false; mkmem (Some [mkline KBar [67]]) true]
                [] [0; 1; 2] Top [] 0 (TTerm (new_ttarget None 0)) in
  (N.to_nat 1 < length (ms_members m))%nat /\ ms_order m = [0] ++ 1 :: [2] /\ ~ In 1 [0] /\ ~ In 1 [2] /\
  ms_compose (ms_store m 1 [] [mkline KBar [66]]) = [mkline KBar [65]; mkline KBar [66]; mkline KBar [67]].
Proof. cbn. repeat split; try lia; intros [Hx|[]]; discriminate. Qed.
(* two members, both finished visibly, dropped in the order 1, 0: no call; bar 0 (head) is reaped
   at its drop (its row becomes a kept row), bar 1 stays in the ordering as a zombie *)
Definition ex04k_sys : sys :=
  fst (run 20 10 no_faults
         (mksys [new_bar (Some 5) FAndLeave [PLit [65]; PPos] THidden 0;
                 new_bar (Some 7) FAndLeave [PLit [66]; PPos] THidden 0]
                (new_ms (TTerm (new_ttarget None 0))) 0)
         [(0, OInsert BEnd 0); (0, OInsert BEnd 1); (10, OFinish 1 FAndLeave); (20, OFinish 0 FAbandon)]).
Example C04_nonvacuous_kept :
  Forall (fun to => exists b, snd to = ODrop b /\ finished (get_bar ex04k_sys b) = true)
         [(30, ODrop 1); (40, ODrop 0)] /\
  kept_plus_live ex04k_sys = 2 /\
  (let s' := fst (run 20 10 no_faults ex04k_sys [(30, ODrop 1); (40, ODrop 0)]) in
   ms_zombie_lines (s_mp s') = 1 /\ target_n (ms_target (s_mp s')) = 1 /\ ms_order (s_mp s') = [1]).
Proof.
  split; [repeat constructor; eexists; split; reflexivity|]. vm_compute. repeat split.
Qed.

(* ================================================================== screen level, standalone bar (model/SingleBar.v, Term.v) *)
(** C04_final_screen_standalone: the single standalone bar on a terminal, ANY history [h] over
    the C01 alphabet followed by a finishing call [o] on it - finish / finish_with_message /
    finish_and_clear / abandon / abandon_with_message (OFinish 0 k), finish_using_style, or the
    drop of the unfinished bar ([finishing_op] = Some k, k the ProgressFinish applied) - under
    C01's provisos: W, H >= 1; the terminal starts with earlier output [pre] and the cursor on a
    fresh line ([ready]); the history avoids C01's one excluded suspend situation ([hist_ok]: an
    empty first line written by a closure right after a text-only draw); and [Fits]:
    THE BAR ROWS OF EVERY PAINTED FRAME, THE FINAL ONE INCLUDED, FIT THE TERMINAL HEIGHT.
    Then, executing every emitted TermLike call on the terminal model (Term.v, an assumption
    validated against the vt100 crate), the screen is exactly
        pre ++ wrap W (log so far) ++ wrap W (frame_of final)      (only blank rows below)
    where [final] is the state C04_final_state describes (nothing for the clearing variant), the
    cursor is at column 0 of the first row below, and the bar's logic is that final state -
    however the limiters stand: the history [h] is arbitrary, in particular it may exhaust both
    limiters immediately before the finishing call. *)
Theorem C04_final_screen_standalone :
  forall (W H : N) (pre : list (list N)) (s0 : sys) (t0 : term) (h : list (N * op)) (now : N) (o : op),
  1 <= W -> 1 <= H ->
  sb_initial s0 -> ready (N.to_nat W) (N.to_nat H) pre t0 ->
  hist_ok W H s0 (ghost_for t0) (h ++ [(now, o)]) -> Fits W H s0 (h ++ [(now, o)]) ->
  let st1 := sb_run W H (s0, ghost_for t0, t0) h in
  let st2 := sb_run W H (s0, ghost_for t0, t0) (h ++ [(now, o)]) in
  forall k, finishing_op (fst (fst st1)) o = Some k ->
  let final := final_of k (get_bar (fst (fst st1)) 0) in
  let rows := pre ++ wrap (N.to_nat W) (g_log (snd (fst st1))) ++ wrap (N.to_nat W) (map lt (frame_of final)) in
  (exists j, screen (N.to_nat W) (snd st2)
             = map (pad (N.to_nat W)) rows ++ repeat (repeat SP (N.to_nat W)) j)
  /\ next_cell (N.to_nat W) (snd st2) = (length rows, 0%nat)
  /\ logic_of (get_bar (fst (fst st2)) 0)
     = (match o with ODrop _ => lw_alive (logic_of final) false | _ => logic_of final end).
Proof. exact finish_screen_standalone. Qed.
Print Assumptions C04_final_screen_standalone.

(** Non-vacuity: a bar on a 1 Hz terminal, W = 10, H = 4: 30 zero-gap updates (both limiters
    exhausted: the first 10 are painted, the other 20 are not), then finish_with_message "ok":
    the hypotheses hold and the screen shows the final frame "ok:7". *)
Definition exs_s0 : sys :=
  mksys [new_bar (Some 7) FAndClear [PMsg; PLit [58]; PPos] (TTerm (new_ttarget (Some 1) 0)) 0]
        (new_ms THidden) 0.
Definition exs_h : list (N * op) := repeat (5, OInc 0 0) 30.
Example C04_nonvacuous_screen :
  let h := exs_h ++ [(6, OFinish 0 (FWithMessage [111; 107]))] in
  sb_initial exs_s0 /\ hist_ok 10 4 exs_s0 (ghost_for term_init) h /\ Fits 10 4 exs_s0 h /\ ready 10 4 [] term_init
  /\ finishing_op (fst (fst (sb_run 10 4 (exs_s0, ghost_for term_init, term_init) exs_h))) (OFinish 0 (FWithMessage [111; 107]))
     = Some (FWithMessage [111; 107])
  /\ map (fun e => match e with [] => 0 | _ => 1 end) (snd (run_sys 10 4 exs_s0 h))
     = repeat 1 10 ++ repeat 0 20 ++ [1]
  /\ screen 10 (snd (sb_run 10 4 (exs_s0, ghost_for term_init, term_init) h)) = map (pad 10) [[111; 107; 58; 55]].
Proof.
  split; [eexists; eexists; repeat split|]. split; [vm_compute; reflexivity|].
  split; [vm_compute; reflexivity|]. split; [exact (ready_start 10 4 [] 0 0 (Nat.le_0_l _))|].
  vm_compute. repeat split.
Qed.

(* ================================================================== screen level (model/MultiScreen.v) *)
(** C04_kept on the terminal, final phase = finishing calls and drops (hence `_partial`; what is
    missing: docs/C04.md).  Scope as C02_screen: Top alignment, no I/O faults, MultiProgress on a
    terminal, proviso [FitsAll]; [h1 ++ h2] a possible history from an empty MultiProgress
    ([init_ok], [MultiSpec.hist_ok]: needed for the NoDup / slot invariants of C02_order).
    [h1] is ANY history after which the live region is [Clean] (its rows are exactly the stored
    lines of the members in the ordering - true after every forced member draw / remove,
    C02_live_forced, and trivially for the empty MultiProgress); [h2] consists of finish* /
    abandon* / finish_using_style / force-draw calls and drops ([kept_op]) - any bars, any order,
    any number, any times, finished or unfinished bars, every ProgressFinish (an unfinished bar
    is finished by its drop; finish_and_clear stores no line).  Then, on the terminal model:
    - the log rows and the rows kept before stay untouched (no println/clear/suspend in h2);
    - the kept rows grow by exactly the stored lines - as they were when the member was reaped,
      i.e. after its finishing draw - of every member reaped in h2 ([reaped_hist]: by mark_zombie
      at the head of the ordering, or as a head zombie by a later finishing draw), in reap order,
      which is ordering order (reaping is from the head only);
    - the members still in the ordering (dropped behind an undropped one, or not dropped) follow
      with their stored lines in ordering order: the region is [Clean] again;
    so the screen ends with [pre ++ log ++ rows kept before ++ frames of the members reaped in h2
    ++ frames of the members still in the ordering], nothing erased, nothing duplicated. *)
From IndModel Require Import MultiScreen.
From IndProofs Require Import MultiScreenProofs.

Theorem C04_kept_screen_partial : forall (W H : N), 1 <= W -> 1 <= H ->
  forall (pre : list (list N)) (s0 : sys) (t0 : term) (h1 h2 : list (N * op)),
  init_ok s0 -> ms_initial s0 -> ready (N.to_nat W) (N.to_nat H) pre t0 ->
  MultiSpec.hist_ok W H nofaults s0 (h1 ++ h2) -> FitsAll W H s0 (h1 ++ h2) ->
  Forall (fun x => kept_op (snd x) = true) h2 ->
  let st1 := ms_run W H (s0, mghost0, t0) h1 in
  let s1 := fst (fst st1) in let g1 := snd (fst st1) in
  Clean W (s_mp s1) g1 ->
  let st := ms_run W H (s0, mghost0, t0) (h1 ++ h2) in
  let s := fst (fst st) in let g := snd (fst st) in let t := snd st in
  Clean W (s_mp s) g
  /\ mg_log g = hist_log W H s0 h1
  /\ mg_kept g = mg_kept g1 ++ wrap (N.to_nat W) (map lt (reaped_hist W H s1 h2))
  /\ exists k, screen (N.to_nat W) t
       = map (pad (N.to_nat W))
             (pre ++ wrap (N.to_nat W) (hist_log W H s0 h1) ++ mg_kept g1
                  ++ wrap (N.to_nat W) (map lt (reaped_hist W H s1 h2 ++ bar_lines_of (s_mp s))))
         ++ repeat (repeat SP (N.to_nat W)) k.
Proof. exact c04_kept. Qed.
Print Assumptions C04_kept_screen_partial.

(* ------------------------------------------------------------------ non-vacuity (screen level) *)
(** three members A B C; h1: adds, updates, a println; h2: B finishes and is dropped behind the
    head, C is dropped UNFINISHED (its drop finishes it with FWithMessage "ok"), A abandons and
    is dropped at the head (reaped at once; the next... there is no next draw: B and C stay in
    the ordering as zombies).  All three final frames are on the screen in logical order. *)
Definition exk_s0 : sys :=
  mksys [new_bar (Some 5) FAndLeave [PLit [65]; PPos] THidden 0;
         new_bar (Some 7) FAndLeave [PLit [66]; PPos] THidden 0;
         new_bar (Some 9) (FWithMessage [111;107]) [PLit [67]; PPos; PMsg] THidden 0]
        (new_ms (TTerm (new_ttarget (Some 20) 0))) 0.
Definition exk_h1 : list (N * op) :=
  [(0, OInsert BEnd 0); (0, OInsert BEnd 1); (0, OInsert BEnd 2);
   (1000000, OInc 0 1); (2000000, OInc 1 2); (3000000, OInc 2 3); (100000000, OMPrintln [108]);
   (200000000, OForceDraw 2)].
Definition exk_h2 : list (N * op) :=
  [(300000000, OFinish 1 FAndLeave); (300000001, ODrop 1); (300000002, ODrop 2);
   (300000003, OFinish 0 FAbandon); (300000004, ODrop 0)].

Example C04_kept_screen_hypotheses_satisfiable :
  init_ok exk_s0 /\ ms_initial exk_s0 /\ ready 8 10 [] term_init
  /\ MultiSpec.hist_ok 8 10 nofaults exk_s0 (exk_h1 ++ exk_h2) /\ FitsAll 8 10 exk_s0 (exk_h1 ++ exk_h2)
  /\ Forall (fun x => kept_op (snd x) = true) exk_h2
  /\ (let st1 := ms_run 8 10 (exk_s0, mghost0, term_init) exk_h1 in
      Clean 8 (s_mp (fst (fst st1))) (snd (fst st1))).
Proof.
  assert (Hno : no_own_term exk_s0).
  { intros b. unfold get_bar, nthN. destruct (N.to_nat b) as [|[|[|[|n]]]]; exact I. }
  split.
  { repeat split. intros b. unfold is_member, get_bar, nthN.
    destruct (N.to_nat b) as [|[|[|[|n]]]]; reflexivity. }
  split.
  { split; [exact Hno|]. eexists. repeat split. intros i ls Hi. unfold nthN in Hi. cbn in Hi.
    destruct (N.to_nat i); discriminate Hi. }
  split; [exact (ready_start 8 10 [] 0 0 ltac:(lia))|].
  split; [vm_compute; repeat split|]. split; [vm_compute; repeat (split || intro)|].
  split; [repeat constructor|]. vm_compute. reflexivity.
Qed.

Example C04_kept_screen_example :
  let st1 := ms_run 8 10 (exk_s0, mghost0, term_init) exk_h1 in
  let st := ms_run 8 10 (exk_s0, mghost0, term_init) (exk_h1 ++ exk_h2) in
  reaped_hist 8 10 (fst (fst st1)) exk_h2 = [mkline KBar [65;49]]
  /\ bar_lines_of (s_mp (fst (fst st))) = [mkline KBar [66;55]; mkline KBar [67;57;111;107]]
  /\ map (alive (fst (fst st))) [0;1;2] = [false; false; false]
  /\ screen 8 (snd st) = map (pad 8) [[108]; [65;49]; [66;55]; [67;57;111;107]].
Proof. vm_compute. repeat split. Qed.

(** ------------------------------------------------------------------------------------------
    The kept rows are FINAL FRAMES (closing "stored lines at reap time" vs "final renderings" of
    C04_kept_screen_partial; model/MultiRegion.v, proofs/MultiRegionProofs.v).  Reaping turns the
    STORED lines of a dropped member into kept rows ([reap_act]: a MultiState::draw without text
    keeps the stored lines of the dropped bars at the head of the ordering of the MultiState it is
    made on; mark_zombie at the head keeps [member_lines m idx]).  For every valid history from an
    empty MultiProgress on a terminal, any limiter, any fault oracle, at every call:
    (a) at every MultiState::draw the call makes, the stored lines of EVERY slot of the ordering
        (in particular of the dropped bars it reaps) are the rendering of the slot's ghost entry
        after the call, and when that entry is in sync they are [frame_of] the owning bar's state
        right after the call - for a dropped bar: its final state (a finished bar's every draw is
        forced and stores [frame_of] of its current state: C02_draw_step_current);
    (b) the drop of a FINISHED member runs mark_zombie on the state before the call: the stored
        lines of its slot are [frame_of] its final state, and the drop does not change that state.
    `_partial`: (1) "in sync" is a hypothesis: after set_style, or an inc/dec/set_position swallowed
    by the bar's OWN position limiter (silent changes, C02_logic_change; open C05 finding D27), the
    stored lines are those of the bar's latest DRAWN state, not of its final state; (2) the
    statement is about the lines at the reap sites, it is not glued to [reaped_hist] (the drop of an
    UNFINISHED head member marks on the MultiState after its own finishing draw; (a) covers the
    lines at that draw, the mark reads the same slot). *)
From IndModel Require Import MultiRegion.
From IndProofs Require Import MultiRegionProofs.

Theorem C04_kept_rows_are_final_frames_partial : forall (W H : N) (fails : N -> bool) (s0 : sys)
    (h1 h2 : list (N * op)) (now : N) (o : op),
  init_ok s0 -> mp_visible s0 -> MultiSpec.hist_ok W H fails s0 (h1 ++ (now, o) :: h2) ->
  let r := lrun W H fails s0 0 lg_empty h1 in
  let s := fst (fst r) in
  let lg' := lat_step s now o (length h1) (snd r) in
  let s' := step_sys W H fails s now o in
  s = MultiSpec.run W H fails s0 h1
  /\ (forall m f ex i, In (m, f, ex) (step_draws W H fails s now o) -> In i (ms_order m) ->
        member_lines (ms_members m) i = shown lg' i
        /\ forall e, lg_slot lg' i = Some e -> le_sync e = true ->
             b_target (get_bar s (le_bar e)) = TMulti i
             /\ member_lines (ms_members m) i = frame_of (get_bar s' (le_bar e)))
  /\ (forall b idx e, o = ODrop b -> finished (get_bar s b) = true -> b_target (get_bar s b) = TMulti idx ->
        lg_slot (snd r) idx = Some e -> le_sync e = true ->
        member_lines (ms_members (s_mp s)) idx = frame_of (get_bar s' b)
        /\ logic (get_bar s' b) = logic (get_bar s b)).
Proof. exact reaped_lines_final. Qed.
Print Assumptions C04_kept_rows_are_final_frames_partial.

(** on the history above: the drop of A (finished by abandon, head of the list) keeps its stored
    line "A1", which is [frame_of] its final state; B and C, dropped behind it, are still in the
    ordering and their stored lines are their final frames *)
Example C04_kept_rows_final_example :
  let h := exk_h1 ++ firstn 4 exk_h2 in
  let r := lrun 8 10 nofaults exk_s0 0 lg_empty h in
  let s := fst (fst r) in
  mp_visible exk_s0 /\ MultiSpec.hist_ok 8 10 nofaults exk_s0 (h ++ [(300000004, ODrop 0)])
  /\ finished (get_bar s 0) = true /\ b_target (get_bar s 0) = TMulti 0
  /\ option_map (fun e => (le_bar e, le_sync e)) (lg_slot (snd r) 0) = Some (0, true)
  /\ member_lines (ms_members (s_mp s)) 0 = [mkline KBar [65;49]]
  /\ frame_of (get_bar (step_sys 8 10 nofaults s 300000004 (ODrop 0)) 0) = [mkline KBar [65;49]].
Proof. split; [eexists; reflexivity|]. vm_compute. repeat split. Qed.
