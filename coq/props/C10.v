(** C10 – Template parsing is total and preserves literal text.
    Only statements; every proof is [exact <lemma from IndProofs.TemplateProofs>].
    Strings are lists of Unicode scalar values; [parse] is the model of
    ProgressStyle::with_template / ProgressStyle::template (Template::from_str_with_tab_width),
    [render_parts expand tw] the model of ProgressStyle::format_state for a style without a
    wide element, where [expand p] is whatever the placeholder [p] writes (arbitrary) and [tw]
    the tab width; [parse_full] is the same parser with the panic outcome explicit and
    [fmt_render env styles tw] the same renderer with format_state's scratch buffer threaded and
    the key dispatch (format_map, `_ => ()`) transcribed.  Every definition used in a statement
    is in IndModel.Template.  What is modelled (file:line), the panic sites, what is not proved
    and the interpretations: docs/C10.md. *)
From IndModel Require Import Base Template.
From IndProofs Require Import TemplateProofs.
From Coq Require Import List NArith.
Import ListNotations.
Open Scope N_scope.

(** Totality ("never panic: every string yields Ok or Err").  [parse_full] is the transcription
    of Template::from_str_with_tab_width with a third outcome [PPanic site]: every operation of
    the function and of its callees that is partial in Rust is an [option]-valued function of the
    model and the consumer of its failure is explicit (Template.v header; the sites, file:line, are
    listed in docs/C10.md).  For EVERY string - arbitrary code points, any length - the outcome
    is the Ok/Err of the two-outcome machine [parse]; in particular it is never a panic.
    What carries the proof: `on_c[3..]` in console's Style::from_dotted_str is only reached
    behind `starts_with("on_")`, and the u16 parse is consumed by `map_err(..)?`.
    What it does NOT cover: operations the transcription got wrong or that are added to the
    code later (the tie: ~900 junk strings per quick run under catch_unwind, and a recount of
    unwrap/expect/index/arithmetic/cast tokens in the function's source on every run). *)
Theorem C10_total : forall s : list N, parse_full s = PRes (parse s).
Proof. exact parse_full_total. Qed.
Print Assumptions C10_total.

Theorem C10_no_panic : forall (s : list N) (site : psite), parse_full s <> PPanic site.
Proof. exact parse_full_no_panic. Qed.
Print Assumptions C10_no_panic.

(** The panic outcome is inhabited: with the consumer of the u16 parse that the code had
    before fix 8070567 (`.unwrap()`, policy [WUnwrap]) the model panics on "{bar:65536}" (D2),
    and the slice `[3..]` does fail on strings that the guard keeps away from it. *)
Example C10_d2_panicked_before_fix :
  parse_gen WUnwrap [123; 98; 97; 114; 58; 54; 53; 53; 51; 54; 125] = PPanic SiteWidthUnwrap
  /\ parse_gen WMapErr [123; 98; 97; 114; 58; 54; 53; 53; 51; 54; 125] = PRes (PErr SWidth 125).
Proof. split; reflexivity. Qed.

Example C10_slice_is_partial :
  str_from 3 [111; 110] = None                 (* "on": 3 > len *)
  /\ str_from 3 [111; 110; 233] = None         (* "oné": byte 3 is inside the é *)
  /\ str_from 3 [233; 8364] = None             (* "é€": byte 3 is inside the € *)
  /\ str_from 3 [8364; 33] = Some [33]         (* "€!" *)
  /\ str_from 3 [111; 110; 95; 49; 55] = Some [49; 55].   (* "on_17" *)
Proof. vm_compute. repeat split. Qed.

(** A TemplateError can only arise at a character of the input, in the states DoubleClose,
    MaybeOpen, Align and Width, on the characters [err_site] lists: Literal, Key, FirstStyle
    and AltStyle accept every character.  ([err_site] is a necessary condition; for '.' and
    '}' in Width the exact condition is the next theorem.) *)
Theorem C10_err_sites : forall (s : list N) st c,
  parse s = PErr st c -> err_site st c = true /\ In c s.
Proof. exact parse_err_sites. Qed.
Print Assumptions C10_err_sites.

(** ... and in state Width the characters '.' and '}' - which end a width - are an error only
    when the digits collected up to there denote a number that does not fit u16: the input
    splits at the offending character, the prefix runs without error into state Width, and
    the buffer then holds a non-empty digit string of value >= 2^16. *)
Theorem C10_err_width_is_overflow : forall (s : list N) c,
  parse s = PErr SWidth c -> c = 46 \/ c = 125 ->
  exists s1 s2 f,
    s = s1 ++ c :: s2 /\ trun pinit0 s1 = SOk f /\ p_state f = SWidth /\
    p_buf f <> [] /\ forallb is_digit (p_buf f) = true /\ U16 <= digits_value (p_buf f).
Proof. exact parse_err_width_overflow. Qed.
Print Assumptions C10_err_width_is_overflow.

(** Fidelity: for EVERY template [t] of the documented grammar (decidable [wf]: literal text
    free of braces and newlines, `{{`, `}}`, `{`+ASCII white-space, newline,
    {key[:[<^>][width][!][.style[/style]]]} with width < 2^16), every placeholder expansion
    function and tab width: the printed template is accepted and renders as the in-order
    concatenation [render_spec] – one line per template line, the last one unless empty. *)
Theorem C10_fidelity : forall (expand : ph -> list N) (tw : N) (t : list item),
  wf t = true ->
  exists ps, parse (print t) = POk ps /\
             render_parts expand tw ps = render_spec expand tw t.
Proof. exact fidelity. Qed.
Print Assumptions C10_fidelity.

(** ... and a single '}' at the very end stands for itself (JSON-looking templates such as
    `{ "foo": "{foo}", "bar": {bar} }`). *)
Theorem C10_fidelity_trailing_brace : forall (expand : ph -> list N) (tw : N) (t : list item),
  wf t = true ->
  exists ps, parse (print t ++ [125]) = POk ps /\
             render_parts expand tw ps = render_spec expand tw (t ++ [IEscClose]).
Proof. exact fidelity_trailing_brace. Qed.
Print Assumptions C10_fidelity_trailing_brace.

(** Widths beyond u16::MAX: after any well-formed prefix, a placeholder whose digit string
    denotes >= 2^16 (any number of digits) makes the whole template a TemplateError in state
    Width at the character that ends the width – never a panic, never accepted. *)
Theorem C10_width_overflow_err : forall t k al ds tr sty rest,
  wf t = true -> key_ok k = true ->
  ds <> [] -> forallb is_digit ds = true -> U16 <= digits_value ds ->
  parse (print t ++ print_item (IPh k (Some (mkfmt al ds tr sty))) ++ rest) =
  PErr SWidth (match sty with None => 125 | Some _ => 46 end).
Proof. exact width_overflow_err. Qed.
Print Assumptions C10_width_overflow_err.

(** One output line per template line (what [render_spec] says, spelled out): with
    placeholder values free of newlines, a template line [t1] followed by a newline renders as
    exactly one line – the concatenation [text t1], empty or not – followed by the rendering of
    the rest; a final template line renders as one line unless it is empty. *)
Theorem C10_one_line_per_template_line : forall (expand : ph -> list N) (tw : N) t1 t2,
  (forall p, ~ In 10 (expand p)) -> wf t1 = true -> no_sep t1 = true ->
  render_spec expand tw (t1 ++ INewline :: t2) = text expand tw t1 :: render_spec expand tw t2
  /\ render_spec expand tw t1 = (if nonempty (text expand tw t1) then [text expand tw t1] else []).
Proof. exact one_line_per_template_line. Qed.
Print Assumptions C10_one_line_per_template_line.

(** The same for arbitrary values (a value may bring its own newlines, which split it), and
    for the newline of "{\n". *)
Theorem C10_newline_ends_line : forall (expand : ph -> list N) (tw : N) t1 t2,
  no_sep t1 = true ->
  render_spec expand tw (t1 ++ INewline :: t2) =
    split_nl (text expand tw t1) ++ render_spec expand tw t2
  /\ render_spec expand tw (t1 ++ IBraceWs 10 :: t2) =
    split_nl (text expand tw t1 ++ [123]) ++ render_spec expand tw t2.
Proof. exact newline_ends_line. Qed.
Print Assumptions C10_newline_ends_line.

(** Unknown keys expand to nothing.  [fmt_render env styles tw] is format_state for a style
    without a wide element with the scratch String `buf` threaded through the walk as in the
    code (declared once, cleared at the top of the Placeholder arm, style.rs:243/258); [env]
    is the format_map (with_key), [is_builtin] the list of names in format_state's `match`
    (FORMAT_KEYS, regenerated from style.rs by tools/constants.py).
    (a) Whole templates: a template of the grammar containing a placeholder whose key is
    neither overridden nor known to the crate, without a style, is accepted and renders
    exactly as the same template with that placeholder deleted - replaced by the blanks its
    width asks for if it has one ([pad_items]). *)
Theorem C10_unknown_key_deleted : forall env styles tw t1 t2 k fo,
  wf (t1 ++ IPh k fo :: t2) = true ->
  assoc k env = None -> is_builtin k = false -> unstyled fo = true ->
  exists ps ps',
    parse (print (t1 ++ IPh k fo :: t2)) = POk ps /\
    parse (print (t1 ++ pad_items fo ++ t2)) = POk ps' /\
    fmt_render env styles tw ps = fmt_render env styles tw ps'.
Proof. exact unknown_key_deleted. Qed.
Print Assumptions C10_unknown_key_deleted.

(** (b) One step, any style, ANY contents of the scratch buffer (what an earlier placeholder
    left there): the unknown key appends to the current line only its style's wrapper around
    the padding, and leaves the buffer empty.  (With a style whose escape prefix is not empty
    this is not "nothing": see docs/C10.md, Interpretations.) *)
Theorem C10_unknown_key_step : forall env styles tw a old p,
  assoc (ph_key p) env = None -> is_builtin (ph_key p) = false ->
  fstep env styles tw (a, old) (PPh p) =
  (add_text a (styled styles (ph_style p)
                 (match ph_width p with Some w => nrepeat 32 w | None => [] end)), []).
Proof. exact unknown_key_step. Qed.
Print Assumptions C10_unknown_key_step.

(** The buffer-threading walk used by the tie is the part-by-part rendering of the fidelity
    theorems with [expand := expand_exec env styles]. *)
Theorem C10_fmt_render_is_render_parts : forall env styles tw ps,
  fmt_render env styles tw ps = render_parts (expand_exec env styles) tw ps.
Proof. exact fmt_render_parts. Qed.
Print Assumptions C10_fmt_render_is_render_parts.

(** u16::from_str as transcribed agrees with the decimal value, for digit strings of any
    length (leading zeros included). *)
Theorem C10_u16_parse : forall ds,
  ds <> [] -> forallb is_digit ds = true ->
  parse_u16 ds = (if digits_value ds <? U16 then Some (digits_value ds) else None).
Proof. exact parse_u16_digits. Qed.
Print Assumptions C10_u16_parse.

(** Non-vacuity: a template using every production is well-formed, and the theorem's
    conclusion is computed for it; the former defect witnesses. *)
Example C10_wf_nonvacuous :
  let t := [ILit [120]; IBraceWs 32; IEscOpen; IPh [107] None; IEscClose; INewline; IBraceWs 10;
            IPh [98; 97; 114] (Some (mkfmt (Some ACenter) [48; 49; 50] true (Some ([114; 101; 100], Some [98]))));
            ILit [9; 124]] in
  wf t = true /\
  print t = [120; 123; 32; 123; 123; 123; 107; 125; 125; 125; 10; 123; 10;
             123; 98; 97; 114; 58; 94; 48; 49; 50; 33; 46; 114; 101; 100; 47; 98; 125; 9; 124] /\
  render_spec (fun p => 60 :: ph_key p ++ [62]) 2 t =
    [[120; 123; 32; 123; 60; 107; 62; 125]; [123]; [60; 98; 97; 114; 62; 32; 32; 124]].
Proof. vm_compute. repeat split. Qed.

Example C10_d3_witness :                       (* "x{ y" used to render "{x y" *)
  parse [120; 123; 32; 121] = POk [PLit [120; 123; 32]; PLit [121]].
Proof. reflexivity. Qed.

Example C10_d2_witness :                       (* "{bar:65536}" used to panic *)
  parse [123; 98; 97; 114; 58; 54; 53; 53; 51; 54; 125] = PErr SWidth 125
  /\ exists ps, parse [123; 98; 97; 114; 58; 54; 53; 53; 51; 53; 125] = POk ps.
Proof. split; [reflexivity | eexists; reflexivity]. Qed.

Example C10_brace_newline_witness :            (* "{\n" used to be the one literal "{\n" *)
  parse [123; 10] = POk [PLit [123]; PNewLine]
  /\ render_parts (fun _ => []) 8 [PLit [123]; PNewLine] = [[123]].
Proof. split; reflexivity. Qed.

Example C10_overflow_nonvacuous :
  wf [ILit [97]] = true /\ key_ok [107] = true /\ U16 <= digits_value [54; 53; 53; 51; 54].
Proof. vm_compute. repeat split; discriminate. Qed.

Example C10_unknown_key_nonvacuous :          (* "a{zz:>3}|{k}" with k overridden, zz unknown *)
  let t1 := [ILit [97]] in
  let t2 := [ILit [124]; IPh [107] None] in
  let fo := Some (mkfmt (Some ARight) [51] false None) in
  let env := [([107], [75])] in
  wf (t1 ++ IPh [122; 122] fo :: t2) = true /\ assoc [122; 122] env = None /\
  is_builtin [122; 122] = false /\ unstyled fo = true /\
  pad_items fo = [ILit [32; 32; 32]] /\
  (exists ps, parse (print (t1 ++ IPh [122; 122] fo :: t2)) = POk ps /\
              fmt_render env [] 8 ps = [[97; 32; 32; 32; 124; 75]]).
Proof. vm_compute. repeat split. eexists. split; reflexivity. Qed.

(* a stale scratch buffer does not leak into an unknown key *)
Example C10_unknown_key_after_known :
  fmt_render [([107], [75; 75])] [] 8 [PPh (mkph [107] ALeft None false None None);
                                        PPh (mkph [122] ALeft None false None None); PLit [33]]
  = [[75; 75; 33]].
Proof. reflexivity. Qed.

Example C10_err_width_nonvacuous :
  parse [123; 107; 58; 54; 33; 53; 53; 51; 54; 46] = PErr SWidth 46.   (* "{k:6!5536." *)
Proof. reflexivity. Qed.

(* behaviour outside the grammar (no theorem, see docs/C10.md "Interpretations"): `{`key
   white-space backtracks to a literal; text pending in an unterminated placeholder is dropped *)
Example C10_key_ws_backtrack :                 (* "a{k b" *)
  parse [97; 123; 107; 32; 98] = POk [PLit [97]; PLit [123; 107; 32]; PLit [98]].
Proof. reflexivity. Qed.
Example C10_unterminated_dropped :             (* "abc{" and "ab{k:5" *)
  parse [97; 98; 99; 123] = POk []
  /\ parse [97; 98; 123; 107; 58; 53] = POk [PLit [97; 98]; PPh (mkph [107] ALeft None false None None)].
Proof. split; reflexivity. Qed.
