(** C10 – Template parsing is total and preserves literal text.
    Only statements; every proof is [exact <lemma from IndProofs.TemplateProofs>].
    Strings are lists of Unicode scalar values; [parse] is the model of
    ProgressStyle::with_template / ProgressStyle::template (Template::from_str_with_tab_width),
    [render_parts expand tw] the model of ProgressStyle::format_state for a style without a
    wide element, where [expand p] is whatever the placeholder [p] writes (arbitrary) and [tw]
    the tab width. *)
From IndModel Require Import Base Template.
From IndProofs Require Import TemplateProofs.
From Coq Require Import List NArith.
Import ListNotations.
Open Scope N_scope.

(** Totality: every string – arbitrary code points, any length – yields Ok or Err.  The model
    has no third outcome because the transcribed function has no failing operation left (the
    u16 parse is a `?`); the tie checks Ok/Err/panic on the implementation. *)
Theorem C10_total : forall s : list N,
  (exists ps, parse s = POk ps) \/ (exists st c, parse s = PErr st c).
Proof. exact parse_total. Qed.
Print Assumptions C10_total.

(** A TemplateError can only arise at a character of the input, in the states DoubleClose,
    MaybeOpen, Align and Width, on the characters [err_site] lists ('.' and '}' in Width only
    for a width that does not fit u16): Literal, Key, FirstStyle and AltStyle accept every
    character. *)
Theorem C10_err_sites : forall (s : list N) st c,
  parse s = PErr st c -> err_site st c = true /\ In c s.
Proof. exact parse_err_sites. Qed.
Print Assumptions C10_err_sites.

(** Fidelity: for EVERY template [t] of the documented grammar (decidable [wf]: literal text
    free of braces and newlines, `{{`, `}}`, `{`+ASCII white-space, newline,
    {key[:[<^>][width][!][.style[/style]]]} with width < 2^16), every placeholder expansion
    function and tab width: the printed template is accepted and renders as the in-order
    concatenation [render_spec] – one line per template line, the last one unless empty. *)
Theorem C10_fidelity : forall (expand : ph -> list N) (tw : N) (t : list item),
  wf t = true ->
  exists ps, parse (print t) = POk ps /\
             render_parts expand tw ps = render_spec expand tw t.
Proof. exact fidelity. Qed.
Print Assumptions C10_fidelity.

(** ... and a single '}' at the very end stands for itself (JSON-looking templates such as
    `{ "foo": "{foo}", "bar": {bar} }`). *)
Theorem C10_fidelity_trailing_brace : forall (expand : ph -> list N) (tw : N) (t : list item),
  wf t = true ->
  exists ps, parse (print t ++ [125]) = POk ps /\
             render_parts expand tw ps = render_spec expand tw (t ++ [IEscClose]).
Proof. exact fidelity_trailing_brace. Qed.
Print Assumptions C10_fidelity_trailing_brace.

(** Widths beyond u16::MAX: after any well-formed prefix, a placeholder whose digit string
    denotes >= 2^16 (any number of digits) makes the whole template a TemplateError in state
    Width at the character that ends the width – never a panic, never accepted. *)
Theorem C10_width_overflow_err : forall t k al ds tr sty rest,
  wf t = true -> key_ok k = true ->
  ds <> [] -> forallb is_digit ds = true -> U16 <= digits_value ds ->
  parse (print t ++ print_item (IPh k (Some (mkfmt al ds tr sty))) ++ rest) =
  PErr SWidth (match sty with None => 125 | Some _ => 46 end).
Proof. exact width_overflow_err. Qed.
Print Assumptions C10_width_overflow_err.

(** One output line per template line (what [render_spec] says, spelled out): with
    placeholder values free of newlines, a template line [t1] followed by a newline renders as
    exactly one line – the concatenation [text t1], empty or not – followed by the rendering of
    the rest; a final template line renders as one line unless it is empty. *)
Theorem C10_one_line_per_template_line : forall (expand : ph -> list N) (tw : N) t1 t2,
  (forall p, ~ In 10 (expand p)) -> wf t1 = true -> no_sep t1 = true ->
  render_spec expand tw (t1 ++ INewline :: t2) = text expand tw t1 :: render_spec expand tw t2
  /\ render_spec expand tw t1 = (if nonempty (text expand tw t1) then [text expand tw t1] else []).
Proof. exact one_line_per_template_line. Qed.
Print Assumptions C10_one_line_per_template_line.

(** The same for arbitrary values (a value may bring its own newlines, which split it), and
    for the newline of "{\n". *)
Theorem C10_newline_ends_line : forall (expand : ph -> list N) (tw : N) t1 t2,
  no_sep t1 = true ->
  render_spec expand tw (t1 ++ INewline :: t2) =
    split_nl (text expand tw t1) ++ render_spec expand tw t2
  /\ render_spec expand tw (t1 ++ IBraceWs 10 :: t2) =
    split_nl (text expand tw t1 ++ [123]) ++ render_spec expand tw t2.
Proof. intros e tw t1 t2 H. split; [exact (spec_newline e tw t1 t2 H) | exact (spec_brace_newline e tw t1 t2 H)]. Qed.
Print Assumptions C10_newline_ends_line.

(** Unknown keys expand to nothing: in the executable expansion used by the tie, a key that is
    neither overridden nor known to the crate writes only the padding its width asks for. *)
Theorem C10_unknown_key_nothing : forall env styles p,
  assoc (ph_key p) env = None -> is_builtin (ph_key p) = false ->
  expand_exec env styles p =
  styled styles (ph_style p) (match ph_width p with Some w => nrepeat 32 w | None => [] end).
Proof. exact unknown_key_nothing. Qed.
Print Assumptions C10_unknown_key_nothing.

(** u16::from_str as transcribed agrees with the decimal value, for digit strings of any
    length (leading zeros included). *)
Theorem C10_u16_parse : forall ds,
  ds <> [] -> forallb is_digit ds = true ->
  parse_u16 ds = (if digits_value ds <? U16 then Some (digits_value ds) else None).
Proof. exact parse_u16_digits. Qed.
Print Assumptions C10_u16_parse.

(** Non-vacuity: a template using every production is well-formed, and the theorem's
    conclusion is computed for it; the former defect witnesses. *)
Example C10_wf_nonvacuous :
  let t := [ILit [120]; IBraceWs 32; IEscOpen; IPh [107] None; IEscClose; INewline; IBraceWs 10;
            IPh [98; 97; 114] (Some (mkfmt (Some ACenter) [48; 49; 50] true (Some ([114; 101; 100], Some [98]))));
            ILit [9; 124]] in
  wf t = true /\
  print t = [120; 123; 32; 123; 123; 123; 107; 125; 125; 125; 10; 123; 10;
             123; 98; 97; 114; 58; 94; 48; 49; 50; 33; 46; 114; 101; 100; 47; 98; 125; 9; 124] /\
  render_spec (fun p => 60 :: ph_key p ++ [62]) 2 t =
    [[120; 123; 32; 123; 60; 107; 62; 125]; [123]; [60; 98; 97; 114; 62; 32; 32; 124]].
Proof. vm_compute. repeat split. Qed.

Example C10_d3_witness :                       (* "x{ y" used to render "{x y" *)
  parse [120; 123; 32; 121] = POk [PLit [120; 123; 32]; PLit [121]].
Proof. reflexivity. Qed.

Example C10_d2_witness :                       (* "{bar:65536}" used to panic *)
  parse [123; 98; 97; 114; 58; 54; 53; 53; 51; 54; 125] = PErr SWidth 125
  /\ exists ps, parse [123; 98; 97; 114; 58; 54; 53; 53; 51; 53; 125] = POk ps.
Proof. split; [reflexivity | eexists; reflexivity]. Qed.

Example C10_brace_newline_witness :            (* "{\n" used to be the one literal "{\n" *)
  parse [123; 10] = POk [PLit [123]; PNewLine]
  /\ render_parts (fun _ => []) 8 [PLit [123]; PNewLine] = [[123]].
Proof. split; reflexivity. Qed.

Example C10_overflow_nonvacuous :
  wf [ILit [97]] = true /\ key_ok [107] = true /\ U16 <= digits_value [54; 53; 53; 51; 54].
Proof. vm_compute. repeat split; discriminate. Qed.
