(** C17 – Iterator and I/O adaptors are transparent and count exactly.
    Only statements; every proof is [exact <lemma from IndProofs>]; all vocabulary is defined in
    model/Adaptors.v.  Everything is quantified over an ARBITRARY inner object
    [I : inner S E Item Data] (any state type, any step functions: short transfers, errors,
    Pending, lies).  The code under verification is [head_code] = /repo HEAD (6ff82af), which
    contains the four fixes this check caused last (7fc986e, 3a319c2, c811d79, 2747e49).

    How to read this file (docs/C17.md has the same table):
    * PROPERTY theorems (sections 1-4) relate the adaptor to [meets_spec] = the property text for
      one call (same result and inner state as the bare call, bar moved by [effect_of], no added
      panic; [effect_of] is written from the text, independent of the code; Interpretations
      I1-I4 in docs/C17.md).  All are at full strength for the current code:
        C17_step, C17_transparent, C17_counts, C17_never_panics, C17_programs,
        C17_exhaustion_iterator, C17_exhaustion_stream, C17_finish_behaviour, C17_rayon_consumer,
        C17_rayon_producer.
    * SPEC-SHAPE lemmas (section 2) are about [effect_of] alone (what the specification
      prescribes): C17_err_counts_nothing, C17_pending_counts_nothing,
      C17_poll_read_counts_filled_growth, C17_position_closed_form, C17_position_after_seek.
    * TRANSCRIPTION lemmas about HEAD: C17_read_exact_err_counts_nothing (Interpretation I1),
      C17_rayon_check_order.
    * REGRESSION statements (section 5, all named C17_pre_fix_...) are about the HISTORICAL tree
      before those four fixes ([pre_fix_code], 8b11f76) and say nothing about HEAD: the property
      held outside four decidable classes ([_partial]), failed inside each ([_refuted], vm_compute
      witnesses that HEAD must pass in the corpus of harness/src/bin/c17.rs), and what that code
      did instead (transcription). *)
From IndModel Require Import Base Adaptors.
From IndProofs Require Import AdaptorsProofs.
From Coq Require Import NArith List.
Import ListNotations.
Open Scope N_scope.

(* ------------------------------------------------------------------ *)
(** * 1. The property for one call (HEAD, full strength) *)

(** Every call on the adaptor returns what the bare object returns, leaves the inner object in
    the same state, moves the bar by exactly the prescribed effect and does not panic.  No call
    and no inner behaviour is excluded. *)
Theorem C17_step : forall (S E Item Data : Type) (I : inner S E Item Data)
    (B : buffers Data) (s : S) (b : bar) (c : call Data),
  meets_spec S E Item Data I head_code B s b c.
Proof. exact step_spec_head. Qed.
Print Assumptions C17_step.

(** Transparency: value returned to the caller and inner state after the call are those of the
    bare call. *)
Theorem C17_transparent : forall (S E Item Data : Type) (I : inner S E Item Data)
    (B : buffers Data) (s : S) (b : bar) (c : call Data) (w' : W S) (r : ret E Item Data),
  wrap_step S E Item Data I head_code B (s, b) c = Ok (w', r) ->
  (fst w', r) = bare_step S E Item Data I s c.
Proof. exact step_transparent_head. Qed.
Print Assumptions C17_transparent.

(** Exact counting: bar after = bar before + prescribed effect of what the bare call returned. *)
Theorem C17_counts : forall (S E Item Data : Type) (I : inner S E Item Data)
    (B : buffers Data) (s : S) (b : bar) (c : call Data) (w' : W S) (r : ret E Item Data),
  wrap_step S E Item Data I head_code B (s, b) c = Ok (w', r) ->
  snd w' = apply_effect b (effect_of E Item Data c (snd (bare_step S E Item Data I s c))).
Proof. exact step_counts_head. Qed.
Print Assumptions C17_counts.

(** The adaptor never adds a panic of its own. *)
Theorem C17_never_panics : forall (S E Item Data : Type) (I : inner S E Item Data)
    (B : buffers Data) (s : S) (b : bar) (c : call Data),
  ~ exists site, wrap_step S E Item Data I head_code B (s, b) c = Panic site.
Proof. exact never_panics_head. Qed.
Print Assumptions C17_never_panics.

(* ------------------------------------------------------------------ *)
(** * 2. What the specification prescribes (statements about [effect_of] only) *)

(** Err => nothing is prescribed (all blocking calls, poll_write*/poll_flush/poll_shutdown/
    poll_complete/poll_fill_buf; read_exact by Interpretation I1; poll_read is not an "Err" in
    this sense, see below). *)
Theorem C17_err_counts_nothing : forall (S E Item Data : Type) (I : inner S E Item Data)
    (s : S) (c : call Data),
  ret_is_err E Item Data (snd (bare_step S E Item Data I s c)) = true ->
  effect_of E Item Data c (snd (bare_step S E Item Data I s c)) = ENothing.
Proof. exact err_counts_nothing. Qed.
Print Assumptions C17_err_counts_nothing.

(** Pending => nothing is prescribed (poll_read by Interpretation I2). *)
Theorem C17_pending_counts_nothing : forall (S E Item Data : Type) (I : inner S E Item Data)
    (s : S) (c : call Data),
  ret_is_pending E Item Data (snd (bare_step S E Item Data I s c)) = true ->
  effect_of E Item Data c (snd (bare_step S E Item Data I s c)) = ENothing.
Proof. exact pending_counts_nothing. Qed.
Print Assumptions C17_pending_counts_nothing.

(** poll_read: the growth of the filled region is prescribed on every Ready – Ok or Err (the
    bytes are in the caller's buffer either way); truncated subtraction: a shrunken region = 0. *)
Theorem C17_poll_read_counts_filled_growth : forall (S E Item Data : Type) (I : inner S E Item Data)
    (s : S) (f cap : N) (s' : S) (d : Data) (f' : N) (x : io_result E unit),
  i_poll_read I s f cap = (s', (d, f', Ready x)) ->
  effect_of E Item Data (CPollRead f cap)
            (snd (bare_step S E Item Data I s (CPollRead f cap))) = EAdd (f' - f).
Proof. exact poll_read_counts. Qed.
Print Assumptions C17_poll_read_counts_filled_growth.

(** INTERPRETATION I1 (a transcription lemma, not the property text; see docs/C17.md
    "Interpretations"): read_exact returning Err counts 0, whatever [d] the inner reader had
    already put into the buffer. *)
Theorem C17_read_exact_err_counts_nothing : forall (S E Item Data : Type) (I : inner S E Item Data)
    (s : S) (b : bar) (n : N) (s' : S) (d : Data) (e : E),
  i_read_exact I s n = (s', (d, IoErr e)) ->
  w_read_exact S E Item Data I (s, b) n = ((s', b), (d, IoErr e)).
Proof. exact read_exact_err_counts_nothing. Qed.
Print Assumptions C17_read_exact_err_counts_nothing.

(* ------------------------------------------------------------------ *)
(** * 3. Whole callers ("every chunking", std's default methods, io::copy ...) *)

(** HEAD, full strength: for EVERY adaptive program over the calls the run through the adaptor
    returns the same trace of results, leaves the same inner state, and the bar is the fold of the
    prescribed effects over that trace. *)
Theorem C17_programs : forall (S E Item Data : Type) (I : inner S E Item Data)
    (B : buffers Data) (p : prog E Item Data) (s : S) (b : bar),
  run_wrap S E Item Data I head_code B p (s, b) =
    Ok ((fst (run_bare S E Item Data I p s),
         bar_after E Item Data b (snd (run_bare S E Item Data I p s))),
        snd (run_bare S E Item Data I p s)).
Proof. exact prog_spec_head. Qed.
Print Assumptions C17_programs.

(** Closed form: over a trace with no seek and no end, position = start + everything the inner
    object transferred, mod 2^64; length, status, message untouched. *)
Theorem C17_position_closed_form : forall (E Item Data : Type)
    (t : list (call Data * ret E Item Data)) (b : bar),
  adds_only E Item Data t = true -> b_pos b < U64 ->
  b_pos (bar_after E Item Data b t) = (b_pos b + moved E Item Data t) mod U64
  /\ same_but_pos b (bar_after E Item Data b t).
Proof. exact bar_after_adds. Qed.
Print Assumptions C17_position_closed_form.

(** ... and after a seek that arrived at p: p + everything transferred since. *)
Theorem C17_position_after_seek : forall (E Item Data : Type)
    (t1 : list (call Data * ret E Item Data)) (cr : call Data * ret E Item Data)
    (t2 : list (call Data * ret E Item Data)) (b : bar) (p : N),
  eff E Item Data cr = ESet p -> p < U64 -> adds_only E Item Data t2 = true ->
  b_pos (bar_after E Item Data b (t1 ++ cr :: t2)) = (p + moved E Item Data t2) mod U64.
Proof. exact bar_after_seek_then_adds. Qed.
Print Assumptions C17_position_after_seek.

(* ------------------------------------------------------------------ *)
(** * 4. Exhaustion and rayon (HEAD, full strength) *)

(** Blocking iterators (next and next_back): None finishes an unfinished bar with
    finish_using_style, leaves a finished bar alone; the bar is finished afterwards. *)
Theorem C17_exhaustion_iterator : forall (S E Item Data : Type) (I : inner S E Item Data)
    (s : S) (b : bar) (s' : S) (back : bool),
  (if back then i_next_back I s else i_next I s) = (s', None) ->
  let w' := fst (if back then w_next_back S E Item Data I (s, b) else w_next S E Item Data I (s, b)) in
  fst w' = s' /\
  snd w' = (if bar_is_finished b then b else bar_finish_using_style b) /\
  bar_is_finished (snd w') = true.
Proof. exact next_none_finishes. Qed.
Print Assumptions C17_exhaustion_iterator.

(** Streams: the same rule. *)
Theorem C17_exhaustion_stream : forall (S E Item Data : Type) (I : inner S E Item Data)
    (s : S) (b : bar) (s' : S),
  i_poll_next I s = (s', Ready None) ->
  w_poll_next S E Item Data I head_code (s, b) =
    ((s', if bar_is_finished b then b else bar_finish_using_style b), Ready None).
Proof. exact poll_next_none_head. Qed.
Print Assumptions C17_exhaustion_stream.

(** "according to its finish behaviour": what finish_using_style leaves in the getters. *)
Theorem C17_finish_behaviour : forall b : bar,
  let b' := bar_finish_using_style b in
  bar_is_finished b' = true
  /\ b_pos b' = (match b_len b with
                 | Some l => if finish_sets_pos (b_on_finish b) then l else b_pos b
                 | None => b_pos b
                 end)
  /\ b_msg b' = (match finish_message (b_on_finish b) with Some m => m | None => b_msg b end)
  /\ b_len b' = b_len b /\ b_on_finish b' = b_on_finish b.
Proof. exact finish_using_style_spec. Qed.
Print Assumptions C17_finish_behaviour.

(** rayon, consumer path (drive, drive_unindexed): for every base consumer, every split tree
    (split_at / split_off_left+to_reducer / leaves folding any items) and EVERY schedule of the
    leaves on the shared atomic position: result = the base consumer's result, position = start +
    number of items consumed (mod 2^64), nothing else touched (in particular not finished).
    The split tree is data, not a function of [full()]/[len()] answers: those methods are pure
    forwards (rayon.rs:49-51, 105-111, 199-201, 234-236) and are not in the model. *)
Theorem C17_rayon_consumer : forall (Item C F R Res : Type)
    (c_split_at : C -> N -> C * C * R) (c_split_off_left : C -> C) (c_to_reducer : C -> R)
    (c_into_folder : C -> F) (f_consume : F -> Item -> F) (f_complete : F -> Res)
    (r_reduce : R -> Res -> Res -> Res)
    (c : C) (t : dtree Item) (l : list N) (b : bar),
  let w := drive_wrap Item C F R Res c_split_at c_split_off_left c_to_reducer c_into_folder
                      f_consume f_complete r_reduce c t in
  Interleave (snd w) l -> b_pos b < U64 ->
  fst w = drive_bare Item C F R Res c_split_at c_split_off_left c_to_reducer c_into_folder
                     f_consume f_complete r_reduce c t
  /\ b_pos (bar_run_incs b l) = (b_pos b + N.of_nat (items_consumed Item t)) mod U64
  /\ same_but_pos b (bar_run_incs b l).
Proof. exact rayon_consumer_count. Qed.
Print Assumptions C17_rayon_consumer.

(** rayon, producer path (with_producer; after fix 3528467): for every base producer, every split
    tree, every sequence of next/next_back on each part and EVERY schedule: the parts yield the
    same items and end in the same iterator states, position = start + number of items yielded. *)
Theorem C17_rayon_producer : forall (Item P It : Type)
    (p_split_at : P -> N -> P * P) (p_into_iter : P -> It)
    (it_next it_next_back : It -> It * option Item)
    (p : P) (t : ptree) (l : list N) (b : bar),
  let w := produce_wrap Item P It p_split_at p_into_iter it_next it_next_back p t in
  let bare := produce_bare Item P It p_split_at p_into_iter it_next it_next_back p t in
  Interleave (snd w) l -> b_pos b < U64 ->
  fst w = bare
  /\ b_pos (bar_run_incs b l) = (b_pos b + N.of_nat (items_yielded Item It bare)) mod U64
  /\ same_but_pos b (bar_run_incs b l).
Proof. exact rayon_producer_count. Qed.
Print Assumptions C17_rayon_producer.

(** the order in which [adaptors_check] evaluates a rayon case is one of those schedules' results *)
Theorem C17_rayon_check_order : forall (n : N) (b : bar), b_pos b < U64 ->
  b_pos (N.iter n (fun b => bar_inc b 1) b) = (b_pos b + n) mod U64
  /\ same_but_pos b (N.iter n (fun b => bar_inc b 1) b).
Proof. exact iter_inc_spec. Qed.
Print Assumptions C17_rayon_check_order.

(* ------------------------------------------------------------------ *)
(** * 5. REGRESSION: the four defects fixed by 7fc986e 3a319c2 c811d79 2747e49 *)
(** Everything below is about the HISTORICAL code before those commits ([pre_fix_code], or any
    [variant] lacking some of the fixes) and is kept as documentation of what was wrong and as a
    guard: the witnesses are in the corpus of c17.rs, where the current code must pass them and a
    reappearing class is a plain VIOLATION.  None of these theorems restricts what sections 1-4
    say about HEAD ([known_dev head_code] is empty). *)

(** Any variant (in particular the pre-fix tree), restricted: the property held outside the
    decidable classes [known_dev V] of the fixes that variant lacks (pre-fix: Stream::size_hint
    with a non-default inner hint; Stream end on a finished bar; poll_read whose inner reader
    shrank ReadBuf::filled; poll_write_vectored; is_write_vectored on a vectored inner writer). *)
Theorem C17_pre_fix_step_partial : forall (S E Item Data : Type) (I : inner S E Item Data)
    (V : variant) (B : buffers Data) (s : S) (b : bar) (c : call Data),
  known_dev E Item Data V b c (snd (bare_step S E Item Data I s c)) = false ->
  meets_spec S E Item Data I V B s b c.
Proof. exact step_spec. Qed.
Print Assumptions C17_pre_fix_step_partial.

Theorem C17_pre_fix_transparent_partial : forall (S E Item Data : Type) (I : inner S E Item Data)
    (V : variant) (B : buffers Data) (s : S) (b : bar) (c : call Data) (w' : W S)
    (r : ret E Item Data),
  known_dev E Item Data V b c (snd (bare_step S E Item Data I s c)) = false ->
  wrap_step S E Item Data I V B (s, b) c = Ok (w', r) ->
  (fst w', r) = bare_step S E Item Data I s c.
Proof. exact step_transparent. Qed.
Print Assumptions C17_pre_fix_transparent_partial.

Theorem C17_pre_fix_counts_partial : forall (S E Item Data : Type) (I : inner S E Item Data)
    (V : variant) (B : buffers Data) (s : S) (b : bar) (c : call Data) (w' : W S)
    (r : ret E Item Data),
  known_dev E Item Data V b c (snd (bare_step S E Item Data I s c)) = false ->
  wrap_step S E Item Data I V B (s, b) c = Ok (w', r) ->
  snd w' = apply_effect b (effect_of E Item Data c (snd (bare_step S E Item Data I s c))).
Proof. exact step_counts. Qed.
Print Assumptions C17_pre_fix_counts_partial.

(** ... and for programs whose bare run never entered such a class. *)
Theorem C17_pre_fix_programs_partial : forall (S E Item Data : Type) (I : inner S E Item Data)
    (V : variant) (B : buffers Data) (p : prog E Item Data) (s : S) (b : bar),
  trace_ok E Item Data V b (snd (run_bare S E Item Data I p s)) = true ->
  run_wrap S E Item Data I V B p (s, b) =
    Ok ((fst (run_bare S E Item Data I p s),
         bar_after E Item Data b (snd (run_bare S E Item Data I p s))),
        snd (run_bare S E Item Data I p s)).
Proof. exact prog_spec. Qed.
Print Assumptions C17_pre_fix_programs_partial.

(** The pre-fix tree missed the property in each of those classes (witnesses on the harness's
    scripted object). *)
(** 7fc986e: Stream::size_hint was futures' default (0, None). *)
Theorem C17_pre_fix_stream_size_hint_refuted :
  exists s b, known_dev N N (list N) pre_fix_code b CStreamSizeHint
                (snd (bare_step _ _ _ _ scripted s CStreamSizeHint)) = true
    /\ ~ meets_spec _ _ _ _ scripted pre_fix_code sbuf s b CStreamSizeHint.
Proof. exact pre_fix_stream_size_hint_refuted. Qed.
Print Assumptions C17_pre_fix_stream_size_hint_refuted.

(** 3a319c2: a stream ending on a finished bar finished it again. *)
Theorem C17_pre_fix_stream_end_refuted :
  exists s b, known_dev N N (list N) pre_fix_code b CPollNext
                (snd (bare_step _ _ _ _ scripted s CPollNext)) = true
    /\ ~ meets_spec _ _ _ _ scripted pre_fix_code sbuf s b CPollNext.
Proof. exact pre_fix_stream_end_refuted. Qed.
Print Assumptions C17_pre_fix_stream_end_refuted.

(** c811d79: poll_read underflowed when the inner reader shrank ReadBuf::filled. *)
Theorem C17_pre_fix_poll_read_shrink_refuted :
  exists s b, known_dev N N (list N) pre_fix_code b (CPollRead 2 8)
                (snd (bare_step _ _ _ _ scripted s (CPollRead 2 8))) = true
    /\ ~ meets_spec _ _ _ _ scripted pre_fix_code sbuf s b (CPollRead 2 8).
Proof. exact pre_fix_poll_read_shrink_refuted. Qed.
Print Assumptions C17_pre_fix_poll_read_shrink_refuted.

(** 2747e49: poll_write_vectored / is_write_vectored were tokio's defaults. *)
Theorem C17_pre_fix_async_write_vectored_refuted :
  exists s b, known_dev N N (list N) pre_fix_code b (CPollWriteVectored [[1; 2]; [3; 4; 5]])
                (snd (bare_step _ _ _ _ scripted s (CPollWriteVectored [[1; 2]; [3; 4; 5]]))) = true
    /\ ~ meets_spec _ _ _ _ scripted pre_fix_code sbuf s b (CPollWriteVectored [[1; 2]; [3; 4; 5]]).
Proof. exact pre_fix_async_write_vectored_refuted. Qed.
Print Assumptions C17_pre_fix_async_write_vectored_refuted.

Theorem C17_pre_fix_is_write_vectored_refuted :
  exists s b, known_dev N N (list N) pre_fix_code b CIsWriteVectored
                (snd (bare_step _ _ _ _ scripted s CIsWriteVectored)) = true
    /\ ~ meets_spec _ _ _ _ scripted pre_fix_code sbuf s b CIsWriteVectored.
Proof. exact pre_fix_is_write_vectored_refuted. Qed.
Print Assumptions C17_pre_fix_is_write_vectored_refuted.

(** What the pre-fix code did instead (transcription lemmas). *)
(** A variant without c811d79 panics in exactly one situation (inner AsyncRead shrank
    ReadBuf::filled; builds with overflow checks). *)
Theorem C17_pre_fix_panics_iff_readbuf_shrunk : forall (S E Item Data : Type) (I : inner S E Item Data)
    (V : variant) (B : buffers Data) (s : S) (b : bar) (c : call Data),
  (exists site, wrap_step S E Item Data I V B (s, b) c = Panic site) <->
  (v_poll_read_saturating V = false /\
   exists f cap d f' x, c = CPollRead f cap /\
     snd (bare_step S E Item Data I s c) = RPollRead d f' (Ready x) /\ f' < f).
Proof. exact step_panics_iff. Qed.
Print Assumptions C17_pre_fix_panics_iff_readbuf_shrunk.

Theorem C17_pre_fix_stream_size_hint_default : forall (S E Item Data : Type) (I : inner S E Item Data)
    (B : buffers Data) (w : W S),
  wrap_step S E Item Data I pre_fix_code B w CStreamSizeHint = Ok (w, RHint (0, None)).
Proof. exact pre_fix_stream_size_hint_default. Qed.
Print Assumptions C17_pre_fix_stream_size_hint_default.

Theorem C17_pre_fix_poll_write_vectored_default : forall (S E Item Data : Type) (I : inner S E Item Data)
    (B : buffers Data) (w : W S) (ds : list Data),
  wrap_step S E Item Data I pre_fix_code B w (CPollWriteVectored ds) =
  wrap_step S E Item Data I pre_fix_code B w (CPollWrite (first_nonempty Data B ds)).
Proof. exact pre_fix_poll_write_vectored_default. Qed.
Print Assumptions C17_pre_fix_poll_write_vectored_default.

Theorem C17_pre_fix_is_write_vectored_default : forall (S E Item Data : Type) (I : inner S E Item Data)
    (B : buffers Data) (w : W S),
  wrap_step S E Item Data I pre_fix_code B w CIsWriteVectored = Ok (w, RBool false).
Proof. exact pre_fix_is_write_vectored_default. Qed.
Print Assumptions C17_pre_fix_is_write_vectored_default.

(** Ready(None) ALWAYS ran finish_using_style ... *)
Theorem C17_pre_fix_exhaustion_stream : forall (S E Item Data : Type) (I : inner S E Item Data)
    (s : S) (b : bar) (s' : S),
  i_poll_next I s = (s', Ready None) ->
  w_poll_next S E Item Data I pre_fix_code (s, b) = ((s', bar_finish_using_style b), Ready None).
Proof. exact poll_next_none_pre_fix. Qed.
Print Assumptions C17_pre_fix_exhaustion_stream.

(** ... which was visible through the getters: a second finish can move the position of a
    finished bar. *)
Theorem C17_pre_fix_stream_refinish_observable :
  exists b, bar_is_finished b = true /\ b_pos (bar_finish_using_style b) <> b_pos b.
Proof. exact stream_refinish_observable. Qed.
Print Assumptions C17_pre_fix_stream_refinish_observable.

(* ------------------------------------------------------------------ *)
(** Non-vacuity: the hypotheses are met by non-trivial values (the harness' scripted object). *)

Definition ex_s0 : sstate :=
  {| s_evs := [EvN 3; EvN 0; EvErr 5; EvN 9; EvN 7; EvPend; EvN 4]; s_ctr := 0; s_sink := 0 |}.
Definition ex_b0 : bar := bar0 (Some 10) 18446744073709551614 AndClear.

(* an adaptive caller: read until Ok(0), then seek, then poll_write until Ready *)
Definition ex_prog : prog N N (list N) :=
  PCall (CRead 5) (fun r1 =>
  PCall (CRead 5) (fun r2 =>
  PCall (CRead 5) (fun r3 =>
  PCall (CSeek (SeekStart 9)) (fun r4 =>
  PCall (CReadExact 7) (fun r5 =>
  PCall (CPollWrite [1; 2; 3; 4; 5]) (fun r6 =>
  match r6 with
  | RPollNum Pending => PCall (CPollWrite [1; 2; 3; 4; 5]) (fun _ => PDone)
  | _ => PDone
  end)))))).

Example C17_nonvacuous_program :
  trace_ok N N (list N) head_code ex_b0 (snd (run_bare _ _ _ _ scripted ex_prog ex_s0)) = true
  /\ length (snd (run_bare _ _ _ _ scripted ex_prog ex_s0)) = 7%nat
  /\ match run_wrap _ _ _ _ scripted head_code sbuf ex_prog (ex_s0, ex_b0) with
     | Ok ((_, b), _) => b_pos b = 20          (* seek to 9, +7 read_exact, +4 written *)
     | Panic _ => False
     end.
Proof. vm_compute. repeat split. Qed.

(* a caller that walks through all four classes in which the pre-fix code deviated: stream hint, stream end
   twice (the second time on the bar the first end finished), a vectored async write, a poll_read
   on a reader that shrinks the filled region *)
Definition ex_prog_dev : prog N N (list N) :=
  PCall CStreamSizeHint (fun _ =>
  PCall CPollNext (fun _ =>
  PCall CPollNext (fun _ =>
  PCall CPollNext (fun _ =>
  PCall CIsWriteVectored (fun _ =>
  PCall (CPollWriteVectored [[1; 2]; [3; 4; 5]]) (fun _ =>
  PCall (CPollRead 2 8) (fun _ => PDone))))))).
Definition ex_s1 : sstate :=
  {| s_evs := [EvItem 5; EvEnd; EvEnd; EvN 4; EvShrink 1]; s_ctr := 0; s_sink := 0 |}.

Example C17_nonvacuous_program_through_fixed_classes :
  trace_ok N N (list N) pre_fix_code (bar0 (Some 10) 0 AndLeave)
           (snd (run_bare _ _ _ _ scripted ex_prog_dev ex_s1)) = false
  /\ match run_wrap _ _ _ _ scripted head_code sbuf ex_prog_dev (ex_s1, bar0 (Some 10) 0 AndLeave) with
     | Ok ((s, b), t) => b_pos b = 14 /\ s_ctr s = 4 /\ length t = 7%nat
                         (* item +1, end: := 10, end again: untouched, +4 written across both slices, shrink: +0 *)
     | Panic _ => False
     end.
Proof. vm_compute. repeat split. Qed.

Example C17_nonvacuous_closed_form :
  let t := firstn 3 (snd (run_bare _ _ _ _ scripted ex_prog ex_s0)) in
  adds_only N N (list N) t = true /\ moved N N (list N) t = 3
  /\ b_pos (bar_after N N (list N) ex_b0 t) = 1.     (* 2^64-2 + 3 wraps to 1 *)
Proof. vm_compute. repeat split. Qed.

Example C17_nonvacuous_exhaustion :
  let s := {| s_evs := [EvEnd]; s_ctr := 0; s_sink := 0 |} in
  i_next scripted s = ({| s_evs := []; s_ctr := 0; s_sink := 0 |}, None)
  /\ bar_is_finished ex_b0 = false
  /\ b_pos (snd (fst (w_next _ _ _ _ scripted (s, ex_b0)))) = 10.
Proof. vm_compute. repeat split. Qed.

(* regression witness of c811d79 on the pre-fix model *)
Example C17_nonvacuous_pre_fix_readbuf_shrunk :
  let s := {| s_evs := [EvShrink 1]; s_ctr := 0; s_sink := 0 |} in
  wrap_step _ _ _ _ scripted pre_fix_code sbuf (s, ex_b0) (CPollRead 2 8) = Panic 1.
Proof. reflexivity. Qed.

(* a sum consumer split twice (indexed and unindexed), three leaves, a non-sequential schedule *)
Example C17_nonvacuous_rayon :
  let t := DSplitAt 2 (DLeaf [1; 2]) (DSplitOff (DLeaf [3]) (DLeaf [4; 5; 6])) in
  let w := drive_wrap N unit N unit N (fun c _ => (c, c, tt)) (fun c => c) (fun _ => tt)
                      (fun _ => 0) N.add (fun f => f) (fun _ a b => a + b) tt t in
  w = (21, [[1; 1]; [1]; [1; 1; 1]])
  /\ Interleave (snd w) [1; 1; 1; 1; 1; 1]
  /\ items_consumed N t = 6%nat.
Proof.
  cbn zeta. split; [reflexivity|]. split; [|reflexivity]. cbn [snd].
  apply (Interleave_cons [[1; 1]; [1]] 1 [1; 1] []).
  apply (Interleave_cons [] 1 [1] [[1]; [1; 1]]).
  apply (Interleave_cons [[1]] 1 [] [[1; 1]]).
  apply (Interleave_cons [[1]; []] 1 [1] []).
  apply (Interleave_cons [] 1 [] [[]; [1]]).
  apply (Interleave_cons [[]; []] 1 [] []).
  apply Interleave_nil. repeat constructor.
Qed.
