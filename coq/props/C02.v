(** C02 - MultiProgress shows every member once, in logical order, below the log.
    Only statements; every proof is [exact <lemma from IndProofs>].  What is and is not covered:
    docs/C02.md.  Sections of this file: order refinement (all histories, both alignments, faults);
    atomic brackets (generated table); screen level (C02_screen: Top alignment, no faults,
    FitsAll); latest drawn state; concurrency (C02_interleaving, C02_insert_sections_partial). *)
From IndModel Require Import MultiSpec.
From IndProofs Require Import MultiProofs MultiFrame.
From Coq Require Import List NArith.
Import ListNotations.
Open Scope N_scope.

(** (1) order refinement, one call: if the allocation invariants hold and the ordering vector is
    the image of the abstract list of bar ids, then after ANY possible public call (add / insert /
    insert_from_back / insert_before / insert_after / remove / drop / every drawing or printing
    call, at any time, any limiter state, any terminal size, any terminal failures) the invariants
    hold again and the ordering vector is the image of the textbook list operation [a_step]
    (plain list insertion / deletion / dropping the dropped bars at the head; [r] is existential
    HERE - C02_order_step_flag, at the end of this file, pins it to the computed flag [op_reaps] =
    "a MultiState::draw of the call was attempted, not refused by the refresh limiter"). *)
Theorem C02_order_step : forall (W H : N) (fails : N -> bool) (s : sys) (a : aspec) (now : N) (o : op),
  MInv s -> Refines s a -> op_ok s o = true ->
  exists r, MInv (step_sys W H fails s now o) /\ Refines (step_sys W H fails s now o) (a_step r a o).
Proof. exact step_sim. Qed.
Print Assumptions C02_order_step.

(** (1) all histories: from an empty MultiProgress and any number of bars, along every history of
    possible calls the model run and a run of the list specification stay related ([SimRun]:
    [MInv] and [Refines] after every call). *)
Theorem C02_order : forall (W H : N) (fails : N -> bool) (ops : list (N * op)) (s : sys),
  init_ok s -> hist_ok W H fails s ops -> SimRun W H fails s (mkas [] []) ops.
Proof. exact sim_run_init. Qed.
Print Assumptions C02_order.

(** (1) consequences for every reachable state: NoDup ordering, ordering and free set disjoint,
    every index within members, |members| = |ordering| + |free_set| (the two `assert_eq!` in
    insert / remove_idx cannot fire), free slots hold the default member, live member bars own
    distinct slots of the ordering that are not flagged zombie; and the ordering is the injective
    image of a duplicate-free list of bars containing every live member. *)
Theorem C02_order_reachable : forall (W H : N) (fails : N -> bool) (s : sys) (ops : list (N * op)),
  init_ok s -> hist_ok W H fails s ops ->
  let s' := run W H fails s ops in
  MInv s' /\ exists ord, NoDup ord /\ ms_order (s_mp s') = map (slot_of s') ord
                         /\ (forall b, In b ord -> is_member s' b = true)
                         /\ (forall b, alive s' b = true -> is_member s' b = true -> In b ord).
Proof. exact run_inv. Qed.
Print Assumptions C02_order_reachable.

(** the list operation of the model is textbook insertion: the element lands at position [i] *)
Theorem C02_insert_at_textbook : forall (A : Type) (l : list A) (i : nat) (x : A),
  insert_at l i x = firstn i l ++ x :: skipn i l.
Proof. exact @insert_at_spec. Qed.
Print Assumptions C02_insert_at_textbook.

(** slot reuse is safe: MultiState::insert returns a slot that is not in the ordering and holds
    the default member (no stale lines, no stale zombie flag), and touches no other member *)
Theorem C02_slot_reset : forall (m : mstate) (l : iloc) (m1 : mstate) (idx : N),
  CoreInv m -> ms_insert m l = Some (m1, idx) ->
  ~ In idx (ms_order m)
  /\ l_ins l (ms_order m) idx = Some (ms_order m1)
  /\ CoreInv m1
  /\ nthN (ms_members m1) idx member_default = member_default
  /\ (forall j, In j (ms_order m) -> nthN (ms_members m1) j member_default = nthN (ms_members m) j member_default)
  /\ ms_align m1 = ms_align m /\ ms_orphans m1 = ms_orphans m
  /\ ms_zombie_lines m1 = ms_zombie_lines m /\ ms_target m1 = ms_target m.
Proof. exact ms_insert_spec. Qed.
Print Assumptions C02_slot_reset.

(** (2) what one public call does to MultiState is exactly the sequence of MultiState method
    calls [op_actions] (member draws store [stored_frame] of the bar's state AT THAT CALL in the
    bar's slot, then MultiState::draw), and without bars that own a terminal the TermLike calls
    of the step are exactly those of these method calls *)
Theorem C02_step_calls : forall (W H : N) (fails : N -> bool) (s : sys) (now : N) (o : op),
  let x := mp_run W H fails now (s_mp s) (s_calls s) (op_actions W s now o) in
  s_mp (step_sys W H fails s now o) = fst (fst x)
  /\ (no_own_term s -> s_calls (step_sys W H fails s now o) = snd x
                       /\ step_out W H fails s now o = snd (fst x)).
Proof. exact step_mp. Qed.
Print Assumptions C02_step_calls.

(** (2) every attempted MultiState::draw makes ONE draw_to_term call whose lines are
    [extra ++ orphan_lines ++ concat (stored lines of the members, in ordering order)] - each
    member exactly once (NoDup ordering), all text first -, erasing last_line_count
    (+ zombie_lines_count when text is drawn) rows; a refused draw calls nothing *)
Theorem C02_frame : forall (W H : N) (fails : N -> bool) (m : mstate) (force : bool)
    (extra : option (list line)) (now c : N),
  let r := ms_draw W H fails m force extra now c in
  if ms_attempt W m force extra now
  then snd (fst (fst r)) = fst (fst (emit fails c (fst (fst (ms_draw_event W H m extra)))))
  else snd (fst (fst r)) = [] /\ snd (fst r) = c.
Proof. exact ms_draw_frame. Qed.
Print Assumptions C02_frame.

(** (3) partial: the ORDER refinement (1) along every interleaving [l] of per-thread call lists
    [ts].  This is C02_order applied to [l]; the [Merge] premise only contributes the two list
    facts.  The concurrency clause proper (what the frames show) is [C02_interleaving] below. *)
Theorem C02_order_along_interleavings_partial : forall (W H : N) (fails : N -> bool)
    (ts : list (list (N * op))) (l : list (N * op)) (s : sys),
  Merge ts l -> init_ok s -> hist_ok W H fails s l ->
  SimRun W H fails s (mkas [] []) l
  /\ length l = length (concat ts) /\ (forall x, In x l <-> In x (concat ts)).
Proof. exact interleaving_full. Qed.
Print Assumptions C02_order_along_interleavings_partial.

(* ------------------------------------------------------------------ non-vacuity *)
Definition ex_bar (c : N) : bar := new_bar (Some 10) FAndLeave [PLit [c]; PPos] THidden 0.
Definition ex_s0 : sys :=
  mksys [ex_bar 65; ex_bar 66; ex_bar 67; ex_bar 68] (new_ms (TTerm (new_ttarget (Some 20) 0))) 0.
Definition ex_ops : list (N * op) :=
  [(0, OInsert BEnd 0); (0, OInsert (BIndex 0) 1); (0, OInsert (BAfter 0) 2); (1000000, OTick 0);
   (1000001, OTick 1); (2000000, OFinish 2 FAndLeave); (3000000, ODrop 2); (4000000, OMPrintln [120]);
   (5000000, ORemove 1); (6000000, OInsert (BFromBack 1) 3); (7000000, OInsert BEnd 1);
   (8000000, OFinish 0 FAndClear); (9000000, ODrop 0); (9000001, OTick 3)].

Example C02_nonvacuous_history :
  init_ok ex_s0 /\ hist_ok 20 50 (fun _ => false) ex_s0 ex_ops.
Proof.
  split.
  - repeat split. intros b. unfold is_member, get_bar, nthN.
    destruct (N.to_nat b) as [|[|[|[|[|n]]]]]; reflexivity.
  - vm_compute. repeat split.
Qed.

(** the run: B is removed and its slot 1 is recycled for D (insert_from_back 1), C is finished
    and dropped behind the head (stays as a zombie), A is finished, dropped at the head and reaped
    at once (slot 0 freed), B comes back at the end in a fresh slot 3: the list is D, C, B *)
Example C02_nonvacuous_final_order :
  let s' := run 20 50 (fun _ => false) ex_s0 ex_ops in
  ms_order (s_mp s') = [1; 2; 3] /\ ms_free (s_mp s') = [0]
  /\ map (slot_of s') [3; 2; 1] = [1; 2; 3] /\ map (alive s') [3; 2; 1] = [true; false; true].
Proof. vm_compute. repeat split. Qed.

(** adding a member again has no effect (fix bee77c9; the audit's witness): add A, add B, add A,
    insert(1, C): the list is A, C, B - no ghost slot, 3 members *)
Example C02_readd_no_effect :
  let h := [(0, OInsert BEnd 0); (0, OInsert BEnd 1); (0, OInsert BEnd 0); (0, OInsert (BIndex 1) 2)] in
  let s' := run 20 50 (fun _ => false) ex_s0 h in
  hist_ok 20 50 (fun _ => false) ex_s0 h
  /\ map (slot_of s') [0; 2; 1] = ms_order (s_mp s') /\ length (ms_members (s_mp s')) = 3%nat
  /\ step_sys 20 50 (fun _ => false) s' 1 (OInsert (BFromBack 0) 1) = s'.
Proof. vm_compute. repeat split. Qed.

Example C02_nonvacuous_merge :
  Merge [[(0, OInsert BEnd 0); (1, OTick 0)]; [(0, OInsert BEnd 1)]]
        [(0, OInsert BEnd 0); (0, OInsert BEnd 1); (1, OTick 0)].
Proof.
  apply (Merge_cons [] (0, OInsert BEnd 0) [(1, OTick 0)] [[(0, OInsert BEnd 1)]]).
  apply (Merge_cons [[(1, OTick 0)]] (0, OInsert BEnd 1) [] []).
  apply (Merge_cons [] (1, OTick 0) [] [[]]).
  apply Merge_nil. repeat constructor.
Qed.

(** ------------------------------------------------------------------------------------------
    The premise of [C02_interleaving] ("every public call is one atomic step", [AtomicExec]) tied to the
    source: in the STRUCTURED programs that tools/locks_extract.py regenerates from /repo/src on
    every run (gen/LockFootprints.all_programs: branches, loops, early exits), on EVERY PATH (for
    the ticker program: every path of one loop iteration) every public method of ProgressBar /
    MultiProgress is a SINGLE outermost critical section over the bar mutex / the MultiState lock -
    one bracket from the mutation through the paint ([Brackets.max_sections], an abstract
    interpretation proved sound: BracketsProofs.max_sections_sound) - except the calls listed in
    [Brackets.allowed_sections] with
    the number of sections they have (adding a bar = three or four sections: C02_insert_sections_partial
    at the end of this file; dropping the last handle = the two model calls finish_using_style; drop;
    the ticker loop).  A change that splits a bracket (e.g. releasing the bar mutex in the middle of
    `remove`) breaks this obligation. *)
From IndModel Require Import Locks Brackets.
From IndGen Require Import LockFootprints.
From IndProofs Require Import BracketsProofs.
From Coq Require Import String.
Theorem C02_atomic_brackets_generated : forall name p,
  In (name, p) all_programs ->
  forall tr, paths (match p with PLoop b => b | _ => p end) tr ->
  (sections tr <= allowed_sections name)%nat.
Proof. exact generated_brackets_paths. Qed.
Print Assumptions C02_atomic_brackets_generated.

Example C02_atomic_brackets_nonvacuous :
  (exists p, pg_lookup "MultiProgress::remove"%string all_programs = Some p /\
             max_sections p = Some 1%nat /\
             paths p [CAcq CBar; CAcq CMulti; CRel CMulti; CRel CBar] /\ paths p [CAcq CBar; CRel CBar])
  /\ sections [CAcq CBar; CAcq CMulti; CRel CMulti; CRel CBar] = 1%nat
  /\ sections [CAcq CBar; CRel CBar; CAcq CMulti; CRel CMulti; CAcq CBar; CRel CBar] = 3%nat.
Proof. exact generated_brackets_nonvacuous. Qed.

(* ================================================================== screen level (model/MultiScreen.v) *)
(** C02_screen.  Scope, all of it visible in the statement: Top alignment and no I/O faults
    ([ms_run] runs [step] with [nofaults]; [FitsAll] excludes set_alignment(Bottom)), the
    MultiProgress draws to a terminal and no bar owns a terminal ([ms_initial]), proviso [FitsAll]
    (every painted composed frame's Bar rows, plus the kept rows above them when they are not
    erased, fit the terminal height; suspend closures write non-empty lines; no suspend through a
    detached bar).  ANY sequence of calls (not only [hist_ok] ones), any number of bars, every
    limiter state and time stamp (refused draws included), every finish / drop order.
    [ms_run] executes every emitted TermLike call on the terminal model (Term.v, width W, height H,
    scroll-back included) while computing the ghost [g] = (log, kept rows, live rows) from the
    MultiState bookkeeping without looking at the terminal.  After the history the rows ever
    written are exactly [pre ++ wrap log ++ kept ++ live] (as rows of W cells, then only blank
    rows), and the cursor is ready at column 0 of the row below them. *)
From IndModel Require Import MultiScreen.
From IndProofs Require Import MultiScreenProofs.

Theorem C02_screen : forall (W H : N), 1 <= W -> 1 <= H ->
  forall (pre : list (list N)) (s0 : sys) (t0 : term) (h : list (N * op)),
  ms_initial s0 -> ready (N.to_nat W) (N.to_nat H) pre t0 -> FitsAll W H s0 h ->
  let g := snd (fst (ms_run W H (s0, mghost0, t0) h)) in
  let t := snd (ms_run W H (s0, mghost0, t0) h) in
  (exists k, screen (N.to_nat W) t
             = map (pad (N.to_nat W)) (ms_expected W pre g) ++ repeat (repeat SP (N.to_nat W)) k)
  /\ next_cell (N.to_nat W) t = (length (ms_expected W pre g), 0%nat).
Proof. exact c02_screen. Qed.
Print Assumptions C02_screen.

(** ... after EVERY call of the history (the hypotheses are closed under prefixes) *)
Theorem C02_screen_every_op : forall (W H : N) (pre : list (list N)) (s0 : sys) (t0 : term)
    (h1 h2 : list (N * op)), 1 <= W -> 1 <= H ->
  ms_initial s0 -> ready (N.to_nat W) (N.to_nat H) pre t0 -> FitsAll W H s0 (h1 ++ h2) ->
  let g := snd (fst (ms_run W H (s0, mghost0, t0) h1)) in
  let t := snd (ms_run W H (s0, mghost0, t0) h1) in
  (exists k, screen (N.to_nat W) t
             = map (pad (N.to_nat W)) (ms_expected W pre g) ++ repeat (repeat SP (N.to_nat W)) k)
  /\ next_cell (N.to_nat W) t = (length (ms_expected W pre g), 0%nat).
Proof. exact c02_screen_every_prefix. Qed.
Print Assumptions C02_screen_every_op.

(** what the live rows are after finish* / abandon* / finish_and_clear / force-draw of a member
    and after MultiProgress::remove (all forced draws), in every state with the invariants of
    C02_order_reachable and no pending orphan line: exactly the stored lines of the members that
    are in the ordering, in ordering order ([Clean]; each member once by NoDup ordering) - the
    removed bar's slot is not in the ordering any more, a cleared bar stores no line: their rows
    are gone, the other members' rows are repainted unchanged directly below the kept rows *)
Theorem C02_live_forced : forall (W H : N) (s : sys) (now : N) (o : op) (g : mghost),
  MInv s -> op_ok s o = true -> J (s_mp s) -> forced_member_op s o = true ->
  Clean W (s_mp (step_sys W H nofaults s now o))
        (g_run W H now (s_mp s) (s_calls s) (op_actions W s now o) g).
Proof. exact c02_live_forced. Qed.
Print Assumptions C02_live_forced.

(* ------------------------------------------------------------------ non-vacuity (screen level) *)
Definition exm_bar (c : N) : bar := new_bar (Some 10) FAndLeave [PLit [c]; PPos] THidden 0.
Definition exm_s0 : sys :=
  mksys [exm_bar 65; exm_bar 66; exm_bar 67] (new_ms (TTerm (new_ttarget (Some 20) 0))) 0.
(** 3 bars A B C on a 6 x 10 terminal: println "hi", A finishes and is dropped at the head (its row
    becomes a kept row), B ticks, B.println "x\ny" (erases the kept row by design), C.suspend
    writing "w", clear, C ticks *)
Definition exm_ops : list (N * op) :=
  [(0, OInsert BEnd 0); (0, OInsert BEnd 1); (0, OInsert BEnd 2);
   (1000000, OTick 0); (1000001, OTick 1); (100000000, OInc 2 3);
   (200000000, OMPrintln [104;105]);
   (300000000, OFinish 0 FAndLeave); (400000000, ODrop 0);
   (500000000, OTick 1);
   (600000000, OPrintln 1 [120;10;121]);
   (700000000, OSuspend 2 [[119]]);
   (800000000, OMClear); (900000000, OTick 2)].

Example C02_screen_hypotheses_satisfiable :
  ms_initial exm_s0 /\ ready 6 10 [] term_init /\ FitsAll 6 10 exm_s0 exm_ops
  /\ hist_ok 6 10 nofaults exm_s0 exm_ops.
Proof.
  split.
  - split.
    + intros b. unfold get_bar, nthN. destruct (N.to_nat b) as [|[|[|[|n]]]]; exact I.
    + eexists. repeat split. intros i ls Hi. unfold nthN in Hi. cbn in Hi.
      destruct (N.to_nat i); discriminate Hi.
  - split; [exact (ready_start 6 10 [] 0 0 ltac:(lia))|].
    split; vm_compute; repeat (split || intro).
Qed.

(** after the drop of A (9 calls): A's final row is a kept row; at the end: the log, then B and C *)
Example C02_screen_example_kept :
  let st := ms_run 6 10 (exm_s0, mghost0, term_init) (firstn 9 exm_ops) in
  snd (fst st) = mkmg [[104;105]] [[65;49;48]] [[66;48]; [67;51]]
  /\ screen 6 (snd st) = map (pad 6) [[104;105]; [65;49;48]; [66;48]; [67;51]].
Proof. vm_compute. repeat split. Qed.

Example C02_screen_example_end :
  let st := ms_run 6 10 (exm_s0, mghost0, term_init) exm_ops in
  snd (fst st) = mkmg [[104;105]; [120]; [121]; [119]] [] [[66;48]; [67;51]]
  /\ screen 6 (snd st) = map (pad 6) [[104;105]; [120]; [121]; [119]; [66;48]; [67;51]]
  /\ next_cell 6 (snd st) = (6%nat, 0%nat).
Proof. vm_compute. repeat split. Qed.

(** the hypotheses of C02_live_forced hold in the state before the finish of A, and its conclusion computed *)
Example C02_live_forced_example :
  let s := fst (fst (ms_run 6 10 (exm_s0, mghost0, term_init) (firstn 7 exm_ops))) in
  op_ok s (OFinish 0 FAndLeave) = true /\ forced_member_op s (OFinish 0 FAndLeave) = true
  /\ ms_orphans (s_mp s) = []
  /\ bar_lines_of (s_mp (step_sys 6 10 nofaults s 300000000 (OFinish 0 FAndLeave)))
     = [mkline KBar [65;49;48]; mkline KBar [66;48]; mkline KBar [67;51]].
Proof. vm_compute. repeat split. Qed.

(** ------------------------------------------------------------------------------------------
    The per-member "latest drawn state" invariant (model/MultiLatest.v, proofs/MultiLatestProofs.v).
    Ghost (never looks at a limiter): per slot the bar that stored there last, the number of that
    call in the history, the bar record at that call and a flag "no silent change since"; per bar
    the number of its most recent draw step.  [lrun] threads it along a history, [op_draw] says
    which calls are a draw step (enumerated from Sys.step), [silent_change] which calls change a
    bar's logic state without one (set_style; inc/dec/set_position refused by the bar's own
    position limiter).  Hypotheses of all theorems: an initially empty MultiProgress whose target is
    a terminal (any refresh limiter: refused draws are covered), any bars, any valid history, any
    terminal size, any fault oracle. *)
From IndModel Require Import MultiLatest.
From IndProofs Require Import MultiLatestProofs.

(** (1) in every reachable state, for every slot [i] of the ordering: the stored lines are
    [frame_of] of the ghost state of the slot ([shown]; nothing if the bar has not drawn since it
    was added), and that ghost state belongs to the bar sitting in the slot, was recorded at that
    bar's MOST RECENT draw step ([lg_last]), is a state the bar really had (its logic state right
    after call number [le_step]), and - when in sync - is the bar's CURRENT logic state.  A live
    member's slot is in the ordering and its ghost entry (if any) names that bar. *)
Theorem C02_member_lines_latest : forall (W H : N) (fails : N -> bool) (s0 : sys) (h : list (N * op)),
  init_ok s0 -> mp_visible s0 -> hist_ok W H fails s0 h ->
  let r := lrun W H fails s0 0 lg_empty h in
  let s := fst (fst r) in let g := snd r in
  s = run W H fails s0 h
  /\ (forall i, In i (ms_order (s_mp s)) ->
        member_lines (ms_members (s_mp s)) i = shown g i
        /\ forall e, lg_slot g i = Some e ->
             b_target (get_bar s (le_bar e)) = TMulti i
             /\ lg_last g (le_bar e) = Some (le_step e) /\ (le_step e < length h)%nat
             /\ logic (le_state e) = logic (get_bar (run W H fails s0 (firstn (S (le_step e)) h)) (le_bar e))
             /\ (le_sync e = true -> logic (le_state e) = logic (get_bar s (le_bar e))))
  /\ (forall b i, alive s b = true -> b_target (get_bar s b) = TMulti i ->
        In i (ms_order (s_mp s)) /\ forall e, lg_slot g i = Some e -> le_bar e = b).
Proof. exact member_lines_latest. Qed.
Print Assumptions C02_member_lines_latest.

(** (1) after ANY call that is a draw step of a member ([op_draw] = every call on a bar except
    set_style, reset_eta, reset_elapsed, suspend, a position update refused by the bar's position
    limiter, drop of a finished bar, add/insert*/remove) - painted or refused by the refresh limiter -
    the stored lines of that bar are [frame_of] its CURRENT state (if its slot is still there: a
    dropped bar at the head of the list is reaped at once) *)
Theorem C02_draw_step_current : forall (W H : N) (fails : N -> bool) (s0 : sys) (h : list (N * op))
    (now : N) (o : op) (b : N) (st : bar) (i : N),
  init_ok s0 -> mp_visible s0 -> hist_ok W H fails s0 (h ++ [(now, o)]) ->
  let s := run W H fails s0 h in let s' := step_sys W H fails s now o in
  op_draw s now o = Some (b, st) -> b_target (get_bar s b) = TMulti i -> In i (ms_order (s_mp s')) ->
  member_lines (ms_members (s_mp s')) i = frame_of (get_bar s' b) /\ logic (get_bar s' b) = logic st.
Proof. exact draw_step_current. Qed.
Print Assumptions C02_draw_step_current.

(** (1) the enumeration is complete: a possible call changes the logic state (position, length,
    tick, status, message, prefix, template) of bar [x] only if it is a draw step of [x] or one of
    the silent changes of [x] *)
Theorem C02_logic_change : forall (W H : N) (fails : N -> bool) (s : sys) (now : N) (o : op) (x : N),
  op_ok s o = true ->
  logic (get_bar (step_sys W H fails s now o) x) <> logic (get_bar s x) ->
  (exists st, op_draw s now o = Some (x, st)) \/ silent_change s now o x = true.
Proof. exact logic_change. Qed.
Print Assumptions C02_logic_change.

(** (2) every MultiState::draw of every call of every valid history ([step_draws]: the draws of
    the call with the MultiState they are made on; C02_frame: an attempted one paints exactly
    [ms_frame]) composes  text ++ concat (for each slot of the ordering: [frame_of] the owning
    bar's state at its most recent draw step):  a state the bar really had (after call [le_step]) *)
Theorem C02_frame_shows_latest : forall (W H : N) (fails : N -> bool) (s0 : sys) (h1 h2 : list (N * op))
    (now : N) (o : op),
  init_ok s0 -> mp_visible s0 -> hist_ok W H fails s0 (h1 ++ (now, o) :: h2) ->
  let r := lrun W H fails s0 0 lg_empty h1 in
  let s := fst (fst r) in
  let g' := lat_step s now o (length h1) (snd r) in
  s = run W H fails s0 h1 /\
  forall m f ex, In (m, f, ex) (step_draws W H fails s now o) ->
    ms_frame m ex = (match ex with Some e => e | None => [] end ++ ms_orphans m)
                    ++ concat (map (shown g') (ms_order m))
    /\ forall i e, In i (ms_order m) -> lg_slot g' i = Some e ->
         b_target (get_bar s (le_bar e)) = TMulti i
         /\ lg_last g' (le_bar e) = Some (le_step e) /\ (le_step e <= length h1)%nat
         /\ logic (le_state e)
            = logic (get_bar (run W H fails s0 (firstn (S (le_step e)) (h1 ++ (now, o) :: h2))) (le_bar e)).
Proof. exact frame_shows_latest. Qed.
Print Assumptions C02_frame_shows_latest.

(** (2) never older: the call number of a bar's most recent draw step - the state every frame
    shows for it - only moves forward along a history (the drawn states of a bar are a subsequence
    of its state history, in order) *)
Theorem C02_latest_monotone : forall (W H : N) (fails : N -> bool) (s0 : sys) (h1 h2 : list (N * op))
    (b : N) (k1 : nat),
  init_ok s0 -> mp_visible s0 -> hist_ok W H fails s0 (h1 ++ h2) ->
  lg_last (snd (lrun W H fails s0 0 lg_empty h1)) b = Some k1 ->
  exists k2, lg_last (snd (lrun W H fails s0 0 lg_empty (h1 ++ h2))) b = Some k2 /\ (k1 <= k2)%nat.
Proof. exact latest_monotone. Qed.
Print Assumptions C02_latest_monotone.

(** (3) orphan lines: between calls orphan_lines is empty; the text lines of a member's println
    ([member_texts]) are the orphan lines of exactly one MultiState::draw - the one of that very
    call, which is attempted (pending orphan lines force the draw) - and of no other draw; in every
    composed frame all text (println lines of the MultiProgress, then of the member) precedes all
    Bar lines *)
Theorem C02_orphans_once : forall (W H : N) (fails : N -> bool) (s0 : sys) (h1 h2 : list (N * op))
    (now : N) (o : op),
  init_ok s0 -> mp_visible s0 -> ms_orphans (s_mp s0) = [] -> hist_ok W H fails s0 (h1 ++ (now, o) :: h2) ->
  let s := run W H fails s0 h1 in
  ms_orphans (s_mp s) = [] /\ ms_orphans (s_mp (step_sys W H fails s now o)) = []
  /\ (forall m f ex, In (m, f, ex) (step_draws W H fails s now o) ->
        ms_orphans m = member_texts s o
        /\ exists B, ms_frame m ex = (match ex with Some e => e | None => [] end ++ member_texts s o) ++ B
                     /\ all_text (match ex with Some e => e | None => [] end ++ member_texts s o) /\ all_bar B)
  /\ (member_texts s o <> [] ->
        exists m f, step_draws W H fails s now o = [(m, f, None)] /\ ms_attempt W m f None now = true).
Proof. exact orphans_once. Qed.
Print Assumptions C02_orphans_once.

(* ------------------------------------------------------------------ non-vacuity (latest drawn state) *)
Definition ml_bar (c : N) : bar :=
  new_bar (Some 100) FAndLeave [PLit [c; 58]; PPos; PLit [47]; PLen; PLit [32]; PMsg] THidden 0.
(** bars A and B, a MultiProgress on a 1 Hz terminal target *)
Definition ml_s0 : sys := mksys [ml_bar 65; ml_bar 66] (new_ms (TTerm (new_ttarget (Some 1) 0))) 0.
(** add A, add B; 20 ticks of A drain the refresh limiter; then A: set_length(200),
    set_position(50), set_message("two") - all three refused by the limiter *)
Definition ml_h1 : list (N * op) :=
  [(0, OInsert BEnd 0); (0, OInsert BEnd 1)]
  ++ map (fun k => (k, OTick 0)) [1;2;3;4;5;6;7;8;9;10;11;12;13;14;15;16;17;18;19;20]
  ++ [(100, OSetLen 0 200); (101, OSetPos 0 50); (102, OSetMsg 0 [116;119;111])].
(** one second later B.set_message("go") is painted *)
Definition ml_o : N * op := (1000000100, OSetMsg 1 [103;111]).
Definition ml_nf : N -> bool := fun _ => false.

Example C02_latest_hypotheses_satisfiable :
  init_ok ml_s0 /\ mp_visible ml_s0 /\ ms_orphans (s_mp ml_s0) = []
  /\ hist_ok 40 20 ml_nf ml_s0 (ml_h1 ++ [ml_o; (1000000101, OPrintln 0 [104;105])]).
Proof.
  split; [|split; [|split]].
  - repeat split. intros b. unfold is_member, get_bar, nthN. destruct (N.to_nat b) as [|[|[|n]]]; reflexivity.
  - eexists. reflexivity.
  - reflexivity.
  - vm_compute. repeat split.
Qed.

(** the three updates of A are refused (no TermLike call), yet the frame triggered by B shows
    "A:50/200 two": A's state at its most recent draw step (call number 24), in sync *)
Example C02_latest_example :
  let s := run 40 20 ml_nf ml_s0 ml_h1 in
  map (fun k => step_out 40 20 ml_nf (run 40 20 ml_nf ml_s0 (firstn k ml_h1))
                         (fst (nth k ml_h1 (0, OMClear))) (snd (nth k ml_h1 (0, OMClear)))) [22; 23; 24]%nat
    = [[]; []; []]
  /\ map (fun '(m, f, ex) => (ms_attempt 40 m f ex (fst ml_o), map lt (ms_frame m ex)))
         (step_draws 40 20 ml_nf s (fst ml_o) (snd ml_o))
     = [(true, [[65;58;53;48;47;50;48;48;32;116;119;111]; [66;58;48;47;49;48;48;32;103;111]])]
  /\ let r := lrun 40 20 ml_nf ml_s0 0 lg_empty ml_h1 in
     let g' := lat_step (fst (fst r)) (fst ml_o) (snd ml_o) (length ml_h1) (snd r) in
     map (fun i => option_map (fun e => (le_bar e, le_step e, le_sync e)) (lg_slot g' i)) [0; 1]
       = [Some (0, 24%nat, true); Some (1, 25%nat, true)]
     /\ lg_last g' 0 = Some 24%nat.
Proof. vm_compute. repeat split. Qed.

(** a member println: its line is the orphan part of the one, attempted, draw of that call *)
Example C02_orphans_example :
  let s := run 40 20 ml_nf ml_s0 (ml_h1 ++ [ml_o]) in
  let o := OPrintln 0 [104;105] in
  member_texts s o = [mkline KText [104;105]]
  /\ map (fun '(m, f, ex) => (ms_attempt 40 m f ex 1000000101, ms_orphans m, map lt (ms_frame m ex)))
         (step_draws 40 20 ml_nf s 1000000101 o)
     = [(true, [mkline KText [104;105]],
         [[104;105]; [65;58;53;48;47;50;48;48;32;116;119;111]; [66;58;48;47;49;48;48;32;103;111]])]
  /\ ms_orphans (s_mp (step_sys 40 20 ml_nf s 1000000101 o)) = [].
Proof. vm_compute. repeat split. Qed.

(** the silent list is not empty: 11 inc(1) of A within 1 ms - the 11th is refused by A's position
    limiter, A's position is 11 but its stored line (and the frame B triggers) says 10; the ghost
    entry of A is out of sync.  Same behaviour of the real code: docs/C05.md, finding candidate. *)
Example C02_silent_change_example :
  let h := [(0, OInsert BEnd 0); (0, OInsert BEnd 1)] ++ map (fun _ => (5, OInc 0 1)) (seq 0 11) in
  let s := run 40 20 ml_nf ml_s0 h in
  hist_ok 40 20 ml_nf ml_s0 (h ++ [(6, OTick 1)])
  /\ silent_change (run 40 20 ml_nf ml_s0 (firstn 12 h)) 5 (OInc 0 1) 0 = true
  /\ b_pos (get_bar s 0) = 11
  /\ map (fun '(m, f, ex) => (ms_attempt 40 m f ex 6, map lt (ms_frame m ex))) (step_draws 40 20 ml_nf s 6 (OTick 1))
     = [(true, [[65;58;49;48;47;49;48;48;32]; [66;58;48;47;49;48;48;32]])]
  /\ option_map le_sync (lg_slot (snd (lrun 40 20 ml_nf ml_s0 0 lg_empty h)) 0) = Some false.
Proof. vm_compute. repeat split. Qed.

(** ------------------------------------------------------------------------------------------
    Clause 3 - concurrent updates (model/MultiInterleave.v, proofs/MultiInterleaveProofs.v).

    ALL the concurrency content is in the hypothesis [AtomicExec W H fails s0 ts l]: the atomic-step
    assumption - a concurrent execution of the per-thread call lists [ts] IS the sequential run of
    [Sys.step] over an interleaving [l] of [ts] in which every call is possible when it is made
    (the lock brackets reduce concurrency to sequential histories; which calls are one bracket is
    checked on the generated footprint table by C02_atomic_brackets_generated; add/insert*, which
    are not, by C02_insert_sections_partial below).  Given that, the theorem is a corollary of the
    sequential theorems C02_frame_shows_latest / C02_latest_monotone applied to the merged list,
    plus the fact that a draw step of a finished bar is forced.  "Call number k of l" counts from 0;
    [DrawAt l k m f ex] = call k makes a MultiState::draw on MultiState [m] (painted iff
    [ms_attempt], then exactly [ms_frame m ex] is handed to draw_to_term: C02_frame);
    [ghost_after l k] = the latest-drawn-state ghost right after call k; [state_after l j] = the
    system state right after call j.  For every terminal size, fault oracle, limiter state:

    (0) [l] contains every thread's calls in program order and nothing else.
    (3a) every frame composed by call k is text ++ (for each slot of the ordering) [frame_of] the
         ghost state of the slot, and that state is the logic state the owning bar really had
         right after call [le_step e] <= k of the merged execution (a slot without entry - the bar
         has not drawn since it was added - shows nothing).
    (3b) never older: if a frame of call k1 shows bar b in its state after call j1 and a frame of a
         later (or the same) call k2 shows b in its state after call j2, then j1 <= j2.
    (3c) the last frame shows the final states: if call k is a draw step of member b in a FINISHED
         state [st] (finish*, abandon*, finish_using_style, drop of an unfinished bar, and any
         later call that draws a finished bar) and no later call of [l] changes b's logic state,
         then [st] is b's final state, call k makes ONE MultiState::draw, forced and PAINTED, whose
         frame shows [frame_of st] in b's slot, and every frame of call k or of a later call that
         shows b at all (b may be removed, or reaped once it is the first bar) shows that final
         state. *)
From IndModel Require Import MultiInterleave.
From IndProofs Require Import MultiInterleaveProofs MultiSectionsProofs.

Theorem C02_interleaving : forall (W H : N) (fails : N -> bool)
    (ts : list (list (N * op))) (l : list (N * op)) (s0 : sys),
  init_ok s0 -> mp_visible s0 -> AtomicExec W H fails s0 ts l ->
  (Forall (fun t => Subseq t l) ts /\ length l = length (concat ts))
  /\ (forall k m f ex, DrawAt W H fails s0 l k m f ex ->
        let g := ghost_after W H fails s0 l k in
        ms_frame m ex = (extra_lines ex ++ ms_orphans m) ++ concat (map (shown g) (ms_order m))
        /\ forall i e, In i (ms_order m) -> lg_slot g i = Some e ->
             b_target (get_bar (state_before W H fails s0 l k) (le_bar e)) = TMulti i
             /\ (le_step e <= k)%nat
             /\ logic (le_state e) = logic (get_bar (state_after W H fails s0 l (le_step e)) (le_bar e)))
  /\ (forall k1 k2 m1 f1 ex1 m2 f2 ex2 i1 i2 e1 e2, (k1 <= k2)%nat ->
        DrawAt W H fails s0 l k1 m1 f1 ex1 -> DrawAt W H fails s0 l k2 m2 f2 ex2 ->
        In i1 (ms_order m1) -> lg_slot (ghost_after W H fails s0 l k1) i1 = Some e1 ->
        In i2 (ms_order m2) -> lg_slot (ghost_after W H fails s0 l k2) i2 = Some e2 ->
        le_bar e1 = le_bar e2 -> (le_step e1 <= le_step e2)%nat)
  /\ (forall k now o b st i, nth_error l k = Some (now, o) ->
        let s := state_before W H fails s0 l k in
        op_draw s now o = Some (b, st) -> finished st = true -> b_target (get_bar s b) = TMulti i ->
        (forall j, (k < j < length l)%nat ->
           logic (get_bar (state_after W H fails s0 l j) b) = logic (get_bar (state_after W H fails s0 l k) b)) ->
        logic (get_bar (run W H fails s0 l) b) = logic st
        /\ (exists m, step_draws W H fails s now o = [(m, true, None)]
                      /\ PaintedAt W H fails s0 l k m true None
                      /\ In i (ms_order m) /\ member_lines (ms_members m) i = frame_of st)
        /\ (forall k' m f ex i' e, (k <= k')%nat -> DrawAt W H fails s0 l k' m f ex ->
              In i' (ms_order m) -> lg_slot (ghost_after W H fails s0 l k') i' = Some e -> le_bar e = b ->
              logic (le_state e) = logic (get_bar (run W H fails s0 l) b))).
Proof. exact interleaving. Qed.
Print Assumptions C02_interleaving.

(* ------------------------------------------------------------------ non-vacuity (concurrency) *)
(** two updater threads (A: 3 inc + finish, B: set_message + finish_with_message) and the main
    thread that added the bars, merged with the threads' calls alternating *)
Definition il_bar (c : N) : bar := new_bar (Some 3) FAndLeave [PLit [c; 58]; PPos; PLit [32]; PMsg] THidden 0.
Definition il_s0 : sys := mksys [il_bar 65; il_bar 66] (new_ms (TTerm (new_ttarget None 0))) 0.
Definition il_main : list (N * op) := [(0, OInsert BEnd 0); (0, OInsert BEnd 1)].
Definition il_tA : list (N * op) := [(10, OInc 0 1); (2000010, OInc 0 1); (4000010, OInc 0 1); (6000010, OFinish 0 FAndLeave)].
Definition il_tB : list (N * op) := [(1000010, OSetMsg 1 [120]); (5000010, OFinish 1 (FWithMessage [111;107]))].
Definition il_l : list (N * op) :=
  il_main ++ [(10, OInc 0 1); (1000010, OSetMsg 1 [120]); (2000010, OInc 0 1); (4000010, OInc 0 1);
              (5000010, OFinish 1 (FWithMessage [111;107])); (6000010, OFinish 0 FAndLeave)].

Example C02_interleaving_hypotheses_satisfiable :
  init_ok il_s0 /\ mp_visible il_s0 /\ AtomicExec 20 10 (fun _ => false) il_s0 [il_main; il_tA; il_tB] il_l.
Proof.
  split; [|split; [|split]].
  - repeat split. intros b. unfold is_member, get_bar, nthN. destruct (N.to_nat b) as [|[|[|n]]]; reflexivity.
  - eexists. reflexivity.
  - unfold il_l, il_main, il_tA, il_tB. cbn [app].
    apply (Merge_cons [] _ [(0, OInsert BEnd 1)] [il_tA; il_tB]).
    apply (Merge_cons [] _ [] [il_tA; il_tB]).
    apply (Merge_cons [[]] _ (tl il_tA) [il_tB]).
    apply (Merge_cons [[]; tl il_tA] _ (tl il_tB) []).
    apply (Merge_cons [[]] _ (tl (tl il_tA)) [tl il_tB]).
    apply (Merge_cons [[]] _ (tl (tl (tl il_tA))) [tl il_tB]).
    apply (Merge_cons [[]; tl (tl (tl il_tA))] _ [] []).
    apply (Merge_cons [[]] _ [] [[]]).
    apply Merge_nil. repeat constructor.
  - vm_compute. repeat split.
Qed.

(** call 6 (B.finish_with_message "ok") is a finishing draw step, nothing changes B afterwards: its
    frame - painted - shows A at its second inc (the state A really had after call 5) and B's
    final state; the last frame (call 7, A.finish) still shows B's final state *)
Example C02_interleaving_example :
  let nf := fun _ : N => false in
  nth_error il_l 6 = Some (5000010, OFinish 1 (FWithMessage [111;107]))
  /\ map (fun '(m, f, ex) => (ms_attempt 20 m f ex 5000010, map lt (ms_frame m ex)))
         (step_draws 20 10 nf (state_before 20 10 nf il_s0 il_l 6) 5000010 (OFinish 1 (FWithMessage [111;107])))
     = [(true, [[65;58;51;32]; [66;58;51;32;111;107]])]
  /\ map (fun i => option_map (fun e => (le_bar e, le_step e)) (lg_slot (ghost_after 20 10 nf il_s0 il_l 6) i)) [0; 1]
     = [Some (0, 5%nat); Some (1, 6%nat)]
  /\ map (fun '(m, f, ex) => map lt (ms_frame m ex))
         (step_draws 20 10 nf (state_before 20 10 nf il_s0 il_l 7) 6000010 (OFinish 0 FAndLeave))
     = [[[65;58;51;32]; [66;58;51;32;111;107]]].
Proof. vm_compute. repeat split. Qed.

(** ------------------------------------------------------------------------------------------
    add / insert* are NOT one critical section (C02_atomic_brackets_generated allows them 3,
    insert_before/after 4).  model/MultiInterleave.v (part 2) splits them into their sections:
    [MRead] (reference index read under the reference bar's lock), [MCheck] (is the bar a member
    already? under the bar's lock; fix bee77c9), [MAlloc] (slot allocation under the MultiState
    lock: an EMPTY member enters the ordering - it renders nothing), [MAttach] (set_draw_target
    under the new bar's lock); [sec_run] runs a history of sections in which other threads'
    sections fall between them.  `_partial`: proved for the schedules [sched_ok]:
      (S1) between the allocation and the attach section of add/insert*(b) no other section goes
           through a handle of b;
      (S2) the slot insert_before/after read for the reference bar r is still r's slot when the
           allocation section uses it (no remove(r) in between);
      (S3) the answer of the membership check is still true at the allocation section.
    For these, the section history reaches the same system state and emits the same TermLike
    calls as the atomic history [atomize h] - every add/insert* as ONE step at its allocation
    section - so every theorem of this file applies to it ([retargets (pend_run ..)] = the bars
    still between allocation and attach at the end: none, for a complete history).  Adding a
    member again is inside: check "member", nothing else happens, as in the atomic step.
    Outside (S2) the real code misplaces the bar or panics with the MultiState lock held: open
    finding, C02_insert_sections_stale_index_refuted.  Outside (S1)/(S3): the other thread's call
    reaches the bar's OLD draw target (hidden: nothing happens; the update is shown at the bar's
    first draw after the attach), or two threads adding clones of one bar both allocate; not
    covered by a theorem. *)
Theorem C02_insert_sections_partial : forall (W H : N) (fails : N -> bool) (h : list (N * mstep))
    (s : sys) (lc : locals),
  sched_ok W H fails s lc [] h ->
  let r := sec_run W H fails (s, lc) h in
  run_out W H fails s (atomize h) = (retargets (pend_run W H fails s lc [] h) (fst (fst r)), snd r).
Proof. exact sections_atomic. Qed.
Print Assumptions C02_insert_sections_partial.

(** an interleaving of the threads' SECTION lists is, after [atomize], an interleaving of the
    threads' CALL lists: the [l] of C02_interleaving *)
Theorem C02_insert_sections_merge : forall (ts : list (list (N * N * op))) (h : list (N * mstep)),
  Merge (map thread_sections ts) h -> Merge (map thread_calls ts) (atomize h).
Proof. exact sections_merge. Qed.
Print Assumptions C02_insert_sections_merge.

(** the building block: a call that does not go through a handle of bar b neither reads nor
    changes b's draw target *)
Theorem C02_step_ignores_other_targets : forall (W H : N) (fails : N -> bool) (s : sys) (b : N) (t : target)
    (now : N) (o : op),
  mentions o b = false ->
  step W H fails (retarget s b t) now o
  = (retarget (step_sys W H fails s now o) b t, step_out W H fails s now o, snd (step W H fails s now o)).
Proof. exact step_retarget. Qed.
Print Assumptions C02_step_ignores_other_targets.

(* ------------------------------------------------------------------ non-vacuity (sections) *)
(** bars A B already members; thread 1: insert_after(&A, X) (call 7), thread 2: insert(1, C)
    (call 8) and ticks of A and B - thread 2's sections fall between the three sections of call 7,
    and its allocation sees the still empty slot of X at position 1 *)
Definition sx_bar (c : N) : bar := new_bar (Some 9) FAndLeave [PLit [c]; PPos] THidden 0.
Definition sx_s0 : sys :=
  mksys [sx_bar 65; sx_bar 66; sx_bar 67; sx_bar 88] (new_ms (TTerm (new_ttarget None 0))) 0.
Definition sx_h : list (N * mstep) :=
  [(0, MCall (OInsert BEnd 0)); (0, MCall (OInsert BEnd 1)); (1000000, MCall (OTick 0)); (1000001, MCall (OTick 1));
   (2000000, MRead 7 0); (2000001, MCall (OTick 1)); (2000002, MCheck 7 3); (2000003, MAlloc 7 (BAfter 0) 3);
   (2500000, MCheck 8 2); (3000000, MAlloc 8 (BIndex 1) 2); (3000001, MCall (OTick 0)); (3000002, MAttach 7 3);
   (3000003, MAttach 8 2); (4000000, MCall (OTick 2)); (4000001, MCall (OTick 3));
   (* thread 3 adds A again: the check says "member", allocation and attach do nothing *)
   (5000000, MCheck 9 0); (5000001, MCall (OTick 1)); (5000002, MAlloc 9 BEnd 0); (5000003, MAttach 9 0)].

Example C02_insert_sections_nonvacuous :
  let nf := fun _ : N => false in
  sched_ok 20 10 nf sx_s0 lc0 [] sx_h
  /\ pend_run 20 10 nf sx_s0 lc0 [] sx_h = []
  /\ atomize sx_h = [(0, OInsert BEnd 0); (0, OInsert BEnd 1); (1000000, OTick 0); (1000001, OTick 1);
                     (2000001, OTick 1); (2000003, OInsert (BAfter 0) 3); (3000000, OInsert (BIndex 1) 2);
                     (3000001, OTick 0); (4000000, OTick 2); (4000001, OTick 3);
                     (5000001, OTick 1); (5000002, OInsert BEnd 0)]
  /\ hist_ok 20 10 nf sx_s0 (atomize sx_h)
  /\ map (slot_of (fst (fst (sec_run 20 10 nf (sx_s0, lc0) sx_h)))) [0; 2; 3; 1]
     = ms_order (s_mp (fst (fst (sec_run 20 10 nf (sx_s0, lc0) sx_h)))).
Proof.
  cbn zeta. split; [|split; [|split; [|split]]]; try (vm_compute; repeat split; fail).
  vm_compute.
  repeat match goal with
         | |- _ /\ _ => split
         | |- True => exact I
         | |- forall _, _ => intro
         | H : False |- _ => destruct H
         | H : _ \/ _ |- _ => destruct H
         | H : _ = ?p |- _ => subst p
         | |- exists _, _ => eexists
         | |- _ \/ _ => first [left; reflexivity | right]
         | |- _ = _ => reflexivity
         end.
Qed.

(** Outside (S2) - the stale index: thread 1 reads the slot of A for insert_after(&A, X); thread 2
    removes A and adds Y, which recycles that slot; thread 1's allocation then places X after Y.
    The section run ends with the list Y, X although X was inserted "after A" and A is gone; the
    atomic history (where the call panics: A is not a member) ends with Y alone.  [sched_ok] fails
    at the allocation section.  Reproduced on the implementation by a two-thread race
    (harness/src/bin/c02.rs `stale_index_race`, docs/patches/C02-insert-ref-index-race.demo.rs);
    there the variant without add(Y) panics inside MultiState::insert, i.e. with the MultiState
    lock held, and poisons it. *)
Definition sy_s0 : sys :=
  mksys [sx_bar 65; sx_bar 88; sx_bar 89] (new_ms (TTerm (new_ttarget None 0))) 0.
Definition sy_h : list (N * mstep) :=
  [(0, MCall (OInsert BEnd 0)); (1000000, MCall (OTick 0));
   (2000000, MRead 7 0); (2000001, MCall (ORemove 0)); (2000002, MCall (OInsert BEnd 2));
   (2000003, MCheck 7 1); (2000004, MAlloc 7 (BAfter 0) 1); (2000005, MAttach 7 1);
   (3000000, MCall (OTick 1)); (3000001, MCall (OTick 2))].

Theorem C02_insert_sections_stale_index_refuted :
  let nf := fun _ : N => false in
  exists (s0 : sys) (h : list (N * mstep)),
    let s1 := fst (fst (sec_run 20 10 nf (s0, lc0) h)) in
    let s2 := fst (run_out 20 10 nf s0 (atomize h)) in
    (* section run: the ordering is [slot of Y; slot of X], both bars are members and painted *)
    map (slot_of s1) [2; 1] = ms_order (s_mp s1) /\ is_member s1 1 = true
    /\ snd (sec_run 20 10 nf (s0, lc0) h) <> snd (run_out 20 10 nf s0 (atomize h))
    (* atomic run of the same calls: X never becomes a member *)
    /\ map (slot_of s2) [2] = ms_order (s_mp s2) /\ is_member s2 1 = false
    /\ ~ sched_ok 20 10 nf s0 lc0 [] h.
Proof.
  cbn zeta. exists sy_s0, sy_h.
  split; [vm_compute; reflexivity|]. split; [vm_compute; reflexivity|].
  split; [vm_compute; discriminate|]. split; [vm_compute; reflexivity|]. split; [vm_compute; reflexivity|].
  intros F. vm_compute in F.
  repeat match goal with H : _ /\ _ |- _ => destruct H end.
  match goal with H : Some _ = None |- _ => discriminate H end.
Qed.
Print Assumptions C02_insert_sections_stale_index_refuted.

(** ==========================================================================================
    BOTTOM ALIGNMENT: the screen invariant for EITHER alignment, alignment changes included
    (model/MultiScreenBottom.v, proofs/MultiScreenBottomProofs.v).  The ghost [bghost] is
    the ghost of C02_screen plus the PADDING block of MultiProgressAlignment::Bottom and the GAPS
    that suspend leaves under Bottom alignment; it is computed from the op history through the
    MultiState bookkeeping, never from the terminal, and it follows what the CODE does also in the
    situation of the open finding D22 (LineAdjust::Keep while padding is on the screen keeps
    padding rows).  After every history ([bs_run] executes every emitted TermLike call on the
    terminal model):

        screen = pre ++ rows(bg_log) ++ bg_kept ++ [bg_pad blank rows] ++ bg_live ++ blank rows,

    the next character lands at column 0 of the row below, zombie_lines_count = |bg_kept| and
    last_line_count = bg_pad + |bg_live|.  [bs_initial]: as ms_initial with ANY alignment.
    Proviso [FitsAllB]: for a draw that does not shift (Top alignment, or the frame is at least as
    tall as the region) exactly FitsAll; a shifting draw needs nothing, EXCEPT: an EMPTY frame
    (clear, suspend, every bar hidden) under Bottom alignment while the region, kept rows
    included, is as tall as the terminal is OUTSIDE the theorem (fix 881c313 leaves the cursor ON
    the last padding row there; that draw is covered by C19's per-draw theorem only) - hence
    `_partial`.  No I/O faults. *)
From IndModel Require Import MultiScreenBottom.
From IndProofs Require Import MultiScreenBottomProofs.

Theorem C02_screen_bottom_partial : forall (W H : N), 1 <= W -> 1 <= H ->
  forall (pre : list (list N)) (s0 : sys) (t0 : term) (h : list (N * op)),
  bs_initial s0 -> ready (N.to_nat W) (N.to_nat H) pre t0 -> FitsAllB W H s0 h ->
  let s := fst (fst (bs_run W H (s0, bghost0, t0) h)) in
  let g := snd (fst (bs_run W H (s0, bghost0, t0) h)) in
  let t := snd (bs_run W H (s0, bghost0, t0) h) in
  (exists k, screen (N.to_nat W) t
             = map (pad (N.to_nat W)) (bs_expected W pre g) ++ repeat (repeat SP (N.to_nat W)) k)
  /\ next_cell (N.to_nat W) t = (length (bs_expected W pre g), 0%nat)
  /\ length (bg_kept g) = N.to_nat (ms_zombie_lines (s_mp s))
  /\ (N.to_nat (bg_pad g) + length (bg_live g))%nat = N.to_nat (target_n (ms_target (s_mp s))).
Proof. exact c02_screen_bottom. Qed.
Print Assumptions C02_screen_bottom_partial.

(** ... after EVERY call of the history *)
Theorem C02_screen_bottom_every_op_partial : forall (W H : N) (pre : list (list N)) (s0 : sys) (t0 : term)
    (h1 h2 : list (N * op)), 1 <= W -> 1 <= H ->
  bs_initial s0 -> ready (N.to_nat W) (N.to_nat H) pre t0 -> FitsAllB W H s0 (h1 ++ h2) ->
  let s := fst (fst (bs_run W H (s0, bghost0, t0) h1)) in
  let g := snd (fst (bs_run W H (s0, bghost0, t0) h1)) in
  let t := snd (bs_run W H (s0, bghost0, t0) h1) in
  (exists k, screen (N.to_nat W) t
             = map (pad (N.to_nat W)) (bs_expected W pre g) ++ repeat (repeat SP (N.to_nat W)) k)
  /\ next_cell (N.to_nat W) t = (length (bs_expected W pre g), 0%nat)
  /\ length (bg_kept g) = N.to_nat (ms_zombie_lines (s_mp s))
  /\ (N.to_nat (bg_pad g) + length (bg_live g))%nat = N.to_nat (target_n (ms_target (s_mp s))).
Proof. exact c02_screen_bottom_every_prefix. Qed.
Print Assumptions C02_screen_bottom_every_op_partial.

(** the kept rows under the D22 exclusion [NoPadReap] (no LineAdjust::Keep(k > 0) - reaping a
    dropped head bar in MultiState::draw or mark_zombie - while padding rows are on top of the
    counted region): the log / kept / live components of the Bottom ghost ARE the Top-alignment
    ghost of C02_screen ([ms_run]; its kept rows are by construction rows of painted Bar lines
    only), both runs produce the same terminal, and the screen is
    pre ++ rows(log) ++ kept ++ padding ++ live with that ghost's kept and live rows *)
Theorem C02_kept_bottom_partial : forall (W H : N) (pre : list (list N)) (s0 : sys) (t0 : term)
    (h : list (N * op)), 1 <= W -> 1 <= H ->
  bs_initial s0 -> ready (N.to_nat W) (N.to_nat H) pre t0 -> FitsAllB W H s0 h ->
  NoPadReap W H (s0, bghost0, t0) h ->
  let gB := snd (fst (bs_run W H (s0, bghost0, t0) h)) in
  let gT := snd (fst (ms_run W H (s0, mghost0, t0) h)) in
  let t := snd (bs_run W H (s0, bghost0, t0) h) in
  bg_top gB = gT
  /\ t = snd (ms_run W H (s0, mghost0, t0) h)
  /\ exists k, screen (N.to_nat W) t
        = map (pad (N.to_nat W))
              (pre ++ log_rows (N.to_nat W) (bg_log gB) ++ mg_kept gT
                   ++ repeat [] (N.to_nat (bg_pad gB)) ++ mg_live gT)
          ++ repeat (repeat SP (N.to_nat W)) k.
Proof. exact c02_kept_bottom. Qed.
Print Assumptions C02_kept_bottom_partial.

(* ------------------------------------------------------------------ non-vacuity (Bottom alignment) *)
(** 3 bars A B C on a 4 x 10 terminal below an earlier shell line "$"; set_alignment(Bottom), add
    all, tick each *)
Definition bt_bar (c : N) : bar := new_bar (Some 10) FAndLeave [PLit [c]; PPos] THidden 0.
Definition bt_s0 : sys :=
  mksys [bt_bar 65; bt_bar 66; bt_bar 67] (new_ms (TTerm (new_ttarget None 0))) 0.
Definition bt_t0 : term := run_ops 4 10 term_init [TLine [36]].
Definition bt_setup : list (N * op) :=
  [(0, OSetAlign Bottom); (1, OInsert BEnd 0); (2, OInsert BEnd 1); (3, OInsert BEnd 2);
   (4, OTick 0); (5, OTick 1); (6, OTick 2)].
(** the witness of fixed defect 951c29f: remove(a); b.finish_and_clear(); c.println("x"); c.tick() *)
Definition bt_println : list (N * op) :=
  bt_setup ++ [(7, ORemove 0); (8, OFinish 1 FAndClear); (9, OPrintln 2 [120]); (10, OTick 2)].
(** the witness of fixed defect 8b11f76: empty frames (the only visible bar finished-and-cleared,
    clear()) do not make the region drift *)
Definition bt_empty : list (N * op) :=
  [(0, OSetAlign Bottom); (1, OInsert BEnd 0); (2, OTick 0); (3, OFinish 0 FAndClear);
   (4, OInsert BEnd 1); (5, OTick 1); (6, OFinish 1 FAndClear); (7, OMClear);
   (8, OInsert BEnd 2); (9, OTick 2)].
(** the witness of fixed defect 96a75c4: suspend under Bottom alignment *)
Definition bt_suspend : list (N * op) := bt_setup ++ [(7, OMSuspend [[115]]); (8, OTick 2)].
(** the witness of the OPEN finding D22: b.finish_and_clear() (one padding row on top);
    a.finish(); drop(a) *)
Definition bt_d22 : list (N * op) :=
  bt_setup ++ [(7, OFinish 1 FAndClear); (8, OFinish 0 FAndLeave); (9, ODrop 0)].

Example C02_screen_bottom_hypotheses_satisfiable :
  bs_initial bt_s0 /\ ready 4 10 [[36]] bt_t0
  /\ FitsAllB 4 10 bt_s0 bt_println /\ FitsAllB 4 10 bt_s0 bt_empty
  /\ FitsAllB 4 10 bt_s0 bt_suspend /\ FitsAllB 4 10 bt_s0 (bt_d22 ++ [(10, OTick 2)])
  /\ hist_ok 4 10 nofaults bt_s0 bt_println /\ hist_ok 4 10 nofaults bt_s0 bt_empty
  /\ hist_ok 4 10 nofaults bt_s0 bt_suspend /\ hist_ok 4 10 nofaults bt_s0 bt_d22
  /\ NoPadReap 4 10 (bt_s0, bghost0, bt_t0) bt_println
  /\ NoPadReap 4 10 (bt_s0, bghost0, bt_t0) bt_suspend.
Proof.
  split.
  - split.
    + intros b. unfold get_bar, nthN. destruct (N.to_nat b) as [|[|[|[|n]]]]; exact I.
    + eexists. repeat split. intros i ls Hi. unfold nthN in Hi. cbn in Hi.
      destruct (N.to_nat i); discriminate Hi.
  - split; [exact (ready_start 4 10 [[36]] 0 1 ltac:(lia))|].
    repeat (split; [vm_compute; repeat (split || intro)|]). vm_compute; repeat (split || intro).
Qed.

(** 951c29f: the printed line "x" stays ABOVE the padding row; 8b11f76: after two empty frames and
    a clear the new bar is drawn directly below "$" (no drift); 96a75c4: the closure's line "s" is
    still there after the redraw and the next tick - below the 3 blank rows (a GAP) that clear
    wrote where the bars were, above the bars *)
Example C02_screen_bottom_examples :
  let st1 := bs_run 4 10 (bt_s0, bghost0, bt_t0) bt_println in
  let st2 := bs_run 4 10 (bt_s0, bghost0, bt_t0) bt_empty in
  let st3 := bs_run 4 10 (bt_s0, bghost0, bt_t0) bt_suspend in
  snd (fst st1) = mkbg [LLine [120]] [] 1 [[67;48]]
  /\ screen 4 (snd st1) = map (pad 4) [[36]; [120]; []; [67;48]]
  /\ snd (fst st2) = mkbg [] [] 0 [[67;48]]
  /\ screen 4 (snd st2) = map (pad 4) [[36]; [67;48]; []]
  /\ snd (fst st3) = mkbg [LGap 3; LLine [115]] [] 0 [[65;48]; [66;48]; [67;48]]
  /\ screen 4 (snd st3) = map (pad 4) [[36]; []; []; []; [115]; [65;48]; [66;48]; [67;48]].
Proof. vm_compute. repeat split. Qed.

(** NoPadReap cannot be dropped from C02_kept_bottom_partial: the open finding D22
    (`bottom-alignment-kept-rows-misplaced`) on the faithful model.  After b.finish_and_clear() the
    region is [padding; A; C]; a.finish(); drop(a) reaps A at the head with Keep(1): the row that
    becomes a kept row is the blank PADDING row, not A's final frame "A10" (which is what the
    Top-alignment ghost keeps); A's row stays in the counted region and the next tick erases it -
    although no println / clear / suspend / remove intervened.  The screen equation of
    C02_screen_bottom_partial (whose ghost follows the code) holds throughout. *)
Theorem C02_kept_bottom_D22_refuted :
  let stB := bs_run 4 10 (bt_s0, bghost0, bt_t0) bt_d22 in
  let stT := ms_run 4 10 (bt_s0, mghost0, bt_t0) bt_d22 in
  let stB' := bs_run 4 10 (bt_s0, bghost0, bt_t0) (bt_d22 ++ [(10, OTick 2)]) in
  NoPadReap 4 10 (bt_s0, bghost0, bt_t0) (firstn 9 bt_d22)      (* fine until the drop ... *)
  /\ ~ NoPadReap 4 10 (bt_s0, bghost0, bt_t0) bt_d22             (* ... which reaps under padding *)
  /\ mg_kept (snd (fst stT)) = [[65;49;48]]                       (* the row that should be kept: "A10" *)
  /\ snd (fst stB) = mkbg [] [[]] 0 [[65;49;48]; [67;48]]         (* kept: the blank padding row *)
  /\ bg_top (snd (fst stB)) <> snd (fst stT)
  /\ screen 4 (snd stB) = map (pad 4) [[36]; []; [65;49;48]; [67;48]]
  /\ snd (fst stB') = mkbg [] [[]] 1 [[67;48]]
  /\ screen 4 (snd stB') = map (pad 4) [[36]; []; []; [67;48]].   (* "A10" erased by the tick *)
Proof.
  cbn zeta. split; [vm_compute; repeat (split || intro)|].
  split.
  - intros F. vm_compute in F.
    repeat match goal with H : _ /\ _ |- _ => destruct H end.
    match goal with H : false = true |- _ => discriminate H end.
  - split; [vm_compute; reflexivity|]. split; [vm_compute; reflexivity|].
    split; [vm_compute; discriminate|]. split; [vm_compute; reflexivity|].
    split; vm_compute; reflexivity.
Qed.
Print Assumptions C02_kept_bottom_D22_refuted.

(** the either-alignment theorems cover every history the Top-alignment theorems cover: the
    hypotheses of C02_screen / C03_log (ms_initial, FitsAll - which forbids set_alignment(Bottom))
    imply those of C02_screen_bottom_partial / C03_log_bottom_partial; the extra proviso of
    FitsAllB only concerns draws that shift, i.e. Bottom alignment *)
From IndProofs Require Import MultiScreenBottomTop.
Theorem C02_screen_bottom_subsumes_top : forall (W H : N) (s0 : sys) (h : list (N * op)),
  ms_initial s0 -> FitsAll W H s0 h -> bs_initial s0 /\ FitsAllB W H s0 h.
Proof. exact bottom_subsumes_top. Qed.
Print Assumptions C02_screen_bottom_subsumes_top.

(** on the Top-alignment example of C02_screen_example_end the either-alignment ghost has no gap
    and no padding, and the same kept / live rows and screen *)
Example C02_screen_bottom_top_example :
  let st := bs_run 6 10 (exm_s0, bghost0, term_init) exm_ops in
  snd (fst st) = mkbg [LLine [104;105]; LLine [120]; LLine [121]; LGap 0; LLine [119]] [] 0 [[66;48]; [67;51]]
  /\ screen 6 (snd st) = map (pad 6) [[104;105]; [120]; [121]; [119]; [66;48]; [67;51]]
  /\ next_cell 6 (snd st) = (6%nat, 0%nat).
Proof. vm_compute. repeat split. Qed.

(** what `_partial` leaves out, computed on the model (4 x 3 terminal, the three bars fill it):
    clear() under Bottom alignment pads the whole screen; fix 881c313 writes one padding line less
    and leaves the cursor ON the last padding row (not below it), so the cursor clause of
    C02_screen_bottom_partial does not hold in that state (next row 2, not 3), and a suspend in
    that state leaves a gap of H - 1 = 2 rows where the ghost says 3.  This is the ghost / the
    invariant not covering that state (the code is fine: TermBottomProofs.draw_to_term_spec_bottom,
    case n = H); FitsAllB excludes exactly the call that enters it. *)
Example C02_screen_bottom_outside_proviso :
  let h := bt_setup ++ [(7, OMClear)] in
  let st := bs_run 4 3 (bt_s0, bghost0, term_init) h in
  let st' := bs_run 4 3 (bt_s0, bghost0, term_init) (h ++ [(8, OMSuspend [[115]])]) in
  FitsAllB 4 3 bt_s0 bt_setup /\ ~ FitsAllB 4 3 bt_s0 h
  /\ snd (fst st) = mkbg [] [] 3 []
  /\ screen 4 (snd st) = map (pad 4) [[]; []; []]
  /\ next_cell 4 (snd st) = (2%nat, 0%nat)
  /\ length (bs_expected 4 [] (snd (fst st'))) = 7%nat
  /\ screen 4 (snd st') = map (pad 4) [[]; []; [115]; [65;48]; [66;48]; [67;48]].
Proof.
  cbn zeta. split; [vm_compute; repeat (split || intro)|]. split.
  - intros F. vm_compute in F.
    repeat match goal with H : _ /\ _ |- _ => destruct H end.
    match goal with H : false = true |- _ => discriminate H end.
  - vm_compute. repeat split.
Qed.

(** ------------------------------------------------------------------------------------------
    END-TO-END, in the property's words (second audit, N7; model/MultiRegion.v,
    proofs/MultiRegionProofs.v).  "The region shows each member's most recently drawn rendering
    exactly once, in logical order, directly below everything printed so far."
    Scope: Top alignment, no I/O faults, proviso FitsAll (as C02_screen), valid histories from an
    empty MultiProgress ([init_ok], [hist_ok]); any number of bars, every limiter state and time.
    After EVERY call (h1 = any prefix):
      - the rows ever written are  pre ++ wrap (lines printed so far) ++ kept rows ++ live rows,
        then blank rows only;
      - there is ONE list [ord] of bars - the logical order: duplicate-free, [ms_order] is its
        image under "slot of", it contains exactly the members (every live member, and the dropped
        ones not yet reaped) - such that the stored lines of the members in ordering order are
        [concat (map (latest_frame lg s) ord)]: for each bar, once, [frame_of] the ghost state of
        its slot, which is the logic state that bar really had right after its MOST RECENT draw
        step (call number [le_step e] < |h1|), and its CURRENT state when in sync;
      - when the history is [settled] - the last event that touched the rows or the stored lines
        was a paint of all members: an attempted draw without text, an attempted println draw with
        no dropped bar at the head, or a suspend - the LIVE ROWS ARE EXACTLY THAT:
            live = wrap (concat (map (latest_frame lg s) ord)).
    When it is not settled the screen still shows the previous painted frame: a call that paints
    nothing leaves the ghost (kept and live rows) untouched (C02_refused_keeps_rows), and any call
    that paints all members settles the history again whatever came before (C02_settled_after_paint).
    The residue, exactly: after a member store whose draw was refused / remove_idx before its redraw /
    MultiProgress::clear (rows erased, stored lines kept) / a println while a dropped bar is at the
    head (observation O1: its rows stay below the text until the next draw) the live rows are those
    of the last paint, not the current stored lines. *)
From IndModel Require Import MultiRegion.
From IndProofs Require Import MultiRegionProofs.

Theorem C02_region_shows_latest_in_order : forall (W H : N) (pre : list (list N)) (s0 : sys) (t0 : term)
    (h1 h2 : list (N * op)), 1 <= W -> 1 <= H ->
  init_ok s0 -> ms_initial s0 -> ready (N.to_nat W) (N.to_nat H) pre t0 ->
  MultiSpec.hist_ok W H nofaults s0 (h1 ++ h2) -> FitsAll W H s0 (h1 ++ h2) ->
  let st := ms_run W H (s0, mghost0, t0) h1 in
  let s := fst (fst st) in let g := snd (fst st) in let t := snd st in
  let lg := snd (lrun W H nofaults s0 0 lg_empty h1) in
  s = MultiSpec.run W H nofaults s0 h1
  /\ (exists k, screen (N.to_nat W) t
        = map (pad (N.to_nat W)) (pre ++ wrap (N.to_nat W) (hist_log W H s0 h1) ++ mg_kept g ++ mg_live g)
          ++ repeat (repeat SP (N.to_nat W)) k)
  /\ exists ord,
       NoDup ord /\ ms_order (s_mp s) = map (slot_of s) ord
       /\ (forall b, In b ord -> is_member s b = true)
       /\ (forall b, alive s b = true -> is_member s b = true -> In b ord)
       /\ bar_lines_of (s_mp s) = concat (map (latest_frame lg s) ord)
       /\ (settled W H s0 h1 = true ->
           mg_live g = wrap (N.to_nat W) (map lt (concat (map (latest_frame lg s) ord))))
       /\ (forall b e, In b ord -> lg_slot lg (slot_of s b) = Some e ->
             b_target (get_bar s (le_bar e)) = TMulti (slot_of s b)
             /\ lg_last lg (le_bar e) = Some (le_step e) /\ (le_step e < length h1)%nat
             /\ logic (le_state e)
                = logic (get_bar (MultiSpec.run W H nofaults s0 (firstn (S (le_step e)) h1)) (le_bar e))
             /\ (le_sync e = true -> logic (le_state e) = logic (get_bar s (le_bar e)))).
Proof. exact region_shows_latest_in_order. Qed.
Print Assumptions C02_region_shows_latest_in_order.

(** a call that paints all members (its own MultiState calls set the flag from [false]) settles *)
Theorem C02_settled_after_paint : forall (W H : N) (s0 : sys) (h : list (N * op)) (now : N) (o : op),
  paints_all W H (MultiSpec.run W H nofaults s0 h) now o = true -> settled W H s0 (h ++ [(now, o)]) = true.
Proof. exact settled_after_paint. Qed.
Print Assumptions C02_settled_after_paint.

(** a call whose draws are all refused (and that does not clear, suspend, write or reap the head)
    leaves the kept and live rows - the previous painted frame - as they are *)
Theorem C02_refused_keeps_rows : forall (W H : N) (s : sys) (g : mghost) (t : term) (now : N) (o : op),
  paints_nothing W H s now o = true -> snd (fst (ms_step W H (s, g, t) (now, o))) = g.
Proof. exact refused_keeps_rows. Qed.
Print Assumptions C02_refused_keeps_rows.

(* ------------------------------------------------------------------ non-vacuity (end-to-end) *)
(** the screen-level example history (3 bars on 6 x 10: println, finish + drop reaped from the
    head, tick, member println, suspend, clear, tick) is settled at its end - the live rows are
    "B0", "C3" = the latest drawn states of B and C in logical order -, not settled right after
    the clear (call 13: rows erased, stored lines kept), and every tick / finish / println / suspend
    in it paints all members *)
Example C02_region_example :
  let st := ms_run 6 10 (exm_s0, mghost0, term_init) exm_ops in
  let lg := snd (lrun 6 10 nofaults exm_s0 0 lg_empty exm_ops) in
  init_ok exm_s0
  /\ settled 6 10 exm_s0 exm_ops = true
  /\ settled 6 10 exm_s0 (firstn 13 exm_ops) = false
  /\ mg_live (snd (fst st)) = wrap 6 (map lt (concat (map (latest_frame lg (fst (fst st))) [1; 2])))
  /\ map (latest_frame lg (fst (fst st))) [1; 2] = [[mkline KBar [66;48]]; [mkline KBar [67;51]]]
  /\ map (fun k => paints_all 6 10 (MultiSpec.run 6 10 nofaults exm_s0 (firstn k exm_ops))
                              (fst (nth k exm_ops (0, OMClear))) (snd (nth k exm_ops (0, OMClear))))
         [3; 6; 7; 10; 11; 13]%nat = [true; true; true; true; true; true].
Proof.
  split.
  - repeat split. intros b. unfold is_member, get_bar, nthN. destruct (N.to_nat b) as [|[|[|[|n]]]]; reflexivity.
  - vm_compute. repeat split.
Qed.

(** a refused draw: on the 1 Hz history of the latest-drawn-state section the three updates of A
    paint nothing, the history is not settled after them - the screen shows the previous frame
    while A's stored line is already "A:50/200 two" -, and B's painted set_message settles it *)
Example C02_refused_example :
  map (fun k => paints_nothing 40 20 (MultiSpec.run 40 20 nofaults ml_s0 (firstn k ml_h1))
                               (fst (nth k ml_h1 (0, OMClear))) (snd (nth k ml_h1 (0, OMClear))))
      [22; 23; 24]%nat = [true; true; true]
  /\ settled 40 20 ml_s0 ml_h1 = false
  /\ paints_all 40 20 (MultiSpec.run 40 20 nofaults ml_s0 ml_h1) (fst ml_o) (snd ml_o) = true
  /\ settled 40 20 ml_s0 (ml_h1 ++ [ml_o]) = true.
Proof. vm_compute. repeat split. Qed.

(** ------------------------------------------------------------------------------------------
    Second audit, m6 - "suspend through a detached bar" ([AWrite ws => ws = []] in FitsAll /
    FitsAllB) is a NEEDED exclusion.  ProgressBar::suspend on a bar whose target is hidden (never
    added, or removed) draws nothing and just runs the closure: its lines land wherever the cursor
    is - wrap-pending at the end of the last live row, so the first line goes to the row BELOW the
    region - and indicatif's row counters know nothing about them: the next draw moves up
    last_line_count - 1 rows from the NEW cursor row, erases from there, and repaints the members
    below the foreign line; the old rows stay above it.  Witness (6 x 10, member A, detached bar D):
    add A; tick A; D.suspend(|| write_line "w"); tick A leaves the rows "A0", "w", "A0": A is on
    the screen twice, whereas the ghost (log "w", live "A0") describes "w", "A0".  Every other
    proviso of C02_screen holds.  Foreign output while a MultiProgress is on screen has to go
    through MultiProgress::suspend or a member's suspend. *)
Definition ds_s0 : sys :=
  mksys [exm_bar 65; exm_bar 68] (new_ms (TTerm (new_ttarget None 0))) 0.
Definition ds_h : list (N * op) :=
  [(0, OInsert BEnd 0); (1000000, OTick 0); (2000000, OSuspend 1 [[119]]); (3000000, OTick 0)].

Theorem C02_detached_suspend_refuted :
  let st := ms_run 6 10 (ds_s0, mghost0, term_init) ds_h in
  ms_initial ds_s0 /\ ready 6 10 [] term_init /\ MultiSpec.hist_ok 6 10 nofaults ds_s0 ds_h
  /\ FitsAll 6 10 ds_s0 (firstn 2 ds_h) /\ ~ FitsAll 6 10 ds_s0 (firstn 3 ds_h)
  /\ snd (fst st) = mkmg [[119]] [] [[65;48]]
  /\ screen 6 (snd st) = map (pad 6) [[65;48]; [119]; [65;48]].
Proof.
  cbn zeta. split.
  - split.
    + intros b. unfold get_bar, nthN. destruct (N.to_nat b) as [|[|[|n]]]; exact I.
    + eexists. repeat split. intros i ls Hi. unfold nthN in Hi. cbn in Hi.
      destruct (N.to_nat i); discriminate Hi.
  - split; [exact (ready_start 6 10 [] 0 0 ltac:(lia))|].
    split; [vm_compute; repeat split|]. split; [vm_compute; repeat (split || intro)|].
    split; [|vm_compute; split; reflexivity].
    intros F. vm_compute in F. repeat match goal with H : _ /\ _ |- _ => destruct H end.
    match goal with H : [_] = [] |- _ => discriminate H end.
Qed.
Print Assumptions C02_detached_suspend_refuted.

(** ------------------------------------------------------------------------------------------
    Third audit, finding 4: [AtomicExec] is NOT what the lock brackets give for inc / dec /
    set_position.  `self.pos.inc(delta); if self.pos.allow(now) { self.tick_inner(now) }`
    (src/progress_bar.rs:243-249, 252-258, 295-301): the position store and the position limiter
    are plain atomics touched BEFORE the bar mutex; the footprint table has no event for them, so
    C02_atomic_brackets_generated is silent about them.  model/MultiInterleave.v part 3 splits these
    calls into [PStore o] (the store, no lock) and [PBracket b] (limiter, then the locked tick +
    draw).  EXPLICIT ASSUMPTION of C02_interleaving (and of every use of AtomicExec): AT MOST ONE
    THREAD ISSUES inc / dec / set_position ON A GIVEN BAR AT A TIME, AND the templates are those of
    Sys.v's alphabet (ONE position-dependent key group, PPos: a frame reads the counter once; with
    {bar} / {percent} / {eta} next to {pos} a frame reads it several times and even one unlocked
    writer tears it: open finding D33, C02_frame_single_state_refuted).  Other threads may run other
    calls on that bar, but NOTE: a foreign bracket on the same bar BETWEEN the store and the bracket
    of one inc is inside this assumption and outside C02_pos_sections_adjacent - no commutation
    lemma is proved for it (the painted frames agree with the order [inc; foreign call], the
    limiter time stamps may differ); prose only.  Under it the two sections of a call are adjacent as far as that bar's
    position is concerned, and adjacent sections ARE the atomic step: *)
Theorem C02_pos_sections_adjacent : forall (W H : N) (fails : N -> bool) (s : sys) (now : N) (o : op) (b : N),
  (exists d, o = OInc b d \/ o = ODec b d \/ o = OSetPos b d) ->
  let '(s1, e1) := psec_step W H fails s now (PStore o) in
  let '(s2, e2) := psec_step W H fails s1 now (PBracket b) in
  (s2, e1 ++ e2) = (step_sys W H fails s now o, step_out W H fails s now o).
Proof. exact pos_sections_adjacent. Qed.
Print Assumptions C02_pos_sections_adjacent.

(** Outside the assumption - two writers on one bar (what ParallelProgressIterator does with clones
    of one bar): T1 stores (pos 1), T2 stores (pos 2), T2's bracket paints "A2", T1's bracket
    paints "A2" again.  Both frames show a position the counter really held and never an older
    one, the final frame shows the final position - nothing the property forbids -, but NO
    interleaving of the two atomic calls emits these TermLike calls (there is only one, and it
    paints "A1" then "A2"): the schedule is outside [AtomicExec], C02_interleaving does not speak
    about it.  On the implementation: c02.rs `thread_stress` runs with two writers per bar (oracle:
    every painted position is a value the counter held, non-decreasing, final frame = final). *)
Definition pw_s0 : sys :=
  mksys [new_bar (Some 9) FAndLeave [PLit [65]; PPos] THidden 0] (new_ms (TTerm (new_ttarget None 0))) 0.
Definition pw_pre : list (N * pstep) := [(0, PCall (OInsert BEnd 0))].
Definition pw_race : list (N * pstep) :=
  [(2000000, PStore (OInc 0 1)); (2000001, PStore (OInc 0 1)); (2000002, PBracket 0); (2000003, PBracket 0)].

(** the bar lines among the emitted TermLike calls (write_str of a non-blank text) *)
Definition painted_bars (e : list termop) : list text :=
  flat_map (fun c => match c with TStr (x :: r) => if N.eqb x 32 then [] else [x :: r] | _ => [] end) e.

Theorem C02_pos_sections_two_writers_refuted :
  let nf := fun _ : N => false in
  let s1 := fst (psec_run 20 10 nf pw_s0 pw_pre) in
  (* the section run paints "A2" twice *)
  painted_bars (snd (psec_run 20 10 nf s1 pw_race)) = [[65;50]; [65;50]]
  (* the only interleaving of the two atomic calls paints "A1", "A2" *)
  /\ painted_bars (snd (run_out 20 10 nf s1 [(2000002, OInc 0 1); (2000003, OInc 0 1)])) = [[65;49]; [65;50]]
  /\ b_pos (get_bar (fst (psec_run 20 10 nf s1 pw_race)) 0) = 2.
Proof. cbn zeta. repeat split; vm_compute; reflexivity. Qed.
Print Assumptions C02_pos_sections_two_writers_refuted.

(** ------------------------------------------------------------------------------------------
    Third audit, finding 5: the reap flag [r] of C02_order_step, COMPUTED.  [op_reaps] (model/
    MultiLatest.v) = one of the MultiState::draw calls the call makes is attempted (not refused by
    the refresh limiter); exactly then the dropped bars at the head of the list leave it.  Note
    what the list [a_order] is: the bars in insertion order INCLUDING dropped bars that are not at
    the head yet (docs/C02.md, Interpretations, I6): the index of insert / insert_from_back counts
    them, and when they leave depends on the next painted draw. *)
Theorem C02_order_step_flag : forall (W H : N) (fails : N -> bool) (s : sys) (a : aspec) (now : N) (o : op),
  MInv s -> Refines s a -> op_ok s o = true ->
  MInv (step_sys W H fails s now o)
  /\ Refines (step_sys W H fails s now o) (a_step (op_reaps W H fails s now o) a o).
Proof. exact step_sim_flag. Qed.
Print Assumptions C02_order_step_flag.

(** the audit's witness on the model: add A, B, C; tick each; B.finish_and_clear(); drop(B) (not the
    head: B stays in the list, invisible); insert(2, D); D.tick(): ordering A, B(dropped), D, C - the
    screen shows A, D, C.  A user who holds [A, C] might expect A, C, D. *)
Example C02_insert_counts_dropped_bar :
  let bar c := new_bar (Some 10) FAndClear [PLit [c]; PPos] THidden 0 in
  let s0 := mksys [bar 65; bar 66; bar 67; bar 68] (new_ms (TTerm (new_ttarget None 0))) 0 in
  let h := [(0, OInsert BEnd 0); (0, OInsert BEnd 1); (0, OInsert BEnd 2);
            (1000000, OTick 0); (2000000, OTick 1); (3000000, OTick 2);
            (4000000, OFinish 1 FAndClear); (5000000, ODrop 1);
            (6000000, OInsert (BIndex 2) 3); (7000000, OTick 3)] in
  let st := ms_run 6 10 (s0, mghost0, term_init) h in
  MultiSpec.hist_ok 6 10 nofaults s0 h /\ FitsAll 6 10 s0 h
  /\ ms_order (s_mp (fst (fst st))) = [0; 1; 3; 2]
  /\ map (alive (fst (fst st))) [0; 1; 2; 3] = [true; false; true; true]
  /\ screen 6 (snd st) = map (pad 6) [[65;48]; [68;48]; [67;48]]
  /\ map (fun k => op_reaps 6 10 nofaults (MultiSpec.run 6 10 nofaults s0 (firstn k h))
                            (fst (nth k h (0, OMClear))) (snd (nth k h (0, OMClear)))) [6; 7; 8; 9]%nat
     = [true; false; false; true].
Proof. cbn zeta. split; [vm_compute; repeat split|]. split; [vm_compute; repeat (split || intro)|]. vm_compute. repeat split. Qed.

(** Third audit, finding 22: an instance of C02_kept_bottom_partial with a KEPT ROW and PADDING at
    the same time.  4 x 10 terminal, Bottom alignment, bars A B C D ticked; A finishes and is
    dropped at the head while the region is full (no padding yet: the Keep is outside D22);
    B.finish_and_clear() then shrinks the region: one padding row between the kept row "A10" and
    the live rows.  All hypotheses by computation; ghost and screen computed.
    (The conjunct [t = snd (ms_run ..)] of C02_kept_bottom_partial holds by construction - bs_step
    and ms_step execute the same emitted calls; its content is [bg_top gB = gT] and the screen.) *)
Example C02_kept_bottom_with_padding :
  let bar c := new_bar (Some 10) FAndLeave [PLit [c]; PPos] THidden 0 in
  let s0 := mksys [bar 65; bar 66; bar 67; bar 68] (new_ms (TTerm (new_ttarget None 0))) 0 in
  let h := [(0, OSetAlign Bottom); (0, OInsert BEnd 0); (0, OInsert BEnd 1); (0, OInsert BEnd 2); (0, OInsert BEnd 3);
            (1000000, OTick 0); (2000000, OTick 1); (3000000, OTick 2); (4000000, OTick 3);
            (5000000, OFinish 0 FAndLeave); (6000000, ODrop 0);
            (7000000, OFinish 1 FAndClear); (8000000, OTick 2)] in
  let st := bs_run 4 10 (s0, bghost0, term_init) h in
  FitsAllB 4 10 s0 h /\ NoPadReap 4 10 (s0, bghost0, term_init) h /\ MultiSpec.hist_ok 4 10 nofaults s0 h
  /\ snd (fst st) = mkbg [] [[65;49;48]] 1 [[67;48]; [68;48]]
  /\ screen 4 (snd st) = map (pad 4) [[65;49;48]; []; [67;48]; [68;48]].
Proof.
  cbn zeta. split; [vm_compute; repeat (split || intro)|]. split; [vm_compute; repeat (split || intro)|].
  split; [vm_compute; repeat split|]. vm_compute. repeat split.
Qed.

(** ------------------------------------------------------------------------------------------
    Round 5 - several writers per bar at SECTION granularity (AUDIT3 finding 4, last item).
    READ THIS FIRST (AUDIT4 findings 2, 3): clauses (a)-(c) below are consequences of the way the
    machine is DEFINED (append-only history; a paint logs the last entry); nothing in them could
    fail for a machine of this shape.  What the development adds is (i) a written-down section
    granularity of inc / dec / set_position and (ii) the CONDITIONAL statement: IF a concurrent
    execution is a sequentially consistent LIST of such sections and IF a painted bracket shows ONE
    value, the newest one in that list, THEN the position clause holds for any number of writers.
    Both IFs are assumptions about the code, not theorems: the `pos` loads are Relaxed
    (src/state.rs:149, :287, :308, :343) and the mutex orders brackets, not a bracket's load against
    an unlocked store; and a frame of a template with several position-dependent key groups reads
    the counter SEVERAL times (part 5, open finding D33: C02_frame_single_state_refuted).  The
    second IF holds for Sys.v's template alphabet (one position-dependent group: PPos).
    model/MultiInterleave.v part 4: inc / dec / set_position at the granularity of the code -
    [QStore b w] (one atomic RMW / store on the counter, no lock), the position limiter's verdict as
    an ORACLE BIT of the call (its loads / stores of capacity / prev interleave arbitrarily between
    writers: every verdict sequence is covered, the limiter never touches the counter), and - only
    when the verdict is true - [QBracket b None paints] (bar mutex; `pos` read atomically; render;
    draw, painted or refused by the draw target: a second oracle bit); finish* = one bracket with the
    store inside, [QBracket b (Some w) true]; every other call = one bracket without counter write.
    Brackets on one bar are totally ordered by its mutex and stores are atomic, so a section-level
    execution of ANY number of threads making ANY calls on ANY bars under ANY schedule and ANY verdict
    oracles is a LIST of sections ([Merge (map qthread_sections ts) l] for the per-thread view - the
    statement needs no property of the list, which is why it holds for all of them).  The machine
    keeps per bar the history of values its counter held and the log of painted frames
    (bar, index into that history, shown value).  For every list of sections:
    (a) every painted frame shows, for the bar whose bracket painted, the value the counter holds at
        the instant of that bracket: entry [i] of the bar's section-level history - a value it had;
    (b) never older: over the frames the indices shown for one bar are non-decreasing ([log_mono]);
    (c) if a bracket on b paints at or after the last store on b (the store of finish* is inside
        its bracket), the last frame of b shows the final counter value (last index, [q_cnt]).
    Level: this is a theorem about the counter machine [qstep] (an abstraction of Sys.v to what
    clause 3 says about positions: C02_pos_store_is_counter_write is DEFINITIONAL - [wr_apply] and
    [pos_store] are the same three expressions -; the real link to Sys.v is C02_pos_sections_adjacent,
    [PStore o; PBracket b] = Sys.step; the bracket half, QBracket vs bar_tick / frame_of, has no lemma);
    it is NOT glued to the rendering / screen theorems.  Relation to the rest: with ONE writer per bar
    the sections of a call are adjacent and equal the atomic step (C02_pos_sections_adjacent), i.e.
    the section model specialises to [AtomicExec]; the one-writer assumption is needed only for
    C02_interleaving's formulation over atomic steps (which also speaks about messages, lengths,
    order, the frames' other bars), while this theorem covers several writers for the position
    clause.  The tie of the section split to the source is reading of src/progress_bar.rs:243-301
    and src/state.rs (AtomicPosition) plus the two-writers-per-bar stress oracle of c02.rs. *)
From IndProofs Require Import MultiWritersProofs.

Theorem C02_pos_sections_any_writers : forall (c0 : N -> N) (l : list qstep),
  let st := q_run (q_init c0) l in
  (forall b i v, In (b, i, v) (q_log st) -> nth_error (q_hist st b) i = Some v)
  /\ log_mono (q_log st)
  /\ (forall b l1 ow l2, l = l1 ++ QBracket b ow true :: l2 ->
        forallb (fun x => negb (stores_on b x)) l2 = true ->
        last_shown (q_log st) b = Some (Nat.pred (length (q_hist st b)), q_cnt st b)).
Proof. exact pos_sections_any_list. Qed.
Print Assumptions C02_pos_sections_any_writers.

(** the per-thread reading: threads = lists of calls with their two oracle bits, [l] any schedule of
    their sections that respects each thread's order.  The [Merge] premise is NOT used by the proof
    (the conclusion holds for every list): it is here to say which lists are schedules. *)
Theorem C02_pos_sections_any_schedule : forall (c0 : N -> N) (ts : list (list (qcall * bool * bool)))
    (l : list qstep),
  Merge (map qthread_sections ts) l ->
  let st := q_run (q_init c0) l in
  (forall b i v, In (b, i, v) (q_log st) -> nth_error (q_hist st b) i = Some v)
  /\ log_mono (q_log st)
  /\ (forall b l1 ow l2, l = l1 ++ QBracket b ow true :: l2 ->
        forallb (fun x => negb (stores_on b x)) l2 = true ->
        last_shown (q_log st) b = Some (Nat.pred (length (q_hist st b)), q_cnt st b)).
Proof. exact pos_sections_any_writers. Qed.
Print Assumptions C02_pos_sections_any_schedule.

(** the counter machine writes what the position store of Sys.v (MultiInterleave part 3) writes *)
Theorem C02_pos_store_is_counter_write : forall (s : sys) (b d : N),
  (N.to_nat b < length (s_bars s))%nat ->
  b_pos (get_bar (pos_store s (OInc b d)) b) = wr_apply (WInc d) (b_pos (get_bar s b))
  /\ b_pos (get_bar (pos_store s (ODec b d)) b) = wr_apply (WDec d) (b_pos (get_bar s b))
  /\ b_pos (get_bar (pos_store s (OSetPos b d)) b) = wr_apply (WSet d) (b_pos (get_bar s b)).
Proof. exact pos_store_is_counter_write. Qed.
Print Assumptions C02_pos_store_is_counter_write.

(** two threads inc the same bar three times each (verdicts mixed, one paint refused), a third
    thread finishes it: a schedule of their sections; the log: frames show history entries 2, 2, 5,
    7 (values 2, 2, 5, 9) - non-decreasing, and the finish frame shows the final value *)
Example C02_pos_sections_example :
  let t1 := [(QCPos 0 (WInc 1), true, true); (QCPos 0 (WInc 1), false, true); (QCPos 0 (WInc 1), true, true)] in
  let t2 := [(QCPos 0 (WInc 1), true, true); (QCPos 0 (WInc 1), true, false); (QCPos 0 (WInc 1), false, true)] in
  let t3 := [(QCFinish 0 9, true, true)] in
  let l := [QStore 0 (WInc 1); QStore 0 (WInc 1); QBracket 0 None true; QBracket 0 None true;
            QStore 0 (WInc 1); QStore 0 (WInc 1); QStore 0 (WInc 1); QBracket 0 None false; QBracket 0 None true;
            QStore 0 (WInc 1); QBracket 0 (Some (WSet 9)) true] in
  qthread_sections t1 = [QStore 0 (WInc 1); QBracket 0 None true; QStore 0 (WInc 1); QStore 0 (WInc 1); QBracket 0 None true]
  /\ q_hist (q_run (q_init (fun _ => 0)) l) 0 = [0; 1; 2; 3; 4; 5; 6; 9]
  /\ q_log (q_run (q_init (fun _ => 0)) l) = [(0, 2%nat, 2); (0, 2%nat, 2); (0, 5%nat, 5); (0, 7%nat, 9)]
  /\ last_shown (q_log (q_run (q_init (fun _ => 0)) l)) 0 = Some (7%nat, 9).
Proof. vm_compute. repeat split. Qed.

(** (d) the honest negative: when the LAST section on a bar is a store whose call got the verdict
    "false" from the position limiter (or whose bracket was refused by the draw target, or ran
    before another writer's store), the last frame does NOT show the final value - the single-bar
    cousin of D27.  It is made good by the next painted bracket on that bar (a tick, a set_message,
    finish*: clause (c)); without one it stays. *)
Theorem C02_pos_last_store_unpainted_refuted :
  let l := qthread_sections [(QCPos 0 (WInc 1), true, true); (QCPos 0 (WInc 1), false, true)] in
  let st := q_run (q_init (fun _ => 0)) l in
  l = [QStore 0 (WInc 1); QBracket 0 None true; QStore 0 (WInc 1)]
  /\ q_cnt st 0 = 2 /\ last_shown (q_log st) 0 = Some (1%nat, 1)
  (* ... and a tick afterwards repairs it *)
  /\ last_shown (q_log (q_run st [QBracket 0 None true])) 0 = Some (2%nat, 2).
Proof. vm_compute. repeat split. Qed.
Print Assumptions C02_pos_last_store_unpainted_refuted.

(** ------------------------------------------------------------------------------------------
    Round 6 - READ granularity (AUDIT4 finding 3; open finding D33
    `torn-position-read-within-one-frame`).  model/MultiInterleave.v part 5: inside one bracket the
    counter is loaded once per position-dependent key group ({pos}/{human_pos}/bytes: style.rs:246;
    {bar}/{wide_bar}/{percent}: state.fraction(), state.rs:286-287; {eta}/{per_sec}; the estimator:
    state.rs:149) while the stores of other threads are not under the bar mutex.  [frame2 b ws] =
    one frame of bar b with two reads and the foreign stores [ws] between them.
    Refuted: the two reads of ONE frame can differ - the frame shows a state the bar never had
    (exhibit on the implementation, deterministic: c02.rs `torn_position_read_exhibit`, template
    "{pos} {slow} {percent}", frame "0 s 1"). *)
Theorem C02_frame_single_state_refuted :
  exists (c0 : N -> N) (b : N) (ws : list wr),
    let st := q_run (q_init c0) (frame2 b ws) in
    q_log st = [(b, 0%nat, 0); (b, 1%nat, 1)] /\ q_hist st b = [0; 1].
Proof. exact frame_single_state_refuted. Qed.
Print Assumptions C02_frame_single_state_refuted.

(** What survives at read granularity, whatever ran before the frame and whatever the foreign stores
    are: each READ is a value the counter held (an entry of the section-level history), and the
    second read of the frame is [length ws] entries later - never older.  (Same caveat as
    C02_pos_sections_any_writers: true of the machine by construction; the assumption carried is
    sequential consistency of the loads and stores.) *)
Theorem C02_frame_reads_real_and_ordered : forall (c0 : N -> N) (pre : list qstep) (b : N) (ws : list wr),
  let st0 := q_run (q_init c0) pre in
  let st := q_run (q_init c0) (pre ++ frame2 b ws) in
  let i1 := Nat.pred (length (q_hist st0 b)) in
  exists v1 v2,
    q_log st = q_log st0 ++ [(b, i1, v1); (b, (i1 + length ws)%nat, v2)]
    /\ nth_error (q_hist st b) i1 = Some v1
    /\ nth_error (q_hist st b) (i1 + length ws)%nat = Some v2.
Proof. exact frame_reads_real_and_ordered. Qed.
Print Assumptions C02_frame_reads_real_and_ordered.
