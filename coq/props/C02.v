(** C02 - MultiProgress shows every member once, in logical order, below the log.
    Only statements; every proof is [exact <lemma from IndProofs>].  What is and is not covered:
    docs/C02.md (the screen clause C02_screen is NOT proved here). *)
From IndModel Require Import MultiSpec.
From IndProofs Require Import MultiProofs MultiFrame.
From Coq Require Import List NArith.
Import ListNotations.
Open Scope N_scope.

(** (1) order refinement, one call: if the allocation invariants hold and the ordering vector is
    the image of the abstract list of bar ids, then after ANY possible public call (add / insert /
    insert_from_back / insert_before / insert_after / remove / drop / every drawing or printing
    call, at any time, any limiter state, any terminal size, any terminal failures) the invariants
    hold again and the ordering vector is the image of the textbook list operation [a_step]
    (plain list insertion / deletion / dropping the dropped bars at the head, [r] = the multi draw
    of the call was not refused by the refresh limiter). *)
Theorem C02_order_step : forall (W H : N) (fails : N -> bool) (s : sys) (a : aspec) (now : N) (o : op),
  MInv s -> Refines s a -> op_ok s o = true ->
  exists r, MInv (step_sys W H fails s now o) /\ Refines (step_sys W H fails s now o) (a_step r a o).
Proof. exact step_sim. Qed.
Print Assumptions C02_order_step.

(** (1) all histories: from an empty MultiProgress and any number of bars, along every history of
    possible calls the model run and a run of the list specification stay related ([SimRun]:
    [MInv] and [Refines] after every call). *)
Theorem C02_order : forall (W H : N) (fails : N -> bool) (ops : list (N * op)) (s : sys),
  init_ok s -> hist_ok W H fails s ops -> SimRun W H fails s (mkas [] []) ops.
Proof. exact sim_run_init. Qed.
Print Assumptions C02_order.

(** (1) consequences for every reachable state: NoDup ordering, ordering and free set disjoint,
    every index within members, |members| = |ordering| + |free_set| (the two `assert_eq!` in
    insert / remove_idx cannot fire), free slots hold the default member, live member bars own
    distinct slots of the ordering that are not flagged zombie; and the ordering is the injective
    image of a duplicate-free list of bars containing every live member. *)
Theorem C02_order_reachable : forall (W H : N) (fails : N -> bool) (s : sys) (ops : list (N * op)),
  init_ok s -> hist_ok W H fails s ops ->
  let s' := run W H fails s ops in
  MInv s' /\ exists ord, NoDup ord /\ ms_order (s_mp s') = map (slot_of s') ord
                         /\ (forall b, In b ord -> is_member s' b = true)
                         /\ (forall b, alive s' b = true -> is_member s' b = true -> In b ord).
Proof. exact run_inv. Qed.
Print Assumptions C02_order_reachable.

(** the list operation of the model is textbook insertion: the element lands at position [i] *)
Theorem C02_insert_at_textbook : forall (A : Type) (l : list A) (i : nat) (x : A),
  insert_at l i x = firstn i l ++ x :: skipn i l.
Proof. exact @insert_at_spec. Qed.
Print Assumptions C02_insert_at_textbook.

(** slot reuse is safe: MultiState::insert returns a slot that is not in the ordering and holds
    the default member (no stale lines, no stale zombie flag), and touches no other member *)
Theorem C02_slot_reset : forall (m : mstate) (l : iloc) (m1 : mstate) (idx : N),
  CoreInv m -> ms_insert m l = Some (m1, idx) ->
  ~ In idx (ms_order m)
  /\ l_ins l (ms_order m) idx = Some (ms_order m1)
  /\ CoreInv m1
  /\ nthN (ms_members m1) idx member_default = member_default
  /\ (forall j, In j (ms_order m) -> nthN (ms_members m1) j member_default = nthN (ms_members m) j member_default)
  /\ ms_align m1 = ms_align m /\ ms_orphans m1 = ms_orphans m
  /\ ms_zombie_lines m1 = ms_zombie_lines m /\ ms_target m1 = ms_target m.
Proof. exact ms_insert_spec. Qed.
Print Assumptions C02_slot_reset.

(** (2) what one public call does to MultiState is exactly the sequence of MultiState method
    calls [op_actions] (member draws store [stored_frame] of the bar's state AT THAT CALL in the
    bar's slot, then MultiState::draw), and without bars that own a terminal the TermLike calls
    of the step are exactly those of these method calls *)
Theorem C02_step_calls : forall (W H : N) (fails : N -> bool) (s : sys) (now : N) (o : op),
  let x := mp_run W H fails now (s_mp s) (s_calls s) (op_actions W s now o) in
  s_mp (step_sys W H fails s now o) = fst (fst x)
  /\ (no_own_term s -> s_calls (step_sys W H fails s now o) = snd x
                       /\ step_out W H fails s now o = snd (fst x)).
Proof. exact step_mp. Qed.
Print Assumptions C02_step_calls.

(** (2) every attempted MultiState::draw makes ONE draw_to_term call whose lines are
    [extra ++ orphan_lines ++ concat (stored lines of the members, in ordering order)] - each
    member exactly once (NoDup ordering), all text first -, erasing last_line_count
    (+ zombie_lines_count when text is drawn) rows; a refused draw calls nothing *)
Theorem C02_frame : forall (W H : N) (fails : N -> bool) (m : mstate) (force : bool)
    (extra : option (list line)) (now c : N),
  let r := ms_draw W H fails m force extra now c in
  if ms_attempt W m force extra now
  then snd (fst (fst r)) = fst (fst (emit fails c (fst (fst (ms_draw_event W H m extra)))))
  else snd (fst (fst r)) = [] /\ snd (fst r) = c.
Proof. exact ms_draw_frame. Qed.
Print Assumptions C02_frame.

(** (4) partial: GIVEN that each public call is one atomic [step] (lock brackets, docs/C02.md),
    a concurrent execution is the fold of [step] over an interleaving [l] of the per-thread call
    lists [ts], and (1)-(2) hold along every such interleaving *)
Theorem C02_interleaving_partial : forall (W H : N) (fails : N -> bool)
    (ts : list (list (N * op))) (l : list (N * op)) (s : sys),
  Merge ts l -> init_ok s -> hist_ok W H fails s l ->
  SimRun W H fails s (mkas [] []) l
  /\ length l = length (concat ts) /\ (forall x, In x l <-> In x (concat ts)).
Proof. exact interleaving_full. Qed.
Print Assumptions C02_interleaving_partial.

(* ------------------------------------------------------------------ non-vacuity *)
Definition ex_bar (c : N) : bar := new_bar (Some 10) FAndLeave [PLit [c]; PPos] THidden 0.
Definition ex_s0 : sys :=
  mksys [ex_bar 65; ex_bar 66; ex_bar 67; ex_bar 68] (new_ms (TTerm (new_ttarget (Some 20) 0))) 0.
Definition ex_ops : list (N * op) :=
  [(0, OInsert BEnd 0); (0, OInsert (BIndex 0) 1); (0, OInsert (BAfter 0) 2); (1000000, OTick 0);
   (1000001, OTick 1); (2000000, OFinish 2 FAndLeave); (3000000, ODrop 2); (4000000, OMPrintln [120]);
   (5000000, ORemove 1); (6000000, OInsert (BFromBack 1) 3); (7000000, OInsert BEnd 1);
   (8000000, OFinish 0 FAndClear); (9000000, ODrop 0); (9000001, OTick 3)].

Example C02_nonvacuous_history :
  init_ok ex_s0 /\ hist_ok 20 50 (fun _ => false) ex_s0 ex_ops.
Proof.
  split.
  - repeat split. intros b. unfold is_member, get_bar, nthN.
    destruct (N.to_nat b) as [|[|[|[|[|n]]]]]; reflexivity.
  - vm_compute. repeat split.
Qed.

(** the run: B is removed and its slot 1 is recycled for D (insert_from_back 1), C is finished
    and dropped behind the head (stays as a zombie), A is finished, dropped at the head and reaped
    at once (slot 0 freed), B comes back at the end in a fresh slot 3: the list is D, C, B *)
Example C02_nonvacuous_final_order :
  let s' := run 20 50 (fun _ => false) ex_s0 ex_ops in
  ms_order (s_mp s') = [1; 2; 3] /\ ms_free (s_mp s') = [0]
  /\ map (slot_of s') [3; 2; 1] = [1; 2; 3] /\ map (alive s') [3; 2; 1] = [true; false; true].
Proof. vm_compute. repeat split. Qed.

Example C02_nonvacuous_merge :
  Merge [[(0, OInsert BEnd 0); (1, OTick 0)]; [(0, OInsert BEnd 1)]]
        [(0, OInsert BEnd 0); (0, OInsert BEnd 1); (1, OTick 0)].
Proof.
  apply (Merge_cons [] (0, OInsert BEnd 0) [(1, OTick 0)] [[(0, OInsert BEnd 1)]]).
  apply (Merge_cons [[(1, OTick 0)]] (0, OInsert BEnd 1) [] []).
  apply (Merge_cons [] (1, OTick 0) [] [[]]).
  apply Merge_nil. repeat constructor.
Qed.

(** ------------------------------------------------------------------------------------------
    The premise of [C02_interleaving_partial] ("every public call is one atomic step") tied to the
    source: in the lock-footprint table that tools/locks_extract.py regenerates from /repo/src on
    every run (gen/LockFootprints.v), every public method of ProgressBar / MultiProgress is a
    SINGLE outermost critical section over the bar mutex / the MultiState lock - one bracket from
    the mutation through the paint - except the calls listed in [Brackets.allowed_sections] with
    the number of sections they have (adding a bar = two steps, dropping the last handle, the
    ticker loop).  A change that splits a bracket (e.g. releasing the bar mutex in the middle of
    `remove`) breaks this obligation. *)
From IndModel Require Import Locks Brackets.
From IndGen Require Import LockFootprints.
From IndProofs Require Import BracketsProofs.
From Coq Require Import String.
Theorem C02_atomic_brackets_generated : forall name fp,
  In (name, fp) all_footprints -> (sections fp <= allowed_sections name)%nat.
Proof. exact generated_brackets. Qed.
Print Assumptions C02_atomic_brackets_generated.

Example C02_atomic_brackets_nonvacuous :
  In ("MultiProgress::remove"%string, [CAcq CBar; CAcq CMulti; CRel CMulti; CRel CBar]) all_footprints
  /\ sections [CAcq CBar; CAcq CMulti; CRel CMulti; CRel CBar] = 1%nat
  /\ sections [CAcq CBar; CRel CBar; CAcq CMulti; CRel CMulti; CAcq CBar; CRel CBar] = 3%nat.
Proof. exact generated_brackets_nonvacuous. Qed.
