(** C09 – Rate and ETA estimator laws.
    Only statements; every proof is [exact <lemma from IndProofs>].

    Model: IndModel.Estimator – one transcription of Estimator::{new,record,reset,steps_per_second},
    ProgressState::{per_sec,eta,duration,elapsed}, the position limiter and the ProgressBar entry
    points, generic in the arithmetic; [Rar] = exact reals with W t = (1/10)^(t/15); [FL.arp p] =
    binary64 (Flocq) with [powf] supplied as the function p.
    Vocabulary (all of it defined in IndModel.Estimator, last part of the file):
      W, secs d         the weight function; d nanoseconds in seconds
      ev, est_run       calls that reach the estimator: ERec pos t = Estimator::record,
                        ERst t pos = BarState::reset's estimator part (restart at position pos)
      hist_ok           monotonic clock (no call carries an instant before the previous one)
      segs_ok P         every segment the estimator ACCEPTS (steps and time both advanced) has a
                        rate satisfying P
      progress_seen e   a sample was accepted after the last (re)start (start_time < prev_time)
      steady_discount   1 - ((1 - w) / (1 - A w))^2, the stall discount of a steady stream
      stall_rate e x    the rate reported x seconds (real) after the last accepted sample
      run_state ops t0  bar and clock after the history [ops] of public ProgressBar calls / clock
                        advances on a bar created at t0; no_wrap = the u64 ns clock does not wrap
      bar_evs           the estimator calls this history makes (position limiter included)
      bar_points        the user-visible (position, instant) pairs of the calls of a history that
                        bring the estimator news (a tick / set_length / set_message that leaves
                        the position where the estimator's baseline already is, is not listed)
    Naming: [_refuted] = the clause as written is false on the faithful model (witness);
    [_partial] = the statement covers less than the property's clause (docs/C09.md says what);
    [_pre_56491a5] = regression statement about the function as it was before that fix: commit.
    The allowed axioms are the four of Coq's classical real numbers. *)
From IndModel Require Import Base Estimator.
From IndGen Require Import Constants.
From IndProofs Require Import EstimatorProofs EstimatorBarProofs EstimatorFloatProofs.
From Coq Require Import Reals ZArith NArith List.
From Flocq Require Import Core.Zaux Core.Raux IEEE754.BinarySingleNaN.
Import ListNotations.
Open Scope R_scope.

(** ** 0. The weight function *)
Theorem C09_weight_laws :
  (forall t, est_weight Rar t = W t) /\ W 0 = 1 /\ (forall a b, W (a + b) = W a * W b) /\
  (forall t, 0 < W t) /\ (forall t, 0 < t -> W t < 1).
Proof. exact (conj est_weight_R (conj W_0 (conj W_add (conj W_pos W_lt_1)))). Qed.
Print Assumptions C09_weight_laws.

(** every normaliser 1 - W(t) is positive strictly after the (re)start: no division by zero *)
Theorem C09_denominator_pos : forall t : N, (0 < t)%N -> 0 < 1 - W (secs t).
Proof. exact denominator_pos. Qed.
Print Assumptions C09_denominator_pos.

(** ** 1. Finite and non-negative
    Since fix 56491a5 (steps_per_second returns 0.0 when no time has passed since the restart) the
    clause holds at EVERY query instant not before the last call, the instant of a restart
    (creation, reset*, recorded backwards seek) included; the hypothesis "strictly after the last
    restart" of the earlier statements is gone.  The only divisions executed are by the
    normaliser 1 - W(now - restart), which is positive whenever it is not zero. *)
(** estimator level: every history of record / restart calls under a monotonic clock *)
Theorem C09_finite_nonneg : forall evs t0 now,
  let e := est_run evs (est_new Rar t0) in
  hist_ok evs (est_new Rar t0) ->
  (prev_time e <= now)%N ->
  0 <= est_sps Rar e now /\
  ((start_time e < now)%N -> 0 < 1 - W (secs (now - start_time e))) /\
  ((now <= start_time e)%N -> est_sps Rar e now = 0).
Proof. exact finite_nonneg. Qed.
Print Assumptions C09_finite_nonneg.

(** bar level: every history of public calls (set_position, inc, dec, update, tick, set_length,
    unset_length, reset_eta, reset_elapsed, reset, finish, abandon, clock advances): eta() and
    duration() return (Duration::new does not panic); per_sec >= 0 for a bar in progress (= 0 at
    the restart instant), and for a finished bar strictly after its start (pos / elapsed) *)
Theorem C09_bar_finite_nonneg : forall len t0 ops, no_wrap ops t0 ->
  let b := fst (run_state Rar ops t0 (bar_new Rar len t0)) in
  let now := snd (run_state Rar ops t0 (bar_new Rar len t0)) in
  (exists d, bar_eta Rar b now = Some d) /\
  (exists d, bar_duration Rar b now = Some d) /\
  (b_done b = false -> 0 <= bar_per_sec Rar b now) /\
  (b_done b = false -> (now <= start_time (b_est b))%N -> bar_per_sec Rar b now = 0) /\
  ((b_started b < now)%N -> 0 < secs (now - b_started b) /\ 0 <= bar_per_sec Rar b now) /\
  ((start_time (b_est b) < now)%N -> 0 < 1 - W (secs (now - start_time (b_est b)))).
Proof. exact bar_finite_nonneg. Qed.
Print Assumptions C09_bar_finite_nonneg.

(** REGRESSION statements about the code before fix 56491a5 ([est_sps_pre_56491a5], the same
    function without the early return).  At the instant of a recorded backwards seek - strictly
    after creation, no reset before it - the old function divides by the normaliser 1 - W(0) = 0;
    the current one reports 0.  History of public calls: create at 0; update(set_pos 10) at 1 s;
    update(set_pos 5) at 2 s; query at 2 s *)
Theorem C09_bar_rewind_instant_pre_56491a5 :
  exists len t0 ops,
    no_wrap ops t0 /\ forallb (fun o => negb (is_reset_op o)) ops = true /\
    let b := fst (run_state Rar ops t0 (bar_new Rar len t0)) in
    let now := snd (run_state Rar ops t0 (bar_new Rar len t0)) in
    b_done b = false /\ (t0 < now)%N /\ (b_started b < now)%N /\
    1 - W (secs (now - start_time (b_est b))) = 0 /\
    est_sps_pre_56491a5 Rar (b_est b) now =
      sps_R (sm (b_est b)) (dsm (b_est b)) (W (secs (now - prev_time (b_est b)))) 0 /\
    bar_per_sec Rar b now = 0.
Proof. exact bar_rewind_instant_pre_56491a5. Qed.
Print Assumptions C09_bar_rewind_instant_pre_56491a5.

(** the same history on the binary64 (Flocq) instance, with the values 0.1f64.powf returns for the
    two exponents that occur: the old function yields NaN, the current one +0.0, and the whole
    observation is (per_sec 0.0, eta 0, duration = elapsed = 2 s) *)
Theorem C09_f64_rewind_instant_nan_pre_56491a5 :
  exists tbl len t0 ops,
    table_ok tbl = true /\ forallb (fun o => negb (is_reset_op o)) ops = true /\
    let b := fst (run_state (FL.ar tbl) ops t0 (bar_new (FL.ar tbl) len t0)) in
    let now := snd (run_state (FL.ar tbl) ops t0 (bar_new (FL.ar tbl) len t0)) in
    (t0 < now)%N /\ b_done b = false /\
    FL.to_bits (est_sps_pre_56491a5 (FL.ar tbl) (b_est b) now) = NAN_BITS /\
    FL.to_bits (est_sps (FL.ar tbl) (b_est b) now) = 0%N /\
    run_obs (FL.ar tbl) FL.to_bits len t0 ops = [(0, Some 0, Some 2000000000, 2000000000)%N].
Proof. exact fl_rewind_instant_pre_56491a5. Qed.
Print Assumptions C09_f64_rewind_instant_nan_pre_56491a5.

(** strictly after the restart the two functions agree (over R) *)
Theorem C09_fix_56491a5_changes_restart_instant_only : forall (e : est R) now,
  (start_time e < now)%N -> est_sps Rar e now = est_sps_pre_56491a5 Rar e now.
Proof. exact est_sps_old_new. Qed.
Print Assumptions C09_fix_56491a5_changes_restart_instant_only.

(** the observations a run records are exactly queries after prefixes of the history, so the
    bar-level theorems (stated for the query after an arbitrary history) cover every observation;
    holds for every arithmetic, also the binary64 ones used by the correspondence *)
Theorem C09_observations_are_prefix_queries : forall (A : arith) ops now (b : bar (T A)) o,
  In o (snd (bar_run A ops now b)) ->
  exists pre post, ops = pre ++ Query :: post /\
    o = bar_query A (fst (run_state A pre now b)) (snd (run_state A pre now b)).
Proof. exact bar_run_obs. Qed.
Print Assumptions C09_observations_are_prefix_queries.

(** what the estimator sees of a bar history: the event list [bar_evs], under a monotonic clock *)
Theorem C09_bar_history_events : forall len t0 ops, no_wrap ops t0 ->
  let b := fst (run_state Rar ops t0 (bar_new Rar len t0)) in
  let now := snd (run_state Rar ops t0 (bar_new Rar len t0)) in
  BInv now b /\
  b_est b = est_run (bar_evs ops t0 (bar_new Rar len t0)) (est_new Rar t0) /\
  hist_ok (bar_evs ops t0 (bar_new Rar len t0)) (est_new Rar t0).
Proof. exact bar_after. Qed.
Print Assumptions C09_bar_history_events.

(** ** 2. Steady progress
    "The reported rate equals the true rate" read at EVERY query instant after the last update is
    refuted: between samples the code discounts the time since the last sample (the same
    mechanism that makes the rate decay while progress stalls).  What holds at every query
    instant is the explicit formula r * steady_discount A w with A = W(last sample - restart),
    w = W(now - last sample); the discount is in [0,1] and equals 1 exactly at the instant of the
    last accepted sample. *)
Theorem C09_steady_every_instant : forall r evs t0 now,
  let e := est_run evs (est_new Rar t0) in
  hist_ok evs (est_new Rar t0) ->
  segs_ok (fun x => x = r) evs (est_new Rar t0) ->
  (prev_time e <= now)%N -> (start_time e < now)%N ->
  let A := W (secs (prev_time e - start_time e)) in
  let w := W (secs (now - prev_time e)) in
  est_sps Rar e now = r * steady_discount A w /\
  0 <= steady_discount A w <= 1 /\
  (steady_discount A w = 1 <-> now = prev_time e).
Proof. exact steady_every_instant. Qed.
Print Assumptions C09_steady_every_instant.

(** bar level, hypothesis on the estimator calls the history makes *)
Theorem C09_bar_steady_every_instant : forall r len t0 ops now', no_wrap ops t0 ->
  segs_ok (fun x => x = r) (bar_evs ops t0 (bar_new Rar len t0)) (est_new Rar t0) ->
  let b := fst (run_state Rar ops t0 (bar_new Rar len t0)) in
  let now := snd (run_state Rar ops t0 (bar_new Rar len t0)) in
  b_done b = false -> (now <= now')%N -> (start_time (b_est b) < now')%N ->
  let A := W (secs (prev_time (b_est b) - start_time (b_est b))) in
  let w := W (secs (now' - prev_time (b_est b))) in
  bar_per_sec Rar b now' = r * steady_discount A w /\
  0 <= steady_discount A w <= 1 /\
  (steady_discount A w = 1 <-> now' = prev_time (b_est b)).
Proof. exact bar_steady_every_instant. Qed.
Print Assumptions C09_bar_steady_every_instant.

(** bar level, hypothesis on what the USER sees: the position right after every call that can
    reach the estimator (set_position, inc, dec, update, tick, set_length, unset_length, reset_eta,
    reset_elapsed, reset), paired with the instant of the call, lies on the line pos = r * t + c
    through (0, creation) - EXCEPT calls that leave the position where the estimator's baseline
    already is (tick / set_length / set_message after a recorded update: they may be interleaved
    anywhere, [record] ignores them); no matter how often or how irregularly the calls arrive and
    which of them the position limiter lets through *)
Theorem C09_bar_steady_line : forall r c len t0 ops now', no_wrap ops t0 ->
  on_line r c 0 t0 ->
  Forall (pt_on_line r c) (bar_points ops t0 (bar_new Rar len t0)) ->
  let b := fst (run_state Rar ops t0 (bar_new Rar len t0)) in
  let now := snd (run_state Rar ops t0 (bar_new Rar len t0)) in
  b_done b = false -> (now <= now')%N -> (start_time (b_est b) < now')%N ->
  let A := W (secs (prev_time (b_est b) - start_time (b_est b))) in
  let w := W (secs (now' - prev_time (b_est b))) in
  bar_per_sec Rar b now' = r * steady_discount A w /\
  0 <= steady_discount A w <= 1 /\
  (steady_discount A w = 1 <-> now' = prev_time (b_est b)).
Proof. exact bar_steady_line. Qed.
Print Assumptions C09_bar_steady_line.

(** the literal reading is REFUTED: 15 steps in 15 s (rate 1), queried 15 s later: 21/121 < 1 *)
Theorem C09_steady_between_samples_refuted :
  exists r evs t0 now,
    let e := est_run evs (est_new Rar t0) in
    hist_ok evs (est_new Rar t0) /\ segs_ok (fun x => x = r) evs (est_new Rar t0) /\
    (prev_time e <= now)%N /\ (start_time e < now)%N /\ est_sps Rar e now < r.
Proof. exact steady_between_samples_refuted. Qed.
Print Assumptions C09_steady_between_samples_refuted.

Theorem C09_bar_steady_between_samples_refuted :
  exists r c len t0 ops,
    no_wrap ops t0 /\ on_line r c 0 t0 /\
    Forall (pt_on_line r c) (bar_points ops t0 (bar_new Rar len t0)) /\
    let b := fst (run_state Rar ops t0 (bar_new Rar len t0)) in
    let now := snd (run_state Rar ops t0 (bar_new Rar len t0)) in
    b_done b = false /\ (start_time (b_est b) < now)%N /\ bar_per_sec Rar b now < r.
Proof. exact bar_steady_between_samples_refuted. Qed.
Print Assumptions C09_bar_steady_between_samples_refuted.

(** exactness AT THE INSTANT OF THE LAST ACCEPTED SAMPLE only (corollaries of the above) *)
Theorem C09_steady_exact_partial : forall r evs t0,
  let e := est_run evs (est_new Rar t0) in
  hist_ok evs (est_new Rar t0) ->
  segs_ok (fun x => x = r) evs (est_new Rar t0) ->
  (start_time e < prev_time e)%N ->
  est_sps Rar e (prev_time e) = r.
Proof. exact steady_exact. Qed.
Print Assumptions C09_steady_exact_partial.

(** the same with the hypothesis on the samples: all reported (position, instant) pairs – restarts
    included – lie on one line pos = r * t + c *)
Theorem C09_steady_line_partial : forall r c evs t0,
  let e := est_run evs (est_new Rar t0) in
  on_line r c 0 t0 -> Forall (ev_on_line r c) evs -> hist_ok evs (est_new Rar t0) ->
  (start_time e < prev_time e)%N ->
  est_sps Rar e (prev_time e) = r.
Proof. exact steady_line. Qed.
Print Assumptions C09_steady_line_partial.

Theorem C09_bar_steady_partial : forall r len t0 ops, no_wrap ops t0 ->
  segs_ok (fun x => x = r) (bar_evs ops t0 (bar_new Rar len t0)) (est_new Rar t0) ->
  let b := fst (run_state Rar ops t0 (bar_new Rar len t0)) in
  let now := snd (run_state Rar ops t0 (bar_new Rar len t0)) in
  b_done b = false -> (start_time (b_est b) < prev_time (b_est b))%N -> now = prev_time (b_est b) ->
  bar_per_sec Rar b now = r.
Proof. exact bar_steady. Qed.
Print Assumptions C09_bar_steady_partial.

(** ** 3. Bounds: between zero and the largest rate of an accepted segment, and below the
    envelope 2*M*W(stall) *)
Theorem C09_bounded : forall M evs t0 now,
  let e := est_run evs (est_new Rar t0) in
  0 <= M ->
  hist_ok evs (est_new Rar t0) ->
  segs_ok (fun x => x <= M) evs (est_new Rar t0) ->
  (prev_time e <= now)%N -> (start_time e < now)%N ->
  0 <= est_sps Rar e now <= M /\
  est_sps Rar e now <= 2 * M * W (secs (now - prev_time e)).
Proof. exact EstimatorProofs.bounded. Qed.
Print Assumptions C09_bounded.

Theorem C09_bar_bounded : forall M len t0 ops, 0 <= M -> no_wrap ops t0 ->
  segs_ok (fun x => x <= M) (bar_evs ops t0 (bar_new Rar len t0)) (est_new Rar t0) ->
  let b := fst (run_state Rar ops t0 (bar_new Rar len t0)) in
  let now := snd (run_state Rar ops t0 (bar_new Rar len t0)) in
  b_done b = false -> (start_time (b_est b) < now)%N ->
  0 <= bar_per_sec Rar b now <= M /\
  bar_per_sec Rar b now <= 2 * M * W (secs (now - prev_time (b_est b))).
Proof. exact bar_bounded. Qed.
Print Assumptions C09_bar_bounded.

(** ** 4. Decay while progress stalls *)
(** "decays monotonically while progress stalls" is REFUTED (finding D11): history of public calls
    create at 0; update(set_pos 15) at 15 s; update(set_pos 1515) at 30 s; then nothing – the
    rate reported 0.5 s into the stall is larger than the rate at the last sample *)
Theorem C09_bar_stall_decay_refuted :
  exists len t0 ops gap,
    no_wrap ops t0 /\
    let b := fst (run_state Rar ops t0 (bar_new Rar len t0)) in
    let now := snd (run_state Rar ops t0 (bar_new Rar len t0)) in
    b_done b = false /\ (start_time (b_est b) < now)%N /\ (prev_time (b_est b) <= now)%N /\
    bar_per_sec Rar b now < bar_per_sec Rar b (now + gap).
Proof. exact bar_stall_decay_refuted. Qed.
Print Assumptions C09_bar_stall_decay_refuted.

Theorem C09_stall_decay_refuted :
  exists evs t0 now1 now2,
    let e := est_run evs (est_new Rar t0) in
    hist_ok evs (est_new Rar t0) /\
    (prev_time e <= now1)%N /\ (now1 < now2)%N /\ (start_time e < now1)%N /\
    est_sps Rar e now1 < est_sps Rar e now2.
Proof. exact stall_decay_refuted. Qed.
Print Assumptions C09_stall_decay_refuted.

(** the clause holds outside the class Known = { smoothed > double_smoothed at the last sample } *)
Theorem C09_decay_when_d_ge_s : forall evs t0 now1 now2,
  let e := est_run evs (est_new Rar t0) in
  hist_ok evs (est_new Rar t0) ->
  sm e <= dsm e ->
  (prev_time e <= now1)%N -> (now1 <= now2)%N -> (start_time e < now1)%N ->
  est_sps Rar e now2 <= est_sps Rar e now1.
Proof. exact decay_when_d_ge_s. Qed.
Print Assumptions C09_decay_when_d_ge_s.

Theorem C09_bar_decay_when_d_ge_s : forall len t0 ops now1 now2, no_wrap ops t0 ->
  let b := fst (run_state Rar ops t0 (bar_new Rar len t0)) in
  let now := snd (run_state Rar ops t0 (bar_new Rar len t0)) in
  b_done b = false -> sm (b_est b) <= dsm (b_est b) ->
  (now <= now1)%N -> (now1 <= now2)%N -> (start_time (b_est b) < now1)%N ->
  bar_per_sec Rar b now2 <= bar_per_sec Rar b now1.
Proof. exact bar_decay. Qed.
Print Assumptions C09_bar_decay_when_d_ge_s.

(** the class Known characterises the rise exactly: after progress has been seen, the rate
    reported x seconds into a stall exceeds the rate at the last sample for SOME real x > 0
    iff smoothed > double_smoothed there (x ranges over the reals: at nanosecond granularity a
    margin smoothed - double_smoothed below the resolution produces no rise at any clock reading) *)
Theorem C09_stall_rise_iff : forall evs t0,
  let e := est_run evs (est_new Rar t0) in
  hist_ok evs (est_new Rar t0) -> progress_seen e ->
  ((exists x, 0 < x /\ stall_rate e 0 < stall_rate e x) <-> dsm e < sm e).
Proof. exact stall_rise_iff. Qed.
Print Assumptions C09_stall_rise_iff.

(** [stall_rate] is what a query reports *)
Theorem C09_stall_rate_is_query : forall (e : est R) now,
  wf e -> (prev_time e <= now)%N -> (start_time e < now)%N ->
  est_sps Rar e now = stall_rate e (secs (now - prev_time e)).
Proof. exact stall_rate_spec. Qed.
Print Assumptions C09_stall_rate_is_query.

(** the class Known is entered by an acceleration: steady progress at r1 followed by one faster
    segment leaves smoothed > double_smoothed *)
Theorem C09_acceleration_enters_known_class : forall r1 (e : est R) new now,
  wf e -> J_steady r1 e -> (start_time e < prev_time e)%N ->
  (prev_steps e < new)%N -> (prev_time e < now)%N ->
  r1 < seg_rate e new now ->
  dsm (est_record Rar new now e) < sm (est_record Rar new now e).
Proof. exact accel_breaks_condition. Qed.
Print Assumptions C09_acceleration_enters_known_class.

(** "towards zero" holds unconditionally: for every eps an explicit stall length after which the
    reported rate stays below eps *)
Theorem C09_decay_limit : forall M evs t0 eps,
  let e := est_run evs (est_new Rar t0) in
  0 <= M -> 0 < eps ->
  hist_ok evs (est_new Rar t0) ->
  segs_ok (fun x => x <= M) evs (est_new Rar t0) ->
  exists X, forall now, (prev_time e <= now)%N -> (start_time e < now)%N ->
    X <= secs (now - prev_time e) -> est_sps Rar e now <= eps.
Proof. exact decay_limit. Qed.
Print Assumptions C09_decay_limit.

Theorem C09_bar_decay_limit : forall M len t0 ops eps, 0 <= M -> 0 < eps -> no_wrap ops t0 ->
  segs_ok (fun x => x <= M) (bar_evs ops t0 (bar_new Rar len t0)) (est_new Rar t0) ->
  let b := fst (run_state Rar ops t0 (bar_new Rar len t0)) in
  let now := snd (run_state Rar ops t0 (bar_new Rar len t0)) in
  b_done b = false ->
  exists X, forall now', (now <= now')%N -> (start_time (b_est b) < now')%N ->
    X <= secs (now' - prev_time (b_est b)) -> bar_per_sec Rar b now' <= eps.
Proof. exact bar_decay_limit. Qed.
Print Assumptions C09_bar_decay_limit.

(** ** 5. Forgetting
    WHAT is forgotten is the ESTIMATOR's past.  [C09_reset_forgets], [C09_rewind_forgets_partial],
    [C09_rewind_is_restart] and [C09_estimator_forgets_after_restart] are DEFINITIONAL (+ congruence):
    [est_reset] overwrites both averages and both instants ([bar_reset_est] also the baseline), so
    the state after a restart does not mention the old estimator.  What ties them to the code is
    the bit-exact correspondence and the fresh-twin oracle; [C09_restart_is_fresh] and
    [C09_translation_invariant] carry the proof content.
    WHICH later public calls reach the estimator still depends on the POSITION LIMITER
    (AtomicPosition::allow), whose state is not part of the estimator: reset_eta, reset_elapsed and a
    backwards seek do not touch it at all (BarState::reset, state.rs:74-98); reset() calls
    AtomicPosition::reset (state.rs:599-603), which zeroes the position and moves the limiter's
    [prev] to the reset instant but keeps its bucket ([capacity]).  So at the level of public calls
    the limiter state is part of what must agree ([same_but_est], [C09_bar_forgets_given_same_limiter]),
    and without that agreement the past leaks ([C09_bar_limiter_leak_refuted]). *)
(** estimator level.  ARBITRARY estimator states e1 e2, the same restart x (reset_eta / reset_elapsed /
    reset, or a record below both baselines = a recorded backwards seek), the same suffix [sfx] of
    calls THAT REACHED THE ESTIMATOR (Estimator::record / BarState::reset events - NOT public calls):
    the states coincide, hence every later steps_per_second; two bars that are ASSUMED to carry
    these estimator states and to agree on position, length, status and start then report the
    same per_sec / eta / duration / elapsed.  Definitional + congruence; every arithmetic. *)
Theorem C09_estimator_forgets_after_restart : forall (A : arith) (e1 e2 : est (T A)) x sfx,
  is_restart x e1 -> is_restart x e2 ->
  est_runA A (x :: sfx) e1 = est_runA A (x :: sfx) e2 /\
  (forall q, est_sps A (est_runA A (x :: sfx) e1) q = est_sps A (est_runA A (x :: sfx) e2) q) /\
  (forall (b1 b2 : bar (T A)) q,
     b_est b1 = est_runA A (x :: sfx) e1 -> b_est b2 = est_runA A (x :: sfx) e2 ->
     b_pos b1 = b_pos b2 -> b_len b1 = b_len b2 -> b_done b1 = b_done b2 ->
     b_started b1 = b_started b2 ->
     bar_query A b1 q = bar_query A b2 q).
Proof. exact estimator_forgets_after_restart. Qed.
Print Assumptions C09_estimator_forgets_after_restart.

(** bar level, PUBLIC calls: two bars with arbitrary pasts (any two histories of public calls from
    any two creations) that stand at the same clock reading and agree on position, length,
    status, start AND the position limiter's state ([same_but_est]) make the same observations at
    every query of the same public continuation that begins with reset_eta / reset_elapsed / reset.
    Every arithmetic. *)
Theorem C09_bar_forgets_given_same_limiter : forall (A : arith) len1 len2 t1 t2 ops1 ops2 o sfx,
  let b1 := fst (run_state A ops1 t1 (bar_new A len1 t1)) in
  let b2 := fst (run_state A ops2 t2 (bar_new A len2 t2)) in
  let n1 := snd (run_state A ops1 t1 (bar_new A len1 t1)) in
  let n2 := snd (run_state A ops2 t2 (bar_new A len2 t2)) in
  n1 = n2 -> o = ResetEta \/ o = ResetElapsed \/ o = ResetAll -> same_but_est A b1 b2 ->
  snd (bar_run A (o :: sfx) n1 b1) = snd (bar_run A (o :: sfx) n2 b2).
Proof. exact bar_forgets_given_same_limiter. Qed.
Print Assumptions C09_bar_forgets_given_same_limiter.

(** REFUTED without the agreement on the limiter (over R): bar A made ten set_position(5) calls at
    t = 1 us (bucket empty), bar B one; both get reset_eta at 2 us and inc(1) at 3 us.  They agree
    on position, length, status and start - but A's inc is refused by the limiter and never
    reaches the estimator (per_sec = 0) while B's is recorded (per_sec > 0) *)
Theorem C09_bar_limiter_leak_refuted :
  exists len t0,
    let bA := fst (run_state Rar leak_opsA t0 (bar_new Rar len t0)) in
    let bB := fst (run_state Rar leak_opsB t0 (bar_new Rar len t0)) in
    let nA := snd (run_state Rar leak_opsA t0 (bar_new Rar len t0)) in
    let nB := snd (run_state Rar leak_opsB t0 (bar_new Rar len t0)) in
    no_wrap leak_opsA t0 /\ no_wrap leak_opsB t0 /\ nA = nB /\
    b_pos bA = b_pos bB /\ b_len bA = b_len bB /\ b_done bA = b_done bB /\
    b_started bA = b_started bB /\ b_lim bA <> b_lim bB /\
    bar_per_sec Rar bA nA = 0 /\ 0 < bar_per_sec Rar bB nB.
Proof. exact bar_limiter_leak_refuted. Qed.
Print Assumptions C09_bar_limiter_leak_refuted.

(** reset_eta / reset_elapsed / reset: two bars that differ only in what their estimators have
    learned are EQUAL afterwards, hence so is every later observation of every continuation.
    Every arithmetic (also binary64).  Definitional (see above). *)
Theorem C09_reset_forgets : forall (A : arith) o now (b1 b2 : bar (T A)) rest,
  o = ResetEta \/ o = ResetElapsed \/ o = ResetAll ->
  same_but_est A b1 b2 ->
  bar_step A o now b1 = bar_step A o now b2 /\
  bar_run A (o :: rest) now b1 = bar_run A (o :: rest) now b2.
Proof. exact bar_reset_forgets. Qed.
Print Assumptions C09_reset_forgets.

(** a RECORDED backwards seek (update(set_pos p) always reaches the estimator).  Partial: a
    set_position/dec that the position limiter refuses and that is overtaken by forward progress
    before the next accepted call never reaches the estimator and is not forgotten (docs/C09.md,
    Interpretations) *)
Theorem C09_rewind_forgets_partial : forall (A : arith) p now (b1 b2 : bar (T A)) rest,
  (p < prev_steps (b_est b1))%N -> (p < prev_steps (b_est b2))%N ->
  same_but_est A b1 b2 ->
  bar_step A (UpdPos p) now b1 = bar_step A (UpdPos p) now b2 /\
  bar_run A (UpdPos p :: rest) now b1 = bar_run A (UpdPos p :: rest) now b2.
Proof. exact bar_rewind_forgets. Qed.
Print Assumptions C09_rewind_forgets_partial.

Theorem C09_rewind_is_restart : forall new now (e : est R), (new < prev_steps e)%N ->
  est_record Rar new now e = bar_reset_est Rar now new e.
Proof. exact rewind_is_restart. Qed.
Print Assumptions C09_rewind_is_restart.

(** after a restart at position [pos] every later estimate equals that of a NEW estimator created
    at that instant and fed the same updates counted from [pos] *)
Theorem C09_restart_is_fresh : forall now pos (e : est R) evs q,
  est_run (map (shift_ev pos) evs) (bar_reset_est Rar now pos e) =
    est_shift pos (est_run evs (est_new Rar now)) /\
  est_sps Rar (est_run (map (shift_ev pos) evs) (bar_reset_est Rar now pos e)) q =
    est_sps Rar (est_run evs (est_new Rar now)) q.
Proof. exact restart_is_fresh. Qed.
Print Assumptions C09_restart_is_fresh.

(** translation invariance in the positions, for every arithmetic: makes the harness's "fresh
    twin" comparison bit-exact *)
Theorem C09_translation_invariant : forall (A : arith) p new now (e : est (T A)),
  est_record A (new + p) now (est_shift p e) = est_shift p (est_record A new now e).
Proof. exact est_record_shift. Qed.
Print Assumptions C09_translation_invariant.

(** ** 6. eta and duration *)
(** zero when finished, when the length is unknown, when no progress has been seen (rate 0);
    every arithmetic *)
Theorem C09_eta_zero_cases : forall (A : arith) (b : bar (T A)) now,
  b_done b = true \/ b_len b = None \/ is_zero A (est_sps A (b_est b) now) = true ->
  bar_eta A b now = Some 0%N.
Proof. exact eta_zero_cases. Qed.
Print Assumptions C09_eta_zero_cases.

(** the third case IS "no progress has been seen": over R the rate is zero exactly when no sample
    was accepted since the last (re)start, and positive as soon as one was *)
Theorem C09_rate_zero_iff_no_progress : forall evs t0 now,
  let e := est_run evs (est_new Rar t0) in
  hist_ok evs (est_new Rar t0) ->
  (prev_time e <= now)%N -> (start_time e < now)%N ->
  (progress_seen e -> 0 < est_sps Rar e now) /\
  (~ progress_seen e -> est_sps Rar e now = 0) /\
  (est_sps Rar e now = 0 <-> ~ progress_seen e).
Proof. exact rate_zero_iff_no_progress. Qed.
Print Assumptions C09_rate_zero_iff_no_progress.

(** what [progress_seen] means call by call: true after an accepted sample, unchanged by an
    ignored call, false after every restart (reset*, recorded backwards seek) *)
Theorem C09_progress_seen_step : forall x (e : est R), wf e ->
  (progress_seen (est_ev x e) <->
   match x with
   | ERec new now =>
       ((prev_steps e < new)%N /\ (prev_time e < now)%N) \/
       ((prev_steps e <= new)%N /\ (new = prev_steps e \/ (now <= prev_time e)%N) /\ progress_seen e)
   | ERst _ _ => False
   end).
Proof. exact progress_seen_step. Qed.
Print Assumptions C09_progress_seen_step.

Theorem C09_bar_rate_zero_iff_no_progress : forall len t0 ops now', no_wrap ops t0 ->
  let b := fst (run_state Rar ops t0 (bar_new Rar len t0)) in
  let now := snd (run_state Rar ops t0 (bar_new Rar len t0)) in
  b_done b = false -> (now <= now')%N -> (start_time (b_est b) < now')%N ->
  (progress_seen (b_est b) -> 0 < bar_per_sec Rar b now') /\
  (bar_per_sec Rar b now' = 0 <-> ~ progress_seen (b_est b)) /\
  (~ progress_seen (b_est b) -> bar_eta Rar b now' = Some 0%N).
Proof. exact bar_rate_zero_iff_no_progress. Qed.
Print Assumptions C09_bar_rate_zero_iff_no_progress.

(** otherwise eta = (len - pos, saturating) / rate seconds, truncated to whole nanoseconds;
    whole seconds saturate at u64::MAX; never a panic *)
Theorem C09_eta_formula : forall (b : bar R) now l,
  b_done b = false -> b_len b = Some l -> 0 < est_sps Rar (b_est b) now ->
  let x := IZR (Z.of_N (l - b_pos b)) / est_sps Rar (b_est b) now in
  0 <= x /\
  (x < IZR (Z.of_N U64MAX) + 1 ->
     bar_eta Rar b now = Some (Z.to_N (Zfloor (x * 1000000000)))) /\
  (IZR (Z.of_N U64MAX) + 1 <= x ->
     exists d, bar_eta Rar b now = Some d /\ (U64MAX * NS_PER_SEC <= d)%N).
Proof. exact eta_formula_R. Qed.
Print Assumptions C09_eta_formula.

(** duration = elapsed + eta (saturating at Duration::MAX), 0 when finished / length unknown;
    every arithmetic *)
Theorem C09_duration_sum : forall (A : arith) (b : bar (T A)) now,
  bar_duration A b now =
  match b_len b with
  | None => Some 0%N
  | Some _ => if b_done b then Some 0%N
              else option_map (fun eta => N.min DUR_MAX (bar_elapsed A b now + eta)) (bar_eta A b now)
  end.
Proof. exact duration_sum_gen. Qed.
Print Assumptions C09_duration_sum.

(** ** 7. binary64 artefact: the rate underflows to exactly 0 after a long stall
    Over R the rate stays positive once progress has been seen (section 6).  In binary64 the
    weight 0.1^(x/15) of a stall of x seconds leaves the normal range at x = 4615 s (below 2^-1022:
    the products with the averages are computed with gradual underflow and may be flushed to 0)
    and is below half the smallest subnormal from x = 4855 s on (every round-to-nearest powf
    returns 0); then per_sec() = 0 and eta() = 0 although progress has been seen. *)
Theorem C09_weight_underflow_thresholds : forall t : N,
  ((STALL_ZERO_NS <= t)%N ->
     0 < W (secs t) < bpow radix2 (-1075) /\ RN64 (W (secs t)) = 0) /\
  ((t <= STALL_ZERO_NS - 1000000000)%N -> bpow radix2 (-1075) < W (secs t)) /\
  ((STALL_SUBNORMAL_NS <= t)%N -> W (secs t) < bpow radix2 (-1022)) /\
  ((t <= STALL_SUBNORMAL_NS - 1000000000)%N -> bpow radix2 (-1022) < W (secs t)).
Proof. exact weight_underflow. Qed.
Print Assumptions C09_weight_underflow_thresholds.

(** binary64 (Flocq) instance, any powf: if powf returns +0 for both ages, then whatever the
    estimator has learned (finite averages) the rate is a zero and eta() returns 0 *)
Theorem C09_f64_rate_zero_when_weight_zero : forall p (b : bar FL.F) now,
  is_finite (sm (b_est b)) = true -> is_finite (dsm (b_est b)) = true ->
  est_weight (FL.arp p) (dur_secs (FL.arp p) (since now (prev_time (b_est b)))) = B754_zero false ->
  est_weight (FL.arp p) (dur_secs (FL.arp p) (since now (start_time (b_est b)))) = B754_zero false ->
  is_zero (FL.arp p) (est_sps (FL.arp p) (b_est b) now) = true /\
  bar_eta (FL.arp p) b now = Some 0%N.
Proof. exact fl_zero_when_weight_zero. Qed.
Print Assumptions C09_f64_rate_zero_when_weight_zero.

(** ** 8. binary64: the rate is finite and non-negative (float-side counterpart of section 1)
    For the Flocq binary64 instance with ANY powf that returns weights ([pow_ok]: finite values in
    [0,1], below 1 for exponents >= 2^-34), arguments that fit u64 as in the Rust code, no
    assumption on the clock: per_sec() is a finite, non-negative binary64 number (no NaN, no
    infinity) at EVERY query instant - the instant of a restart included since fix 56491a5 - and
    for a finished bar strictly after its start.  The proof carries the invariant
    smoothed <= 2^95, double_smoothed <= 2^149 through every record. *)
Theorem C09_f64_finite_nonneg : forall p evs t0 now,
  pow_ok p -> Forall ev_u64 evs -> (now < U64)%N ->
  let e := est_runA (FL.arp p) evs (est_new (FL.arp p) t0) in
  is_finite (est_sps (FL.arp p) e now) = true /\ 0 <= B2R (est_sps (FL.arp p) e now).
Proof. exact fl_history_finite_nonneg. Qed.
Print Assumptions C09_f64_finite_nonneg.

(** every history of public calls (set_position, inc, dec, update, tick, set_length, unset_length,
    reset_eta, reset_elapsed, reset, finish, abandon, clock advances) *)
Theorem C09_f64_bar_finite_nonneg : forall p len t0 ops,
  pow_ok p -> (t0 < U64)%N -> (forall l, len = Some l -> (l < U64)%N) -> Forall op_u64 ops ->
  let b := fst (run_state (FL.arp p) ops t0 (bar_new (FL.arp p) len t0)) in
  let now := snd (run_state (FL.arp p) ops t0 (bar_new (FL.arp p) len t0)) in
  (b_done b = true -> (b_started b < now)%N) ->
  is_finite (bar_per_sec (FL.arp p) b now) = true /\ 0 <= B2R (bar_per_sec (FL.arp p) b now).
Proof. exact fl_bar_finite_nonneg. Qed.
Print Assumptions C09_f64_bar_finite_nonneg.

(** eta() and duration() cannot panic in binary64: the conversion [secs_to_duration]
    ([s.trunc() as u64], [(s.fract() * 1e9) as u32], [Duration::new]; state.rs:692-696) is total
    on EVERY binary64 datum - NaN, +-infinity, negative, subnormal, huge - hence eta() and
    duration() return for every state of the bar, every clock reading and every powf (no
    hypothesis at all) *)
Theorem C09_f64_secs_to_duration_total : forall p (x : FL.F),
  exists d, secs_to_duration (FL.arp p) x = Some d.
Proof. exact fl_secs_to_duration_total. Qed.
Print Assumptions C09_f64_secs_to_duration_total.

Theorem C09_f64_eta_duration_total : forall p (b : bar FL.F) now,
  (exists d, bar_eta (FL.arp p) b now = Some d) /\
  (exists d, bar_duration (FL.arp p) b now = Some d).
Proof. exact fl_eta_duration_total. Qed.
Print Assumptions C09_f64_eta_duration_total.

(** ** Non-vacuity *)
(** a monotonic history with an acceleration (1/s for 15 s, then 100/s for 15 s): hypotheses of
    C09_finite_nonneg / C09_bounded / C09_decay_limit with M = 100 *)
Example C09_nonvacuous_bounded :
  hist_ok wit_evs (est_new Rar 0) /\ segs_ok (fun x => x <= 100) wit_evs (est_new Rar 0) /\
  est_run wit_evs (est_new Rar 0) = wit_e /\ est_sps Rar wit_e 30000000000 = 8199 / 99.
Proof. exact (conj wit_hist_ok (conj wit_segs_le_100 (conj wit_state wit_sps_value))). Qed.

(** the same as a history of public calls: hypotheses of the C09_bar_* theorems *)
Example C09_nonvacuous_bar :
  no_wrap wit_ops 0 /\
  (forall len, bar_evs wit_ops 0 (bar_new Rar len 0) = wit_evs) /\
  (forall len, snd (run_state Rar wit_ops 0 (bar_new Rar len 0)) = 30000000000%N) /\
  (forall len, b_est (fst (run_state Rar wit_ops 0 (bar_new Rar len 0))) = wit_e) /\
  (forall len, let b := fst (run_state Rar wit_ops 0 (bar_new Rar len 0)) in
     b_done b = false /\ b_len b = len /\ b_pos b = 1515%N /\ b_started b = 0%N).
Proof.
  exact (conj wit_ops_no_wrap (conj wit_ops_evs (conj wit_ops_clock (conj wit_ops_est wit_ops_fields)))).
Qed.

(** steady progress with an irregular cadence (gaps 1.5 s, 0.5 s, 4.5 s, 0.5 s on pos = 2 t):
    hypotheses of C09_steady_line_partial / C09_steady_exact_partial / C09_steady_every_instant *)
Example C09_nonvacuous_steady :
  (on_line 2 0 0 0 /\ Forall (ev_on_line 2 0) line_evs) /\
  hist_ok line_evs (est_new Rar 0) /\
  prev_time (est_run line_evs (est_new Rar 0)) = 7000000000%N /\
  start_time (est_run line_evs (est_new Rar 0)) = 0%N.
Proof. exact (conj line_evs_on_line line_evs_run). Qed.

(** hypotheses of C09_bar_steady_partial / C09_bar_steady_every_instant: one public update 15 s
    after creation, r = 1 *)
Example C09_nonvacuous_bar_steady : forall len,
  no_wrap steady_ops 0 /\
  segs_ok (fun x => x = 1) (bar_evs steady_ops 0 (bar_new Rar len 0)) (est_new Rar 0) /\
  let b := fst (run_state Rar steady_ops 0 (bar_new Rar len 0)) in
  let now := snd (run_state Rar steady_ops 0 (bar_new Rar len 0)) in
  b_done b = false /\ (start_time (b_est b) < prev_time (b_est b))%N /\ now = prev_time (b_est b).
Proof. exact steady_ops_example. Qed.

(** the decay condition double_smoothed >= smoothed is met with positive rates (steady progress) *)
Example C09_nonvacuous_decay_condition :
  est_run [ERec 15 15000000000] (est_new Rar 0) = (mkEst (9 / 10) (9 / 10) 15%N 15000000000%N 0%N : est R).
Proof. exact wit1_state. Qed.

(** [pow_ok] is satisfiable: the step function "1.0 at exponent 0, 0.5 above" *)
Example C09_nonvacuous_pow_ok : pow_ok pow_step.
Proof. exact pow_ok_step. Qed.

(** a steady stream (rate 1) with a tick() interleaved in the middle of a gap: the tick is not
    among the points that have to lie on the line, the hypothesis of C09_bar_steady_line holds *)
Example C09_nonvacuous_interleaved_tick : forall len,
  bar_points tick_wit_ops 0 (bar_new Rar len 0) = [(15, 15000000000); (30, 30000000000)]%N /\
  Forall (pt_on_line 1 0) (bar_points tick_wit_ops 0 (bar_new Rar len 0)).
Proof. exact tick_wit_points. Qed.

(** hypotheses of C09_bar_steady_line with THROTTLED calls: 1 step / us, 30 set_position calls
    1 us apart (the position limiter lets the burst of 10 through and refuses the next 20), one
    at 1 ms, a tick 0.5 us later: 31 listed points, all on pos = 10^6 t, only 12 estimator events
    (10 + 1 samples and the tick) *)
Example C09_nonvacuous_throttled_line : forall len,
  no_wrap thr_ops 0 /\ on_line 1000000 0 0 0 /\
  Forall (pt_on_line 1000000 0) (bar_points thr_ops 0 (bar_new Rar len 0)) /\
  length (bar_points thr_ops 0 (bar_new Rar len 0)) = 31%nat /\
  length (bar_evs thr_ops 0 (bar_new Rar len 0)) = 12%nat.
Proof. exact thr_example. Qed.

(** the decay condition with a STRICT margin (deceleration 100/s then 1/s): smoothed 9.9 <
    double_smoothed 18, hypotheses of C09_decay_when_d_ge_s *)
Example C09_nonvacuous_decay_condition_strict :
  hist_ok decel_evs (est_new Rar 0) /\
  est_run decel_evs (est_new Rar 0) = (mkEst (99 / 10) 18 1515%N 30000000000%N 0%N : est R) /\
  99 / 10 < 18.
Proof. exact decel_state. Qed.
