(** C18 - Terminal I/O failures never panic, poison or corrupt logical state.
    Only statements; every proof is [exact <lemma from IndProofs.SimProofs>].
    Model: coq/model/Sys.v; the fault oracle [fails : N -> bool] says which TermLike call (numbered
    over the whole run by [s_calls]) returns an I/O error; [emit] stops a draw at the first
    failing call (the `?` chain of DrawState::draw_to_term, src/draw_target.rs:505-590) and
    last_line_count is then not updated; closures of suspend ignore their own errors
    ([emit_each]).  The model has NO panic outcome for an I/O result: after fix 1c94c14 every
    io::Result is either discarded (`let _ =`) or returned (MultiProgress::println / clear);
    docs/C18.md enumerates the sites, harness/src/bin/c18.rs audits them statically and injects
    a failure at every k dynamically.  NOT in the model: the steady-tick thread (C08's domain) -
    "the ticker keeps working after the terminal recovers" is an oracle-only clause (c18.rs,
    class ticker-dead-after-io-error); the `if panicking() { return Ok(()) }` guards
    (src/draw_target.rs:519-521, src/multi.rs:282-284) and the move_cursor branch. *)
From IndModel Require Import Base Text Draw Sys SimSpec.
From IndProofs Require Import SimProofs SimStructProofs.
From Coq Require Import List NArith.
Import ListNotations.
Open Scope N_scope.

(** C18_state: for every history and EVERY fault oracle the logic of every bar (position,
    length, message, prefix, status, tick, template, on_finish, the position limiter state,
    alive) after EVERY op equals that of the fault-free run. *)
Theorem C18_state : forall W H fails s ops,
  run_logics W H fails s ops = run_logics W H no_faults s ops.
Proof. exact faults_do_not_touch_logic. Qed.
Print Assumptions C18_state.

(** the same per call, as an explicit function of the logic before the call: the fault oracle
    is not an argument of [lstep] *)
Theorem C18_state_step : forall W H fails s now o,
  bars_logic (fst (fst (step W H fails s now o))) = lstep now o (bars_logic s).
Proof. exact step_logic. Qed.
Print Assumptions C18_state_step.

(** C18_reports: a call returns Err exactly when it is MultiProgress::println / clear and one of
    the TermLike calls it made itself (numbers s_calls s .. s_calls s' - 1) failed; every other
    call returns (): the io::Result of its draw is discarded.
    FOR EVERY ERROR KIND: the oracle [fails : N -> bool] only says THAT call k fails; the
    io::ErrorKind is abstracted away because the code never inspects it - `grep -rn
    "ErrorKind\|\.kind()" /repo/src` is empty; every failure travels through `?` unchanged
    (src/draw_target.rs:528-614).  That this abstraction is sound for the code at hand is checked
    on the implementation: c18.rs rotates the injected kind through Interrupted / WouldBlock /
    BrokenPipe / Other / TimedOut / UnexpectedEof, including runs in which every flush() fails
    (a code change that treats one kind specially - e.g. retries Interrupted and then gives up
    with Ok - makes model and implementation disagree and trips the "Err iff" oracle). *)
Theorem C18_reports : forall W H fails s now o,
  let '(s', e, ok) := step W H fails s now o in
  (ok = false <->
   is_reporting o = true /\ exists k, s_calls s <= k < s_calls s' /\ fails k = true) /\
  (is_reporting o = true -> s_calls s <= s_calls s').
Proof. exact step_reports. Qed.
Print Assumptions C18_reports.

(** what a sequence of calls joined by `?` does under the oracle: the counter advances by the
    calls attempted, Ok iff none of them failed, everything before the first failure reaches
    the terminal (and nothing after it) *)
Theorem C18_emit : forall fails ops c e c' ok,
  emit fails c ops = (e, c', ok) ->
  c <= c' /\ c' <= c + N.of_nat (length ops) /\
  (ok = true -> e = ops /\ c' = c + N.of_nat (length ops)) /\
  (ok = false <-> exists k, c <= k < c' /\ fails k = true) /\
  (forall k, c <= k < c' - 1 -> fails k = false) /\
  e = firstn (length e) ops.
Proof. exact emit_spec. Qed.
Print Assumptions C18_emit.

(** C18_structure: [erase_io] forgets exactly last_line_count, cursor_below (of every terminal
    target), zombie_lines_count and the call counter.  Everything else - the logic of all bars,
    the refresh limiter AND the position limiter, target kinds, alignment, members, free list,
    ordering, orphan lines - after one call is independent of the fault oracle: two states that
    agree on the projection still agree after the same call under ANY two oracles. *)
Theorem C18_structure_step : forall W H f1 f2 s1 s2 now o,
  erase_io s1 = erase_io s2 ->
  erase_io (fst (fst (step W H f1 s1 now o))) = erase_io (fst (fst (step W H f2 s2 now o))).
Proof. exact step_structure. Qed.
Print Assumptions C18_structure_step.

(** ... hence over every history: the structure reached under faults is the structure of the
    fault-free run.  The non-I/O panic sites of the Rust code (ordering.first().unwrap(),
    position(..).unwrap(), members[idx], the "Draw state is inconsistent" assertion) read only
    this structure: a failing terminal cannot steer the code into one of them. *)
Theorem C18_structure : forall W H fails s ops,
  erase_io (fst (run W H fails s ops)) = erase_io (fst (run W H no_faults s ops)).
Proof. exact faults_do_not_touch_structure. Qed.
Print Assumptions C18_structure.

(** what the projection keeps *)
Theorem C18_structure_keeps : forall s,
  map logic_of (s_bars (erase_io s)) = bars_logic s /\
  map (fun b => match b_target b with TTerm t => Some (tt_rl t, tt_align t) | _ => None end) (s_bars (erase_io s))
  = map (fun b => match b_target b with TTerm t => Some (tt_rl t, tt_align t) | _ => None end) (s_bars s) /\
  ms_members (s_mp (erase_io s)) = ms_members (s_mp s) /\ ms_free (s_mp (erase_io s)) = ms_free (s_mp s) /\
  ms_order (s_mp (erase_io s)) = ms_order (s_mp s) /\ ms_orphans (s_mp (erase_io s)) = ms_orphans (s_mp s) /\
  ms_align (s_mp (erase_io s)) = ms_align (s_mp s) /\
  match ms_target (s_mp (erase_io s)), ms_target (s_mp s) with
  | TTerm a, TTerm b => tt_rl a = tt_rl b /\ tt_align a = tt_align b
  | THidden, THidden => True
  | TMulti i, TMulti j => i = j
  | _, _ => False
  end.
Proof. exact erase_io_keeps. Qed.
Print Assumptions C18_structure_keeps.

(** Non-vacuity: a history on a MultiProgress in which call 3 fails: mp.println reports the
    error, later calls work, positions are those of the fault-free run while the calls that
    reach the terminal differ. *)
Definition ex18_sys : sys :=
  mksys [new_bar (Some 10) FAndLeave [PMsg; PLit [58]; PPos] THidden 0]
        (new_ms (TTerm (new_ttarget None 0))) 0.
Definition ex18_ops : list (N * op) :=
  [(0, OInsert BEnd 0); (1000, OInc 0 3); (2000, OMPrintln [121]); (3000, OSetTabWidth 0);
   (4000, OMClear); (5000, OFinish 0 FAndLeave)].
Definition ex18_fails : N -> bool := fun k => (k =? 8) || (16 <=? k).

Example C18_nonvacuous :
  run_oks 20 10 ex18_fails ex18_sys ex18_ops = [true; true; false; true; false; true] /\
  run_oks 20 10 no_faults ex18_sys ex18_ops = [true; true; true; true; true; true] /\
  snd (run 20 10 ex18_fails ex18_sys ex18_ops) <> snd (run 20 10 no_faults ex18_sys ex18_ops) /\
  map (map l_pos) (run_logics 20 10 ex18_fails ex18_sys ex18_ops) = [[0]; [3]; [3]; [3]; [3]; [10]] /\
  fst (run 20 10 ex18_fails ex18_sys ex18_ops) <> fst (run 20 10 no_faults ex18_sys ex18_ops) /\
  erase_io (fst (run 20 10 ex18_fails ex18_sys ex18_ops)) = erase_io (fst (run 20 10 no_faults ex18_sys ex18_ops)).
Proof. vm_compute. repeat split; discriminate. Qed.
