(** C18 - Terminal I/O failures never panic, poison or corrupt logical state.
    Only statements; every proof is [exact <lemma from IndProofs.SimProofs>].
    Model: coq/model/Sys.v; the fault oracle [fails : N -> bool] says which TermLike call (numbered
    over the whole run by [s_calls]) returns an I/O error; [emit] stops a draw at the first
    failing call (the `?` chain of DrawState::draw_to_term, src/draw_target.rs:514-645); an
    aborted draw does not store the new last_line_count / cursor_below, but it DOES leave the
    old count capped at the terminal height ([term_draw]: `N.min (tt_n t) H` - since fix 7d42cff
    the code caps `*bar_count` in place, src/draw_target.rs:526-529, before its first fallible
    call); closures of suspend ignore their own errors
    ([emit_each]).  The model has NO panic outcome for an I/O result: after fix 1c94c14 every
    io::Result is either discarded (`let _ =`) or returned (MultiProgress::println / clear);
    docs/C18.md enumerates the sites, harness/src/bin/c18.rs audits them statically and injects
    a failure at every k dynamically.  NOT in the model: the steady-tick thread (C08's domain) -
    "the ticker keeps working after the terminal recovers" is an oracle-only clause (c18.rs,
    class ticker-dead-after-io-error); the `if panicking() { return Ok(()) }` guards
    (src/draw_target.rs:519-521, src/multi.rs:282-284) and the move_cursor branch. *)
From IndModel Require Import Base Text Draw Sys SimSpec.
From IndProofs Require Import SimProofs SimStructProofs.
From Coq Require Import List NArith.
Import ListNotations.
Open Scope N_scope.

(** C18_state: for every history and EVERY fault oracle the logic of every bar (position,
    length, message, prefix, status, tick, template, on_finish, the position limiter state,
    alive) after EVERY op equals that of the fault-free run. *)
Theorem C18_state : forall W H fails s ops,
  run_logics W H fails s ops = run_logics W H no_faults s ops.
Proof. exact faults_do_not_touch_logic. Qed.
Print Assumptions C18_state.

(** the same per call, as an explicit function of the logic before the call: the fault oracle
    is not an argument of [lstep] *)
Theorem C18_state_step : forall W H fails s now o,
  bars_logic (fst (fst (step W H fails s now o))) = lstep now o (bars_logic s).
Proof. exact step_logic. Qed.
Print Assumptions C18_state_step.

(** C18_reports: a call returns Err exactly when it is MultiProgress::println / clear and one of
    the TermLike calls it made itself (numbers s_calls s .. s_calls s' - 1) failed; every other
    call returns (): the io::Result of its draw is discarded.
    FOR EVERY ERROR KIND: the oracle [fails : N -> bool] only says THAT call k fails; the
    io::ErrorKind is abstracted away because the code never inspects it - `grep -rn
    "ErrorKind\|\.kind()" /repo/src` is empty; every failure travels through `?` unchanged
    (src/draw_target.rs:528-614).  That this abstraction is sound for the code at hand is checked
    on the implementation: c18.rs rotates the injected kind through Interrupted / WouldBlock /
    BrokenPipe / Other / TimedOut / UnexpectedEof, including runs in which every flush() fails
    (a code change that treats one kind specially - e.g. retries Interrupted and then gives up
    with Ok - makes model and implementation disagree and trips the "Err iff" oracle). *)
Theorem C18_reports : forall W H fails s now o,
  let '(s', e, ok) := step W H fails s now o in
  (ok = false <->
   is_reporting o = true /\ exists k, s_calls s <= k < s_calls s' /\ fails k = true) /\
  (is_reporting o = true -> s_calls s <= s_calls s').
Proof. exact step_reports. Qed.
Print Assumptions C18_reports.

(** what a sequence of calls joined by `?` does under the oracle: the counter advances by the
    calls attempted, Ok iff none of them failed, everything before the first failure reaches
    the terminal (and nothing after it) *)
Theorem C18_emit : forall fails ops c e c' ok,
  emit fails c ops = (e, c', ok) ->
  c <= c' /\ c' <= c + N.of_nat (length ops) /\
  (ok = true -> e = ops /\ c' = c + N.of_nat (length ops)) /\
  (ok = false <-> exists k, c <= k < c' /\ fails k = true) /\
  (forall k, c <= k < c' - 1 -> fails k = false) /\
  e = firstn (length e) ops.
Proof. exact emit_spec. Qed.
Print Assumptions C18_emit.

(** C18_structure: [erase_io] forgets exactly last_line_count, cursor_below (of every terminal
    target), zombie_lines_count and the call counter.  Everything else - the logic of all bars,
    the refresh limiter AND the position limiter, target kinds, alignment, members, free list,
    ordering, orphan lines - after one call is independent of the fault oracle: two states that
    agree on the projection still agree after the same call under ANY two oracles. *)
Theorem C18_structure_step : forall W H f1 f2 s1 s2 now o,
  erase_io s1 = erase_io s2 ->
  erase_io (fst (fst (step W H f1 s1 now o))) = erase_io (fst (fst (step W H f2 s2 now o))).
Proof. exact step_structure. Qed.
Print Assumptions C18_structure_step.

(** ... hence over every history: the structure reached under faults is the structure of the
    fault-free run.  The non-I/O panic sites of the Rust code (ordering.first().unwrap(),
    position(..).unwrap(), members[idx], the "Draw state is inconsistent" assertion) read only
    this structure: a failing terminal cannot steer the code into one of them. *)
Theorem C18_structure : forall W H fails s ops,
  erase_io (fst (run W H fails s ops)) = erase_io (fst (run W H no_faults s ops)).
Proof. exact faults_do_not_touch_structure. Qed.
Print Assumptions C18_structure.

(** what the projection keeps *)
Theorem C18_structure_keeps : forall s,
  map logic_of (s_bars (erase_io s)) = bars_logic s /\
  map (fun b => match b_target b with TTerm t => Some (tt_rl t, tt_align t) | _ => None end) (s_bars (erase_io s))
  = map (fun b => match b_target b with TTerm t => Some (tt_rl t, tt_align t) | _ => None end) (s_bars s) /\
  ms_members (s_mp (erase_io s)) = ms_members (s_mp s) /\ ms_free (s_mp (erase_io s)) = ms_free (s_mp s) /\
  ms_order (s_mp (erase_io s)) = ms_order (s_mp s) /\ ms_orphans (s_mp (erase_io s)) = ms_orphans (s_mp s) /\
  ms_align (s_mp (erase_io s)) = ms_align (s_mp s) /\
  match ms_target (s_mp (erase_io s)), ms_target (s_mp s) with
  | TTerm a, TTerm b => tt_rl a = tt_rl b /\ tt_align a = tt_align b
  | THidden, THidden => True
  | TMulti i, TMulti j => i = j
  | _, _ => False
  end.
Proof. exact erase_io_keeps. Qed.
Print Assumptions C18_structure_keeps.

(** Non-vacuity: a history on a MultiProgress in which call 8 (and every call from 16 on) fails: mp.println reports the
    error, later calls work, positions are those of the fault-free run while the calls that
    reach the terminal differ. *)
Definition ex18_sys : sys :=
  mksys [new_bar (Some 10) FAndLeave [PMsg; PLit [58]; PPos] THidden 0]
        (new_ms (TTerm (new_ttarget None 0))) 0.
Definition ex18_ops : list (N * op) :=
  [(0, OInsert BEnd 0); (1000, OInc 0 3); (2000, OMPrintln [121]); (3000, OSetTabWidth 0);
   (4000, OMClear); (5000, OFinish 0 FAndLeave)].
Definition ex18_fails : N -> bool := fun k => (k =? 8) || (16 <=? k).

Example C18_nonvacuous :
  run_oks 20 10 ex18_fails ex18_sys ex18_ops = [true; true; false; true; false; true] /\
  run_oks 20 10 no_faults ex18_sys ex18_ops = [true; true; true; true; true; true] /\
  snd (run 20 10 ex18_fails ex18_sys ex18_ops) <> snd (run 20 10 no_faults ex18_sys ex18_ops) /\
  map (map l_pos) (run_logics 20 10 ex18_fails ex18_sys ex18_ops) = [[0]; [3]; [3]; [3]; [3]; [10]] /\
  fst (run 20 10 ex18_fails ex18_sys ex18_ops) <> fst (run 20 10 no_faults ex18_sys ex18_ops) /\
  erase_io (fst (run 20 10 ex18_fails ex18_sys ex18_ops)) = erase_io (fst (run 20 10 no_faults ex18_sys ex18_ops)).
Proof. vm_compute. repeat split; discriminate. Qed.

(* ====================================================================================== *)
(** NO PUBLIC CALL PANICS, as a theorem about the model (audit X5).  /repo HEAD 7d42cff.
    [Sys.step] totalises the partial operations of src/multi.rs / src/draw_target.rs, so it has
    no panic outcome by construction.  model/SysPanic.v therefore defines the panic sites
    EXPLICITLY: [psite] (19 sites of the current code, file:line each, + 1 historical) and
    [step_panics W H fails s now o] = the first `unwrap()` / `vec[idx]` / `assert*!` / unchecked
    usize `+`,`-` the Rust code hits when it executes call [o] in state [s] ([None] = the call
    returns), written as guards over the same state components [step] reads, in evaluation
    order, including inside MultiState::{draw, clear, suspend, mark_zombie, insert, remove_idx,
    draw_state} and DrawState::draw_to_term.  The row arithmetic of the draw_to_term guards is
    the RUST one ([wrapped_height_rs]: usize::MAX rows for a non-empty line at width 0,
    saturating sums), so the theorems hold for EVERY width W, 0 included.
    Hypotheses: [MultiSpec.init_ok] / [MultiSpec.hist_ok] - the state is reached from an initial
    configuration by calls through live handles, insert_before/after naming members - and
    [H < U16], the type of TermLike::height().  NOTHING about the row counters: since fix 7d42cff
    draw_to_term caps last_line_count at the terminal height before it uses it, so
    `real_height + shift <= 2 * height` whatever the counters hold (the former hypothesis
    [counters_fit] and the _fresh variants / C18_counters_grow that derived it are gone; that
    also removes the W = 0 caveat about Sys.v's counter values - no guard reads their magnitude).
    Not covered (docs/C18.md): lock poisoning after a panic inside a user closure / TermLike
    impl / ProgressTracker, allocation failure, the sites of format_state / limiters / estimator
    (C05 C09 C10 C13 C14 C16), builder-time calls (with_elapsed), a second MultiProgress
    (`assert!(Arc::ptr_eq)`), the move_cursor branch. *)
From IndModel Require Import SysPanic.
From IndProofs Require Import SysPanicProofs.

(** (1) every unwrap / index / assert / arithmetic site of the drawing system is unreachable:
    for every W, every state reachable from an initial configuration by a valid history - under
    ANY fault oracle [fails] and any timestamps - and every next call allowed by [op_ok],
    executed under ANY fault oracle [fails'] *)
Theorem C18_no_panic_reachable : forall W H, H < U16 -> forall fails fails' s0 ops now o,
  MultiSpec.init_ok s0 -> MultiSpec.hist_ok W H fails s0 ops ->
  MultiSpec.op_ok (MultiSpec.run W H fails s0 ops) o = true ->
  step_panics W H fails' (MultiSpec.run W H fails s0 ops) now o = None.
Proof. exact no_panic_reachable. Qed.
Print Assumptions C18_no_panic_reachable.

(** (2) the guard list is EXACT: with live handles ([handles_alive]: ownership - a dropped handle
    cannot be used) a call panics iff it is one of the enumerated misuses ([misuse_site]:
    insert_before / insert_after relative to a bar that is not a member), and then at exactly
    that `index().unwrap()`; equivalently [step_panics = None] iff [op_ok] *)
Theorem C18_misuse_panics_exactly : forall W H, H < U16 -> forall fails fails' s0 ops now o,
  MultiSpec.init_ok s0 -> MultiSpec.hist_ok W H fails s0 ops ->
  handles_alive (MultiSpec.run W H fails s0 ops) o = true ->
  step_panics W H fails' (MultiSpec.run W H fails s0 ops) now o
    = misuse_site (MultiSpec.run W H fails s0 ops) o
  /\ (step_panics W H fails' (MultiSpec.run W H fails s0 ops) now o = None
      <-> MultiSpec.op_ok (MultiSpec.run W H fails s0 ops) o = true).
Proof. exact misuse_panics_exactly. Qed.
Print Assumptions C18_misuse_panics_exactly.

(** what the enumerated misuses are *)
Theorem C18_misuse_enumerated : forall s o,
  MultiSpec.op_ok s o = handles_alive s o && match misuse_site s o with None => true | Some _ => false end.
Proof. exact op_ok_split. Qed.
Print Assumptions C18_misuse_enumerated.

(** (3) whole histories under an arbitrary fault oracle: no call of a valid history reaches a
    site ([run_panics] = index and site of the first panic).  Faults change exactly
    last_line_count / cursor_below / zombie_lines_count / the call counter (C18_structure); the
    guards read the fault-independent structure, and the counters only through the cap. *)
Theorem C18_no_panic_under_faults : forall W H, H < U16 -> forall fails s0 ops,
  MultiSpec.init_ok s0 -> MultiSpec.hist_ok W H fails s0 ops -> run_panics W H fails s0 ops = None.
Proof. exact run_no_panic_init. Qed.
Print Assumptions C18_no_panic_under_faults.

(** one call, from the invariants (MInv + Refines: what C02_order_reachable establishes) *)
Theorem C18_no_panic_step : forall W H fails, H < U16 -> forall s a now o,
  MInv s -> Refines s a ->
  MultiSpec.op_ok s o = true -> step_panics W H fails s now o = None.
Proof. exact step_np. Qed.
Print Assumptions C18_no_panic_step.

(** the row arithmetic of the guards is the model's wherever the model is faithful: for W >= 1 and
    a frame whose row count does not saturate, the count the guard tests at draw_target.rs:642 (computed from the
    CAPPED count, fix 7d42cff) is the last_line_count [Draw.draw_to_term] returns (since fix 7d42cff the incoming count is capped at
    the height first: [N.min n H]; the guard model SysPanic.dt_* still computes with the count it is
    given, i.e. it is evaluated at the capped count here); and for EVERY width a draw reports at most
    one screen more than it was given *)
Theorem C18_guard_rows_are_the_models : forall ls n al below W H,
  1 <= W -> H < USIZE_MAX -> visual_line_count ls W <= USIZE_MAX ->
  dt_count_rs ls (N.min n H) al W H = snd (fst (draw_to_term ls n al below W H)).
Proof. exact dt_count_rs_model. Qed.
Print Assumptions C18_guard_rows_are_the_models.

Theorem C18_draw_count_bounded_every_width : forall ls n al W H,
  H < USIZE_MAX -> dt_count_rs ls n al W H <= H + n.
Proof. exact dt_count_rs_le. Qed.
Print Assumptions C18_draw_count_bounded_every_width.

(** REGRESSION - finding D31, FIXED by /repo f8fa07f.  [step_panics_pre_f8fa07f] = the guards of
    the OLD code (module SysPanic.Pre_f8fa07f: identical but for the zombie scan, where
    MultiState::draw summed the rows of the head zombies with the unchecked `adjust +=
    line_count`, src/multi.rs:324 -> src/draw_target.rs:675).  History [np_ops] (add a b c d;
    tick each; finish and drop b, c - flagged; finish and drop a - reaped) leaves the ordering
    [b; c], both zombies with the frame "x10"; at W = 0 each counts usize::MAX rows, and the next
    draw (tick of d at index 14, or MultiProgress::println) hit [P_draw_adjust_add] ("attempt to
    add with overflow", poisoning the MultiState lock).  The guards of the CURRENT code
    (`saturating_add`) are silent on the same history; at W = 1 the old ones were too.  c18.rs
    replays the history on the implementation at W = 0 and reports a panic as class
    zero-width-zombie-scan-add-overflow. *)
Theorem C18_zero_width_overflow_regression :
  MultiSpec.init_ok np_sys /\ MultiSpec.hist_ok 0 10 np_nofail np_sys (np_ops ++ [(6, OTick 3)])
  /\ run_panics_pre_f8fa07f 0 10 np_nofail np_sys (np_ops ++ [(6, OTick 3)]) = Some (14%nat, P_draw_adjust_add)
  /\ step_panics_pre_f8fa07f 0 10 np_nofail (MultiSpec.run 0 10 np_nofail np_sys np_ops) 6 (OMPrintln [104]) = Some P_draw_adjust_add
  /\ run_panics_pre_f8fa07f 1 10 np_nofail np_sys (np_ops ++ [(6, OTick 3)]) = None
  /\ run_panics 0 10 np_nofail np_sys (np_ops ++ [(6, OTick 3)]) = None
  /\ step_panics 0 10 np_nofail (MultiSpec.run 0 10 np_nofail np_sys np_ops) 6 (OMPrintln [104]) = None.
Proof. exact zero_width_regression. Qed.
Print Assumptions C18_zero_width_overflow_regression.

(** Non-vacuity: a valid 21-call history with failing TermLike calls (call 7, calls 30..39) that
    goes through insert_after, insert_before, insert_from_back, a re-add, println and suspend of a
    member, suspend / println / clear of the MultiProgress, remove, Bottom alignment, a drop behind
    the head (flag), a drop at the head (mark_zombie reaps), the draw that reaps the flagged bar:
    the history is valid and no site is reached - on a 7x4 terminal AND on a
    zero-width one *)
Example C18_no_panic_nonvacuous :
  MultiSpec.init_ok np_sys /\ MultiSpec.hist_ok 7 4 np_fails2 np_sys np_ops2
  /\ run_panics 7 4 np_fails2 np_sys np_ops2 = None
  /\ MultiSpec.hist_ok 0 4 np_fails2 np_sys np_ops2
  /\ run_panics 0 4 np_fails2 np_sys np_ops2 = None
  /\ map (fun k => ms_order (s_mp (MultiSpec.run 7 4 np_fails2 np_sys (firstn k np_ops2)))) [4; 13; 16; 17; 19; 21]%nat
     = [[2; 0; 3; 1]; [2; 0; 1]; [2; 0; 1]; [0; 1]; [1]; []]
  /\ s_calls (MultiSpec.run 7 4 np_fails2 np_sys np_ops2) <> s_calls (MultiSpec.run 7 4 np_nofail np_sys np_ops2).
Proof. exact nonvacuous_history. Qed.

(** ... and a misuse that yields a site: insert_after / insert_before relative to bar 2, which
    was never added (the handles are alive, [op_ok] is false) *)
Example C18_misuse_yields_site :
  let s := MultiSpec.run 5 10 np_nofail np_sys [(0, OInsert BEnd 0)] in
  handles_alive s (OInsert (BAfter 2) 1) = true /\ MultiSpec.op_ok s (OInsert (BAfter 2) 1) = false
  /\ step_panics 5 10 np_nofail s 1 (OInsert (BAfter 2) 1) = Some P_insert_after_index_unwrap
  /\ step_panics 5 10 np_nofail s 1 (OInsert (BBefore 2) 0) = Some P_insert_before_index_unwrap
  /\ step_panics 5 10 np_nofail s 1 (OInsert (BAfter 0) 1) = None.
Proof. exact misuse_example. Qed.
