(** C18 - Terminal I/O failures never panic, poison or corrupt logical state.
    Only statements; every proof is [exact <lemma from IndProofs.SimProofs>].
    Model: coq/model/Sys.v; the fault oracle [fails : N -> bool] says which TermLike call (numbered
    over the whole run by [s_calls]) returns an I/O error; [emit] stops a draw at the first
    failing call (the `?` chain of DrawState::draw_to_term, src/draw_target.rs:505-590) and
    last_line_count is then not updated; closures of suspend ignore their own errors
    ([emit_each]).  The model has NO panic outcome for an I/O result: after fix 1c94c14 every
    io::Result is either discarded (`let _ =`) or returned (MultiProgress::println / clear);
    docs/C18.md enumerates the sites, harness/src/bin/c18.rs audits them statically and injects
    a failure at every k dynamically. *)
From IndModel Require Import Base Text Draw Sys SimSpec.
From IndProofs Require Import SimProofs.
From Coq Require Import List NArith.
Import ListNotations.
Open Scope N_scope.

(** C18_state: for every history and EVERY fault oracle the logic of every bar (position,
    length, message, prefix, status, tick, template, on_finish, the position limiter state,
    alive) after EVERY op equals that of the fault-free run. *)
Theorem C18_state : forall W H fails s ops,
  run_logics W H fails s ops = run_logics W H no_faults s ops.
Proof. exact faults_do_not_touch_logic. Qed.
Print Assumptions C18_state.

(** the same per call, as an explicit function of the logic before the call: the fault oracle
    is not an argument of [lstep] *)
Theorem C18_state_step : forall W H fails s now o,
  bars_logic (fst (fst (step W H fails s now o))) = lstep now o (bars_logic s).
Proof. exact step_logic. Qed.
Print Assumptions C18_state_step.

(** C18_reports: a call returns Err exactly when it is MultiProgress::println / clear and one of
    the TermLike calls it made itself (numbers s_calls s .. s_calls s' - 1) failed; every other
    call returns (): the io::Result of its draw is discarded. *)
Theorem C18_reports : forall W H fails s now o,
  let '(s', e, ok) := step W H fails s now o in
  (ok = false <->
   is_reporting o = true /\ exists k, s_calls s <= k < s_calls s' /\ fails k = true) /\
  (is_reporting o = true -> s_calls s <= s_calls s').
Proof. exact step_reports. Qed.
Print Assumptions C18_reports.

(** what a sequence of calls joined by `?` does under the oracle: the counter advances by the
    calls attempted, Ok iff none of them failed, everything before the first failure reaches
    the terminal (and nothing after it) *)
Theorem C18_emit : forall fails ops c e c' ok,
  emit fails c ops = (e, c', ok) ->
  c <= c' /\ c' <= c + N.of_nat (length ops) /\
  (ok = true -> e = ops /\ c' = c + N.of_nat (length ops)) /\
  (ok = false <-> exists k, c <= k < c' /\ fails k = true) /\
  (forall k, c <= k < c' - 1 -> fails k = false) /\
  e = firstn (length e) ops.
Proof. exact emit_spec. Qed.
Print Assumptions C18_emit.

(** Non-vacuity: a history on a MultiProgress in which call 3 fails: mp.println reports the
    error, later calls work, positions are those of the fault-free run while the calls that
    reach the terminal differ. *)
Definition ex18_sys : sys :=
  mksys [new_bar (Some 10) FAndLeave [PMsg; PLit [58]; PPos] THidden 0]
        (new_ms (TTerm (new_ttarget None 0))) 0.
Definition ex18_ops : list (N * op) :=
  [(0, OInsert BEnd 0); (1000, OInc 0 3); (2000, OMPrintln [121]); (3000, OSetTabWidth 0);
   (4000, OMClear); (5000, OFinish 0 FAndLeave)].
Definition ex18_fails : N -> bool := fun k => (k =? 8) || (16 <=? k).

Example C18_nonvacuous :
  run_oks 20 10 ex18_fails ex18_sys ex18_ops = [true; true; false; true; false; true] /\
  run_oks 20 10 no_faults ex18_sys ex18_ops = [true; true; true; true; true; true] /\
  snd (run 20 10 ex18_fails ex18_sys ex18_ops) <> snd (run 20 10 no_faults ex18_sys ex18_ops) /\
  map (map l_pos) (run_logics 20 10 ex18_fails ex18_sys ex18_ops) = [[0]; [3]; [3]; [3]; [3]; [10]].
Proof. vm_compute. repeat split. discriminate. Qed.
