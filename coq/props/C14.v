(** C14 - Every style the builder accepts can be rendered without panicking.
    Only statements; every proof is [exact <lemma from IndProofs.BuilderProofs>].

    [build c ops] is a chain of builder calls: a constructor (default_bar, default_spinner,
    with_template) followed by any list of tick_chars / tick_strings / progress_chars /
    template / with_key calls (and set_tab_width, which ProgressBar::set_style performs); it
    is [BOk st] iff no call panicked or returned Err.  [render_outcome] evaluates every
    partial operation of ProgressStyle::format_state (index, division, remainder, usize
    subtraction, assertion, unwrap, dynamic format precision), [frame_outcome] those of
    DrawState::draw_to_term; overflow-check panics of the debug build are panic sites too.
    [oracles] supplies everything that depends on string contents or on f32 arithmetic and is
    universally quantified; [mt_ok] / [oracles_ok] / [snap_ok] say only that a measured string
    has at most as many columns as bytes.  [builder_op o]: o is a method of ProgressStyle (not the
    tab width change a ProgressBar makes); [tab_sane st]: the tab width is at most isize::MAX.
    Resource assumption A4 (all theorems): the model has no outcome for a failed allocation (the
    process aborts; not a panic) and none for a tab expansion whose RESULT would exceed isize::MAX
    bytes (#tabs * tab_width; a capacity-overflow panic): strings the renderer builds are taken to
    fit in memory.  With the default tab width 8 that asks for 8x the text; with a tab width set by
    the bar it is a real restriction, hence the `_partial` name below. *)
From IndModel Require Import Base Template Builder.
From IndProofs Require Import BuilderProofs.
From Coq Require Import NArith List.
Import ListNotations.
Open Scope N_scope.

(** Accepted => renders: for every chain of builder calls none of which panicked, every bar
    state (position, length or none, tick - any natural number, in particular all of
    0..=u64::MAX -, finished or not, any message and prefix), every terminal width (any natural
    number, in particular 0..=65535) and every behaviour of the width tables / the FPU, no
    panic site of format_state is reached.  (Tab width = the default 8; A4 as above.) *)
Theorem C14_accepted_renders : forall (c : ctor) (ops : list bop) (st : style),
  Forall builder_op ops -> build c ops = BOk st ->
  forall (sn : snapshot) (tw : N) (O : oracles),
    snap_ok sn -> oracles_ok O ->
    render_outcome st sn tw O = Ok tt.
Proof. exact accepted_renders. Qed.
Print Assumptions C14_accepted_renders.

(** PARTIAL.  The same when the bar changes the tab width (ProgressBar::with_tab_width /
    set_tab_width, modelled by OSetTab): no panic SITE of the model is reached for any tab width
    up to isize::MAX.  What is missing for "renders without panicking for every tab width <=
    isize::MAX": A4.  On the real code `" ".repeat(tab_width)` (custom keys and {spinner}: every
    draw; texts with a TAB: on expansion) needs tab_width bytes, so a tab width beyond the free
    memory aborts the process (observed at 1<<62), and a text with k TABs panics with "capacity
    overflow" as soon as k * tab_width > isize::MAX.  isize::MAX is the bound of the ONE panic
    site that depends on the configuration alone (class D24), not the edge of the failing region. *)
Theorem C14_accepted_renders_any_tab_partial : forall (c : ctor) (ops : list bop) (st : style),
  build c ops = BOk st -> tab_sane st ->
  forall (sn : snapshot) (tw : N) (O : oracles),
    snap_ok sn -> oracles_ok O ->
    render_outcome st sn tw O = Ok tt.
Proof. exact accepted_renders_any_tab. Qed.
Print Assumptions C14_accepted_renders_any_tab_partial.

(** REFUTED for tab widths above isize::MAX (open known finding D24, class "draw-panic-tab-width-huge"): with
    ProgressBar::with_tab_width(usize::MAX) a template that holds a with_key key - or, since
    commit 6ff82af, {spinner} (example C14_ex_huge_tab_spinner) - panics in the draw
    (`" ".repeat(tab_width)` in TabRewriter::write_str, capacity overflow) although no builder call
    panicked.  Reproduced on the implementation (docs/C14.md). *)
Theorem C14_huge_tab_refuted :
  exists st, build (CWithTemplate huge_tab_template) huge_tab_ops = BOk st
    /\ StyleOK st /\ snap_ok plain_snap /\ oracles_ok plain_oracles
    /\ render_outcome st plain_snap 80 plain_oracles = Panic SITE_TAB_REPEAT.
Proof. exact huge_tab_refuted. Qed.
Print Assumptions C14_huge_tab_refuted.

(** ... and the whole draw of one frame (format_state, then draw_to_term on a terminal of any
    u16 width and height, zero included, top or bottom aligned, after ANY previous frame height n -
    the code caps it at the terminal height first, 7d42cff) reaches no panic site either.  Styles
    as the builder methods return them (tab width 8). *)
Theorem C14_accepted_draws : forall (c : ctor) (ops : list bop) (st : style),
  Forall builder_op ops -> build c ops = BOk st ->
  forall (sn : snapshot) (tw th n : N) (bottom : bool) (O : oracles),
    snap_ok sn -> oracles_ok O ->
    tw < U16 -> th < U16 ->
    exists n', draw_outcome st sn tw th n bottom O = Ok n'.
Proof. exact accepted_draws. Qed.
Print Assumptions C14_accepted_draws.

(** PARTIAL (A4, exactly as `C14_accepted_renders_any_tab_partial`): the same when the bar
    changed the tab width to anything up to isize::MAX. *)
Theorem C14_accepted_draws_any_tab_partial : forall (c : ctor) (ops : list bop) (st : style),
  build c ops = BOk st -> tab_sane st ->
  forall (sn : snapshot) (tw th n : N) (bottom : bool) (O : oracles),
    snap_ok sn -> oracles_ok O ->
    tw < U16 -> th < U16 ->
    exists n', draw_outcome st sn tw th n bottom O = Ok n'.
Proof. exact accepted_draws_any_tab. Qed.
Print Assumptions C14_accepted_draws_any_tab_partial.

(** [frame_outcome] is not a second opinion about draw_to_term: for frames of Bar lines on a
    terminal of non-zero width it returns exactly the line count that the shared value model
    Draw.draw_to_term (the one C01/C19 tie to the code, with `painted_any`/`cursor_below`) returns -
    top and bottom alignment, every previous count, every `cursor_below`.  What frame_outcome
    adds is the panic sites, the saturating usize operations and width 0. *)
Theorem C14_frame_agrees_with_draw_model :
  forall (ls : list IndModel.Text.line) (W H n : N) (bottom below : bool),
  forallb IndModel.Text.is_bar ls = true -> 0 < W -> W < U16 -> H < U16 ->
  frame_outcome (map IndModel.Text.lwidth ls) W H n bottom
  = Ok (snd (fst (IndModel.Draw.draw_to_term ls n
                    (if bottom then IndModel.Draw.Bottom else IndModel.Draw.Top) below W H))).
Proof. exact frame_agrees_with_draw_model. Qed.
Print Assumptions C14_frame_agrees_with_draw_model.

(** The invariant behind it: every style the builder returns has >= 2 tick strings, >= 2
    progress characters, all of the same width >= 1 which is char_width, none containing a TAB,
    and template widths that fit u16. *)
Theorem C14_invariant : forall (c : ctor) (ops : list bop) (st : style),
  build c ops = BOk st -> StyleOK st.
Proof. exact build_ok. Qed.
Print Assumptions C14_invariant.

(** PARTIAL (A4, as above): the invariant alone (however the style was obtained), with a tab
    width up to isize::MAX, implies every guard. *)
Theorem C14_invariant_renders_partial : forall (st : style) (sn : snapshot) (tw : N) (O : oracles),
  StyleOK st -> tab_sane st -> snap_ok sn -> oracles_ok O -> render_outcome st sn tw O = Ok tt.
Proof. exact render_ok. Qed.
Print Assumptions C14_invariant_renders_partial.

(** The public ProgressStyle::get_tick_str(idx) (every idx, in particular up to u64::MAX) and
    get_final_tick_str() of an accepted style do not panic and return tick_strings[idx mod (n-1)]
    and the last tick string. *)
Theorem C14_accepted_ticks : forall (c : ctor) (ops : list bop) (st : style),
  build c ops = BOk st ->
  (forall idx, exists s, get_tick_str (st_ticks st) idx = Ok s
      /\ nth_error (st_ticks st) (N.to_nat (idx mod (nlen (st_ticks st) - 1))) = Some s)
  /\ (exists s, get_final_tick_str (st_ticks st) = Ok s /\ last (st_ticks st) [] = s).
Proof. exact accepted_ticks. Qed.
Print Assumptions C14_accepted_ticks.

(** Rejected early: fewer than two tick characters / strings / progress characters, progress
    characters of unequal width, zero-width progress characters, progress characters (otherwise
    fine) one of which holds a TAB panic in the builder call itself, at the assertion written for
    it - whatever the style they are applied to. *)
Theorem C14_rejects_early : forall (st : style),
  (forall s, nlen s < 2 -> bstep st (OTickChars s) = BPanic SITE_TICK_CHARS)
  /\ (forall l, nlen l < 2 -> bstep st (OTickStrings l) = BPanic SITE_TICK_STRINGS)
  /\ (forall cl, nlen cl < 2 -> bstep st (OProgressChars cl) = BPanic SITE_PCHARS_LT2)
  /\ (forall cl, 2 <= nlen cl -> (exists a b, In a cl /\ In b cl /\ cl_w a <> cl_w b) ->
        bstep st (OProgressChars cl) = BPanic SITE_WIDTH_UNEQUAL)
  /\ (forall cl, 2 <= nlen cl -> Forall (fun c => cl_w c = 0) cl ->
        bstep st (OProgressChars cl) = BPanic SITE_PCHARS_ZERO)
  /\ (forall cl w, 2 <= nlen cl -> 1 <= w -> Forall (fun c => cl_w c = w) cl ->
        (exists c, In c cl /\ In 9 (cl_text c)) ->
        bstep st (OProgressChars cl) = BPanic SITE_PCHARS_TAB).
Proof. exact rejects_early. Qed.
Print Assumptions C14_rejects_early.

(** The builder accepts exactly the documented configurations ... *)
Theorem C14_accepts_exactly : forall (st : style) (o : bop),
  (exists st', bstep st o = BOk st') <-> accepts o.
Proof. exact bstep_accepts. Qed.
Print Assumptions C14_accepts_exactly.

(** ... and refuses everything else at once: a panic at one of its six assertions, or
    Err(TemplateError) for a template - never a style that fails later. *)
Theorem C14_rejects_exactly : forall (st : style) (o : bop),
  ~ accepts o ->
  match o with
  | OTemplate _ => exists t c, bstep st o = BErr t c
  | _ => exists s, bstep st o = BPanic s /\ builder_site s
  end.
Proof. exact bstep_rejects. Qed.
Print Assumptions C14_rejects_exactly.

(** default_bar / default_spinner / with_template never panic (their `unwrap`s are on literals). *)
Theorem C14_constructors_never_panic : forall (c : ctor) (s : N), construct c <> BPanic s.
Proof. exact construct_no_panic. Qed.
Print Assumptions C14_constructors_never_panic.

(** The debug_assert of TabExpandedString::expanded (state.rs:386, a panic site of debug builds):
    [tes_made v b] lists every way the crate makes or changes a TabExpandedString (`new`, which
    picks NoTabs exactly for tab-free text; the literal NoTabs(""); set_tab_width, which keeps
    variant and text) - the list is a reading of the source (Builder.v cites the lines), re-counted in
    /repo/src by c14.rs on every run (failure class unaudited-tabexpandedstring-site).  For every
    value so made `expanded()` does not trip the assertion; the site itself is inhabited (a NoTabs
    value holding a tab).  This is a statement about the CONSTRUCTORS, by induction on [tes_made];
    that every value a bar ever holds is such a value, over all histories of bar operations, is
    C16's invariant (C16_inv). *)
Theorem C14_notabs_assert_unreachable : forall (st : style),
  (forall v b, tes_made v b -> expanded_site st v b <> Panic SITE_NOTABS_ASSERT)
  /\ expanded_site st VNoTabs true = Panic SITE_NOTABS_ASSERT.
Proof. exact notabs_assert_unreachable. Qed.
Print Assumptions C14_notabs_assert_unreachable.

(** "Every draw" also runs the Display impls of src/format.rs inside format_state
    (`buf.write_fmt(format_args!("{}", HumanDuration(state.eta()))).unwrap()` ...).  Their partial
    operations are NOT sites of Builder.v: [render_outcome] takes those calls as total, and that
    rests on C15, through the key dispatch that C11 ties to the code:
    [Keys.builtin_value F ticks tab s b w] (Keys.v; compared with the implementation key by key by
    bin c11) is the text format_state writes for built-in key b; [TabsEnv.fmt_formatters] (C16) is
    the formatter record F made of Fmt.v's models, in which a model panic would show as the empty
    text.  [formatter_call s b w = Some (c, suf)] names the case c of C15's [Fmt.fmt_model] and the
    literal suffix.  The theorem: for EVERY snapshot (any position / length / elapsed / eta /
    duration in nanoseconds - saturated estimates included -, any f64 pattern of per_sec), every
    key that has an entry and every width, the model formatter does not panic ([fmt_model c = Ok
    str], by C15's totality) AND the dispatch draws exactly [str ++ suf] - so the entry is the call
    the dispatch really makes (a wrong table entry makes the second conjunct false).  Depends, like
    C15_total, on the four standard-library axioms that come with Flocq's binary64. *)
Theorem C14_formatters_total :
  forall (dec32 : N -> SpecFloat.spec_float) (ticks : list IndModel.Keys.text) (tab : N)
         (s : IndModel.Keys.snapshot) (b : IndModel.Keys.bkey) (w : option N)
         (c : IndModel.Fmt.fcase) (suf : list N),
  formatter_call s b w = Some (c, suf) ->
  exists str, IndModel.Fmt.fmt_model c = Ok str
    /\ fst (IndModel.Keys.builtin_value (IndModel.TabsEnv.fmt_formatters dec32) ticks tab s b w)
       = str ++ suf.
Proof. exact formatters_total. Qed.
Print Assumptions C14_formatters_total.

(** ... and the table is complete: a built-in key without an entry (bars, spinner, msg, prefix,
    wide elements, `{pos}` `{len}` - core's u64 Display -, `{percent}` `{percent_precise}` - core's
    f32 Display) produces the same text whatever the format.rs formatters are, i.e. calls none. *)
Theorem C14_formatter_keys_complete :
  forall (F G : IndModel.Keys.formatters) (ticks : list IndModel.Keys.text) (tab : N)
         (s : IndModel.Keys.snapshot) (b : IndModel.Keys.bkey) (w : option N),
  formatter_call s b w = None -> same_core_formatters F G ->
  IndModel.Keys.builtin_value F ticks tab s b w = IndModel.Keys.builtin_value G ticks tab s b w.
Proof. exact formatter_call_none. Qed.
Print Assumptions C14_formatter_keys_complete.

(** Cross-check with the models of C12 (Padded.v) and C11 (Keys.v), written independently from
    the same Rust functions: PaddedStringDisplay::fmt panics in one model iff it does in the
    other, and the tick string selected here is the one C11's model selects. *)
Theorem C14_models_agree :
  (forall (s : IndModel.Padded.str) w a tr,
     is_ok (IndModel.Padded.padded s w a tr)
     = is_ok (padded_sites (mkmt (IndModel.Padded.blen s) (IndModel.Padded.cols s)) w (conv_align a) tr))
  /\ (forall ticks idx s, get_tick_str ticks idx = Ok s -> IndModel.Keys.get_tick_str ticks idx = s)
  /\ (forall ticks s, get_final_tick_str ticks = Ok s -> IndModel.Keys.get_final_tick_str ticks = s).
Proof. exact models_agree. Qed.
Print Assumptions C14_models_agree.

(** Non-vacuity. *)
Definition ex_template : list N :=     (* "{spinner} {bar:10} {wide_bar}\n{msg:3!} {per_sec:9}" *)
  [123;115;112;105;110;110;101;114;125;32;123;98;97;114;58;49;48;125;32;123;119;105;100;101;95;
   98;97;114;125;10;123;109;115;103;58;51;33;125;32;123;112;101;114;95;115;101;99;58;57;125].
Definition ex_ops : list bop :=
  [OTickStrings [[97]; [98; 99]; [100]];
   OProgressChars [mkcl [26085] 2; mkcl [26412] 2; mkcl [35486] 2];    (* three CJK clusters, 2 columns each *)
   OWithKey [120]; OTemplate ex_template; OSetTab 4].
Definition ex_oracles : oracles :=
  mkor (fun i => mkmt (N.of_nat i + 7) 5) (fun _ => true) (fun c => mkfbar (c / 3) true 2) (fun _ => 9) true [0; 81; 7].
Definition ex_snap : snapshot :=
  mksnap 18446744073709551615 None 18446744073709551615 false (mkmt 9 6) (mkmt 0 0) true false.

Example C14_ex_reachable :
  exists st, build CDefaultSpinner ex_ops = BOk st /\ nlen (st_parts st) = 9 /\ st_cw st = 2
             /\ tab_sane st /\ snap_ok ex_snap /\ oracles_ok ex_oracles
             /\ draw_outcome st ex_snap 80 24 100 true ex_oracles = Ok 24.
Proof.
  eexists. split; [vm_compute; reflexivity|].
  split; [reflexivity|]. split; [reflexivity|]. split; [vm_compute; discriminate|].
  split; [split; vm_compute; congruence|].
  split; [|vm_compute; reflexivity].
  intros i. unfold mt_ok, ex_oracles; cbn. lia.
Qed.

(* the invariant is needed: the states the fixed defects D1 / D15 allowed do reach a site *)
Example C14_ex_one_tick_string :       (* tick_strings(&["a"]) before commit b968e56 *)
  render_outcome (mkstyle [[97]] default_chars 1 [PPh (mkph KeyNames.spinner ALeft None false None None)] [] 8)
                 ex_snap 80 ex_oracles = Panic SITE_TICK_REM.
Proof. reflexivity. Qed.
Example C14_ex_zero_width :            (* progress_chars("\u{200b}\u{200b}") before commit 16b074b *)
  render_outcome (mkstyle default_ticks [mkcl [8203] 0; mkcl [8203] 0] 0
                          [PPh (mkph KeyNames.wide_bar ALeft None false None None)] [] 8)
                 ex_snap 80 ex_oracles = Panic SITE_BAR_DIV.
Proof. reflexivity. Qed.
(* since 6ff82af the tick string goes through TabRewriter: D24's class covers {spinner} *)
Example C14_ex_huge_tab_spinner :
  exists st, build CDefaultSpinner [OSetTab 9223372036854775808] = BOk st /\ StyleOK st
    /\ render_outcome st plain_snap 80 plain_oracles = Panic SITE_TAB_REPEAT.
Proof.
  eexists. split; [vm_compute; reflexivity|].
  split; [apply (build_ok CDefaultSpinner [OSetTab 9223372036854775808]); vm_compute; reflexivity|].
  vm_compute. reflexivity.
Qed.
(* the saturated estimates (a bar of length u64::MAX advancing slower than one step per second, a
   stalled bar): eta() = u64::MAX s + 999999999 ns = 18446744073709551615999999999 ns; `{eta}` and
   `{duration}` evaluate HumanDuration there, `{per_sec:65535}` HumanFloatCount at precision 65535 *)
Definition ex_sat_snapshot : IndModel.Keys.snapshot :=
  IndModel.Keys.Build_snapshot 1 (Some 18446744073709551615) 1 false [] []
    (IndModel.Keys.Build_tobs 0 3000000000 18446744073709551615999999999 18446744073709551615999999999 0).
Example C14_ex_saturated_estimates :
  formatter_call ex_sat_snapshot IndModel.Keys.KEta None
    = Some (IndModel.Fmt.CHDur 18446744073709551615 999999999 true, [])
  /\ formatter_call ex_sat_snapshot IndModel.Keys.KDuration (Some 3)
    = Some (IndModel.Fmt.CHDur 18446744073709551615 999999999 true, [])
  /\ formatter_call ex_sat_snapshot IndModel.Keys.KEtaPrecise None
    = Some (IndModel.Fmt.CFDur 18446744073709551615 999999999, [])
  /\ formatter_call ex_sat_snapshot IndModel.Keys.KPerSec (Some 65535)
    = Some (IndModel.Fmt.CFloat (Some 65535) 0, IndModel.Keys.per_s)
  /\ formatter_call ex_sat_snapshot IndModel.Keys.KTotalBytes None
    = Some (IndModel.Fmt.CBytes 0 18446744073709551615, [])
  /\ formatter_call ex_sat_snapshot IndModel.Keys.KMsg None = None.
Proof. repeat split; vm_compute; reflexivity. Qed.
(* [mt_ok] is needed: a (fictitious) string wider in columns than long in bytes underflows *)
Example C14_ex_mt_ok_needed : padded_sites (mkmt 1 3) 0 ALeft true = Panic SITE_PAD_LEFT.
Proof. reflexivity. Qed.
Example C14_ex_rejected :
  build CDefaultBar [OTickStrings [[97]]] = BPanic SITE_TICK_STRINGS
  /\ build CDefaultBar [OProgressChars [mkcl [97] 1; mkcl [26085] 2]] = BPanic SITE_WIDTH_UNEQUAL
  /\ build CDefaultBar [OProgressChars [mkcl [8203] 0; mkcl [8203] 0]] = BPanic SITE_PCHARS_ZERO
  /\ build CDefaultBar [OProgressChars [mkcl [35] 1; mkcl [9] 1]] = BPanic SITE_PCHARS_TAB
  /\ ~ accepts (OTickChars [97]).
Proof. repeat split; try (vm_compute; reflexivity). cbn. vm_compute. intros H; apply H; reflexivity. Qed.
