(** C11 - Placeholder values reflect the bar state at draw time.
    Only statements; every proof is [exact <lemma from IndProofs.KeysProofs>].
    The public formatters (HumanCount, HumanBytes, ..., format_bar, float Display) are the fields
    of an arbitrary record [F : formatters] (C15 / C13 own them); trackers are an arbitrary
    [TO : tracker_ops T]; [tw] is the terminal width.  Every theorem is quantified over them. *)
From IndModel Require Import Base Keys Pos.
From IndGen Require Import Constants.
From IndProofs Require Import KeysProofs.
From Coq Require Import String List NArith.
Import ListNotations.
Open Scope N_scope.
Open Scope string_scope.

(** --- the set of keys ------------------------------------------------------------------- *)
(** the model's dispatch recognises exactly the match arms regenerated from src/style.rs *)
Theorem C11_keys_implemented : forall k, key_id k <> None <-> In k FORMAT_KEYS.
Proof. exact key_id_implemented. Qed.
Print Assumptions C11_keys_implemented.

(** documented keys (src/lib.rs) = implemented keys (src/style.rs), as sets *)
Theorem C11_documented_iff_implemented : forall k, In k DOCUMENTED_KEYS <-> In k FORMAT_KEYS.
Proof. exact documented_iff_implemented. Qed.
Print Assumptions C11_documented_iff_implemented.

(** the specification table [doc_table] has one entry per documented key, in the order of the docs *)
Theorem C11_doc_table_complete : map fst doc_table = DOCUMENTED_KEYS.
Proof. exact doc_table_keys. Qed.
Print Assumptions C11_doc_table_complete.

(** --- the table --------------------------------------------------------------------------- *)
(** every documented key, EVERY snapshot (position, length incl. None / 0 / < position / 2^64-1,
    tick, finished, message, prefix, clock dependent getters), every width: the arm of the code
    computes the documented getter o formatter.  (per_sec with a width: next theorem) *)
Theorem C11_table : forall (F : formatters) (ticks : list text) (tab : N) (s : snapshot) (k : string)
                           (w : option N),
  In k DOCUMENTED_KEYS ->
  (k = "per_sec" -> w = None) ->
  key_value F ticks tab s k w = documented F ticks tab s k w.
Proof. exact table_correct. Qed.
Print Assumptions C11_table.

(** undocumented: {per_sec:W} uses W as the precision of the number as well *)
Theorem C11_per_sec_width : forall F ticks tab s w,
  key_value F ticks tab s "per_sec" (Some w)
  = ((f_hfloat F (Some w) (o_per_sec (s_obs s)) ++ per_s)%list, None).
Proof. exact per_sec_width. Qed.
Print Assumptions C11_per_sec_width.

(** a key that is neither implemented nor custom renders nothing *)
Theorem C11_unknown_key_empty : forall F ticks tab s k w,
  ~ In k FORMAT_KEYS -> key_value F ticks tab s k w = ([], None).
Proof. exact unknown_key_empty. Qed.
Print Assumptions C11_unknown_key_empty.

(** --- missing length ---------------------------------------------------------------------- *)
(** with an unknown length every key renders what it renders with length = position ... *)
Theorem C11_missing_len : forall F ticks tab s k w,
  s_len s = None ->
  key_value F ticks tab s k w = key_value F ticks tab (with_s_len s (Some (s_pos s))) k w.
Proof. exact missing_len_all_keys. Qed.
Print Assumptions C11_missing_len.

(** ... explicitly: the five length keys show the position *)
Theorem C11_missing_len_values : forall F ticks tab s w,
  s_len s = None ->
  key_value F ticks tab s "len" w = (dec_text (s_pos s), None)
  /\ key_value F ticks tab s "human_len" w = (f_count F (s_pos s), None)
  /\ key_value F ticks tab s "total_bytes" w = (f_hbytes F (s_pos s), None)
  /\ key_value F ticks tab s "decimal_total_bytes" w = (f_dbytes F (s_pos s), None)
  /\ key_value F ticks tab s "binary_total_bytes" w = (f_bbytes F (s_pos s), None).
Proof. exact missing_len_values. Qed.
Print Assumptions C11_missing_len_values.

(** --- spinner ----------------------------------------------------------------------------- *)
(** n >= 2 tick strings (the builder guarantees it, C14): string [tick mod (n-1)] while in
    progress - never the last one -, the last one once finished; written through the TabRewriter
    (style.rs:277-279, fix 6ff82af): every TAB of the tick string is [tab] blanks, [tab] = the
    style's tab width (in a run: the bar's, see C11_nonvacuous_spinner_tab) *)
Theorem C11_spinner : forall F ticks tab s w,
  (2 <= List.length ticks)%nat ->
  let n := N.of_nat (List.length ticks) in
  fst (key_value F ticks tab s "spinner" w) =
    expand_tabs tab
      (if s_finished s then last ticks []
       else nth (N.to_nat (s_tick s mod (n - 1))) ticks [])
  /\ (s_tick s mod (n - 1) < n - 1).
Proof. exact spinner_value. Qed.
Print Assumptions C11_spinner.

(** a tick string without TAB is shown verbatim, for every tab width; and whatever the tick
    strings are, no TAB reaches the frame through {spinner} *)
Theorem C11_spinner_no_tab : forall F ticks tab s w,
  let t := if s_finished s then last ticks []
           else nth (N.to_nat (s_tick s mod (N.of_nat (List.length ticks) - 1))) ticks [] in
  (~ In 9 t -> fst (key_value F ticks tab s "spinner" w) = t)
  /\ ~ In 9 (fst (key_value F ticks tab s "spinner" w)).
Proof. exact spinner_no_tab. Qed.
Print Assumptions C11_spinner_no_tab.

Theorem C11_spinner_period : forall F ticks tab s s' w,
  (2 <= List.length ticks)%nat ->
  s_finished s = false -> s_finished s' = false ->
  s_tick s' = s_tick s + (N.of_nat (List.length ticks) - 1) ->
  fst (key_value F ticks tab s' "spinner" w) = fst (key_value F ticks tab s "spinner" w).
Proof. exact spinner_period. Qed.
Print Assumptions C11_spinner_period.

(** --- custom keys ------------------------------------------------------------------------- *)
(** a custom key (even one named like a built-in key) renders what its tracker writes for the
    state of this draw, tabs expanded, padded to the width *)
Theorem C11_custom_write : forall (T : Type) (TO : tracker_ops T) (F : formatters)
                                  (sty : style T) s k w tr,
  lookup k (customs sty) = Some tr ->
  render_key TO F sty s k w =
    (let buf := expand_tabs (sty_tab sty) (t_write TO tr (view_of s)) in
     match w with Some w => pad_left buf w | None => buf end, None).
Proof. exact (@custom_write). Qed.
Print Assumptions C11_custom_write.

(** every history: each tracker's state is its initial state folded over exactly the tick /
    reset events of the bar ([bar_events]: class of the call by [op_event], the state right
    after the call's own update, the instant of the call), in order *)
Theorem C11_trackers_follow_bar : forall (T : Type) (TO : tracker_ops T) (F : formatters) (tw : N)
                                         (ops : list (bop * env)) (b : bstate T),
  customs (b_style (fst (brun TO F tw b ops)))
  = on_trackers (fun t => fold_left (apply_event TO) (bar_events TO F tw b ops) t)
                (customs (b_style b)).
Proof. exact (@trackers_follow_bar). Qed.
Print Assumptions C11_trackers_follow_bar.

(** --- histories --------------------------------------------------------------------------- *)
(** a call draws iff it is not reset_eta / reset_elapsed / a throttled position update *)
Theorem C11_draws_iff : forall (T : Type) (TO : tracker_ops T) F tw (b : bstate T) o e,
  is_some (snd (bstep TO F tw b (o, e))) = op_draws o (e_allowed e).
Proof. exact (@draws_iff). Qed.
Print Assumptions C11_draws_iff.

(** the frame of a call renders the state the call leaves behind (what the getters return right
    after it), never a stale one *)
Theorem C11_frame_is_post_state : forall (T : Type) (TO : tracker_ops T) F tw (b : bstate T) o e lines,
  snd (bstep TO F tw b (o, e)) = Some lines ->
  lines = draw TO F tw (fst (bstep TO F tw b (o, e))) e.
Proof. exact (@frame_is_post_state). Qed.
Print Assumptions C11_frame_is_post_state.

Theorem C11_run_frames : forall (T : Type) (TO : tracker_ops T) F tw ops (b : bstate T) i o e lines,
  nth_error ops i = Some (o, e) ->
  nth_error (snd (brun TO F tw b ops)) i = Some (Some lines) ->
  lines = draw TO F tw (fst (brun TO F tw b (firstn (S i) ops))) e.
Proof. exact (@run_frames). Qed.
Print Assumptions C11_run_frames.

(** THE property for templates of literals and documented, non-wide, non-shadowed keys: the
    frame is the concatenation, split at newlines, of the documented values of the post-state *)
Theorem C11_frame_documented : forall (T : Type) (TO : tracker_ops T) F tw (b : bstate T) o e lines,
  snd (bstep TO F tw b (o, e)) = Some lines ->
  let b' := fst (bstep TO F tw b (o, e)) in
  b_status b' <> DoneHidden ->
  Forall (doc_part (b_style b')) (template (b_style b')) ->
  lines = match concat (map (doc_text F (b_style b') (snapshot_of b' (e_obs e)))
                            (template (b_style b'))) with
          | [] => []
          | line => split_nl line []
          end.
Proof. exact (@frame_documented). Qed.
Print Assumptions C11_frame_documented.

Theorem C11_hidden_draws_nothing : forall (T : Type) (TO : tracker_ops T) F tw (b : bstate T) e,
  b_status b = DoneHidden -> draw TO F tw b e = [].
Proof. exact (@hidden_draws_nothing). Qed.
Print Assumptions C11_hidden_draws_nothing.

(** the wide keys alone: message filling the line (truncated / padded, trimmed at the line end),
    bar of the whole width *)
Theorem C11_wide_msg_alone : forall (T : Type) (TO : tracker_ops T) F tw (sty : style T) s,
  lookup "wide_msg" (customs sty) = None ->
  template sty = [PKey "wide_msg" None] ->
  format_state TO F sty s tw = split_nl (trim_end (pad_left_trunc (s_message s) tw)) [].
Proof. exact (@wide_msg_alone). Qed.
Print Assumptions C11_wide_msg_alone.

Theorem C11_wide_bar_alone : forall (T : Type) (TO : tracker_ops T) F tw (sty : style T) s,
  lookup "wide_bar" (customs sty) = None ->
  template sty = [PKey "wide_bar" None] ->
  format_state TO F sty s tw = split_nl (f_bar F (o_fraction (s_obs s)) tw) [].
Proof. exact (@wide_bar_alone). Qed.
Print Assumptions C11_wide_bar_alone.

(** the spinner counter after any history: number of tick() / update() / admitted position
    updates, saturating *)
Theorem C11_tick_count : forall (T : Type) (TO : tracker_ops T) F tw ops (b : bstate T),
  b_tick b <= U64MAX ->
  b_tick (fst (brun TO F tw b ops)) = N.min U64MAX (b_tick b + spins ops).
Proof. exact (@tick_count). Qed.
Print Assumptions C11_tick_count.

(** position / length / finished shown by the keys are those of the C07 model on the projected
    history (so C07's closed forms describe them) *)
Theorem C11_state_is_C07 : forall (T : Type) (TO : tracker_ops T) F tw ops (b : bstate T),
  proj (fst (brun TO F tw b ops)) = prun (proj b) (flat_map to_pops ops).
Proof. exact (@run_proj). Qed.
Print Assumptions C11_state_is_C07.

(** --- multi-line templates ------------------------------------------------------------------ *)
(** [format_state] transcribes the loop of ProgressStyle::format_state on its three locals
    (cur, buf, wide) for templates WITH NewLine parts; on a template without NewLine parts it is
    the single-line definition every theorem above was first stated for. *)
Theorem C11_single_line_agrees : forall (T : Type) (TO : tracker_ops T) F (sty : style T) s tw,
  single_line (template sty) ->
  format_state TO F sty s tw = format_state_single TO F sty s tw.
Proof. exact (@format_state_single_line). Qed.
Print Assumptions C11_single_line_agrees.

(** the scratch buffer: whatever [buf] holds when a part of the template is reached - e.g. the
    padded message WideElement::Message::expand leaves in it at the end of a {wide_msg} line -
    the lines produced are the same (the buffer is cleared before every use) *)
Theorem C11_scratch_buffer_never_leaks : forall (T : Type) (TO : tracker_ops T) F (sty : style T)
                                                s tw ps cur buf buf' wd,
  m_format TO F sty s tw ps cur buf wd = m_format TO F sty s tw ps cur buf' wd.
Proof. exact (@m_format_buf_irrelevant). Qed.
Print Assumptions C11_scratch_buffer_never_leaks.

(** the template lines: none contains a NewLine part, and joined by NewLine parts they are the
    template *)
Theorem C11_template_lines : forall ps,
  Forall single_line (split_lines ps) /\ unsplit (split_lines ps) = ps.
Proof. exact template_lines. Qed.
Print Assumptions C11_template_lines.

(** THE multi-line theorem.  For every template, snapshot and width: the frame is the
    concatenation, line by line, of the frames of the template lines, each rendered as a
    single-line template OF ITS OWN from the same snapshot - placeholders, widths, custom keys and
    a wide element of its own on any line.  (A line followed by a NewLine gives one empty row
    when it is empty; empty text after the last NewLine gives no row.)  So nothing computed for
    one line - position in [cur], scratch buffer, ... - reaches another line.  The hypothesis
    [line_ok] (a line WITHOUT a wide key of its own has no NUL character in its text) is needed:
    see C11_wide_element_carried_witness. *)
Theorem C11_multiline_frame : forall (T : Type) (TO : tracker_ops T) F tw (sty : style T) s,
  Forall (line_ok TO F sty s) (split_lines (template sty)) ->
  format_state TO F sty s tw
  = join_lines (map (line_alone TO F tw sty s) (split_lines (template sty))).
Proof. exact (@format_state_lines). Qed.
Print Assumptions C11_multiline_frame.

(** without [line_ok] the statement is false, in the model and (corpus:nul-carry) in the
    implementation: the wide element of an earlier line is still set on the later lines and
    replaces a NUL that is part of a later line's text *)
Theorem C11_wide_element_carried_witness :
  exists (sty : style htracker) (s : snapshot) (tw : N),
    format_state htracker_ops (table_formatters []) sty s tw
    <> join_lines (map (line_alone htracker_ops (table_formatters []) tw sty s)
                       (split_lines (template sty))).
Proof. exact wide_carry_exists. Qed.
Print Assumptions C11_wide_element_carried_witness.

(** THE property for multi-line templates of literals and documented, non-wide, non-shadowed
    keys (no hypothesis on the content): every line of every frame of every history is the
    concatenation of the documented values of the state the call leaves behind - all lines from
    that one state and the clock readings of that one call *)
Theorem C11_frame_documented_lines : forall (T : Type) (TO : tracker_ops T) F tw (b : bstate T) o e lines,
  snd (bstep TO F tw b (o, e)) = Some lines ->
  let b' := fst (bstep TO F tw b (o, e)) in
  b_status b' <> DoneHidden ->
  Forall (doc_part_ml (b_style b')) (template (b_style b')) ->
  lines = join_lines (map (doc_line F (b_style b') (snapshot_of b' (e_obs e)))
                          (split_lines (template (b_style b')))).
Proof. exact (@frame_documented_lines). Qed.
Print Assumptions C11_frame_documented_lines.

(** a wide key anywhere in a line (by C11_multiline_frame: in any line of a template), between
    parts that set no wide element and whose text has no NUL: the message truncated / padded to
    exactly the columns the rest of the line leaves free (trimmed when nothing follows it), resp.
    a bar of exactly that many columns, sits where the placeholder is *)
Theorem C11_wide_msg_line : forall (T : Type) (TO : tracker_ops T) F tw (sty : style T) s pre post,
  lookup "wide_msg" (customs sty) = None ->
  template sty = (pre ++ PKey "wide_msg" None :: post)%list ->
  Forall (part_narrow TO F sty s) pre ->
  Forall (part_narrow TO F sty s) post ->
  let a := concat (map (part_text TO F sty s) pre) in
  let b := concat (map (part_text TO F sty s) post) in
  ~ In 0 a -> ~ In 0 b ->
  let m := pad_left_trunc (s_message s) (tw - text_width (a ++ b)%list) in
  format_state TO F sty s tw
  = split_nl (a ++ (match b with [] => trim_end m | _ => m end) ++ b)%list [].
Proof. exact (@wide_msg_line). Qed.
Print Assumptions C11_wide_msg_line.

Theorem C11_wide_bar_line : forall (T : Type) (TO : tracker_ops T) F tw (sty : style T) s pre post,
  lookup "wide_bar" (customs sty) = None ->
  template sty = (pre ++ PKey "wide_bar" None :: post)%list ->
  Forall (part_narrow TO F sty s) pre ->
  Forall (part_narrow TO F sty s) post ->
  let a := concat (map (part_text TO F sty s) pre) in
  let b := concat (map (part_text TO F sty s) post) in
  ~ In 0 a -> ~ In 0 b ->
  format_state TO F sty s tw
  = split_nl (a ++ f_bar F (o_fraction (s_obs s)) (tw - text_width (a ++ b)%list) ++ b)%list [].
Proof. exact (@wide_bar_line). Qed.
Print Assumptions C11_wide_bar_line.

(** --- non-vacuity -------------------------------------------------------------------------- *)
(** a concrete run of the executable instance: length 10, template "{pos}/{len} {spinner} {lg}",
    inc(3) admitted at t=5, finish; the logger saw one tick with the post-state (3, Some 10) *)
Example C11_nonvacuous_run :
  let F := table_formatters [] in
  let sty := {| tick_strings := [[97]; [98]; [99]]; sty_tab := 2;
                customs := [("lg", (TLogger, @nil event))];
                template := [PKey "pos" None; PLit [47]; PKey "len" None; PLit [32];
                             PKey "spinner" None; PLit [32]; PKey "lg" None] |} in
  let o := {| o_fraction := 0; o_elapsed := 0; o_eta := 0; o_duration := 0; o_per_sec := 0 |} in
  let ops := [(OInc 3, {| e_now := 5; e_allowed := true; e_obs := o |});
              (OFinish FinAndLeave, {| e_now := 6; e_allowed := true; e_obs := o |})] in
  snd (brun htracker_ops F 80 (binit (Some 10) sty) ops)
  = [Some [[51; 47; 49; 48; 32; 98; 32; 76; 49; 44; 48; 44; 49; 32; 32; 51; 47; 49; 48]];
     Some [[49; 48; 47; 49; 48; 32; 99; 32; 76; 49; 44; 48; 44; 49; 32; 32; 49; 48; 47; 49; 48; 70]]]
  /\ bar_events htracker_ops F 80 (binit (Some 10) sty) ops
     = [(BTick, {| v_pos := 3; v_len := Some 10; v_finished := false |}, 5)].
Proof. split; vm_compute; reflexivity. Qed.

(** the hypotheses of C11_frame_documented on the WHOLE template of an actual draw, a template
    WITH keys - one of them {spinner} over tick strings that contain TABs:
    "{pos}/{len:5} {spinner}|{eta}", tab width 4, tick strings "\ta" "b\t" "\t", length 10,
    inc(3) admitted with eta() = 9 s.  The frame is "3/10    b    |9s" (the TAB of "b\t" is 4
    blanks), and it is what the conclusion of the theorem computes *)
Example C11_nonvacuous_frame_documented :
  let F := table_formatters [(6, 9000000000, 0, [57; 115])] in         (* {:#} HumanDuration(9 s) = "9s" *)
  let sty : style htracker :=
    {| tick_strings := [[9; 97]; [98; 9]; [9]]; sty_tab := 4; customs := [];
       template := [PKey "pos" None; PLit [47]; PKey "len" (Some 5); PLit [32];
                    PKey "spinner" None; PLit [124]; PKey "eta" None] |} in
  let e := {| e_now := 5; e_allowed := true;
              e_obs := {| o_fraction := 0; o_elapsed := 0; o_eta := 9000000000; o_duration := 0;
                          o_per_sec := 0 |} |} in
  let b := binit (Some 10) sty in
  let b' := fst (bstep htracker_ops F 80 b (OInc 3, e)) in
  let lines := [[51; 47; 49; 48; 32; 32; 32; 32; 98; 32; 32; 32; 32; 124; 57; 115]] in
  snd (bstep htracker_ops F 80 b (OInc 3, e)) = Some lines
  /\ b_status b' <> DoneHidden
  /\ Forall (doc_part (b_style b')) (template (b_style b'))
  /\ lines = match concat (map (doc_text F (b_style b') (snapshot_of b' (e_obs e)))
                               (template (b_style b'))) with
             | [] => []
             | line => split_nl line []
             end.
Proof.
  intros F sty e b b' lines.
  split; [vm_compute; reflexivity |]. split; [vm_compute; discriminate |].
  split; [| vm_compute; reflexivity].
  assert (Hs : b_style b' = sty) by (vm_compute; reflexivity). rewrite Hs.
  repeat (apply Forall_cons;
          [ first [ exact I
                  | cbn [doc_part]; repeat split;
                    try (intros; reflexivity); try discriminate;
                    try (apply mem_In; vm_compute; reflexivity) ] | ]).
  apply Forall_nil.
Qed.

(** the same for C11_frame_documented_lines: a two-line template with keys on both lines,
    "{pos}/{len}\n{spinner}|", and the frame "3/10" / "b    |" *)
Example C11_nonvacuous_frame_documented_lines :
  let F := table_formatters [] in
  let sty : style htracker :=
    {| tick_strings := [[9; 97]; [98; 9]; [9]]; sty_tab := 4; customs := [];
       template := [PKey "pos" None; PLit [47]; PKey "len" None; PNewLine;
                    PKey "spinner" None; PLit [124]] |} in
  let e := {| e_now := 5; e_allowed := true;
              e_obs := {| o_fraction := 0; o_elapsed := 0; o_eta := 0; o_duration := 0;
                          o_per_sec := 0 |} |} in
  let b := binit (Some 10) sty in
  let b' := fst (bstep htracker_ops F 80 b (OInc 3, e)) in
  let lines := [[51; 47; 49; 48]; [98; 32; 32; 32; 32; 124]] in
  snd (bstep htracker_ops F 80 b (OInc 3, e)) = Some lines
  /\ b_status b' <> DoneHidden
  /\ Forall (doc_part_ml (b_style b')) (template (b_style b'))
  /\ lines = join_lines (map (doc_line F (b_style b') (snapshot_of b' (e_obs e)))
                             (split_lines (template (b_style b')))).
Proof.
  intros F sty e b b' lines.
  split; [vm_compute; reflexivity |]. split; [vm_compute; discriminate |].
  split; [| vm_compute; reflexivity].
  assert (Hs : b_style b' = sty) by (vm_compute; reflexivity). rewrite Hs.
  repeat (apply Forall_cons;
          [ first [ exact I
                  | cbn [doc_part_ml doc_part]; repeat split;
                    try (intros; reflexivity); try discriminate;
                    try (apply mem_In; vm_compute; reflexivity) ] | ]).
  apply Forall_nil.
Qed.

(** {spinner} follows the bar's tab width: tick strings "\ta" "b\t" "\t", bar built with tab
    width 4; inc(3) draws "b    |", set_tab_width(2) redraws "b  |", the finish draws the final
    tick string "\t" as two blanks *)
Example C11_nonvacuous_spinner_tab :
  let F := table_formatters [] in
  let sty : style htracker :=
    {| tick_strings := [[9; 97]; [98; 9]; [9]]; sty_tab := 4; customs := [];
       template := [PKey "spinner" None; PLit [124]] |} in
  let o := {| o_fraction := 0; o_elapsed := 0; o_eta := 0; o_duration := 0; o_per_sec := 0 |} in
  let ops := [(OInc 3, {| e_now := 5; e_allowed := true; e_obs := o |});
              (OSetTabWidth 2, {| e_now := 6; e_allowed := true; e_obs := o |});
              (OFinish FinAndLeave, {| e_now := 7; e_allowed := true; e_obs := o |})] in
  snd (brun htracker_ops F 80 (binit (Some 10) sty) ops)
  = [Some [[98; 32; 32; 32; 32; 124]]; Some [[98; 32; 32; 124]]; Some [[32; 32; 124]]].
Proof. vm_compute. reflexivity. Qed.

(** missing length / len < pos / u64::MAX snapshots exist and render *)
Example C11_nonvacuous_missing_len :
  let s := {| s_pos := 18446744073709551615; s_len := None; s_tick := 7; s_finished := false;
              s_message := []; s_prefix := [];
              s_obs := {| o_fraction := 0; o_elapsed := 0; o_eta := 0; o_duration := 0; o_per_sec := 0 |} |} in
  fst (key_value (table_formatters []) [[97]; [98]; [99]] 8 s "len" None)
  = [49; 56; 52; 52; 54; 55; 52; 52; 48; 55; 51; 55; 48; 57; 53; 53; 49; 54; 49; 53]
  /\ fst (key_value (table_formatters []) [[97]; [98]; [99]] 8 s "spinner" None) = [98].
Proof. split; vm_compute; reflexivity. Qed.

(** a multi-line template with a wide message on a non-final line and placeholders after it (the
    witness of seeded defect C10-2: "{prefix}: {wide_msg}\n[{pos}/{len}] {percent}%", 40 columns,
    prefix "job", message "hello", 3/10): the frame, its lines on their own, and the hypothesis
    of C11_multiline_frame *)
Example C11_nonvacuous_multiline :
  let F := table_formatters [(8, 1050253722, 0, [51; 48])] in          (* {:.0} of 0.3f32*100 = "30" *)
  let sty : style htracker :=
    {| tick_strings := [[97]; [98]]; sty_tab := 8; customs := [];
       template := [PKey "prefix" None; PLit [58; 32]; PKey "wide_msg" None; PNewLine;
                    PLit [91]; PKey "pos" None; PLit [47]; PKey "len" None; PLit [93; 32];
                    PKey "percent" None; PLit [37]] |} in
  let s := {| s_pos := 3; s_len := Some 10; s_tick := 1; s_finished := false;
              s_message := [104; 101; 108; 108; 111]; s_prefix := [106; 111; 98];
              s_obs := {| o_fraction := 1050253722; o_elapsed := 0; o_eta := 0; o_duration := 0;
                          o_per_sec := 0 |} |} in
  format_state htracker_ops F sty s 40
  = [[106; 111; 98; 58; 32; 104; 101; 108; 108; 111];                   (* "job: hello" *)
     [91; 51; 47; 49; 48; 93; 32; 51; 48; 37]]                          (* "[3/10] 30%" *)
  /\ map (line_alone htracker_ops F 40 sty s) (split_lines (template sty))
     = [[[106; 111; 98; 58; 32; 104; 101; 108; 108; 111]]; [[91; 51; 47; 49; 48; 93; 32; 51; 48; 37]]]
  /\ Forall (line_ok htracker_ops F sty s) (split_lines (template sty))
  /\ single_line (template (with_template sty [PLit [91]; PKey "pos" None])).
Proof.
  split; [vm_compute; reflexivity |]. split; [vm_compute; reflexivity |]. split.
  - repeat (apply Forall_cons; [ unfold line_ok; vm_compute; intros H; first [ discriminate H | intuition discriminate ] | ]).
    apply Forall_nil.
  - repeat constructor; discriminate.
Qed.

(** empty lines: "a\n\nb\n" draws "a", an empty row, "b" and no fourth row *)
Example C11_nonvacuous_empty_lines :
  let sty : style htracker :=
    {| tick_strings := [[97]; [98]]; sty_tab := 8; customs := [];
       template := [PLit [97]; PNewLine; PNewLine; PLit [98]; PNewLine] |} in
  let s := {| s_pos := 0; s_len := None; s_tick := 0; s_finished := false;
              s_message := []; s_prefix := [];
              s_obs := {| o_fraction := 0; o_elapsed := 0; o_eta := 0; o_duration := 0; o_per_sec := 0 |} |} in
  format_state htracker_ops (table_formatters []) sty s 80 = [[97]; []; [98]]
  /\ split_lines (template sty) = [[PLit [97]]; []; [PLit [98]]; []]
  /\ Forall (doc_part_ml sty) (template sty).
Proof.
  split; [vm_compute; reflexivity |]. split; [reflexivity |].
  repeat (apply Forall_cons; [exact I |]). apply Forall_nil.
Qed.
