(** C07 – Position and length bookkeeping, including concurrent increments.
    Only statements; every proof is [exact <lemma from IndProofs>]. *)
From IndModel Require Import Base Pos.
From IndProofs Require Import PosProofs.
From Coq Require Import ZArith List.
Open Scope Z_scope.

(** position() equals the value defined by the history (closed form [pos_spec],
    wrapping at 2^64) and is always a u64 – for every history of u64 arguments. *)
Theorem C07_pos_history : forall (l0 : option N) (ops : list pop),
  match l0 with Some l => (l < U64)%N | None => True end ->
  Forall op_wf ops ->
  Z.of_N (pos (prun (pinit l0) ops)) = pos_spec 0 l0 ops mod 18446744073709551616
  /\ (pos (prun (pinit l0) ops) < U64)%N.
Proof. exact pos_history. Qed.
Print Assumptions C07_pos_history.

(** length() follows set/inc/dec/unset with saturation at 0 and 2^64-1. *)
Theorem C07_len_history : forall (l0 : option N) (ops : list pop),
  match l0 with Some l => (l < U64)%N | None => True end ->
  Forall op_wf ops ->
  option_map Z.of_N (len (prun (pinit l0) ops)) = len_spec (option_map Z.of_N l0) ops.
Proof. exact len_history. Qed.
Print Assumptions C07_len_history.

(** is_finished() is true exactly after a finish/abandon not followed by reset(). *)
Theorem C07_finished_history : forall ops s,
  finished (prun s ops) = fin_spec (finished s) ops.
Proof. exact finished_history. Qed.
Print Assumptions C07_finished_history.

(** Concurrent inc/dec from any number of threads/clones: every interleaving
    (any [Merge] of the per-thread op lists) ends at start + sum of all deltas
    mod 2^64; nothing is lost, length and status untouched.  Assumes each
    fetch_add/fetch_sub is one atomic step (hardware; see DESIGN "partial"). *)
Theorem C07_interleaving : forall (ts : list (list pop)) (l : list pop),
  Merge ts l ->
  Forall (Forall is_incdec) ts ->
  forall s, (pos s < U64)%N ->
    Z.of_N (pos (prun s l)) = (Z.of_N (pos s) + total_delta ts) mod 18446744073709551616
    /\ len (prun s l) = len s /\ finished (prun s l) = finished s.
Proof. exact interleaving. Qed.
Print Assumptions C07_interleaving.

(** Non-vacuity: a concrete wrapping history and a concrete 2-thread merge. *)
Example C07_nonvacuous_history :
  let ops := [Inc 18446744073709551615; Inc 2; Dec 5; SetLen 7; IncLen 18446744073709551615;
              Finish AndLeave; ResetAll; Dec 1]%N in
  Forall op_wf ops /\
  pos (prun (pinit (Some 3%N)) ops) = 18446744073709551615%N /\
  len (prun (pinit (Some 3%N)) ops) = Some 18446744073709551615%N.
Proof. repeat split; repeat constructor. Qed.

Example C07_nonvacuous_merge :
  Merge [[Inc 1; Inc 2]; [Dec 4]]%N [Inc 1; Dec 4; Inc 2]%N.
Proof.
  apply (Merge_cons [] (Inc 1%N) [Inc 2%N] [[Dec 4%N]]).
  apply (Merge_cons [[Inc 2%N]] (Dec 4%N) [] []).
  apply (Merge_cons [] (Inc 2%N) [] [[]]).
  apply Merge_nil. repeat constructor.
Qed.
