(** C07 – Position and length bookkeeping, including concurrent increments.
    Only statements; every proof is [exact <lemma from IndProofs.PosProofs>]; every definition
    used in a statement is in IndModel.Pos ([pstep], [prun], [pos_spec], [len_spec], [fin_spec],
    [Merge], [total_delta]).  The model has no panic outcome ("never panicking" is checked on
    the implementation only) and the fraction clause is C13_fraction_* in props/C13.v; see
    docs/C07.md. *)
From IndModel Require Import Base Pos.
From IndProofs Require Import PosProofs.
From Coq Require Import ZArith List.
Open Scope Z_scope.

(** position() equals the value defined by the history – [pos_spec]: the history evaluated in Z
    without machine arithmetic, reduced mod 2^64 once at the end – and is always a u64, for
    every history of u64 arguments. *)
Theorem C07_pos_history : forall (l0 : option N) (ops : list pop),
  match l0 with Some l => (l < U64)%N | None => True end ->
  Forall op_wf ops ->
  Z.of_N (pos (prun (pinit l0) ops)) = pos_spec 0 l0 ops mod 18446744073709551616
  /\ (pos (prun (pinit l0) ops) < U64)%N.
Proof. exact pos_history. Qed.
Print Assumptions C07_pos_history.

(** length() follows set/inc/dec/unset with saturation at 0 and 2^64-1. *)
Theorem C07_len_history : forall (l0 : option N) (ops : list pop),
  match l0 with Some l => (l < U64)%N | None => True end ->
  Forall op_wf ops ->
  option_map Z.of_N (len (prun (pinit l0) ops)) = len_spec (option_map Z.of_N l0) ops.
Proof. exact len_history. Qed.
Print Assumptions C07_len_history.

(** is_finished() is true exactly after a finish/abandon not followed by reset(). *)
Theorem C07_finished_history : forall ops s,
  finished (prun s ops) = fin_spec (finished s) ops.
Proof. exact finished_history. Qed.
Print Assumptions C07_finished_history.

(** Concurrent inc/dec from any number of threads/clones: every interleaving (any [Merge] of
    the per-thread op lists, each thread's order kept) ends at start + sum of all deltas mod
    2^64; nothing is lost, length and status untouched.
    PARTIAL: the statement is about the interleaving semantics in which each inc/dec is ONE
    indivisible step.  That AtomicU64::fetch_add / fetch_sub (src/state.rs:606, 610) are
    indivisible is an assumption about std/hardware, not a theorem; a load-then-store
    implementation (seeded C07-1) satisfies this theorem's model and is caught only by the
    16-thread stress of the harness. *)
Theorem C07_interleaving_atomic_partial : forall (ts : list (list pop)) (l : list pop),
  Merge ts l ->
  Forall (Forall is_incdec) ts ->
  forall s, (pos s < U64)%N ->
    Z.of_N (pos (prun s l)) = (Z.of_N (pos s) + total_delta ts) mod 18446744073709551616
    /\ len (prun s l) = len s /\ finished (prun s l) = finished s.
Proof. exact interleaving. Qed.
Print Assumptions C07_interleaving_atomic_partial.

(** Mixed concurrent histories (set_position / reset / finish / length changes racing with
    inc/dec): under the same assumption - every call is one step of the interleaving, which
    for the calls that take the bar's mutex is the mutex and for inc/dec/set_position the
    single atomic access - every interleaving is an ordinary history, so the three getters
    are what the history theorems say for THAT interleaving.  (Which interleaving happened
    is not determined by the program: unlike inc/dec these operations do not commute.) *)
Theorem C07_interleaving_any_ops_atomic_partial :
  forall (l0 : option N) (ts : list (list pop)) (l : list pop),
  match l0 with Some n => (n < U64)%N | None => True end ->
  Merge ts l -> Forall (Forall op_wf) ts ->
  Z.of_N (pos (prun (pinit l0) l)) = pos_spec 0 l0 l mod 18446744073709551616
  /\ option_map Z.of_N (len (prun (pinit l0) l)) = len_spec (option_map Z.of_N l0) l
  /\ finished (prun (pinit l0) l) = fin_spec false l.
Proof. exact interleaving_any. Qed.
Print Assumptions C07_interleaving_any_ops_atomic_partial.

(** Non-vacuity: a concrete wrapping history and a concrete 2-thread merge. *)
Example C07_nonvacuous_history :
  let ops := [Inc 18446744073709551615; Inc 2; Dec 5; SetLen 7; IncLen 18446744073709551615;
              Finish AndLeave; ResetAll; Dec 1]%N in
  Forall op_wf ops /\
  pos (prun (pinit (Some 3%N)) ops) = 18446744073709551615%N /\
  len (prun (pinit (Some 3%N)) ops) = Some 18446744073709551615%N.
Proof. repeat split; repeat constructor. Qed.

Example C07_nonvacuous_merge :
  Merge [[Inc 1; Inc 2]; [Dec 4]]%N [Inc 1; Dec 4; Inc 2]%N.
Proof.
  apply (Merge_cons [] (Inc 1%N) [Inc 2%N] [[Dec 4%N]]).
  apply (Merge_cons [[Inc 2%N]] (Dec 4%N) [] []).
  apply (Merge_cons [] (Inc 2%N) [] [[]]).
  apply Merge_nil. repeat constructor.
Qed.
