(** C06 - Hidden or non-terminal targets are silent and state-equivalent.
    Only statements; every proof is [exact <lemma from IndProofs.SimProofs>].
    Model: coq/model/Sys.v (the drawing system), definitions of the statements: model/SimSpec.v.
    In the model every way of being hidden is the target [THidden] (ProgressDrawTarget::hidden(),
    a Term that is not a tty, a bar removed from its MultiProgress) or membership ([TMulti]) in a
    MultiProgress whose own target is not a terminal; harness/src/bin/c06.rs exercises the four
    Rust-level ways on the implementation. *)
From IndModel Require Import Base Text Draw Sys SimSpec SysCheck SimCheck.
From IndProofs Require Import SimProofs SimIterHistProofs.
From Coq Require Import List NArith.
Import ListNotations.
Open Scope N_scope.

(** One call whose subject (the bar it is made on; the MultiProgress for its own calls) is
    hidden, in ANY state (visible bars may sit next to it), for any terminal size and any fault
    oracle: the only TermLike calls are the ones the closure handed to suspend() makes itself,
    the call counter advances by exactly those, the call reports Ok. *)
Theorem C06_silent_step : forall W H fails s now o,
  subject_hidden s o = true ->
  snd (fst (step W H fails s now o)) = fst (emit_each fails (s_calls s) (closure_writes o)) /\
  s_calls (fst (fst (step W H fails s now o))) = s_calls s + N.of_nat (length (closure_writes o)) /\
  snd (step W H fails s now o) = true.
Proof. exact step_silent. Qed.
Print Assumptions C06_silent_step.

(** No public call creates a terminal target: a system in which nothing can draw stays one. *)
Theorem C06_all_hidden_preserved : forall W H fails s now o,
  all_hidden s -> all_hidden (fst (fst (step W H fails s now o))).
Proof. exact all_hidden_preserved. Qed.
Print Assumptions C06_all_hidden_preserved.

(** Every history from an all-hidden state (closures of suspend write nothing themselves): the
    emitted call list is [], the call counter does not advance, still all-hidden. *)
Theorem C06_silent : forall W H fails ops s,
  all_hidden s ->
  Forall (fun to => closure_writes (snd to) = []) ops ->
  snd (run W H fails s ops) = [] /\
  s_calls (fst (run W H fails s ops)) = s_calls s /\
  all_hidden (fst (run W H fails s ops)).
Proof. exact run_all_hidden_silent. Qed.
Print Assumptions C06_silent.

(** The same without the restriction on closures: every step's calls are exactly what its
    closure wrote itself. *)
Theorem C06_silent_closures : forall W H fails ops s,
  all_hidden s ->
  Forall (fun '(s0, o, e) => e = fst (emit_each fails (s_calls s0) (closure_writes o)))
         (run_steps W H fails s ops).
Proof. exact run_all_hidden_steps. Qed.
Print Assumptions C06_silent_closures.

(** A hidden bar stays hidden until it is added to a MultiProgress ... *)
Theorem C06_hidden_preserved : forall W H fails s now o j,
  bar_hidden s j = true -> (forall l, o <> OInsert l j) ->
  bar_hidden (fst (fst (step W H fails s now o))) j = true.
Proof. exact hidden_preserved. Qed.
Print Assumptions C06_hidden_preserved.

(** ... so, mixed systems: over every history in which bar [b] is not added to a
    MultiProgress, no call made on the hidden bar [b] contributes a TermLike call. *)
Theorem C06_hidden_bar_never_draws : forall W H fails b ops s,
  bar_hidden s b = true ->
  Forall (fun to => forall l, snd to <> OInsert l b) ops ->
  Forall (fun '(s0, o, e) => op_bar o = Some b ->
            e = fst (emit_each fails (s_calls s0) (closure_writes o)))
         (run_steps W H fails s ops).
Proof. exact hidden_bar_never_draws. Qed.
Print Assumptions C06_hidden_bar_never_draws.

(** The logic of all bars (position, length, message, prefix, status, tick, template,
    on_finish, position limiter, alive) after a call is the function [lstep] of the logic
    before it: no target, terminal size, MultiProgress state or fault oracle is read. *)
Theorem C06_logic_step : forall W H fails s now o,
  bars_logic (fst (fst (step W H fails s now o))) = lstep now o (bars_logic s).
Proof. exact step_logic. Qed.
Print Assumptions C06_logic_step.

(** C06_equiv: two systems with equal logic (same creation times, hence the same position
    limiter) - whatever their targets, terminals, MultiProgress states and fault oracles -
    have equal logic after EVERY op of the same timed history. *)
Theorem C06_equiv : forall W1 H1 f1 W2 H2 f2 s1 s2 ops,
  bars_logic s1 = bars_logic s2 ->
  run_logics W1 H1 f1 s1 ops = run_logics W2 H2 f2 s2 ops.
Proof. exact logic_simulation. Qed.
Print Assumptions C06_equiv.

(** the two twins of the property text: every target hidden (standalone bars) / only the
    MultiProgress hidden (members) *)
Theorem C06_equiv_twins : forall W H fails W2 H2 f2 s ops,
  run_logics W H fails s ops = run_logics W2 H2 f2 (hide_all s) ops /\
  run_logics W H fails s ops = run_logics W2 H2 f2 (hide_mp s) ops.
Proof. exact hidden_twins. Qed.
Print Assumptions C06_equiv_twins.

(** the getters are projections of the logic record *)
Theorem C06_getters : forall b,
  b_pos b = l_pos (logic_of b) /\ b_len b = l_len (logic_of b) /\ b_msg b = l_msg (logic_of b)
  /\ b_prefix b = l_prefix (logic_of b) /\ finished b = l_finished (logic_of b)
  /\ b_tick b = l_tick (logic_of b) /\ b_ap b = l_ap (logic_of b) /\ b_alive b = l_alive (logic_of b).
Proof. exact getters_of_logic. Qed.
Print Assumptions C06_getters.

(** Iterator-driven completion.  The end of a wrapped iterator (ProgressBarIter::next / next_back
    returning None, src/iter.rs:125-126, :149-150; the Stream adaptor's poll_next, :319-323, has the
    same code but is exercised by C17's check, not by C06's) is not an op of Sys.v but
    [iter_none_step] (SimSpec.v; C04_iter): nothing on a finished bar, finish_using_style
    otherwise - in particular NO test of is_hidden().  On the logic projection it is
    [l_iter_none], again without reading any target, so C06_equiv extends to histories that
    contain it: a hidden bar driven to exhaustion is finished exactly like its visible twin,
    BEFORE the last handle is dropped ... *)
Theorem C06_iter_none_logic : forall W H fails s now b,
  bars_logic (fst (fst (iter_none_step W H fails s now b)))
  = updN (bars_logic s) (N.to_nat b) l_iter_none.
Proof. exact iter_none_logic. Qed.
Print Assumptions C06_iter_none_logic.

Theorem C06_iter_none_twins : forall W1 H1 f1 W2 H2 f2 s1 s2 now b,
  bars_logic s1 = bars_logic s2 ->
  bars_logic (fst (fst (iter_none_step W1 H1 f1 s1 now b)))
  = bars_logic (fst (fst (iter_none_step W2 H2 f2 s2 now b))).
Proof. exact iter_none_twins. Qed.
Print Assumptions C06_iter_none_twins.

(** ... and it is silent there. *)
Theorem C06_iter_none_silent : forall W H fails s now b,
  bar_hidden s b = true ->
  snd (fst (iter_none_step W H fails s now b)) = [] /\
  s_calls (fst (fst (iter_none_step W H fails s now b))) = s_calls s.
Proof. exact iter_none_silent. Qed.
Print Assumptions C06_iter_none_silent.

(** C06_equiv_with_iterators: the history-level statement for histories whose events are public
    calls AND ends of wrapped iterators ([iop] of model/SimCheck.v: [IOp o], [IterNone b] = the
    None branch of ProgressBarIter::next / next_back, [IterNoneThenDrop b] = the same on an
    iterator that holds the only handle and is consumed by value; [irun] / [irun_logics] run such a
    history with [istep]).  Two systems with equal logic - whatever their targets, terminals,
    MultiProgress states and fault oracles - have equal logic (hence equal getters, C06_getters)
    after EVERY event; and if in the first one nothing can draw (and the suspend closures write
    nothing themselves), it makes no terminal call over the whole history.  By induction from
    C06_logic_step / C06_iter_none_logic and C06_silent_step / C06_iter_none_silent. *)
Theorem C06_equiv_with_iterators : forall W1 H1 f1 W2 H2 f2 s1 s2 h,
  bars_logic s1 = bars_logic s2 -> all_hidden s1 ->
  Forall (fun x => iclosure_writes (snd x) = []) h ->
  irun_logics W1 H1 f1 s1 h = irun_logics W2 H2 f2 s2 h /\ snd (irun W1 H1 f1 s1 h) = [].
Proof. exact equiv_with_iterators_hidden. Qed.
Print Assumptions C06_equiv_with_iterators.

(** Non-vacuity: a visible system (a standalone bar on a 20 Hz terminal, a member of a visible
    MultiProgress, a detached bar) draws; its hidden twin is all_hidden, emits nothing on the
    same history and has the same logic after every op. *)
Definition ex_sys : sys :=
  mksys [new_bar (Some 10) FAndLeave [PMsg; PLit [58]; PPos] (TTerm (new_ttarget (Some 20) 0)) 0;
         new_bar None (FWithMessage [100]) [PPos; PNewLine; PMsg] THidden 0;
         new_bar (Some 3) FAndClear [PSpinner] THidden 0]
        (new_ms (TTerm (new_ttarget None 0))) 0.
Definition ex_ops : list (N * op) :=
  [(0, OInsert BEnd 1); (1000, OInc 0 3); (2000, OSetMsg 1 [104; 105]); (2000, OPrintln 0 [120]);
   (3000, OMPrintln [121]); (4000, OFinish 1 FAbandon); (5000, ORemove 1); (6000, OTick 1);
   (7000, ODrop 0); (8000, OFinishUsingStyle 2)].

Example C06_nonvacuous_visible_draws : 10 <? N.of_nat (length (snd (run 20 10 no_faults ex_sys ex_ops))) = true.
Proof. vm_compute. reflexivity. Qed.
Example C06_nonvacuous_hidden_twin :
  all_hidden (hide_all ex_sys) /\
  Forall (fun to => closure_writes (snd to) = []) ex_ops /\
  snd (run 20 10 no_faults (hide_all ex_sys) ex_ops) = [] /\
  run_logics 20 10 no_faults ex_sys ex_ops = run_logics 20 10 no_faults (hide_all ex_sys) ex_ops /\
  map (map l_pos) (run_logics 20 10 no_faults ex_sys ex_ops)
  = [[0;0;0]; [3;0;0]; [3;0;0]; [3;0;0]; [3;0;0]; [3;0;0]; [3;0;0]; [3;0;0]; [10;0;0]; [10;0;3]].
Proof.
  split; [apply hide_all_hidden|]. split; [repeat constructor|]. vm_compute. repeat split.
Qed.
(* the mixed statement is not vacuous: bar 2 is hidden next to the visible bar 0 *)
Example C06_nonvacuous_mixed : bar_hidden ex_sys 2 = true /\ bar_hidden ex_sys 0 = false.
Proof. split; reflexivity. Qed.

(* iterator events: bar 0 (visible) and bar 1 are driven to exhaustion through another handle, bar 2
   through its only handle; an exhausted iterator polled again changes nothing *)
Definition ex_ih : list (N * iop) :=
  [(0, IOp (OInsert BEnd 1)); (1000, IOp (OInc 0 3)); (2000, IterNone 0); (3000, IterNone 1);
   (4000, IterNoneThenDrop 2); (5000, IterNone 0)].
Example C06_nonvacuous_iterators :
  all_hidden (hide_all ex_sys) /\ Forall (fun x => iclosure_writes (snd x) = []) ex_ih /\
  bars_logic (hide_all ex_sys) = bars_logic ex_sys /\
  snd (irun 20 10 no_faults (hide_all ex_sys) ex_ih) = [] /\
  4 <? N.of_nat (length (snd (irun 20 10 no_faults ex_sys ex_ih))) = true /\
  map (map l_finished) (irun_logics 20 10 no_faults (hide_all ex_sys) ex_ih)
  = [[false; false; false]; [false; false; false]; [true; false; false]; [true; true; false];
     [true; true; true]; [true; true; true]] /\
  map (map l_pos) (irun_logics 20 10 no_faults (hide_all ex_sys) ex_ih)
  = map (map l_pos) (irun_logics 20 10 no_faults ex_sys ex_ih).
Proof.
  split; [apply hide_all_hidden|]. split; [repeat constructor|]. split; [apply hide_all_logic|].
  vm_compute. repeat split.
Qed.
