(** Proofs about model/Template.v (C10). *)
From IndModel Require Import Base Template.
From Coq Require Import Lia List NArith Bool.
Require Import ZifyBool ZifyNat ZifyN.
Import ListNotations.
Open Scope N_scope.
Arguments N.add : simpl never.
Arguments N.sub : simpl never.
Arguments N.mul : simpl never.
Arguments N.div : simpl never.
Arguments N.modulo : simpl never.

(** * u16::from_str on digit strings *)
Definition dstep (a d : N) : N := a * 10 + (d - 48).

Lemma digits_value_fold ds : digits_value ds = fold_left dstep ds 0.
Proof. reflexivity. Qed.

Lemma fold_dstep_mono ds : forall a, a <= fold_left dstep ds a.
Proof.
  induction ds as [|d r IH]; intros a; cbn [fold_left]; [lia|].
  specialize (IH (dstep a d)). unfold dstep in *. lia.
Qed.

Lemma u16_digits_spec ds : forall acc,
  acc < U16 -> forallb is_digit ds = true ->
  u16_digits acc ds =
    (if fold_left dstep ds acc <? U16 then Some (fold_left dstep ds acc) else None).
Proof.
  induction ds as [|d r IH]; intros acc Hacc Hd; cbn [u16_digits fold_left].
  - destruct (N.ltb_spec acc U16); [reflexivity | lia].
  - cbn [forallb] in Hd. apply andb_prop in Hd. destruct Hd as [Hd Hr]. rewrite Hd.
    pose proof (fold_dstep_mono r (dstep acc d)) as Hm.
    change (acc * 10 + (d - 48)) with (dstep acc d).
    assert (Hds : dstep acc d = acc * 10 + (d - 48)) by reflexivity.
    destruct (N.leb_spec U16 (acc * 10)) as [Hov|Hov].
    { destruct (N.ltb_spec (fold_left dstep r (dstep acc d)) U16); [lia | reflexivity]. }
    destruct (N.leb_spec U16 (dstep acc d)) as [Hov2|Hov2].
    { destruct (N.ltb_spec (fold_left dstep r (dstep acc d)) U16); [lia | reflexivity]. }
    apply IH; assumption.
Qed.

Lemma parse_u16_digits ds :
  ds <> [] -> forallb is_digit ds = true ->
  parse_u16 ds = (if digits_value ds <? U16 then Some (digits_value ds) else None).
Proof.
  intros Hne Hd. destruct ds as [|c r]; [contradiction|].
  unfold parse_u16.
  assert (Hc : (c =? 43) = false).
  { cbn [forallb] in Hd. apply andb_prop in Hd. destruct Hd as [Hd _]. unfold is_digit in Hd. lia. }
  rewrite Hc. rewrite u16_digits_spec; [reflexivity | reflexivity | assumption].
Qed.

(** * running the machine *)
Lemma trun_app cs1 : forall s cs2,
  trun s (cs1 ++ cs2) = match trun s cs1 with SOk s' => trun s' cs2 | e => e end.
Proof.
  induction cs1 as [|c r IH]; intros s cs2; cbn [trun app]; [reflexivity|].
  destruct (tstep s c); [apply IH | reflexivity].
Qed.

Lemma trun_cons s c r :
  trun s (c :: r) = match tstep s c with SOk s' => trun s' r | e => e end.
Proof. reflexivity. Qed.

Lemma phase2_same st parts buf :
  match st with SLiteral | SKey | SWidth | SFirstStyle | SAltStyle => True | _ => False end ->
  phase2 st st parts buf = Some (parts, buf).
Proof. destruct st, buf; intros H; try contradiction; reflexivity. Qed.

(** single steps on fixed characters *)
Lemma step_open parts buf :
  tstep (mkpst SLiteral parts buf) 123 = SOk (mkpst SMaybeOpen parts buf).
Proof. destruct buf; reflexivity. Qed.

Lemma step_open_open parts buf :
  tstep (mkpst SMaybeOpen parts buf) 123 = SOk (mkpst SLiteral parts (buf ++ [123])).
Proof. destruct buf; reflexivity. Qed.

Lemma step_close1 parts buf :
  tstep (mkpst SLiteral parts buf) 125 = SOk (mkpst SDoubleClose parts (buf ++ [125])).
Proof. destruct buf; reflexivity. Qed.

Lemma step_close2 parts buf :
  tstep (mkpst SDoubleClose parts buf) 125 = SOk (mkpst SLiteral parts buf).
Proof. destruct buf; reflexivity. Qed.

Definition take_lit (buf : list N) (parts : list part) : list part :=
  if nonempty buf then PLit buf :: parts else parts.

Lemma step_newline parts buf :
  tstep (mkpst SLiteral parts buf) 10 = SOk (mkpst SLiteral (PNewLine :: take_lit buf parts) []).
Proof. destruct buf; reflexivity. Qed.

Lemma step_brace_ws parts buf c :
  is_ascii_ws c = true ->
  tstep (mkpst SMaybeOpen parts buf) c =
  SOk (mkpst SLiteral (backtrack buf [] c parts) []).
Proof.
  intros H. unfold tstep. cbn [p_state p_parts p_buf phase1].
  assert (Hc : (c =? 123) = false) by (unfold is_ascii_ws in H; lia).
  rewrite Hc, H. unfold backtrack. destruct (c =? 10); reflexivity.
Qed.

(** characters of a literal *)
Lemma step_lit_char parts buf c :
  (c =? 123) = false -> (c =? 125) = false -> (c =? 10) = false ->
  tstep (mkpst SLiteral parts buf) c = SOk (mkpst SLiteral parts (buf ++ [c])).
Proof.
  intros H1 H2 H3. unfold tstep. cbn [p_state p_parts p_buf phase1]. rewrite H1, H2, H3.
  rewrite phase2_same by exact I. reflexivity.
Qed.

Lemma run_lit s : forall parts buf rest,
  lit_ok s = true ->
  trun (mkpst SLiteral parts buf) (s ++ rest) = trun (mkpst SLiteral parts (buf ++ s)) rest.
Proof.
  induction s as [|c r IH]; intros parts buf rest H; cbn [app].
  - rewrite app_nil_r. reflexivity.
  - cbn [lit_ok forallb] in H. apply andb_prop in H. destruct H as [Hc Hr].
    rewrite trun_cons, step_lit_char by lia.
    fold (lit_ok r) in Hr. rewrite IH by exact Hr. rewrite <- app_assoc. reflexivity.
Qed.

(** the key *)
Lemma key_char_facts c : key_char c = true ->
  is_ascii_ws c = false /\ (c =? 125) = false /\ (c =? 58) = false.
Proof. unfold key_char. destruct (is_ascii_ws c), (c =? 125), (c =? 58); cbn; intuition congruence. Qed.

Lemma step_key_first parts buf c :
  key_char c = true -> (c =? 123) = false ->
  tstep (mkpst SMaybeOpen parts buf) c = SOk (mkpst SKey (take_lit buf parts) [c]).
Proof.
  intros H H1. destruct (key_char_facts c H) as (Hw & H2 & H3).
  unfold tstep. cbn [p_state p_parts p_buf phase1]. rewrite H1, Hw, H2, H3. cbn [negb andb].
  destruct buf; reflexivity.
Qed.

Lemma step_key_char parts buf c :
  key_char c = true ->
  tstep (mkpst SKey parts buf) c = SOk (mkpst SKey parts (buf ++ [c])).
Proof.
  intros H. destruct (key_char_facts c H) as (Hw & H2 & H3).
  unfold tstep. cbn [p_state p_parts p_buf phase1]. rewrite Hw, H2, H3. cbn [negb andb].
  rewrite phase2_same by exact I. reflexivity.
Qed.

Lemma run_key_chars r : forall parts buf rest,
  forallb key_char r = true ->
  trun (mkpst SKey parts buf) (r ++ rest) = trun (mkpst SKey parts (buf ++ r)) rest.
Proof.
  induction r as [|c r IH]; intros parts buf rest H; cbn [app].
  - rewrite app_nil_r. reflexivity.
  - cbn [forallb] in H. apply andb_prop in H. destruct H as [Hc Hr].
    rewrite trun_cons, step_key_char by exact Hc.
    rewrite IH by exact Hr. rewrite <- app_assoc. reflexivity.
Qed.

Definition ph0 (k : list N) : ph := mkph k ALeft None false None None.

Lemma step_key_close parts k :
  k <> [] ->
  tstep (mkpst SKey parts k) 125 = SOk (mkpst SLiteral (PPh (ph0 k) :: parts) []).
Proof. intros H. destruct k; [contradiction | reflexivity]. Qed.

Lemma step_key_colon parts k :
  k <> [] ->
  tstep (mkpst SKey parts k) 58 = SOk (mkpst SAlign (PPh (ph0 k) :: parts) []).
Proof. intros H. destruct k; [contradiction | reflexivity]. Qed.

(** '{' key : from Literal to Key with the whole key in the buffer *)
Lemma run_open_key k parts buf rest :
  key_ok k = true ->
  trun (mkpst SLiteral parts buf) (123 :: k ++ rest) =
  trun (mkpst SKey (take_lit buf parts) k) rest.
Proof.
  intros H. destruct k as [|c r]; [discriminate|].
  cbn [key_ok] in H. apply andb_prop in H. destruct H as [H Hr]. apply andb_prop in H. destruct H as [Hc H1].
  rewrite trun_cons, step_open. cbn [app]. rewrite trun_cons, step_key_first by (try assumption; lia).
  rewrite run_key_chars by exact Hr. reflexivity.
Qed.

(** the format specification *)
Definition aw_state (st : tstate) : Prop := st = SAlign \/ st = SWidth.

Lemma step_align p parts a :
  tstep (mkpst SAlign (PPh p :: parts) []) (align_char a) =
  SOk (mkpst SWidth (PPh (set_align a p) :: parts) []).
Proof. destruct a; reflexivity. Qed.

Lemma digit_facts d : is_digit d = true ->
  (d =? 60) = false /\ (d =? 94) = false /\ (d =? 62) = false /\ (d =? 33) = false.
Proof. unfold is_digit. lia. Qed.

Lemma step_digit st parts buf d :
  aw_state st -> is_digit d = true ->
  tstep (mkpst st parts buf) d = SOk (mkpst SWidth parts (buf ++ [d])).
Proof.
  intros Hst Hd. destruct (digit_facts d Hd) as (H1 & H2 & H3 & H4).
  unfold tstep. destruct Hst; subst st; cbn [p_state p_parts p_buf phase1];
    rewrite ?H1, ?H2, ?H3, ?H4, Hd; cbn [orb]; destruct buf; reflexivity.
Qed.

Lemma run_digits ds : forall st parts buf rest,
  aw_state st -> forallb is_digit ds = true ->
  trun (mkpst st parts buf) (ds ++ rest) =
  trun (mkpst (if nonempty ds then SWidth else st) parts (buf ++ ds)) rest.
Proof.
  induction ds as [|d r IH]; intros st parts buf rest Hst H; cbn [app nonempty].
  - rewrite app_nil_r. reflexivity.
  - cbn [forallb] in H. apply andb_prop in H. destruct H as [Hd Hr].
    rewrite trun_cons, step_digit by assumption.
    rewrite IH by (try assumption; right; reflexivity).
    rewrite <- app_assoc. destruct (nonempty r); reflexivity.
Qed.

Lemma step_bang st p parts buf :
  aw_state st ->
  tstep (mkpst st (PPh p :: parts) buf) 33 = SOk (mkpst SWidth (PPh (set_trunc p) :: parts) buf).
Proof. intros [H|H]; subst st; destruct buf; reflexivity. Qed.

(* the width is stored when the Width state is left *)
Definition with_width (ds : list N) (p : ph) : ph :=
  match ds with [] => p | _ => set_width (digits_value ds) p end.

Definition width_inv (st : tstate) (ds : list N) : Prop :=
  aw_state st /\ (st = SAlign -> ds = []) /\ forallb is_digit ds = true.

Lemma step_leave_width st p parts ds c new :
  width_inv st ds -> digits_value ds < U16 ->
  (c = 125 /\ new = SLiteral) \/ (c = 46 /\ new = SFirstStyle) ->
  tstep (mkpst st (PPh p :: parts) ds) c = SOk (mkpst new (PPh (with_width ds p) :: parts) []).
Proof.
  intros (Hst & Hal & Hd) Hv Hc.
  destruct ds as [|d r].
  - destruct Hst; subst st; destruct Hc as [[-> ->]|[-> ->]]; reflexivity.
  - destruct Hst as [Hs|Hs]; [specialize (Hal Hs); discriminate|]. subst st.
    assert (Hp : parse_u16 (d :: r) = Some (digits_value (d :: r))).
    { rewrite parse_u16_digits by (try assumption; discriminate).
      destruct (N.ltb_spec (digits_value (d :: r)) U16); [reflexivity | lia]. }
    unfold tstep. destruct Hc as [[-> ->]|[-> ->]]; cbn [p_state p_parts p_buf phase1 N.eqb Pos.eqb is_digit];
      cbn -[parse_u16 digits_value]; rewrite Hp; reflexivity.
Qed.

Lemma step_leave_width_overflow p parts ds c :
  ds <> [] -> forallb is_digit ds = true -> U16 <= digits_value ds ->
  c = 125 \/ c = 46 ->
  tstep (mkpst SWidth (PPh p :: parts) ds) c = SErr SWidth c.
Proof.
  intros Hne Hd Hv Hc.
  assert (Hp : parse_u16 ds = None).
  { rewrite parse_u16_digits by assumption.
    destruct (N.ltb_spec (digits_value ds) U16); [lia | reflexivity]. }
  destruct ds as [|d r]; [contradiction|].
  unfold tstep. destruct Hc as [->| ->]; cbn [p_state p_parts p_buf phase1 N.eqb Pos.eqb is_digit];
    cbn -[parse_u16 digits_value]; rewrite Hp; reflexivity.
Qed.

(** style strings *)
Lemma step_style_char parts buf c :
  (c =? 47) = false -> (c =? 125) = false ->
  tstep (mkpst SFirstStyle parts buf) c = SOk (mkpst SFirstStyle parts (buf ++ [c])).
Proof.
  intros H1 H2. unfold tstep. cbn [p_state p_parts p_buf phase1]. rewrite H1, H2.
  rewrite phase2_same by exact I. reflexivity.
Qed.

Lemma run_style s : forall parts buf rest,
  style_ok s = true ->
  trun (mkpst SFirstStyle parts buf) (s ++ rest) = trun (mkpst SFirstStyle parts (buf ++ s)) rest.
Proof.
  induction s as [|c r IH]; intros parts buf rest H; cbn [app].
  - rewrite app_nil_r. reflexivity.
  - cbn [style_ok forallb] in H. apply andb_prop in H. destruct H as [Hc Hr].
    rewrite trun_cons, step_style_char by lia.
    fold (style_ok r) in Hr. rewrite IH by exact Hr. rewrite <- app_assoc. reflexivity.
Qed.

Lemma step_alt_char parts buf c :
  (c =? 125) = false ->
  tstep (mkpst SAltStyle parts buf) c = SOk (mkpst SAltStyle parts (buf ++ [c])).
Proof.
  intros H2. unfold tstep. cbn [p_state p_parts p_buf phase1]. rewrite H2.
  rewrite phase2_same by exact I. reflexivity.
Qed.

Lemma run_alt s : forall parts buf rest,
  alt_ok s = true ->
  trun (mkpst SAltStyle parts buf) (s ++ rest) = trun (mkpst SAltStyle parts (buf ++ s)) rest.
Proof.
  induction s as [|c r IH]; intros parts buf rest H; cbn [app].
  - rewrite app_nil_r. reflexivity.
  - cbn [alt_ok forallb] in H. apply andb_prop in H. destruct H as [Hc Hr].
    rewrite trun_cons, step_alt_char by lia.
    fold (alt_ok r) in Hr. rewrite IH by exact Hr. rewrite <- app_assoc. reflexivity.
Qed.

Definition with_style (s : list N) (p : ph) : ph := match s with [] => p | _ => set_style s p end.
Definition with_alt (s : list N) (p : ph) : ph := match s with [] => p | _ => set_alt s p end.

Lemma step_style_close p parts s :
  tstep (mkpst SFirstStyle (PPh p :: parts) s) 125 =
  SOk (mkpst SLiteral (PPh (with_style s p) :: parts) []).
Proof. destruct s; reflexivity. Qed.

Lemma step_style_slash p parts s :
  tstep (mkpst SFirstStyle (PPh p :: parts) s) 47 =
  SOk (mkpst SAltStyle (PPh (with_style s p) :: parts) []).
Proof. destruct s; reflexivity. Qed.

Lemma step_alt_close p parts s :
  tstep (mkpst SAltStyle (PPh p :: parts) s) 125 =
  SOk (mkpst SLiteral (PPh (with_alt s p) :: parts) []).
Proof. destruct s; reflexivity. Qed.

(** * one placeholder *)
Lemma run_fmt_close f p parts rest :
  fmt_ok f = true ->
  exists p',
    trun (mkpst SAlign (PPh p :: parts) []) (tl (print_fmt f) ++ 125 :: rest) =
    trun (mkpst SLiteral (PPh p' :: parts) []) rest
    /\ p' = (let p1 := match f_align f with Some a => set_align a p | None => p end in
             let p2 := if f_trunc f then set_trunc p1 else p1 in
             let p3 := with_width (f_width f) p2 in
             match f_style f with
             | None => p3
             | Some (s, None) => with_style s p3
             | Some (s, Some a) => with_alt a (with_style s p3)
             end).
Proof.
  intros Hok. unfold fmt_ok in Hok.
  apply andb_prop in Hok. destruct Hok as [Hok Hsty]. apply andb_prop in Hok. destruct Hok as [Hdig Hval].
  assert (Hv : digits_value (f_width f) < U16) by lia.
  eexists. split; [|reflexivity].
  unfold print_fmt. cbn [app tl]. rewrite <- !app_assoc.
  (* align *)
  set (p1 := match f_align f with Some a => set_align a p | None => p end).
  assert (E1 : exists st, aw_state st /\ (st = SAlign \/ True) /\
     forall rest', trun (mkpst SAlign (PPh p :: parts) [])
        ((match f_align f with Some a => [align_char a] | None => [] end) ++ rest') =
        trun (mkpst st (PPh p1 :: parts) []) rest').
  { subst p1. destruct (f_align f) as [a|].
    - exists SWidth. split; [right; reflexivity|]. split; [right; exact I|]. intros rest'.
      cbn [app]. rewrite trun_cons, step_align. reflexivity.
    - exists SAlign. split; [left; reflexivity|]. split; [left; reflexivity|]. intros rest'. reflexivity. }
  destruct E1 as (st1 & Hst1 & _ & E1). rewrite E1. clear E1.
  (* digits *)
  rewrite run_digits by assumption. cbn [app].
  set (st2 := if nonempty (f_width f) then SWidth else st1).
  assert (Hst2 : aw_state st2) by (subst st2; destruct (nonempty (f_width f)); [right; reflexivity | exact Hst1]).
  assert (Hal2 : st2 = SAlign -> f_width f = []).
  { subst st2. destruct (f_width f); [reflexivity|]. cbn [nonempty]. discriminate. }
  (* bang *)
  set (p2 := if f_trunc f then set_trunc p1 else p1).
  assert (E3 : exists st3, aw_state st3 /\ (st3 = SAlign -> f_width f = []) /\
     forall rest', trun (mkpst st2 (PPh p1 :: parts) (f_width f))
        ((if f_trunc f then [33] else []) ++ rest') =
        trun (mkpst st3 (PPh p2 :: parts) (f_width f)) rest').
  { subst p2. destruct (f_trunc f).
    - exists SWidth. split; [right; reflexivity|]. split; [discriminate|]. intros rest'.
      cbn [app]. rewrite trun_cons, step_bang by exact Hst2. reflexivity.
    - exists st2. split; [exact Hst2|]. split; [exact Hal2|]. intros rest'. reflexivity. }
  destruct E3 as (st3 & Hst3 & Hal3 & E3). rewrite E3. clear E3.
  assert (Hinv : width_inv st3 (f_width f)) by (split; [exact Hst3 | split; assumption]).
  destruct (f_style f) as [[s [a|]]|].
  - apply andb_prop in Hsty. destruct Hsty as [Hs Ha].
    cbn [app]. rewrite <- ?app_assoc. cbn [app]. rewrite trun_cons.
    rewrite (step_leave_width st3 p2 parts (f_width f) 46 SFirstStyle Hinv Hv) by (right; split; reflexivity).
    rewrite run_style by exact Hs. cbn [app].
    rewrite trun_cons, step_style_slash. rewrite run_alt by exact Ha. cbn [app].
    rewrite trun_cons, step_alt_close. reflexivity.
  - cbn [app]. rewrite <- ?app_assoc. cbn [app]. rewrite trun_cons.
    rewrite (step_leave_width st3 p2 parts (f_width f) 46 SFirstStyle Hinv Hv) by (right; split; reflexivity).
    rewrite run_style by exact Hsty. cbn [app].
    rewrite trun_cons, step_style_close. reflexivity.
  - cbn [app]. rewrite trun_cons.
    rewrite (step_leave_width st3 p2 parts (f_width f) 125 SLiteral Hinv Hv) by (left; split; reflexivity).
    reflexivity.
Qed.

Lemma ph_of_fmt k f :
  (let p := ph0 k in
   let p1 := match f_align f with Some a => set_align a p | None => p end in
   let p2 := if f_trunc f then set_trunc p1 else p1 in
   let p3 := with_width (f_width f) p2 in
   match f_style f with
   | None => p3
   | Some (s, None) => with_style s p3
   | Some (s, Some a) => with_alt a (with_style s p3)
   end) = ph_of k (Some f).
Proof.
  destruct f as [al ds tr sty]. unfold ph_of, ph0. cbn [f_align f_width f_trunc f_style].
  destruct al as [a|], tr, ds as [|d r], sty as [[[|s0 s] [[|a0 a']|]]|]; reflexivity.
Qed.

Lemma run_ph k fo parts buf rest :
  wf_item (IPh k fo) = true ->
  trun (mkpst SLiteral parts buf) (print_item (IPh k fo) ++ rest) =
  trun (mkpst SLiteral (PPh (ph_of k fo) :: take_lit buf parts) []) rest.
Proof.
  intros H. destruct fo as [f|]; cbn [wf_item print_item] in *.
  - apply andb_prop in H. destruct H as [Hk Hf].
    assert (Hne : k <> []) by (destruct k; [discriminate | discriminate]).
    cbn [app]. rewrite <- !app_assoc. rewrite run_open_key by exact Hk.
    unfold print_fmt. cbn [app]. rewrite trun_cons, step_key_colon by exact Hne.
    destruct (run_fmt_close f (ph0 k) (take_lit buf parts) rest Hf) as (p' & Hrun & Hp').
    unfold print_fmt in Hrun. cbn [app tl] in Hrun. rewrite <- !app_assoc in Hrun.
    rewrite <- !app_assoc. cbn [app]. rewrite Hrun. rewrite Hp'. rewrite ph_of_fmt. reflexivity.
  - assert (Hne : k <> []) by (destruct k; [discriminate | discriminate]).
    cbn [app]. rewrite <- !app_assoc. rewrite run_open_key by exact H.
    cbn [app]. rewrite trun_cons, step_key_close by exact Hne. reflexivity.
Qed.

(** * what the parser state stands for *)
Section Fidelity.
  Variable expand : ph -> list N.
  Variable tw : N.

  Definition rfold (parts_rev : list part) : racc :=
    fold_left (rstep expand tw) (rev parts_rev) ([], []).

  (* the text already emitted plus the pending literal text *)
  Definition sem (parts_rev : list part) (buf : list N) : racc :=
    add_text (rfold parts_rev) (expand_tabs tw buf).

  Lemma rfold_cons p ps : rfold (p :: ps) = rstep expand tw (rfold ps) p.
  Proof. unfold rfold. cbn [rev]. rewrite fold_left_app. reflexivity. Qed.

  Lemma add_text_nil a : add_text a [] = a.
  Proof. unfold add_text. rewrite app_nil_r. destruct a; reflexivity. Qed.

  Lemma add_text_app a x y : add_text a (x ++ y) = add_text (add_text a x) y.
  Proof. unfold add_text. cbn [fst snd]. rewrite app_assoc. reflexivity. Qed.

  Lemma expand_tabs_app a b : expand_tabs tw (a ++ b) = expand_tabs tw a ++ expand_tabs tw b.
  Proof. unfold expand_tabs. apply flat_map_app. Qed.

  Lemma rfold_take_lit buf parts : rfold (take_lit buf parts) = sem parts buf.
  Proof.
    unfold take_lit, sem. destruct buf as [|c r]; cbn [nonempty].
    - cbn [expand_tabs flat_map]. rewrite add_text_nil. reflexivity.
    - rewrite rfold_cons. reflexivity.
  Qed.

  Lemma sem_nil parts : sem parts [] = rfold parts.
  Proof. unfold sem. cbn [expand_tabs flat_map]. apply add_text_nil. Qed.

  (** every well-formed item moves the machine from Literal to Literal and adds exactly its
      specified text *)
  Lemma item_run i parts buf rest :
    wf_item i = true ->
    exists parts' buf',
      trun (mkpst SLiteral parts buf) (print_item i ++ rest) =
      trun (mkpst SLiteral parts' buf') rest
      /\ sem parts' buf' = sstep expand tw (sem parts buf) i.
  Proof.
    intros H. destruct i as [s| | |c| |k fo].
    - (* literal text *)
      exists parts, (buf ++ s). split.
      + cbn [print_item]. apply run_lit. exact H.
      + unfold sem. cbn [sstep]. rewrite expand_tabs_app, add_text_app. reflexivity.
    - (* {{ *)
      exists parts, (buf ++ [123]). split.
      + cbn [print_item app]. rewrite trun_cons, step_open, trun_cons, step_open_open. reflexivity.
      + unfold sem. cbn [sstep]. rewrite expand_tabs_app, add_text_app. reflexivity.
    - (* }} *)
      exists parts, (buf ++ [125]). split.
      + cbn [print_item app]. rewrite trun_cons, step_close1, trun_cons, step_close2. reflexivity.
      + unfold sem. cbn [sstep]. rewrite expand_tabs_app, add_text_app. reflexivity.
    - (* '{' white-space *)
      cbn [wf_item] in H.
      exists (backtrack buf [] c parts), []. split.
      + cbn [print_item app]. rewrite trun_cons, step_open, trun_cons, step_brace_ws by exact H. reflexivity.
      + rewrite sem_nil. cbn [sstep]. unfold backtrack. rewrite app_nil_r.
        destruct (c =? 10).
        * rewrite !rfold_cons. cbn [rstep]. unfold sem.
          rewrite expand_tabs_app, add_text_app. reflexivity.
        * rewrite rfold_cons. cbn [rstep]. unfold sem.
          rewrite <- app_assoc. rewrite expand_tabs_app, add_text_app. reflexivity.
    - (* newline *)
      exists (PNewLine :: take_lit buf parts), []. split.
      + cbn [print_item app]. rewrite trun_cons, step_newline. reflexivity.
      + rewrite sem_nil, rfold_cons, rfold_take_lit. reflexivity.
    - (* placeholder *)
      exists (PPh (ph_of k fo) :: take_lit buf parts), []. split.
      + apply run_ph. exact H.
      + rewrite sem_nil, rfold_cons, rfold_take_lit. reflexivity.
  Qed.

  Lemma items_run t : forall parts buf rest,
    wf t = true ->
    exists parts' buf',
      trun (mkpst SLiteral parts buf) (print t ++ rest) =
      trun (mkpst SLiteral parts' buf') rest
      /\ sem parts' buf' = fold_left (sstep expand tw) t (sem parts buf).
  Proof.
    induction t as [|i t IH]; intros parts buf rest H.
    - exists parts, buf. split; reflexivity.
    - cbn [wf forallb] in H. apply andb_prop in H. destruct H as [Hi Ht].
      destruct (item_run i parts buf (print t ++ rest) Hi) as (p1 & b1 & Hrun1 & Hsem1).
      destruct (IH p1 b1 rest Ht) as (p2 & b2 & Hrun2 & Hsem2).
      exists p2, b2. split.
      + unfold print in *. cbn [flat_map]. rewrite <- app_assoc. rewrite Hrun1. exact Hrun2.
      + cbn [fold_left]. rewrite Hsem2, Hsem1. reflexivity.
  Qed.

  Lemma render_tfinish_literal parts buf :
    render_parts expand tw (tfinish (mkpst SLiteral parts buf)) = rfinish (sem parts buf).
  Proof.
    unfold render_parts, tfinish. cbn [p_state p_buf p_parts].
    fold (take_lit buf parts). fold (rfold (take_lit buf parts)).
    rewrite rfold_take_lit. reflexivity.
  Qed.

  Lemma sem_init : sem [] [] = ([], []).
  Proof. reflexivity. Qed.

  (** C10 fidelity *)
  Theorem fidelity t :
    wf t = true ->
    exists ps, parse (print t) = POk ps /\
               render_parts expand tw ps = render_spec expand tw t.
  Proof.
    intros H. destruct (items_run t [] [] [] H) as (p & b & Hrun & Hsem).
    rewrite app_nil_r in Hrun. cbn [trun] in Hrun.
    exists (tfinish (mkpst SLiteral p b)). split.
    - unfold parse, pinit0. rewrite Hrun. reflexivity.
    - rewrite render_tfinish_literal, Hsem, sem_init. reflexivity.
  Qed.

  (** a single '}' at the very end of the template stands for itself (the unit test
      `{ "foo": "{foo}", "bar": {bar} }` relies on it) *)
  Theorem fidelity_trailing_brace t :
    wf t = true ->
    exists ps, parse (print t ++ [125]) = POk ps /\
               render_parts expand tw ps = render_spec expand tw (t ++ [IEscClose]).
  Proof.
    intros H. destruct (items_run t [] [] [125] H) as (p & b & Hrun & Hsem).
    exists (tfinish (mkpst SDoubleClose p (b ++ [125]))). split.
    - unfold parse, pinit0. rewrite Hrun. rewrite trun_cons, step_close1. reflexivity.
    - unfold render_spec. rewrite fold_left_app. cbn [fold_left sstep].
      rewrite <- sem_init, <- Hsem.
      unfold render_parts, tfinish. cbn [p_state p_buf p_parts].
      assert (E : nonempty (b ++ [125]) = true) by (destruct b; reflexivity).
      rewrite E. fold (rfold (PLit (b ++ [125]) :: p)). rewrite rfold_cons. cbn [rstep].
      unfold sem. rewrite expand_tabs_app, add_text_app. reflexivity.
  Qed.
End Fidelity.

(** * a width that does not fit 16 bits is a TemplateError in state Width *)
Lemma trun_err_absorb s cs : forall st c, tstep s (hd 0 cs) = SErr st c -> cs <> [] -> trun s cs = SErr st c.
Proof. intros st c H Hne. destruct cs as [|x r]; [contradiction|]. cbn [hd] in H. cbn [trun]. rewrite H. reflexivity. Qed.

Theorem width_overflow_err t k al ds tr sty rest :
  wf t = true -> key_ok k = true ->
  ds <> [] -> forallb is_digit ds = true -> U16 <= digits_value ds ->
  parse (print t ++ print_item (IPh k (Some (mkfmt al ds tr sty))) ++ rest) =
  PErr SWidth (match sty with None => 125 | Some _ => 46 end).
Proof.
  intros Ht Hk Hne Hd Hv.
  destruct (items_run (fun _ => []) 0 t [] []
              (print_item (IPh k (Some (mkfmt al ds tr sty))) ++ rest) Ht) as (p & b & Hrun & _).
  unfold parse, pinit0. rewrite Hrun. clear Hrun.
  assert (Hkne : k <> []) by (destruct k; [discriminate | discriminate]).
  cbn [print_item]. cbn [app]. rewrite <- !app_assoc. rewrite run_open_key by exact Hk.
  unfold print_fmt. cbn [f_align f_width f_trunc f_style app].
  rewrite trun_cons, step_key_colon by exact Hkne.
  rewrite <- !app_assoc.
  set (P := take_lit b p).
  assert (E1 : exists st p1, aw_state st /\
     forall rest', trun (mkpst SAlign (PPh (ph0 k) :: P) [])
        ((match al with Some a => [align_char a] | None => [] end) ++ rest') =
        trun (mkpst st (PPh p1 :: P) []) rest').
  { destruct al as [a|].
    - exists SWidth, (set_align a (ph0 k)). split; [right; reflexivity|]. intros rest'.
      cbn [app]. rewrite trun_cons, step_align. reflexivity.
    - exists SAlign, (ph0 k). split; [left; reflexivity|]. intros rest'. reflexivity. }
  destruct E1 as (st1 & p1 & Hst1 & E1). rewrite E1. clear E1.
  rewrite run_digits by assumption. cbn [app].
  assert (Hn : nonempty ds = true) by (destruct ds; [contradiction | reflexivity]). rewrite Hn.
  assert (E3 : exists p2, forall rest', trun (mkpst SWidth (PPh p1 :: P) ds)
        ((if tr then [33] else []) ++ rest') = trun (mkpst SWidth (PPh p2 :: P) ds) rest').
  { destruct tr.
    - exists (set_trunc p1). intros rest'. cbn [app].
      rewrite trun_cons, step_bang by (right; reflexivity). reflexivity.
    - exists p1. intros rest'. reflexivity. }
  destruct E3 as (p2 & E3). rewrite E3. clear E3.
  destruct sty as [[s [a|]]|]; cbn [app]; rewrite <- ?app_assoc; cbn [app]; rewrite trun_cons;
    rewrite step_leave_width_overflow by (try assumption; auto); reflexivity.
Qed.

(** * totality and the places where a TemplateError can arise *)
Theorem parse_total s : (exists ps, parse s = POk ps) \/ (exists st c, parse s = PErr st c).
Proof. destruct (parse s) as [ps|st c]; [left; exists ps; reflexivity | right; exists st, c; reflexivity]. Qed.

Lemma phase2_none_width old new parts buf :
  phase2 old new parts buf = None -> old = SWidth /\ (new = SFirstStyle \/ new = SLiteral).
Proof.
  unfold phase2. destruct (nonempty buf); [|discriminate].
  destruct old, new; try discriminate; try (destruct parts as [|[| |] ?]; discriminate);
    intros _; auto.
Qed.

Lemma tstep_err s c st c' : tstep s c = SErr st c' -> st = p_state s /\ c' = c /\ err_site st c = true.
Proof.
  unfold tstep. destruct s as [st0 parts buf]. cbn [p_state p_parts p_buf].
  destruct (phase1 st0 c parts buf) as [[[[new push] parts1] buf1]|] eqn:E1.
  - destruct (phase2 st0 new parts1 buf1) as [[parts2 buf2]|] eqn:E2; [discriminate|].
    intros H. injection H as <- <-. split; [reflexivity|]. split; [reflexivity|].
    apply phase2_none_width in E2. destruct E2 as [-> Hnew].
    cbn [phase1] in E1. cbn [err_site].
    destruct (c =? 33); [injection E1 as <-; destruct Hnew; discriminate|].
    destruct (is_digit c); [injection E1 as <-; destruct Hnew; discriminate|]. reflexivity.
  - intros H. injection H as <- <-. split; [reflexivity|]. split; [reflexivity|].
    destruct st0; cbn [phase1 err_site] in *.
    + destruct (c =? 123), (c =? 10), (c =? 125); discriminate.
    + destruct (c =? 123); [discriminate|]. destruct (is_ascii_ws c); [discriminate|].
      destruct (c =? 125), (c =? 58); cbn in *; try discriminate; reflexivity.
    + destruct (c =? 125); [discriminate | reflexivity].
    + destruct (is_ascii_ws c); [discriminate|].
      destruct (c =? 125), (c =? 58); cbn in *; discriminate.
    + destruct ((c =? 60) || (c =? 94) || (c =? 62)); [discriminate|].
      destruct (is_digit c); [discriminate|]. destruct (c =? 33); [discriminate|].
      destruct (c =? 46); [discriminate|]. destruct (c =? 125); [discriminate|]. reflexivity.
    + destruct (c =? 33); [discriminate|]. destruct (is_digit c); [discriminate|]. reflexivity.
    + destruct (c =? 47), (c =? 125); discriminate.
    + destruct (c =? 125); discriminate.
Qed.

Lemma trun_err cs : forall s st c, trun s cs = SErr st c -> err_site st c = true /\ In c cs.
Proof.
  induction cs as [|x r IH]; intros s st c H; cbn [trun] in H; [discriminate|].
  destruct (tstep s x) as [s'|st' c'] eqn:E.
  - destruct (IH _ _ _ H) as [H1 H2]. split; [exact H1 | right; exact H2].
  - injection H as -> ->. apply tstep_err in E. destruct E as (_ & -> & E). split; [exact E | left; reflexivity].
Qed.

Theorem parse_err_sites s st c : parse s = PErr st c -> err_site st c = true /\ In c s.
Proof.
  unfold parse. destruct (trun pinit0 s) eqn:E; [discriminate|].
  intros H. injection H as <- <-. eapply trun_err. exact E.
Qed.

(** * one output line per template line (a property of [render_spec]) *)
Section Lines.
  Variable expand : ph -> list N.
  Variable tw : N.

  Local Notation item_text := (item_text expand tw).
  Local Notation text := (text expand tw).

  Lemma fold_no_sep t : forall L cur,
    no_sep t = true -> fold_left (sstep expand tw) t (L, cur) = (L, cur ++ text t).
  Proof.
    induction t as [|i t IH]; intros L cur H; cbn [fold_left text flat_map].
    - rewrite app_nil_r. reflexivity.
    - cbn [no_sep forallb] in H. apply andb_prop in H. destruct H as [Hi Ht].
      fold (no_sep t) in Ht. fold (text t).
      assert (E : sstep expand tw (L, cur) i = (L, cur ++ item_text i)).
      { destruct i as [s| | |c| |k f]; cbn [is_sep negb] in Hi; try discriminate; try reflexivity.
        cbn [sstep item_text]. destruct (c =? 10); [discriminate | reflexivity]. }
      rewrite E, IH by exact Ht. rewrite app_assoc. reflexivity.
  Qed.

  Lemma fold_prefix t : forall L0 L cur,
    fold_left (sstep expand tw) t (L0 ++ L, cur) =
    (L0 ++ fst (fold_left (sstep expand tw) t (L, cur)), snd (fold_left (sstep expand tw) t (L, cur))).
  Proof.
    induction t as [|i t IH]; intros L0 L cur; cbn [fold_left]; [reflexivity|].
    assert (E : exists L' cur', sstep expand tw (L, cur) i = (L', cur') /\
                                sstep expand tw (L0 ++ L, cur) i = (L0 ++ L', cur')).
    { destruct i as [s| | |c| |k f]; cbn [sstep]; unfold add_text, push_line; cbn [fst snd];
        try (eexists; eexists; split; reflexivity).
      - destruct (c =? 10); unfold add_text, push_line; cbn [fst snd].
        + eexists; eexists; split; [reflexivity|]. rewrite app_assoc. reflexivity.
        + eexists; eexists; split; reflexivity.
      - eexists; eexists; split; [reflexivity|]. rewrite app_assoc. reflexivity. }
    destruct E as (L' & cur' & E1 & E2). rewrite E1, E2. apply IH.
  Qed.

  Lemma rfinish_prefix L0 L cur : rfinish (L0 ++ L, cur) = L0 ++ rfinish (L, cur).
  Proof.
    unfold rfinish, push_line. cbn [fst snd]. destruct (nonempty cur); [|reflexivity].
    rewrite app_assoc. reflexivity.
  Qed.

  (** a template without line ends is one line – or none if it renders to nothing *)
  Theorem spec_single_line t :
    no_sep t = true ->
    render_spec expand tw t = if nonempty (text t) then split_nl (text t) else [].
  Proof.
    intros H. unfold render_spec. rewrite fold_no_sep by exact H. cbn [app].
    unfold rfinish, push_line. cbn [fst snd app]. reflexivity.
  Qed.

  (** every template newline ends exactly the line before it, empty or not *)
  Theorem spec_newline t1 t2 :
    no_sep t1 = true ->
    render_spec expand tw (t1 ++ INewline :: t2) = split_nl (text t1) ++ render_spec expand tw t2.
  Proof.
    intros H. unfold render_spec. rewrite fold_left_app. rewrite fold_no_sep by exact H.
    cbn [fold_left sstep app]. unfold push_line. cbn [fst snd app].
    rewrite <- (app_nil_r (split_nl (text t1))) at 1. rewrite fold_prefix.
    rewrite rfinish_prefix. destruct (fold_left (sstep expand tw) t2 ([], [])); reflexivity.
  Qed.

  Theorem spec_brace_newline t1 t2 :
    no_sep t1 = true ->
    render_spec expand tw (t1 ++ IBraceWs 10 :: t2) =
    split_nl (text t1 ++ [123]) ++ render_spec expand tw t2.
  Proof.
    intros H. unfold render_spec. rewrite fold_left_app. rewrite fold_no_sep by exact H.
    cbn [fold_left sstep app N.eqb Pos.eqb]. unfold push_line, add_text. cbn [fst snd app].
    rewrite <- (app_nil_r (split_nl (text t1 ++ [123]))) at 1. rewrite fold_prefix.
    rewrite rfinish_prefix. destruct (fold_left (sstep expand tw) t2 ([], [])); reflexivity.
  Qed.

  Theorem newline_ends_line t1 t2 :
    no_sep t1 = true ->
    render_spec expand tw (t1 ++ INewline :: t2) = split_nl (text t1) ++ render_spec expand tw t2
    /\ render_spec expand tw (t1 ++ IBraceWs 10 :: t2) =
       split_nl (text t1 ++ [123]) ++ render_spec expand tw t2.
  Proof. intros H. split; [exact (spec_newline t1 t2 H) | exact (spec_brace_newline t1 t2 H)]. Qed.

  Lemma split_nl_no_nl x : ~ In 10 x -> split_nl x = [x].
  Proof.
    induction x as [|c r IH]; intros H; cbn [split_nl]; [reflexivity|].
    destruct (N.eqb_spec c 10) as [->|Hc]; [exfalso; apply H; left; reflexivity|].
    rewrite IH by (intros Hin; apply H; right; exact Hin). reflexivity.
  Qed.

  Lemma nrepeat_in x n : forall y : N, In y (nrepeat x n) -> y = x.
  Proof.
    unfold nrepeat. induction n as [|n IH] using N.peano_ind; intros y H.
    - contradiction.
    - rewrite N.iter_succ in H. destruct H as [H|H]; [symmetry; exact H | apply IH; exact H].
  Qed.

  Lemma expand_tabs_no_nl s : ~ In 10 s -> ~ In 10 (expand_tabs tw s).
  Proof.
    unfold expand_tabs. intros H Hin. apply in_flat_map in Hin. destruct Hin as (c & Hc & Hin).
    destruct (c =? 9).
    - apply nrepeat_in in Hin. discriminate.
    - destruct Hin as [Hx|[]]. subst c. exact (H Hc).
  Qed.

  Lemma lit_ok_no_nl s : lit_ok s = true -> ~ In 10 s.
  Proof.
    unfold lit_ok. intros H Hin. rewrite forallb_forall in H. specialize (H _ Hin).
    cbn in H. discriminate.
  Qed.

  Lemma text_no_nl t :
    (forall p, ~ In 10 (expand p)) -> wf t = true -> no_sep t = true -> ~ In 10 (text t).
  Proof.
    intros He. induction t as [|i t IH]; intros Hw Hs Hin; [exact Hin|].
    cbn [wf forallb] in Hw. apply andb_prop in Hw. destruct Hw as [Hwi Hwt].
    cbn [no_sep forallb] in Hs. apply andb_prop in Hs. destruct Hs as [Hsi Hst].
    cbn [text flat_map] in Hin. apply in_app_or in Hin. destruct Hin as [Hin|Hin]; [|exact (IH Hwt Hst Hin)].
    destruct i as [s| | |c| |k f]; cbn [item_text] in Hin.
    - exact (expand_tabs_no_nl s (lit_ok_no_nl s Hwi) Hin).
    - destruct Hin as [Hx|[]]; discriminate.
    - destruct Hin as [Hx|[]]; discriminate.
    - cbn [is_sep] in Hsi. apply (expand_tabs_no_nl [123; c]); [|exact Hin].
      intros [Hx|[Hx|[]]]; [discriminate | subst c; discriminate].
    - contradiction.
    - exact (He _ Hin).
  Qed.

  (** with values free of newlines: the line before a template newline is exactly the
      in-order concatenation of its pieces *)
  Theorem one_line_per_template_line t1 t2 :
    (forall p, ~ In 10 (expand p)) -> wf t1 = true -> no_sep t1 = true ->
    render_spec expand tw (t1 ++ INewline :: t2) = text t1 :: render_spec expand tw t2
    /\ render_spec expand tw t1 = (if nonempty (text t1) then [text t1] else []).
  Proof.
    intros He Hw Hs. pose proof (text_no_nl t1 He Hw Hs) as Hn. split.
    - rewrite spec_newline by exact Hs. rewrite split_nl_no_nl by exact Hn. reflexivity.
    - rewrite spec_single_line by exact Hs. rewrite split_nl_no_nl by exact Hn. reflexivity.
  Qed.
End Lines.

(** * unknown keys expand to nothing (executable instance used by the correspondence) *)
Lemma iter_cons_app {A} (x : A) n : forall l, N.iter n (cons x) l = nrepeat x n ++ l.
Proof.
  unfold nrepeat. induction n as [|n IH] using N.peano_ind; intros l; [reflexivity|].
  rewrite !N.iter_succ. rewrite IH. reflexivity.
Qed.

Lemma nrepeat_add {A} (x : A) a b : nrepeat x (a + b) = nrepeat x a ++ nrepeat x b.
Proof. unfold nrepeat at 1. rewrite N.iter_add. apply iter_cons_app. Qed.

Lemma padded_empty w a tr : padded_ascii [] w a tr = nrepeat 32 w.
Proof.
  unfold padded_ascii, nlen. cbn [length N.of_nat].
  replace (0 - w) with 0 by lia. cbn [N.ltb N.compare andb].
  replace (w - 0) with w by lia.
  destruct a; cbn [app].
  - reflexivity.
  - rewrite <- nrepeat_add. f_equal.
    assert (w / 2 <= w) by (apply N.div_le_upper_bound; lia). lia.
  - cbn [nrepeat N.iter]. apply app_nil_r.
Qed.

Lemma key_bar_builtin : In key_bar builtin_keys.
Proof. vm_compute. tauto. Qed.

Lemma list_eqb_N_eq (a b : list N) : list_eqb N.eqb a b = true -> a = b.
Proof.
  revert b. induction a as [|x a IH]; intros [|y b] H; cbn [list_eqb] in H; try discriminate; [reflexivity|].
  apply andb_prop in H. destruct H as [H1 H2]. apply N.eqb_eq in H1. subst. f_equal. apply IH. exact H2.
Qed.

Lemma list_eqb_N_refl (a : list N) : list_eqb N.eqb a a = true.
Proof. induction a as [|x a IH]; cbn [list_eqb]; [reflexivity|]. rewrite N.eqb_refl. exact IH. Qed.

Lemma not_builtin_not_bar k : is_builtin k = false -> list_eqb N.eqb k key_bar = false.
Proof.
  intros Hb. destruct (list_eqb N.eqb k key_bar) eqn:E; [|reflexivity].
  exfalso. apply list_eqb_N_eq in E. unfold is_builtin in Hb.
  assert (Ht : existsb (list_eqb N.eqb k) builtin_keys = true).
  { apply existsb_exists. exists key_bar. split; [exact key_bar_builtin|]. rewrite E. apply list_eqb_N_refl. }
  congruence.
Qed.

(* the dispatch on an unknown key leaves the scratch buffer empty, whatever it held *)
Lemma key_dispatch_unknown env styles p old :
  assoc (ph_key p) env = None -> is_builtin (ph_key p) = false ->
  key_dispatch env styles p old = [].
Proof.
  intros Ha Hb. unfold key_dispatch. rewrite Ha, (not_builtin_not_bar _ Hb). reflexivity.
Qed.

Lemma key_dispatch_clears env styles p old : key_dispatch env styles p old = key_dispatch env styles p [].
Proof. reflexivity. Qed.

Lemma ph_emit_unknown env styles p :
  assoc (ph_key p) env = None -> is_builtin (ph_key p) = false ->
  ph_emit env styles p [] =
  styled styles (ph_style p) (match ph_width p with Some w => nrepeat 32 w | None => [] end).
Proof.
  intros Ha Hb. unfold ph_emit, is_bar0. rewrite Ha, (not_builtin_not_bar _ Hb).
  destruct (ph_width p); [rewrite padded_empty|]; reflexivity.
Qed.

(** one step of format_state on an unknown key, for ANY contents of the scratch buffer *)
Theorem unknown_key_step env styles tw a old p :
  assoc (ph_key p) env = None -> is_builtin (ph_key p) = false ->
  fstep env styles tw (a, old) (PPh p) =
  (add_text a (styled styles (ph_style p)
                 (match ph_width p with Some w => nrepeat 32 w | None => [] end)), []).
Proof.
  intros Ha Hb. cbn [fstep fst snd]. rewrite (key_dispatch_unknown env styles p old Ha Hb).
  rewrite (ph_emit_unknown env styles p Ha Hb). reflexivity.
Qed.

(** the buffer-threading walk is the part-by-part rendering with [expand_exec] *)
Lemma fmt_fold env styles tw ps : forall a old,
  fst (fold_left (fstep env styles tw) ps (a, old)) =
  fold_left (rstep (expand_exec env styles) tw) ps a.
Proof.
  induction ps as [|pt r IH]; intros a old; cbn [fold_left]; [reflexivity|].
  destruct pt as [s|q|]; cbn [fstep rstep fst snd]; rewrite IH; reflexivity.
Qed.

Theorem fmt_render_parts env styles tw ps :
  fmt_render env styles tw ps = render_parts (expand_exec env styles) tw ps.
Proof. unfold fmt_render, render_parts. rewrite fmt_fold. reflexivity. Qed.

Lemma nrepeat_succ {A} (x : A) n : nrepeat x (N.succ n) = x :: nrepeat x n.
Proof. unfold nrepeat. apply N.iter_succ. Qed.

Lemma expand_tabs_spaces tw n : expand_tabs tw (nrepeat 32 n) = nrepeat 32 n.
Proof.
  induction n as [|n IH] using N.peano_ind; [reflexivity|].
  rewrite nrepeat_succ. unfold expand_tabs in *. cbn [flat_map N.eqb Pos.eqb app]. rewrite IH. reflexivity.
Qed.

Lemma lit_ok_spaces n : lit_ok (nrepeat 32 n) = true.
Proof.
  induction n as [|n IH] using N.peano_ind; [reflexivity|].
  rewrite nrepeat_succ. unfold lit_ok in *. cbn [forallb]. rewrite IH. reflexivity.
Qed.

Lemma wf_app t1 t2 : wf (t1 ++ t2) = wf t1 && wf t2.
Proof. unfold wf. apply forallb_app. Qed.

Lemma wf_pad_items fo : wf (pad_items fo) = true.
Proof.
  destruct fo as [f|]; [|reflexivity]. unfold pad_items. destruct (f_width f) as [|d r]; [reflexivity|].
  unfold wf. cbn [forallb wf_item]. rewrite lit_ok_spaces. reflexivity.
Qed.

(* on the specification side: the unknown placeholder contributes what [pad_items] does *)
Lemma sstep_unknown env styles tw a k fo :
  assoc k env = None -> is_builtin k = false -> unstyled fo = true ->
  sstep (expand_exec env styles) tw a (IPh k fo) =
  fold_left (sstep (expand_exec env styles) tw) (pad_items fo) a.
Proof.
  intros Ha Hb Hs. cbn [sstep]. unfold expand_exec.
  assert (Hk : ph_key (ph_of k fo) = k) by (destruct fo; reflexivity).
  rewrite key_dispatch_unknown by (rewrite Hk; assumption).
  rewrite ph_emit_unknown by (rewrite Hk; assumption).
  destruct fo as [f|]; cbn [unstyled] in Hs.
  - destruct (f_style f) as [sty|] eqn:Es; [discriminate|].
    unfold ph_of, pad_items. rewrite Es. cbn [ph_style ph_width styled].
    destruct (f_width f) as [|d r]; cbn [fold_left sstep].
    + unfold add_text. rewrite app_nil_r. destruct a; reflexivity.
    + rewrite expand_tabs_spaces. reflexivity.
  - cbn [ph_of pad_items ph_style ph_width styled fold_left].
    unfold add_text. rewrite app_nil_r. destruct a; reflexivity.
Qed.

(** C10 "unknown keys expand to nothing", at the level of whole templates: a template of the
    grammar with an (unstyled) unknown key renders exactly as the same template with that
    placeholder deleted - replaced by the blanks its width asks for, if it has one. *)
Theorem unknown_key_deleted env styles tw t1 t2 k fo :
  wf (t1 ++ IPh k fo :: t2) = true ->
  assoc k env = None -> is_builtin k = false -> unstyled fo = true ->
  exists ps ps',
    parse (print (t1 ++ IPh k fo :: t2)) = POk ps /\
    parse (print (t1 ++ pad_items fo ++ t2)) = POk ps' /\
    fmt_render env styles tw ps = fmt_render env styles tw ps'.
Proof.
  intros Hw Ha Hb Hs.
  assert (Hw' : wf (t1 ++ pad_items fo ++ t2) = true).
  { rewrite wf_app in Hw. apply andb_prop in Hw. destruct Hw as [H1 H2].
    cbn [wf forallb] in H2. apply andb_prop in H2. destruct H2 as [_ H2]. fold (wf t2) in H2.
    rewrite !wf_app, H1, H2, wf_pad_items. reflexivity. }
  destruct (fidelity (expand_exec env styles) tw _ Hw) as (ps & Hp & Hr).
  destruct (fidelity (expand_exec env styles) tw _ Hw') as (ps' & Hp' & Hr').
  exists ps, ps'. split; [exact Hp|]. split; [exact Hp'|].
  rewrite !fmt_render_parts, Hr, Hr'. unfold render_spec.
  rewrite !fold_left_app. cbn [fold_left]. rewrite (sstep_unknown env styles tw _ k fo Ha Hb Hs).
  reflexivity.
Qed.

(** * no panic: the three-outcome parser never takes a panic branch *)
Lemma str_from_0 s : str_from 0 s = Some s.
Proof. destruct s; reflexivity. Qed.

(* the guard `on_c.starts_with("on_")` (console utils.rs:225) makes `on_c[3..]` (:226) safe:
   three one-byte characters precede byte 3 *)
Lemma starts_with_on_slice piece :
  starts_with ON_PREFIX piece = true -> str_from 3 piece = Some (skipn 3 piece).
Proof.
  unfold ON_PREFIX. intros H.
  destruct piece as [|a [|b [|c r]]]; cbn [starts_with] in H;
    try (rewrite ?andb_false_r in H; discriminate).
  apply andb_prop in H. destruct H as [Ha H]. apply andb_prop in H. destruct H as [Hb H].
  apply andb_prop in H. destruct H as [Hc _].
  apply N.eqb_eq in Ha, Hb, Hc. subst a b c.
  cbn [str_from N.eqb utf8_len N.ltb N.leb N.compare Pos.compare Pos.compare_cont N.sub Pos.sub Pos.pred_double
       Pos.sub_mask Pos.double_mask Pos.succ_double_mask Pos.double_pred_mask skipn].
  apply str_from_0.
Qed.

Lemma dotted_piece_no_panic piece : dotted_piece_panics piece = false.
Proof.
  unfold dotted_piece_panics. destruct (starts_with ON_PREFIX piece) eqn:E; [|reflexivity].
  rewrite (starts_with_on_slice piece E). reflexivity.
Qed.

Lemma dotted_str_no_panic s : dotted_str_panics s = false.
Proof.
  unfold dotted_str_panics. induction (split_on 46 s) as [|x l IH]; [reflexivity|].
  cbn [existsb]. rewrite dotted_piece_no_panic, IH. reflexivity.
Qed.

Definition lift2 (o : option (list part * list N)) : p2res :=
  match o with Some (p, b) => P2Ok p b | None => P2Err end.

Lemma phase2_full_erase old new parts buf :
  phase2_full WMapErr old new parts buf = lift2 (phase2 old new parts buf).
Proof.
  unfold phase2_full, phase2. rewrite (dotted_str_no_panic buf).
  destruct (nonempty buf); [|reflexivity].
  destruct old, new; try reflexivity; destruct parts as [|[s|p|] r]; try reflexivity;
    destruct (parse_u16 buf); reflexivity.
Qed.

Definition lift_step (r : step_res) : step_out :=
  match r with SOk s => TOk s | SErr st c => TErr st c end.

Lemma tstep_full_erase s c : tstep_full WMapErr s c = lift_step (tstep s c).
Proof.
  unfold tstep_full, tstep.
  destruct (phase1 (p_state s) c (p_parts s) (p_buf s)) as [[[[new push] parts1] buf1]|]; [|reflexivity].
  rewrite phase2_full_erase. destruct (phase2 (p_state s) new parts1 buf1) as [[parts2 buf2]|]; reflexivity.
Qed.

Lemma trun_full_erase cs : forall s, trun_full WMapErr s cs = lift_step (trun s cs).
Proof.
  induction cs as [|c r IH]; intros s; cbn [trun_full trun]; [reflexivity|].
  rewrite tstep_full_erase. destruct (tstep s c) as [s'|st c']; cbn [lift_step]; [apply IH | reflexivity].
Qed.

(** C10 totality: for EVERY string the current code's three-outcome parser returns what the
    two-outcome machine returns - never [PPanic]. *)
Theorem parse_full_total s : parse_full s = PRes (parse s).
Proof.
  unfold parse_full, parse_gen, parse. rewrite trun_full_erase.
  destruct (trun pinit0 s); reflexivity.
Qed.

Corollary parse_full_no_panic s site : parse_full s <> PPanic site.
Proof. rewrite parse_full_total. discriminate. Qed.

(** * a TemplateError in state Width at '.' or '}' means: the digits collected so far denote a
    number that does not fit u16 *)
Definition winv (s : pst) : Prop :=
  (p_state s = SAlign -> p_buf s = []) /\
  (p_state s = SWidth -> forallb is_digit (p_buf s) = true).

Lemma forallb_snoc {A} (f : A -> bool) l x : forallb f (l ++ [x]) = forallb f l && f x.
Proof. rewrite forallb_app. cbn [forallb]. rewrite andb_true_r. reflexivity. Qed.

Lemma phase2_keeps old new parts buf parts' buf' :
  phase2 old new parts buf = Some (parts', buf') ->
  (old = SKey -> new = SAlign -> buf' = []) /\
  (old = SAlign \/ old = SWidth -> new = SWidth -> buf' = buf).
Proof.
  unfold phase2. destruct buf as [|b0 br]; cbn [nonempty].
  - intros H. injection H as <- <-. split; intros _ _; reflexivity.
  - intros H. split.
    + intros -> ->. injection H as <- <-. reflexivity.
    + intros [-> | ->] ->; injection H as <- <-; reflexivity.
Qed.

Lemma tstep_winv s c s' : winv s -> tstep s c = SOk s' -> winv s'.
Proof.
  destruct s as [st parts buf]. unfold winv, tstep. cbn [p_state p_parts p_buf].
  intros [Ha Hw] H.
  destruct (phase1 st c parts buf) as [[[[new push] parts1] buf1]|] eqn:E1; [|discriminate].
  destruct (phase2 st new parts1 buf1) as [[parts2 buf2]|] eqn:E2; [|discriminate].
  injection H as <-. cbn [p_state p_buf].
  destruct (phase2_keeps _ _ _ _ _ _ E2) as [K1 K2].
  destruct st; cbn [phase1] in E1;
    repeat match type of E1 with
           | (if ?b then _ else _) = _ => destruct b eqn:?
           end;
    try discriminate; injection E1 as <- <- <- <-;
    (split; intros Hn; try discriminate).
  all: try (rewrite K1 by reflexivity; reflexivity).
  all: try (rewrite K2 by (first [left; reflexivity | right; reflexivity] || reflexivity)).
  all: try (rewrite (Ha eq_refl); reflexivity).
  all: try (rewrite (Ha eq_refl); cbn [app forallb]; rewrite ?andb_true_r; assumption).
  all: try (apply Hw; reflexivity).
  all: try (rewrite forallb_snoc, (Hw eq_refl); assumption).
Qed.

Lemma trun_winv cs : forall s f, winv s -> trun s cs = SOk f -> winv f.
Proof.
  induction cs as [|c r IH]; intros s f Hs H; cbn [trun] in H.
  - injection H as <-. exact Hs.
  - destruct (tstep s c) as [s'|] eqn:E; [|discriminate].
    eapply IH; [|exact H]. eapply tstep_winv; [exact Hs | exact E].
Qed.

Lemma winv_init : winv pinit0.
Proof. split; intros H; [reflexivity | discriminate]. Qed.

(* the step at which a run fails *)
Lemma trun_err_split cs : forall s st c,
  trun s cs = SErr st c ->
  exists s1 s2 f, cs = s1 ++ c :: s2 /\ trun s s1 = SOk f /\ tstep f c = SErr st c.
Proof.
  induction cs as [|x r IH]; intros s st c H; cbn [trun] in H; [discriminate|].
  destruct (tstep s x) as [s'|st' c'] eqn:E.
  - destruct (IH _ _ _ H) as (s1 & s2 & f & -> & Hr & Hs).
    exists (x :: s1), s2, f. split; [reflexivity|]. split; [|exact Hs].
    cbn [trun]. rewrite E. exact Hr.
  - injection H as -> ->. pose proof (tstep_err _ _ _ _ E) as (_ & -> & _).
    exists [], r, s. split; [reflexivity|]. split; [reflexivity | exact E].
Qed.

Lemma tstep_width_end f c :
  winv f -> (c = 46 \/ c = 125) -> tstep f c = SErr SWidth c ->
  p_buf f <> [] /\ forallb is_digit (p_buf f) = true /\ U16 <= digits_value (p_buf f).
Proof.
  intros [_ Hw] Hc H. pose proof (tstep_err _ _ _ _ H) as (Hst & _ & _). symmetry in Hst.
  specialize (Hw Hst). destruct f as [st parts buf]. cbn [p_state p_buf] in *. subst st.
  unfold tstep in H. cbn [p_state p_parts p_buf] in H.
  assert (Hne : buf <> []).
  { intros ->. destruct Hc as [-> | ->]; cbn in H; discriminate. }
  split; [exact Hne|]. split; [exact Hw|].
  pose proof (parse_u16_digits buf Hne Hw) as Hp.
  destruct (N.ltb_spec (digits_value buf) U16) as [Hlt|Hge]; [|exact Hge].
  exfalso. destruct buf as [|b0 br]; [contradiction|].
  destruct Hc as [-> | ->]; cbn [phase1 N.eqb Pos.eqb is_digit N.leb N.compare Pos.compare Pos.compare_cont andb] in H;
    cbn [phase2 nonempty] in H; destruct parts as [|[s|p|] r]; try discriminate;
    rewrite Hp in H; discriminate.
Qed.

Theorem parse_err_width_overflow s c :
  parse s = PErr SWidth c -> c = 46 \/ c = 125 ->
  exists s1 s2 f,
    s = s1 ++ c :: s2 /\ trun pinit0 s1 = SOk f /\ p_state f = SWidth /\
    p_buf f <> [] /\ forallb is_digit (p_buf f) = true /\ U16 <= digits_value (p_buf f).
Proof.
  unfold parse. destruct (trun pinit0 s) as [|st c'] eqn:E; [discriminate|].
  intros H Hc. injection H as -> ->.
  destruct (trun_err_split _ _ _ _ E) as (s1 & s2 & f & Hs & Hr & Ht).
  exists s1, s2, f. split; [exact Hs|]. split; [exact Hr|].
  pose proof (tstep_err _ _ _ _ Ht) as (Hst & _ & _). split; [symmetry; exact Hst|].
  apply (tstep_width_end f c); [|exact Hc | exact Ht].
  eapply trun_winv; [exact winv_init | exact Hr].
Qed.
