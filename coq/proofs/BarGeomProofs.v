(** C13 – proofs about model/BarGeom.v (binary32 via Flocq).
    Layer 1: every float operation of the model as a statement about [round] on reals.
    Layer 2: real/integer arithmetic (monotonicity of rounding, relative error, formats).
    Layer 3: the geometry theorems G1..G8 and the fraction clause of C07. *)
From IndModel Require Import Base BarGeom.
From IndGen Require Import Constants.
From Coq Require Import ZArith Reals Lia Lra List Bool.
From Coq Require Import ZifyBool ZifyNat ZifyN.
From Flocq Require Import Core BinarySingleNaN Relative Sterbenz.
Ltac Zify.zify_post_hook ::= Z.div_mod_to_equations.
Open Scope R_scope.

Notation fexp32 := (FLT_exp (-149) 24).
Notation RN := (round radix2 fexp32 ZnearestE).
Notation fmt := (generic_format radix2 fexp32).

Lemma fexp32_eq : SpecFloat.fexp 24 128 = fexp32.
Proof. reflexivity. Qed.

#[local] Instance prec24 : Prec_gt_0 24 := f32_Hprec.
#[local] Instance emax128 : Prec_lt_emax 24 128 := f32_Hmax.
#[local] Instance valid32 : Valid_exp fexp32 := FLT_exp_valid (-149) 24.
#[local] Instance mono32 : Monotone_exp fexp32 := FLT_exp_monotone (-149) 24.

Lemma B2R_fmt (x : f32) : fmt (B2R x).
Proof. exact (generic_format_B2R 24 128 x). Qed.

Lemma RN_le x y : x <= y -> RN x <= RN y.
Proof. apply round_le; auto with typeclass_instances. Qed.

Lemma RN_id x : fmt x -> RN x = x.
Proof. apply round_generic; auto with typeclass_instances. Qed.

Lemma RN_0 : RN 0 = 0.
Proof. apply round_0; auto with typeclass_instances. Qed.

Lemma RN_ge0 x : 0 <= x -> 0 <= RN x.
Proof. intros H. rewrite <- RN_0. now apply RN_le. Qed.

Lemma RN_le_fmt x y : fmt y -> x <= y -> RN x <= y.
Proof. intros Fy H. rewrite <- (RN_id y Fy). now apply RN_le. Qed.

Lemma RN_ge_fmt x y : fmt y -> y <= x -> y <= RN x.
Proof. intros Fy H. rewrite <- (RN_id y Fy). now apply RN_le. Qed.

(** *** formats *)
Lemma fmt_F2R m e : (Z.abs m < 2 ^ 24)%Z -> (-149 <= e)%Z -> fmt (F2R (Float radix2 m e)).
Proof.
  intros Hm He. apply generic_format_FLT.
  exact (FLT_spec radix2 (-149) 24 _ (Float radix2 m e) eq_refl Hm He).
Qed.

Lemma fmt_bpow e : (-149 <= e)%Z -> fmt (bpow radix2 e).
Proof.
  intros He. apply generic_format_FLT_bpow; auto with typeclass_instances.
Qed.

(** integers up to 2^24 are binary32 numbers *)
Lemma fmt_int (z : Z) : (Z.abs z <= 2 ^ 24)%Z -> fmt (IZR z).
Proof.
  intros H.
  destruct (Z.eq_dec (Z.abs z) (2 ^ 24)) as [E|E].
  - destruct (Z.abs_eq_or_opp z) as [A|A]; rewrite A in E.
    + rewrite E. change (IZR (2 ^ 24)) with (bpow radix2 24). apply fmt_bpow; lia.
    + replace z with (- (2 ^ 24))%Z by lia. rewrite opp_IZR.
      apply generic_format_opp. change (IZR (2 ^ 24)) with (bpow radix2 24). apply fmt_bpow; lia.
  - replace (IZR z) with (F2R (Float radix2 z 0)).
    + apply fmt_F2R; lia.
    + unfold F2R; simpl. ring.
Qed.

Lemma fmt_N (n : N) : (n <= 16777216)%N -> fmt (IZR (Z.of_N n)).
Proof. intros H. apply fmt_int. change (2 ^ 24)%Z with 16777216%Z. lia. Qed.

(** 1 - 2^-24 is the predecessor of 1 *)
Definition omu : R := 1 - bpow radix2 (-24).

Lemma fmt_omu : fmt omu.
Proof.
  replace omu with (F2R (Float radix2 (2 ^ 24 - 1) (-24))).
  - apply fmt_F2R; [simpl; lia | lia].
  - unfold omu, F2R; simpl. lra.
Qed.

Lemma pred_one : pred radix2 fexp32 1 = omu.
Proof.
  change 1 with (bpow radix2 0). rewrite pred_bpow. reflexivity.
Qed.

Lemma fmt_lt1_le_omu x : fmt x -> x < 1 -> x <= omu.
Proof.
  intros Fx H. rewrite <- pred_one. apply pred_ge_gt; auto with typeclass_instances.
  change 1 with (bpow radix2 0). apply fmt_bpow; lia.
Qed.

(** *** the key rounding fact: a factor below 1 keeps the rounded product below the other factor *)
Lemma u24_bounds : 0 < bpow radix2 (-24) < 1.
Proof.
  split; [apply bpow_gt_0|]. change 1 with (bpow radix2 0). apply bpow_lt. lia.
Qed.

Lemma omu_bounds : 0 < omu < 1.
Proof. unfold omu. pose proof u24_bounds. lra. Qed.

Lemma RN_mul_lt f w : 0 <= f <= omu -> fmt w -> 1 <= w -> RN (f * w) < w.
Proof.
  intros [Hf0 Hf1] Fw Hw.
  pose proof u24_bounds as Hu. set (u := bpow radix2 (-24)) in *.
  assert (Hx0 : 0 <= f * w) by (apply Rmult_le_pos; lra).
  assert (Hxw : f * w <= (1 - u) * w) by (apply Rmult_le_compat_r; unfold omu in Hf1; fold u in Hf1; lra).
  destruct (Rlt_or_le (f * w) (bpow radix2 (-126))) as [Hs|Hb].
  - apply Rle_lt_trans with (bpow radix2 (-126)).
    + apply RN_le_fmt; [apply fmt_bpow; lia | lra].
    + apply Rlt_le_trans with (2 := Hw). change 1 with (bpow radix2 0). apply bpow_lt. lia.
  - pose proof (relative_error_N_FLT radix2 (-149) 24 f32_Hprec (fun x => negb (Z.even x)) (f * w)) as He.
    change (-149 + 24 - 1)%Z with (-126)%Z in He.
    rewrite (Rabs_pos_eq (f * w)) in He by exact Hx0.
    specialize (He Hb).
    replace (/ 2 * bpow radix2 (- (24) + 1)) with u in He.
    2:{ unfold u. change (- (24) + 1)%Z with (-24 + 1)%Z. rewrite bpow_plus. simpl (bpow radix2 1). lra. }
    apply Rabs_le_inv in He.
    assert (RN (f * w) <= (1 + u) * (f * w)) by lra.
    assert ((1 + u) * (f * w) <= (1 + u) * ((1 - u) * w)) by (apply Rmult_le_compat_l; lra).
    assert ((1 + u) * ((1 - u) * w) < w) by nra.
    lra.
Qed.

(** ** Layer 1: the float operations of the model *)
Lemma no_overflow x : Rabs x <= bpow radix2 127 ->
  Rlt_bool (Rabs (round radix2 (SpecFloat.fexp 24 128) (round_mode mode_NE) x)) (bpow radix2 128) = true.
Proof.
  intros H. apply Rlt_bool_true. rewrite fexp32_eq. simpl round_mode.
  apply Rle_lt_trans with (bpow radix2 127).
  - apply abs_round_le_generic; auto with typeclass_instances. apply fmt_bpow; lia.
  - apply bpow_lt; lia.
Qed.

Lemma IZR_N_ge0 (n : N) : 0 <= IZR (Z.of_N n).
Proof. apply IZR_le. lia. Qed.

Lemma f_of_N_correct (n : N) : (n < U64)%N ->
  B2R (f_of_N n) = RN (IZR (Z.of_N n)) /\ is_finite (f_of_N n) = true.
Proof.
  intros Hn. unfold f_of_N.
  pose proof (binary_normalize_correct 24 128 f32_Hprec f32_Hmax mode_NE (Z.of_N n) 0 false) as H.
  cbv zeta in H.
  assert (E : F2R (Float radix2 (Z.of_N n) 0) = IZR (Z.of_N n)) by (unfold F2R; simpl; ring).
  rewrite E in H. rewrite no_overflow in H.
  - destruct H as (H1 & H2 & _). split; [exact H1 | exact H2].
  - rewrite Rabs_pos_eq by apply IZR_N_ge0.
    apply Rle_trans with (IZR (2 ^ 64)).
    + apply IZR_le. unfold U64 in Hn. lia.
    + change (IZR (2 ^ 64)) with (bpow radix2 64). apply bpow_le; lia.
Qed.

Lemma f_of_N_exact (n : N) : (n <= 16777216)%N ->
  B2R (f_of_N n) = IZR (Z.of_N n) /\ is_finite (f_of_N n) = true.
Proof.
  intros Hn. destruct (f_of_N_correct n) as [H1 H2]; [unfold U64; lia|].
  split; [|exact H2]. rewrite H1. apply RN_id, fmt_N, Hn.
Qed.

Lemma f_one_correct : B2R f_one = 1 /\ is_finite f_one = true.
Proof. split; [apply Bone_correct | apply is_finite_Bone]. Qed.

Lemma f_lt_correct (a b : f32) : is_finite a = true -> is_finite b = true ->
  f_lt a b = Rlt_bool (B2R a) (B2R b).
Proof. apply Bltb_correct. Qed.

Lemma f_clamp01_correct (x : f32) : is_finite x = true ->
  B2R (f_clamp01 x) = Rmax 0 (Rmin 1 (B2R x)) /\ is_finite (f_clamp01 x) = true.
Proof.
  intros Fx. unfold f_clamp01. destruct f_one_correct as [O1 O2].
  rewrite (f_lt_correct x f_zero Fx eq_refl), (f_lt_correct f_one x O2 Fx), O1.
  change (B2R f_zero) with 0.
  destruct (Rlt_bool_spec (B2R x) 0) as [H|H].
  - split; [|reflexivity]. change (B2R f_zero) with 0.
    rewrite Rmin_right by lra. rewrite Rmax_left; lra.
  - destruct (Rlt_bool_spec 1 (B2R x)) as [H'|H'].
    + split; [|exact O2]. rewrite O1, Rmin_left by lra. rewrite Rmax_right; lra.
    + split; [|exact Fx]. rewrite Rmin_right by lra. rewrite Rmax_right; lra.
Qed.

Lemma f_mul_correct (a b : f32) : is_finite a = true -> is_finite b = true ->
  Rabs (B2R a * B2R b) <= bpow radix2 127 ->
  B2R (f_mul a b) = RN (B2R a * B2R b) /\ is_finite (f_mul a b) = true.
Proof.
  intros Fa Fb Hb. unfold f_mul, f32 in *.
  pose proof (Bmult_correct 24 128 f32_Hprec f32_Hmax mode_NE a b) as H.
  rewrite no_overflow in H by exact Hb.
  destruct H as (H1 & H2 & _). split; [exact H1 |]. rewrite Fa, Fb in H2. exact H2.
Qed.

Lemma f_div_correct (a b : f32) : is_finite a = true -> B2R b <> 0 ->
  Rabs (B2R a / B2R b) <= bpow radix2 127 ->
  B2R (f_div a b) = RN (B2R a / B2R b) /\ is_finite (f_div a b) = true.
Proof.
  intros Fa Nb Hb. unfold f_div, f32 in *.
  pose proof (Bdiv_correct 24 128 f32_Hprec f32_Hmax mode_NE a b Nb) as H.
  rewrite no_overflow in H by exact Hb.
  destruct H as (H1 & H2 & _). split; [exact H1 |]. rewrite Fa in H2. exact H2.
Qed.

(** [x as usize] of a finite float *)
Lemma Btrunc_Ztrunc (x : f32) : Btrunc x = Ztrunc (B2R x).
Proof.
  apply eq_IZR. rewrite (Btrunc_correct 24 128 f32_Hmax x). apply round_FIX_IZR.
Qed.

Lemma f_to_usize_finite (x : f32) : is_finite x = true ->
  f_to_usize x = N.min USIZE_MAX (Z.to_N (Ztrunc (B2R x))).
Proof.
  intros Fx. destruct x as [s|s| |s m e He]; try discriminate Fx.
  - cbn [f_to_usize]. rewrite Btrunc_Ztrunc. cbn [B2R]. rewrite Ztrunc_IZR. reflexivity.
  - unfold f_to_usize. rewrite Btrunc_Ztrunc.
    destruct (Z.ltb_spec (Ztrunc (B2R (B754_finite s m e He))) 0) as [H|H]; [|reflexivity].
    set (z := Ztrunc (B2R (B754_finite s m e He))) in *. unfold USIZE_MAX, U64MAX. lia.
Qed.

Lemma f_to_usize_floor (x : f32) : is_finite x = true -> 0 <= B2R x <= IZR 16777216 ->
  Z.of_N (f_to_usize x) = Zfloor (B2R x).
Proof.
  intros Fx [H0 H1]. rewrite (f_to_usize_finite x Fx), (Ztrunc_floor _ H0).
  assert (0 <= Zfloor (B2R x))%Z by (apply Zfloor_lub; exact H0).
  assert (Zfloor (B2R x) <= 16777216)%Z.
  { apply le_IZR. apply Rle_trans with (2 := H1). apply Zfloor_lb. }
  unfold USIZE_MAX, U64MAX. lia.
Qed.

(** ** fraction() as a real number *)
Definition NR (n : N) : R := IZR (Z.of_N n).

Definition frR (pos : N) (len : option N) : R :=
  match len with
  | None => 0
  | Some l => if (l =? 0)%N then 1
              else if (pos =? 0)%N then 0
              else Rmin 1 (RN (RN (NR pos) / RN (NR l)))
  end.

Lemma NR_ge1 n : (n <> 0)%N -> 1 <= NR n.
Proof. intros H. apply (IZR_le 1). lia. Qed.

Lemma RN_NR_ge1 n : (n <> 0)%N -> 1 <= RN (NR n).
Proof.
  intros H. apply RN_ge_fmt; [apply (fmt_int 1); simpl; lia | apply NR_ge1, H].
Qed.

Lemma RN_NR_le64 n : (n < U64)%N -> RN (NR n) <= bpow radix2 64.
Proof.
  intros H. apply RN_le_fmt; [apply fmt_bpow; lia|].
  change (bpow radix2 64) with (IZR (2 ^ 64)). apply IZR_le. unfold U64 in H. lia.
Qed.

Lemma quot_bounds p l : (p <> 0)%N -> (l <> 0)%N -> (p < U64)%N ->
  0 < RN (NR p) / RN (NR l) <= bpow radix2 64.
Proof.
  intros Hp Hl Hp64.
  pose proof (RN_NR_ge1 p Hp). pose proof (RN_NR_ge1 l Hl). pose proof (RN_NR_le64 p Hp64).
  split.
  - apply Rdiv_lt_0_compat; lra.
  - apply Rle_trans with (RN (NR p) / 1); [|lra].
    unfold Rdiv. apply Rmult_le_compat_l; [lra|]. apply Rinv_le; lra.
Qed.

Lemma fraction_correct pos len :
  (pos < U64)%N -> match len with Some l => (l < U64)%N | None => True end ->
  B2R (fraction pos len) = frR pos len /\ is_finite (fraction pos len) = true.
Proof.
  intros Hp Hl. unfold fraction, frR.
  destruct len as [l|].
  2:{ destruct (f_clamp01_correct f_zero eq_refl) as [H1 H2]. split; [|exact H2].
      rewrite H1. change (B2R f_zero) with 0. rewrite Rmin_right by lra. apply Rmax_left; lra. }
  destruct l as [|l'].
  { destruct f_one_correct as [O1 O2].
    destruct (f_clamp01_correct f_one O2) as [H1 H2]. split; [|exact H2].
    rewrite H1, O1. cbn [N.eqb]. rewrite Rmin_left by lra. apply Rmax_right; lra. }
  set (l := N.pos l') in *. replace (l =? 0)%N with false by reflexivity.
  destruct (N.eqb_spec pos 0) as [E|E].
  { destruct (f_clamp01_correct f_zero eq_refl) as [H1 H2]. split; [|exact H2].
    rewrite H1. change (B2R f_zero) with 0. rewrite Rmin_right by lra. apply Rmax_left; lra. }
  destruct (f_of_N_correct pos Hp) as [P1 P2]. destruct (f_of_N_correct l Hl) as [L1 L2].
  assert (Hl0 : (l <> 0)%N) by discriminate.
  pose proof (quot_bounds pos l E Hl0 Hp) as [Q0 Q1]. fold (NR pos) in P1. fold (NR l) in L1.
  pose proof (RN_NR_ge1 l Hl0) as Hl1.
  destruct (f_div_correct (f_of_N pos) (f_of_N l) P2) as [D1 D2].
  { rewrite L1. lra. }
  { rewrite P1, L1, Rabs_pos_eq by lra. apply Rle_trans with (1 := Q1). apply bpow_le; lia. }
  destruct (f_clamp01_correct _ D2) as [H1 H2]. split; [|exact H2].
  rewrite H1, D1, P1, L1.
  assert (0 <= RN (RN (NR pos) / RN (NR l))) by (apply RN_ge0; lra).
  apply Rmax_right. apply Rmin_glb; lra.
Qed.

Lemma frR_bounds pos len : 0 <= frR pos len <= 1.
Proof.
  unfold frR. destruct len as [l|]; [|lra].
  destruct (l =? 0)%N; [lra|]. destruct (pos =? 0)%N; [lra|].
  split; [|apply Rmin_l].
  apply Rmin_glb; [lra|]. apply RN_ge0.
  destruct (N.eq_dec pos 0) as [->|Hp].
  - unfold NR; simpl. rewrite RN_0. unfold Rdiv. rewrite Rmult_0_l. lra.
  - destruct (N.eq_dec l 0) as [->|Hl0].
    + unfold NR at 2; simpl. rewrite RN_0. unfold Rdiv. rewrite Rinv_0, Rmult_0_r. lra.
    + pose proof (RN_NR_ge1 pos Hp). pose proof (RN_NR_ge1 l Hl0).
      apply Rlt_le, Rdiv_lt_0_compat; lra.
Qed.

Lemma NR_le a b : (a <= b)%N -> NR a <= NR b.
Proof. intros H. apply IZR_le. lia. Qed.

Lemma frR_mono pos pos' len : (pos <= pos')%N -> frR pos len <= frR pos' len.
Proof.
  intros H. unfold frR. destruct len as [l|]; [|lra].
  destruct (N.eqb_spec l 0) as [El|El]; [lra|].
  destruct (N.eqb_spec pos 0) as [E|E].
  - fold (frR pos' (Some l)).
    pose proof (frR_bounds pos' (Some l)) as Hb. unfold frR in Hb.
    destruct (N.eqb_spec l 0); [contradiction|]. exact (proj1 Hb).
  - destruct (N.eqb_spec pos' 0) as [E'|E']; [lia|].
    apply Rle_min_compat_l. apply RN_le.
    pose proof (RN_NR_ge1 l El).
    unfold Rdiv. apply Rmult_le_compat_r; [apply Rlt_le, Rinv_0_lt_compat; lra|].
    apply RN_le, NR_le, H.
Qed.

Lemma frR_full pos l : (l <= pos)%N -> frR pos (Some l) = 1.
Proof.
  intros H. unfold frR.
  destruct (N.eqb_spec l 0) as [El|El]; [reflexivity|].
  destruct (N.eqb_spec pos 0) as [E|E]; [lia|].
  apply Rmin_left. apply RN_ge_fmt; [apply (fmt_int 1); simpl; lia|].
  pose proof (RN_NR_ge1 l El).
  assert (RN (NR l) <= RN (NR pos)) by (apply RN_le, NR_le, H).
  apply Rmult_le_reg_r with (RN (NR l)); [lra|].
  unfold Rdiv. rewrite Rmult_assoc, Rinv_l by lra. lra.
Qed.

Lemma frR_zero_pos len : len <> Some 0%N -> frR 0 len = 0.
Proof.
  intros H. unfold frR. destruct len as [l|]; [|reflexivity].
  destruct (N.eqb_spec l 0) as [El|El]; [congruence | reflexivity].
Qed.

(** below the end, the quotient of exact operands stays at or below pred(1) *)
Lemma frR_below_one pos l : (l <= 16777216)%N -> (pos < l)%N -> frR pos (Some l) <= omu.
Proof.
  intros Hl H. unfold frR. pose proof omu_bounds as Ho.
  destruct (N.eqb_spec l 0) as [El|El]; [lia|].
  destruct (N.eqb_spec pos 0) as [E|E]; [lra|].
  apply Rle_trans with (1 := Rmin_r _ _).
  unfold NR. rewrite (RN_id (IZR (Z.of_N pos))) by (apply fmt_N; lia).
  rewrite (RN_id (IZR (Z.of_N l))) by (apply fmt_N; lia).
  apply RN_le_fmt; [apply fmt_omu|].
  assert (Hl1 : 1 <= IZR (Z.of_N l)) by (apply (IZR_le 1); lia).
  assert (Hpl : IZR (Z.of_N pos) <= IZR (Z.of_N l) - 1).
  { rewrite <- minus_IZR. apply IZR_le. lia. }
  assert (Hl24 : IZR (Z.of_N l) <= IZR (2 ^ 24)) by (apply IZR_le; change (2 ^ 24)%Z with 16777216%Z; lia).
  apply Rmult_le_reg_r with (IZR (Z.of_N l)); [lra|].
  unfold Rdiv. rewrite Rmult_assoc, Rinv_l, Rmult_1_r by lra.
  unfold omu. change (bpow radix2 (-24)) with (/ IZR (2 ^ 24)).
  assert (H24 : 0 < IZR (2 ^ 24)) by (apply (IZR_lt 0); reflexivity).
  assert (/ IZR (2 ^ 24) * IZR (Z.of_N l) <= 1).
  { apply Rmult_le_reg_l with (IZR (2 ^ 24)); [lra|].
    rewrite <- Rmult_assoc, Rinv_r, Rmult_1_l, Rmult_1_r by lra. exact Hl24. }
  lra.
Qed.

Lemma frR_positive pos l : (pos <> 0)%N -> (l <> 0)%N -> (pos < U64)%N -> (l < U64)%N ->
  bpow radix2 (-64) <= frR pos (Some l).
Proof.
  intros Hp Hl Hp64 Hl64. unfold frR.
  destruct (N.eqb_spec l 0) as [El|El]; [contradiction|].
  destruct (N.eqb_spec pos 0) as [E|E]; [contradiction|].
  apply Rmin_glb.
  - change 1 with (bpow radix2 0). apply bpow_le; lia.
  - apply RN_ge_fmt; [apply fmt_bpow; lia|].
    pose proof (RN_NR_ge1 pos Hp). pose proof (RN_NR_ge1 l Hl). pose proof (RN_NR_le64 l Hl64).
    apply Rle_trans with (1 / RN (NR l)).
    + unfold Rdiv. rewrite Rmult_1_l. change (-64)%Z with (- (64))%Z. rewrite bpow_opp.
      apply Rinv_le; [lra | exact H1].
    + unfold Rdiv. apply Rmult_le_compat_r; [apply Rlt_le, Rinv_0_lt_compat; lra | lra].
Qed.

(** ** format_bar for a finite fraction in [0,1] and at most 2^24 cells *)
(* [W24] (= 2^24) and [len_wf] are statement vocabulary: defined in model/BarGeom.v *)

Lemma NR_W24 w : (w <= W24)%N -> NR w <= bpow radix2 24.
Proof. intros H. change (bpow radix2 24) with (IZR (2 ^ 24)). apply IZR_le. unfold W24 in H. change (2 ^ 24)%Z with 16777216%Z. lia. Qed.

Lemma fill_correct (x : f32) (w : N) :
  is_finite x = true -> 0 <= B2R x <= 1 -> (w <= W24)%N ->
  B2R (f_mul x (f_of_N w)) = RN (B2R x * NR w) /\
  is_finite (f_mul x (f_of_N w)) = true /\
  0 <= RN (B2R x * NR w) <= NR w.
Proof.
  intros Fx [X0 X1] Hw.
  destruct (f_of_N_exact w Hw) as [W1 W2]. fold (NR w) in W1.
  pose proof (IZR_N_ge0 w) as Hw0. fold (NR w) in Hw0. pose proof (NR_W24 w Hw) as Hw24.
  assert (Hxw : 0 <= B2R x * NR w <= NR w) by nra.
  destruct (f_mul_correct x (f_of_N w) Fx W2) as [M1 M2].
  { rewrite W1, Rabs_pos_eq by lra. apply Rle_trans with (bpow radix2 24); [lra | apply bpow_le; lia]. }
  rewrite W1 in M1. repeat split; try assumption.
  - apply RN_ge0; lra.
  - apply RN_le_fmt; [apply fmt_N, Hw | lra].
Qed.

Definition fillR (fr : R) (w : N) : R := RN (fr * NR w).

Lemma fillR_mono fr fr' w : fr <= fr' -> fillR fr w <= fillR fr' w.
Proof.
  intros H. apply RN_le. apply Rmult_le_compat_r; [apply IZR_N_ge0 | exact H].
Qed.

Record bar_view (x : f32) (width c nchars : N) : Prop := {
  bv_cells : b_cells (format_bar x width c nchars) = (width / c)%N;
  bv_fill : B2R (b_fill (format_bar x width c nchars)) = fillR (B2R x) (width / c);
  bv_fill_fin : is_finite (b_fill (format_bar x width c nchars)) = true;
  bv_fill_rng : 0 <= fillR (B2R x) (width / c) <= NR (width / c);
  bv_filled : Z.of_N (b_filled (format_bar x width c nchars)) = Zfloor (fillR (B2R x) (width / c));
  bv_filled_le : (b_filled (format_bar x width c nchars) <= width / c)%N;
  bv_head : b_head (format_bar x width c nchars) =
            if Rlt_bool 0 (fillR (B2R x) (width / c)) && (b_filled (format_bar x width c nchars) <? width / c)%N
            then 1%N else 0%N;
  bv_bg : b_bg (format_bar x width c nchars) =
          (width / c - b_filled (format_bar x width c nchars) - b_head (format_bar x width c nchars))%N
}.

Lemma format_bar_view (x : f32) (width c nchars : N) :
  is_finite x = true -> 0 <= B2R x <= 1 -> (width / c <= W24)%N ->
  bar_view x width c nchars.
Proof.
  intros Fx Hx Hw. set (w := (width / c)%N) in *.
  destruct (fill_correct x w Fx Hx Hw) as (F1 & F2 & F3).
  assert (Hfl : Z.of_N (f_to_usize (f_mul x (f_of_N w))) = Zfloor (fillR (B2R x) w)).
  { rewrite f_to_usize_floor; [rewrite F1; reflexivity | exact F2 |].
    rewrite F1. split; [lra|]. apply Rle_trans with (1 := proj2 F3).
    apply IZR_le. unfold W24 in Hw. lia. }
  assert (Hle : (f_to_usize (f_mul x (f_of_N w)) <= w)%N).
  { apply N2Z.inj_le. rewrite Hfl. apply le_IZR. apply Rle_trans with (2 := proj2 F3). apply Zfloor_lb. }
  assert (Hlt : f_lt f_zero (f_mul x (f_of_N w)) = Rlt_bool 0 (fillR (B2R x) w)).
  { rewrite (f_lt_correct f_zero _ eq_refl F2), F1. reflexivity. }
  constructor; unfold format_bar; fold w; cbn [b_cells b_fill b_filled b_bg b_head b_cur];
    try assumption; try reflexivity.
  - rewrite Hlt. destruct (Rlt_bool 0 (fillR (B2R x) w) && (f_to_usize (f_mul x (f_of_N w)) <? w)%N); reflexivity.
  - destruct (f_lt f_zero (f_mul x (f_of_N w)) && (f_to_usize (f_mul x (f_of_N w)) <? w)%N); reflexivity.
Qed.

(** ** fract(): the fractional part of a positive float is computed exactly *)
Lemma fmt_frac_part x : fmt x -> fmt (IZR (Zfloor x)) -> 0 < x -> fmt (x - IZR (Zfloor x)).
Proof.
  intros Fx Ft Hx.
  pose proof (Zfloor_lb x) as Hlb. pose proof (Zfloor_ub x) as Hub.
  destruct (Rlt_or_le x 1) as [H1|H1].
  - replace (Zfloor x) with 0%Z; [now rewrite Rminus_0_r|].
    symmetry. apply Zfloor_imp. simpl. lra.
  - assert (Hf1 : (1 <= Zfloor x)%Z) by (apply Zfloor_lub; exact H1).
    assert (Hf1R : 1 <= IZR (Zfloor x)) by (apply (IZR_le 1); exact Hf1).
    replace (x - IZR (Zfloor x)) with (x + - IZR (Zfloor x)) by ring.
    apply generic_format_plus; auto with typeclass_instances.
    + now apply generic_format_opp.
    + rewrite mag_opp.
      assert (M1 : (0 < mag radix2 x)%Z) by (apply mag_gt_bpow; rewrite Rabs_pos_eq by lra; exact H1).
      assert (M2 : (0 < mag radix2 (IZR (Zfloor x)))%Z)
        by (apply mag_gt_bpow; rewrite Rabs_pos_eq by lra; exact Hf1R).
      apply Rle_trans with (bpow radix2 1).
      * simpl. rewrite Rabs_pos_eq by lra. lra.
      * apply bpow_le. lia.
Qed.

Lemma f_fract_correct (x : f32) : is_finite x = true -> 0 < B2R x ->
  B2R (f_fract x) = B2R x - IZR (Zfloor (B2R x)) /\ is_finite (f_fract x) = true /\
  0 <= B2R (f_fract x) <= omu.
Proof.
  intros Fx Hx. unfold f_fract, f_trunc.
  destruct (Bnearbyint_correct 24 128 f32_Hmax mode_ZR x) as (T1 & T2 & _).
  rewrite round_FIX_IZR in T1. simpl round_mode in T1. rewrite (Ztrunc_floor (B2R x)) in T1 by lra.
  rewrite Fx in T2.
  pose proof (Zfloor_lb (B2R x)) as Hlb. pose proof (Zfloor_ub (B2R x)) as Hub.
  assert (Ffr : fmt (B2R x - IZR (Zfloor (B2R x)))).
  { apply fmt_frac_part; [apply B2R_fmt | rewrite <- T1; apply B2R_fmt | exact Hx]. }
  pose proof (Bminus_correct 24 128 f32_Hprec f32_Hmax mode_NE x _ Fx T2) as H.
  rewrite no_overflow in H.
  2:{ rewrite T1, Rabs_pos_eq by lra. apply Rle_trans with (bpow radix2 0); [simpl; lra | apply bpow_le; lia]. }
  destruct H as (H1 & H2 & _). rewrite T1 in H1.
  assert (E : B2R (f_sub x (f_trunc x)) = B2R x - IZR (Zfloor (B2R x))).
  { etransitivity; [exact H1|]. apply (RN_id _ Ffr). }
  change (f_sub x (@Bnearbyint 24 128 f32_Hmax mode_ZR x)) with (f_sub x (f_trunc x)).
  split; [exact E|]. split; [exact H2|].
  rewrite E. split; [lra|].
  apply fmt_lt1_le_omu; [exact Ffr | lra].
Qed.

(** ** G3: the index of the partial cell is in range – for EVERY f32 datum [x] (NaN, infinities
    included) and every width *)
Lemma sub_cell_lt (fill : f32) (n : N) :
  is_finite fill = true -> 0 < B2R fill -> (2 <= n <= W24)%N ->
  (f_to_usize (f_mul (f_fract fill) (f_of_N n)) < n)%N.
Proof.
  intros Ff Hpos [Hn2 Hn24].
  destruct (f_fract_correct fill Ff Hpos) as (_ & R2 & R3).
  destruct (f_of_N_exact n Hn24) as [N1 N2]. fold (NR n) in N1.
  assert (Hn1 : 2 <= NR n) by (apply (IZR_le 2); lia).
  pose proof (NR_W24 n Hn24) as Hn24R. pose proof omu_bounds as Ho.
  assert (Hprod : 0 <= B2R (f_fract fill) * NR n <= NR n) by nra.
  destruct (f_mul_correct (f_fract fill) (f_of_N n) R2 N2) as [M1 M2].
  { rewrite N1, Rabs_pos_eq by lra. apply Rle_trans with (bpow radix2 24); [lra | apply bpow_le; lia]. }
  rewrite N1 in M1.
  assert (Hlt : RN (B2R (f_fract fill) * NR n) < NR n).
  { apply RN_mul_lt; [exact R3 | apply fmt_N, Hn24 | lra]. }
  assert (Hge : 0 <= RN (B2R (f_fract fill) * NR n)) by (apply RN_ge0; lra).
  apply N2Z.inj_lt. rewrite f_to_usize_floor; [| exact M2 |].
  - rewrite M1. apply lt_IZR. apply Rle_lt_trans with (2 := Hlt). apply Zfloor_lb.
  - rewrite M1. split; [lra|]. apply Rle_trans with (NR n); [lra|].
    apply IZR_le. unfold W24 in Hn24. lia.
Qed.

Lemma cur_in_range (x : f32) (width c nchars i : N) :
  (2 <= nchars <= W24 + 2)%N ->
  b_cur (format_bar x width c nchars) = Some i ->
  (1 <= i <= N.max 1 (nchars - 2))%N /\ (i < nchars)%N.
Proof.
  intros [Hn2 Hn24]. unfold format_bar. cbn [b_cur].
  set (w := (width / c)%N). set (fill := f_mul x (f_of_N w)). set (n := (nchars - 2)%N).
  destruct (f_lt f_zero fill && (f_to_usize fill <? w)%N) eqn:Hh; [|discriminate].
  apply andb_prop in Hh. destruct Hh as [Hlt _].
  intros E. injection E as E.
  destruct (N.leb_spec n 1) as [Hn1|Hn1]; [subst i; unfold n in *; lia|].
  assert (Hsub : (f_to_usize (f_mul (f_fract fill) (f_of_N n)) < n \/
                  f_to_usize (f_mul (f_fract fill) (f_of_N n)) = 0)%N).
  { destruct fill as [s|s| |s m e He] eqn:Efill.
    - discriminate Hlt.
    - destruct s; [discriminate Hlt|]. right. reflexivity.
    - discriminate Hlt.
    - left. rewrite <- Efill in *. apply sub_cell_lt.
      + rewrite Efill. reflexivity.
      + rewrite (f_lt_correct f_zero fill eq_refl) in Hlt by (rewrite Efill; reflexivity).
        change (B2R f_zero) with 0 in Hlt.
        destruct (Rlt_bool_spec 0 (B2R fill)); [assumption | discriminate].
      + unfold n, W24 in *. lia. }
  unfold n in *. lia.
Qed.

(** ** Layer 3: geometry of [format_bar (fraction pos len) width c nchars] *)

Lemma div_le_W24 width c : (width <= W24)%N -> (width / c <= W24)%N.
Proof.
  intros H. destruct (N.eq_dec c 0) as [->|Hc].
  - destruct width; cbn; unfold W24; lia.
  - apply N.le_trans with (2 := H). apply N.div_le_upper_bound; [exact Hc|]. nia.
Qed.

Lemma gview pos len width c nchars :
  (pos < U64)%N -> len_wf len -> (width <= W24)%N ->
  bar_view (fraction pos len) width c nchars /\ B2R (fraction pos len) = frR pos len.
Proof.
  intros Hp Hl Hw. destruct (fraction_correct pos len Hp Hl) as [F1 F2].
  split; [|exact F1]. apply format_bar_view; [exact F2 | rewrite F1; apply frR_bounds | apply div_le_W24, Hw].
Qed.

Lemma nlen_rep {A} n (x : A) : nlen (rep n x) = n.
Proof. unfold nlen, rep. rewrite repeat_length. apply N2Nat.id. Qed.

Lemma nlen_app {A} (a b : list A) : nlen (a ++ b) = (nlen a + nlen b)%N.
Proof. unfold nlen. rewrite app_length. lia. Qed.

Lemma nlen_bar_cells b nchars : nlen (bar_cells b nchars) = (b_filled b + b_head b + b_bg b)%N.
Proof.
  unfold bar_cells, b_head. rewrite !nlen_app, !nlen_rep. destruct (b_cur b); unfold nlen; cbn [length N.of_nat Pos.of_succ_nat]; lia.
Qed.

Lemma head_01 b : (b_head b = 0 \/ b_head b = 1)%N.
Proof. unfold b_head. destruct (b_cur b); auto. Qed.

(** G1 *)
Lemma g1_cells pos len width c nchars :
  (pos < U64)%N -> len_wf len -> (width <= W24)%N ->
  let b := format_bar (fraction pos len) width c nchars in
  b_cells b = (width / c)%N /\
  (b_filled b + b_head b + b_bg b = width / c)%N /\
  nlen (bar_cells b nchars) = (width / c)%N /\
  bar_cols b c nchars = (c * (width / c))%N /\
  (bar_cols b c nchars <= width)%N /\
  (c <> 0 -> width - bar_cols b c nchars = width mod c)%N.
Proof.
  intros Hp Hl Hw b. destruct (gview pos len width c nchars Hp Hl Hw) as [V _]. fold b in V.
  destruct V as [Vc _ _ _ _ Vle Vh Vbg]. fold b in Vc, Vle, Vh, Vbg.
  assert (Hsum : (b_filled b + b_head b + b_bg b = width / c)%N).
  { rewrite Vbg. destruct (Rlt_bool 0 (fillR (B2R (fraction pos len)) (width / c))); cbn [andb] in Vh.
    - destruct (N.ltb_spec (b_filled b) (width / c)); rewrite Vh; lia.
    - rewrite Vh. lia. }
  assert (Hcols : bar_cols b c nchars = (c * (width / c))%N).
  { unfold bar_cols. rewrite nlen_bar_cells, Hsum. reflexivity. }
  repeat split; try assumption.
  - rewrite nlen_bar_cells. exact Hsum.
  - rewrite Hcols. destruct (N.eq_dec c 0) as [->|Hc]; [lia|]. apply N.mul_div_le, Hc.
  - intros Hc. rewrite Hcols. pose proof (N.div_mod width c Hc). lia.
Qed.

(** G2 (as coded) *)
Lemma g2_head pos len width c nchars :
  (pos < U64)%N -> len_wf len -> (width <= W24)%N ->
  let b := format_bar (fraction pos len) width c nchars in
  (b_head b = 1%N <-> 0 < B2R (b_fill b) /\ (b_filled b < b_cells b)%N) /\
  (b_head b = 1%N <-> exists i, b_cur b = Some i) /\
  (b_head b = 0%N \/ b_head b = 1%N).
Proof.
  intros Hp Hl Hw b. destruct (gview pos len width c nchars Hp Hl Hw) as [V _]. fold b in V.
  destruct V as [Vc Vf _ _ _ _ Vh _]. fold b in Vc, Vf, Vh.
  rewrite Vf, Vc. split; [|split; [|apply head_01]].
  - rewrite Vh. destruct (Rlt_bool_spec 0 (fillR (B2R (fraction pos len)) (width / c))) as [H|H];
      destruct (N.ltb_spec (b_filled b) (width / c)) as [H'|H']; cbn [andb]; split;
      try (intros [? ?]); try intros ?; try split; try lia; try lra; try discriminate; auto.
  - unfold b_head. destruct (b_cur b) as [i|]; split; intros H; try reflexivity; try discriminate.
    + now exists i.
    + destruct H as [i H]. discriminate.
Qed.

(** G4 *)
Lemma g4_mono pos pos' len width c nchars :
  (pos <= pos')%N -> (pos' < U64)%N -> len_wf len -> (width <= W24)%N ->
  (b_filled (format_bar (fraction pos len) width c nchars) <=
   b_filled (format_bar (fraction pos' len) width c nchars))%N.
Proof.
  intros Hpp Hp' Hl Hw. assert (Hp : (pos < U64)%N) by lia.
  destruct (gview pos len width c nchars Hp Hl Hw) as [V E].
  destruct (gview pos' len width c nchars Hp' Hl Hw) as [V' E'].
  apply N2Z.inj_le. rewrite (bv_filled _ _ _ _ V), (bv_filled _ _ _ _ V'), E, E'.
  apply Zfloor_le, fillR_mono, frR_mono, Hpp.
Qed.

Lemma fillR_0 w : fillR 0 w = 0.
Proof. unfold fillR. rewrite Rmult_0_l. apply RN_0. Qed.

Lemma fillR_1 w : (w <= W24)%N -> fillR 1 w = NR w.
Proof. intros H. unfold fillR. rewrite Rmult_1_l. apply RN_id, fmt_N, H. Qed.

(** G5: an empty bar at fraction 0 *)
Lemma g5_empty pos len width c nchars :
  (pos < U64)%N -> len_wf len -> (width <= W24)%N ->
  (len = None \/ (pos = 0%N /\ len <> Some 0%N)) ->
  let b := format_bar (fraction pos len) width c nchars in
  b_filled b = 0%N /\ b_cur b = None /\ b_bg b = (width / c)%N.
Proof.
  intros Hp Hl Hw Hz b. destruct (gview pos len width c nchars Hp Hl Hw) as [V E]. fold b in V.
  assert (E0 : frR pos len = 0).
  { destruct Hz as [->|[-> Hz]]; [reflexivity | apply frR_zero_pos, Hz]. }
  destruct V as [_ _ _ _ Vfl _ Vh Vbg]. fold b in Vfl, Vh, Vbg.
  rewrite E, E0, fillR_0 in *. rewrite Zfloor_IZR in Vfl.
  rewrite Rlt_bool_false in Vh by lra. cbn [andb] in Vh.
  assert (F0 : b_filled b = 0%N) by lia.
  repeat split; [exact F0 | | rewrite Vbg, Vh, F0, !N.sub_0_r; reflexivity].
  unfold b_head in Vh. destruct (b_cur b); [discriminate | reflexivity].
Qed.

(** G6: a full bar once pos >= len *)
Lemma g6_full pos l width c nchars :
  (pos < U64)%N -> (l < U64)%N -> (width <= W24)%N -> (l <= pos)%N ->
  let b := format_bar (fraction pos (Some l)) width c nchars in
  b_filled b = (width / c)%N /\ b_cur b = None /\ b_bg b = 0%N.
Proof.
  intros Hp Hl Hw Hz b. destruct (gview pos (Some l) width c nchars Hp Hl Hw) as [V E]. fold b in V.
  destruct V as [_ _ _ _ Vfl _ Vh Vbg]. fold b in Vfl, Vh, Vbg.
  rewrite E, (frR_full pos l Hz), fillR_1 in * by (apply div_le_W24, Hw).
  unfold NR in Vfl. rewrite Zfloor_IZR in Vfl.
  assert (F0 : b_filled b = (width / c)%N) by lia.
  rewrite F0, N.ltb_irrefl, andb_false_r in Vh.
  repeat split; [exact F0 | | rewrite Vbg, Vh, F0, N.sub_diag; reflexivity].
  unfold b_head in Vh. destruct (b_cur b); [discriminate | reflexivity].
Qed.

(** G7: never full before the end, for lengths up to 2^24 *)
Lemma g7_not_full pos l width c nchars :
  (l <= W24)%N -> (pos < l)%N -> (width <= W24)%N -> (1 <= width / c)%N ->
  (b_filled (format_bar (fraction pos (Some l)) width c nchars) < width / c)%N.
Proof.
  intros Hl Hpl Hw Hc.
  assert (Hp : (pos < U64)%N) by (unfold W24, U64 in *; lia).
  assert (Hl' : len_wf (Some l)) by (unfold len_wf, W24, U64 in *; lia).
  destruct (gview pos (Some l) width c nchars Hp Hl' Hw) as [V E].
  apply N2Z.inj_lt. rewrite (bv_filled _ _ _ _ V), E.
  apply lt_IZR. apply Rle_lt_trans with (1 := Zfloor_lb _).
  unfold fillR. apply RN_mul_lt.
  - split; [apply frR_bounds | apply frR_below_one; assumption].
  - apply fmt_N, div_le_W24, Hw.
  - apply (IZR_le 1). lia.
Qed.

Lemma fillR_pos fr w : bpow radix2 (-64) <= fr -> (1 <= w)%N -> 0 < fillR fr w.
Proof.
  intros Hf Hw. apply Rlt_le_trans with (bpow radix2 (-64)); [apply bpow_gt_0|].
  apply RN_ge_fmt; [apply fmt_bpow; lia|].
  assert (1 <= NR w) by (apply (IZR_le 1); lia).
  pose proof (bpow_gt_0 radix2 (-64)). nra.
Qed.

(** G2, in terms of the inputs: the partial cell is present exactly when the bar is neither
    empty nor full (lengths up to 2^24) *)
Lemma g2_semantic pos l width c nchars :
  (0 < l <= W24)%N -> (pos < U64)%N -> (width <= W24)%N ->
  (b_head (format_bar (fraction pos (Some l)) width c nchars) = 1%N <->
   (0 < pos < l)%N /\ (1 <= width / c)%N).
Proof.
  intros [Hl0 Hl24] Hp Hw.
  assert (Hl : len_wf (Some l)) by (unfold len_wf, W24, U64 in *; lia).
  destruct (gview pos (Some l) width c nchars Hp Hl Hw) as [V E].
  pose proof (g2_head pos (Some l) width c nchars Hp Hl Hw) as (G2 & _ & _). cbv zeta in G2.
  rewrite G2, (bv_fill _ _ _ _ V), (bv_cells _ _ _ _ V), E. split.
  - intros [Hfill Hlt]. split; [split|]; [| |lia].
    + destruct (N.eq_dec pos 0) as [->|]; [|lia].
      rewrite frR_zero_pos, fillR_0 in Hfill; [lra|]. intros X; injection X as X; lia.
    + destruct (N.lt_ge_cases pos l) as [|Hge]; [assumption|].
      pose proof (g6_full pos l width c nchars Hp Hl Hw Hge) as (F & _). cbv zeta in F. lia.
  - intros [[Hp0 Hpl] Hc]. split.
    + apply fillR_pos; [|exact Hc]. apply frR_positive; try assumption; lia.
    + apply g7_not_full; assumption.
Qed.

(** G8: {wide_bar} *)
Lemma g8_wide pos len c rest tw nchars :
  (pos < U64)%N -> len_wf len -> (tw <= W24)%N -> (c <> 0)%N ->
  wide_cols c rest tw pos len nchars = (rest + c * ((tw - rest) / c))%N /\
  ((rest <= tw)%N -> (wide_cols c rest tw pos len nchars <= tw < wide_cols c rest tw pos len nchars + c)%N) /\
  ((rest <= tw)%N -> c = 1%N -> wide_cols c rest tw pos len nchars = tw) /\
  ((tw < rest)%N -> wide_cols c rest tw pos len nchars = rest).
Proof.
  intros Hp Hl Hw Hc. unfold wide_cols, wide_left.
  assert (Hw' : (tw - rest <= W24)%N) by lia.
  pose proof (g1_cells pos len (tw - rest) c nchars Hp Hl Hw') as (_ & _ & _ & Hcols & _ & _).
  cbv zeta in Hcols. rewrite Hcols.
  pose proof (N.div_mod (tw - rest) c Hc) as Hdm. pose proof (N.mod_lt (tw - rest) c Hc) as Hml.
  split; [reflexivity|]. split; [|split].
  - intros Hr. lia.
  - intros Hr ->. rewrite N.div_1_r. lia.
  - intros Hr. replace (tw - rest)%N with 0%N by lia. rewrite N.div_0_l by exact Hc. lia.
Qed.

(** the text of the bar exists (no out-of-range index) and is the concatenation of its cells *)
Lemma cells_text_total chars cells :
  Forall (fun i => (i < nlen chars)%N) cells ->
  cells_text chars cells = Some (flat_map (fun i => nth (N.to_nat i) chars []) cells).
Proof.
  induction 1 as [|i r Hi Hr IH]; [reflexivity|].
  cbn [cells_text flat_map]. rewrite IH.
  assert (Hlt : (N.to_nat i < length chars)%nat) by (unfold nlen in Hi; lia).
  destruct (nth_error chars (N.to_nat i)) as [s|] eqn:E.
  - rewrite (nth_error_nth _ _ _ E). reflexivity.
  - apply nth_error_None in E. lia.
Qed.

Lemma Forall_rep {A} (P : A -> Prop) n x : P x -> Forall P (rep n x).
Proof. intros H. unfold rep. induction (N.to_nat n); cbn; constructor; assumption. Qed.

Lemma bar_cells_in_range (x : f32) width c nchars :
  (2 <= nchars <= W24 + 2)%N ->
  Forall (fun i => (i < nchars)%N) (bar_cells (format_bar x width c nchars) nchars).
Proof.
  intros Hn. unfold bar_cells. apply Forall_app. split; [apply Forall_rep; lia|].
  apply Forall_app. split; [|apply Forall_rep; lia].
  destruct (b_cur (format_bar x width c nchars)) as [i|] eqn:E; [|constructor].
  constructor; [|constructor]. apply (cur_in_range x width c nchars i Hn E).
Qed.

Lemma bar_text_total chars c (x : f32) width :
  (2 <= nlen chars <= W24 + 2)%N ->
  bar_text chars c x width =
  Some (flat_map (fun i => nth (N.to_nat i) chars [])
          (bar_cells (format_bar x width c (nlen chars)) (nlen chars))).
Proof. intros Hn. apply cells_text_total, bar_cells_in_range, Hn. Qed.

(** {bar:N} is padded to exactly N columns *)
Lemma pad_cols_sum a d : (fst (pad_cols a d) + snd (pad_cols a d) = d)%N.
Proof. destruct a; cbn [pad_cols fst snd]; lia. Qed.

Lemma bar_line_width chars c n a pos len :
  (2 <= nlen chars <= W24 + 2)%N -> (pos < U64)%N -> len_wf len -> (n <= W24)%N ->
  exists t l r,
    bar_line chars c (Some n) a pos len = Some (rep l BarGeom.SP ++ t ++ rep r BarGeom.SP) /\
    bar_text chars c (fraction pos len) n = Some t /\
    (l + bar_cols (format_bar (fraction pos len) n c (nlen chars)) c (nlen chars) + r = n)%N.
Proof.
  intros Hn Hp Hl Hw. unfold bar_line.
  rewrite (bar_text_total chars c (fraction pos len) n Hn).
  set (b := format_bar (fraction pos len) n c (nlen chars)).
  pose proof (g1_cells pos len n c (nlen chars) Hp Hl Hw) as (_ & _ & _ & _ & Hle & _).
  cbv zeta in Hle. fold b in Hle.
  pose proof (pad_cols_sum a (n - bar_cols b c (nlen chars))) as Hs.
  destruct (pad_cols a (n - bar_cols b c (nlen chars))) as [l r]. cbn [fst snd] in Hs.
  eexists _, l, r. split; [reflexivity|]. split; [reflexivity|]. lia.
Qed.

(** ** the fraction clause of C07 *)
Lemma fraction_range pos len : (pos < U64)%N -> len_wf len ->
  is_finite (fraction pos len) = true /\ is_nan (fraction pos len) = false /\
  0 <= B2R (fraction pos len) <= 1.
Proof.
  intros Hp Hl. destruct (fraction_correct pos len Hp Hl) as [F1 F2].
  split; [exact F2|]. split; [destruct (fraction pos len); try discriminate F2; reflexivity|].
  rewrite F1. apply frR_bounds.
Qed.

Lemma fraction_len0 pos : fraction pos (Some 0%N) = f_one.
Proof. vm_compute. reflexivity. Qed.

Lemma fraction_unknown pos : fraction pos None = f_zero.
Proof. reflexivity. Qed.

Lemma fraction_pos0 len : len <> Some 0%N -> fraction 0 len = f_zero.
Proof.
  intros H. destruct len as [[|l]|]; [congruence | reflexivity | reflexivity].
Qed.

Lemma fraction_full pos l : (pos < U64)%N -> (l < U64)%N -> (l <= pos)%N ->
  B2R (fraction pos (Some l)) = 1 /\ is_finite (fraction pos (Some l)) = true.
Proof.
  intros Hp Hl H. destruct (fraction_correct pos (Some l) Hp Hl) as [F1 F2].
  split; [|exact F2]. rewrite F1. apply frR_full, H.
Qed.

Lemma fraction_mono pos pos' len : (pos <= pos')%N -> (pos' < U64)%N -> len_wf len ->
  B2R (fraction pos len) <= B2R (fraction pos' len).
Proof.
  intros H Hp' Hl. assert (Hp : (pos < U64)%N) by lia.
  rewrite (proj1 (fraction_correct pos len Hp Hl)), (proj1 (fraction_correct pos' len Hp' Hl)).
  apply frR_mono, H.
Qed.

Lemma fraction_lt1 pos l : (l <= W24)%N -> (pos < l)%N ->
  B2R (fraction pos (Some l)) <= 1 - bpow radix2 (-24).
Proof.
  intros Hl H.
  assert (Hp : (pos < U64)%N) by (unfold W24, U64 in *; lia).
  assert (Hl' : len_wf (Some l)) by (unfold len_wf, W24, U64 in *; lia).
  rewrite (proj1 (fraction_correct pos (Some l) Hp Hl')). apply frR_below_one; assumption.
Qed.

Lemma fraction_gt0 pos l : (pos <> 0)%N -> (l <> 0)%N -> (pos < U64)%N -> (l < U64)%N ->
  bpow radix2 (-64) <= B2R (fraction pos (Some l)).
Proof.
  intros Hp0 Hl0 Hp Hl. rewrite (proj1 (fraction_correct pos (Some l) Hp Hl)).
  apply frR_positive; assumption.
Qed.

(** the bound 2^24 of G7 is tight: at len = 2^24+1 the bar is full one step early *)
Lemma g7_tight :
  let pos := 16777216%N in let l := 16777217%N in
  (pos < l)%N /\
  b_filled (format_bar (fraction pos (Some l)) 50 1 3) = 50%N /\
  f_bits (fraction pos (Some l)) = f_bits f_one.
Proof. vm_compute. repeat split; reflexivity. Qed.

Lemma filled_is_floor pos len width c nchars :
  (pos < U64)%N -> len_wf len -> (width <= W24)%N ->
  Z.of_N (b_filled (format_bar (fraction pos len) width c nchars)) =
  Zfloor (RN (B2R (fraction pos len) * IZR (Z.of_N (width / c)))).
Proof.
  intros Hp Hl Hw.
  exact (bv_filled _ _ _ _ (proj1 (gview pos len width c nchars Hp Hl Hw))).
Qed.

Lemma g3_text chars c (x : f32) width :
  (2 <= nlen chars <= W24 + 2)%N ->
  bar_text chars c x width =
  Some (flat_map (fun i => nth (N.to_nat i) chars [])
          (bar_cells (format_bar x width c (nlen chars)) (nlen chars))) /\
  Forall (fun i => (i < nlen chars)%N) (bar_cells (format_bar x width c (nlen chars)) (nlen chars)).
Proof.
  intros H. split; [exact (bar_text_total chars c x width H) | exact (bar_cells_in_range x width c (nlen chars) H)].
Qed.
