(** MultiProgress proofs for C02 / C03, part 1: structural invariants of MultiState, the
    refinement to the list specification (C02_order), what a multi draw hands to
    draw_to_term (C02_frame).  Everything is about model/Sys.v as it is. *)
From IndModel Require Import MultiSpec.
From Coq Require Import Lia ZifyBool ZifyNat ZifyN.
Arguments N.add : simpl never.
Arguments N.sub : simpl never.
Arguments N.mul : simpl never.
Arguments N.div : simpl never.
Arguments N.modulo : simpl never.
Arguments N.min : simpl never.

(* ------------------------------------------------------------------ lists *)
Lemma memN_In x l : memN x l = true <-> In x l.
Proof.
  unfold memN. rewrite existsb_exists. split.
  - intros [y [Hy He]]. apply N.eqb_eq in He. subst. exact Hy.
  - intros Hi. exists x. split; [exact Hi | apply N.eqb_refl].
Qed.
Lemma memN_false x l : memN x l = false <-> ~ In x l.
Proof. rewrite <- memN_In. destruct (memN x l); split; congruence. Qed.

Lemma updN_length {A} (l : list A) i f : length (updN l i f) = length l.
Proof. revert i; induction l as [|x r IH]; intros [|i]; cbn; auto. Qed.
Lemma updN_nth_eq {A} (l : list A) i f d : (i < length l)%nat -> nth i (updN l i f) d = f (nth i l d).
Proof. revert i; induction l as [|x r IH]; intros [|i] Hl; cbn in *; try lia; auto. apply IH; lia. Qed.
Lemma updN_nth_neq {A} (l : list A) i j f d : i <> j -> nth j (updN l i f) d = nth j l d.
Proof. revert i j; induction l as [|x r IH]; intros [|i] [|j] Hn; cbn; auto; try congruence. Qed.
Lemma updN_oob {A} (l : list A) i f : (length l <= i)%nat -> updN l i f = l.
Proof. revert i; induction l as [|x r IH]; intros [|i] Hl; cbn in *; auto; try lia. f_equal. apply IH. lia. Qed.

Lemma nthN_updN_eq {A} (l : list A) (i : N) f d :
  (N.to_nat i < length l)%nat -> nthN (updN l (N.to_nat i) f) i d = f (nthN l i d).
Proof. unfold nthN. apply updN_nth_eq. Qed.
Lemma nthN_updN_neq {A} (l : list A) (i j : N) f d :
  i <> j -> nthN (updN l (N.to_nat i) f) j d = nthN l j d.
Proof. unfold nthN. intros Hn. apply updN_nth_neq. lia. Qed.

Lemma insert_at_In {A} (l : list A) i x y : In y (insert_at l i x) <-> y = x \/ In y l.
Proof.
  revert i; induction l as [|z r IH]; intros [|i]; cbn; try rewrite IH; intuition congruence.
Qed.
Lemma insert_at_length {A} (l : list A) i x : length (insert_at l i x) = S (length l).
Proof. revert i; induction l as [|z r IH]; intros [|i]; cbn; auto. Qed.
Lemma insert_at_map {A B} (f : A -> B) l i x : map f (insert_at l i x) = insert_at (map f l) i (f x).
Proof. revert i; induction l as [|z r IH]; intros [|i]; cbn; auto. f_equal. apply IH. Qed.
Lemma insert_at_NoDup {A} (l : list A) i x : NoDup l -> ~ In x l -> NoDup (insert_at l i x).
Proof.
  revert i; induction l as [|z r IH]; intros [|i] Hn Hx; cbn.
  - constructor; auto.
  - constructor; auto.
  - constructor; auto.
  - inversion Hn as [|? ? Hz Hr]; subst. constructor.
    + rewrite insert_at_In. cbn in Hx. intuition congruence.
    + apply IH; auto. cbn in Hx. tauto.
Qed.
(** textbook form: the element lands at position [i] (clamped to the end) *)
Lemma insert_at_spec {A} (l : list A) i x :
  insert_at l i x = firstn i l ++ x :: skipn i l.
Proof. revert i; induction l as [|z r IH]; intros [|i]; cbn; auto. f_equal. apply IH. Qed.
Lemma insert_at_end {A} (l : list A) i x : (length l <= i)%nat -> insert_at l i x = l ++ [x].
Proof. revert i; induction l as [|z r IH]; intros [|i] Hl; cbn in *; auto; try lia. f_equal. apply IH. lia. Qed.

Lemma posN_Some x l p : posN x l = Some p -> (p < length l)%nat /\ nth p l 0 = x.
Proof.
  revert p; induction l as [|y r IH]; intros p; cbn; [discriminate|].
  destruct (N.eqb_spec x y) as [->|Hn].
  - intros [= <-]. split; [lia | reflexivity].
  - destruct (posN x r) as [q|]; cbn; [|discriminate]. intros [= <-].
    destruct (IH q eq_refl) as [Hq Hv]. split; [lia | exact Hv].
Qed.
Lemma posN_In x l : In x l -> exists p, posN x l = Some p.
Proof.
  induction l as [|y r IH]; cbn; [tauto|]. intros Hi.
  destruct (N.eqb_spec x y) as [->|Hn]; [eexists; reflexivity|].
  destruct IH as [p Hp]; [intuition congruence|]. rewrite Hp. eexists; reflexivity.
Qed.
Lemma posN_map_inj (f : N -> N) l x :
  (forall y, In y l -> f y = f x -> y = x) -> posN (f x) (map f l) = posN x l.
Proof.
  induction l as [|y r IH]; cbn; intros Hinj; [reflexivity|].
  destruct (N.eqb_spec x y) as [->|Hn].
  - rewrite N.eqb_refl. reflexivity.
  - destruct (N.eqb_spec (f x) (f y)) as [He|_].
    + exfalso. apply Hn. symmetry. apply Hinj; auto.
    + rewrite IH; auto.
Qed.

Lemma filter_neq_notin (x : N) l : ~ In x l -> filter (fun y => negb (N.eqb y x)) l = l.
Proof.
  induction l as [|y r IH]; cbn; intros Hn; [reflexivity|].
  destruct (N.eqb_spec y x) as [->|Hd]; cbn; [tauto|]. f_equal. apply IH. tauto.
Qed.
Lemma filter_neq_In (x : N) l z : In z (filter (fun y => negb (N.eqb y x)) l) <-> In z l /\ z <> x.
Proof.
  rewrite filter_In. destruct (N.eqb_spec z x); cbn; intuition congruence.
Qed.
Lemma filter_neq_length (x : N) l : NoDup l -> In x l ->
  S (length (filter (fun y => negb (N.eqb y x)) l)) = length l.
Proof.
  induction l as [|y r IH]; cbn; intros Hn Hi; [tauto|].
  inversion Hn as [|? ? Hy Hr]; subst.
  destruct (N.eqb_spec y x) as [->|Hd]; cbn.
  - rewrite filter_neq_notin; auto.
  - f_equal. apply IH; auto. intuition congruence.
Qed.
Lemma filter_NoDup {A} (f : A -> bool) l : NoDup l -> NoDup (filter f l).
Proof.
  induction l as [|y r IH]; cbn; intros Hn; [constructor|].
  inversion Hn as [|? ? Hy Hr]; subst.
  destruct (f y); auto. constructor; auto. rewrite filter_In. tauto.
Qed.
Lemma filter_map_inj (f : N -> N) l x :
  (forall y, In y l -> f y = f x -> y = x) ->
  filter (fun y => negb (N.eqb y (f x))) (map f l) = map f (filter (fun y => negb (N.eqb y x)) l).
Proof.
  induction l as [|y r IH]; cbn; intros Hinj; [reflexivity|].
  destruct (N.eqb_spec y x) as [->|Hn].
  - rewrite N.eqb_refl. cbn. apply IH. auto.
  - destruct (N.eqb_spec (f y) (f x)) as [He|_]; cbn.
    + exfalso. apply Hn. apply Hinj; auto.
    + f_equal. apply IH; auto.
Qed.

(* ------------------------------------------------------------------ MultiState, field by field *)
(** the slot-allocation part of MultiState *)
Record CoreInv (m : mstate) : Prop := mkCI {
  ci_nd_order : NoDup (ms_order m);
  ci_nd_free : NoDup (ms_free m);
  ci_disj : forall i, In i (ms_order m) -> ~ In i (ms_free m);
  ci_bound : forall i, In i (ms_order m) \/ In i (ms_free m) -> (N.to_nat i < length (ms_members m))%nat;
  ci_len : length (ms_members m) = (length (ms_order m) + length (ms_free m))%nat;
  ci_free_default : forall i, In i (ms_free m) -> nthN (ms_members m) i member_default = member_default }.

Definition same_core (m m' : mstate) : Prop :=
  ms_members m = ms_members m' /\ ms_free m = ms_free m' /\ ms_order m = ms_order m'.

Lemma same_core_inv m m' : same_core m m' -> CoreInv m -> CoreInv m'.
Proof.
  intros (Hm & Hf & Ho) [A B C D E F]. constructor; rewrite <- ?Hm, <- ?Hf, <- ?Ho; auto.
Qed.

Lemma remove_idx_free m i : In i (ms_free m) -> ms_remove_idx m i = m.
Proof. intros Hi. unfold ms_remove_idx. apply memN_In in Hi. rewrite Hi. reflexivity. Qed.

Lemma remove_idx_fields m i : ~ In i (ms_free m) ->
  ms_members (ms_remove_idx m i) = updN (ms_members m) (N.to_nat i) (fun _ => member_default)
  /\ ms_free (ms_remove_idx m i) = i :: ms_free m
  /\ ms_order (ms_remove_idx m i) = filter (fun x => negb (N.eqb x i)) (ms_order m).
Proof. intros Hi. unfold ms_remove_idx. apply memN_false in Hi. rewrite Hi. cbn. auto. Qed.

Lemma remove_idx_other m i :
  ms_align (ms_remove_idx m i) = ms_align m /\ ms_orphans (ms_remove_idx m i) = ms_orphans m
  /\ ms_zombie_lines (ms_remove_idx m i) = ms_zombie_lines m /\ ms_target (ms_remove_idx m i) = ms_target m.
Proof. unfold ms_remove_idx. destruct (memN i (ms_free m)); cbn; auto. Qed.

Lemma remove_idx_same_core m m' i : same_core m m' -> same_core (ms_remove_idx m i) (ms_remove_idx m' i).
Proof.
  intros (Hm & Hf & Ho). unfold ms_remove_idx. rewrite <- Hf.
  destruct (memN i (ms_free m)); cbn; unfold same_core; cbn; rewrite ?Hm, ?Hf, ?Ho; auto.
Qed.

(** removing a slot that is in the ordering keeps the allocation invariants *)
Lemma remove_idx_core m i : CoreInv m -> In i (ms_order m) \/ In i (ms_free m) -> CoreInv (ms_remove_idx m i).
Proof.
  intros CI Hi. destruct (in_dec N.eq_dec i (ms_free m)) as [Hf|Hf].
  - rewrite remove_idx_free; auto.
  - destruct Hi as [Hi|Hi]; [|tauto].
    destruct (remove_idx_fields m i Hf) as (Em & Ef & Eo). destruct CI as [A B C D E F].
    constructor; rewrite ?Em, ?Ef, ?Eo.
    + apply filter_NoDup; auto.
    + constructor; auto.
    + intros j Hj. apply filter_neq_In in Hj. cbn. intros [Hij|Hjf]; [intuition congruence|]. exact (C j (proj1 Hj) Hjf).
    + intros j Hj. rewrite updN_length. apply D. rewrite filter_neq_In in Hj. cbn in Hj.
      destruct Hj as [[Hj _]|[<-|Hj]]; auto.
    + rewrite updN_length. cbn. rewrite E. pose proof (filter_neq_length i (ms_order m) A Hi). lia.
    + intros j [<-|Hj].
      * rewrite nthN_updN_eq; auto.
      * destruct (N.eq_dec i j) as [->|Hn]; [rewrite nthN_updN_eq; auto|].
        rewrite nthN_updN_neq; auto.
Qed.

Lemma remove_idx_order_sub m i j : In j (ms_order (ms_remove_idx m i)) -> In j (ms_order m).
Proof.
  unfold ms_remove_idx. destruct (memN i (ms_free m)); cbn; auto. rewrite filter_neq_In. tauto.
Qed.

Lemma head_zombies_incl order mems i : In i (head_zombies order mems) -> In i order.
Proof.
  induction order as [|j r IH]; cbn; [tauto|].
  destruct (m_zombie (nthN mems j member_default)); cbn; [|tauto]. intuition.
Qed.

(** head_zombies is the longest all-zombie prefix *)
Lemma head_zombies_prefix order mems :
  order = head_zombies order mems ++ drop_while (fun i => m_zombie (nthN mems i member_default)) order.
Proof.
  induction order as [|j r IH]; cbn; [reflexivity|].
  destruct (m_zombie (nthN mems j member_default)); cbn; [f_equal; exact IH | reflexivity].
Qed.

Lemma fold_remove_core zs : forall m, CoreInv m -> (forall i, In i zs -> In i (ms_order m) \/ In i (ms_free m)) ->
  CoreInv (fold_left ms_remove_idx zs m).
Proof.
  induction zs as [|z r IH]; cbn; intros m CI Hz; [exact CI|].
  apply IH.
  - apply remove_idx_core; auto.
  - intros i Hi. destruct (Hz i (or_intror Hi)) as [Ho|Hf].
    + destruct (N.eq_dec i z) as [->|Hn].
      * destruct (in_dec N.eq_dec z (ms_free m)) as [Hzf|Hzf].
        -- rewrite remove_idx_free; auto.
        -- destruct (remove_idx_fields m z Hzf) as (_ & Ef & _). right. rewrite Ef. left; reflexivity.
      * destruct (in_dec N.eq_dec z (ms_free m)) as [Hzf|Hzf].
        -- rewrite remove_idx_free; auto.
        -- destruct (remove_idx_fields m z Hzf) as (_ & _ & Eo). left. rewrite Eo, filter_neq_In. auto.
    + right. destruct (in_dec N.eq_dec z (ms_free m)) as [Hzf|Hzf].
      * rewrite remove_idx_free; auto.
      * destruct (remove_idx_fields m z Hzf) as (_ & Ef & _). rewrite Ef. right; exact Hf.
Qed.

Lemma fold_remove_other zs : forall m,
  ms_align (fold_left ms_remove_idx zs m) = ms_align m /\ ms_orphans (fold_left ms_remove_idx zs m) = ms_orphans m
  /\ ms_zombie_lines (fold_left ms_remove_idx zs m) = ms_zombie_lines m
  /\ ms_target (fold_left ms_remove_idx zs m) = ms_target m.
Proof.
  induction zs as [|z r IH]; cbn; intros m; [auto|].
  destruct (IH (ms_remove_idx m z)) as (A & B & C & D). destruct (remove_idx_other m z) as (A' & B' & C' & D').
  rewrite A, B, C, D. auto.
Qed.

Lemma fold_remove_same_core zs : forall m m', same_core m m' ->
  same_core (fold_left ms_remove_idx zs m) (fold_left ms_remove_idx zs m').
Proof. induction zs as [|z r IH]; cbn; intros m m' Hs; [exact Hs|]. apply IH, remove_idx_same_core, Hs. Qed.

Lemma filter_filter_mem z r l :
  filter (fun x => negb (memN x r)) (filter (fun x => negb (N.eqb x z)) l)
  = filter (fun x => negb (memN x (z :: r))) l.
Proof.
  induction l as [|y q IH]; [reflexivity|].
  cbn [filter memN existsb]. rewrite (N.eqb_sym y z) at 1.
  destruct (N.eqb_spec z y) as [->|Hd].
  - rewrite N.eqb_refl. cbn. exact IH.
  - rewrite (proj2 (N.eqb_neq y z)) by congruence. cbn [negb orb filter]. fold (memN y r).
    destruct (memN y r); cbn [negb]; [exact IH | f_equal; exact IH].
Qed.

(** removing distinct slots of the ordering one after the other = filtering them out *)
Lemma fold_remove_order zs : forall m, (forall i, In i zs -> ~ In i (ms_free m)) -> NoDup zs ->
  ms_order (fold_left ms_remove_idx zs m) = filter (fun x => negb (memN x zs)) (ms_order m)
  /\ ms_free (fold_left ms_remove_idx zs m) = rev zs ++ ms_free m
  /\ (forall j, ~ In j zs -> nthN (ms_members (fold_left ms_remove_idx zs m)) j member_default
                             = nthN (ms_members m) j member_default)
  /\ length (ms_members (fold_left ms_remove_idx zs m)) = length (ms_members m).
Proof.
  induction zs as [|z r IH]; cbn; intros m Hz Hn.
  - repeat split; auto. induction (ms_order m) as [|y q IHq]; cbn; [reflexivity | f_equal; exact IHq].
  - inversion Hn as [|? ? Hzr Hr]; subst.
    assert (Hzf : ~ In z (ms_free m)) by (apply Hz; auto).
    destruct (remove_idx_fields m z Hzf) as (Em & Ef & Eo).
    destruct (IH (ms_remove_idx m z)) as (A & B & C & D); auto.
    { intros i Hi. rewrite Ef. cbn. intros [<-|Hf]; [tauto|]. eapply Hz; eauto. }
    rewrite A, B, D, Eo, Ef, Em, updN_length. repeat split.
    + apply filter_filter_mem.
    + rewrite <- app_assoc. reflexivity.
    + intros j Hj. rewrite C by tauto. rewrite Em. apply nthN_updN_neq. intros ->. tauto.
Qed.

(* ------------------------------------------------------------------ MultiState::draw, unfolded *)
Section WithTerm.
  Variable W H : N.
  Variable fails : N -> bool.

  Lemma ms_draw_hidden m force extra now c :
    (forall tg, ms_target m <> TTerm tg) -> ms_draw W H fails m force extra now c = (m, [], c, true).
  Proof. intros Hn. unfold ms_draw. destruct (ms_target m); try reflexivity. exfalso. eapply Hn; reflexivity. Qed.

  Lemma ms_draw_unfold m force extra now c tg :
    ms_target m = TTerm tg ->
    let ht := ms_has_text m extra in
    let tg1 := if ht then tt_adjust_clear tg (ms_zombie_lines m) else tg in
    let zl1 := if ht then 0 else ms_zombie_lines m in
    let al := tt_allow tg1 (force || (0 <? visual_line_count (ms_orphans m) W)) now in
    ms_draw W H fails m force extra now c =
    if negb (fst al) then (set_ms_target (set_ms_zombie_lines m zl1) (TTerm (snd al)), [], c, true)
    else
      let tg2 := snd al in
      let td := term_draw W H fails (mktt (tt_n tg2) (tt_rl tg2) (ms_align m) (tt_below tg2)) (ms_frame m extra) c in
      let tg3 := fst (fst (fst td)) in
      let m2 := fold_left ms_remove_idx (head_zombies (ms_order m) (ms_members m))
                  (set_ms_target (set_ms_zombie_lines (set_ms_orphans m []) zl1) (TTerm tg3)) in
      let adj' := N.min (zombie_rows W m) (target_n (ms_target m2)) in
      (if ht then m2
       else set_ms_zombie_lines (set_ms_target m2 (target_adjust_keep (ms_target m2) adj'))
                                (ms_zombie_lines m2 + adj'),
       snd (fst (fst td)), snd (fst td), snd td).
  Proof.
    intros Ht. unfold ms_draw, ms_has_text, ms_frame, zombie_rows. rewrite Ht.
    destruct (match extra with Some _ => true | None => false end
              || negb match ms_orphans m with [] => true | _ :: _ => false end); cbn zeta iota;
    match goal with |- context [tt_allow ?a ?b ?c] => destruct (tt_allow a b c) as [al tg2] end;
    cbn [fst snd]; destruct al; cbn [negb]; try reflexivity;
    match goal with |- context [term_draw ?a ?b ?c ?d ?e ?f] => destruct (term_draw a b c d e f) as [[[tg3 e'] c'] ok] end;
    reflexivity.
  Qed.
End WithTerm.

Definition fst4 {A B C D} (x : A * B * C * D) : A := fst (fst (fst x)).
Definition zflag (m : mstate) (i : N) : bool := m_zombie (nthN (ms_members m) i member_default).

Lemma drop_while_map {A B} (f : A -> B) (p : B -> bool) l :
  drop_while p (map f l) = map f (drop_while (fun x => p (f x)) l).
Proof. induction l as [|x r IH]; cbn; [reflexivity|]. destruct (p (f x)); [exact IH | reflexivity]. Qed.
Lemma drop_while_ext {A} (p q : A -> bool) l : (forall x, In x l -> p x = q x) -> drop_while p l = drop_while q l.
Proof.
  induction l as [|x r IH]; cbn; intros He; [reflexivity|].
  rewrite (He x (or_introl eq_refl)). destruct (q x); [apply IH; auto | reflexivity].
Qed.
Lemma drop_while_incl {A} (p : A -> bool) l x : In x (drop_while p l) -> In x l.
Proof. induction l as [|y r IH]; cbn; [tauto|]. destruct (p y); cbn; auto. Qed.
Lemma drop_while_NoDup {A} (p : A -> bool) l : NoDup l -> NoDup (drop_while p l).
Proof. induction l as [|y r IH]; cbn; intros Hn; [constructor|]. destruct (p y); auto. inversion Hn; auto. Qed.

(** on a duplicate-free list, filtering out the all-zombie prefix = dropping it *)
Lemma filter_head_zombies order mems : NoDup order ->
  filter (fun x => negb (memN x (head_zombies order mems))) order
  = drop_while (fun i => m_zombie (nthN mems i member_default)) order.
Proof.
  induction order as [|j r IH]; intros Hn; [reflexivity|].
  inversion Hn as [|? ? Hj Hr]; subst. cbn [head_zombies drop_while].
  destruct (m_zombie (nthN mems j member_default)) eqn:Hz.
  - cbn [filter memN existsb]. rewrite N.eqb_refl. cbn [orb negb].
    rewrite <- IH by exact Hr. apply filter_ext_in. intros a Ha.
    destruct (N.eqb_spec a j) as [->|_]; [tauto | reflexivity].
  - cbn [memN existsb]. clear. induction (j :: r) as [|y q IHq]; cbn; [reflexivity | f_equal; exact IHq].
Qed.

Lemma head_zombies_NoDup order mems : NoDup order -> NoDup (head_zombies order mems).
Proof.
  induction order as [|j r IH]; cbn; intros Hn; [constructor|].
  inversion Hn as [|? ? Hj Hr]; subst. destruct (m_zombie (nthN mems j member_default)); [|constructor].
  constructor; auto. intros Hi. apply Hj. eapply head_zombies_incl; eauto.
Qed.

Lemma head_zombies_flag order mems i : In i (head_zombies order mems) -> m_zombie (nthN mems i member_default) = true.
Proof.
  induction order as [|j r IH]; cbn; [tauto|].
  destruct (m_zombie (nthN mems j member_default)) eqn:Hz; cbn; [|tauto]. intros [<-|Hi]; auto.
Qed.

(** reaping the head zombies *)
Lemma ms_reap_spec m0 m : CoreInv m -> same_core m m0 ->
  let m' := fold_left ms_remove_idx (head_zombies (ms_order m) (ms_members m)) m0 in
  CoreInv m'
  /\ ms_order m' = drop_while (zflag m) (ms_order m)
  /\ (forall j, In j (ms_order m') -> nthN (ms_members m') j member_default = nthN (ms_members m) j member_default)
  /\ length (ms_members m') = length (ms_members m)
  /\ (forall j, In j (ms_free m') -> In j (ms_free m) \/ (In j (ms_order m) /\ zflag m j = true)).
Proof.
  intros CI (Em & Ef & Eo). cbn zeta.
  set (zs := head_zombies (ms_order m) (ms_members m)).
  assert (CI0 : CoreInv m0) by (eapply same_core_inv; [split; [|split]; eauto | exact CI]).
  assert (Hzo : forall i, In i zs -> In i (ms_order m)) by (intros i; apply head_zombies_incl).
  assert (Hnd : NoDup zs) by (apply head_zombies_NoDup, CI).
  destruct (fold_remove_order zs m0) as (A & B & C & D); auto.
  { intros i Hi. rewrite <- Ef. intros Hf. eapply (ci_disj m CI); eauto. }
  split; [|split; [|split; [|split]]].
  - apply fold_remove_core; auto. intros i Hi. left. rewrite <- Eo. auto.
  - rewrite A, <- Eo. apply filter_head_zombies, CI.
  - intros j Hj. rewrite C, Em; auto. rewrite A, <- Eo in Hj. apply filter_In in Hj.
    destruct Hj as [_ Hj]. destruct (memN j zs) eqn:Hm; [discriminate|]. apply memN_false in Hm. exact Hm.
  - rewrite D, Em. reflexivity.
  - intros j Hj. rewrite B, <- Ef in Hj. apply in_app_or in Hj. destruct Hj as [Hj|Hj]; [right | left; exact Hj].
    apply in_rev in Hj. split; [auto | apply head_zombies_flag in Hj; exact Hj].
Qed.
