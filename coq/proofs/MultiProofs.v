(** MultiProgress proofs for C02 / C03, part 1: structural invariants of MultiState, the
    refinement to the list specification (C02_order), what a multi draw hands to
    draw_to_term (C02_frame).  Everything is about model/Sys.v as it is. *)
From IndModel Require Import MultiSpec.
From Coq Require Import Lia ZifyBool ZifyNat ZifyN.
Arguments N.add : simpl never.
Arguments N.sub : simpl never.
Arguments N.mul : simpl never.
Arguments N.div : simpl never.
Arguments N.modulo : simpl never.
Arguments N.min : simpl never.
Arguments nthN {A} l i d : simpl never.

(* ------------------------------------------------------------------ lists *)
Lemma memN_In x l : memN x l = true <-> In x l.
Proof.
  unfold memN. rewrite existsb_exists. split.
  - intros [y [Hy He]]. apply N.eqb_eq in He. subst. exact Hy.
  - intros Hi. exists x. split; [exact Hi | apply N.eqb_refl].
Qed.
Lemma memN_false x l : memN x l = false <-> ~ In x l.
Proof. rewrite <- memN_In. destruct (memN x l); split; congruence. Qed.

Lemma updN_length {A} (l : list A) i f : length (updN l i f) = length l.
Proof. revert i; induction l as [|x r IH]; intros [|i]; cbn; auto. Qed.
Lemma updN_nth_eq {A} (l : list A) i f d : (i < length l)%nat -> nth i (updN l i f) d = f (nth i l d).
Proof. revert i; induction l as [|x r IH]; intros [|i] Hl; cbn in *; try lia; auto. apply IH; lia. Qed.
Lemma updN_nth_neq {A} (l : list A) i j f d : i <> j -> nth j (updN l i f) d = nth j l d.
Proof. revert i j; induction l as [|x r IH]; intros [|i] [|j] Hn; cbn; auto; try congruence. Qed.
Lemma updN_oob {A} (l : list A) i f : (length l <= i)%nat -> updN l i f = l.
Proof. revert i; induction l as [|x r IH]; intros [|i] Hl; cbn in *; auto; try lia. f_equal. apply IH. lia. Qed.

Lemma nthN_updN_eq {A} (l : list A) (i : N) f d :
  (N.to_nat i < length l)%nat -> nthN (updN l (N.to_nat i) f) i d = f (nthN l i d).
Proof. unfold nthN. apply updN_nth_eq. Qed.
Lemma nthN_updN_neq {A} (l : list A) (i j : N) f d :
  i <> j -> nthN (updN l (N.to_nat i) f) j d = nthN l j d.
Proof. unfold nthN. intros Hn. apply updN_nth_neq. lia. Qed.

Lemma insert_at_In {A} (l : list A) i x y : In y (insert_at l i x) <-> y = x \/ In y l.
Proof.
  revert i; induction l as [|z r IH]; intros [|i]; cbn; try rewrite IH; intuition congruence.
Qed.
Lemma insert_at_length {A} (l : list A) i x : length (insert_at l i x) = S (length l).
Proof. revert i; induction l as [|z r IH]; intros [|i]; cbn; auto. Qed.
Lemma insert_at_map {A B} (f : A -> B) l i x : map f (insert_at l i x) = insert_at (map f l) i (f x).
Proof. revert i; induction l as [|z r IH]; intros [|i]; cbn; auto. f_equal. apply IH. Qed.
Lemma insert_at_NoDup {A} (l : list A) i x : NoDup l -> ~ In x l -> NoDup (insert_at l i x).
Proof.
  revert i; induction l as [|z r IH]; intros [|i] Hn Hx; cbn.
  - constructor; auto.
  - constructor; auto.
  - constructor; auto.
  - inversion Hn as [|? ? Hz Hr]; subst. constructor.
    + rewrite insert_at_In. cbn in Hx. intuition congruence.
    + apply IH; auto. cbn in Hx. tauto.
Qed.
(** textbook form: the element lands at position [i] (clamped to the end) *)
Lemma insert_at_spec {A} (l : list A) i x :
  insert_at l i x = firstn i l ++ x :: skipn i l.
Proof. revert i; induction l as [|z r IH]; intros [|i]; cbn; auto. f_equal. apply IH. Qed.
Lemma insert_at_end {A} (l : list A) i x : (length l <= i)%nat -> insert_at l i x = l ++ [x].
Proof. revert i; induction l as [|z r IH]; intros [|i] Hl; cbn in *; auto; try lia. f_equal. apply IH. lia. Qed.

Lemma posN_Some x l p : posN x l = Some p -> (p < length l)%nat /\ nth p l 0 = x.
Proof.
  revert p; induction l as [|y r IH]; intros p; cbn; [discriminate|].
  destruct (N.eqb_spec x y) as [->|Hn].
  - intros [= <-]. split; [lia | reflexivity].
  - destruct (posN x r) as [q|]; cbn; [|discriminate]. intros [= <-].
    destruct (IH q eq_refl) as [Hq Hv]. split; [lia | exact Hv].
Qed.
Lemma posN_In x l : In x l -> exists p, posN x l = Some p.
Proof.
  induction l as [|y r IH]; cbn; [tauto|]. intros Hi.
  destruct (N.eqb_spec x y) as [->|Hn]; [eexists; reflexivity|].
  destruct IH as [p Hp]; [intuition congruence|]. rewrite Hp. eexists; reflexivity.
Qed.
Lemma posN_map_inj (f : N -> N) l x :
  (forall y, In y l -> f y = f x -> y = x) -> posN (f x) (map f l) = posN x l.
Proof.
  induction l as [|y r IH]; cbn; intros Hinj; [reflexivity|].
  destruct (N.eqb_spec x y) as [->|Hn].
  - rewrite N.eqb_refl. reflexivity.
  - destruct (N.eqb_spec (f x) (f y)) as [He|_].
    + exfalso. apply Hn. symmetry. apply Hinj; auto.
    + rewrite IH; auto.
Qed.

Lemma filter_neq_notin (x : N) l : ~ In x l -> filter (fun y => negb (N.eqb y x)) l = l.
Proof.
  induction l as [|y r IH]; cbn; intros Hn; [reflexivity|].
  destruct (N.eqb_spec y x) as [->|Hd]; cbn; [tauto|]. f_equal. apply IH. tauto.
Qed.
Lemma filter_neq_In (x : N) l z : In z (filter (fun y => negb (N.eqb y x)) l) <-> In z l /\ z <> x.
Proof.
  rewrite filter_In. destruct (N.eqb_spec z x); cbn; intuition congruence.
Qed.
Lemma filter_neq_length (x : N) l : NoDup l -> In x l ->
  S (length (filter (fun y => negb (N.eqb y x)) l)) = length l.
Proof.
  induction l as [|y r IH]; cbn; intros Hn Hi; [tauto|].
  inversion Hn as [|? ? Hy Hr]; subst.
  destruct (N.eqb_spec y x) as [->|Hd]; cbn.
  - rewrite filter_neq_notin; auto.
  - f_equal. apply IH; auto. intuition congruence.
Qed.
Lemma filter_NoDup {A} (f : A -> bool) l : NoDup l -> NoDup (filter f l).
Proof.
  induction l as [|y r IH]; cbn; intros Hn; [constructor|].
  inversion Hn as [|? ? Hy Hr]; subst.
  destruct (f y); auto. constructor; auto. rewrite filter_In. tauto.
Qed.
Lemma filter_map_inj (f : N -> N) l x :
  (forall y, In y l -> f y = f x -> y = x) ->
  filter (fun y => negb (N.eqb y (f x))) (map f l) = map f (filter (fun y => negb (N.eqb y x)) l).
Proof.
  induction l as [|y r IH]; cbn; intros Hinj; [reflexivity|].
  destruct (N.eqb_spec y x) as [->|Hn].
  - rewrite N.eqb_refl. cbn. apply IH. auto.
  - destruct (N.eqb_spec (f y) (f x)) as [He|_]; cbn.
    + exfalso. apply Hn. apply Hinj; auto.
    + f_equal. apply IH; auto.
Qed.

(* ------------------------------------------------------------------ MultiState, field by field *)
(** the slot-allocation part of MultiState: [CoreInv] is defined in model/MultiSpec.v *)

Definition same_core (m m' : mstate) : Prop :=
  ms_members m = ms_members m' /\ ms_free m = ms_free m' /\ ms_order m = ms_order m'.

Lemma same_core_inv m m' : same_core m m' -> CoreInv m -> CoreInv m'.
Proof.
  intros (Hm & Hf & Ho) [A B C D E F]. constructor; rewrite <- ?Hm, <- ?Hf, <- ?Ho; auto.
Qed.

Lemma remove_idx_free m i : In i (ms_free m) -> ms_remove_idx m i = m.
Proof. intros Hi. unfold ms_remove_idx. apply memN_In in Hi. rewrite Hi. reflexivity. Qed.

Lemma remove_idx_fields m i : ~ In i (ms_free m) ->
  ms_members (ms_remove_idx m i) = updN (ms_members m) (N.to_nat i) (fun _ => member_default)
  /\ ms_free (ms_remove_idx m i) = i :: ms_free m
  /\ ms_order (ms_remove_idx m i) = filter (fun x => negb (N.eqb x i)) (ms_order m).
Proof. intros Hi. unfold ms_remove_idx. apply memN_false in Hi. rewrite Hi. cbn. auto. Qed.

Lemma remove_idx_other m i :
  ms_align (ms_remove_idx m i) = ms_align m /\ ms_orphans (ms_remove_idx m i) = ms_orphans m
  /\ ms_zombie_lines (ms_remove_idx m i) = ms_zombie_lines m /\ ms_target (ms_remove_idx m i) = ms_target m.
Proof. unfold ms_remove_idx. destruct (memN i (ms_free m)); cbn; auto. Qed.

Lemma remove_idx_same_core m m' i : same_core m m' -> same_core (ms_remove_idx m i) (ms_remove_idx m' i).
Proof.
  intros (Hm & Hf & Ho). unfold ms_remove_idx. rewrite <- Hf.
  destruct (memN i (ms_free m)); cbn; unfold same_core; cbn; rewrite ?Hm, ?Hf, ?Ho; auto.
Qed.

(** removing a slot that is in the ordering keeps the allocation invariants *)
Lemma remove_idx_core m i : CoreInv m -> In i (ms_order m) \/ In i (ms_free m) -> CoreInv (ms_remove_idx m i).
Proof.
  intros CI Hi. destruct (in_dec N.eq_dec i (ms_free m)) as [Hf|Hf].
  - rewrite remove_idx_free; auto.
  - destruct Hi as [Hi|Hi]; [|tauto].
    destruct (remove_idx_fields m i Hf) as (Em & Ef & Eo). destruct CI as [A B C D E F].
    constructor; rewrite ?Em, ?Ef, ?Eo.
    + apply filter_NoDup; auto.
    + constructor; auto.
    + intros j Hj. apply filter_neq_In in Hj. cbn. intros [Hij|Hjf]; [intuition congruence|]. exact (C j (proj1 Hj) Hjf).
    + intros j Hj. rewrite updN_length. apply D. rewrite filter_neq_In in Hj. cbn in Hj.
      destruct Hj as [[Hj _]|[<-|Hj]]; auto.
    + rewrite updN_length. cbn. rewrite E. pose proof (filter_neq_length i (ms_order m) A Hi). lia.
    + intros j [<-|Hj].
      * rewrite nthN_updN_eq; auto.
      * destruct (N.eq_dec i j) as [->|Hn]; [rewrite nthN_updN_eq; auto|].
        rewrite nthN_updN_neq; auto.
Qed.

Lemma remove_idx_order_sub m i j : In j (ms_order (ms_remove_idx m i)) -> In j (ms_order m).
Proof.
  unfold ms_remove_idx. destruct (memN i (ms_free m)); cbn; auto. rewrite filter_neq_In. tauto.
Qed.

Lemma head_zombies_incl order mems i : In i (head_zombies order mems) -> In i order.
Proof.
  induction order as [|j r IH]; cbn; [tauto|].
  destruct (m_zombie (nthN mems j member_default)); cbn; [|tauto]. intuition.
Qed.

(** head_zombies is the longest all-zombie prefix *)
Lemma head_zombies_prefix order mems :
  order = head_zombies order mems ++ drop_while (fun i => m_zombie (nthN mems i member_default)) order.
Proof.
  induction order as [|j r IH]; cbn; [reflexivity|].
  destruct (m_zombie (nthN mems j member_default)); cbn; [f_equal; exact IH | reflexivity].
Qed.

Lemma fold_remove_core zs : forall m, CoreInv m -> (forall i, In i zs -> In i (ms_order m) \/ In i (ms_free m)) ->
  CoreInv (fold_left ms_remove_idx zs m).
Proof.
  induction zs as [|z r IH]; cbn; intros m CI Hz; [exact CI|].
  apply IH.
  - apply remove_idx_core; auto.
  - intros i Hi. destruct (Hz i (or_intror Hi)) as [Ho|Hf].
    + destruct (N.eq_dec i z) as [->|Hn].
      * destruct (in_dec N.eq_dec z (ms_free m)) as [Hzf|Hzf].
        -- rewrite remove_idx_free; auto.
        -- destruct (remove_idx_fields m z Hzf) as (_ & Ef & _). right. rewrite Ef. left; reflexivity.
      * destruct (in_dec N.eq_dec z (ms_free m)) as [Hzf|Hzf].
        -- rewrite remove_idx_free; auto.
        -- destruct (remove_idx_fields m z Hzf) as (_ & _ & Eo). left. rewrite Eo, filter_neq_In. auto.
    + right. destruct (in_dec N.eq_dec z (ms_free m)) as [Hzf|Hzf].
      * rewrite remove_idx_free; auto.
      * destruct (remove_idx_fields m z Hzf) as (_ & Ef & _). rewrite Ef. right; exact Hf.
Qed.

Lemma fold_remove_other zs : forall m,
  ms_align (fold_left ms_remove_idx zs m) = ms_align m /\ ms_orphans (fold_left ms_remove_idx zs m) = ms_orphans m
  /\ ms_zombie_lines (fold_left ms_remove_idx zs m) = ms_zombie_lines m
  /\ ms_target (fold_left ms_remove_idx zs m) = ms_target m.
Proof.
  induction zs as [|z r IH]; cbn; intros m; [auto|].
  destruct (IH (ms_remove_idx m z)) as (A & B & C & D). destruct (remove_idx_other m z) as (A' & B' & C' & D').
  rewrite A, B, C, D. auto.
Qed.

Lemma fold_remove_same_core zs : forall m m', same_core m m' ->
  same_core (fold_left ms_remove_idx zs m) (fold_left ms_remove_idx zs m').
Proof. induction zs as [|z r IH]; cbn; intros m m' Hs; [exact Hs|]. apply IH, remove_idx_same_core, Hs. Qed.

Lemma filter_filter_mem z r l :
  filter (fun x => negb (memN x r)) (filter (fun x => negb (N.eqb x z)) l)
  = filter (fun x => negb (memN x (z :: r))) l.
Proof.
  induction l as [|y q IH]; [reflexivity|].
  cbn [filter memN existsb]. rewrite (N.eqb_sym y z) at 1.
  destruct (N.eqb_spec z y) as [->|Hd].
  - rewrite N.eqb_refl. cbn. exact IH.
  - rewrite (proj2 (N.eqb_neq y z)) by congruence. cbn [negb orb filter]. fold (memN y r).
    destruct (memN y r); cbn [negb]; [exact IH | f_equal; exact IH].
Qed.

(** removing distinct slots of the ordering one after the other = filtering them out *)
Lemma fold_remove_order zs : forall m, (forall i, In i zs -> ~ In i (ms_free m)) -> NoDup zs ->
  ms_order (fold_left ms_remove_idx zs m) = filter (fun x => negb (memN x zs)) (ms_order m)
  /\ ms_free (fold_left ms_remove_idx zs m) = rev zs ++ ms_free m
  /\ (forall j, ~ In j zs -> nthN (ms_members (fold_left ms_remove_idx zs m)) j member_default
                             = nthN (ms_members m) j member_default)
  /\ length (ms_members (fold_left ms_remove_idx zs m)) = length (ms_members m).
Proof.
  induction zs as [|z r IH]; cbn; intros m Hz Hn.
  - repeat split; auto. induction (ms_order m) as [|y q IHq]; cbn; [reflexivity | f_equal; exact IHq].
  - inversion Hn as [|? ? Hzr Hr]; subst.
    assert (Hzf : ~ In z (ms_free m)) by (apply Hz; auto).
    destruct (remove_idx_fields m z Hzf) as (Em & Ef & Eo).
    destruct (IH (ms_remove_idx m z)) as (A & B & C & D); auto.
    { intros i Hi. rewrite Ef. cbn. intros [<-|Hf]; [tauto|]. eapply Hz; eauto. }
    rewrite A, B, D, Eo, Ef, Em, updN_length. repeat split.
    + apply filter_filter_mem.
    + rewrite <- app_assoc. reflexivity.
    + intros j Hj. rewrite C by tauto. rewrite Em. apply nthN_updN_neq. intros ->. tauto.
Qed.

(* ------------------------------------------------------------------ MultiState::draw, unfolded *)
Section WithTerm.
  Variable W H : N.
  Variable fails : N -> bool.

  Lemma ms_draw_hidden m force extra now c :
    (forall tg, ms_target m <> TTerm tg) -> ms_draw W H fails m force extra now c = (m, [], c, true).
  Proof. intros Hn. unfold ms_draw. destruct (ms_target m); try reflexivity. exfalso. eapply Hn; reflexivity. Qed.

  Lemma ms_draw_unfold m force extra now c tg :
    ms_target m = TTerm tg ->
    let ht := ms_has_text m extra in
    let tg1 := if ht then tt_adjust_clear tg (ms_zombie_lines m) else tg in
    let zl1 := if ht then 0 else ms_zombie_lines m in
    let al := tt_allow tg1 (force || (0 <? visual_line_count (ms_orphans m) W)) now in
    ms_draw W H fails m force extra now c =
    if negb (fst al) then (set_ms_target (set_ms_zombie_lines m zl1) (TTerm (snd al)), [], c, true)
    else
      let tg2 := snd al in
      let td := term_draw W H fails (mktt (tt_n tg2) (tt_rl tg2) (ms_align m) (tt_below tg2)) (ms_frame m extra) c in
      let tg3 := fst (fst (fst td)) in
      let m2 := fold_left ms_remove_idx (head_zombies (ms_order m) (ms_members m))
                  (set_ms_target (set_ms_zombie_lines (set_ms_orphans m []) zl1) (TTerm tg3)) in
      let adj' := N.min (zombie_rows W m) (target_n (ms_target m2)) in
      (if ht then m2
       else set_ms_zombie_lines (set_ms_target m2 (target_adjust_keep (ms_target m2) adj'))
                                (ms_zombie_lines m2 + adj'),
       snd (fst (fst td)), snd (fst td), snd td).
  Proof.
    intros Ht. unfold ms_draw, ms_has_text, ms_frame, zombie_rows. rewrite Ht.
    destruct (match extra with Some _ => true | None => false end
              || negb match ms_orphans m with [] => true | _ :: _ => false end); cbn zeta iota;
    match goal with |- context [tt_allow ?a ?b ?c] => destruct (tt_allow a b c) as [al tg2] end;
    cbn [fst snd]; destruct al; cbn [negb]; try reflexivity;
    match goal with |- context [term_draw ?a ?b ?c ?d ?e ?f] => destruct (term_draw a b c d e f) as [[[tg3 e'] c'] ok] end;
    reflexivity.
  Qed.
End WithTerm.

Definition fst4 {A B C D} (x : A * B * C * D) : A := fst (fst (fst x)).
Definition zflag (m : mstate) (i : N) : bool := m_zombie (nthN (ms_members m) i member_default).

Lemma drop_while_map {A B} (f : A -> B) (p : B -> bool) l :
  drop_while p (map f l) = map f (drop_while (fun x => p (f x)) l).
Proof. induction l as [|x r IH]; cbn; [reflexivity|]. destruct (p (f x)); [exact IH | reflexivity]. Qed.
Lemma drop_while_ext {A} (p q : A -> bool) l : (forall x, In x l -> p x = q x) -> drop_while p l = drop_while q l.
Proof.
  induction l as [|x r IH]; cbn; intros He; [reflexivity|].
  rewrite (He x (or_introl eq_refl)). destruct (q x); [apply IH; auto | reflexivity].
Qed.
Lemma drop_while_incl {A} (p : A -> bool) l x : In x (drop_while p l) -> In x l.
Proof. induction l as [|y r IH]; cbn; [tauto|]. destruct (p y); cbn; auto. Qed.
Lemma drop_while_NoDup {A} (p : A -> bool) l : NoDup l -> NoDup (drop_while p l).
Proof. induction l as [|y r IH]; cbn; intros Hn; [constructor|]. destruct (p y); auto. inversion Hn; auto. Qed.

(** on a duplicate-free list, filtering out the all-zombie prefix = dropping it *)
Lemma filter_head_zombies order mems : NoDup order ->
  filter (fun x => negb (memN x (head_zombies order mems))) order
  = drop_while (fun i => m_zombie (nthN mems i member_default)) order.
Proof.
  induction order as [|j r IH]; intros Hn; [reflexivity|].
  inversion Hn as [|? ? Hj Hr]; subst. cbn [head_zombies drop_while].
  destruct (m_zombie (nthN mems j member_default)) eqn:Hz.
  - cbn [filter memN existsb]. rewrite N.eqb_refl. cbn [orb negb].
    rewrite <- IH by exact Hr. apply filter_ext_in. intros a Ha.
    destruct (N.eqb_spec a j) as [->|_]; [tauto | reflexivity].
  - cbn [memN existsb]. clear. induction (j :: r) as [|y q IHq]; cbn; [reflexivity | f_equal; exact IHq].
Qed.

Lemma head_zombies_NoDup order mems : NoDup order -> NoDup (head_zombies order mems).
Proof.
  induction order as [|j r IH]; cbn; intros Hn; [constructor|].
  inversion Hn as [|? ? Hj Hr]; subst. destruct (m_zombie (nthN mems j member_default)); [|constructor].
  constructor; auto. intros Hi. apply Hj. eapply head_zombies_incl; eauto.
Qed.

Lemma head_zombies_flag order mems i : In i (head_zombies order mems) -> m_zombie (nthN mems i member_default) = true.
Proof.
  induction order as [|j r IH]; cbn; [tauto|].
  destruct (m_zombie (nthN mems j member_default)) eqn:Hz; cbn; [|tauto]. intros [<-|Hi]; auto.
Qed.

(** reaping the head zombies *)
Lemma ms_reap_spec m0 m : CoreInv m -> same_core m m0 ->
  let m' := fold_left ms_remove_idx (head_zombies (ms_order m) (ms_members m)) m0 in
  CoreInv m'
  /\ ms_order m' = drop_while (zflag m) (ms_order m)
  /\ (forall j, In j (ms_order m') -> nthN (ms_members m') j member_default = nthN (ms_members m) j member_default)
  /\ length (ms_members m') = length (ms_members m)
  /\ (forall j, In j (ms_free m') -> In j (ms_free m) \/ (In j (ms_order m) /\ zflag m j = true)).
Proof.
  intros CI (Em & Ef & Eo). cbn zeta.
  set (zs := head_zombies (ms_order m) (ms_members m)).
  assert (CI0 : CoreInv m0) by (eapply same_core_inv; [split; [|split]; eauto | exact CI]).
  assert (Hzo : forall i, In i zs -> In i (ms_order m)) by (intros i; apply head_zombies_incl).
  assert (Hnd : NoDup zs) by (apply head_zombies_NoDup, CI).
  destruct (fold_remove_order zs m0) as (A & B & C & D); auto.
  { intros i Hi. rewrite <- Ef. intros Hf. eapply (ci_disj m CI); eauto. }
  split; [|split; [|split; [|split]]].
  - apply fold_remove_core; auto. intros i Hi. left. rewrite <- Eo. auto.
  - rewrite A, <- Eo. apply filter_head_zombies, CI.
  - intros j Hj. rewrite C, Em; auto. rewrite A, <- Eo in Hj. apply filter_In in Hj.
    destruct Hj as [_ Hj]. destruct (memN j zs) eqn:Hm; [discriminate|]. apply memN_false in Hm. exact Hm.
  - rewrite D, Em. reflexivity.
  - intros j Hj. rewrite B, <- Ef in Hj. apply in_app_or in Hj. destruct Hj as [Hj|Hj]; [right | left; exact Hj].
    apply in_rev in Hj. split; [auto | apply head_zombies_flag in Hj; exact Hj].
Qed.

Definition visible (m : mstate) : bool := match ms_target m with TTerm _ => true | _ => false end.

(** what any multi-level call does to the allocation part: nothing, or reap the head zombies *)
Record MTrans (m m' : mstate) (reaped : bool) : Prop := mkMT {
  mt_core : CoreInv m';
  mt_order : ms_order m' = if reaped then drop_while (zflag m) (ms_order m) else ms_order m;
  mt_zflag : forall j, In j (ms_order m') -> zflag m' j = zflag m j;
  mt_length : length (ms_members m') = length (ms_members m);
  mt_free : forall j, In j (ms_free m') -> In j (ms_free m) \/ (In j (ms_order m) /\ zflag m j = true);
  mt_visible : visible m' = visible m }.

Lemma MTrans_same m m' : CoreInv m -> same_core m m' -> visible m' = visible m ->
  MTrans m m' false.
Proof.
  intros CI Hs Hv. pose proof Hs as (Em & Ef & Eo). constructor; auto.
  - eapply same_core_inv; eauto.
  - intros j _. unfold zflag. rewrite Em. reflexivity.
  - rewrite Em. reflexivity.
  - intros j Hj. left. rewrite Ef. exact Hj.
Qed.

Lemma MTrans_post m m2 m3 r : MTrans m m2 r -> same_core m2 m3 ->
  visible m3 = visible m2 -> MTrans m m3 r.
Proof.
  intros [A1 A2 A3 A4 A5 A7] Hs Hv. pose proof Hs as (Em & Ef & Eo).
  constructor; unfold zflag in *; rewrite <- ?Em, <- ?Ef, <- ?Eo, ?Hv; auto.
  eapply same_core_inv; eauto.
Qed.

Lemma MTrans_trans m m1 m2 r : MTrans m m1 false -> MTrans m1 m2 r -> MTrans m m2 r.
Proof.
  intros [A1 A2 A3 A4 A5 A7] [B1 B2 B3 B4 B5 B7].
  assert (Hdw : drop_while (zflag m1) (ms_order m1) = drop_while (zflag m) (ms_order m)).
  { rewrite A2. apply drop_while_ext. intros x Hx. apply A3. rewrite A2. exact Hx. }
  assert (Hsub : forall j, In j (ms_order m2) -> In j (ms_order m1)).
  { intros j Hj. rewrite B2 in Hj. destruct r; [eapply drop_while_incl; eauto | exact Hj]. }
  constructor; auto.
  - rewrite B2. destruct r; [exact Hdw | exact A2].
  - intros j Hj. rewrite B3 by exact Hj. apply A3, Hsub, Hj.
  - congruence.
  - intros j Hj. apply B5 in Hj. destruct Hj as [Hj|[Hj Hz]]; [apply A5 in Hj; exact Hj|].
    right. rewrite <- A2, <- A3; auto.
  - congruence.
Qed.

Section WithTerm2.
  Variable W H : N.
  Variable fails : N -> bool.

  Lemma ms_attempt_visible m force extra now : ms_attempt W m force extra now = true -> visible m = true.
  Proof. unfold ms_attempt, visible. destruct (ms_target m); auto. Qed.

  Lemma ms_draw_trans m force extra now c : CoreInv m ->
    MTrans m (fst4 (ms_draw W H fails m force extra now c)) (ms_attempt W m force extra now).
  Proof.
    intros CI. destruct (ms_target m) as [|tg|i] eqn:Ht.
    - rewrite ms_draw_hidden by (rewrite Ht; discriminate). unfold ms_attempt. rewrite Ht.
      apply MTrans_same; auto. repeat split.
    - rewrite (ms_draw_unfold W H fails m force extra now c tg Ht). unfold ms_attempt. rewrite Ht.
      fold (ms_has_text m extra). cbn zeta.
      destruct (fst (tt_allow _ _ now)) eqn:Hal; cbn [negb].
      + unfold fst4; cbn [fst].
        match goal with |- context [fold_left ms_remove_idx _ ?m0] => set (m0' := m0) end.
        assert (Hs : same_core m m0') by (repeat split).
        destruct (ms_reap_spec m0' m CI Hs) as (A & B & C & D & E). cbn zeta in *.
        set (m2 := fold_left ms_remove_idx (head_zombies (ms_order m) (ms_members m)) m0') in *.
        destruct (fold_remove_other (head_zombies (ms_order m) (ms_members m)) m0') as (Fa & Fo & Fz & Ft).
        fold m2 in Fa, Fo, Fz, Ft.
        assert (Hv2 : visible m2 = visible m) by (unfold visible; rewrite Ft, Ht; reflexivity).
        assert (T2 : MTrans m m2 true).
        { constructor; auto. intros j Hj. unfold zflag. rewrite C by exact Hj. reflexivity. }
        destruct (ms_has_text m extra); [exact T2|].
        eapply MTrans_post; [exact T2 | repeat split |].
        unfold visible. cbn. rewrite Ft. reflexivity.
      + unfold fst4; cbn [fst]. apply MTrans_same; auto; repeat split.
        unfold visible. cbn. rewrite Ht. reflexivity.
    - rewrite ms_draw_hidden by (rewrite Ht; discriminate). unfold ms_attempt. rewrite Ht.
      apply MTrans_same; auto. repeat split.
  Qed.
End WithTerm2.

Section WithTerm3.
  Variable W H : N.
  Variable fails : N -> bool.

  Lemma ms_clear_trans m c : CoreInv m -> MTrans m (fst4 (ms_clear W H fails m c)) false.
  Proof.
    intros CI. unfold ms_clear. destruct (ms_target m) as [|tg|i] eqn:Ht.
    - apply MTrans_same; auto; repeat split.
    - destruct (term_draw W H fails (tt_adjust_clear tg (ms_zombie_lines m)) [] c) as [[[tg2 e] c'] ok].
      unfold fst4; cbn [fst]. apply MTrans_same; auto; repeat split. unfold visible. cbn. rewrite Ht. reflexivity.
    - apply MTrans_same; auto; repeat split.
  Qed.

  (** the draw inside suspend *)
  Definition suspend_mid (m : mstate) (c : N) : mstate :=
    let m1 := fst4 (ms_clear W H fails m c) in
    set_ms_target m1 (match ms_target m1 with
                      | TTerm tg => TTerm (mktt 0 (tt_rl tg) (tt_align tg) (tt_below tg))
                      | t => t
                      end).
  Definition suspend_attempt (m : mstate) (now c : N) : bool := ms_attempt W (suspend_mid m c) true None now.

  Lemma ms_suspend_trans m ws now c : CoreInv m ->
    MTrans m (fst (fst (ms_suspend W H fails m ws now c))) (suspend_attempt m now c).
  Proof.
    intros CI. unfold ms_suspend, suspend_attempt, suspend_mid.
    pose proof (ms_clear_trans m c CI) as T1. unfold fst4 in *.
    destruct (ms_clear W H fails m c) as [[[m1 e1] c1] ok1]. cbn [fst] in *.
    set (m1' := set_ms_target m1 _).
    destruct (emit_each fails c1 (map TLine ws)) as [e2 c2].
    assert (T1' : MTrans m m1' false).
    { eapply MTrans_post; [exact T1 | repeat split |].
      unfold visible, m1'. cbn. destruct (ms_target m1); reflexivity. }
    pose proof (ms_draw_trans W H fails m1' true None now c2 (mt_core _ _ _ T1')) as T2. unfold fst4 in T2.
    destruct (ms_draw W H fails m1' true None now c2) as [[[m3 e3] c3] ok3]. cbn [fst] in *.
    eapply MTrans_trans; eauto.
  Qed.

  Lemma ms_store_trans m idx texts bars : CoreInv m -> In idx (ms_order m) ->
    MTrans m (ms_store m idx texts bars) false.
  Proof.
    intros CI Hi. destruct CI as [A B C D E F]. unfold ms_store.
    constructor; cbn; auto.
    - constructor; cbn; auto.
      + intros j Hj. rewrite updN_length. auto.
      + rewrite updN_length. exact E.
      + intros j Hj. rewrite nthN_updN_neq; auto. intros <-. eapply C; eauto.
    - intros j Hj. unfold zflag. cbn [ms_members set_ms_orphans set_ms_members]. destruct (N.eq_dec idx j) as [<-|Hn].
      + rewrite nthN_updN_eq; auto.
      + rewrite nthN_updN_neq; auto.
    - rewrite updN_length. reflexivity.
  Qed.
End WithTerm3.

(* ------------------------------------------------------------------ bars *)
Definition mslot (x : bar) : option N := match b_target x with TMulti i => Some i | _ => None end.
Lemma mslot_Some x i : mslot x = Some i <-> b_target x = TMulti i.
Proof. unfold mslot. destruct (b_target x); split; congruence. Qed.

Definition bars_pres (s s' : sys) : Prop :=
  forall b, alive s' b = alive s b /\ mslot (get_bar s' b) = mslot (get_bar s b).

Lemma bars_pres_refl s s' : s_bars s' = s_bars s -> bars_pres s s'.
Proof. intros E b. unfold alive, get_bar. rewrite E. auto. Qed.
Lemma bars_pres_trans s1 s2 s3 : bars_pres s1 s2 -> bars_pres s2 s3 -> bars_pres s1 s3.
Proof. intros A B b. destruct (A b), (B b). split; congruence. Qed.

Lemma bars_pres_slot s s' b : bars_pres s s' -> slot_of s' b = slot_of s b /\ is_member s' b = is_member s b.
Proof.
  intros P. destruct (P b) as [_ Hm]. unfold slot_of, is_member, mslot in *.
  destruct (b_target (get_bar s' b)), (b_target (get_bar s b)); try discriminate; auto.
  injection Hm as ->. auto.
Qed.

Lemma get_bar_oob s b : (length (s_bars s) <= N.to_nat b)%nat -> get_bar s b = bar_default.
Proof. intros Hl. unfold get_bar, nthN. apply nth_overflow. exact Hl. Qed.
Lemma alive_inrange s b : alive s b = true -> (N.to_nat b < length (s_bars s))%nat.
Proof.
  intros Ha. destruct (Nat.lt_ge_cases (N.to_nat b) (length (s_bars s))) as [Hl|Hl]; [exact Hl|].
  unfold alive in Ha. rewrite get_bar_oob in Ha by exact Hl. discriminate.
Qed.
Lemma get_upd_same s b f : (N.to_nat b < length (s_bars s))%nat -> get_bar (upd_bar s b f) b = f (get_bar s b).
Proof. intros Hl. unfold get_bar, upd_bar. cbn. apply nthN_updN_eq. exact Hl. Qed.
Lemma get_upd_other s b b' f : b <> b' -> get_bar (upd_bar s b f) b' = get_bar s b'.
Proof. intros Hn. unfold get_bar, upd_bar. cbn. apply nthN_updN_neq. exact Hn. Qed.
Lemma upd_bar_oob s b f : (length (s_bars s) <= N.to_nat b)%nat -> upd_bar s b f = s.
Proof. intros Hl. unfold upd_bar. rewrite updN_oob by exact Hl. destruct s; reflexivity. Qed.
Lemma upd_bar_mp s b f : s_mp (upd_bar s b f) = s_mp s. Proof. reflexivity. Qed.
Lemma upd_bar_calls s b f : s_calls (upd_bar s b f) = s_calls s. Proof. reflexivity. Qed.

(** an update of the bar record that leaves liveness and multi membership alone *)
Definition keeps_slot (f : bar -> bar) : Prop := forall x, b_alive (f x) = b_alive x /\ mslot (f x) = mslot x.

Lemma upd_bar_pres s b f : keeps_slot f -> bars_pres s (upd_bar s b f).
Proof.
  intros Hf b'. destruct (N.eq_dec b b') as [<-|Hn].
  - destruct (Nat.lt_ge_cases (N.to_nat b) (length (s_bars s))) as [Hl|Hl].
    + unfold alive. rewrite get_upd_same by exact Hl. apply Hf.
    + rewrite upd_bar_oob by exact Hl. auto.
  - unfold alive. rewrite get_upd_other by exact Hn. auto.
Qed.

Lemma MInv_core s : MInv s -> CoreInv (s_mp s).
Proof. intros [A B C D E F G I]. constructor; auto. Qed.

Lemma drop_while_keep {A} (p : A -> bool) l x : In x l -> p x = false -> In x (drop_while p l).
Proof.
  induction l as [|y r IH]; cbn; [tauto|]. intros Hi Hp. destruct (p y) eqn:Hy; [|exact Hi].
  destruct Hi as [->|Hi]; [congruence | auto].
Qed.

(** any multi-level call, seen from the bars and the abstract list *)
Lemma trans_sim s s' a r :
  MInv s -> Refines s a -> bars_pres s s' -> MTrans (s_mp s) (s_mp s') r ->
  MInv s' /\ Refines s' (a_maybe_reap r a).
Proof.
  intros MI RF BP MT. pose proof (MInv_core s MI) as CI.
  destruct MT as [T1 T2 T3 T4 T5 T7]. destruct MI as [A B C D E F G I].
  assert (Hkeep : forall i, In i (ms_order (s_mp s)) -> zflag (s_mp s) i = false -> In i (ms_order (s_mp s'))).
  { intros i Hi Hz. rewrite T2. destruct r; [apply drop_while_keep; assumption | exact Hi]. }
  assert (Htg : forall b i, b_target (get_bar s' b) = TMulti i -> b_target (get_bar s b) = TMulti i).
  { intros b i Ht. apply mslot_Some. destruct (BP b) as [_ <-]. apply mslot_Some, Ht. }
  split.
  - destruct T1 as [A' B' C' D' E' F'].
    constructor; auto.
    + intros b i Ha Ht. destruct (BP b) as [Hal _]. rewrite Hal in Ha. apply Htg in Ht.
      destruct (G b i Ha Ht) as [Hi Hz]. assert (Hi' := Hkeep i Hi Hz). split; [exact Hi'|].
      fold (zflag (s_mp s') i). rewrite T3 by exact Hi'. exact Hz.
    + intros b1 b2 i Ha1 Ha2 Ht1 Ht2. destruct (BP b1) as [H1 _], (BP b2) as [H2 _].
      rewrite H1 in Ha1. rewrite H2 in Ha2. eauto.
  - destruct RF as [R1 R2 R3 R4 R5 R6].
    assert (Hslot : forall b, slot_of s' b = slot_of s b) by (intros b; apply bars_pres_slot, BP).
    assert (Hmem : forall b, is_member s' b = is_member s b) by (intros b; apply bars_pres_slot, BP).
    assert (Hal : forall b, alive s' b = alive s b) by (intros b; apply BP).
    assert (Hmap : map (slot_of s') (a_order a) = map (slot_of s) (a_order a)) by (apply map_ext; auto).
    destruct r; cbn [a_maybe_reap].
    + assert (Hdw : ms_order (s_mp s') = map (slot_of s) (drop_while (fun b => memN b (a_dropped a)) (a_order a))).
      { rewrite T2, R1, drop_while_map. f_equal. apply drop_while_ext. intros b Hb.
        rewrite R4 by exact Hb. apply R6; exact Hb. }
      unfold a_reap. constructor; cbn [a_order a_dropped].
      * rewrite Hdw. apply map_ext. auto.
      * intros b Hb. rewrite Hmem. apply R2. eapply drop_while_incl; eauto.
      * intros b Ha Hm. rewrite Hal in Ha. rewrite Hmem in Hm. apply drop_while_keep; [auto|].
        rewrite R4 by auto. rewrite Ha. reflexivity.
      * intros b Hb. rewrite Hal. apply R4. eapply drop_while_incl; eauto.
      * intros b Hb. rewrite Hal. auto.
      * intros b Hb. rewrite Hal, Hslot. fold (zflag (s_mp s') (slot_of s b)). rewrite T3.
        -- apply R6. eapply drop_while_incl; eauto.
        -- rewrite Hdw. apply in_map. exact Hb.
    + constructor.
      * rewrite T2, R1, Hmap. reflexivity.
      * intros b Hb. rewrite Hmem. auto.
      * intros b Ha Hm. rewrite Hal in Ha. rewrite Hmem in Hm. auto.
      * intros b Hb. rewrite Hal. auto.
      * intros b Hb. rewrite Hal. auto.
      * intros b Hb. rewrite Hal, Hslot. fold (zflag (s_mp s') (slot_of s b)). rewrite T3.
        -- apply R6. exact Hb.
        -- rewrite T2, R1. apply in_map. exact Hb.
Qed.

(* ------------------------------------------------------------------ step = its multi-level calls *)
Section StepActions.
  Variable W H : N.
  Variable fails : N -> bool.
  Local Notation step_sys := (step_sys W H fails).
  Local Notation step_out := (step_out W H fails).
  Local Notation mp_run := (mp_run W H fails).
  Local Notation op_actions := (op_actions W).

  Lemma bar_draw_mp s b force now :
    let r := mp_run now (s_mp s) (s_calls s) (draw_actions W s b force) in
    s_mp (fst (bar_draw W H fails s b force now)) = fst (fst r)
    /\ (no_own_term s -> s_calls (fst (bar_draw W H fails s b force now)) = snd r
                         /\ snd (bar_draw W H fails s b force now) = snd (fst r)
                         /\ s_bars (fst (bar_draw W H fails s b force now)) = s_bars s).
  Proof.
    unfold bar_draw, draw_actions. cbn zeta.
    pose proof (fun (Hn : no_own_term s) => Hn b) as Hb.
    destruct (b_target (get_bar s b)) as [|tg|idx] eqn:Ht; cbn [mp_run].
    - cbn. auto.
    - split.
      + destruct (tt_allow tg _ now) as [[|] tg1]; cbn [negb]; [|reflexivity].
        destruct (term_draw W H fails tg1 _ _) as [[[tg2 e] c'] ok]. reflexivity.
      + intros Hn. exfalso. exact (Hb Hn).
    - cbn [mp_exec1]. unfold stored_frame.
      destruct (ms_draw W H fails _ _ None now (s_calls s)) as [[[m2 e] c'] ok].
      cbn. rewrite app_nil_r. auto.
  Qed.

  Lemma mp_run_app now acts1 : forall m c acts2,
    mp_run now m c (acts1 ++ acts2) =
    let '(m1, e1, c1) := mp_run now m c acts1 in
    let '(m2, e2, c2) := mp_run now m1 c1 acts2 in (m2, e1 ++ e2, c2).
  Proof.
    induction acts1 as [|a r IH]; intros m c acts2; cbn [mp_run app].
    - destruct (mp_run now m c acts2) as [[m2 e2] c2]. reflexivity.
    - destruct (mp_exec1 W H fails now m c a) as [[[m1 e1] c1] ok1]. rewrite IH.
      destruct (mp_run now m1 c1 r) as [[m1' e1'] c1'].
      destruct (mp_run now m1' c1' acts2) as [[m2 e2] c2]. rewrite app_assoc. reflexivity.
  Qed.

  Definition keeps_target (f : bar -> bar) : Prop := forall x, b_target (f x) = b_target x.

  Lemma no_own_upd s b f : keeps_target f -> no_own_term s -> no_own_term (upd_bar s b f).
  Proof.
    intros Hf Hn b'. destruct (N.eq_dec b b') as [<-|Hd].
    - destruct (Nat.lt_ge_cases (N.to_nat b) (length (s_bars s))) as [Hl|Hl].
      + rewrite get_upd_same by exact Hl. rewrite Hf. apply Hn.
      + rewrite upd_bar_oob by exact Hl. apply Hn.
    - rewrite get_upd_other by exact Hd. apply Hn.
  Qed.

  Lemma target_upd s b f : keeps_target f -> b_target (get_bar (upd_bar s b f) b) = b_target (get_bar s b).
  Proof.
    intros Hf. destruct (Nat.lt_ge_cases (N.to_nat b) (length (s_bars s))) as [Hl|Hl].
    - rewrite get_upd_same by exact Hl. apply Hf.
    - rewrite upd_bar_oob by exact Hl. reflexivity.
  Qed.

  (** the shape shared by most calls: update the bar record, then BarState::draw *)
  Lemma upd_draw_mp s b f force now : keeps_target f ->
    let s1 := upd_bar s b f in
    let r := mp_run now (s_mp s) (s_calls s) (draw_actions W s1 b force) in
    let s' := fst (bar_draw W H fails s1 b force now) in
    s_mp s' = fst (fst r)
    /\ (no_own_term s -> s_calls s' = snd r /\ snd (bar_draw W H fails s1 b force now) = snd (fst r)
                         /\ s_bars s' = s_bars s1).
  Proof.
    intros Hf. cbn zeta. destruct (bar_draw_mp (upd_bar s b f) b force now) as [A B].
    split; [exact A|]. intros Hn. apply B. apply no_own_upd; assumption.
  Qed.
End StepActions.

Section StepMp.
  Variable W H : N.
  Variable fails : N -> bool.
  Local Notation step_sys := (step_sys W H fails).
  Local Notation step_out := (step_out W H fails).
  Local Notation mp_run := (mp_run W H fails).
  Local Notation op_actions := (op_actions W).

  Definition StepMp (s : sys) (now : N) (acts : list maction) (r : sys * list termop) : Prop :=
    let x := mp_run now (s_mp s) (s_calls s) acts in
    s_mp (fst r) = fst (fst x)
    /\ (no_own_term s -> s_calls (fst r) = snd x /\ snd r = snd (fst x)).

  Lemma StepMp_draw s b f force now : keeps_target f ->
    StepMp s now (draw_actions W (upd_bar s b f) b force) (bar_draw W H fails (upd_bar s b f) b force now).
  Proof.
    intros Hf. destruct (upd_draw_mp W H fails s b f force now Hf) as [A B]. split; [exact A|].
    intros Hn. destruct (B Hn) as (B1 & B2 & _). auto.
  Qed.

  Lemma StepMp_draw0 s b force now :
    StepMp s now (draw_actions W s b force) (bar_draw W H fails s b force now).
  Proof.
    destruct (bar_draw_mp W H fails s b force now) as [A B]. split; [exact A|].
    intros Hn. destruct (B Hn) as (B1 & B2 & _). auto.
  Qed.

  Lemma StepMp_nil s s' now : s_mp s' = s_mp s -> s_calls s' = s_calls s -> StepMp s now [] (s', []).
  Proof. intros A B. split; cbn; auto. Qed.

  Lemma StepMp_finish s b k now :
    StepMp s now (finish_actions W s b k) (bar_finish W H fails s b k now).
  Proof.
    unfold bar_finish, finish_actions.
    change (fun x : bar => match k with
                           | FAndLeave => _ | FWithMessage m1 => _ | FAndClear => _
                           | FAbandon => _ | FAbandonWithMessage m2 => _ end) with (finish_upd k).
    apply StepMp_draw. intros x. destruct k; cbn; destruct (b_len x); reflexivity.
  Qed.

  Lemma StepMp_pos s b f now :
    StepMp s now (pos_actions W s b f now) (bar_pos_update W H fails s b f now).
  Proof.
    unfold bar_pos_update, pos_actions.
    destruct (ap_allow (b_ap (get_bar (upd_bar s b (fun x => set_b_pos x (f (b_pos x)))) b)) now) as [[|] ap'].
    - unfold bar_tick, tick_actions.
      set (s2 := upd_bar (upd_bar s b _) b _).
      destruct (upd_draw_mp W H fails s2 b (fun x => set_b_tick x (sat_add64 (b_tick x) 1)) false now) as [A B].
      { intros x; reflexivity. }
      split; [exact A|]. intros Hn. destruct B as (B1 & B2 & _); [|auto].
      apply no_own_upd; [intros x; reflexivity|]. apply no_own_upd; [intros x; reflexivity | exact Hn].
    - apply StepMp_nil; reflexivity.
  Qed.
End StepMp.

Section StepMp2.
  Variable W H : N.
  Variable fails : N -> bool.
  Local Notation step_sys := (step_sys W H fails).
  Local Notation step_out := (step_out W H fails).
  Local Notation mp_run := (mp_run W H fails).
  Local Notation op_actions := (op_actions W).

  Lemma bar_draw_target s b force now idx :
    b_target (get_bar s b) = TMulti idx ->
    s_bars (fst (bar_draw W H fails s b force now)) = s_bars s.
  Proof.
    intros Ht. unfold bar_draw. rewrite Ht.
    destruct (ms_draw W H fails _ _ None now (s_calls s)) as [[[m2 e] c'] ok]. reflexivity.
  Qed.

  Lemma bar_draw_target_kind s b force now :
    match b_target (get_bar s b) with
    | TMulti idx => b_target (get_bar (fst (bar_draw W H fails s b force now)) b) = TMulti idx
    | _ => forall idx, b_target (get_bar (fst (bar_draw W H fails s b force now)) b) <> TMulti idx
    end.
  Proof.
    destruct (b_target (get_bar s b)) as [|tg|idx] eqn:Ht.
    - unfold bar_draw. rewrite Ht. cbn. rewrite Ht. discriminate.
    - unfold bar_draw. rewrite Ht.
      destruct (Nat.lt_ge_cases (N.to_nat b) (length (s_bars s))) as [Hl|Hl].
      + destruct (tt_allow tg _ now) as [[|] tg1]; cbn [negb].
        * destruct (term_draw W H fails tg1 _ _) as [[[tg2 e] c'] ok]. cbn [fst].
          intros idx. unfold get_bar. cbn [s_bars set_s_calls]. fold (get_bar (upd_bar s b (fun x => set_b_target x (TTerm tg2))) b).
          rewrite get_upd_same by exact Hl. discriminate.
        * cbn [fst]. intros idx. rewrite get_upd_same by exact Hl. discriminate.
      + rewrite get_bar_oob in Ht by exact Hl. discriminate.
    - unfold get_bar. rewrite (bar_draw_target s b force now idx Ht). exact Ht.
  Qed.

  Theorem step_mp s now o :
    StepMp W H fails s now (op_actions s now o) (step_sys s now o, step_out s now o).
  Proof.
    unfold step_sys, step_out.
    destruct o; cbn [step op_actions fst snd];
      try (rewrite <- surjective_pairing);
      try (apply StepMp_draw; intros x; reflexivity);
      try apply StepMp_draw0; try apply StepMp_finish; try apply StepMp_pos;
      try (apply StepMp_nil; reflexivity).
    - (* OPrintln *)
      unfold bar_println. destruct (b_target (get_bar s b)) as [|tg|idx] eqn:Ht.
      + apply StepMp_nil; reflexivity.
      + split.
        * destruct (term_draw W H fails tg _ _) as [[[tg2 e] c'] ok]. reflexivity.
        * intros Hn. specialize (Hn b). rewrite Ht in Hn. tauto.
      + cbn [mp_run mp_exec1]. unfold StepMp, stored_frame. cbn [MultiSpec.mp_run mp_exec1].
        destruct (ms_draw W H fails _ true None now (s_calls s)) as [[[m2 e] c'] ok].
        cbn. rewrite app_nil_r. auto.
    - (* OSuspend *)
      unfold bar_suspend. destruct (b_target (get_bar s b)) as [|tg|idx] eqn:Ht.
      + unfold StepMp. cbn [MultiSpec.mp_run mp_exec1].
        destruct (emit_each fails (s_calls s) (map TLine ws)) as [e c']. cbn. rewrite app_nil_r. auto.
      + split; [|intros Hn; specialize (Hn b); rewrite Ht in Hn; tauto].
        destruct (term_draw W H fails tg [] (s_calls s)) as [[[tg1 e1] c1] ok1].
        destruct (emit_each fails c1 (map TLine ws)) as [e2 c2].
        set (s1 := set_s_calls (upd_bar s b (fun x => set_b_target x (TTerm tg1))) c2).
        destruct (bar_draw W H fails s1 b true now) as [s2 e3] eqn:Hd. cbn [fst MultiSpec.mp_run].
        pose proof (bar_draw_mp W H fails s1 b true now) as [A _]. rewrite Hd in A. cbn [fst] in A.
        rewrite A. unfold draw_actions.
        assert (Hl : (N.to_nat b < length (s_bars s))%nat).
        { destruct (Nat.lt_ge_cases (N.to_nat b) (length (s_bars s))) as [Hl|Hl]; [exact Hl|].
          rewrite get_bar_oob in Ht by exact Hl. discriminate. }
        replace (b_target (get_bar s1 b)) with (TTerm tg1); [reflexivity|].
        unfold s1, get_bar. cbn [s_bars set_s_calls].
        fold (get_bar (upd_bar s b (fun x => set_b_target x (TTerm tg1))) b).
        rewrite get_upd_same by exact Hl. reflexivity.
      + unfold StepMp. cbn [MultiSpec.mp_run mp_exec1].
        destruct (ms_suspend W H fails (s_mp s) ws now (s_calls s)) as [[m2 e] c'].
        cbn. rewrite app_nil_r. auto.
    - (* ODrop *)
      unfold bar_drop. unfold StepMp. rewrite mp_run_app.
      destruct (finished (get_bar s b)) eqn:Hf.
      + cbn [MultiSpec.mp_run]. unfold mark_zombie.
        destruct (b_target (get_bar s b)) as [|tg|idx]; cbn; auto.
      + pose proof (StepMp_finish W H fails s b (b_on_finish (get_bar s b)) now) as [A B].
        destruct (bar_finish W H fails s b (b_on_finish (get_bar s b)) now) as [s1 e] eqn:Hbf.
        cbn [fst snd] in *.
        destruct (mp_run now (s_mp s) (s_calls s) (finish_actions W s b (b_on_finish (get_bar s b)))) as [[m1 e1] c1].
        cbn [fst snd] in *.
        assert (Hk : match b_target (get_bar s b) with
                     | TMulti idx => b_target (get_bar s1 b) = TMulti idx
                     | _ => forall idx, b_target (get_bar s1 b) <> TMulti idx
                     end).
        { unfold bar_finish in Hbf.
          pose proof (bar_draw_target_kind (upd_bar s b (finish_upd (b_on_finish (get_bar s b)))) b true now) as K.
          rewrite target_upd in K by (intros x; destruct (b_on_finish (get_bar s b)); cbn; destruct (b_len x); reflexivity).
          unfold finish_upd in K. rewrite Hbf in K. exact K. }
        unfold mark_zombie.
        destruct (b_target (get_bar s b)) as [|tg|idx].
        * destruct (b_target (get_bar s1 b)) as [|tg'|idx'] eqn:Ht1; [| |exfalso; eapply Hk; reflexivity];
            cbn; rewrite app_nil_r; split; auto.
        * destruct (b_target (get_bar s1 b)) as [|tg'|idx'] eqn:Ht1; [| |exfalso; eapply Hk; reflexivity];
            cbn; rewrite app_nil_r; split; auto.
        * rewrite Hk. cbn. rewrite app_nil_r, A. split; auto.
    - (* OInsert *)
      destruct (b_target (get_bar s b)) as [|tg|idx0] eqn:Ht; [| |apply StepMp_nil; reflexivity];
        (destruct (match loc with
                   | BEnd => Some LEnd | BIndex i => Some (LIndex i) | BFromBack i => Some (LFromBack i)
                   | BAfter r => match b_target (get_bar s r) with TMulti i => Some (LAfter i) | _ => None end
                   | BBefore r => match b_target (get_bar s r) with TMulti i => Some (LBefore i) | _ => None end
                   end) as [l|]; [|apply StepMp_nil; reflexivity];
         destruct (ms_insert (s_mp s) l) as [[m1 idx]|] eqn:Hi; [|apply StepMp_nil; reflexivity];
         cbn [fst]; unfold bar_set_target; change (get_bar (set_s_mp s m1) b) with (get_bar s b);
         cbn [s_mp set_s_mp s_calls]; rewrite Ht;
         unfold StepMp; cbn [MultiSpec.mp_run mp_exec1]; rewrite Hi; cbn; auto).
    - (* ORemove *)
      destruct (b_target (get_bar s b)) as [|tg|idx] eqn:Ht; try (apply StepMp_nil; reflexivity).
      unfold StepMp. cbn [MultiSpec.mp_run mp_exec1 s_mp upd_bar set_s_bars s_calls].
      destruct (ms_draw W H fails (ms_remove_idx (s_mp s) idx) true None now (s_calls s)) as [[[m2 e] c'] ok].
      cbn. rewrite app_nil_r. auto.
    - (* OMPrintln *)
      unfold StepMp. cbn [MultiSpec.mp_run mp_exec1].
      destruct (ms_draw W H fails (s_mp s) true _ now (s_calls s)) as [[[m2 e] c'] ok].
      cbn. rewrite app_nil_r. auto.
    - (* OMSuspend *)
      unfold StepMp. cbn [MultiSpec.mp_run mp_exec1].
      destruct (ms_suspend W H fails (s_mp s) ws now (s_calls s)) as [[m2 e] c'].
      cbn. rewrite app_nil_r. auto.
    - (* OMClear *)
      unfold StepMp. cbn [MultiSpec.mp_run mp_exec1].
      destruct (ms_clear W H fails (s_mp s) (s_calls s)) as [[[m2 e] c'] ok].
      cbn. rewrite app_nil_r. auto.
    - (* OSetAlign *)
      unfold StepMp. cbn. auto.
  Qed.
End StepMp2.

(* ------------------------------------------------------------------ what a step does to the bar records *)
Section StepBars.
  Variable W H : N.
  Variable fails : N -> bool.
  Local Notation step_sys := (step_sys W H fails).

  Lemma bars_pres_calls s c : bars_pres s (set_s_calls s c).
  Proof. apply bars_pres_refl. reflexivity. Qed.

  Lemma bar_draw_pres s b force now : bars_pres s (fst (bar_draw W H fails s b force now)).
  Proof.
    unfold bar_draw. destruct (b_target (get_bar s b)) as [|tg|idx] eqn:Ht.
    - apply bars_pres_refl. reflexivity.
    - assert (Hk : forall tg', bars_pres s (upd_bar s b (fun x => set_b_target x (TTerm tg')))).
      { intros tg' b'. destruct (N.eq_dec b b') as [<-|Hn].
        - destruct (Nat.lt_ge_cases (N.to_nat b) (length (s_bars s))) as [Hl|Hl].
          + unfold alive. rewrite get_upd_same by exact Hl. unfold mslot. cbn. rewrite Ht. auto.
          + rewrite upd_bar_oob by exact Hl. auto.
        - unfold alive. rewrite get_upd_other by exact Hn. auto. }
      destruct (tt_allow tg _ now) as [[|] tg1]; cbn [negb]; [|apply Hk].
      destruct (term_draw W H fails tg1 _ _) as [[[tg2 e] c'] ok]. cbn [fst].
      eapply bars_pres_trans; [apply Hk | apply bars_pres_calls].
    - destruct (ms_draw W H fails _ _ None now (s_calls s)) as [[[m2 e] c'] ok]. apply bars_pres_refl. reflexivity.
  Qed.

  Lemma upd_draw_pres s b f force now : keeps_slot f ->
    bars_pres s (fst (bar_draw W H fails (upd_bar s b f) b force now)).
  Proof. intros Hf. eapply bars_pres_trans; [apply upd_bar_pres, Hf | apply bar_draw_pres]. Qed.

  Lemma finish_upd_keeps k : keeps_slot (finish_upd k).
  Proof. intros x. destruct k; cbn; destruct (b_len x); auto. Qed.

  Lemma bar_finish_pres s b k now : bars_pres s (fst (bar_finish W H fails s b k now)).
  Proof.
    unfold bar_finish.
    change (fun x : bar => match k with
                           | FAndLeave => _ | FWithMessage m1 => _ | FAndClear => _
                           | FAbandon => _ | FAbandonWithMessage m2 => _ end) with (finish_upd k).
    apply upd_draw_pres, finish_upd_keeps.
  Qed.

  Definition structural (o : op) : bool :=
    match o with OInsert _ _ | ORemove _ | ODrop _ => true | _ => false end.

  Lemma step_bars_pres s now o : structural o = false -> bars_pres s (step_sys s now o).
  Proof.
    intros Hs. unfold step_sys.
    destruct o; try discriminate Hs; cbn [step fst];
      try (apply upd_draw_pres; intros x; split; reflexivity);
      try apply bar_draw_pres; try apply bar_finish_pres;
      try (apply upd_bar_pres; intros x; split; reflexivity);
      try (apply bars_pres_refl; reflexivity).
    all: try (unfold bar_pos_update;
      match goal with |- context [ap_allow ?a ?b] => destruct (ap_allow a b) as [[|] ap'] end;
      [ unfold bar_tick; eapply bars_pres_trans; [|apply upd_draw_pres; intros x; split; reflexivity];
        eapply bars_pres_trans; apply upd_bar_pres; intros x; split; reflexivity
      | cbn [fst]; eapply bars_pres_trans; apply upd_bar_pres; intros x; split; reflexivity ]).
    - (* OPrintln *)
      unfold bar_println. destruct (b_target (get_bar s b)) as [|tg|idx] eqn:Ht.
      + apply bars_pres_refl. reflexivity.
      + destruct (term_draw W H fails tg _ _) as [[[tg2 e] c'] ok]. cbn [fst].
        eapply bars_pres_trans; [|apply bars_pres_calls].
        intros b'. destruct (N.eq_dec b b') as [<-|Hn].
        * destruct (Nat.lt_ge_cases (N.to_nat b) (length (s_bars s))) as [Hl|Hl].
          -- unfold alive. rewrite get_upd_same by exact Hl. unfold mslot. cbn. rewrite Ht. auto.
          -- rewrite upd_bar_oob by exact Hl. auto.
        * unfold alive. rewrite get_upd_other by exact Hn. auto.
      + destruct (ms_draw W H fails _ true None now (s_calls s)) as [[[m2 e] c'] ok]. apply bars_pres_refl. reflexivity.
    - (* OSuspend *)
      unfold bar_suspend. destruct (b_target (get_bar s b)) as [|tg|idx] eqn:Ht.
      + destruct (emit_each fails (s_calls s) (map TLine ws)) as [e c']. apply bars_pres_refl. reflexivity.
      + destruct (term_draw W H fails tg [] (s_calls s)) as [[[tg1 e1] c1] ok1].
        destruct (emit_each fails c1 (map TLine ws)) as [e2 c2].
        match goal with |- context [bar_draw W H fails ?s1 b true now] =>
          pose proof (bar_draw_pres s1 b true now) as P; destruct (bar_draw W H fails s1 b true now) as [s2 e3] end.
        cbn [fst] in *. eapply bars_pres_trans; [|exact P].
        eapply bars_pres_trans; [|apply bars_pres_calls].
        intros b'. destruct (N.eq_dec b b') as [<-|Hn].
        * destruct (Nat.lt_ge_cases (N.to_nat b) (length (s_bars s))) as [Hl|Hl].
          -- unfold alive. rewrite get_upd_same by exact Hl. unfold mslot. cbn. rewrite Ht. auto.
          -- rewrite upd_bar_oob by exact Hl. auto.
        * unfold alive. rewrite get_upd_other by exact Hn. auto.
      + destruct (ms_suspend W H fails (s_mp s) ws now (s_calls s)) as [[m2 e] c']. apply bars_pres_refl. reflexivity.
    - destruct (ms_draw W H fails (s_mp s) true _ now (s_calls s)) as [[[m2 e] c'] ok]. apply bars_pres_refl. reflexivity.
    - destruct (ms_suspend W H fails (s_mp s) ws now (s_calls s)) as [[m2 e] c']. apply bars_pres_refl. reflexivity.
    - destruct (ms_clear W H fails (s_mp s) (s_calls s)) as [[[m2 e] c'] ok]. apply bars_pres_refl. reflexivity.
  Qed.
End StepBars.

Section NonStruct.
  Variable W H : N.
  Variable fails : N -> bool.
  Local Notation mp_run := (mp_run W H fails).

  Lemma MTrans_refl m : CoreInv m -> MTrans m m false.
  Proof. intros CI. apply MTrans_same; auto. repeat split. Qed.

  Lemma store_draw_trans m idx texts bars force extra now c : CoreInv m -> In idx (ms_order m) ->
    MTrans m (fst (fst (mp_run now m c [AStore idx texts bars; ADraw force extra])))
           (ms_attempt W (ms_store m idx texts bars) force extra now).
  Proof.
    intros CI Hi. cbn [MultiSpec.mp_run mp_exec1].
    pose proof (ms_store_trans m idx texts bars CI Hi) as T1.
    pose proof (ms_draw_trans W H fails (ms_store m idx texts bars) force extra now c (mt_core _ _ _ T1)) as T2.
    unfold fst4 in T2. destruct (ms_draw W H fails _ force extra now c) as [[[m2 e] c'] ok]. cbn [fst] in *.
    eapply MTrans_trans; eauto.
  Qed.

  Lemma draw_actions_trans s s1 b force now c :
    MInv s -> alive s b = true -> b_target (get_bar s1 b) = b_target (get_bar s b) -> s_mp s1 = s_mp s ->
    exists r, MTrans (s_mp s) (fst (fst (mp_run now (s_mp s) c (draw_actions W s1 b force)))) r.
  Proof.
    intros MI Ha Ht Hm. unfold draw_actions. rewrite Ht.
    destruct (b_target (get_bar s b)) as [|tg|idx] eqn:Htb.
    - exists false. apply MTrans_refl, MInv_core, MI.
    - exists false. apply MTrans_refl, MInv_core, MI.
    - eexists. rewrite Hm. apply store_draw_trans; [apply MInv_core, MI|]. eapply (mi_alive s MI); eauto.
  Qed.

  Lemma single_draw_trans m force extra now c : CoreInv m ->
    MTrans m (fst (fst (mp_run now m c [ADraw force extra]))) (ms_attempt W m force extra now).
  Proof.
    intros CI. cbn [MultiSpec.mp_run mp_exec1].
    pose proof (ms_draw_trans W H fails m force extra now c CI) as T. unfold fst4 in T.
    destruct (ms_draw W H fails m force extra now c) as [[[m2 e] c'] ok]. exact T.
  Qed.

  Lemma single_suspend_trans m ws now c : CoreInv m ->
    MTrans m (fst (fst (mp_run now m c [ASuspend ws]))) (suspend_attempt W H fails m now c).
  Proof.
    intros CI. cbn [MultiSpec.mp_run mp_exec1].
    pose proof (ms_suspend_trans W H fails m ws now c CI) as T.
    destruct (ms_suspend W H fails m ws now c) as [[m2 e] c']. exact T.
  Qed.

  Lemma op_ok_alive s o b : op_ok s o = true -> op_bar o = Some b -> alive s b = true.
  Proof. unfold op_ok. intros Hk Hb. rewrite Hb in Hk. apply andb_prop in Hk. tauto. Qed.

  Lemma nonstruct_trans s now o : MInv s -> op_ok s o = true -> structural o = false ->
    exists r, MTrans (s_mp s) (fst (fst (mp_run now (s_mp s) (s_calls s) (op_actions W s now o)))) r.
  Proof.
    intros MI Hk Hs. pose proof (MInv_core s MI) as CI.
    assert (Hal : forall b, op_bar o = Some b -> alive s b = true) by (intros b; apply op_ok_alive; exact Hk).
    destruct o; try discriminate Hs; cbn [op_actions];
      try (exists false; apply MTrans_refl; exact CI);
      try (apply draw_actions_trans; [exact MI | apply Hal; reflexivity | apply target_upd; intros x; reflexivity | reflexivity]).
    all: try (unfold pos_actions;
      match goal with |- context [ap_allow ?a ?b] => destruct (ap_allow a b) as [[|] ap'] end;
      [ unfold tick_actions; apply draw_actions_trans;
        [exact MI | apply Hal; reflexivity | rewrite !target_upd by (intros x; reflexivity); reflexivity | reflexivity]
      | exists false; apply MTrans_refl; exact CI ]).
    - (* OPrintln *)
      destruct (b_target (get_bar s b)) as [|tg|idx] eqn:Ht; try (exists false; apply MTrans_refl; exact CI).
      eexists. apply store_draw_trans; [exact CI|]. eapply (mi_alive s MI); [apply Hal; reflexivity | exact Ht].
    - (* OSuspend *)
      destruct (b_target (get_bar s b)) as [|tg|idx] eqn:Ht; try (exists false; apply MTrans_refl; exact CI).
      + exists false. cbn [MultiSpec.mp_run mp_exec1].
        destruct (emit_each fails (s_calls s) (map TLine ws)) as [e c']. apply MTrans_refl; exact CI.
      + eexists. apply single_suspend_trans; exact CI.
    - (* OFinish *) unfold finish_actions. apply draw_actions_trans;
        [exact MI | apply Hal; reflexivity | apply target_upd; intros x; destruct k; cbn; destruct (b_len x); reflexivity | reflexivity].
    - unfold finish_actions. apply draw_actions_trans;
        [exact MI | apply Hal; reflexivity | apply target_upd; intros x; destruct (b_on_finish (get_bar s b)); cbn; destruct (b_len x); reflexivity | reflexivity].
    - apply draw_actions_trans; [exact MI | apply Hal; reflexivity | reflexivity | reflexivity].
    - apply draw_actions_trans; [exact MI | apply Hal; reflexivity | reflexivity | reflexivity].
    - eexists. apply single_draw_trans; exact CI.
    - eexists. apply single_suspend_trans; exact CI.
    - exists false. cbn [MultiSpec.mp_run mp_exec1].
      pose proof (ms_clear_trans W H fails (s_mp s) (s_calls s) CI) as T. unfold fst4 in T.
      destruct (ms_clear W H fails (s_mp s) (s_calls s)) as [[[m2 e] c'] ok]. exact T.
    - exists false. cbn. apply MTrans_same; auto; repeat split.
  Qed.
End NonStruct.

(* ------------------------------------------------------------------ remove / insert / drop *)
Lemma NoDup_map_inj {A B} (f : A -> B) l x y : NoDup (map f l) -> In x l -> In y l -> f x = f y -> x = y.
Proof.
  induction l as [|z r IH]; cbn; [tauto|]. intros Hn Hx Hy He.
  inversion Hn as [|? ? Hz Hr]; subst.
  destruct Hx as [->|Hx], Hy as [->|Hy]; auto.
  - exfalso. apply Hz. rewrite He. apply in_map. exact Hy.
  - exfalso. apply Hz. rewrite <- He. apply in_map. exact Hx.
Qed.

Lemma Refines_inj s a x y : MInv s -> Refines s a -> In x (a_order a) -> In y (a_order a) ->
  slot_of s x = slot_of s y -> x = y.
Proof.
  intros MI RF. apply NoDup_map_inj. rewrite <- (rf_order s a RF). apply (mi_nd_order s MI).
Qed.

Lemma Refines_NoDup s a : MInv s -> Refines s a -> NoDup (a_order a).
Proof.
  intros MI RF. pose proof (mi_nd_order s MI) as Hn. rewrite (rf_order s a RF) in Hn.
  apply NoDup_map_inv in Hn. exact Hn.
Qed.

Lemma slot_of_target s b i : b_target (get_bar s b) = TMulti i -> slot_of s b = i /\ is_member s b = true.
Proof. intros Ht. unfold slot_of, is_member. rewrite Ht. auto. Qed.

Lemma MInv_of s : CoreInv (s_mp s) ->
  (forall b i, alive s b = true -> b_target (get_bar s b) = TMulti i ->
               In i (ms_order (s_mp s)) /\ zflag (s_mp s) i = false) ->
  (forall b1 b2 i, alive s b1 = true -> alive s b2 = true ->
               b_target (get_bar s b1) = TMulti i -> b_target (get_bar s b2) = TMulti i -> b1 = b2) ->
  MInv s.
Proof. intros [A B C D E F] G I. constructor; auto. Qed.

Lemma remove_sim s a b idx :
  MInv s -> Refines s a -> alive s b = true -> b_target (get_bar s b) = TMulti idx ->
  let s1 := set_s_mp (upd_bar s b (fun x => set_b_target x THidden)) (ms_remove_idx (s_mp s) idx) in
  MInv s1 /\ Refines s1 (a_struct a (ORemove b)).
Proof.
  intros MI RF Ha Ht s1. pose proof (MInv_core s MI) as CI.
  pose proof (alive_inrange s b Ha) as Hl.
  destruct (mi_alive s MI b idx Ha Ht) as [Hio Hzf].
  assert (Hnf : ~ In idx (ms_free (s_mp s))) by (apply (mi_disj s MI); exact Hio).
  destruct (remove_idx_fields (s_mp s) idx Hnf) as (Em & Ef & Eo).
  assert (Hgb : get_bar s1 b = set_b_target (get_bar s b) THidden).
  { unfold s1, get_bar. cbn [s_bars set_s_mp]. fold (get_bar (upd_bar s b (fun x => set_b_target x THidden)) b).
    apply get_upd_same. exact Hl. }
  assert (Hgo : forall b', b' <> b -> get_bar s1 b' = get_bar s b').
  { intros b' Hn. unfold s1, get_bar. cbn [s_bars set_s_mp].
    fold (get_bar (upd_bar s b (fun x => set_b_target x THidden)) b'). apply get_upd_other. congruence. }
  assert (Hbo : In b (a_order a)).
  { apply (rf_alive s a RF); [exact Ha|]. apply slot_of_target in Ht. tauto. }
  assert (Hsb : slot_of s b = idx) by (apply slot_of_target in Ht; tauto).
  assert (Hz' : forall i, i <> idx -> zflag (s_mp s1) i = zflag (s_mp s) i).
  { intros i Hn. unfold zflag, s1. cbn [s_mp set_s_mp]. rewrite Em. rewrite nthN_updN_neq; auto. }
  split.
  - apply MInv_of.
    + unfold s1. cbn [s_mp set_s_mp]. apply remove_idx_core; auto.
    + intros b' i Ha' Ht'. assert (Hn : b' <> b).
      { intros ->. rewrite Hgb in Ht'. discriminate. }
      unfold alive in Ha'. rewrite Hgo in Ha', Ht' by exact Hn.
      destruct (mi_alive s MI b' i Ha' Ht') as [Hi Hz].
      assert (Hne : i <> idx).
      { intros ->. apply Hn. eapply (mi_distinct s MI); eauto. }
      split; [|rewrite Hz' by exact Hne; exact Hz].
      unfold s1. cbn [s_mp set_s_mp]. rewrite Eo. apply filter_neq_In. auto.
    + intros b1 b2 i A1 A2 T1 T2.
      assert (N1 : b1 <> b) by (intros ->; rewrite Hgb in T1; discriminate).
      assert (N2 : b2 <> b) by (intros ->; rewrite Hgb in T2; discriminate).
      unfold alive in A1, A2. rewrite Hgo in A1, A2, T1, T2 by assumption.
      eapply (mi_distinct s MI); eauto.
  - destruct RF as [R1 R2 R3 R4 R5 R6]. cbn [a_struct].
    assert (Hsl : forall y, y <> b -> slot_of s1 y = slot_of s y /\ is_member s1 y = is_member s y /\ alive s1 y = alive s y).
    { intros y Hn. unfold slot_of, is_member, alive. rewrite Hgo by exact Hn. auto. }
    constructor; cbn [a_order a_dropped].
    + unfold s1 at 1. cbn [s_mp set_s_mp]. rewrite Eo, R1, <- Hsb.
      rewrite filter_map_inj.
      * apply map_ext_in. intros y Hy. apply filter_neq_In in Hy. symmetry. apply Hsl. tauto.
      * intros y Hy He. eapply NoDup_map_inj; eauto. rewrite <- R1. apply (mi_nd_order s MI).
    + intros y Hy. apply filter_neq_In in Hy. destruct (Hsl y) as (_ & -> & _); [tauto|]. apply R2. tauto.
    + intros y Hay Hmy. assert (Hn : y <> b).
      { intros ->. unfold is_member in Hmy. rewrite Hgb in Hmy. discriminate. }
      destruct (Hsl y Hn) as (_ & Em' & Ea'). rewrite Ea' in Hay. rewrite Em' in Hmy.
      apply filter_neq_In. auto.
    + intros y Hy. apply filter_neq_In in Hy. destruct (Hsl y) as (_ & _ & ->); [tauto|]. apply R4. tauto.
    + intros y Hy. destruct (N.eq_dec y b) as [->|Hn].
      * pose proof (R5 b Hy). congruence.
      * destruct (Hsl y Hn) as (_ & _ & ->). auto.
    + intros y Hy. apply filter_neq_In in Hy. destruct Hy as [Hy Hn].
      destruct (Hsl y Hn) as (-> & _ & ->).
      fold (zflag (s_mp s1) (slot_of s y)). rewrite Hz'; [apply R6; exact Hy|].
      intros He. apply Hn. eapply NoDup_map_inj; eauto.
      * rewrite <- R1. apply (mi_nd_order s MI).
      * congruence.
Qed.

(* [l_ins] (MultiState::insert on a plain list of slots) is defined in model/MultiSpec.v *)

Lemma l_ins_In l ord idx ord' : l_ins l ord idx = Some ord' -> forall j, In j ord' <-> j = idx \/ In j ord.
Proof.
  destruct l as [|p|p|r|r]; cbn.
  - intros [= <-]; intros j. rewrite in_app_iff. cbn. intuition congruence.
  - intros [= <-]; intros j. rewrite insert_at_In. tauto.
  - intros [= <-]; intros j. rewrite insert_at_In. tauto.
  - destruct (posN r ord); try discriminate; intros [= <-]; intros j; rewrite insert_at_In; tauto.
  - destruct (posN r ord); try discriminate; intros [= <-]; intros j; rewrite insert_at_In; tauto.
Qed.
Lemma l_ins_NoDup l ord idx ord' : l_ins l ord idx = Some ord' -> NoDup ord -> ~ In idx ord -> NoDup ord'.
Proof.
  intros Hl Hn Hi. destruct l as [|p|p|r|r]; cbn in Hl;
    try (injection Hl as <-; first [apply insert_at_NoDup; assumption | idtac]).
  - rewrite <- (insert_at_end ord (length ord) idx) by lia. apply insert_at_NoDup; assumption.
  - destruct (posN r ord); [|discriminate]. injection Hl as <-. apply insert_at_NoDup; assumption.
  - destruct (posN r ord); [|discriminate]. injection Hl as <-. apply insert_at_NoDup; assumption.
Qed.
Lemma l_ins_length l ord idx ord' : l_ins l ord idx = Some ord' -> length ord' = S (length ord).
Proof.
  destruct l as [|p|p|r|r]; cbn.
  - intros [= <-]. rewrite app_length. cbn. lia.
  - intros [= <-]. apply insert_at_length.
  - intros [= <-]. apply insert_at_length.
  - destruct (posN r ord); try discriminate; intros [= <-]; apply insert_at_length.
  - destruct (posN r ord); try discriminate; intros [= <-]; apply insert_at_length.
Qed.

Lemma nthN_app_l {A} (l : list A) x (j : N) d : (N.to_nat j < length l)%nat -> nthN (l ++ [x]) j d = nthN l j d.
Proof. intros Hl. unfold nthN. apply app_nth1. exact Hl. Qed.
Lemma nthN_app_new {A} (l : list A) x d : nthN (l ++ [x]) (N.of_nat (length l)) d = x.
Proof. unfold nthN. rewrite Nat2N.id, app_nth2, Nat.sub_diag by lia. reflexivity. Qed.

(** MultiState::insert: a fresh or recycled slot, reset to the default member, put into the
    ordering at the requested place *)
Lemma ms_insert_spec m l m1 idx : CoreInv m -> ms_insert m l = Some (m1, idx) ->
  ~ In idx (ms_order m)
  /\ l_ins l (ms_order m) idx = Some (ms_order m1)
  /\ CoreInv m1
  /\ nthN (ms_members m1) idx member_default = member_default
  /\ (forall j, In j (ms_order m) -> nthN (ms_members m1) j member_default = nthN (ms_members m) j member_default)
  /\ ms_align m1 = ms_align m /\ ms_orphans m1 = ms_orphans m
  /\ ms_zombie_lines m1 = ms_zombie_lines m /\ ms_target m1 = ms_target m.
Proof.
  intros CI Hi. destruct CI as [A B C D E F]. unfold ms_insert in Hi.
  destruct (ms_free m) as [|i fr] eqn:Hfree.
  - (* fresh slot *)
    set (idx0 := N.of_nat (length (ms_members m))) in *.
    set (m0 := set_ms_members m (ms_members m ++ [member_default])) in *.
    assert (Hfresh : ~ In idx0 (ms_order m)).
    { intros Hin. specialize (D idx0 (or_introl Hin)). unfold idx0 in D. rewrite Nat2N.id in D. lia. }
    assert (Hord : exists ord', l_ins l (ms_order m) idx0 = Some ord' /\ m1 = set_ms_order m0 ord' /\ idx = idx0).
    { destruct l as [|p|p|r|r]; cbn in Hi |- *.
      1-3: injection Hi as <- <-; eexists; repeat split.
      all: destruct (posN r (ms_order m)); try discriminate; injection Hi as <- <-; eexists; repeat split. }
    destruct Hord as (ord' & Hl & -> & ->).
    split; [exact Hfresh|]. split; [exact Hl|].
    pose proof (l_ins_In _ _ _ _ Hl) as HIn.
    split; [|split; [|split]]; cbn [ms_members ms_order ms_free set_ms_order set_ms_members m0
                                    ms_align ms_orphans ms_zombie_lines ms_target]; auto.
    + constructor; cbn [ms_members ms_order ms_free set_ms_order set_ms_members m0].
      * eapply l_ins_NoDup; eauto.
      * rewrite Hfree. constructor.
      * rewrite Hfree. auto.
      * rewrite Hfree, app_length. cbn. intros j [Hj|[]]. apply HIn in Hj. destruct Hj as [->|Hj].
        -- unfold idx0. rewrite Nat2N.id. lia.
        -- specialize (D j (or_introl Hj)). lia.
      * rewrite app_length, (l_ins_length _ _ _ _ Hl), E, Hfree. cbn. lia.
      * rewrite Hfree. intros j [].
    + apply nthN_app_new.
    + intros j Hj. apply nthN_app_l. apply D. auto.
  - (* recycled slot *)
    set (m0 := set_ms_free (set_ms_members m (updN (ms_members m) (N.to_nat i) (fun _ => member_default))) fr) in *.
    assert (Hfresh : ~ In i (ms_order m)) by (intros Hin; apply (C i Hin); left; reflexivity).
    assert (Hord : exists ord', l_ins l (ms_order m) i = Some ord' /\ m1 = set_ms_order m0 ord' /\ idx = i).
    { destruct l as [|p|p|r|r]; cbn in Hi |- *.
      1-3: injection Hi as <- <-; eexists; repeat split.
      all: destruct (posN r (ms_order m)); try discriminate; injection Hi as <- <-; eexists; repeat split. }
    destruct Hord as (ord' & Hl & -> & ->).
    split; [exact Hfresh|]. split; [exact Hl|].
    pose proof (l_ins_In _ _ _ _ Hl) as HIn.
    inversion B as [|? ? Hifr Hfr]; subst.
    assert (Hil : (N.to_nat i < length (ms_members m))%nat) by (apply D; right; left; reflexivity).
    split; [|split; [|split]]; cbn [ms_members ms_order ms_free set_ms_order set_ms_members set_ms_free m0
                                    ms_align ms_orphans ms_zombie_lines ms_target]; auto.
    + constructor; cbn [ms_members ms_order ms_free set_ms_order set_ms_members set_ms_free m0].
      * eapply l_ins_NoDup; eauto.
      * exact Hfr.
      * intros j Hj Hjf. apply HIn in Hj. destruct Hj as [->|Hj]; [tauto|].
        apply (C j Hj). right. exact Hjf.
      * rewrite updN_length. intros j [Hj|Hj].
        -- apply HIn in Hj. destruct Hj as [->|Hj]; [exact Hil | apply D; auto].
        -- apply D. right. right. exact Hj.
      * rewrite updN_length, (l_ins_length _ _ _ _ Hl), E. cbn. lia.
      * intros j Hj. rewrite nthN_updN_neq; [|intros ->; tauto]. apply F. right. exact Hj.
    + apply nthN_updN_eq. exact Hil.
    + intros j Hj. apply nthN_updN_neq. intros ->. tauto.
Qed.

Definition loc_of (s : sys) (bl : bloc) : option iloc :=
  match bl with
  | BEnd => Some LEnd
  | BIndex i => Some (LIndex i)
  | BFromBack i => Some (LFromBack i)
  | BAfter r => match b_target (get_bar s r) with TMulti i => Some (LAfter i) | _ => None end
  | BBefore r => match b_target (get_bar s r) with TMulti i => Some (LBefore i) | _ => None end
  end.

Lemma is_member_target s b : is_member s b = true -> exists i, b_target (get_bar s b) = TMulti i.
Proof. unfold is_member. destruct (b_target (get_bar s b)); try discriminate. eauto. Qed.

(** [a_ins] for a bar that is not in the list yet *)
Definition a_ins0 (loc : bloc) (b : N) (ord : list N) : list N :=
  match loc with
  | BEnd => ord ++ [b]
  | BIndex p => insert_at ord (Nat.min (N.to_nat p) (length ord)) b
  | BFromBack p => insert_at ord (length ord - N.to_nat p) b
  | BAfter r => match posN r ord with Some p => insert_at ord (S p) b | None => ord end
  | BBefore r => match posN r ord with Some p => insert_at ord p b | None => ord end
  end.
Lemma a_ins_fresh loc b ord : ~ In b ord -> a_ins loc b ord = a_ins0 loc b ord.
Proof. intros Hn. unfold a_ins. rewrite (proj2 (memN_false b ord) Hn). destruct loc; reflexivity. Qed.
Lemma a_ins_member loc b ord : In b ord -> a_ins loc b ord = ord.
Proof. intros Hi. unfold a_ins. rewrite (proj2 (memN_In b ord) Hi). reflexivity. Qed.

Lemma insert_sim s a bl b l m1 idx :
  MInv s -> Refines s a -> op_ok s (OInsert bl b) = true -> is_member s b = false ->
  loc_of s bl = Some l -> ms_insert (s_mp s) l = Some (m1, idx) ->
  let s1 := upd_bar (set_s_mp s m1) b (fun x => set_b_target x (TMulti idx)) in
  MInv s1 /\ Refines s1 (a_struct a (OInsert bl b)).
Proof.
  intros MI RF Hk Hnm Hloc Hins s1. pose proof (MInv_core s MI) as CI.
  unfold op_ok in Hk. cbn [op_bar] in Hk. apply andb_prop in Hk. destruct Hk as [Ha Href].
  pose proof (alive_inrange s b Ha) as Hl.
  destruct (ms_insert_spec (s_mp s) l m1 idx CI Hins) as (Hfresh & Hlins & CI1 & Hdef & Hmem & Hal & Hor & Hzl & Htg).
  assert (Hgb : get_bar s1 b = set_b_target (get_bar s b) (TMulti idx)).
  { unfold s1. apply (get_upd_same (set_s_mp s m1)). exact Hl. }
  assert (Hgo : forall b', b' <> b -> get_bar s1 b' = get_bar s b').
  { intros b' Hn. unfold s1. rewrite get_upd_other by congruence. reflexivity. }
  assert (Hmp : s_mp s1 = m1) by reflexivity.
  assert (Hbo : ~ In b (a_order a)).
  { intros Hin. rewrite (rf_member s a RF b Hin) in Hnm. discriminate. }
  assert (Hsl : forall y, y <> b -> slot_of s1 y = slot_of s y /\ is_member s1 y = is_member s y /\ alive s1 y = alive s y).
  { intros y Hn. unfold slot_of, is_member, alive. rewrite Hgo by exact Hn. auto. }
  assert (Hsb : slot_of s1 b = idx /\ is_member s1 b = true /\ alive s1 b = true).
  { unfold slot_of, is_member, alive. rewrite Hgb. cbn. auto. }
  assert (HIn := l_ins_In _ _ _ _ Hlins).
  assert (Hzf : forall j, In j (ms_order (s_mp s)) -> zflag m1 j = zflag (s_mp s) j).
  { intros j Hj. unfold zflag. rewrite Hmem by exact Hj. reflexivity. }
  split.
  - apply MInv_of.
    + rewrite Hmp. exact CI1.
    + intros b' i Ha' Ht'. rewrite Hmp. destruct (N.eq_dec b' b) as [->|Hn].
      * rewrite Hgb in Ht'. cbn in Ht'. injection Ht' as <-. split; [apply HIn; auto|].
        unfold zflag. rewrite Hdef. reflexivity.
      * unfold alive in Ha'. rewrite Hgo in Ha', Ht' by exact Hn.
        destruct (mi_alive s MI b' i Ha' Ht') as [Hi Hz]. split; [apply HIn; auto|].
        rewrite Hzf by exact Hi. exact Hz.
    + intros b1 b2 i A1 A2 T1 T2.
      destruct (N.eq_dec b1 b) as [->|N1], (N.eq_dec b2 b) as [->|N2]; auto.
      * exfalso. rewrite Hgb in T1. cbn in T1. injection T1 as <-.
        unfold alive in A2. rewrite Hgo in A2, T2 by exact N2.
        apply Hfresh. eapply (mi_alive s MI); eauto.
      * exfalso. rewrite Hgb in T2. cbn in T2. injection T2 as <-.
        unfold alive in A1. rewrite Hgo in A1, T1 by exact N1.
        apply Hfresh. eapply (mi_alive s MI); eauto.
      * unfold alive in A1, A2. rewrite Hgo in A1, A2, T1, T2 by assumption. eapply (mi_distinct s MI); eauto.
  - destruct RF as [R1 R2 R3 R4 R5 R6]. cbn [a_struct]. rewrite (a_ins_fresh bl b (a_order a) Hbo).
    assert (Hmap : map (slot_of s1) (a_order a) = map (slot_of s) (a_order a)).
    { apply map_ext_in. intros y Hy. apply Hsl. intros ->. tauto. }
    assert (HaIn : forall y, In y (a_ins0 bl b (a_order a)) -> y = b \/ In y (a_order a)).
    { intros y. destruct bl as [|p|p|r|r]; cbn [a_ins0].
      - rewrite in_app_iff. cbn. intuition congruence.
      - rewrite insert_at_In. tauto.
      - rewrite insert_at_In. tauto.
      - destruct (posN r (a_order a)); [rewrite insert_at_In|]; tauto.
      - destruct (posN r (a_order a)); [rewrite insert_at_In|]; tauto. }
    assert (Hpos : forall r i, alive s r = true -> b_target (get_bar s r) = TMulti i ->
                     posN i (ms_order (s_mp s)) = posN r (a_order a) /\ In r (a_order a)).
    { intros r i Har Htr. destruct (slot_of_target s r i Htr) as [Hsr Hmr].
      assert (Hrin : In r (a_order a)) by (apply R3; assumption).
      split; [|exact Hrin]. rewrite R1, <- Hsr. apply posN_map_inj.
      intros y Hy He. eapply NoDup_map_inj; eauto. rewrite <- R1. apply (mi_nd_order s MI). }
    constructor; cbn [a_order a_dropped].
    + rewrite Hmp. destruct Hsb as (Hsb & _ & _).
      destruct bl as [|p|p|r|r]; cbn [loc_of] in Hloc; cbn [a_ins0].
      * injection Hloc as <-. cbn [l_ins] in Hlins. injection Hlins as <-.
        rewrite map_app, Hmap, <- R1. cbn. rewrite Hsb. reflexivity.
      * injection Hloc as <-. cbn [l_ins] in Hlins. injection Hlins as <-.
        rewrite insert_at_map, Hmap, <- R1, Hsb. f_equal. rewrite R1, map_length. reflexivity.
      * injection Hloc as <-. cbn [l_ins] in Hlins. injection Hlins as <-.
        rewrite insert_at_map, Hmap, <- R1, Hsb. f_equal. rewrite R1, map_length. reflexivity.
      * apply andb_prop in Href. destruct Href as [Har Hmr]. apply is_member_target in Hmr. destruct Hmr as [i Htr].
        rewrite Htr in Hloc. injection Hloc as <-. cbn [l_ins] in Hlins.
        destruct (Hpos r i Har Htr) as [Hp Hrin]. rewrite Hp in Hlins.
        destruct (posN r (a_order a)) as [q|]; [|discriminate]. injection Hlins as <-.
        rewrite insert_at_map, Hmap, <- R1, Hsb. reflexivity.
      * apply andb_prop in Href. destruct Href as [Har Hmr]. apply is_member_target in Hmr. destruct Hmr as [i Htr].
        rewrite Htr in Hloc. injection Hloc as <-. cbn [l_ins] in Hlins.
        destruct (Hpos r i Har Htr) as [Hp Hrin]. rewrite Hp in Hlins.
        destruct (posN r (a_order a)) as [q|]; [|discriminate]. injection Hlins as <-.
        rewrite insert_at_map, Hmap, <- R1, Hsb. reflexivity.
    + intros y Hy. apply HaIn in Hy. destruct Hy as [->|Hy]; [apply Hsb|].
      destruct (Hsl y) as (_ & -> & _); [intros ->; tauto | apply R2; exact Hy].
    + intros y Hay Hmy. destruct (N.eq_dec y b) as [->|Hn].
      * destruct bl as [|p|p|r|r]; cbn [a_ins0].
        -- apply in_or_app. right. left. reflexivity.
        -- apply insert_at_In. auto.
        -- apply insert_at_In. auto.
        -- apply andb_prop in Href. destruct Href as [Har Hmr]. apply is_member_target in Hmr. destruct Hmr as [i Htr].
           destruct (Hpos r i Har Htr) as [_ Hrin]. destruct (posN_In r _ Hrin) as [q ->]. apply insert_at_In. auto.
        -- apply andb_prop in Href. destruct Href as [Har Hmr]. apply is_member_target in Hmr. destruct Hmr as [i Htr].
           destruct (Hpos r i Har Htr) as [_ Hrin]. destruct (posN_In r _ Hrin) as [q ->]. apply insert_at_In. auto.
      * destruct (Hsl y Hn) as (_ & Em & Ea). rewrite Ea in Hay. rewrite Em in Hmy.
        specialize (R3 y Hay Hmy).
        destruct bl as [|p|p|r|r]; cbn [a_ins0].
        -- apply in_or_app. auto.
        -- apply insert_at_In. auto.
        -- apply insert_at_In. auto.
        -- destruct (posN r (a_order a)); [apply insert_at_In|]; auto.
        -- destruct (posN r (a_order a)); [apply insert_at_In|]; auto.
    + intros y Hy. apply HaIn in Hy. destruct Hy as [->|Hy].
      * destruct Hsb as (_ & _ & ->). cbn. apply memN_false. intros Hd. rewrite (R5 b Hd) in Ha. discriminate.
      * destruct (Hsl y) as (_ & _ & ->); [intros ->; tauto | apply R4; exact Hy].
    + intros y Hy. destruct (N.eq_dec y b) as [->|Hn].
      * rewrite (R5 b Hy) in Ha. discriminate.
      * destruct (Hsl y Hn) as (_ & _ & ->). auto.
    + intros y Hy. apply HaIn in Hy. rewrite Hmp. destruct Hy as [->|Hy].
      * destruct Hsb as (-> & _ & ->). rewrite Hdef. reflexivity.
      * destruct (Hsl y) as (-> & _ & ->); [intros ->; tauto|].
        fold (zflag m1 (slot_of s y)). rewrite Hzf; [apply R6; exact Hy|]. rewrite R1. apply in_map. exact Hy.
Qed.

Section Mark.
  Variable W : N.

  Lemma ms_mark_zombie_spec m idx : CoreInv m -> In idx (ms_order m) ->
    exists first rest, ms_order m = first :: rest /\
    let m' := ms_mark_zombie W m idx in
    CoreInv m' /\ visible m' = visible m /\
    (first = idx ->
       ms_order m' = rest /\ ~ In idx rest
       /\ forall j, j <> idx -> nthN (ms_members m') j member_default = nthN (ms_members m) j member_default)
    /\ (first <> idx ->
       ms_order m' = ms_order m
       /\ nthN (ms_members m') idx member_default
          = mkmem (m_lines (nthN (ms_members m) idx member_default)) true
       /\ (forall j, j <> idx -> nthN (ms_members m') j member_default = nthN (ms_members m) j member_default)
       /\ ms_zombie_lines m' = ms_zombie_lines m /\ ms_target m' = ms_target m).
  Proof.
    intros CI Hi. destruct (ms_order m) as [|first rest] eqn:Ho; [destruct Hi|].
    exists first, rest. split; [reflexivity|]. cbn zeta. unfold ms_mark_zombie. rewrite Ho.
    pose proof (ci_nd_order m CI) as Hnd. rewrite Ho in Hnd. inversion Hnd as [|? ? Hfr Hr]; subst.
    destruct (N.eqb_spec idx first) as [->|Hne]; cbn [negb].
    - set (m0 := set_ms_target _ _).
      assert (Hs : same_core m m0) by (repeat split).
      assert (CI0 : CoreInv m0) by (eapply same_core_inv; eauto).
      assert (Hnf : ~ In first (ms_free m0)).
      { apply (ci_disj m0 CI0). unfold m0. cbn. rewrite Ho. left. reflexivity. }
      destruct (remove_idx_fields m0 first Hnf) as (Em & Ef & Eo).
      destruct (remove_idx_other m0 first) as (_ & _ & _ & Et).
      split; [|split; [|split]].
      + apply remove_idx_core; auto. left. unfold m0. cbn. rewrite Ho. left. reflexivity.
      + unfold visible. rewrite Et. unfold m0. cbn. unfold target_adjust_keep.
        destruct (ms_target m); reflexivity.
      + intros _. split; [|split].
        * rewrite Eo. unfold m0. cbn. rewrite Ho. cbn. rewrite N.eqb_refl. cbn. apply filter_neq_notin. exact Hfr.
        * exact Hfr.
        * intros j Hj. rewrite Em. unfold m0. cbn. apply nthN_updN_neq. congruence.
      + intros Hc. congruence.
    - assert (Hil : (N.to_nat idx < length (ms_members m))%nat).
      { apply (ci_bound m CI). left. rewrite Ho. exact Hi. }
      split; [|split; [|split]].
      + destruct CI as [A B C D E F]. constructor; cbn; auto.
        * intros j Hj. rewrite updN_length. auto.
        * rewrite updN_length. exact E.
        * intros j Hj. rewrite nthN_updN_neq; auto. intros <-. apply (C idx); [rewrite Ho; exact Hi | exact Hj].
      + reflexivity.
      + intros Hc. congruence.
      + intros _. cbn. repeat split; auto.
        * rewrite nthN_updN_eq by exact Hil. reflexivity.
        * intros j Hj. apply nthN_updN_neq. congruence.
  Qed.
End Mark.

Lemma mark_sim W s a b :
  MInv s -> Refines s a -> alive s b = true ->
  let s1 := upd_bar (mark_zombie W s b) b (fun x => set_b_alive x false) in
  MInv s1 /\ Refines s1 (a_struct a (ODrop b)).
Proof.
  intros MI RF Ha s1. pose proof (MInv_core s MI) as CI.
  pose proof (alive_inrange s b Ha) as Hl.
  assert (Hbars : s_bars (mark_zombie W s b) = s_bars s).
  { unfold mark_zombie. destruct (b_target (get_bar s b)); reflexivity. }
  assert (Hgb : get_bar s1 b = set_b_alive (get_bar s b) false).
  { unfold s1. rewrite get_upd_same by (rewrite Hbars; exact Hl). unfold get_bar. rewrite Hbars. reflexivity. }
  assert (Hgo : forall b', b' <> b -> get_bar s1 b' = get_bar s b').
  { intros b' Hn. unfold s1. rewrite get_upd_other by congruence. unfold get_bar. rewrite Hbars. reflexivity. }
  assert (Hsl : forall y, slot_of s1 y = slot_of s y /\ is_member s1 y = is_member s y).
  { intros y. unfold slot_of, is_member. destruct (N.eq_dec y b) as [->|Hn]; [rewrite Hgb | rewrite Hgo by exact Hn]; auto. }
  assert (Hal : forall y, y <> b -> alive s1 y = alive s y).
  { intros y Hn. unfold alive. rewrite Hgo by exact Hn. reflexivity. }
  assert (Hab : alive s1 b = false) by (unfold alive; rewrite Hgb; reflexivity).
  assert (Hmp : s_mp s1 = s_mp (mark_zombie W s b)) by reflexivity.
  destruct RF as [R1 R2 R3 R4 R5 R6].
  assert (Hmap : map (slot_of s1) (a_order a) = map (slot_of s) (a_order a)) by (apply map_ext; intros; apply Hsl).
  assert (Hdead : forall y, y <> b -> In y (a_order a) -> memN y (b :: a_dropped a) = negb (alive s1 y)).
  { intros y Hn Hy. rewrite Hal by exact Hn. cbn. rewrite (proj2 (N.eqb_neq y b) Hn). cbn. apply R4. exact Hy. }
  assert (Hdead5 : forall y, In y (b :: a_dropped a) -> alive s1 y = false).
  { intros y [<-|Hy]; [exact Hab|]. destruct (N.eq_dec y b) as [->|Hn]; [exact Hab|]. rewrite Hal by exact Hn. auto. }
  destruct (b_target (get_bar s b)) as [|tg|idx] eqn:Ht.
  - (* detached bar *)
    assert (Hm : s_mp s1 = s_mp s) by (rewrite Hmp; unfold mark_zombie; rewrite Ht; reflexivity).
    assert (Hnb : ~ In b (a_order a)).
    { intros Hin. specialize (R2 b Hin). unfold is_member in R2. rewrite Ht in R2. discriminate. }
    split.
    + apply MInv_of; rewrite ?Hm; auto.
      * intros b' i Ha' Ht'. assert (Hn : b' <> b) by (intros ->; congruence).
        unfold alive in Ha'. rewrite Hgo in Ha', Ht' by exact Hn. apply (mi_alive s MI b' i Ha' Ht').
      * intros b1 b2 i A1 A2 T1 T2.
        assert (N1 : b1 <> b) by (intros ->; congruence). assert (N2 : b2 <> b) by (intros ->; congruence).
        unfold alive in A1, A2. rewrite Hgo in A1, A2, T1, T2 by assumption. eapply (mi_distinct s MI); eauto.
    + assert (Hst : a_order (a_struct a (ODrop b)) = a_order a /\ a_dropped (a_struct a (ODrop b)) = b :: a_dropped a).
      { cbn [a_struct]. destruct (a_order a) as [|h t] eqn:Eo; [auto|].
        destruct (N.eqb_spec h b) as [->|Hn]; [exfalso; apply Hnb; left; reflexivity | auto]. }
      destruct Hst as [E1 E2]. constructor; rewrite ?E1, ?E2, ?Hm.
      * rewrite Hmap. exact R1.
      * intros y Hy. rewrite (proj2 (Hsl y)). auto.
      * intros y Hay Hmy. assert (Hn : y <> b) by (intros ->; congruence).
        rewrite Hal in Hay by exact Hn. rewrite (proj2 (Hsl y)) in Hmy. auto.
      * intros y Hy. apply Hdead; [intros ->; tauto | exact Hy].
      * exact Hdead5.
      * intros y Hy. rewrite (proj1 (Hsl y)), Hal by (intros ->; tauto). auto.
  - (* bar with its own terminal *)
    assert (Hm : s_mp s1 = s_mp s) by (rewrite Hmp; unfold mark_zombie; rewrite Ht; reflexivity).
    assert (Hnb : ~ In b (a_order a)).
    { intros Hin. specialize (R2 b Hin). unfold is_member in R2. rewrite Ht in R2. discriminate. }
    split.
    + apply MInv_of; rewrite ?Hm; auto.
      * intros b' i Ha' Ht'. assert (Hn : b' <> b) by (intros ->; congruence).
        unfold alive in Ha'. rewrite Hgo in Ha', Ht' by exact Hn. apply (mi_alive s MI b' i Ha' Ht').
      * intros b1 b2 i A1 A2 T1 T2.
        assert (N1 : b1 <> b) by (intros ->; congruence). assert (N2 : b2 <> b) by (intros ->; congruence).
        unfold alive in A1, A2. rewrite Hgo in A1, A2, T1, T2 by assumption. eapply (mi_distinct s MI); eauto.
    + assert (Hst : a_order (a_struct a (ODrop b)) = a_order a /\ a_dropped (a_struct a (ODrop b)) = b :: a_dropped a).
      { cbn [a_struct]. destruct (a_order a) as [|h t] eqn:Eo; [auto|].
        destruct (N.eqb_spec h b) as [->|Hn]; [exfalso; apply Hnb; left; reflexivity | auto]. }
      destruct Hst as [E1 E2]. constructor; rewrite ?E1, ?E2, ?Hm.
      * rewrite Hmap. exact R1.
      * intros y Hy. rewrite (proj2 (Hsl y)). auto.
      * intros y Hay Hmy. assert (Hn : y <> b) by (intros ->; congruence).
        rewrite Hal in Hay by exact Hn. rewrite (proj2 (Hsl y)) in Hmy. auto.
      * intros y Hy. apply Hdead; [intros ->; tauto | exact Hy].
      * exact Hdead5.
      * intros y Hy. rewrite (proj1 (Hsl y)), Hal by (intros ->; tauto). auto.
  - (* member *)
    destruct (mi_alive s MI b idx Ha Ht) as [Hio Hzf].
    destruct (slot_of_target s b idx Ht) as [Hsb Hmb].
    assert (Hbin : In b (a_order a)) by (apply R3; assumption).
    assert (Hm : s_mp s1 = ms_mark_zombie W (s_mp s) idx) by (rewrite Hmp; unfold mark_zombie; rewrite Ht; reflexivity).
    destruct (ms_mark_zombie_spec W (s_mp s) idx CI Hio) as (first & rest & Ho & CI' & Hvis & Hhead & Hnon).
    assert (Hinj : forall y, In y (a_order a) -> slot_of s y = idx -> y = b).
    { intros y Hy He. apply (NoDup_map_inj (slot_of s) (a_order a)); auto; [rewrite <- R1; apply (mi_nd_order s MI) | congruence]. }
    destruct (a_order a) as [|h t] eqn:Eo; [destruct Hbin|].
    rewrite R1 in Ho. cbn [map] in Ho. injection Ho as Hfirst Hrest.
    destruct (N.eqb_spec h b) as [->|Hhb].
    + (* the head of the list: reaped at once *)
      assert (Hfi : first = idx) by congruence.
      destruct (Hhead Hfi) as (Eo' & Hnr & Emem).
      assert (Hnt : ~ In b t).
      { intros Hin. apply Hnr. rewrite <- Hrest, <- Hsb. apply in_map. exact Hin. }
      assert (Hst : a_struct (mkas (b :: t) (a_dropped a)) (ODrop b) = mkas t (b :: a_dropped a)).
      { cbn [a_struct a_order a_dropped]. rewrite N.eqb_refl. reflexivity. }
      assert (Hslot_t : forall y, In y t -> slot_of s y <> idx).
      { intros y Hy He. assert (y = b) by (apply Hinj; [right; exact Hy | exact He]). subst. tauto. }
      split.
      * apply MInv_of; rewrite ?Hm; auto.
        -- intros b' i Ha' Ht'. assert (Hn : b' <> b) by (intros ->; congruence).
           unfold alive in Ha'. rewrite Hgo in Ha', Ht' by exact Hn.
           destruct (mi_alive s MI b' i Ha' Ht') as [Hi Hz].
           assert (Hne : i <> idx) by (intros ->; apply Hn; eapply (mi_distinct s MI); eauto).
           split.
           ++ rewrite Eo', <- Hrest. rewrite R1 in Hi. cbn [map] in Hi. destruct Hi as [Hi|Hi]; [congruence | exact Hi].
           ++ unfold zflag. rewrite Emem by exact Hne. exact Hz.
        -- intros b1 b2 i A1 A2 T1 T2.
           assert (N1 : b1 <> b) by (intros ->; congruence). assert (N2 : b2 <> b) by (intros ->; congruence).
           unfold alive in A1, A2. rewrite Hgo in A1, A2, T1, T2 by assumption. eapply (mi_distinct s MI); eauto.
      * replace a with (mkas (b :: t) (a_dropped a)) by (destruct a; cbn in *; congruence).
        rewrite Hst. constructor; cbn [a_order a_dropped]; rewrite ?Hm.
        -- rewrite Eo', <- Hrest. apply map_ext. intros y. symmetry. apply Hsl.
        -- intros y Hy. rewrite (proj2 (Hsl y)). apply R2. right. exact Hy.
        -- intros y Hay Hmy. assert (Hn : y <> b) by (intros ->; congruence).
           rewrite Hal in Hay by exact Hn. rewrite (proj2 (Hsl y)) in Hmy.
           destruct (R3 y Hay Hmy) as [He|Hin]; [congruence | exact Hin].
        -- intros y Hy. apply Hdead; [intros ->; tauto | right; exact Hy].
        -- exact Hdead5.
        -- intros y Hy. rewrite (proj1 (Hsl y)), Hal by (intros ->; tauto).
           rewrite Emem by (apply Hslot_t; exact Hy). apply R6. right. exact Hy.
    + (* further down: flagged, waits for the head *)
      assert (Hfi : first <> idx).
      { intros He. apply Hhb. apply Hinj; [left; reflexivity | congruence]. }
      destruct (Hnon Hfi) as (Eo' & Eidx & Emem & _ & _).
      assert (Hst : a_struct (mkas (h :: t) (a_dropped a)) (ODrop b) = mkas (h :: t) (b :: a_dropped a)).
      { cbn [a_struct a_order a_dropped]. rewrite (proj2 (N.eqb_neq h b) Hhb). reflexivity. }
      split.
      * apply MInv_of; rewrite ?Hm; auto.
        -- intros b' i Ha' Ht'. assert (Hn : b' <> b) by (intros ->; congruence).
           unfold alive in Ha'. rewrite Hgo in Ha', Ht' by exact Hn.
           destruct (mi_alive s MI b' i Ha' Ht') as [Hi Hz].
           assert (Hne : i <> idx) by (intros ->; apply Hn; eapply (mi_distinct s MI); eauto).
           split; [rewrite Eo'; exact Hi|]. unfold zflag. rewrite Emem by exact Hne. exact Hz.
        -- intros b1 b2 i A1 A2 T1 T2.
           assert (N1 : b1 <> b) by (intros ->; congruence). assert (N2 : b2 <> b) by (intros ->; congruence).
           unfold alive in A1, A2. rewrite Hgo in A1, A2, T1, T2 by assumption. eapply (mi_distinct s MI); eauto.
      * replace a with (mkas (h :: t) (a_dropped a)) by (destruct a; cbn in *; congruence).
        rewrite Hst. constructor; cbn [a_order a_dropped]; rewrite ?Hm.
        -- rewrite Eo', R1. apply map_ext. intros y. symmetry. apply Hsl.
        -- intros y Hy. rewrite (proj2 (Hsl y)). apply R2. exact Hy.
        -- intros y Hay Hmy. assert (Hn : y <> b) by (intros ->; congruence).
           rewrite Hal in Hay by exact Hn. rewrite (proj2 (Hsl y)) in Hmy. apply R3; assumption.
        -- intros y Hy. destruct (N.eq_dec y b) as [->|Hn].
           ++ rewrite Hab. cbn. rewrite N.eqb_refl. reflexivity.
           ++ apply Hdead; assumption.
        -- exact Hdead5.
        -- intros y Hy. rewrite (proj1 (Hsl y)). destruct (N.eq_dec y b) as [->|Hn].
           ++ rewrite Hab, Hsb, Eidx. reflexivity.
           ++ rewrite Hal by exact Hn. rewrite Emem; [apply R6; exact Hy|].
              intros He. apply Hn. apply Hinj; assumption.
Qed.

(* ------------------------------------------------------------------ C02 (1): the simulation *)
Section Sim.
  Variable W H : N.
  Variable fails : N -> bool.
  Local Notation step_sys := (step_sys W H fails).

  Lemma a_struct_nonstruct a o : structural o = false -> a_struct a o = a.
  Proof. destruct o; try discriminate; reflexivity. Qed.

  Lemma nonstruct_sim s a now o : MInv s -> Refines s a -> op_ok s o = true -> structural o = false ->
    exists r, MInv (step_sys s now o) /\ Refines (step_sys s now o) (a_maybe_reap r a).
  Proof.
    intros MI RF Hk Hs.
    destruct (nonstruct_trans W H fails s now o MI Hk Hs) as [r T].
    destruct (step_mp W H fails s now o) as [Emp _]. cbn [fst] in Emp. rewrite <- Emp in T.
    exists r. apply (trans_sim s (step_sys s now o) a r MI RF); [|exact T].
    apply step_bars_pres. exact Hs.
  Qed.

  Theorem step_sim s a now o : MInv s -> Refines s a -> op_ok s o = true ->
    exists r, MInv (step_sys s now o) /\ Refines (step_sys s now o) (a_step r a o).
  Proof.
    intros MI RF Hk. destruct (structural o) eqn:Hs.
    - destruct o; try discriminate Hs.
      + (* drop *)
        assert (Ha : alive s b = true) by (eapply op_ok_alive; eauto; reflexivity).
        unfold step_sys. cbn [step fst a_step]. unfold bar_drop.
        destruct (finished (get_bar s b)) eqn:Hf.
        * exists false. cbn [fst a_maybe_reap]. apply mark_sim; assumption.
        * destruct (nonstruct_sim s a now (OFinish b (b_on_finish (get_bar s b))) MI RF) as (r & MI1 & RF1).
          { unfold op_ok. cbn. rewrite Ha. reflexivity. } { reflexivity. }
          pose proof (step_bars_pres W H fails s now (OFinish b (b_on_finish (get_bar s b))) eq_refl) as BP.
          unfold MultiSpec.step_sys in MI1, RF1, BP. cbn [step fst] in MI1, RF1, BP.
          destruct (bar_finish W H fails s b (b_on_finish (get_bar s b)) now) as [s1 e]. cbn [fst] in *.
          exists r. apply mark_sim; auto. destruct (BP b) as [-> _]. exact Ha.
      + (* insert *)
        exists false. cbn [a_step a_maybe_reap].
        pose proof Hk as Hk'. unfold op_ok in Hk'. cbn [op_bar] in Hk'.
        apply andb_prop in Hk'. destruct Hk' as [Ha Href].
        destruct (is_member s b) eqn:Hnm.
        { (* already a member: no effect (fix bee77c9) *)
          unfold step_sys. cbn [step]. destruct (is_member_target s b Hnm) as [i0 Ht0]. rewrite Ht0. cbn [fst].
          split; [exact MI|]. cbn [a_struct]. rewrite a_ins_member; [destruct a; exact RF|].
          apply (rf_alive s a RF b Ha Hnm). }
        assert (Hloc : exists l, loc_of s loc = Some l /\
                  (forall r, (loc = BAfter r \/ loc = BBefore r) -> In (slot_of s r) (ms_order (s_mp s))
                             /\ (l = LAfter (slot_of s r) \/ l = LBefore (slot_of s r)))).
        { destruct loc as [|p|p|r|r]; cbn [loc_of]; try (eexists; split; [reflexivity|]; intros r [Hc|Hc]; discriminate).
          - apply andb_prop in Href. destruct Href as [Har Hmr]. destruct (is_member_target s r Hmr) as [i Hi].
            rewrite Hi. eexists; split; [reflexivity|]. intros r' [Hc|Hc]; [|discriminate]. injection Hc as <-.
            destruct (slot_of_target s r i Hi) as [-> _]. split; [eapply (mi_alive s MI); eauto | auto].
          - apply andb_prop in Href. destruct Href as [Har Hmr]. destruct (is_member_target s r Hmr) as [i Hi].
            rewrite Hi. eexists; split; [reflexivity|]. intros r' [Hc|Hc]; [discriminate|]. injection Hc as <-.
            destruct (slot_of_target s r i Hi) as [-> _]. split; [eapply (mi_alive s MI); eauto | auto]. }
        destruct Hloc as (l & Hloc & Hrefs).
        assert (Hins : exists m1 idx, ms_insert (s_mp s) l = Some (m1, idx)).
        { unfold ms_insert. destruct (ms_free (s_mp s)) as [|i fr];
          (destruct loc as [|p|p|r|r]; cbn [loc_of] in Hloc;
           [ injection Hloc as <-; eexists; eexists; reflexivity
           | injection Hloc as <-; eexists; eexists; reflexivity
           | injection Hloc as <-; eexists; eexists; reflexivity
           | destruct (Hrefs r (or_introl eq_refl)) as [Hin [Hl|Hl]]; subst l;
             cbn [ms_order set_ms_free set_ms_members]; destruct (posN_In _ _ Hin) as [q ->]; eexists; eexists; reflexivity
           | destruct (Hrefs r (or_intror eq_refl)) as [Hin [Hl|Hl]]; subst l;
             cbn [ms_order set_ms_free set_ms_members]; destruct (posN_In _ _ Hin) as [q ->]; eexists; eexists; reflexivity ]). }
        destruct Hins as (m1 & idx & Hins).
        pose proof (insert_sim s a loc b l m1 idx MI RF Hk Hnm Hloc Hins) as Hsim. cbn zeta in Hsim.
        unfold step_sys. cbn [step]. fold (loc_of s loc). rewrite Hloc, Hins.
        unfold bar_set_target. change (get_bar (set_s_mp s m1) b) with (get_bar s b).
        unfold is_member in Hnm. destruct (b_target (get_bar s b)); try discriminate Hnm; cbn [fst]; exact Hsim.
      + (* remove *)
        assert (Ha : alive s b = true) by (eapply op_ok_alive; eauto; reflexivity).
        unfold step_sys. cbn [step a_step].
        destruct (b_target (get_bar s b)) as [|tg|idx] eqn:Ht.
        * exists false. cbn [fst a_maybe_reap a_struct]. split; [exact MI|].
          rewrite filter_neq_notin; [destruct a; exact RF|].
          intros Hin. pose proof (rf_member s a RF b Hin) as Hm. unfold is_member in Hm. rewrite Ht in Hm. discriminate.
        * exists false. cbn [fst a_maybe_reap a_struct]. split; [exact MI|].
          rewrite filter_neq_notin; [destruct a; exact RF|].
          intros Hin. pose proof (rf_member s a RF b Hin) as Hm. unfold is_member in Hm. rewrite Ht in Hm. discriminate.
        * destruct (remove_sim s a b idx MI RF Ha Ht) as [MI1 RF1]. cbn zeta in MI1, RF1.
          set (s1 := set_s_mp (upd_bar s b (fun x => set_b_target x THidden)) (ms_remove_idx (s_mp s) idx)) in *.
          cbn [s_mp upd_bar set_s_bars s_calls].
          pose proof (ms_draw_trans W H fails (s_mp s1) true None now (s_calls s) (MInv_core s1 MI1)) as T.
          unfold fst4 in T. unfold s1 in T at 2. cbn [s_mp set_s_mp] in T.
          destruct (ms_draw W H fails (ms_remove_idx (s_mp s) idx) true None now (s_calls s)) as [[[m2 e] c'] ok].
          cbn [fst] in *. eexists.
          eapply (trans_sim s1 _ _ _ MI1 RF1); [|exact T]. apply bars_pres_refl. reflexivity.
    - destruct (nonstruct_sim s a now o MI RF Hk Hs) as (r & MI1 & RF1). exists r. split; [exact MI1|].
      replace (a_step r a o) with (a_maybe_reap r a); [exact RF1|].
      unfold a_step. rewrite a_struct_nonstruct by exact Hs. destruct o; try reflexivity. discriminate Hs.
  Qed.
End Sim.

(* ------------------------------------------------------------------ runs *)
Section Runs.
  Variable W H : N.
  Variable fails : N -> bool.

  Lemma init_inv s : init_ok s -> MInv s /\ Refines s (mkas [] []).
  Proof.
    intros (Em & Ef & Eo & Hn).
    assert (Hno : forall b i, b_target (get_bar s b) = TMulti i -> False).
    { intros b i Ht. destruct (slot_of_target s b i Ht) as [_ Hm]. rewrite Hn in Hm. discriminate. }
    split.
    - apply MInv_of.
      + constructor; rewrite ?Em, ?Ef, ?Eo; cbn; try constructor; tauto.
      + intros b i _ Ht. exfalso. eauto.
      + intros b1 b2 i _ _ Ht _. exfalso. eauto.
    - constructor; cbn; try tauto; try exact Eo.
      intros b Ha Hm. rewrite Hn in Hm. discriminate.
  Qed.

  Theorem sim_run ops : forall s a, MInv s -> Refines s a -> hist_ok W H fails s ops -> SimRun W H fails s a ops.
  Proof.
    induction ops as [|[now o] rest IH]; intros s a MI RF Hh.
    - constructor; assumption.
    - destruct Hh as [Hk Hr]. destruct (step_sim W H fails s a now o MI RF Hk) as (r & MI' & RF').
      apply (SR_cons W H fails s a now o r rest MI RF). apply IH; assumption.
  Qed.

  Lemma sim_run_end ops : forall s a, SimRun W H fails s a ops ->
    exists a', MInv (run W H fails s ops) /\ Refines (run W H fails s ops) a'.
  Proof.
    induction ops as [|[now o] rest IH]; intros s a Hs; inversion Hs; subst.
    - exists a. auto.
    - cbn [run]. eapply IH; eauto.
  Qed.

  (** consequences for the final state of any valid history *)
  Theorem run_inv s ops : init_ok s -> hist_ok W H fails s ops ->
    let s' := run W H fails s ops in
    MInv s' /\ exists ord, NoDup ord /\ ms_order (s_mp s') = map (slot_of s') ord
                           /\ (forall b, In b ord -> is_member s' b = true)
                           /\ (forall b, alive s' b = true -> is_member s' b = true -> In b ord).
  Proof.
    intros Hi Hh. destruct (init_inv s Hi) as [MI RF].
    destruct (sim_run_end ops s _ (sim_run ops s _ MI RF Hh)) as (a' & MI' & RF').
    split; [exact MI'|]. exists (a_order a'). split; [eapply Refines_NoDup; eauto|].
    destruct RF'. auto.
  Qed.

  (** C02 (4): a concurrent execution is the fold of [step] over an interleaving of the
      per-thread call lists: every theorem about histories applies to every interleaving *)
  Theorem interleaving_sim (ts : list (list (N * op))) l s :
    Merge ts l -> init_ok s -> hist_ok W H fails s l -> SimRun W H fails s (mkas [] []) l.
  Proof. intros _ Hi Hh. destruct (init_inv s Hi) as [MI RF]. apply sim_run; assumption. Qed.

  Lemma Merge_length {A} (ts : list (list A)) l : Merge ts l -> length l = length (concat ts).
  Proof.
    induction 1 as [ts Hf|pre x t post l Hm IH].
    - induction Hf as [|t r Ht Hr IHr]; [reflexivity|]. subst. cbn. exact IHr.
    - cbn [length]. rewrite IH, !concat_app. cbn [concat]. rewrite !app_length. cbn [length app]. lia.
  Qed.

  Lemma Merge_In {A} (ts : list (list A)) l : Merge ts l -> forall x, In x l <-> In x (concat ts).
  Proof.
    induction 1 as [ts Hf|pre y t post l Hm IH]; intros x.
    - split; [intros []|]. induction Hf as [|t r Ht Hr IHr]; [tauto|]. subst. cbn. exact IHr.
    - cbn [In]. rewrite IH, !concat_app, !in_app_iff. cbn [concat]. rewrite !in_app_iff. cbn [In app]. tauto.
  Qed.
End Runs.
