(** C05 – system-level proofs about model/Limiter.v, for ANY configuration (stand-alone bar or the
    members of a MultiProgress, any number of bars, any creation instants).
    Part 5: neither limiter can panic in ANY state (not only the reachable ones); a run of the
            system is a list of [Ok] outcomes, one per call.
    Part 6: the calls that ask the draw target's limiter form a non-decreasing subsequence of the
            call instants; painted frames of [sys_run] = requests answered `true` by [rl_run] on
            that subsequence.  Lifts: window bound and liveness for FRAMES of [sys_run].
    Part 7: members of a MultiProgress: at the instant of every call the most recent painted
            frame (triggered by any member) is younger than one refresh interval plus 1 ms. *)
From IndModel Require Import Base Limiter.
From IndGen Require Import Constants.
From IndProofs Require Import LimiterProofs.
From Coq Require Import NArith ZArith Lia List Bool ZifyBool ZifyNat ZifyN.
Import ListNotations.
Open Scope N_scope.
Arguments N.add : simpl never.
Arguments N.sub : simpl never.
Arguments N.mul : simpl never.
Arguments N.div : simpl never.
Arguments N.modulo : simpl never.
Arguments N.min : simpl never.

(** ** Part 5: totality *)

(* AtomicPosition::allow cannot panic in any state: after the early exit either capacity > 0 or
   at least one interval has matured, so the `- 1` has something to take; and
   remainder <= diff <= elapsed *)
Lemma ap_allow_total a now : exists a' v, ap_allow a now = Ok (a', v) /\ ap_start a' = ap_start a.
Proof.
  unfold ap_allow. destruct (now <? ap_start a); [eauto|].
  set (el := (now - ap_start a) mod U64).
  set (diff := sat_sub el (ap_prev a)).
  assert (HI : 0 < AP_INTERVAL_NS) by (rewrite API; lia).
  destruct ((ap_cap a =? 0) && (diff <? AP_INTERVAL_NS)) eqn:E; [eauto|].
  assert (Hq : ap_cap a <> 0 \/ 1 <= diff / AP_INTERVAL_NS).
  { apply andb_false_iff in E. destruct E as [E | E].
    - apply N.eqb_neq in E. left. exact E.
    - apply N.ltb_ge in E. right. apply (div_ge_of_mul diff 1 AP_INTERVAL_NS HI). lia. }
  destruct (divmod_facts diff AP_INTERVAL_NS HI) as [Hdm Hlt].
  assert (Hle : diff <= el) by (unfold diff, sat_sub; lia).
  set (q := diff / AP_INTERVAL_NS) in *. set (r := diff mod AP_INTERVAL_NS) in *.
  replace (N.min AP_MAX_BURST (ap_cap a + q) =? 0) with false
    by (symmetry; apply N.eqb_neq; rewrite APB; clearbody q r; lia).
  replace (el <? r) with false by (symmetry; apply N.ltb_ge; clearbody q r; nia).
  eexists _, _. split; reflexivity.
Qed.

(* RateLimiter::allow cannot panic in any state with a positive interval *)
Lemma rl_allow_total r now : 0 < rl_interval r ->
  exists r' v, rl_allow r now = Ok (r', v) /\ rl_interval r' = rl_interval r.
Proof.
  intros HI. unfold rl_allow. destruct (now <? rl_prev r) eqn:Ep; [eauto|].
  apply N.ltb_ge in Ep.
  set (el := now - rl_prev r).
  destruct ((rl_cap r =? 0) && (el <? rl_interval r)) eqn:E; [eauto|].
  assert (Hq : rl_cap r <> 0 \/ 1 <= el / rl_interval r).
  { apply andb_false_iff in E. destruct E as [E | E].
    - apply N.eqb_neq in E. left. exact E.
    - apply N.ltb_ge in E. right. apply (div_ge_of_mul el 1 _ HI). lia. }
  destruct (divmod_facts el _ HI) as [Hdm Hlt].
  assert (Hmod : (el mod rl_interval r) mod U64 <= el mod rl_interval r).
  { apply N.mod_le. rewrite U64v. lia. }
  set (q := el / rl_interval r) in *. set (m := el mod rl_interval r) in *.
  replace (N.min RL_MAX_BURST (rl_cap r + q) =? 0) with false
    by (symmetry; apply N.eqb_neq; rewrite RLB; clearbody q m; lia).
  replace (now <? m mod U64) with false
    by (symmetry; apply N.ltb_ge; unfold el in *; clearbody q m; nia).
  eexists _, _. split; reflexivity.
Qed.

Definition sys_ok (s : sys) : Prop :=
  match s_rl s with Some r => 0 < rl_interval r | None => True end.

Lemma set_nth_length {A} (l : list A) : forall i x, length (set_nth i x l) = length l.
Proof.
  induction l as [|y r IH]; intros i x; destruct i; cbn [set_nth length]; try reflexivity.
  rewrite IH. reflexivity.
Qed.

Lemma sys_request_total s i b now : sys_ok s ->
  exists s' fr, sys_request s i b now = Ok (s', fr) /\ sys_ok s' /\
    s_multi s' = s_multi s /\ length (s_bars s') = length (s_bars s).
Proof.
  unfold sys_ok, sys_request. intros Hok.
  destruct (s_rl s) as [r|]; cbn [rl_opt_allow].
  - destruct (rl_allow_total r now Hok) as (r' & v & -> & HI).
    destruct (s_multi s); eexists _, _; (split; [reflexivity|]);
      cbn [s_rl s_multi s_bars]; rewrite set_nth_length, HI; auto.
  - destruct (s_multi s); eexists _, _; (split; [reflexivity|]);
      cbn [s_rl s_multi s_bars]; rewrite set_nth_length; auto.
Qed.

Lemma via_ap_total s i b now : sys_ok s ->
  exists s' out, via_ap s i b now = Ok (s', out) /\ sys_ok s' /\
    s_multi s' = s_multi s /\ length (s_bars s') = length (s_bars s).
Proof.
  intros Hok. unfold via_ap.
  destruct (ap_allow_total (m_ap b) now) as (a' & v & -> & _).
  destruct v.
  - destruct (sys_request_total s i (mk_mbar (m_pos b) (m_len b) (m_msg b) a' (m_shown b)) now Hok)
      as (s' & fr & -> & H1 & H2 & H3).
    eexists _, _. split; [reflexivity|]. auto.
  - eexists _, _. split; [reflexivity|]. unfold sys_ok in *. cbn [s_rl s_multi s_bars].
    rewrite set_nth_length. auto.
Qed.

Lemma sys_step_total s now i o : sys_ok s ->
  exists s' out, sys_step s now i o = Ok (s', out) /\ sys_ok s' /\
    s_multi s' = s_multi s /\ length (s_bars s') = length (s_bars s).
Proof.
  intros Hok. unfold sys_step.
  destruct (nth_error (s_bars s) (N.to_nat i)) as [b|]; [|eexists _, _; split; [reflexivity|auto]].
  destruct o as [d|d|q| |m|l|px| ].
  1-3: apply via_ap_total; exact Hok.
  all: match goal with |- context [sys_request ?s0 ?k ?x ?n] =>
         destruct (sys_request_total s0 k x n Hok) as (s' & fr & -> & H1 & H2 & H3) end;
       eexists _, _; (split; [reflexivity|auto]).
Qed.

Lemma sys_run_total ops : forall s, sys_ok s ->
  exists outs s', sys_run s ops = map Ok outs /\ length outs = length ops /\
    sys_exec s ops = Ok s' /\ sys_ok s' /\ s_multi s' = s_multi s /\
    length (s_bars s') = length (s_bars s).
Proof.
  induction ops as [|[[now i] o] rest IH]; intros s Hok; cbn [sys_run sys_exec].
  - exists [], s. cbn [map length]. auto 10.
  - destruct (sys_step_total s now i o Hok) as (s1 & out & -> & Hok1 & Hm1 & Hl1).
    destruct (IH s1 Hok1) as (outs & s2 & Hrun & Hlen & Hex & Hok2 & Hm2 & Hl2).
    exists (out :: outs), s2. cbn [map length]. rewrite Hrun, Hlen.
    repeat split; try assumption; try reflexivity; congruence.
Qed.

Lemma sys_new_ok multi rate t0 bars :
  (forall R, rate = Some R -> 1 <= R <= 255) -> sys_ok (sys_new (multi, rate, t0, bars)).
Proof.
  intros HR. unfold sys_ok, sys_new. cbn [s_rl]. destruct rate as [R|]; cbn [option_map]; [|exact Logic.I].
  cbn [rl_new rl_interval]. destruct (rl_interval_facts R (HR R eq_refl)) as (H & _). exact H.
Qed.

(* NO PANIC, direct statement: every run, of every configuration, for every call history (no
   hypothesis on the instants at all), is a list of [Ok] outcomes, one per call *)
Theorem sys_no_panic multi rate t0 bars ops :
  (forall R, rate = Some R -> 1 <= R <= 255) ->
  exists outs, sys_run (sys_new (multi, rate, t0, bars)) ops = map Ok outs /\ length outs = length ops.
Proof.
  intros HR.
  destruct (sys_run_total ops _ (sys_new_ok multi rate t0 bars HR)) as (outs & s' & H1 & H2 & _).
  exists outs. split; assumption.
Qed.

Lemma sys_run_snoc s ops c :
  sys_run s (ops ++ [c]) =
  match sys_exec s ops with
  | Ok s' => sys_run s ops ++ sys_run s' [c]
  | Panic k => sys_run s ops
  end.
Proof.
  revert s. induction ops as [|[[now i] o] r IH]; intros s; cbn [app sys_run sys_exec].
  - destruct c as [[now i] o]. cbn [sys_run]. destruct (sys_step s now i o) as [[s' out]|k]; reflexivity.
  - destruct (sys_step s now i o) as [[s' out]|k]; [|reflexivity].
    rewrite IH. destruct (sys_exec s' r); reflexivity.
Qed.

(** ** Part 6: the requests that reach the draw target's limiter *)

(* one call, seen from the target's limiter [r]: either the call does not ask it (nothing is
   painted, the limiter is untouched, [requested] is false), or it asks it exactly once, at the
   call's instant, and a frame is painted iff the verdict is `true` *)
Lemma sys_request_rl s r i b now : s_rl s = Some r -> 0 < rl_interval r ->
  exists r' v s' fr, rl_allow r now = Ok (r', v) /\ sys_request s i b now = Ok (s', fr) /\
    s_rl s' = Some r' /\ rl_interval r' = rl_interval r /\
    length (s_bars s') = length (s_bars s) /\ (fr = None <-> v = false).
Proof.
  intros Hr HI. destruct (rl_allow_total r now HI) as (r' & v & Hal & HI').
  exists r', v. unfold sys_request. rewrite Hr. cbn [rl_opt_allow]. rewrite Hal.
  destruct (s_multi s); eexists _, _; (split; [reflexivity|]); (split; [reflexivity|]);
    cbn [s_rl s_bars]; rewrite set_nth_length; (split; [reflexivity|]); (split; [exact HI'|]);
    (split; [reflexivity|]); destruct v; split; intros H; try reflexivity; discriminate H.
Qed.

Definition step_spec (s : sys) (r : rl) (now i : N) (o : bop) : Prop :=
  (exists s' re, sys_step s now i o = Ok (s', (re, None)) /\ s_rl s' = Some r /\
     length (s_bars s') = length (s_bars s) /\
     requested (length (s_bars s)) i o re = false)
  \/
  (exists r' v s' re fr, rl_allow r now = Ok (r', v) /\
     sys_step s now i o = Ok (s', (re, fr)) /\ s_rl s' = Some r' /\
     rl_interval r' = rl_interval r /\
     length (s_bars s') = length (s_bars s) /\
     requested (length (s_bars s)) i o re = true /\ (fr = None <-> v = false)).

Lemma sys_step_rl s r now i o : s_rl s = Some r -> 0 < rl_interval r -> step_spec s r now i o.
Proof.
  intros Hr HI. unfold step_spec, sys_step, requested.
  destruct (nth_error (s_bars s) (N.to_nat i)) as [b|] eqn:Enth.
  - assert (Hlt : (N.to_nat i <? length (s_bars s))%nat = true).
    { apply Nat.ltb_lt. apply nth_error_Some. rewrite Enth. discriminate. }
    rewrite Hlt. cbn [andb].
    destruct o as [d|d|q| |m|l|px| ].
    1-3: unfold via_ap;
      match goal with |- context [ap_allow ?a ?n] =>
        destruct (ap_allow_total a n) as (a' & v & -> & _) end;
      (destruct v;
       [ right;
         match goal with |- context [sys_request ?s0 ?k ?x ?n] =>
           destruct (sys_request_rl s0 r k x n Hr HI) as (r' & w & s' & fr & Hal & -> & H1 & H2 & H3 & H4) end;
         exists r', w, s', true, fr; auto 10
       | left; eexists _, _; (split; [reflexivity|]); cbn [s_rl s_bars];
         rewrite set_nth_length; auto ]).
    all: right;
      match goal with |- context [sys_request ?s0 ?k ?x ?n] =>
        destruct (sys_request_rl s0 r k x n Hr HI) as (r' & w & s' & fr & Hal & -> & H1 & H2 & H3 & H4) end;
      eexists r', w, s', _, fr; auto 10.
  - left. exists s, false. split; [reflexivity|]. split; [exact Hr|]. split; [reflexivity|].
    replace (N.to_nat i <? length (s_bars s))%nat with false; [reflexivity|].
    symmetry. apply Nat.ltb_ge. apply nth_error_None. exact Enth.
Qed.

Lemma nondec_snoc ts : forall lo x, nondec lo ts -> lo <= x -> (forall t, In t ts -> t <= x) ->
  nondec lo (ts ++ [x]).
Proof.
  induction ts as [|t r IH]; intros lo x Hnd Hlo Hall; cbn [app nondec] in *.
  - split; [exact Hlo | exact Logic.I].
  - destruct Hnd as [H1 H2]. split; [exact H1|]. apply IH; [exact H2 | | ].
    + apply Hall. left. reflexivity.
    + intros t' Ht'. apply Hall. right. exact Ht'.
Qed.

(* the subsequence [reqs] of the call instants at which the target's limiter is asked *)
Lemma sys_reqs ops : forall s r lo, s_rl s = Some r -> 0 < rl_interval r ->
  nondec lo (map op_time ops) ->
  exists reqs,
    nondec lo reqs /\ (forall x, In x reqs -> In x (map op_time ops)) /\
    (forall a b, frames_in a b (map op_time ops) (sys_run s ops) = allowed_in a b reqs (rl_run r reqs)) /\
    (forall acc, last_paint acc (map op_time ops) (sys_run s ops) = last_allowed acc reqs (rl_run r reqs)) /\
    (forall s', sys_exec s ops = Ok s' ->
       exists r', rl_exec r reqs = Ok r' /\ s_rl s' = Some r' /\ 0 < rl_interval r' /\
                  length (s_bars s') = length (s_bars s)).
Proof.
  induction ops as [|[[now i] o] rest IH]; intros s r lo Hr HI Hnd.
  - exists []. cbn [map sys_run sys_exec frames_in allowed_in last_paint last_allowed rl_run rl_exec nondec].
    split; [exact Logic.I|]. split; [intros x []|]. split; [reflexivity|]. split; [reflexivity|].
    intros s' Hs'. injection Hs' as <-. exists r. auto.
  - cbn [map op_time fst nondec] in Hnd. destruct Hnd as [Hlo Hnd'].
    destruct (sys_step_rl s r now i o Hr HI) as
      [(s1 & re & Hstep & Hr1 & Hl1 & _) | (r1 & v & s1 & re & fr & Hal & Hstep & Hr1 & HI1 & Hl1 & _ & Hfr)].
    + destruct (IH s1 r now Hr1 HI Hnd') as (reqs & Hn & Hin & Hf & Hp & Hex).
      exists reqs. cbn [map op_time fst sys_run sys_exec]. rewrite Hstep.
      split; [apply (nondec_weaken now); assumption|].
      split; [intros x Hx; right; apply Hin; exact Hx|].
      split; [intros a b; cbn [frames_in]; rewrite Hf; lia|].
      split; [intros acc; cbn [last_paint]; apply Hp|].
      intros s' Hs'. destruct (Hex s' Hs') as (r' & H1 & H2 & H3 & H4). exists r'. rewrite H4, Hl1. auto.
    + assert (HI1' : 0 < rl_interval r1) by (rewrite HI1; exact HI).
      destruct (IH s1 r1 now Hr1 HI1' Hnd') as (reqs & Hn & Hin & Hf & Hp & Hex).
      exists (now :: reqs). cbn [map op_time fst sys_run sys_exec rl_run rl_exec nondec]. rewrite Hstep, Hal.
      split; [split; assumption|].
      split; [intros x [<-|Hx]; [left; reflexivity | right; apply Hin; exact Hx]|].
      assert (Hv : fr = None /\ v = false \/ (exists x, fr = Some x) /\ v = true).
      { destruct fr as [x|]; destruct v; try (left; split; reflexivity); try (right; split; [eexists|]; reflexivity).
        - destruct Hfr as [_ H]. discriminate (H eq_refl).
        - destruct Hfr as [H _]. discriminate (H eq_refl). }
      split; [|split].
      * intros a b. cbn [frames_in allowed_in]. rewrite Hf.
        destruct Hv as [[-> ->] | [[x ->] ->]]; reflexivity.
      * intros acc. cbn [last_paint last_allowed].
        destruct Hv as [[-> ->] | [[x ->] ->]]; apply Hp.
      * intros s' Hs'. destruct (Hex s' Hs') as (r' & H1 & H2 & H3 & H4). exists r'. rewrite H4, Hl1. auto.
Qed.

Lemma sys_new_rl multi R t0 bars : s_rl (sys_new (multi, Some R, t0, bars)) = Some (rl_new R t0).
Proof. reflexivity. Qed.

Lemma sys_new_bars multi rate t0 bars : length (s_bars (sys_new (multi, rate, t0, bars))) = length bars.
Proof. unfold sys_new. cbn [s_bars]. apply map_length. Qed.

(* WINDOW BOUND for painted frames of the system *)
Theorem sys_window multi R t0 bars ops s T : 1 <= R <= 255 -> nondec t0 (map op_time ops) ->
  frames_in s (s + T) (map op_time ops) (sys_run (sys_new (multi, Some R, t0, bars)) ops) * 1000000000
  <= 21 * 1000000000 + R * T.
Proof.
  intros HR Hnd. destruct (rl_interval_facts R HR) as (HI & _).
  destruct (sys_reqs ops _ (rl_new R t0) t0 (sys_new_rl multi R t0 bars) HI Hnd) as (reqs & Hn & _ & Hf & _).
  rewrite Hf. apply rl_window; assumption.
Qed.

Theorem sys_window_tight multi R t0 bars ops s T : 1 <= R <= 255 -> nondec t0 (map op_time ops) ->
  frames_in s (s + T) (map op_time ops) (sys_run (sys_new (multi, Some R, t0, bars)) ops)
  <= 20 + (T + rl_interval_of R - 1) / rl_interval_of R.
Proof.
  intros HR Hnd. destruct (rl_interval_facts R HR) as (HI & _).
  destruct (sys_reqs ops _ (rl_new R t0) t0 (sys_new_rl multi R t0 bars) HI Hnd) as (reqs & Hn & _ & Hf & _).
  rewrite Hf. apply rl_window_tight; assumption.
Qed.

(* LIVENESS for painted frames of the system: a call that asks for a redraw at least one refresh
   interval after the last painted frame (or before any frame was painted) paints a frame *)
Theorem sys_liveness multi R t0 bars ops now i o : 1 <= R <= 255 ->
  nondec t0 (map op_time (ops ++ [(now, i, o)])) ->
  (forall f, last_paint None (map op_time ops) (sys_run (sys_new (multi, Some R, t0, bars)) ops) = Some f ->
             1000000000 <= (now - f) * R) ->
  exists reached fr,
    sys_run (sys_new (multi, Some R, t0, bars)) (ops ++ [(now, i, o)])
    = sys_run (sys_new (multi, Some R, t0, bars)) ops ++ [Ok (reached, fr)]
    /\ (requested (length bars) i o reached = true -> fr <> None).
Proof.
  intros HR Hnd Hlast. destruct (rl_interval_facts R HR) as (HI & _).
  rewrite map_app in Hnd. cbn [map op_time fst] in Hnd.
  destruct (nondec_app _ _ _ Hnd) as (Hnd1 & Ht0 & Hall).
  set (s0 := sys_new (multi, Some R, t0, bars)) in *.
  assert (Hok0 : sys_ok s0) by (apply sys_new_ok; intros R' HR'; injection HR' as <-; exact HR).
  destruct (sys_run_total ops s0 Hok0) as (outs & s1 & _ & _ & Hex & _ & _ & _).
  destruct (sys_reqs ops s0 (rl_new R t0) t0 (sys_new_rl multi R t0 bars) HI Hnd1)
    as (reqs & Hn & Hin & _ & Hp & Hfin).
  destruct (Hfin s1 Hex) as (r1 & Hrex & Hr1 & HI1 & Hl1).
  assert (Hnd2 : nondec t0 (reqs ++ [now])).
  { apply nondec_snoc; [exact Hn | exact Ht0|]. intros t Ht. apply Hall. apply Hin. exact Ht. }
  assert (Hlast' : forall a, last_allowed None reqs (rl_run (rl_new R t0) reqs) = Some a ->
                             1000000000 <= (now - a) * R).
  { intros a Ha. apply Hlast. rewrite Hp. exact Ha. }
  pose proof (rl_liveness R t0 reqs now HR Hnd2 Hlast') as Hlive.
  rewrite rl_run_snoc, Hrex in Hlive. apply app_inv_head in Hlive. cbn [rl_run] in Hlive.
  rewrite sys_run_snoc, Hex. cbn [sys_run].
  unfold s0 in Hl1. rewrite sys_new_bars in Hl1.
  destruct (sys_step_rl s1 r1 now i o Hr1 HI1) as
    [(s2 & re & Hstep & _ & _ & Hreq) | (r2 & v & s2 & re & fr & Hal & Hstep & _ & _ & _ & _ & Hfr)].
  - rewrite Hstep. exists re, None. split; [reflexivity|]. rewrite <- Hl1, Hreq. discriminate.
  - rewrite Hstep. exists re, fr. split; [reflexivity|]. intros _ Hn0.
    rewrite Hal in Hlive. destruct v; [|discriminate Hlive].
    apply Hfr in Hn0. discriminate Hn0.
Qed.

(** ** Part 7: members of a MultiProgress (or a stand-alone bar): age of the last painted frame *)

Ltac splits := repeat match goal with |- _ /\ _ => split end.

(* per bar: position-limiter invariant at instant [lo], no `as u64` truncation for the instants [ts] *)
Definition bar_inv (lo : N) (ts : list N) (b : mbar) : Prop :=
  ap_ok (m_ap b) /\ ap_start (m_ap b) <= lo /\ ap_prev (m_ap b) <= lo - ap_start (m_ap b) /\
  (forall t, In t ts -> t < ap_start (m_ap b) + U64).

Lemma Forall_set_nth {A} (P : A -> Prop) (l : list A) : forall k x,
  Forall P l -> P x -> Forall P (set_nth k x l).
Proof.
  induction l as [|y r IH]; intros k x Hl Hx; destruct k; cbn [set_nth]; try exact Hl.
  - inversion Hl; subst. constructor; assumption.
  - inversion Hl; subst. constructor; [assumption | apply IH; assumption].
Qed.

Lemma nth_error_Forall {A} (P : A -> Prop) (l : list A) k x :
  Forall P l -> nth_error l k = Some x -> P x.
Proof. intros Hl Hn. rewrite Forall_forall in Hl. apply Hl. eapply nth_error_In. exact Hn. Qed.

Lemma request_gen (I : N) multi r bars k b t : rl_ok r -> rl_interval r = I -> rl_prev r <= t ->
  exists r' b' fr,
    sys_request (mk_sys multi (Some r) bars) k b t
    = Ok (mk_sys multi (Some r') (set_nth k b' bars), fr) /\
    m_ap b' = m_ap b /\
    rl_ok r' /\ rl_interval r' = I /\ rl_prev r' <= t /\
    (fr = None -> r' = r /\ rl_cap r = 0 /\ t < rl_prev r + I).
Proof.
  intros Hok HIeq Hp. unfold sys_request. cbn [s_multi s_rl s_bars rl_opt_allow].
  rewrite (rl_allow_tb r t Hok Hp).
  destruct Hok as (H0 & Hu & Hc).
  assert (HB : 0 < RL_MAX_BURST) by (rewrite RLB; lia).
  pose proof (tb_step_spec _ _ H0 HB (rl_cap r) (rl_prev r) t Hp) as Hs. cbv zeta in Hs.
  pose proof (tb_step_cap _ _ H0 HB _ _ _ Hp Hc) as Hcap.
  destruct (tb_step (rl_interval r) RL_MAX_BURST (rl_cap r) (rl_prev r) t) as [[c' p'] v].
  destruct Hcap as (Hc' & Hp' & _).
  assert (Hok' : rl_ok (mk_rl (rl_interval r) c' p')) by (unfold rl_ok; cbn [rl_interval rl_cap]; splits; assumption).
  assert (Hnone : v = false -> mk_rl (rl_interval r) c' p' = r /\ rl_cap r = 0 /\ t < rl_prev r + I).
  { intros ->. destruct Hs as (-> & -> & Hc0 & Hlt). split; [destruct r; reflexivity|].
    split; [exact Hc0 | rewrite <- HIeq; exact Hlt]. }
  destruct multi.
  - exists (mk_rl (rl_interval r) c' p'), (mk_mbar (m_pos b) (m_len b) (m_msg b) (m_ap b) (Some (live b))),
      (if v then Some (shown_rows (set_nth k (mk_mbar (m_pos b) (m_len b) (m_msg b) (m_ap b) (Some (live b))) bars)) else None).
    split; [reflexivity|]. split; [reflexivity|]. splits; try assumption.
    destruct v; [discriminate | intros _; apply Hnone; reflexivity].
  - exists (mk_rl (rl_interval r) c' p'), b, (if v then Some [live b] else None).
    split; [reflexivity|]. split; [reflexivity|]. splits; try assumption.
    destruct v; [discriminate | intros _; apply Hnone; reflexivity].
Qed.

Lemma via_ap_gen (I : N) multi r bars k b t :
  rl_ok r -> rl_interval r = I -> rl_prev r <= t ->
  ap_ok (m_ap b) -> ap_start (m_ap b) <= t -> t < ap_start (m_ap b) + U64 ->
  ap_prev (m_ap b) <= t - ap_start (m_ap b) ->
  exists r' b' reached fr,
    via_ap (mk_sys multi (Some r) bars) k b t
    = Ok (mk_sys multi (Some r') (set_nth k b' bars), (reached, fr)) /\
    rl_ok r' /\ rl_interval r' = I /\ rl_prev r' <= t /\
    ap_ok (m_ap b') /\ ap_start (m_ap b') = ap_start (m_ap b) /\
    ap_prev (m_ap b') <= t - ap_start (m_ap b) /\
    (fr = None -> r' = r /\
       ((rl_cap r = 0 /\ t < rl_prev r + I) \/
        (ap_cap (m_ap b) = 0 /\ ap_prev (m_ap b') = ap_prev (m_ap b) /\
         t < ap_start (m_ap b) + ap_prev (m_ap b) + AP_INTERVAL_NS))).
Proof.
  intros Hok HIeq Hp Hapok Hst Hu Hpp. unfold via_ap.
  rewrite (ap_allow_tb (m_ap b) t Hapok Hst) by lia.
  assert (HI : 0 < AP_INTERVAL_NS) by (rewrite API; lia).
  assert (HB : 0 < AP_MAX_BURST) by (rewrite APB; lia).
  pose proof (tb_step_spec _ _ HI HB (ap_cap (m_ap b)) (ap_prev (m_ap b)) _ Hpp) as Hs. cbv zeta in Hs.
  pose proof (tb_step_cap _ _ HI HB _ _ _ Hpp Hapok) as Hcap.
  destruct (tb_step AP_INTERVAL_NS AP_MAX_BURST (ap_cap (m_ap b)) (ap_prev (m_ap b)) (t - ap_start (m_ap b))) as [[c' p'] v].
  destruct Hcap as (Hc' & Hp' & _).
  destruct v.
  - set (b1 := mk_mbar (m_pos b) (m_len b) (m_msg b) (mk_ap c' p' (ap_start (m_ap b))) (m_shown b)).
    destruct (request_gen I multi r bars k b1 t Hok HIeq Hp) as (r' & b' & fr & Hreq & Hap & Hok' & HI' & Hp1 & Hnone).
    rewrite Hreq. exists r', b', true, fr. split; [reflexivity|].
    rewrite Hap. cbn [b1 m_ap ap_cap ap_prev ap_start].
    splits; try assumption; try reflexivity.
    intros Hn. destruct (Hnone Hn) as (Hr & Hc0 & Hlt). split; [exact Hr|]. left. split; assumption.
  - destruct Hs as (-> & -> & Hc0 & Hlt).
    cbn [s_multi s_rl s_bars].
    exists r, (mk_mbar (m_pos b) (m_len b) (m_msg b) (mk_ap (ap_cap (m_ap b)) (ap_prev (m_ap b)) (ap_start (m_ap b))) (m_shown b)), false, None.
    split; [reflexivity|]. cbn [m_ap ap_cap ap_prev ap_start].
    splits; try assumption; try reflexivity.
    intros _. split; [reflexivity|]. right. splits; try assumption; try reflexivity. lia.
Qed.

Lemma sys_step_gen (I : N) multi r bars b lo t i o :
  rl_ok r -> rl_interval r = I -> rl_prev r <= lo ->
  nth_error bars (N.to_nat i) = Some b ->
  ap_ok (m_ap b) -> ap_start (m_ap b) <= lo -> ap_prev (m_ap b) <= lo - ap_start (m_ap b) ->
  lo <= t -> t < ap_start (m_ap b) + U64 ->
  exists r' b' reached fr,
    sys_step (mk_sys multi (Some r) bars) t i o
    = Ok (mk_sys multi (Some r') (set_nth (N.to_nat i) b' bars), (reached, fr)) /\
    rl_ok r' /\ rl_interval r' = I /\ rl_prev r' <= t /\
    ap_ok (m_ap b') /\ ap_start (m_ap b') = ap_start (m_ap b) /\
    ap_prev (m_ap b') <= t - ap_start (m_ap b) /\
    (fr = None -> r' = r /\
       ((rl_cap r = 0 /\ t < rl_prev r + I) \/
        (ap_cap (m_ap b) = 0 /\ ap_prev (m_ap b') = ap_prev (m_ap b) /\
         t < ap_start (m_ap b) + ap_prev (m_ap b) + AP_INTERVAL_NS))).
Proof.
  intros Hok HIeq Hp Hnth Hapok Hst Hpp Hlo Hu.
  assert (Hp' : rl_prev r <= t) by lia.
  unfold sys_step. cbn [s_bars]. rewrite Hnth.
  destruct o as [d|d|q| |m|l|px| ].
  1-3: match goal with |- context [via_ap _ _ ?x _] =>
         destruct (via_ap_gen I multi r bars (N.to_nat i) x t) as (r' & b' & re & fr & H & H1 & H2 & H3 & H4 & H5 & H6 & H7);
           cbn [with_pos m_ap]; try assumption; try lia;
         exists r', b', re, fr; (split; [exact H|]); cbn [with_pos m_ap] in *; splits; assumption end.
  1-4: match goal with |- context [sys_request _ _ ?x _] =>
         destruct (request_gen I multi r bars (N.to_nat i) x t Hok HIeq Hp') as (r' & b' & fr & Hreq & Hap & Hok' & HI' & Hp1 & Hnone);
         rewrite Hreq; exists r', b', true, fr; (split; [reflexivity|]);
         rewrite Hap; cbn [m_ap]; splits; try assumption; try reflexivity; try lia;
         intros Hn; destruct (Hnone Hn) as (Hr & Hc0 & Hlt); (split; [exact Hr|]); left; split; assumption end.
  match goal with |- context [sys_request _ _ ?x _] =>
    destruct (request_gen I multi r bars (N.to_nat i) x t Hok HIeq Hp') as (r' & b' & fr & Hreq & Hap & Hok' & HI' & Hp1 & Hnone) end.
  rewrite Hreq. exists r', b', false, fr. split; [reflexivity|].
  assert (Hmod : (t - ap_start (m_ap b)) mod U64 = t - ap_start (m_ap b)) by (apply N.mod_small; lia).
  rewrite Hap. cbn [m_ap ap_reset ap_cap ap_prev ap_start].
  splits; try assumption; try reflexivity; try lia.
  intros Hn. destruct (Hnone Hn) as (Hr & Hc0 & Hlt). split; [exact Hr|]. left. split; assumption.
Qed.

(* invariant of the system: the limiter invariants of the target and of every bar, plus – relative
   to the instant [f] of the last painted frame – what a frameless stretch preserves *)
(* [lo0] = the instant at which the (fresh) target was attached.  While no frame has been painted
   no call has reached the target (its first request is always painted), so every bar's position
   limiter is still as it was at [lo0]: fresh enough to let an update through, or with a `prev`
   not later than [lo0] *)
Definition sys_J (I lo0 : N) (r : rl) (bars : list mbar) (lo : N) (ts : list N) (lp : option N) : Prop :=
  rl_ok r /\ rl_interval r = I /\ rl_prev r <= lo /\
  Forall (bar_inv lo ts) bars /\
  match lp with
  | None => 0 < rl_cap r /\
            Forall (fun b => 0 < ap_cap (m_ap b) \/ ap_start (m_ap b) + ap_prev (m_ap b) <= lo0) bars
  | Some f => f <= lo /\ rl_prev r <= f /\
              Forall (fun b => ap_start (m_ap b) + ap_prev (m_ap b) < f + I) bars /\
              lo < f + I + AP_INTERVAL_NS
  end.

Lemma bar_inv_mono lo t x ts b : lo <= t -> bar_inv lo (x :: ts) b -> bar_inv t ts b.
Proof.
  intros Hlo (H1 & H2 & H3 & H4). unfold bar_inv. splits; try assumption; try lia.
  intros t' Ht'. apply H4. right. exact Ht'.
Qed.

Lemma sys_run_age (I lo0 : N) (HI : 0 < I) multi ops : forall r bars lo lp,
  sys_J I lo0 r bars lo (map op_time ops) lp -> nondec lo (map op_time ops) ->
  ops_valid (length bars) ops -> ops <> [] ->
  (lp = None -> Forall (fun b => 0 < ap_cap (m_ap b)) bars
                \/ lo0 + AP_INTERVAL_NS <= last (map op_time ops) 0) ->
  exists f, last_paint lp (map op_time ops) (sys_run (mk_sys multi (Some r) bars) ops) = Some f
            /\ f <= last (map op_time ops) 0 /\ last (map op_time ops) 0 < f + I + AP_INTERVAL_NS.
Proof.
  induction ops as [|[[t i] o] rest IH]; intros r bars lo lp HJ Hnd Hval Hne Hpre; [contradiction|].
  destruct HJ as (Hok & HIeq & Hp & Hbars & Hlp).
  cbn [map op_time fst nondec] in Hnd, Hbars, Hlp |- *. destruct Hnd as [Hlo Hnd'].
  inversion Hval as [|c rest' Hi Hval']; subst c rest'. cbn [fst snd] in Hi.
  destruct (nth_error bars (N.to_nat i)) as [b|] eqn:Enth; [|apply nth_error_None in Enth; lia].
  destruct (nth_error_Forall _ _ _ _ Hbars Enth) as (Hapok & Hst & Hpp & Hu64).
  assert (Hut : t < ap_start (m_ap b) + U64) by (apply Hu64; left; reflexivity).
  destruct (sys_step_gen I multi r bars b lo t i o Hok HIeq Hp Enth Hapok Hst Hpp Hlo Hut)
    as (r' & b' & reached & fr & Hstep & Hok' & HI' & Hp' & Hapok' & Hst' & Hpp' & Hnone).
  cbn [sys_run]. rewrite Hstep. cbn [last_paint].
  set (bars' := set_nth (N.to_nat i) b' bars).
  set (lp' := match fr with Some _ => Some t | None => lp end).
  assert (Hb't : bar_inv t (map op_time rest) b').
  { unfold bar_inv. rewrite Hst'. splits; try assumption; try lia.
    intros t' Ht'. apply Hu64. right. exact Ht'. }
  assert (Hbars' : Forall (bar_inv t (map op_time rest)) bars').
  { apply Forall_set_nth; [|exact Hb't].
    eapply Forall_impl; [|exact Hbars]. intros x Hx. exact (bar_inv_mono lo t _ _ x Hlo Hx). }
  assert (Hle : Forall (fun x => ap_start (m_ap x) + ap_prev (m_ap x) <= lo) bars).
  { eapply Forall_impl; [|exact Hbars]. intros x (_ & Hx1 & Hx2 & _). lia. }
  assert (HJ' : sys_J I lo0 r' bars' t (map op_time rest) lp').
  { unfold sys_J. splits; try assumption; try lia.
    unfold lp'. destruct fr as [x|].
    - splits; try lia. apply Forall_set_nth; [|rewrite Hst'; lia].
      eapply Forall_impl; [|exact Hle]. cbn beta. intros y Hy. lia.
    - destruct (Hnone eq_refl) as (-> & Hcase). destruct lp as [f|].
      + destruct Hlp as (Hf1 & Hf2 & Hf3 & Hf4).
        pose proof (nth_error_Forall _ _ _ _ Hf3 Enth) as Hf3b. cbn beta in Hf3b.
        destruct Hcase as [(Hc0 & Hlt) | (Hc0 & Hpeq & Hlt)]; splits; try lia;
          (apply Forall_set_nth; [exact Hf3 | rewrite Hst'; lia]).
      + destruct Hlp as (Hc1 & Hc2).
        pose proof (nth_error_Forall _ _ _ _ Hc2 Enth) as Hc2b. cbn beta in Hc2b.
        destruct Hcase as [(Hc0 & _) | (Hc0 & Hpeq & _)]; [lia|].
        split; [exact Hc1|]. apply Forall_set_nth; [exact Hc2|].
        right. rewrite Hst', Hpeq. lia. }
  destruct rest as [|op2 rest'].
  - cbn [map sys_run last_paint last].
    destruct HJ' as (_ & _ & _ & _ & Hlp'). unfold lp' in *.
    destruct fr as [x|].
    + exists t. splits; try reflexivity; lia.
    + destruct lp as [f|]; [exists f; splits; try reflexivity; lia|].
      destruct (Hnone eq_refl) as (_ & Hcase). destruct Hlp as (Hc1 & Hc2).
      pose proof (nth_error_Forall _ _ _ _ Hc2 Enth) as Hc2b. cbn beta in Hc2b.
      destruct Hcase as [(Hc0 & _) | (Hc0 & _ & Hlt)]; [lia|].
      destruct (Hpre eq_refl) as [Hall | Hlate].
      * pose proof (nth_error_Forall _ _ _ _ Hall Enth) as Hb0. cbn beta in Hb0. lia.
      * cbn [map last op_time fst] in Hlate. lia.
  - assert (Hval2 : ops_valid (length bars') (op2 :: rest')).
    { unfold bars'. rewrite set_nth_length. exact Hval'. }
    assert (Hpre' : lp' = None -> Forall (fun b0 => 0 < ap_cap (m_ap b0)) bars'
                                  \/ lo0 + AP_INTERVAL_NS <= last (map op_time (op2 :: rest')) 0).
    { unfold lp'. destruct fr as [x|]; [discriminate|]. intros ->.
      destruct (Hnone eq_refl) as (_ & Hcase). destruct Hlp as (Hc1 & Hc2).
      destruct (Hpre eq_refl) as [Hall | Hlate].
      - pose proof (nth_error_Forall _ _ _ _ Hall Enth) as Hb0. cbn beta in Hb0.
        destruct Hcase as [(Hc0 & _) | (Hc0 & _)]; lia.
      - right. exact Hlate. }
    destruct (IH r' bars' t lp' HJ' Hnd' Hval2) as (f & Hf1 & Hf2 & Hf3); [discriminate | exact Hpre' |].
    exists f. split; [exact Hf1|].
    change (last (t :: map op_time (op2 :: rest')) 0) with (last (map op_time (op2 :: rest')) 0).
    split; assumption.
Qed.

(* FRAME AGE, MultiProgress (any number of members; s_multi = false with one bar is the
   stand-alone theorem again): at the instant of every call on any member, a frame has been
   painted - triggered by whichever member - and the most recent one is younger than one refresh
   interval plus 1 ms *)
Theorem sys_frame_age multi R t0 lo bars ops : 1 <= R <= 255 -> t0 <= lo ->
  (forall tb l, In (tb, l) bars -> tb <= lo) ->
  ops <> [] -> ops_valid (length bars) ops -> nondec lo (map op_time ops) ->
  (forall t tb l, In t (map op_time ops) -> In (tb, l) bars -> t < tb + U64) ->
  exists f, last_paint None (map op_time ops) (sys_run (sys_new (multi, Some R, t0, bars)) ops) = Some f
            /\ f <= last (map op_time ops) 0
            /\ last (map op_time ops) 0 < f + rl_interval_of R + 1000000.
Proof.
  intros HR Ht0 Htb Hne Hval Hnd Hu.
  destruct (rl_interval_facts R HR) as (HI & _).
  pose proof (rl_new_ok R t0 HR) as Hok.
  unfold sys_new. cbn [option_map].
  set (mb := map (fun '(tb, l) => mk_mbar 0 l 0 (ap_new tb) None) bars).
  assert (Hfresh : Forall (fun b => 0 < ap_cap (m_ap b)) mb).
  { unfold mb. apply Forall_forall. intros x Hx. apply in_map_iff in Hx.
    destruct Hx as ([tb l] & <- & Hin). cbn [m_ap ap_new ap_cap]. rewrite APB. lia. }
  assert (HJ : sys_J (rl_interval_of R) lo (rl_new R t0) mb lo (map op_time ops) None).
  { unfold sys_J. splits; try assumption; try reflexivity.
    - unfold mb. apply Forall_forall. intros x Hx. apply in_map_iff in Hx.
      destruct Hx as ([tb l] & <- & Hin). unfold bar_inv. cbn [m_ap ap_new ap_start ap_prev].
      splits; [apply ap_new_ok | apply (Htb tb l Hin) | lia |].
      intros t Ht. apply (Hu t tb l Ht Hin).
    - eapply Forall_impl; [|exact Hfresh]. intros x Hx. left. exact Hx. }
  assert (Hval' : ops_valid (length mb) ops) by (unfold mb; rewrite map_length; exact Hval).
  pose proof (sys_run_age (rl_interval_of R) lo HI multi ops _ mb lo None HJ Hnd Hval' Hne
                          (fun _ => or_introl Hfresh)) as H.
  rewrite API in H. exact H.
Qed.

(** ** Part 8: a draw target attached late (set_draw_target), model/Limiter.v [late_run] *)

Lemma late_run_nil c ops : late_run c [] ops = sys_run (sys_new c) ops.
Proof. destruct c as [[[multi rate] t0] bars]. reflexivity. Qed.

Lemma bar_inv_lo_mono lo t ts b : lo <= t -> bar_inv lo ts b -> bar_inv t ts b.
Proof. intros Hlo (H1 & H2 & H3 & H4). unfold bar_inv. splits; try assumption; lia. Qed.

(* one call on a bar whose target paints everything (= bar side of a call on a hidden target) *)
Lemma sys_step_free multi bars b lo t i o :
  nth_error bars (N.to_nat i) = Some b ->
  ap_ok (m_ap b) -> ap_start (m_ap b) <= lo -> ap_prev (m_ap b) <= lo - ap_start (m_ap b) ->
  lo <= t -> t < ap_start (m_ap b) + U64 ->
  exists b' out,
    sys_step (mk_sys multi None bars) t i o = Ok (mk_sys multi None (set_nth (N.to_nat i) b' bars), out) /\
    ap_ok (m_ap b') /\ ap_start (m_ap b') = ap_start (m_ap b) /\
    ap_prev (m_ap b') <= t - ap_start (m_ap b).
Proof.
  intros Hnth Hapok Hst Hpp Hlo Hu.
  assert (Hreq : forall x, exists x' fr,
            sys_request (mk_sys multi None bars) (N.to_nat i) x t
            = Ok (mk_sys multi None (set_nth (N.to_nat i) x' bars), fr) /\ m_ap x' = m_ap x).
  { intros x. unfold sys_request. cbn [s_multi s_rl s_bars rl_opt_allow].
    destruct multi; eexists _, _; split; reflexivity. }
  unfold sys_step. cbn [s_bars]. rewrite Hnth.
  assert (HI : 0 < AP_INTERVAL_NS) by (rewrite API; lia).
  assert (HB : 0 < AP_MAX_BURST) by (rewrite APB; lia).
  assert (Hpt : ap_prev (m_ap b) <= t - ap_start (m_ap b)) by lia.
  destruct o as [d|d|q| |m|l|px| ].
  1-3: unfold via_ap; cbn [with_pos m_ap m_pos m_len m_msg m_shown];
    rewrite (ap_allow_tb (m_ap b) t Hapok) by lia;
    pose proof (tb_step_cap _ _ HI HB _ _ _ Hpt Hapok) as Hcap;
    destruct (tb_step AP_INTERVAL_NS AP_MAX_BURST (ap_cap (m_ap b)) (ap_prev (m_ap b)) (t - ap_start (m_ap b))) as [[c' p'] v];
    destruct Hcap as (Hc' & Hp' & _);
    (destruct v;
     [ match goal with |- context [sys_request _ _ ?x _] => destruct (Hreq x) as (x' & fr & -> & Hap) end;
       eexists x', _; (split; [reflexivity|]); rewrite Hap; cbn [m_ap ap_cap ap_prev ap_start];
       splits; try assumption; reflexivity
     | cbn [s_multi s_rl s_bars]; eexists _, _; (split; [reflexivity|]); cbn [m_ap ap_cap ap_prev ap_start];
       splits; try assumption; reflexivity ]).
  1-4: match goal with |- context [sys_request _ _ ?x _] => destruct (Hreq x) as (x' & fr & -> & Hap) end;
       eexists x', _; (split; [reflexivity|]); rewrite Hap; cbn [m_ap]; splits; try assumption; try reflexivity; lia.
  match goal with |- context [sys_request _ _ ?x _] => destruct (Hreq x) as (x' & fr & -> & Hap) end.
  eexists x', _. split; [reflexivity|]. rewrite Hap. cbn [m_ap ap_reset ap_cap ap_prev ap_start].
  rewrite (N.mod_small (t - ap_start (m_ap b)) U64) by lia.
  splits; try assumption; try reflexivity; lia.
Qed.

Lemma last_cons_default {A} (l : list A) : forall x d d', last (x :: l) d = last (x :: l) d'.
Proof.
  induction l as [|y l IH]; intros x d d'; [reflexivity|].
  change (last (x :: y :: l) d) with (last (y :: l) d).
  change (last (x :: y :: l) d') with (last (y :: l) d'). apply IH.
Qed.

Lemma sys_exec_free multi ops : forall bars lo ts2,
  Forall (bar_inv lo (map op_time ops ++ ts2)) bars -> nondec lo (map op_time ops) ->
  ops_valid (length bars) ops ->
  exists bars', sys_exec (mk_sys multi None bars) ops = Ok (mk_sys multi None bars') /\
    length bars' = length bars /\ Forall (bar_inv (last (map op_time ops) lo) ts2) bars'.
Proof.
  induction ops as [|[[t i] o] rest IH]; intros bars lo ts2 Hbars Hnd Hval.
  - exists bars. cbn [sys_exec map last app] in *. auto.
  - cbn [map op_time fst nondec app] in Hnd, Hbars. destruct Hnd as [Hlo Hnd'].
    inversion Hval as [|c rest' Hi Hval']; subst c rest'. cbn [fst snd] in Hi.
    destruct (nth_error bars (N.to_nat i)) as [b|] eqn:Enth; [|apply nth_error_None in Enth; lia].
    destruct (nth_error_Forall _ _ _ _ Hbars Enth) as (Hapok & Hst & Hpp & Hu64).
    assert (Hut : t < ap_start (m_ap b) + U64) by (apply Hu64; left; reflexivity).
    destruct (sys_step_free multi bars b lo t i o Enth Hapok Hst Hpp Hlo Hut)
      as (b' & out & Hstep & Hapok' & Hst' & Hpp').
    cbn [sys_exec]. rewrite Hstep.
    set (bars1 := set_nth (N.to_nat i) b' bars).
    assert (Hbars1 : Forall (bar_inv t (map op_time rest ++ ts2)) bars1).
    { apply Forall_set_nth.
      - eapply Forall_impl; [|exact Hbars]. intros x Hx. exact (bar_inv_mono lo t _ _ x Hlo Hx).
      - unfold bar_inv. rewrite Hst'. splits; try assumption; try lia.
        intros t' Ht'. apply Hu64. right. exact Ht'. }
    assert (Hval1 : ops_valid (length bars1) rest) by (unfold bars1; rewrite set_nth_length; exact Hval').
    destruct (IH bars1 t ts2 Hbars1 Hnd' Hval1) as (bars' & Hex & Hlen & Hfin).
    exists bars'. split; [exact Hex|]. split; [unfold bars1 in Hlen; rewrite set_nth_length in Hlen; exact Hlen|].
    cbn [map op_time fst]. destruct rest as [|c2 rest2]; [exact Hfin|].
    change (last (t :: map op_time (c2 :: rest2)) lo) with (last (map op_time (c2 :: rest2)) lo).
    cbn [map] in Hfin |- *. rewrite (last_cons_default _ _ lo t). exact Hfin.
Qed.

Lemma last_paint_hidden ts : forall (outs : list (bool * option (list frame))) acc ts2 vs2,
  length outs = length ts ->
  last_paint acc (ts ++ ts2) (map hide (map Ok outs) ++ vs2) = last_paint acc ts2 vs2.
Proof.
  induction ts as [|t r IH]; intros outs acc ts2 vs2 Hlen; destruct outs as [|[re fr] outs']; try discriminate Hlen.
  - reflexivity.
  - cbn [map app hide last_paint]. apply IH. injection Hlen as Hlen. exact Hlen.
Qed.

Lemma last_paint_In ts : forall vs acc f, last_paint acc ts vs = Some f -> acc = Some f \/ In f ts.
Proof.
  induction ts as [|t r IH]; intros vs acc f H; cbn [last_paint] in H; [left; exact H|].
  destruct vs as [|v vr]; [left; exact H|].
  destruct (IH _ _ _ H) as [Ha | Hin]; [|right; right; exact Hin].
  destruct v as [[re [x|]]|k]; try (left; exact Ha). injection Ha as <-. right. left. reflexivity.
Qed.

Lemma nondec_In ts : forall lo t, nondec lo ts -> In t ts -> lo <= t.
Proof.
  induction ts as [|x r IH]; intros lo t Hnd Hin; [destruct Hin|].
  cbn [nondec] in Hnd. destruct Hnd as [H1 H2]. destruct Hin as [<- | Hin]; [exact H1|].
  specialize (IH _ _ H2 Hin). lia.
Qed.

Lemma last_In_nondec ts : forall lo, nondec lo ts -> lo <= last ts lo.
Proof.
  induction ts as [|x r IH]; intros lo Hnd; cbn [last]; [lia|].
  cbn [nondec] in Hnd. destruct Hnd as [H1 H2]. destruct r as [|y r']; [exact H1|].
  specialize (IH x H2).
  rewrite (last_cons_default _ _ lo x). lia.
Qed.

Lemma last_le ts : forall d x, d <= x -> (forall t, In t ts -> t <= x) -> last ts d <= x.
Proof.
  induction ts as [|y r IH]; intros d x Hd Hall; cbn [last]; [exact Hd|].
  destruct r as [|z r']; [apply Hall; left; reflexivity|].
  apply IH; [exact Hd|]. intros t Ht. apply Hall. right. exact Ht.
Qed.

(* FRAME AGE AFTER A LATE ATTACH.  A stand-alone bar created at [tb] on a hidden target receives
   the calls [pre] (whatever they do to its position limiter); at [t0] a target with refresh rate
   R is attached; then the calls [ops].  At the instant of every call that comes at least 1 ms
   after the attach a frame has been painted SINCE the attach and the most recent one is younger
   than one refresh interval plus 1 ms. *)
Theorem late_frame_age R t0 tb len0 pre ops : 1 <= R <= 255 -> tb <= t0 ->
  nondec tb (map op_time pre) -> (forall t, In t (map op_time pre) -> t <= t0) ->
  ops_valid 1 pre -> ops_valid 1 ops -> ops <> [] -> nondec t0 (map op_time ops) ->
  (forall t, In t (map op_time (pre ++ ops)) -> t < tb + U64) ->
  t0 + 1000000 <= last (map op_time ops) 0 ->
  exists f, last_paint None (map op_time (pre ++ ops))
              (late_run (false, Some R, t0, [(tb, len0)]) pre ops) = Some f
            /\ t0 <= f /\ f <= last (map op_time ops) 0
            /\ last (map op_time ops) 0 < f + rl_interval_of R + 1000000.
Proof.
  intros HR Htb Hndp Hple Hvalp Hvalo Hne Hndo Hu Hlate.
  destruct (rl_interval_facts R HR) as (HI & _).
  unfold late_run, sys_new. cbn [option_map map].
  set (b0 := mk_mbar 0 len0 0 (ap_new tb) None).
  assert (Hb0 : Forall (bar_inv tb (map op_time pre ++ map op_time ops)) [b0]).
  { constructor; [|constructor]. unfold bar_inv, b0. cbn [m_ap ap_new ap_start ap_prev].
    splits; [apply ap_new_ok | lia | lia |]. intros t Ht. apply Hu. rewrite map_app. exact Ht. }
  destruct (sys_exec_free false pre [b0] tb (map op_time ops) Hb0 Hndp Hvalp) as (bars1 & Hex & Hlen & Hfin).
  assert (Hok0 : sys_ok (mk_sys false None [b0])) by exact Logic.I.
  destruct (sys_run_total pre _ Hok0) as (outs & s1 & Hrun & Hlo & _).
  rewrite Hex, Hrun. unfold sys_attach. cbn [s_multi s_bars option_map].
  rewrite map_app, last_paint_hidden by (rewrite map_length; exact Hlo).
  pose proof (last_le (map op_time pre) tb t0 Htb Hple) as Hlast.
  assert (Hbars1 : Forall (bar_inv t0 (map op_time ops)) bars1).
  { eapply Forall_impl; [|exact Hfin]. intros x Hx. exact (bar_inv_lo_mono _ t0 _ x Hlast Hx). }
  pose proof (rl_new_ok R t0 HR) as Hok.
  assert (HJ : sys_J (rl_interval_of R) t0 (rl_new R t0) bars1 t0 (map op_time ops) None).
  { unfold sys_J. splits; try assumption; try reflexivity.
    eapply Forall_impl; [|exact Hbars1]. intros x (_ & Hx1 & Hx2 & _). right. lia. }
  assert (Hvalo' : ops_valid (length bars1) ops) by (rewrite Hlen; exact Hvalo).
  assert (Hpre : @None N = None -> Forall (fun b => 0 < ap_cap (m_ap b)) bars1
                                \/ t0 + AP_INTERVAL_NS <= last (map op_time ops) 0).
  { intros _. right. rewrite API. exact Hlate. }
  destruct (sys_run_age (rl_interval_of R) t0 HI false ops _ bars1 t0 None HJ Hndo Hvalo' Hne Hpre)
    as (f & Hf1 & Hf2 & Hf3).
  exists f. rewrite API in Hf3. splits; try assumption.
  destruct (last_paint_In _ _ _ _ Hf1) as [Hn | Hin]; [discriminate Hn|].
  exact (nondec_In _ _ _ Hndo Hin).
Qed.

(* ... and the 1 ms are needed: ten inc at 0.4 ms on the hidden target drain the bar's position
   limiter; a 1 Hz target is attached at 0.5 ms; the inc at 0.5 ms and at 0.9 ms are both
   swallowed by the bar's own limiter (its `prev` is 0, the next token matures at 1 ms): no frame
   although the target's bucket is full.  (The audit's counterexample, docs/AUDIT3.md finding 25.) *)
Theorem late_frame_age_refuted :
  let pre := map (fun _ : nat => (400000, 0, OInc 1)) (seq 0 10) in
  let ops := [(500000, 0, OInc 1); (900000, 0, OInc 1)] in
  (* every hypothesis of the _partial theorem for R = 1, tb = 0, t0 = 500000 ... *)
  1 <= 1 <= 255 /\ 0 <= 500000 /\
  nondec 0 (map op_time pre) /\ (forall t, In t (map op_time pre) -> t <= 500000) /\
  ops_valid 1 pre /\ ops_valid 1 ops /\ ops <> [] /\ nondec 500000 (map op_time ops) /\
  (forall t, In t (map op_time (pre ++ ops)) -> t < 0 + U64) /\
  (* ... except the last one: the last call comes less than 1 ms after the attach ... *)
  last (map op_time ops) 0 < 500000 + 1000000 /\
  (* ... and no frame has been painted *)
  last_paint None (map op_time (pre ++ ops))
    (late_run (false, Some 1, 500000, [(0, 100)]) pre ops) = None.
Proof.
  cbv zeta.
  split; [lia|]. split; [lia|].
  split; [vm_compute; repeat split; discriminate|].
  split.
  { intros t Ht. vm_compute in Ht. repeat (destruct Ht as [<- | Ht]; [lia|]). destruct Ht. }
  split; [unfold ops_valid; vm_compute; repeat constructor|].
  split; [unfold ops_valid; vm_compute; repeat constructor|].
  split; [discriminate|].
  split; [vm_compute; repeat split; discriminate|].
  split.
  { intros t Ht. vm_compute in Ht. rewrite U64v.
    repeat (destruct Ht as [<- | Ht]; [lia|]). destruct Ht. }
  split; [vm_compute; reflexivity|].
  vm_compute. reflexivity.
Qed.
