(** Proofs for model/MultiInterleave.v, part 2: the critical sections of add / insert*.
    Main result [sections_atomic]: under the schedule condition [sched_ok] a history of critical
    sections reaches the same states and emits the same TermLike calls as the atomic history
    [atomize h] (every add/insert* placed at its allocation section). *)
From IndModel Require Import MultiInterleave.
From IndProofs Require Import MultiProofs.
From Coq Require Import List NArith Lia Bool.
Import ListNotations.
Open Scope N_scope.

(* ------------------------------------------------------------------ retarget commutes with everything that does not touch the bar *)
Lemma updN_comm {A} (l : list A) i j f g : i <> j -> updN (updN l i f) j g = updN (updN l j g) i f.
Proof.
  revert i j. induction l as [|x r IH]; intros [|i] [|j] Hn; cbn; try reflexivity; try congruence.
  f_equal. apply IH. congruence.
Qed.

Lemma rt_get_other s b t x : x <> b -> get_bar (retarget s b t) x = get_bar s x.
Proof. intros Hn. unfold retarget. apply get_upd_other. congruence. Qed.

Lemma rt_upd s b t x f : x <> b -> upd_bar (retarget s b t) x f = retarget (upd_bar s x f) b t.
Proof.
  intros Hn. unfold retarget, upd_bar, set_s_bars. cbn [s_bars s_mp s_calls]. f_equal.
  apply updN_comm. intros E. apply Hn. apply N2Nat.inj. symmetry. exact E.
Qed.

Lemma rt_comm s b1 t1 b2 t2 : b1 <> b2 -> retarget (retarget s b1 t1) b2 t2 = retarget (retarget s b2 t2) b1 t1.
Proof. intros Hn. unfold retarget at 1 3. apply rt_upd. congruence. Qed.

Lemma rt_mp s b t : s_mp (retarget s b t) = s_mp s. Proof. reflexivity. Qed.
Lemma rt_calls s b t : s_calls (retarget s b t) = s_calls s. Proof. reflexivity. Qed.
Lemma rt_set_mp s b t m : set_s_mp (retarget s b t) m = retarget (set_s_mp s m) b t. Proof. reflexivity. Qed.
Lemma rt_set_calls s b t c : set_s_calls (retarget s b t) c = retarget (set_s_calls s c) b t. Proof. reflexivity. Qed.

(** a bar whose target is re-set to what it is: nothing changes *)
Lemma rt_same s b : retarget s b (b_target (get_bar s b)) = s.
Proof.
  unfold retarget, upd_bar, get_bar, nthN, set_s_bars. destruct s as [bars mp c]. cbn [s_bars s_mp s_calls]. f_equal.
  generalize (N.to_nat b) as i. induction bars as [|x r IH]; intros [|i]; cbn; try reflexivity.
  - destruct x; reflexivity.
  - f_equal. apply IH.
Qed.

Definition rt2 (b : N) (t : target) (r : sys * list termop) : sys * list termop := (retarget (fst r) b t, snd r).
Definition rt3 (b : N) (t : target) (r : sys * list termop * bool) : sys * list termop * bool :=
  (retarget (fst (fst r)) b t, snd (fst r), snd r).

Section Frame.
  Variable W H : N.
  Variable fails : N -> bool.

  Lemma bar_draw_rt s b t x force now : x <> b ->
    bar_draw W H fails (retarget s b t) x force now = rt2 b t (bar_draw W H fails s x force now).
  Proof.
    intros Hn. unfold bar_draw, rt2. rewrite rt_get_other by exact Hn. rewrite rt_mp, rt_calls.
    destruct (b_target (get_bar s x)) as [|tg|idx]; [reflexivity| |].
    - destruct (tt_allow tg (force || finished (get_bar s x)) now) as [[|] tg1]; cbn [negb].
      + destruct (term_draw W H fails tg1 (frame_of (get_bar s x)) (s_calls s)) as [[[tg2 e] c'] ok].
        rewrite rt_upd by exact Hn. reflexivity.
      + rewrite rt_upd by exact Hn. reflexivity.
    - destruct (ms_draw W H fails _ _ None now (s_calls s)) as [[[m2 e] c'] ok]. reflexivity.
  Qed.

  Lemma bar_println_rt s b t x msg now : x <> b ->
    bar_println W H fails (retarget s b t) x msg now = rt2 b t (bar_println W H fails s x msg now).
  Proof.
    intros Hn. unfold bar_println, rt2. rewrite rt_get_other by exact Hn. rewrite rt_mp, rt_calls.
    destruct (b_target (get_bar s x)) as [|tg|idx]; [reflexivity| |].
    - destruct (term_draw W H fails tg _ (s_calls s)) as [[[tg2 e] c'] ok].
      rewrite rt_upd by exact Hn. reflexivity.
    - destruct (ms_draw W H fails _ true None now (s_calls s)) as [[[m2 e] c'] ok]. reflexivity.
  Qed.

  Lemma bar_suspend_rt s b t x ws now : x <> b ->
    bar_suspend W H fails (retarget s b t) x ws now = rt2 b t (bar_suspend W H fails s x ws now).
  Proof.
    intros Hn. unfold bar_suspend, rt2. rewrite rt_get_other by exact Hn. rewrite rt_mp, rt_calls.
    destruct (b_target (get_bar s x)) as [|tg|idx].
    - destruct (emit_each fails (s_calls s) (map TLine ws)) as [e c']. reflexivity.
    - destruct (term_draw W H fails tg [] (s_calls s)) as [[[tg1 e1] c1] ok1].
      destruct (emit_each fails c1 (map TLine ws)) as [e2 c2].
      rewrite rt_upd by exact Hn. rewrite rt_set_calls, bar_draw_rt by exact Hn. unfold rt2.
      destruct (bar_draw W H fails _ x true now) as [s2 e3]. reflexivity.
    - destruct (ms_suspend W H fails (s_mp s) ws now (s_calls s)) as [[m2 e] c']. reflexivity.
  Qed.

  Lemma bar_tick_rt s b t x now : x <> b ->
    bar_tick W H fails (retarget s b t) x now = rt2 b t (bar_tick W H fails s x now).
  Proof. intros Hn. unfold bar_tick. rewrite rt_upd by exact Hn. apply bar_draw_rt. exact Hn. Qed.

  Lemma bar_pos_update_rt s b t x f now : x <> b ->
    bar_pos_update W H fails (retarget s b t) x f now = rt2 b t (bar_pos_update W H fails s x f now).
  Proof.
    intros Hn. unfold bar_pos_update. rewrite rt_upd by exact Hn. rewrite rt_get_other by exact Hn.
    destruct (ap_allow (b_ap (get_bar (upd_bar s x _) x)) now) as [[|] ap'].
    - rewrite rt_upd by exact Hn. apply bar_tick_rt. exact Hn.
    - rewrite rt_upd by exact Hn. reflexivity.
  Qed.

  Lemma bar_finish_rt s b t x k now : x <> b ->
    bar_finish W H fails (retarget s b t) x k now = rt2 b t (bar_finish W H fails s x k now).
  Proof. intros Hn. unfold bar_finish. rewrite rt_upd by exact Hn. apply bar_draw_rt. exact Hn. Qed.

  Lemma mark_zombie_rt s b t x : x <> b ->
    mark_zombie W (retarget s b t) x = retarget (mark_zombie W s x) b t.
  Proof.
    intros Hn. unfold mark_zombie. rewrite rt_get_other by exact Hn.
    destruct (b_target (get_bar s x)); reflexivity.
  Qed.

  Lemma bar_drop_rt s b t x now : x <> b ->
    bar_drop W H fails (retarget s b t) x now = rt2 b t (bar_drop W H fails s x now).
  Proof.
    intros Hn. unfold bar_drop. rewrite rt_get_other by exact Hn.
    destruct (finished (get_bar s x)).
    - unfold rt2. cbn [fst snd]. rewrite mark_zombie_rt, rt_upd by exact Hn. reflexivity.
    - rewrite bar_finish_rt by exact Hn. unfold rt2.
      destruct (bar_finish W H fails s x _ now) as [s1 e]. cbn [fst snd].
      rewrite mark_zombie_rt, rt_upd by exact Hn. reflexivity.
  Qed.

  Lemma bar_set_target_rt s b t x t' now : x <> b ->
    bar_set_target W H fails (retarget s b t) x t' now = rt2 b t (bar_set_target W H fails s x t' now).
  Proof.
    intros Hn. unfold bar_set_target, rt2. rewrite rt_get_other by exact Hn. rewrite rt_mp, rt_calls.
    destruct (b_target (get_bar s x)) as [|tg|idx0].
    - rewrite rt_upd by exact Hn. reflexivity.
    - rewrite rt_upd by exact Hn. reflexivity.
    - destruct (ms_draw W H fails _ true None now (s_calls s)) as [[[m2 e] c'] ok].
      rewrite rt_set_mp, rt_set_calls, rt_upd by exact Hn. reflexivity.
  Qed.

  Lemma mentions_bar o b x : mentions o b = false -> op_bar o = Some x -> x <> b.
  Proof.
    unfold mentions. intros Hm Hb. rewrite Hb in Hm. apply orb_false_elim in Hm. destruct Hm as [Hm _].
    apply N.eqb_neq. exact Hm.
  Qed.

  (** a call that does not go through a handle of [b] does not see [b]'s draw target and leaves it alone *)
  Theorem step_retarget s b t now o : mentions o b = false ->
    step W H fails (retarget s b t) now o = rt3 b t (step W H fails s now o).
  Proof.
    intros Hm.
    assert (Hx : forall x, op_bar o = Some x -> x <> b) by (intros x; apply mentions_bar; exact Hm).
    assert (R2 : forall (r1 r2 : sys * list termop), r1 = rt2 b t r2 ->
              (fst r1, snd r1, true) = rt3 b t (fst r2, snd r2, true)).
    { intros r1 r2 ->. reflexivity. }
    destruct o; cbn [step];
      try (apply R2; first [ apply bar_tick_rt | apply bar_pos_update_rt | apply bar_println_rt
                           | apply bar_suspend_rt | apply bar_finish_rt | apply bar_drop_rt
                           | rewrite rt_upd by (apply Hx; reflexivity); apply bar_draw_rt
                           | apply bar_draw_rt ];
           apply Hx; reflexivity).
    - (* OSetStyle *) rewrite rt_upd by (apply Hx; reflexivity). reflexivity.
    - (* OResetEta *) reflexivity.
    - reflexivity.
    - (* OFinishUsingStyle *)
      rewrite rt_get_other by (apply Hx; reflexivity). apply R2. apply bar_finish_rt. apply Hx. reflexivity.
    - (* OInsert *)
      assert (Hb0 : b0 <> b) by (apply Hx; reflexivity).
      assert (Hloc : match loc with
                     | BAfter r | BBefore r => get_bar (retarget s b t) r = get_bar s r
                     | _ => True
                     end).
      { unfold mentions in Hm. apply orb_false_elim in Hm. destruct Hm as [_ Hm].
        destruct loc; try exact I; apply rt_get_other, N.eqb_neq; exact Hm. }
      assert (Fin : forall ol : option iloc,
                match match ol with Some l => ms_insert (s_mp s) l | None => None end with
                | Some (m1, idx) =>
                    (fst (bar_set_target W H fails (set_s_mp (retarget s b t) m1) b0 (TMulti idx) now),
                     snd (bar_set_target W H fails (set_s_mp (retarget s b t) m1) b0 (TMulti idx) now), true)
                | None => (retarget s b t, [], true)
                end
                = rt3 b t
                    match match ol with Some l => ms_insert (s_mp s) l | None => None end with
                    | Some (m1, idx) =>
                        (fst (bar_set_target W H fails (set_s_mp s m1) b0 (TMulti idx) now),
                         snd (bar_set_target W H fails (set_s_mp s m1) b0 (TMulti idx) now), true)
                    | None => (s, [], true)
                    end).
      { intros [l0|]; [|reflexivity]. destruct (ms_insert (s_mp s) l0) as [[m1 idx]|]; [|reflexivity].
        rewrite rt_set_mp, bar_set_target_rt by exact Hb0. unfold rt2, rt3.
        destruct (bar_set_target W H fails (set_s_mp s m1) b0 (TMulti idx) now) as [s1 e]. reflexivity. }
      rewrite rt_mp, (rt_get_other s b t b0 Hb0).
      destruct (b_target (get_bar s b0)) as [|tg0|i0]; [| |reflexivity].
      all: destruct loc as [|i|i|r|r];
        [ exact (Fin (Some LEnd)) | exact (Fin (Some (LIndex i))) | exact (Fin (Some (LFromBack i)))
        | rewrite Hloc; exact (Fin (match b_target (get_bar s r) with TMulti i => Some (LAfter i) | _ => None end))
        | rewrite Hloc; exact (Fin (match b_target (get_bar s r) with TMulti i => Some (LBefore i) | _ => None end)) ].
    - (* ORemove *)
      assert (Hb0 : b0 <> b) by (apply Hx; reflexivity).
      rewrite rt_get_other by exact Hb0.
      destruct (b_target (get_bar s b0)) as [|tg|idx]; try reflexivity.
      rewrite rt_upd by exact Hb0. rewrite rt_mp, rt_calls.
      destruct (ms_draw W H fails _ true None now _) as [[[m2 e] c'] ok]. reflexivity.
    - (* OMPrintln *)
      rewrite rt_mp, rt_calls.
      destruct (ms_draw W H fails (s_mp s) true _ now (s_calls s)) as [[[m2 e] c'] ok]. reflexivity.
    - rewrite rt_mp, rt_calls.
      destruct (ms_suspend W H fails (s_mp s) ws now (s_calls s)) as [[m2 e] c']. reflexivity.
    - rewrite rt_mp, rt_calls.
      destruct (ms_clear W H fails (s_mp s) (s_calls s)) as [[[m2 e] c'] ok]. reflexivity.
    - reflexivity.
  Qed.
End Frame.

(* ------------------------------------------------------------------ pending entries *)
Definition pbars (pend : list pent) : list N := map pe_bar pend.

Lemma pending_false pend x : pending_bar pend x = false <-> ~ In x (pbars pend).
Proof.
  unfold pending_bar, pbars. induction pend as [|p r IH]; cbn; [tauto|].
  rewrite orb_false_iff, IH, N.eqb_neq. intuition congruence.
Qed.

Lemma retargets_cons p pend s :
  retargets (p :: pend) s = retargets pend (retarget s (pe_bar p) (TMulti (pe_slot p))).
Proof. reflexivity. Qed.

Lemma retargets_mp pend : forall s, s_mp (retargets pend s) = s_mp s.
Proof. induction pend as [|p r IH]; intros s; [reflexivity|]. rewrite retargets_cons, IH. reflexivity. Qed.
Lemma retargets_calls pend : forall s, s_calls (retargets pend s) = s_calls s.
Proof. induction pend as [|p r IH]; intros s; [reflexivity|]. rewrite retargets_cons, IH. reflexivity. Qed.

Lemma retargets_get_other pend x : ~ In x (pbars pend) -> forall s, get_bar (retargets pend s) x = get_bar s x.
Proof.
  induction pend as [|p r IH]; intros Hn s; [reflexivity|]. cbn in Hn.
  rewrite retargets_cons, IH by tauto. apply rt_get_other. intros E. apply Hn. left. congruence.
Qed.

Lemma retargets_rt_comm pend b t : ~ In b (pbars pend) ->
  forall s, retargets pend (retarget s b t) = retarget (retargets pend s) b t.
Proof.
  induction pend as [|p r IH]; intros Hn s; [reflexivity|]. cbn in Hn.
  rewrite !retargets_cons, <- IH by tauto. f_equal. apply rt_comm. intros E. apply Hn. left. congruence.
Qed.

Lemma filter_other pend b : ~ In b (pbars pend) -> filter (fun p => negb (N.eqb (pe_bar p) b)) pend = pend.
Proof.
  induction pend as [|p r IH]; intros Hn; [reflexivity|]. cbn in *.
  destruct (N.eqb_spec (pe_bar p) b) as [E|E]; [exfalso; apply Hn; left; exact E|]. cbn. f_equal. apply IH. tauto.
Qed.

Lemma pbars_filter pend b x : In x (pbars (filter (fun p => negb (N.eqb (pe_bar p) b)) pend)) -> In x (pbars pend) /\ x <> b.
Proof.
  unfold pbars. rewrite !in_map_iff. intros (p & <- & Hp). apply filter_In in Hp. destruct Hp as [Hp Hb].
  apply negb_true_iff, N.eqb_neq in Hb. split; [exists p; auto | exact Hb].
Qed.

Lemma nodup_filter pend b : NoDup (pbars pend) -> NoDup (pbars (filter (fun p => negb (N.eqb (pe_bar p) b)) pend)).
Proof.
  induction pend as [|p r IH]; intros Hn; [constructor|]. cbn in *. inversion Hn as [|? ? Hx Hr]; subst.
  destruct (negb (N.eqb (pe_bar p) b)); [|apply IH; exact Hr].
  cbn. constructor; [|apply IH; exact Hr]. intros Hin. apply pbars_filter in Hin. tauto.
Qed.

Lemma retargets_remove pend k b idx : NoDup (pbars pend) -> In (mkpe k b idx) pend ->
  forall s, retargets pend s
            = retargets (filter (fun p => negb (N.eqb (pe_bar p) b)) pend) (retarget s b (TMulti idx)).
Proof.
  induction pend as [|p r IH]; intros Hn Hin s; [destruct Hin|]. cbn in Hn. inversion Hn as [|? ? Hx Hr]; subst.
  destruct Hin as [->|Hin].
  - cbn [filter pe_bar]. rewrite N.eqb_refl. cbn [negb]. rewrite filter_other by exact Hx. reflexivity.
  - assert (Hne : pe_bar p <> b).
    { intros E. apply Hx. rewrite E. change b with (pe_bar (mkpe k b idx)). apply in_map. exact Hin. }
    cbn [filter]. rewrite (proj2 (N.eqb_neq _ _) Hne). cbn [negb]. rewrite !retargets_cons.
    rewrite (IH Hr Hin). f_equal. apply rt_comm. exact Hne.
Qed.

Section Sim.
  Variable W H : N.
  Variable fails : N -> bool.
  Local Notation step := (step W H fails).
  Local Notation step_sys := (step_sys W H fails).
  Local Notation step_out := (step_out W H fails).
  Local Notation sec_step := (sec_step W H fails).
  Local Notation sec_run := (sec_run W H fails).
  Local Notation run_out := (run_out W H fails).
  Local Notation sched_ok := (sched_ok W H fails).
  Local Notation pend_run := (pend_run W H fails).

  Lemma step_retargets pend now o : (forall p, In p pend -> mentions o (pe_bar p) = false) ->
    forall s, step (retargets pend s) now o
              = (retargets pend (step_sys s now o), step_out s now o, snd (step s now o)).
  Proof.
    induction pend as [|p r IH]; intros Hm s.
    - unfold MultiSpec.step_sys, MultiSpec.step_out. cbn [retargets fold_left].
      destruct (step s now o) as [[s' e] ok]. reflexivity.
    - rewrite retargets_cons, IH by (intros q Hq; apply Hm; right; exact Hq).
      unfold MultiSpec.step_sys, MultiSpec.step_out.
      rewrite (step_retarget W H fails s (pe_bar p) (TMulti (pe_slot p)) now o) by (apply Hm; left; reflexivity).
      unfold rt3. cbn [fst snd]. rewrite retargets_cons. reflexivity.
  Qed.

  (** a call that does not go through a handle of [b] cannot make [b] a member *)
  Lemma step_keeps_nonmember s now o b : mentions o b = false ->
    is_member s b = false -> is_member (step_sys s now o) b = false.
  Proof.
    intros Hm Hb. set (s' := step_sys s now o).
    pose proof (step_retarget W H fails s b (b_target (get_bar s b)) now o Hm) as E.
    rewrite rt_same in E. apply (f_equal (fun r => fst (fst r))) in E. unfold rt3 in E. cbn [fst] in E.
    fold (step_sys s now o) in E. fold s' in E.
    destruct (Nat.lt_ge_cases (N.to_nat b) (length (s_bars s'))) as [Hl|Hl].
    - assert (G : get_bar s' b = get_bar (retarget s' b (b_target (get_bar s b))) b) by (rewrite <- E; reflexivity).
      unfold retarget in G. rewrite get_upd_same in G by exact Hl.
      unfold is_member in *. rewrite G. cbn [b_target set_b_target]. exact Hb.
    - unfold is_member. rewrite get_bar_oob by exact Hl. reflexivity.
  Qed.

  (** add/insert* of a bar that is not a member, as one step: the allocation, then the new target *)
  Lemma insert_nonmember s now bl b : is_member s b = false ->
    step s now (OInsert bl b)
    = match match bloc_iloc s bl with Some l => ms_insert (s_mp s) l | None => None end with
      | Some (m1, idx) => (retarget (set_s_mp s m1) b (TMulti idx), [], true)
      | None => (s, [], true)
      end.
  Proof.
    intros Hb. cbn [Sys.step]. fold (bloc_iloc s bl). unfold is_member in Hb.
    destruct (b_target (get_bar s b)) eqn:Ht; try discriminate Hb;
      (destruct (match bloc_iloc s bl with Some l => ms_insert (s_mp s) l | None => None end) as [[m1 idx]|]; [|reflexivity];
       unfold bar_set_target; change (get_bar (set_s_mp s m1) b) with (get_bar s b); rewrite Ht; reflexivity).
  Qed.

  (** ... of a bar that is a member: no effect (fix bee77c9) *)
  Lemma insert_member s now bl b : is_member s b = true -> step s now (OInsert bl b) = (s, [], true).
  Proof.
    intros Hb. cbn [Sys.step]. unfold is_member in Hb.
    destruct (b_target (get_bar s b)); try discriminate Hb. reflexivity.
  Qed.

  Lemma attach_nonmember s now b idx : is_member s b = false ->
    bar_set_target W H fails s b (TMulti idx) now = (retarget s b (TMulti idx), []).
  Proof.
    intros Hb. unfold bar_set_target. unfold is_member in Hb.
    destruct (b_target (get_bar s b)); try discriminate Hb; reflexivity.
  Qed.

  Record SInv (ss : sys) (pend : list pent) : Prop := mkSI {
    si_nodup : NoDup (pbars pend);
    si_nonmem : forall p, In p pend -> is_member ss (pe_bar p) = false }.

  Lemma sections_sim h : forall ss lc pend, SInv ss pend -> sched_ok ss lc pend h ->
    run_out (retargets pend ss) (atomize h)
    = (retargets (pend_run ss lc pend h) (fst (fst (sec_run (ss, lc) h))), snd (sec_run (ss, lc) h))
    /\ SInv (fst (fst (sec_run (ss, lc) h))) (pend_run ss lc pend h).
  Proof.
    induction h as [|[now x] r IH]; intros ss lc pend SI Hs.
    - cbn. auto.
    - cbn [MultiInterleave.sched_ok] in Hs. destruct Hs as [H1 Hr].
      cbn [MultiInterleave.sec_run MultiInterleave.pend_run].
      change (atomize ((now, x) :: r)) with (atom1 (now, x) ++ atomize r).
      destruct SI as [ND NM].
      destruct x as [o|k rf|k b|k bl b|k b]; cbn [atom1 fst snd app].
      + (* MCall *)
        cbn [MultiInterleave.sched1] in H1. cbn [MultiInterleave.sec_step] in Hr |- *.
        cbn [MultiInterleave.pend_step] in Hr |- *.
        assert (SI' : SInv (step_sys ss now o) pend).
        { constructor; [exact ND|]. intros p Hp. apply step_keeps_nonmember; auto. }
        destruct (IH _ lc pend SI' Hr) as [E SI2].
        cbn [MultiInterleave.run_out]. unfold MultiSpec.step_sys at 1, MultiSpec.step_out at 1.
        rewrite (step_retargets pend now o H1 ss). cbn [fst snd]. rewrite E.
        match goal with |- context [sec_run ?st r] => destruct (sec_run st r) as [[s2 lc2] e2] end. cbn [fst snd]. auto.
      + (* MRead *)
        cbn [MultiInterleave.sec_step] in Hr |- *. cbn [MultiInterleave.pend_step] in Hr |- *.
        destruct (IH ss _ pend (mkSI ss pend ND NM) Hr) as [E SI2]. rewrite E.
        match goal with |- context [sec_run ?st r] => destruct (sec_run st r) as [[s2 lc2] e2] end. cbn [fst snd]. auto.
      + (* MCheck *)
        cbn [MultiInterleave.sec_step] in Hr |- *. cbn [MultiInterleave.pend_step] in Hr |- *.
        destruct (IH ss _ pend (mkSI ss pend ND NM) Hr) as [E SI2]. rewrite E.
        match goal with |- context [sec_run ?st r] => destruct (sec_run st r) as [[s2 lc2] e2] end. cbn [fst snd]. auto.
      + (* MAlloc *)
        cbn [MultiInterleave.sched1] in H1. destruct H1 as (Hpb & Hsk & Hloc).
        apply pending_false in Hpb.
        assert (Eloc : sec_iloc lc k bl = bloc_iloc ss bl).
        { destruct bl as [|i|i|rf|rf]; cbn [sec_iloc bloc_iloc]; try reflexivity;
            destruct Hloc as [_ E0]; rewrite E0; unfold bar_index;
            destruct (b_target (get_bar ss rf)); reflexivity. }
        assert (Hmen : forall p, In p pend -> mentions (OInsert bl b) (pe_bar p) = false).
        { intros p Hp. unfold mentions. cbn [op_bar]. apply orb_false_iff. split.
          - apply N.eqb_neq. intros E. apply Hpb. rewrite E. apply in_map. exact Hp.
          - destruct bl as [|i|i|rf|rf]; try reflexivity; destruct Hloc as [Hrf _]; apply pending_false in Hrf;
              apply N.eqb_neq; intros E; apply Hrf; rewrite E; apply in_map; exact Hp. }
        cbn [MultiInterleave.run_out]. unfold MultiSpec.step_sys at 1, MultiSpec.step_out at 1.
        rewrite (step_retargets pend now _ Hmen ss). cbn [fst snd].
        cbn [MultiInterleave.sec_step] in Hr |- *. cbn [MultiInterleave.pend_step] in Hr |- *.
        unfold sec_alloc in Hr |- *. rewrite Hsk, Eloc in Hr |- *.
        unfold MultiSpec.step_sys, MultiSpec.step_out.
        destruct (is_member ss b) eqn:Hnm.
        * (* the check said "member": no effect on either side *)
          rewrite (insert_member ss now bl b Hnm).
          destruct (IH _ _ _ (mkSI ss pend ND NM) Hr) as [E SI2]. cbn [fst snd]. rewrite E.
          match goal with |- context [sec_run ?st r] => destruct (sec_run st r) as [[s2 lc2] e2] end. cbn [fst snd]. auto.
        * rewrite (insert_nonmember ss now bl b Hnm).
          destruct (match bloc_iloc ss bl with Some l => ms_insert (s_mp ss) l | None => None end) as [[m1 idx]|].
          -- assert (SI' : SInv (set_s_mp ss m1) (mkpe k b idx :: pend)).
             { constructor; [cbn; constructor; assumption|]. intros p [<-|Hp]; [exact Hnm | exact (NM p Hp)]. }
             destruct (IH _ _ _ SI' Hr) as [E SI2]. cbn [fst snd].
             change (retargets pend (retarget (set_s_mp ss m1) b (TMulti idx)))
               with (retargets (mkpe k b idx :: pend) (set_s_mp ss m1)).
             rewrite E.
             match goal with |- context [sec_run ?st r] => destruct (sec_run st r) as [[s2 lc2] e2] end. cbn [fst snd]. auto.
          -- destruct (IH _ _ _ (mkSI ss pend ND NM) Hr) as [E SI2]. cbn [fst snd]. rewrite E.
             match goal with |- context [sec_run ?st r] => destruct (sec_run st r) as [[s2 lc2] e2] end. cbn [fst snd]. auto.
      + (* MAttach *)
        cbn [MultiInterleave.sched1] in H1.
        cbn [MultiInterleave.sec_step] in Hr |- *. cbn [MultiInterleave.pend_step] in Hr |- *.
        destruct H1 as [Hlc|(idx & Hin & Hlc)]; rewrite Hlc in Hr |- *.
        * (* the call returned early (member) or panicked: nothing happens *)
          destruct (IH _ _ _ (mkSI ss pend ND NM) Hr) as [E SI2]. rewrite E.
          match goal with |- context [sec_run ?st r] => destruct (sec_run st r) as [[s2 lc2] e2] end. cbn [fst snd]. auto.
        * pose proof (NM _ Hin) as Hnm. cbn [pe_bar] in Hnm.
          rewrite (attach_nonmember ss now b idx Hnm) in Hr |- *.
          set (pend' := filter (fun p => negb (N.eqb (pe_bar p) b)) pend) in *.
          assert (SI' : SInv (retarget ss b (TMulti idx)) pend').
          { constructor; [apply nodup_filter; exact ND|]. intros p Hp. apply filter_In in Hp. destruct Hp as [Hp Hb].
            apply negb_true_iff, N.eqb_neq in Hb. unfold is_member. rewrite rt_get_other by exact Hb. apply (NM p Hp). }
          destruct (IH _ _ _ SI' Hr) as [E SI2].
          rewrite (retargets_remove pend k b idx ND Hin ss). fold pend'. rewrite E.
          match goal with |- context [sec_run ?st r] => destruct (sec_run st r) as [[s2 lc2] e2] end. cbn [fst snd]. auto.
  Qed.
End Sim.

(* ------------------------------------------------------------------ top-level forms used by props/C02.v *)
Theorem sections_atomic (W H : N) (fails : N -> bool) (h : list (N * mstep)) (s : sys) (lc : locals) :
  sched_ok W H fails s lc [] h ->
  let r := sec_run W H fails (s, lc) h in
  run_out W H fails s (atomize h) = (retargets (pend_run W H fails s lc [] h) (fst (fst r)), snd r).
Proof.
  intros Hs. cbn zeta.
  destruct (sections_sim W H fails h s lc [] (mkSI s [] (NoDup_nil _) (fun p Hp => match Hp with end)) Hs) as [E _].
  exact E.
Qed.

(** interleavings of section lists are interleavings of the call lists *)
Lemma Merge_prefix {A} (ys : list A) : forall pre t post l,
  Merge (pre ++ t :: post) l -> Merge (pre ++ (ys ++ t) :: post) (ys ++ l).
Proof.
  induction ys as [|y r IH]; intros pre t post l Hm; [exact Hm|]. cbn [app].
  apply Merge_cons. apply IH. exact Hm.
Qed.

Lemma Merge_flat_map {A B} (f : A -> list B) (ts : list (list A)) l :
  Merge ts l -> Merge (map (flat_map f) ts) (flat_map f l).
Proof.
  induction 1 as [ts Hf|pre x t post l Hm IH].
  - cbn. apply Merge_nil. apply Forall_map. eapply Forall_impl; [|exact Hf]. intros a ->. reflexivity.
  - rewrite map_app in *. cbn [map flat_map] in *. apply Merge_prefix. exact IH.
Qed.

Lemma atomize_sections k now o : atomize (map (pair now) (op_sections k o)) = [(now, o)].
Proof.
  destruct o; try reflexivity. destruct loc; reflexivity.
Qed.

Lemma atomize_app h1 h2 : atomize (h1 ++ h2) = atomize h1 ++ atomize h2.
Proof. unfold atomize. apply flat_map_app. Qed.

Lemma atomize_thread t : atomize (thread_sections t) = thread_calls t.
Proof.
  induction t as [|[[k now] o] r IH]; [reflexivity|].
  unfold thread_sections in *. cbn [flat_map fst snd]. rewrite atomize_app, IH, atomize_sections. reflexivity.
Qed.

Theorem sections_merge (ts : list (list (N * N * op))) (h : list (N * mstep)) :
  Merge (map thread_sections ts) h -> Merge (map thread_calls ts) (atomize h).
Proof.
  intros Hm. apply (Merge_flat_map atom1) in Hm. rewrite map_map in Hm.
  erewrite map_ext in Hm; [exact Hm|]. intros t. apply atomize_thread.
Qed.

(* ------------------------------------------------------------------ part 3: the two sections of inc / dec / set_position *)
Lemma pos_sections_adjacent (W H : N) (fails : N -> bool) (s : sys) (now : N) (o : op) (b : N) :
  (exists d, o = OInc b d \/ o = ODec b d \/ o = OSetPos b d) ->
  let '(s1, e1) := psec_step W H fails s now (PStore o) in
  let '(s2, e2) := psec_step W H fails s1 now (PBracket b) in
  (s2, e1 ++ e2) = (step_sys W H fails s now o, step_out W H fails s now o).
Proof.
  intros [d [ -> | [ -> | -> ] ] ]; cbn [psec_step pos_store app]; unfold pos_bracket, step_sys, step_out;
    cbn [Sys.step fst snd]; unfold bar_pos_update;
    match goal with |- context [ap_allow ?a now] => destruct (ap_allow a now) as [[|] ap'] end;
    try reflexivity;
    match goal with |- context [bar_tick W H fails ?s0 b now] => destruct (bar_tick W H fails s0 b now) as [s2 e2] end;
    reflexivity.
Qed.
