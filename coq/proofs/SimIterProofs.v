(** C04, iterator-driven completion: the table of iterator methods src/iter.rs implements itself
    (generated: gen/IterOverrides.v) is the audited one. *)
From IndGen Require Import IterOverrides.
From IndModel Require Import Base Text Draw Sys SimSpec.
From Coq Require Import List String Bool.
Import ListNotations.

Theorem iter_consumers_audited :
  iter_overrides = audited_iter_overrides /\
  exhaustion_methods iter_overrides = audited_exhaustion_methods /\
  iter_next_finishes = true /\ iter_next_back_finishes = true.
Proof. repeat split; vm_compute; reflexivity. Qed.
