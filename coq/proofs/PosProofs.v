From IndModel Require Import Base Pos.
From Coq Require Import ZArith Lia List.
Open Scope Z_scope.

Local Notation M := 18446744073709551616%Z.

Lemma U64_Z : Z.of_N U64 = M. Proof. reflexivity. Qed.

Lemma wadd64_Z a b : Z.of_N (wadd64 a b) = (Z.of_N a + Z.of_N b) mod M.
Proof. unfold wadd64. rewrite N2Z.inj_mod, N2Z.inj_add, U64_Z; reflexivity. Qed.

Lemma wsub64_Z a b : Z.of_N (wsub64 a b) = (Z.of_N a - Z.of_N b) mod M.
Proof.
  unfold wsub64. rewrite N2Z.inj_mod, U64_Z.
  assert (Hb : (b mod U64 < U64)%N) by (apply N.mod_lt; discriminate).
  rewrite N2Z.inj_sub by lia.
  rewrite N2Z.inj_add, N2Z.inj_mod, U64_Z.
  replace (Z.of_N a + M - Z.of_N b mod M) with ((Z.of_N a - Z.of_N b mod M) + 1 * M) by ring.
  rewrite Z.mod_add by lia.
  rewrite Zminus_mod_idemp_r. reflexivity.
Qed.

Lemma wadd64_lt a b : (wadd64 a b < U64)%N.
Proof. apply N.mod_lt; discriminate. Qed.
Lemma wsub64_lt a b : (wsub64 a b < U64)%N.
Proof. apply N.mod_lt; discriminate. Qed.
Lemma sat_add64_lt a b : (sat_add64 a b < U64)%N.
Proof. unfold sat_add64, U64MAX, U64. lia. Qed.
Lemma sat_sub_lt a b : (a < U64 -> sat_sub a b < U64)%N.
Proof. unfold sat_sub. lia. Qed.

(** Invariant: every stored value is a u64. *)
Lemma pstep_wf s o : st_wf s -> op_wf o -> st_wf (pstep s o).
Proof.
  unfold st_wf; intros [Hp Hl] Ho.
  destruct o as [d|d|p|l|d|d| | | | |k| ]; cbn [pstep pos len]; cbn [op_wf] in Ho;
    try (split; [first [assumption | apply wadd64_lt | apply wsub64_lt | reflexivity] | ]);
    try assumption; try exact I.
  - destruct (len s); cbn; [apply sat_add64_lt | exact I].
  - destruct (len s); cbn; [apply sat_sub_lt; assumption | exact I].
  - split; [| assumption]. destruct (len s); [destruct (finish_sets_pos k)|]; assumption.
Qed.

Lemma prun_wf ops : forall s, st_wf s -> Forall op_wf ops -> st_wf (prun s ops).
Proof.
  induction ops as [|o r IH]; cbn [prun fold_left]; intros s Hs Hf; [exact Hs|].
  inversion Hf as [|? ? Ho Hr]; subst. apply IH; [apply pstep_wf; assumption | assumption].
Qed.

Lemma small_mod (q : N) : (q < U64)%N -> Z.of_N q = Z.of_N q mod M.
Proof. intros H. rewrite Z.mod_small; [reflexivity|]. unfold U64 in H. lia. Qed.

(** position() = closed form mod 2^64, for every history; length() = the
    length the closed form tracks. *)
Lemma pos_history_gen ops : forall s p,
  st_wf s -> Forall op_wf ops ->
  Z.of_N (pos s) = p mod M ->
  Z.of_N (pos (prun s ops)) = pos_spec p (len s) ops mod M.
Proof.
  induction ops as [|o r IH]; cbn [prun fold_left pos_spec]; intros s p Hs Hf Hp; [exact Hp|].
  inversion Hf as [|? ? Ho Hr]; subst.
  pose proof (pstep_wf s o Hs Ho) as Hs'.
  destruct o as [d|d|q|l|d|d| | | | |k| ]; cbn [pstep] in *;
    try (apply (IH _ p Hs' Hr); cbn [pos len]; assumption).
  - apply (IH _ _ Hs' Hr); cbn [pos len]. rewrite wadd64_Z, Hp, Zplus_mod_idemp_l. reflexivity.
  - apply (IH _ _ Hs' Hr); cbn [pos len]. rewrite wsub64_Z, Hp, Zminus_mod_idemp_l. reflexivity.
  - apply (IH _ _ Hs' Hr); cbn [pos len]. apply small_mod. exact Ho.
  - apply (IH _ _ Hs' Hr); cbn [pos len]. reflexivity.
  - destruct Hs as [_ Hl]. destruct (len s) as [n|] eqn:El.
    + destruct (finish_sets_pos k).
      * specialize (IH _ (Z.of_N n) Hs' Hr). cbn [pos len] in IH.
        apply IH. apply small_mod. exact Hl.
      * specialize (IH _ p Hs' Hr). cbn [pos len] in IH. apply IH. exact Hp.
    + specialize (IH _ p Hs' Hr). cbn [pos len] in IH. apply IH. exact Hp.
Qed.

Theorem pos_history l0 ops :
  match l0 with Some l => (l < U64)%N | None => True end ->
  Forall op_wf ops ->
  Z.of_N (pos (prun (pinit l0) ops)) = pos_spec 0 l0 ops mod M
  /\ (pos (prun (pinit l0) ops) < U64)%N.
Proof.
  intros Hl Hf.
  assert (Hs : st_wf (pinit l0)) by (split; [reflexivity | exact Hl]).
  split.
  - apply (pos_history_gen ops (pinit l0) 0 Hs Hf). reflexivity.
  - apply (prun_wf ops _ Hs Hf).
Qed.

(** Length ([len_spec], [clampZ] are in model/Pos.v). *)
Lemma len_history_gen ops : forall s,
  st_wf s -> Forall op_wf ops ->
  option_map Z.of_N (len (prun s ops)) = len_spec (option_map Z.of_N (len s)) ops.
Proof.
  induction ops as [|o r IH]; cbn [prun fold_left len_spec]; intros s Hs Hf; [reflexivity|].
  inversion Hf as [|? ? Ho Hr]; subst.
  pose proof (pstep_wf s o Hs Ho) as Hs'.
  fold (prun (pstep s o) r). rewrite (IH _ Hs' Hr). destruct Hs as [_ Hl].
  destruct o as [d|d|q|l|d|d| | | | |k| ]; cbn [pstep len]; try reflexivity.
  - destruct (len s) as [n|]; cbn [option_map]; [|reflexivity].
    do 2 f_equal. unfold sat_add64, clampZ, U64MAX. unfold U64 in Hl. cbn [op_wf] in Ho. unfold U64 in Ho. lia.
  - destruct (len s) as [n|]; cbn [option_map]; [|reflexivity].
    do 2 f_equal. unfold sat_sub, clampZ. unfold U64 in Hl. lia.
Qed.

Theorem len_history l0 ops :
  match l0 with Some l => (l < U64)%N | None => True end ->
  Forall op_wf ops ->
  option_map Z.of_N (len (prun (pinit l0) ops)) = len_spec (option_map Z.of_N l0) ops.
Proof.
  intros Hl Hf. apply (len_history_gen ops (pinit l0)); [split; [reflexivity|exact Hl] | exact Hf].
Qed.

(** is_finished() *)
Theorem finished_history ops : forall s, finished (prun s ops) = fin_spec (finished s) ops.
Proof.
  induction ops as [|o r IH]; cbn [prun fold_left fin_spec]; intros s; [reflexivity|].
  unfold prun in IH. rewrite IH. destruct o; reflexivity.
Qed.

(** Concurrent increments: every interleaving of per-thread Inc/Dec lists
    yields the same final position – the sum of all deltas, mod 2^64. *)
Lemma total_delta_app a b : total_delta (a ++ b) = total_delta a + total_delta b.
Proof. induction a as [|t a IH]; cbn; [reflexivity|]. unfold total_delta in *. cbn. rewrite IH. ring. Qed.

Lemma total_delta_nil ts : Forall (fun t => t = []) ts -> total_delta ts = 0.
Proof. induction 1 as [|t ts Ht _ IH]; cbn; [reflexivity|]. subst. unfold total_delta in *. cbn. rewrite IH. reflexivity. Qed.

Lemma incdec_step s o : is_incdec o ->
  Z.of_N (pos (pstep s o)) = (Z.of_N (pos s) + delta o) mod M
  /\ len (pstep s o) = len s /\ finished (pstep s o) = finished s.
Proof.
  destruct o; cbn [is_incdec]; intros H; try contradiction; cbn [pstep pos len finished delta].
  - rewrite wadd64_Z. auto.
  - rewrite wsub64_Z. auto.
Qed.

Theorem interleaving ts l : Merge ts l ->
  Forall (Forall is_incdec) ts ->
  forall s, (pos s < U64)%N ->
            Z.of_N (pos (prun s l)) = (Z.of_N (pos s) + total_delta ts) mod M
            /\ len (prun s l) = len s /\ finished (prun s l) = finished s.
Proof.
  induction 1 as [ts Hn | pre x t post l HM IH]; intros Hall s Hs.
  - cbn [prun fold_left]. rewrite (total_delta_nil ts Hn), Z.add_0_r.
    split; [apply small_mod; exact Hs | auto].
  - assert (Hx : is_incdec x /\ Forall (Forall is_incdec) (pre ++ t :: post)).
    { apply Forall_app in Hall. destruct Hall as [Hpre Hrest].
      inversion Hrest as [|? ? Hxt Hpost]; subst. inversion Hxt as [|? ? Hx Ht]; subst.
      split; [exact Hx|]. apply Forall_app. split; [exact Hpre|]. constructor; assumption. }
    destruct Hx as [Hx Hall'].
    destruct (incdec_step s x Hx) as [Hp1 [Hl1 Hf1]].
    assert (Hs1 : (pos (pstep s x) < U64)%N).
    { destruct x; cbn [is_incdec] in Hx; try contradiction; cbn [pstep pos];
        [apply wadd64_lt | apply wsub64_lt]. }
    cbn [prun fold_left]. destruct (IH Hall' (pstep s x) Hs1) as [Hp [Hl Hf]]. unfold prun in *.
    rewrite Hl, Hf, Hl1, Hf1, Hp, Hp1. split; [|auto].
    rewrite !total_delta_app. unfold total_delta at 2 4. cbn [fold_right sum_delta].
    fold (total_delta post). fold (sum_delta t).
    rewrite Zplus_mod_idemp_l. f_equal. ring.
Qed.

(** Any interleaving of ANY operations: the merged history is an ordinary history. *)
Lemma Merge_Forall {A} (P : A -> Prop) ts l :
  Merge ts l -> Forall (Forall P) ts -> Forall P l.
Proof.
  induction 1 as [ts Hn | pre x t post l HM IH]; intros Hall; [constructor|].
  apply Forall_app in Hall. destruct Hall as [Hpre Hrest].
  inversion Hrest as [|? ? Hxt Hpost]; subst. inversion Hxt as [|? ? Hx Ht]; subst.
  constructor; [exact Hx|]. apply IH. apply Forall_app. split; [exact Hpre|]. constructor; assumption.
Qed.

Theorem interleaving_any l0 ts l :
  match l0 with Some n => (n < U64)%N | None => True end ->
  Merge ts l -> Forall (Forall op_wf) ts ->
  Z.of_N (pos (prun (pinit l0) l)) = pos_spec 0 l0 l mod M
  /\ option_map Z.of_N (len (prun (pinit l0) l)) = len_spec (option_map Z.of_N l0) l
  /\ finished (prun (pinit l0) l) = fin_spec false l.
Proof.
  intros Hl HM Hall. pose proof (Merge_Forall op_wf ts l HM Hall) as Hf.
  split; [apply (pos_history l0 l Hl Hf)|]. split; [apply (len_history l0 l Hl Hf)|].
  apply (finished_history l (pinit l0)).
Qed.
