(** The hypotheses of the Top-alignment screen theorems (MultiScreen.ms_initial, FitsAll) imply
    those of the either-alignment theorems (MultiScreenBottom.bs_initial, FitsAllB): every history
    covered by C02_screen / C03_log is covered by C02_screen_bottom_partial /
    C03_log_bottom_partial (the proviso FitsAllB is not stronger than FitsAll where both apply). *)
From Coq Require Import List NArith Bool Lia ZifyBool ZifyNat ZifyN.
From IndModel Require Import MultiScreen MultiScreenBottom.
From IndProofs Require Import MultiProofs MultiFrame TermBottomMulti.
Import ListNotations.
Local Open Scope N_scope.

Section TopFits.
  Variable W H : N.

  Lemma shifts_top ls n : shifts W Top ls n = false.
  Proof. reflexivity. Qed.

  Lemma fits_act_B now m a : TopAl m -> fits_act W H now m a -> fits_actB W H now m a.
  Proof.
    intros [HA HT] Hf. destruct a as [idx texts bars|force extra| |ws|idx|loc|idx|al|ws];
      cbn [fits_act fits_actB] in *; try exact I; try exact Hf.
    - intros Ha. unfold fits_drawB. rewrite HA, shifts_top. exact (Hf Ha).
    - unfold fits_clearB. destruct (ms_target m) as [|tg|i] eqn:Ht; [reflexivity| |reflexivity].
      rewrite (HT tg eq_refl), shifts_top. reflexivity.
    - destruct Hf as [Hws Hfit]. split; [exact Hws|]. split; [|exact Hfit].
      unfold fits_clearB. destruct (ms_target m) as [|tg|i] eqn:Ht; [reflexivity| |reflexivity].
      rewrite (HT tg eq_refl), shifts_top. reflexivity.
  Qed.

  Lemma fits_run_B now : forall acts m c,
    Forall (act_ok true) acts -> TopAl m -> fits_run W H now m c acts -> fits_runB W H now m c acts.
  Proof.
    induction acts as [|a r IH]; intros m c Hok Htop Hf; cbn [fits_run fits_runB] in *; [exact I|].
    inversion Hok as [|x y [Ha Hnb] Hr]; subst. destruct Hf as [Hfa Hfr].
    split; [apply fits_act_B; assumption|].
    destruct (act_top W H now m c a Ha (Hnb eq_refl) Htop) as (Ht1 & _). unfold fst4 in Ht1.
    change nofail with nofaults in Ht1.
    destruct (mp_exec1 W H nofaults now m c a) as [[[m1 e1] c1] ok1]. cbn [fst] in Ht1.
    apply IH; assumption.
  Qed.

  Lemma fits_not_bottom s now o :
    fits_run W H now (s_mp s) (s_calls s) (op_actions W s now o) -> o <> OSetAlign Bottom.
  Proof. intros Hf ->. cbn in Hf. destruct Hf as [E _]. discriminate E. Qed.

  Lemma FitsAll_B : forall h s, TopAl (s_mp s) -> FitsAll W H s h -> FitsAllB W H s h.
  Proof.
    induction h as [|[now o] h IH]; intros s Htop Hf; [exact I|].
    cbn [FitsAll FitsAllB fst snd] in *. destruct Hf as [Hf1 Hf2].
    pose proof (fits_not_bottom s now o Hf1) as Hnb.
    split.
    - apply fits_run_B; [apply op_actions_ok; intros _; exact Hnb | exact Htop | exact Hf1].
    - apply IH; [|exact Hf2].
      exact (proj1 (step_top W H s now o Hnb Htop)).
  Qed.
End TopFits.

Lemma ms_initial_bs s0 : ms_initial s0 -> bs_initial s0 /\ TopAl (s_mp s0).
Proof.
  intros (Hno & tg & Ht & Hn0 & Hal & Hbel & Hma & Horph & Hz & Hmb).
  split.
  - split; [exact Hno|]. exists tg. repeat split; assumption.
  - split; [exact Hma|]. intros tg' E. rewrite Ht in E. injection E as <-. exact Hal.
Qed.

(** every history covered by the Top-alignment theorems is covered by the either-alignment ones *)
Theorem bottom_subsumes_top W H s0 h :
  ms_initial s0 -> FitsAll W H s0 h -> bs_initial s0 /\ FitsAllB W H s0 h.
Proof.
  intros Hi Hf. destruct (ms_initial_bs s0 Hi) as [Hb Htop].
  split; [exact Hb | apply FitsAll_B; assumption].
Qed.
