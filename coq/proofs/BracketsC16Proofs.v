(** C16: every call of the tab alphabet is ONE outermost critical section over the bar mutex on
    every path of its generated structured program (gen/LockFootprints.all_programs, regenerated
    from /repo/src on every run).  This is what justifies Tabs.v's "each call is one atomic step"
    (read the tab width, expand, store, draw) when other threads hold clones of the handle. *)
From Coq Require Import List String Bool Arith Lia.
From IndModel Require Import Base Locks Brackets BracketsC01 BracketsC16.
From IndModel Require Tabs.
From IndGen Require Import LockFootprints.
From IndProofs Require Import LocksProofs BracketsProofs BracketsC01Proofs.
Import ListNotations.

Theorem exactly_one_bar_section_sound : forall p, exactly_one_bar_section p = true ->
  forall tr, paths p tr -> bar_sections tr = 1%nat /\ inside_bar tr = true.
Proof.
  intros p H tr Hp. unfold exactly_one_bar_section in H.
  destruct (acheck st_eqb bar_step p [(0, 0)%nat]) as [outs|] eqn:E; [|discriminate].
  destruct (acheck_sound (nat * nat) st_eqb st_eqb_eq bar_step p [(0, 0)%nat] outs E (0, 0)%nat tr
              (or_introl eq_refl) Hp) as (st & R & I).
  rewrite forallb_forall in H. specialize (H st I). apply andb_prop in H. destruct H as [H0 H1].
  apply Nat.eqb_eq in H0. apply Nat.eqb_eq in H1.
  destruct (arun_bar tr 0 0 st R) as [Es Ei]. unfold bar_sections, inside_bar.
  split; [simpl in Es; lia | exact (Ei H0)].
Qed.

Lemma c16_call_in : forall o name, In name (c16_call o) -> In name c16_calls.
Proof.
  intros o name H. destruct o; cbn [c16_call In] in H;
    repeat (destruct H as [H | H]; [subst name; vm_compute; tauto|]); destruct H.
Qed.

(* the obligation on the table regenerated from the source: breaks when a call of the alphabet
   stops being one critical section *)
Lemma generated_c16_calls_ok : forallb (c16_call_okb all_programs) c16_calls = true.
Proof. vm_compute. reflexivity. Qed.

Theorem c16_calls_atomic : forall (o : Tabs.op) name, In name (c16_call o) ->
  exists p, pg_lookup name all_programs = Some p /\ forall tr, paths p tr -> c16_atomic name tr.
Proof.
  intros o name Hn. pose proof (c16_call_in o name Hn) as Hin.
  pose proof (proj1 (forallb_forall _ _) generated_c16_calls_ok name Hin) as H.
  unfold c16_call_okb in H. destruct (pg_lookup name all_programs) as [p|] eqn:El; [|discriminate].
  exists p. split; [reflexivity|]. intros tr Hp. unfold c16_atomic.
  destruct (String.eqb name DROP); [exact (drop_owned_sound p H tr Hp)|].
  destruct (String.eqb name TICK); [exact (one_bar_section_sound p H tr Hp)|].
  exact (exactly_one_bar_section_sound p H tr Hp).
Qed.

(** not vacuous: set_message has a path, and the two-section shape of seeded defect C16-5 (lock, read
    the width, unlock; convert; lock, store, draw, unlock) violates the predicate *)
Lemma set_message_has_path :
  exists p tr, pg_lookup "ProgressBar::set_message"%string all_programs = Some p /\ paths p tr.
Proof.
  destruct (pg_lookup "ProgressBar::set_message"%string all_programs) as [p|] eqn:E; [|vm_compute in E; discriminate].
  exists p. vm_compute in E. injection E as <-.
  eexists. split; [reflexivity|]. apply (path_of_paths 0%nat _ [0%nat]). vm_compute. discriminate.
Qed.

Lemma split_sections_rejected :
  let tr := [CAcq CBar; CRel CBar; CAcq CBar; CAcq CMulti; CRel CMulti; CRel CBar] in
  ~ c16_atomic "ProgressBar::set_message" tr.
Proof. cbv zeta. unfold c16_atomic. vm_compute. intros [H _]. discriminate H. Qed.
