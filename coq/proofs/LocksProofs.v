(** C08 - proofs about model/Locks.v. *)
From IndModel Require Import Base Locks.
From IndGen Require Import LockFootprints.
From Coq Require Import Arith Lia ZifyBool ZifyNat.
Local Open Scope nat_scope.

(* ------------------------------------------------------------ list helpers *)
Lemma nth_error_set_nth : forall A (l : list A) i x j,
  nth_error (set_nth i x l) j =
  if Nat.eqb j i then match nth_error l i with Some _ => Some x | None => None end
  else nth_error l j.
Proof.
  induction l as [|y l IH]; intros i x j.
  - destruct i, j; simpl; try reflexivity; destruct (Nat.eqb j i); reflexivity.
  - destruct i as [|i], j as [|j]; simpl; try reflexivity.
    rewrite IH. reflexivity.
Qed.

Lemma nth_error_start : forall l u j,
  nth_error (start u l) j =
  match nth_error l j with
  | Some t => Some (if Nat.eqb j u then mark t else t)
  | None => None
  end.
Proof.
  intros l u j. unfold start.
  destruct (nth_error l u) as [tu|] eqn:Eu.
  - rewrite nth_error_set_nth.
    destruct (Nat.eqb j u) eqn:Eju.
    + apply Nat.eqb_eq in Eju. subst j. rewrite Eu. reflexivity.
    + destruct (nth_error l j); reflexivity.
  - destruct (Nat.eqb j u) eqn:Eju.
    + apply Nat.eqb_eq in Eju. subst j. rewrite Eu. reflexivity.
    + destruct (nth_error l j); reflexivity.
Qed.

Lemma res_eqb_refl : forall r, res_eqb r r = true.
Proof. destruct r; simpl; apply Nat.eqb_refl. Qed.

Lemma res_eqb_eq : forall x y, res_eqb x y = true -> x = y.
Proof.
  destruct x, y; simpl; intro H; try discriminate; apply Nat.eqb_eq in H; subst; reflexivity.
Qed.

Lemma is_free_false : forall ths r,
  is_free ths r = false ->
  exists j tj, nth_error ths j = Some tj /\ holds tj r = true.
Proof.
  induction ths as [|t ths IH]; intros r H; simpl in H; [discriminate|].
  destruct (holds t r) eqn:Eh; simpl in H.
  - exists 0, t. split; [reflexivity|assumption].
  - destruct (IH r H) as (j & tj & Hj & Hh). exists (S j), tj. split; assumption.
Qed.

Lemma holds_in : forall t r, holds t r = true -> In r (held t).
Proof.
  intros t r H. unfold holds in H. apply existsb_exists in H.
  destruct H as (x & Hin & Heq). apply res_eqb_eq in Heq. subst x. exact Hin.
Qed.

(* ------------------------------------------------------------ the discipline *)
Lemma ordered_local : forall a h p,
  ordered_from h (a :: p) = true -> ordered_from (local a h) p = true.
Proof.
  intros a h p H. destruct a; simpl in *; try assumption.
  - apply andb_prop in H. apply H.
  - apply andb_prop in H. apply H.
  - destruct h as [|x [|y h]]; try discriminate.
    apply andb_prop in H. destruct H as [Hx Hq]. simpl. rewrite Hx. exact Hq.
  - apply andb_prop in H. apply H.
Qed.

Lemma ordered_app : forall p h q,
  ordered_from h p = true -> ordered_from [] q = true -> ordered_from h (p ++ q) = true.
Proof.
  induction p as [|a p IH]; intros h q Hp Hq.
  - simpl in *. destruct h; [exact Hq|discriminate].
  - destruct a; simpl in *;
      try (apply IH; assumption);
      try (apply andb_prop in Hp; destruct Hp as [H1 H2]; rewrite H1; simpl; apply IH; assumption).
    destruct h as [|x [|y h]]; try discriminate.
    apply andb_prop in Hp. destruct Hp as [H1 H2]. rewrite H1. simpl. apply IH; assumption.
Qed.

Lemma Ordered_nil : Ordered [].
Proof. reflexivity. Qed.

Lemma Ordered_app : forall p q, Ordered p -> Ordered q -> Ordered (p ++ q).
Proof. intros p q Hp Hq. apply ordered_app; assumption. Qed.

Lemma Ordered_concat : forall fps, Forall Ordered fps -> Ordered (concat fps).
Proof.
  induction 1 as [|p fps Hp _ IH]; simpl.
  - apply Ordered_nil.
  - apply Ordered_app; assumption.
Qed.

Lemma worker_ok_tl : forall a p, worker_ok (a :: p) = true -> worker_ok p = true.
Proof. intros a p H. unfold worker_ok in H. simpl in H. apply andb_prop in H. apply H. Qed.

(* thinning *)
Lemma ordered_delete : forall a h seg b,
  Bal seg -> ordered_from h (a ++ seg ++ b) = true -> ordered_from h (a ++ b) = true.
Proof.
  induction a as [|x a IH]; intros h seg b HB H.
  - simpl in *. apply HB. exact H.
  - destruct x; simpl in *;
      try (eapply IH; eassumption);
      try (apply andb_prop in H; destruct H as [H1 H2]; rewrite H1; simpl; eapply IH; eassumption).
    destruct h as [|y [|z h]]; try discriminate.
    apply andb_prop in H. destruct H as [H1 H2]. rewrite H1. simpl. eapply IH; eassumption.
Qed.

Lemma Ordered_thin : forall p q, Thin p q -> Ordered p -> Ordered q.
Proof.
  induction 1 as [p|a seg b q HB _ IH]; intro Hp.
  - exact Hp.
  - apply IH. unfold Ordered in *. eapply ordered_delete; eassumption.
Qed.

Lemma Bal_nil : Bal [].
Proof. intros h b H. exact H. Qed.

Lemma Bal_app : forall s1 s2, Bal s1 -> Bal s2 -> Bal (s1 ++ s2).
Proof. intros s1 s2 H1 H2 h b H. rewrite <- app_assoc in H. apply H2, H1, H. Qed.

Lemma Bal_acq_rel : forall r seg, Bal seg -> Bal (Acq r :: seg ++ [Rel r]).
Proof.
  intros r seg HB h b H. simpl in H. apply andb_prop in H. destruct H as [_ H].
  rewrite <- app_assoc in H. apply HB in H. simpl in H.
  rewrite res_eqb_refl in H. simpl in H. exact H.
Qed.

Lemma Bal_wait : forall r, Bal [Acq r; WaitRel r; Acq r; Rel r].
Proof.
  intros r h b H. simpl in H.
  apply andb_prop in H. destruct H as [_ H].
  destruct h as [|x h]; [|discriminate].
  rewrite res_eqb_refl in H. simpl in H. exact H.
Qed.

Lemma Bal_nonblocking : forall a,
  match a with Acq _ | Rel _ | WaitRel _ | Join _ => False | _ => True end -> Bal [a].
Proof. intros a Ha h b H. destruct a; try contradiction; exact H. Qed.

Lemma Bal_join : forall s, Bal [Join s].
Proof. intros s h b H. simpl in H. apply andb_prop in H. apply H. Qed.

(* ------------------------------------------------------------ the step function *)
Section GenStep.
(** everything up to [no_deadlock_g] holds for every enabledness test that lets a free lock be taken *)
Variable en : state -> nat -> action -> bool.
Hypothesis en_perm : forall s i a, enabled s a = true -> en s i a = true.

Definition newt (a : action) (t : thread) (p : list action) : thread :=
  {| started := true; held := local a (held t); code := p |}.

Lemma step_spec : forall s i s',
  gstep en s i = Some s' ->
  exists t a p,
    nth_error (threads s) i = Some t /\ started t = true /\ code t = a :: p /\
    en s i a = true /\
    jslot s' = match a with Spawn sl u => (sl, u) :: jslot s | _ => jslot s end /\
    forall j, nth_error (threads s') j =
      match nth_error (threads s) j with
      | None => None
      | Some t0 =>
          let t1 := if Nat.eqb j i then newt a t p else t0 in
          Some (match a with Spawn _ u => if Nat.eqb j u then mark t1 else t1 | _ => t1 end)
      end.
Proof.
  intros s i s' H. unfold gstep in H.
  destruct (nth_error (threads s) i) as [t|] eqn:Ei; [|discriminate].
  destruct (started t) eqn:Est; [|discriminate].
  destruct (code t) as [|a p] eqn:Ec; [discriminate|].
  destruct (en s i a) eqn:Een; [|discriminate].
  inversion H; subst s'; clear H. exists t, a, p.
  repeat split; try assumption; try reflexivity.
  intro j. simpl.
  assert (Hset : nth_error (set_nth i (newt a t p) (threads s)) j =
          match nth_error (threads s) j with
          | None => None
          | Some t0 => Some (if Nat.eqb j i then newt a t p else t0)
          end).
  { rewrite nth_error_set_nth. destruct (Nat.eqb j i) eqn:Eji.
    - apply Nat.eqb_eq in Eji. subst j. rewrite Ei. reflexivity.
    - destruct (nth_error (threads s) j); reflexivity. }
  unfold newt in Hset.
  destruct a; try (rewrite Hset; destruct (nth_error (threads s) j); reflexivity).
  rewrite nth_error_start. rewrite Hset. destruct (nth_error (threads s) j); reflexivity.
Qed.

Lemma step_enabled : forall s j t a q,
  nth_error (threads s) j = Some t -> started t = true -> code t = a :: q ->
  enabled s a = true -> exists s', gstep en s j = Some s'.
Proof.
  intros s j t a q Hn Hs Hc He. unfold gstep. rewrite Hn, Hs, Hc, (en_perm _ _ _ He). eexists. reflexivity.
Qed.

(* ------------------------------------------------------------ the invariant *)
Record Inv (s : state) : Prop := {
  inv_started : forall j t, nth_error (threads s) j = Some t -> started t = false -> held t = [];
  inv_ordered : forall j t, nth_error (threads s) j = Some t -> ordered_from (held t) (code t) = true;
  inv_slot : forall sl u, lookup sl (jslot s) = Some u ->
      exists tu, nth_error (threads s) u = Some tu /\ started tu = true /\ worker_ok (code tu) = true;
  inv_spawn : forall j t sl u, nth_error (threads s) j = Some t -> In (Spawn sl u) (code t) ->
      exists tu, nth_error (threads s) u = Some tu /\ worker_ok (code tu) = true
}.

Lemma Inv_init : forall ths, WF ths -> Inv (init ths).
Proof.
  intros ths [H1 H2]. rewrite Forall_forall in H1, H2. constructor; simpl.
  - intros j t Hn _. apply nth_error_In in Hn. apply H1 in Hn. apply Hn.
  - intros j t Hn. apply nth_error_In in Hn. apply H1 in Hn.
    destruct Hn as [Hh (fps & Hc & Hf)]. rewrite Hh, Hc. apply Ordered_concat. exact Hf.
  - intros sl u H. discriminate.
  - intros j t sl u Hn Hin. apply nth_error_In in Hn. apply H2 in Hn. apply (Hn sl u Hin).
Qed.

(** how a thread looks after a step, in terms of how it looked before *)
Lemma step_thread : forall s i s' t a p,
  nth_error (threads s) i = Some t -> code t = a :: p ->
  (forall j, nth_error (threads s') j =
      match nth_error (threads s) j with
      | None => None
      | Some t0 =>
          let t1 := if Nat.eqb j i then newt a t p else t0 in
          Some (match a with Spawn _ u => if Nat.eqb j u then mark t1 else t1 | _ => t1 end)
      end) ->
  forall j t', nth_error (threads s') j = Some t' ->
  exists t0, nth_error (threads s) j = Some t0 /\
    ((j = i /\ t0 = t /\ held t' = local a (held t) /\ code t' = p /\ started t' = true) \/
     (j <> i /\ held t' = held t0 /\ code t' = code t0 /\
      (started t0 = true -> started t' = true) /\
      (started t' = true -> started t0 = true \/ exists sl, a = Spawn sl j))).
Proof.
  intros s i s' t a p Hi Hc Hall j t' Hj. rewrite Hall in Hj.
  destruct (nth_error (threads s) j) as [t0|] eqn:E0; [|discriminate].
  exists t0. split; [reflexivity|]. cbv zeta in Hj.
  destruct (Nat.eqb j i) eqn:Eji.
  - apply Nat.eqb_eq in Eji. subst j. left.
    assert (t0 = t) by congruence. subst t0.
    assert (Ht' : held t' = local a (held t) /\ code t' = p /\ started t' = true).
    { destruct a as [r|r|r|k|k|sl u|sl|tag];
        try solve [injection Hj as Hj; subst t'; simpl; auto].
      destruct (Nat.eqb i u); injection Hj as Hj; subst t'; simpl; auto. }
    tauto.
  - apply Nat.eqb_neq in Eji. right. split; [exact Eji|].
    destruct a as [r|r|r|k|k|sl u|sl|tag];
      try solve [injection Hj as Hj; subst t'; repeat split; auto].
    destruct (Nat.eqb j u) eqn:Eu.
    + apply Nat.eqb_eq in Eu. subst u. injection Hj as Hj; subst t'. simpl.
      repeat split; auto. intros _. right. eexists. reflexivity.
    + injection Hj as Hj; subst t'. repeat split; auto.
Qed.

Lemma step_thread_fwd : forall s i s' t a p,
  nth_error (threads s) i = Some t -> code t = a :: p ->
  (forall j, nth_error (threads s') j =
      match nth_error (threads s) j with
      | None => None
      | Some t0 =>
          let t1 := if Nat.eqb j i then newt a t p else t0 in
          Some (match a with Spawn _ u => if Nat.eqb j u then mark t1 else t1 | _ => t1 end)
      end) ->
  forall j t0, nth_error (threads s) j = Some t0 ->
  exists t', nth_error (threads s') j = Some t' /\
    (code t' = code t0 \/ (j = i /\ code t0 = a :: code t')) /\
    (started t0 = true -> started t' = true) /\
    (match a with Spawn _ u => u = j -> started t' = true | _ => True end).
Proof.
  intros s i s' t a p Hi Hc Hall j t0 Hj.
  specialize (Hall j). rewrite Hj in Hall. cbv zeta in Hall.
  eexists. split; [exact Hall|].
  destruct (Nat.eqb j i) eqn:Eji.
  - apply Nat.eqb_eq in Eji. subst j. assert (t0 = t) by congruence. subst t0.
    destruct a as [r|r|r|k|k|sl u|sl|tag]; simpl;
      try solve [repeat split; auto].
    destruct (Nat.eqb i u); simpl; repeat split; auto.
  - destruct a as [r|r|r|k|k|sl u|sl|tag]; simpl; try solve [repeat split; auto].
    destruct (Nat.eqb j u) eqn:Eu; simpl; repeat split; auto.
    intro Heq. subst u. rewrite Nat.eqb_refl in Eu. discriminate.
Qed.

Lemma Inv_step : forall s i s', gstep en s i = Some s' -> Inv s -> Inv s'.
Proof.
  intros s i s' Hstep HI.
  destruct (step_spec _ _ _ Hstep) as (t & a & p & Hi & Hst & Hc & Hen & Hjs & Hall).
  pose proof (step_thread s i s' t a p Hi Hc Hall) as Hbwd.
  pose proof (step_thread_fwd s i s' t a p Hi Hc Hall) as Hfwd.
  assert (Hwk : forall u tu, nth_error (threads s) u = Some tu -> worker_ok (code tu) = true ->
            exists tu', nth_error (threads s') u = Some tu' /\ worker_ok (code tu') = true /\
                        (started tu = true -> started tu' = true) /\
                        (match a with Spawn _ v => v = u -> started tu' = true | _ => True end)).
  { intros u tu Hu Hw. destruct (Hfwd u tu Hu) as (tu' & Hu' & Hcode & Hs1 & Hs2).
    exists tu'. repeat split; try assumption.
    destruct Hcode as [Hcode|[_ Hcode]].
    - rewrite Hcode. exact Hw.
    - rewrite Hcode in Hw. eapply worker_ok_tl. exact Hw. }
  constructor.
  - intros j t' Hj Hns.
    destruct (Hbwd j t' Hj) as (t0 & H0 & [(_ & _ & _ & _ & Hs)|(Hne & Hh & _ & Hs & _)]).
    + congruence.
    + rewrite Hh. apply (inv_started s HI j t0 H0).
      destruct (started t0) eqn:E; [|reflexivity]. rewrite Hs in Hns; [discriminate|reflexivity].
  - intros j t' Hj.
    destruct (Hbwd j t' Hj) as (t0 & H0 & [(_ & Ht0 & Hh & Hcd & _)|(_ & Hh & Hcd & _)]).
    + subst t0. rewrite Hh, Hcd. apply ordered_local. rewrite <- Hc. apply (inv_ordered s HI j t H0).
    + rewrite Hh, Hcd. apply (inv_ordered s HI j t0 H0).
  - intros sl u Hl. rewrite Hjs in Hl.
    assert (Hold : lookup sl (jslot s) = Some u ->
              exists tu, nth_error (threads s') u = Some tu /\ started tu = true /\ worker_ok (code tu) = true).
    { intro Hl0. destruct (inv_slot s HI sl u Hl0) as (tu & Hu & Hs & Hw).
      destruct (Hwk u tu Hu Hw) as (tu' & Hu' & Hw' & Hs' & _).
      exists tu'. auto. }
    destruct a as [r|r|r|k|k|sl0 u0|sl0|tag]; try (apply Hold; exact Hl).
    simpl in Hl. destruct (Nat.eqb sl0 sl); [|apply Hold; exact Hl].
    injection Hl as Hl. subst u0.
    destruct (inv_spawn s HI i t sl0 u Hi) as (tu & Hu & Hw).
    { rewrite Hc. left. reflexivity. }
    destruct (Hwk u tu Hu Hw) as (tu' & Hu' & Hw' & _ & Hs').
    exists tu'. repeat split; auto.
  - intros j t' sl u Hj Hin.
    destruct (Hbwd j t' Hj) as (t0 & H0 & Hcase).
    assert (Hin0 : In (Spawn sl u) (code t0)).
    { destruct Hcase as [(_ & Ht0 & _ & Hcd & _)|(_ & _ & Hcd & _)].
      - subst t0. rewrite Hc. right. rewrite <- Hcd. exact Hin.
      - rewrite <- Hcd. exact Hin. }
    destruct (inv_spawn s HI j t0 sl u H0 Hin0) as (tu & Hu & Hw).
    destruct (Hwk u tu Hu Hw) as (tu' & Hu' & Hw' & _).
    exists tu'. auto.
Qed.

Lemma Inv_reachable : forall ths s, WF ths -> greachable en (init ths) s -> Inv s.
Proof.
  intros ths s HW HR. induction HR as [|s i s' _ IH Hs].
  - apply Inv_init. exact HW.
  - eapply Inv_step; eassumption.
Qed.

(* ------------------------------------------------------------ no deadlock *)
Lemma rank_lt_bound : forall r, rank r < rank_bound.
Proof. destruct r; unfold rank_bound; simpl; lia. Qed.

Lemma ordered_nonempty : forall t r,
  In r (held t) -> ordered_from (held t) (code t) = true -> exists a q, code t = a :: q.
Proof.
  intros t r Hin Ho. destruct (code t) as [|a q].
  - simpl in Ho. destruct (held t); [contradiction|discriminate].
  - eauto.
Qed.

(** a thread whose next action is an acquisition: someone can move (induction on the distance of
    the wanted rank from the top) *)
Lemma progress_acq : forall n s, Inv s ->
  forall i t r p, nth_error (threads s) i = Some t -> started t = true -> code t = Acq r :: p ->
  rank_bound <= rank r + n ->
  exists j s', gstep en s j = Some s'.
Proof.
  induction n as [|n IH]; intros s HI i t r p Hi Hst Hc Hrk.
  - pose proof (rank_lt_bound r). lia.
  - destruct (is_free (threads s) r) eqn:Efree.
    + exists i. eapply step_enabled; eauto.
    + destruct (is_free_false _ _ Efree) as (j & tj & Hj & Hh).
      apply holds_in in Hh.
      pose proof (inv_ordered s HI j tj Hj) as Ho.
      destruct (ordered_nonempty tj r Hh Ho) as (a & q & Hcj).
      assert (Hsj : started tj = true).
      { destruct (started tj) eqn:E; [reflexivity|].
        rewrite (inv_started s HI j tj Hj E) in Hh. contradiction. }
      rewrite Hcj in Ho.
      destruct a as [r'|r'|r'|k|k|sl u|sl|tag];
        try (exists j; eapply step_enabled; eauto; reflexivity).
      * (* the holder wants r' above r *)
        simpl in Ho. apply andb_prop in Ho. destruct Ho as [Hall _].
        rewrite forallb_forall in Hall. specialize (Hall r Hh). apply Nat.ltb_lt in Hall.
        eapply (IH s HI j tj r' q); eauto. lia.
      * (* the holder joins: it holds only rank-0 resources, the joined worker wants rank >= 1 *)
        simpl in Ho. apply andb_prop in Ho. destruct Ho as [Hall _].
        rewrite forallb_forall in Hall. specialize (Hall r Hh). apply Nat.ltb_lt in Hall.
        unfold join_rank in Hall.
        destruct (enabled s (Join sl)) eqn:Een.
        { exists j. eapply step_enabled; eauto. }
        simpl in Een.
        destruct (lookup sl (jslot s)) as [u|] eqn:El; [|discriminate].
        destruct (inv_slot s HI sl u El) as (tu & Hu & Hsu & Hw).
        rewrite Hu in Een. unfold done in Een. rewrite Hsu in Een. simpl in Een.
        destruct (code tu) as [|a' q'] eqn:Hcu; [discriminate|].
        unfold worker_ok in Hw. simpl in Hw. apply andb_prop in Hw. destruct Hw as [Hw _].
        destruct a' as [r''|r''|r''|k|k|sl' u'|sl'|tag];
          try discriminate;
          try (exists u; eapply step_enabled; eauto; reflexivity).
        assert (Hr1 : 1 <= rank r'') by (destruct (rank r''); [discriminate Hw|lia]).
        eapply (IH s HI u tu r'' q'); eauto. lia.
Qed.

Theorem no_deadlock_g : forall ths s,
  WF ths -> greachable en (init ths) s ->
  (exists i t, nth_error (threads s) i = Some t /\ unfinished t = true) ->
  exists j s', gstep en s j = Some s'.
Proof.
  intros ths s HW HR (i & t & Hi & Hun).
  pose proof (Inv_reachable ths s HW HR) as HI.
  unfold unfinished in Hun. apply andb_prop in Hun. destruct Hun as [Hst Hne].
  destruct (code t) as [|a p] eqn:Hc; [discriminate|].
  destruct a as [r|r|r|k|k|sl u|sl|tag];
    try (exists i; eapply step_enabled; eauto; reflexivity).
  - eapply (progress_acq rank_bound s HI i t r p); eauto. lia.
  - destruct (enabled s (Join sl)) eqn:Een.
    { exists i. eapply step_enabled; eauto. }
    simpl in Een.
    destruct (lookup sl (jslot s)) as [u|] eqn:El; [|discriminate].
    destruct (inv_slot s HI sl u El) as (tu & Hu & Hsu & Hw).
    rewrite Hu in Een. unfold done in Een. rewrite Hsu in Een. simpl in Een.
    destruct (code tu) as [|a' q'] eqn:Hcu; [discriminate|].
    unfold worker_ok in Hw. simpl in Hw. apply andb_prop in Hw. destruct Hw as [Hw _].
    destruct a' as [r''|r''|r''|k|k|sl' u'|sl'|tag];
      try discriminate;
      try (exists u; eapply step_enabled; eauto; reflexivity).
    eapply (progress_acq rank_bound s HI u tu r'' q'); eauto. lia.
Qed.

End GenStep.

Lemma en_excl_perm : forall s i a, enabled s a = true -> en_excl s i a = true.
Proof. intros s i a H. exact H. Qed.

Lemma reachable_greachable : forall s0 s, reachable s0 s -> greachable en_excl s0 s.
Proof.
  intros s0 s H. induction H as [|s i s' _ IH Hs].
  - apply greach_refl.
  - eapply greach_step; [exact IH|exact Hs].
Qed.

Theorem no_deadlock : forall ths s,
  WF ths -> reachable (init ths) s ->
  (exists i t, nth_error (threads s) i = Some t /\ unfinished t = true) ->
  exists j s', step s j = Some s'.
Proof.
  intros ths s HW HR HU.
  exact (no_deadlock_g en_excl en_excl_perm ths s HW (reachable_greachable _ _ HR) HU).
Qed.

(** shared readers are an instance: a free lock can be taken *)
Lemma en_shared_perm : forall reader s i a, enabled s a = true -> en_shared reader s i a = true.
Proof.
  intros reader s i a H. unfold en_shared.
  destruct a as [r|r|r|k|k|sl u|sl|tag]; try exact H.
  destruct r; try exact H. rewrite H. reflexivity.
Qed.

(* ------------------------------------------------------------ class level -> instances *)
Lemma forallb_map_eq : forall A B (g : A -> B) (f : B -> bool) l,
  forallb f (map g l) = forallb (fun x => f (g x)) l.
Proof. induction l as [|x l IH]; simpl; [reflexivity|rewrite IH; reflexivity]. Qed.

Lemma existsb_map_eq : forall A B (g : A -> B) (f : B -> bool) l,
  existsb f (map g l) = existsb (fun x => f (g x)) l.
Proof. induction l as [|x l IH]; simpl; [reflexivity|rewrite IH; reflexivity]. Qed.

Lemma forallb_ext : forall A (f g : A -> bool) l, (forall x, f x = g x) -> forallb f l = forallb g l.
Proof. intros A f g l H. induction l as [|x l IH]; simpl; [reflexivity|rewrite H, IH; reflexivity]. Qed.

Lemma existsb_ext : forall A (f g : A -> bool) l, (forall x, f x = g x) -> existsb f l = existsb g l.
Proof. intros A f g l H. induction l as [|x l IH]; simpl; [reflexivity|rewrite H, IH; reflexivity]. Qed.

Lemma rank_inst : forall b m k c, rank (inst_res b m k c) = crank c.
Proof. destruct c; reflexivity. Qed.

Lemma res_eqb_inst : forall b m k x y,
  res_eqb (inst_res b m k x) (inst_res b m k y) = cres_eqb x y.
Proof. destruct x, y; simpl; try reflexivity; apply Nat.eqb_refl. Qed.

Lemma remove1_inst : forall b m k c h,
  remove1 (inst_res b m k c) (map (inst_res b m k) h) = map (inst_res b m k) (cremove1 c h).
Proof.
  induction h as [|x h IH]; simpl; [reflexivity|].
  rewrite res_eqb_inst. destruct (cres_eqb x c); [reflexivity|]. simpl. rewrite IH. reflexivity.
Qed.

Lemma cordered_from_inst : forall b m k p h,
  cordered_from h p = true ->
  ordered_from (map (inst_res b m k) h) (map (inst b m k) p) = true.
Proof.
  induction p as [|a p IH]; intros h H.
  - simpl in *. destruct h; [reflexivity|discriminate].
  - destruct a as [c|c|c| | | | | | | | ]; simpl in *; try (apply IH; exact H).
    + apply andb_prop in H. destruct H as [H1 H2].
      rewrite forallb_map_eq.
      assert (E : forallb (fun x => rank (inst_res b m k x) <? rank (inst_res b m k c)) h = true).
      { rewrite <- H1. apply forallb_ext. intro x. rewrite !rank_inst. reflexivity. }
      rewrite E. simpl. apply (IH (c :: h)). exact H2.
    + apply andb_prop in H. destruct H as [H1 H2].
      rewrite existsb_map_eq.
      assert (E : existsb (fun x => res_eqb (inst_res b m k c) (inst_res b m k x)) h = true).
      { rewrite <- H1. apply existsb_ext. intro x. apply res_eqb_inst. }
      rewrite E. simpl. rewrite remove1_inst. apply IH. exact H2.
    + destruct h as [|x [|y h]]; try discriminate. simpl.
      apply andb_prop in H. destruct H as [H1 H2].
      rewrite res_eqb_inst, H1. simpl. apply (IH []). exact H2.
    + apply andb_prop in H. destruct H as [H1 H2].
      rewrite forallb_map_eq.
      assert (E : forallb (fun x => rank (inst_res b m k x) <? join_rank) h = true).
      { rewrite <- H1. apply forallb_ext. intro x. rewrite rank_inst. reflexivity. }
      rewrite E. simpl. apply IH. exact H2.
Qed.

Lemma cordered_inst : forall p, cordered p = true -> forall b m k, Ordered (map (inst b m k) p).
Proof. intros p H b m k. apply (cordered_from_inst b m k p []). exact H. Qed.

Lemma cworker_inst : forall p, cworker_ok p = true -> forall b m k, worker_ok (map (inst b m k) p) = true.
Proof.
  intros p H b m k. unfold worker_ok, cworker_ok in *. rewrite forallb_map_eq.
  etransitivity; [|exact H]. apply forallb_ext. intros [c|c|c| | | | | | | | ]; simpl; try reflexivity.
  rewrite rank_inst. reflexivity.
Qed.

(* ------------------------------------------------------------ the regression witness (D9) *)
Lemma run_reachable : forall s0 sched s, reachable s0 s -> reachable s0 (run s sched).
Proof.
  intros s0 sched. induction sched as [|i r IH]; intros s HR; simpl.
  - exact HR.
  - destruct (step s i) as [s'|] eqn:E.
    + apply IH. eapply reach_step; eassumption.
    + apply IH. exact HR.
Qed.

Lemma deadlocked_spec : forall s, deadlocked s = true ->
  (exists i t, nth_error (threads s) i = Some t /\ unfinished t = true) /\
  forall i, step s i = None.
Proof.
  intros s H. unfold deadlocked in H. apply andb_prop in H. destruct H as [H1 H2]. split.
  - apply existsb_exists in H1. destruct H1 as (t & Hin & Hu).
    apply In_nth_error in Hin. destruct Hin as (i & Hi). eauto.
  - intro i. destruct (Nat.lt_ge_cases i (length (threads s))) as [Hlt|Hge].
    + rewrite forallb_forall in H2. specialize (H2 i).
      destruct (step s i); [|reflexivity].
      assert (false = true); [|discriminate]. apply H2. apply in_seq. lia.
    + unfold step, gstep. apply nth_error_None in Hge. rewrite Hge. reflexivity.
Qed.

Definition fp_enable_first : list caction := [CAcq CSlot; CSpawn; CRel CSlot].
Definition fp_disable : list caction :=
  [CAcq CSlot; CAcq CStop; CSetStop; CRel CStop; CNotify;
   CAcq CStop; CSetStop; CRel CStop; CNotify; CJoin; CRel CSlot].
Definition fp_ticker_iter : list caction :=
  [CUpgrade; CAcq CBar; CTick; CAcq CMulti; CRel CMulti; CRel CBar; CDropArc;
   CAcq CStop; CWaitRel CStop; CAcq CStop; CRel CStop].

Definition uthread (p : list action) : thread := {| started := true; held := []; code := p |}.
Definition wthread (p : list action) : thread := {| started := false; held := []; code := p |}.

(** thread 0: update() as it was before 68f1e2d; thread 1: enable_steady_tick then
    disable_steady_tick; thread 2: the ticker (pool thread, spawned by thread 1) *)
Definition old_pool : list thread :=
  [ uthread (map (inst 0 0 2) old_update_fp);
    uthread (map (inst 0 0 2) (fp_enable_first ++ fp_disable));
    wthread (map (inst 0 0 2) fp_ticker_iter) ].
Definition old_sched : list nat := [1;1;1; 0; 1;1;1;1;1;1;1;1;1; 2].

Theorem old_update_deadlocks :
  cordered old_update_fp = false /\
  exists s, reachable (init old_pool) s /\
    (exists i t, nth_error (threads s) i = Some t /\ unfinished t = true) /\
    forall i, step s i = None.
Proof.
  split; [reflexivity|].
  exists (run (init old_pool) old_sched). split.
  - apply run_reachable. apply reach_refl.
  - apply deadlocked_spec. vm_compute. reflexivity.
Qed.

(** the same pool with update() as it is now: every schedule prefix leaves an enabled step
    (instance of the theorem; the hypotheses are checked by computation) *)
Definition new_update_fp : list caction :=
  [CAcq CSlot; CRel CSlot; CAcq CBar; CCallback; CTick; CAcq CMulti; CRel CMulti; CRel CBar].
Definition new_pool : list thread :=
  [ uthread (map (inst 0 0 2) new_update_fp);
    uthread (map (inst 0 0 2) (fp_enable_first ++ fp_disable));
    wthread (map (inst 0 0 2) fp_ticker_iter) ].

Lemma new_pool_WF : WF new_pool.
Proof.
  split.
  - apply Forall_cons; [|apply Forall_cons; [|apply Forall_cons; [|apply Forall_nil]]];
      (split; [reflexivity|]).
    + exists [map (inst 0 0 2) new_update_fp]. split; [reflexivity|].
      apply Forall_cons; [|apply Forall_nil]. apply cordered_inst. reflexivity.
    + exists [map (inst 0 0 2) fp_enable_first; map (inst 0 0 2) fp_disable]. split; [reflexivity|].
      apply Forall_cons; [|apply Forall_cons; [|apply Forall_nil]]; apply cordered_inst; reflexivity.
    + exists [map (inst 0 0 2) fp_ticker_iter]. split; [reflexivity|].
      apply Forall_cons; [|apply Forall_nil]. apply cordered_inst. reflexivity.
  - apply Forall_cons; [|apply Forall_cons; [|apply Forall_cons; [|apply Forall_nil]]];
      intros sl u Hin; simpl in Hin;
      repeat (destruct Hin as [Hin|Hin]; [try discriminate Hin|]); try contradiction.
    injection Hin as <- <-. eexists. split; reflexivity.
Qed.

(* ------------------------------------------------------------ ticker lifecycle *)
Ltac split_ifs H :=
  repeat match type of H with
         | context [if ?b then _ else _] => destruct b eqn:?
         | context [match ?x with O => _ | S _ => _ end] => destruct x eqn:?
         end.

Ltac step_cases H :=
  match type of H with
  | lstep ?l ?s = Some ?s' =>
      destruct s as [pc0 fl ow fi st ta bl sl nt it];
      destruct l as [o| | | | | | | | | | | ];
      destruct pc0; unfold lstep, tstep, upd_pc in H; simpl in H;
      split_ifs H; try discriminate H;
      injection H as H; subst s'
  end.

Lemma tinv_step : forall l s s', lstep l s = Some s' -> tinv s = true -> tinv s' = true.
Proof.
  intros l s s' H HI.
  step_cases H; unfold tinv in *; simpl in *;
    destruct bl; destruct sl; simpl in *; try discriminate;
    destruct ta; destruct fl; destruct ow; simpl in *; try discriminate; try reflexivity.
Qed.

Lemma tinv_init : forall fi st bl, tinv (tinit fi st bl) = true.
Proof. intros fi st [|]; reflexivity. Qed.

Lemma tinv_lrun : forall tr s s', lrun tr s = Some s' -> tinv s = true -> tinv s' = true.
Proof.
  induction tr as [|l tr IH]; intros s s' H HI; simpl in H.
  - injection H as <-. exact HI.
  - destruct (lstep l s) as [s1|] eqn:E; [|discriminate].
    eapply IH; [exact H|]. eapply tinv_step; eassumption.
Qed.

Lemma tinv_reach : forall s, treach s -> tinv s = true.
Proof. intros s (fi & st & bl & tr & H). eapply tinv_lrun; [exact H|apply tinv_init]. Qed.

(** one step with the stop flag set: the flag stays set and the three potentials do not grow;
    a ticker step strictly decreases [fuel] *)
Lemma stop_step : forall l s s',
  lstep l s = Some s' -> flag s = true ->
  flag s' = true /\
  fuel (pc s') + (if is_LT l then 1 else 0) <= fuel (pc s) /\
  nticks s' + tickfuel (pc s') <= nticks s + tickfuel (pc s) /\
  iters s' + iterfuel (pc s') <= iters s + iterfuel (pc s).
Proof.
  intros l s s' H Hf.
  step_cases H; simpl in *; subst; repeat split; simpl; try reflexivity; try lia; try discriminate.
Qed.

Theorem exit_bound_trace : forall tr s s',
  lrun tr s = Some s' -> flag s = true ->
  flag s' = true /\
  count_LT tr + fuel (pc s') <= fuel (pc s) /\
  nticks s' + tickfuel (pc s') <= nticks s + tickfuel (pc s) /\
  iters s' + iterfuel (pc s') <= iters s + iterfuel (pc s).
Proof.
  induction tr as [|l tr IH]; intros s s' H Hf; simpl in H.
  - injection H as <-. unfold count_LT. simpl. repeat split; auto; lia.
  - destruct (lstep l s) as [s1|] eqn:E; [|discriminate].
    destruct (stop_step l s s1 E Hf) as (Hf1 & Hfu & Htk & Hit).
    destruct (IH s1 s' H Hf1) as (Hf' & Hfu' & Htk' & Hit').
    split; [exact Hf'|].
    unfold count_LT in *. simpl. destruct (is_LT l); simpl; repeat split; lia.
Qed.

Lemma fuel_le_bound : forall p, fuel p <= exit_bound.
Proof. destruct p; unfold exit_bound; simpl; lia. Qed.
Lemma tickfuel_le1 : forall p, tickfuel p <= 1.
Proof. destruct p; simpl; lia. Qed.
Lemma iterfuel_le1 : forall p, iterfuel p <= 1.
Proof. destruct p; simpl; lia. Qed.

(** for EVERY trace (every interleaving with the environment, every answer of the time-out
    oracle): once the flag is set, at most [exit_bound] ticker steps, one tick, one new iteration *)
Theorem ticker_exit_bound : forall s tr s',
  flag s = true -> lrun tr s = Some s' ->
  count_LT tr <= exit_bound /\ nticks s' <= nticks s + 1 /\ iters s' <= iters s + 1 /\
  (count_LT tr = exit_bound -> pc s' = TDone).
Proof.
  intros s tr s' Hf H.
  destruct (exit_bound_trace tr s s' H Hf) as (_ & Hfu & Htk & Hit).
  pose proof (fuel_le_bound (pc s)). pose proof (tickfuel_le1 (pc s)). pose proof (iterfuel_le1 (pc s)).
  repeat split; try lia.
  intro Hc. assert (Hz : fuel (pc s') = 0) by lia.
  destruct (pc s'); simpl in Hz; try discriminate; reflexivity.
Qed.

(** no lost wake-up: once the stop request is complete (flag set, its notify delivered) the
    ticker is not parked and never parks again - it does not depend on any time-out *)
Lemma awake_step : forall l s s',
  lstep l s = Some s' -> flag s = true -> pc s <> TSleep -> pc s' <> TSleep.
Proof.
  intros l s s' H Hf Hp.
  step_cases H; simpl in *; subst; try discriminate; try (exfalso; apply Hp; reflexivity); exact Hp.
Qed.

Theorem settled_never_sleeps : forall s tr s',
  tinv s = true -> flag s = true -> owed s = false ->
  lrun tr s = Some s' -> pc s' <> TSleep.
Proof.
  intros s tr s' HI Hf Ho H.
  assert (Hp : pc s <> TSleep).
  { intro Hp. unfold tinv in HI. rewrite Hp, Hf, Ho in HI. simpl in HI. discriminate. }
  clear HI Ho. revert s Hf Hp H.
  induction tr as [|l tr IH]; intros s Hf Hp H; simpl in H.
  - injection H as <-. exact Hp.
  - destruct (lstep l s) as [s1|] eqn:E; [|discriminate].
    destruct (stop_step l s s1 E Hf) as (Hf1 & _).
    eapply IH; [exact Hf1| |exact H]. eapply awake_step; eassumption.
Qed.

(** the ticker thread's own steps are enabled whenever the environment does not hold the lock it
    needs - except while parked *)
Lemma tstep_enabled : forall o s,
  tinv s = true -> pc s <> TSleep -> pc s <> TDone ->
  barl s <> ByEnv -> stopl s <> ByEnv ->
  exists s', tstep o s = Some s'.
Proof.
  intros o s HI Hs Hd Hb Hl.
  destruct s as [pc0 fl ow fi st ta bl sl nt it]. simpl in *.
  unfold tinv in HI. simpl in HI.
  destruct pc0; unfold tstep, upd_pc; simpl;
    try (exfalso; apply Hs; reflexivity); try (exfalso; apply Hd; reflexivity);
    try (eexists; reflexivity).
  - destruct (Nat.eqb st 0); eexists; reflexivity.
  - destruct bl; simpl in *; try (eexists; reflexivity); try discriminate.
    exfalso; apply Hb; reflexivity.
  - destruct sl; simpl in *; try (eexists; reflexivity).
    + destruct bl; simpl in HI; rewrite ?andb_false_r in HI; discriminate.
    + exfalso; apply Hl; reflexivity.
  - destruct fl; [eexists; reflexivity|]. destruct o; eexists; reflexivity.
  - destruct sl; simpl in *; try (eexists; reflexivity).
    + destruct bl; simpl in HI; rewrite ?andb_false_r in HI; discriminate.
    + exfalso; apply Hl; reflexivity.
Qed.

Lemma tstep_keeps_env_free : forall o s s',
  tstep o s = Some s' -> barl s <> ByEnv -> stopl s <> ByEnv ->
  barl s' <> ByEnv /\ stopl s' <> ByEnv.
Proof.
  intros o s s' H Hb Hl.
  destruct s as [pc0 fl ow fi st ta bl sl nt it]. simpl in *.
  destruct pc0; unfold tstep, upd_pc in H; simpl in H; split_ifs H; try discriminate H;
    injection H as H; subst s'; simpl; split; try assumption; discriminate.
Qed.

(** the join completes: with the stop request complete and the two mutexes not held by other
    threads, the ticker thread alone reaches the end of run() within [exit_bound] of its own
    steps, for every time-out oracle and without any wake-up event *)
Theorem join_terminates : forall os s,
  tinv s = true -> flag s = true -> owed s = false ->
  barl s <> ByEnv -> stopl s <> ByEnv ->
  pc (run_ticker os exit_bound s) = TDone.
Proof.
  intros os s HI Hf Ho Hb Hl.
  assert (Hp : pc s <> TSleep).
  { intro Hp. unfold tinv in HI. rewrite Hp, Hf, Ho in HI. simpl in HI. discriminate. }
  clear Ho.
  assert (G : forall n s, tinv s = true -> flag s = true -> pc s <> TSleep ->
              barl s <> ByEnv -> stopl s <> ByEnv -> fuel (pc s) <= n ->
              pc (run_ticker os n s) = TDone).
  { clear. induction n as [|n IH]; intros s HI Hf Hp Hb Hl Hn.
    - simpl. destruct (pc s); simpl in Hn; try lia. reflexivity.
    - simpl. destruct (tstep (os n) s) as [s1|] eqn:E.
      + assert (E' : lstep (LT (os n)) s = Some s1) by exact E.
        destruct (stop_step _ _ _ E' Hf) as (Hf1 & Hfu & _). simpl in Hfu.
        destruct (tstep_keeps_env_free _ _ _ E Hb Hl) as [Hb1 Hl1].
        apply IH; auto.
        * eapply tinv_step; eassumption.
        * eapply awake_step; eassumption.
        * lia.
      + destruct (pc s) eqn:Epc; try reflexivity;
          destruct (tstep_enabled (os n) s HI) as (s1 & E1); try assumption;
          try (rewrite Epc; discriminate); congruence. }
  apply G; auto. apply fuel_le_bound.
Qed.

(** the Weak upgrade fails: the thread exits at that very step; and once no handle and no upgraded
    Arc is left there is no further tick and at most one more (failing) iteration *)
Lemma upgrade_fail_exits : forall o s s',
  pc s = TUpgrade -> strong s = 0 -> tstep o s = Some s' -> pc s' = TDone.
Proof.
  intros o s s' Hp Hs H. destruct s as [pc0 fl ow fi st ta bl sl nt it]. simpl in *. subst.
  unfold tstep in H. simpl in H. injection H as <-. reflexivity.
Qed.

Definition alive (p : tpc) : nat := match p with TDone => 0 | _ => 1 end.

Lemma dead_step : forall l s s',
  lstep l s = Some s' -> tinv s = true -> strong s = 0 -> tarc s = false ->
  strong s' = 0 /\ tarc s' = false /\ nticks s' = nticks s /\
  iters s' + alive (pc s') <= iters s + alive (pc s).
Proof.
  intros l s s' H HI Hs Ht.
  step_cases H; unfold tinv in HI; simpl in *; subst; try discriminate;
    repeat split; simpl; try reflexivity; try lia.
Qed.

Theorem no_handles_no_ticks : forall tr s s',
  lrun tr s = Some s' -> tinv s = true -> strong s = 0 -> tarc s = false ->
  nticks s' = nticks s /\ iters s' <= iters s + 1.
Proof.
  assert (G : forall tr s s', lrun tr s = Some s' -> tinv s = true -> strong s = 0 -> tarc s = false ->
            nticks s' = nticks s /\ iters s' + alive (pc s') <= iters s + alive (pc s)).
  { induction tr as [|l tr IH]; intros s s' H HI Hs Ht; simpl in H.
    - injection H as <-. split; [reflexivity|lia].
    - destruct (lstep l s) as [s1|] eqn:E; [|discriminate].
      destruct (dead_step l s s1 E HI Hs Ht) as (Hs1 & Ht1 & Hn1 & Hi1).
      destruct (IH s1 s' H (tinv_step _ _ _ E HI) Hs1 Ht1) as (Hn & Hi).
      split; [congruence|lia]. }
  intros tr s s' H HI Hs Ht. destruct (G tr s s' H HI Hs Ht) as (Hn & Hi).
  split; [exact Hn|]. assert (alive (pc s) <= 1) by (destruct (pc s); simpl; lia). lia.
Qed.

(** a finished bar is not ticked by its ticker, except for a tick already past the check
    (independent of the stop flag; [LReset] = ProgressBar::reset un-finishes the bar) *)
Lemma fin_step : forall l s s',
  lstep l s = Some s' -> fin s = true -> l <> LReset ->
  fin s' = true /\ nticks s' + tickfuel_fin (pc s') <= nticks s + tickfuel_fin (pc s).
Proof.
  intros l s s' H Hf Hl.
  step_cases H; simpl in *; subst; try discriminate; try (exfalso; apply Hl; reflexivity);
    repeat split; simpl; try reflexivity; try lia.
Qed.

Theorem finished_no_more_ticks : forall tr s s',
  lrun tr s = Some s' -> fin s = true -> no_reset tr = true ->
  nticks s' <= nticks s + tickfuel_fin (pc s).
Proof.
  assert (G : forall tr s s', lrun tr s = Some s' -> fin s = true -> no_reset tr = true ->
            nticks s' + tickfuel_fin (pc s') <= nticks s + tickfuel_fin (pc s)).
  { induction tr as [|l tr IH]; intros s s' H Hf Hr; simpl in H.
    - injection H as <-. lia.
    - destruct (lstep l s) as [s1|] eqn:E; [|discriminate].
      simpl in Hr. apply andb_prop in Hr. destruct Hr as [Hr1 Hr2].
      assert (Hl : l <> LReset) by (intro; subst l; discriminate).
      destruct (fin_step l s s1 E Hf Hl) as (Hf1 & Hn1).
      pose proof (IH s1 s' H Hf1 Hr2). lia. }
  intros tr s s' H Hf Hr. pose proof (G tr s s' H Hf Hr). lia.
Qed.

(** at most one tick per loop body, in every trace: ticks <= iterations begun *)
Definition tickcap (p : tpc) : nat :=
  match p with TLockBar | TCheckFin | TTick => 1 | _ => 0 end.

Lemma tick_iter_step : forall l s s',
  lstep l s = Some s' ->
  nticks s' + tickcap (pc s') + iters s <= nticks s + tickcap (pc s) + iters s' /\
  iters s <= iters s'.
Proof.
  intros l s s' H.
  step_cases H; simpl in *; subst; split; simpl; lia.
Qed.

Theorem ticks_le_iters : forall tr s s',
  lrun tr s = Some s' ->
  nticks s' + tickcap (pc s') + iters s <= nticks s + tickcap (pc s) + iters s'.
Proof.
  induction tr as [|l tr IH]; intros s s' H; simpl in H.
  - injection H as <-. lia.
  - destruct (lstep l s) as [s1|] eqn:E; [|discriminate].
    destruct (tick_iter_step l s s1 E). pose proof (IH s1 s' H). lia.
Qed.

(** ... and exactly one in an iteration that is not cut short: from the loop head with a live,
    unfinished bar and free locks, seven ticker steps end at the stop check with one more tick *)
Theorem iteration_ticks_once : forall os s,
  pc s = TUpgrade -> strong s <> 0 -> fin s = false -> barl s = Free -> stopl s = Free ->
  let s' := run_ticker os 7 s in
  pc s' = TCheckStop /\ nticks s' = S (nticks s) /\ iters s' = S (iters s) /\
  barl s' = Free /\ tarc s' = false.
Proof.
  intros os s Hp Hs Hf Hb Hl.
  destruct s as [pc0 fl ow fi st ta bl sl nt it]. simpl in *. subst.
  destruct st as [|st]; [contradiction|].
  cbv [run_ticker tstep upd_pc pc strong Nat.eqb barl stopl is_free_l fin flag tarc nticks iters].
  repeat split; reflexivity.
Qed.

(** manual tick() while a ticker is installed (tick_inner: the slot is not None) *)
Lemma manual_tick_noop : forall tk, tick_inner false tk = tk.
Proof. reflexivity. Qed.
Lemma manual_tick_ticks : forall tk, tick_inner true tk = sat_add64 tk 1.
Proof. reflexivity. Qed.

(** regression (before 6022e97 finish() did not stop the ticker): a parked ticker whose flag is
    not set stays in the wait loop as long as nobody sets the flag and the deadline has not
    passed - notifies and spurious wake-ups do not end the wait, only the time-out does *)
Definition in_wait (p : tpc) : bool :=
  match p with TSleep | TRelock | TCheckStop => true | _ => false end.
Definition quiet (l : label) : bool :=
  match l with LSetStop | LT true => false | _ => true end.

Lemma parked_step : forall l s s',
  lstep l s = Some s' -> quiet l = true -> flag s = false -> in_wait (pc s) = true ->
  flag s' = false /\ in_wait (pc s') = true.
Proof.
  intros l s s' H Hq Hf Hw.
  step_cases H; simpl in *; subst; try discriminate; split; reflexivity.
Qed.

Theorem parked_until_timeout : forall tr s s',
  lrun tr s = Some s' -> forallb quiet tr = true -> flag s = false -> in_wait (pc s) = true ->
  in_wait (pc s') = true.
Proof.
  induction tr as [|l tr IH]; intros s s' H Hq Hf Hw; simpl in H.
  - injection H as <-. exact Hw.
  - destruct (lstep l s) as [s1|] eqn:E; [|discriminate].
    simpl in Hq. apply andb_prop in Hq. destruct Hq as [Hq1 Hq2].
    destruct (parked_step l s s1 E Hq1 Hf Hw) as (Hf1 & Hw1).
    eapply IH; eassumption.
Qed.

(* ------------------------------------------------------------ the generated table *)
Lemma pool_okb_WF : forall ths, pool_okb ths = true -> WF ths.
Proof.
  intros ths H. unfold pool_okb in H. apply andb_prop in H. destruct H as [H1 H2].
  rewrite forallb_forall in H1, H2. split; apply Forall_forall; intros t Hin.
  - specialize (H1 t Hin). apply andb_prop in H1. destruct H1 as [Hh Ho]. split.
    + destruct (held t); [reflexivity|discriminate].
    + exists [code t]. split; [unfold wthread; cbn [code map seg_code List.concat]; symmetry; apply app_nil_r|].
      apply Forall_cons; [exact Ho|apply Forall_nil].
  - specialize (H2 t Hin). intros sl u HinS. unfold spawns_okb in H2.
    rewrite forallb_forall in H2. specialize (H2 _ HinS). simpl in H2.
    destruct (nth_error ths u) as [tu|]; [|discriminate]. exists tu. split; [reflexivity|exact H2].
Qed.

Lemma table_ordered : forall tbl,
  forallb (fun x : String.string * list caction => cordered (snd x)) tbl = true ->
  forall name p, In (name, p) tbl ->
  forall b m k q, Thin (map (inst b m k) p) q -> Ordered q.
Proof.
  intros tbl H name p Hin b m k q HT. rewrite forallb_forall in H.
  specialize (H _ Hin). simpl in H. eapply Ordered_thin; [exact HT|]. apply cordered_inst. exact H.
Qed.




(** the nesting found in the generated footprints: exactly Bar -> Multi and Slot -> Stop
    (plus, through the join under Slot, Slot -> everything the ticker body takes) *)
Definition cpair_eqb (x y : cres * cres) : bool := cres_eqb (fst x) (fst y) && cres_eqb (snd x) (snd y).
Fixpoint cdedup (l : list (cres * cres)) : list (cres * cres) :=
  match l with
  | [] => []
  | x :: r => if existsb (cpair_eqb x) r then cdedup r else x :: cdedup r
  end.

Lemma old_update_rejected :
  cordered old_update_fp = false /\
  cnest_from [] old_update_fp = [(CBar, CSlot); (CSlot, CMulti); (CBar, CMulti)].
Proof. split; vm_compute; reflexivity. Qed.

Lemma join_enabled_when_done : forall s sl u tu,
  lookup sl (jslot s) = Some u -> nth_error (threads s) u = Some tu -> done tu = true ->
  enabled s (Join sl) = true.
Proof. intros s sl u tu Hl Hn Hd. simpl. rewrite Hl, Hn. exact Hd. Qed.

Lemma manual_ticks_noop : forall n tk, Nat.iter n (tick_inner false) tk = tk.
Proof. induction n as [|n IH]; intro tk; simpl; [reflexivity|rewrite IH; reflexivity]. Qed.

(** a reachable, settled state: the ticker parked in its first wait, then Ticker::stop *)
Definition ex_trace : list label :=
  [LT false; LT false; LT false; LT false; LT false; LT false; LT false; LT false;
   LLockStop; LSetStop; LUnlockStop; LNotify].
Lemma ex_settled : exists s, lrun ex_trace (tinit false 1 false) = Some s /\
  treach s /\ flag s = true /\ owed s = false /\ barl s <> ByEnv /\ stopl s <> ByEnv /\ pc s = TRelock.
Proof.
  eexists. split; [vm_compute; reflexivity|]. split.
  - exists false, 1, false, ex_trace. vm_compute. reflexivity.
  - simpl. repeat split; discriminate.
Qed.

(* ------------------------------------------------------------ statements as used in props/C08.v *)
Theorem no_lost_wakeup_reach : forall s tr s',
  treach s -> flag s = true -> owed s = false ->
  lrun tr s = Some s' -> pc s' <> TSleep.
Proof. intros s tr s' H. apply settled_never_sleeps. apply tinv_reach. exact H. Qed.

Theorem no_handles_no_ticks_reach : forall tr s s',
  treach s -> strong s = 0 -> tarc s = false -> lrun tr s = Some s' ->
  nticks s' = nticks s /\ iters s' <= iters s + 1.
Proof. intros tr s s' H Hs Ht Hr. eapply no_handles_no_ticks; eauto. apply tinv_reach. exact H. Qed.

Theorem join_terminates_reach :
  (forall os s, treach s -> flag s = true -> owed s = false ->
     barl s <> ByEnv -> stopl s <> ByEnv ->
     pc (run_ticker os exit_bound s) = TDone) /\
  (forall s sl u tu, lookup sl (jslot s) = Some u -> nth_error (threads s) u = Some tu ->
     done tu = true -> enabled s (Join sl) = true).
Proof.
  split.
  - intros os s H. apply join_terminates. apply tinv_reach. exact H.
  - exact join_enabled_when_done.
Qed.

Theorem manual_tick_thm :
  (forall n tk, Nat.iter n (tick_inner false) tk = tk) /\
  (forall tk, tick_inner true tk = sat_add64 tk 1).
Proof. split; [exact manual_ticks_noop|exact manual_tick_ticks]. Qed.

Theorem ticks_once_thm :
  (forall os s, pc s = TUpgrade -> strong s <> 0 -> fin s = false -> barl s = Free -> stopl s = Free ->
     let s' := run_ticker os 7 s in
     pc s' = TCheckStop /\ nticks s' = S (nticks s) /\ iters s' = S (iters s) /\
     barl s' = Free /\ tarc s' = false) /\
  (forall tr s s', lrun tr s = Some s' ->
     nticks s' + tickcap (pc s') + iters s <= nticks s + tickcap (pc s) + iters s').
Proof. split; [exact iteration_ticks_once|exact ticks_le_iters]. Qed.

(* ------------------------------------------------------------ the stop protocol in the generated table *)
From Coq Require Import String.
Local Open Scope nat_scope.
(** what the ticker automaton (model/Locks.v part 3) takes for granted about the code, checked on
    the generated footprints: Ticker::stop sets the flag under the Stop mutex and then notifies;
    the ticker's wait is the last thing of its loop body and holds the Stop mutex only; every
    finish*/abandon* method, after releasing the bar state, stops the ticker under the slot lock *)
Definition caction_eqb (x y : caction) : bool :=
  match x, y with
  | CAcq a, CAcq b | CRel a, CRel b | CWaitRel a, CWaitRel b => cres_eqb a b
  | CSetStop, CSetStop | CNotify, CNotify | CSpawn, CSpawn | CJoin, CJoin | CCallback, CCallback
  | CTick, CTick | CUpgrade, CUpgrade | CDropArc, CDropArc => true
  | _, _ => false
  end.
Definition ends_with (suffix p : list caction) : bool :=
  list_eqb caction_eqb (skipn (List.length p - List.length suffix) p) suffix && (List.length suffix <=? List.length p).
Definition stop_fp : list caction := [CAcq CStop; CSetStop; CRel CStop; CNotify].
Definition wait_fp : list caction := [CAcq CStop; CWaitRel CStop; CAcq CStop; CRel CStop].
Definition wake_fp : list caction := CRel CBar :: CAcq CSlot :: stop_fp ++ [CRel CSlot].
Definition finish_names : list String.string :=
  ["ProgressBar::finish"; "ProgressBar::finish_with_message"; "ProgressBar::finish_and_clear";
   "ProgressBar::abandon"; "ProgressBar::abandon_with_message"; "ProgressBar::finish_using_style"]%string.
Definition stop_protocol_ok (tbl : list (String.string * list caction)) (body : list caction) : bool :=
  match fp_lookup "Ticker::stop"%string tbl with
  | Some p => list_eqb caction_eqb p stop_fp
  | None => false
  end &&
  match fp_lookup "Ticker::drop:drop"%string tbl with
  | Some p => list_eqb caction_eqb p (stop_fp ++ [CJoin])
  | None => false
  end &&
  ends_with wait_fp body &&
  forallb (fun n => match fp_lookup n tbl with Some p => ends_with wake_fp p | None => false end) finish_names.


(* ------------------------------------------------------------ structured programs: soundness of [check] *)
Section cprog_induction.
  Variable P : cprog -> Prop.
  Hypothesis HA : forall a, P (PAct a).
  Hypothesis HS : forall l, Forall P l -> P (PSeq l).
  Hypothesis HB : forall l, Forall P l -> P (PBranch l).
  Hypothesis HL : forall b, P b -> P (PLoop b).
  Hypothesis HE : forall c, P c -> P (PExit c).
  Fixpoint cprog_ind' (p : cprog) : P p :=
    match p with
    | PAct a => HA a
    | PSeq l => HS l ((fix go (l : list cprog) : Forall P l :=
                         match l with
                         | [] => Forall_nil P
                         | q :: r => Forall_cons q (cprog_ind' q) (go r)
                         end) l)
    | PBranch l => HB l ((fix go (l : list cprog) : Forall P l :=
                            match l with
                            | [] => Forall_nil P
                            | q :: r => Forall_cons q (cprog_ind' q) (go r)
                            end) l)
    | PLoop b => HL b (cprog_ind' b)
    | PExit c => HE c (cprog_ind' c)
    end.
End cprog_induction.

Lemma cres_eqb_eq : forall x y, cres_eqb x y = true -> x = y.
Proof. destruct x, y; simpl; intro H; try discriminate; reflexivity. Qed.

Lemma cres_eqb_refl : forall x, cres_eqb x x = true.
Proof. destruct x; reflexivity. Qed.

Lemma hl_eqb_eq : forall x y, hl_eqb x y = true -> x = y.
Proof.
  unfold hl_eqb. induction x as [|a x IH]; destruct y as [|b y]; simpl; intro H; try discriminate.
  - reflexivity.
  - apply andb_prop in H. destruct H as [H1 H2]. apply cres_eqb_eq in H1. subst b.
    rewrite (IH y H2). reflexivity.
Qed.

(** soundness of the generic abstract interpreter: from any entry state in [ss], every path of [p]
    runs without violation and ends in a state of the computed set *)
Section AbstractInterpreterSound.
  Variable S : Type.
  Variable seqb : S -> S -> bool.
  Hypothesis seqb_eq : forall x y, seqb x y = true -> x = y.
  Variable stepf : caction -> S -> option S.

  Lemma smem_In : forall x ss, smem S seqb x ss = true -> In x ss.
  Proof.
    intros x ss H. unfold smem in H. apply existsb_exists in H. destruct H as (y & Hin & He).
    apply seqb_eq in He. subst y. exact Hin.
  Qed.

  Lemma In_sdedup : forall x ss, In x ss -> In x (sdedup S seqb ss).
  Proof.
    induction ss as [|y r IH]; intro H; [contradiction|]. simpl.
    destruct (smem S seqb y r) eqn:E.
    - destruct H as [->|H]; [apply IH; apply smem_In; exact E|apply IH; exact H].
    - destruct H as [->|H]; [left; reflexivity|right; apply IH; exact H].
  Qed.

  Lemma arun_app : forall t1 s t2,
    arun stepf s (t1 ++ t2) = match arun stepf s t1 with Some s' => arun stepf s' t2 | None => None end.
  Proof.
    induction t1 as [|a t1 IH]; intros s t2; simpl; [reflexivity|].
    destruct (stepf a s); [apply IH|reflexivity].
  Qed.

  Lemma astep_all_sound : forall a ss o, astep_all S stepf a ss = Some o ->
    forall s, In s ss -> exists s', stepf a s = Some s' /\ In s' o.
  Proof.
    induction ss as [|x r IH]; intros o H s Hin; [contradiction|].
    simpl in H. destruct (stepf a x) as [x'|] eqn:E1; [|discriminate].
    destruct (astep_all S stepf a r) as [o'|] eqn:E2; [|discriminate]. injection H as <-.
    destruct Hin as [->|Hin].
    - exists x'. split; [exact E1|left; reflexivity].
    - destruct (IH o' eq_refl s Hin) as (s' & H1 & H2). exists s'. split; [exact H1|right; exact H2].
  Qed.

  Theorem acheck_sound : forall p ss outs, acheck seqb stepf p ss = Some outs ->
    forall s tr, In s ss -> paths p tr -> exists s', arun stepf s tr = Some s' /\ In s' outs.
  Proof.
    induction p as [a|l IHl|alts IHa|b IHb|c IHc] using cprog_ind'; intros ss outs H s tr Hin Hp.
    - (* PAct *)
      inversion Hp; subst. simpl in H.
      destruct (astep_all S stepf a ss) as [o|] eqn:E; [|discriminate]. simpl in H. injection H as <-.
      destruct (astep_all_sound a ss o E s Hin) as (s' & H1 & H2).
      exists s'. split; [simpl; rewrite H1; reflexivity|apply In_sdedup; exact H2].
    - (* PSeq *)
      inversion Hp as [|l0 trs HF| | |]; subst. clear Hp. simpl in H.
      revert IHl ss outs H s Hin.
      induction HF as [|q t l' trs' Hq HF' IH2]; intros IHl ss outs H s Hin.
      + injection H as <-. exists s. split; [reflexivity|exact Hin].
      + destruct (acheck seqb stepf q ss) as [ss1|] eqn:E; [|discriminate].
        inversion IHl as [|? ? IHq IHl']; subst.
        destruct (IHq ss ss1 E s t Hin Hq) as (s1 & R1 & In1).
        destruct (IH2 IHl' ss1 outs H s1 In1) as (s2 & R2 & In2).
        exists s2. split; [|exact In2]. simpl. rewrite arun_app, R1. exact R2.
    - (* PBranch *)
      inversion Hp as [| |alts0 p tr0 Hpin Hpp| |]; subst. clear Hp. simpl in H.
      match type of H with option_map _ ?X = _ => destruct X as [o|] eqn:G end; [|discriminate].
      simpl in H. injection H as <-.
      assert (Hex : exists s', arun stepf s tr = Some s' /\ In s' o).
      { revert o G. induction alts as [|q r IHr]; intros o G; [contradiction|].
        destruct (acheck seqb stepf q ss) as [oa|] eqn:E1; [|discriminate].
        match type of G with match ?X with _ => _ end = _ => destruct X as [ob|] eqn:E2 end; [|discriminate].
        injection G as <-. inversion IHa as [|? ? IHq IHr']; subst.
        destruct Hpin as [->|Hpin].
        - destruct (IHq ss oa E1 s tr Hin Hpp) as (s' & R & I). exists s'. split; [exact R|].
          apply in_or_app. left. exact I.
        - destruct (IHr IHr' Hpin ob eq_refl) as (s' & R & I). exists s'. split; [exact R|].
          apply in_or_app. right. exact I. }
      destruct Hex as (s' & R & I). exists s'. split; [exact R|apply In_sdedup; exact I].
    - (* PLoop *)
      inversion Hp as [| | |b0 trs HF|]; subst. clear Hp. simpl in H.
      destruct (acheck seqb stepf b ss) as [ss'|] eqn:E; [|discriminate].
      destruct (forallb (fun x => smem S seqb x ss) ss') eqn:F; [|discriminate]. injection H as <-.
      revert s Hin. induction HF as [|t trs' Ht HF' IH2]; intros s Hin.
      + exists s. split; [reflexivity|exact Hin].
      + destruct (IHb ss ss' E s t Hin Ht) as (s1 & R1 & In1).
        rewrite forallb_forall in F. pose proof (smem_In _ _ (F s1 In1)) as In1'.
        destruct (IH2 s1 In1') as (s2 & R2 & In2).
        exists s2. split; [|exact In2]. simpl. rewrite arun_app, R1. exact R2.
    - (* PExit *)
      inversion Hp; subst. simpl in H. eapply IHc; eassumption.
  Qed.
End AbstractInterpreterSound.

Lemma forallb_and_l : forall A (f g : A -> bool) l,
  forallb (fun x => f x && g x) l = true -> forallb f l = true /\ forallb g l = true.
Proof.
  induction l as [|x l IH]; simpl; intro H; [split; reflexivity|].
  apply andb_prop in H. destruct H as [H1 H2]. apply andb_prop in H1. destruct H1 as [Hf Hg].
  destruct (IH H2) as [I1 I2]. rewrite Hf, Hg, I1, I2. split; reflexivity.
Qed.

Lemma crun_g_cordered : forall ok tr h, crun_g ok h tr = Some [] -> cordered_from h tr = true.
Proof.
  intros ok. unfold crun_g. induction tr as [|a tr IH]; intros h H; simpl in H.
  - injection H as ->. reflexivity.
  - destruct (cstep_g ok a h) as [h'|] eqn:E; [|discriminate].
    destruct a as [c|c|c| | | | | | | | ]; simpl in E |- *;
      try (injection E as <-; apply IH; exact H).
    + destruct (forallb (fun x => (crank x <? crank c) && ok x c) h) eqn:F; [|discriminate].
      injection E as <-. apply forallb_and_l in F. destruct F as [F _]. rewrite F. simpl. apply IH. exact H.
    + destruct (existsb (cres_eqb c) h); [|discriminate].
      injection E as <-. simpl. apply IH. exact H.
    + destruct h as [|x [|y h]]; try discriminate.
      destruct (cres_eqb x c); [|discriminate]. injection E as <-. simpl. apply IH. exact H.
    + destruct (forallb (fun x => crank x <? join_rank) h); [|discriminate].
      injection E as <-. simpl. apply IH. exact H.
Qed.

(** every nesting of a run that satisfies the extra condition [ok] satisfies it *)
Lemma crun_g_nest : forall ok tr h h', crun_g ok h tr = Some h' ->
  forallb (fun pr => ok (fst pr) (snd pr)) (cnest_from h tr) = true.
Proof.
  intros ok. unfold crun_g. induction tr as [|a tr IH]; intros h h' H; simpl in H; [reflexivity|].
  destruct (cstep_g ok a h) as [h1|] eqn:E; [|discriminate].
  destruct a as [c|c|c| | | | | | | | ]; simpl in E |- *;
    try (injection E as <-; eapply IH; exact H).
  - destruct (forallb (fun x => (crank x <? crank c) && ok x c) h) eqn:F; [|discriminate].
    injection E as <-. apply forallb_and_l in F. destruct F as [_ F].
    rewrite forallb_app. rewrite forallb_map_eq. simpl. rewrite F. simpl. eapply IH. exact H.
  - destruct (existsb (cres_eqb c) h); [|discriminate]. injection E as <-. eapply IH. exact H.
  - destruct h as [|x [|y h]]; try discriminate.
    destruct (cres_eqb x c) eqn:Ex; [|discriminate]. injection E as <-. simpl. rewrite Ex. eapply IH. exact H.
  - destruct (forallb (fun x => crank x <? join_rank) h); [|discriminate]. injection E as <-. eapply IH. exact H.
Qed.

Theorem check_g_sound : forall ok p hs outs, check_g ok p hs = Some outs ->
  forall h tr, In h hs -> paths p tr -> exists h', crun_g ok h tr = Some h' /\ In h' outs.
Proof. intros ok. unfold check_g, crun_g. apply acheck_sound. exact hl_eqb_eq. Qed.

Lemma all_nil_In : forall outs h, all_nil outs = true -> In h outs -> h = [].
Proof.
  intros outs h H Hin. unfold all_nil in H. rewrite forallb_forall in H. specialize (H h Hin).
  destruct h; [reflexivity|discriminate].
Qed.

Theorem prog_ordered_sound : forall p, prog_ordered p = true ->
  forall tr, paths p tr -> cordered tr = true.
Proof.
  intros p H tr Hp. unfold prog_ordered, check in H.
  destruct (check_g ok_any p [[]]) as [outs|] eqn:E; [|discriminate].
  destruct (check_g_sound ok_any p [[]] outs E [] tr (or_introl eq_refl) Hp) as (h' & R & I).
  rewrite (all_nil_In outs h' H I) in R. unfold cordered. eapply crun_g_cordered. exact R.
Qed.

(** the order is derived on ALL paths: with [prog_nest_ok allowed p], every nesting (held, acquired)
    of every path of [p] is in [allowed] (and the path is Ordered) *)
Theorem prog_nest_sound : forall allowed p, prog_nest_ok allowed p = true ->
  forall tr, paths p tr ->
  cordered tr = true /\
  forall x r, In (x, r) (cnest_from [] tr) -> pair_in allowed x r = true.
Proof.
  intros allowed p H tr Hp. unfold prog_nest_ok in H.
  destruct (check_g (pair_in allowed) p [[]]) as [outs|] eqn:E; [|discriminate].
  destruct (check_g_sound _ p [[]] outs E [] tr (or_introl eq_refl) Hp) as (h' & R & I).
  split.
  - rewrite (all_nil_In outs h' H I) in R. unfold cordered. eapply crun_g_cordered. exact R.
  - intros x r Hin. pose proof (crun_g_nest _ tr [] h' R) as F. rewrite forallb_forall in F.
    exact (F (x, r) Hin).
Qed.

(** a scripted path is a path *)
Theorem choose_sound : forall d p sc tr sc', choose d p sc = Some (tr, sc') -> paths p tr.
Proof.
  intros d. induction p as [a|l IHl|alts IHa|b IHb|c IHc] using cprog_ind'; intros sc tr sc' H.
  - simpl in H. injection H as <- <-. constructor.
  - simpl in H.
    assert (G : exists trs, Forall2 paths l trs /\ tr = List.concat trs).
    { revert sc tr sc' H. induction l as [|q r IHr]; intros sc tr sc' H.
      - injection H as <- <-. exists []. split; [constructor|reflexivity].
      - inversion IHl as [|? ? IHq IHl']; subst.
        destruct (choose d q sc) as [[t1 sc1]|] eqn:E1; [|discriminate].
        match type of H with match ?X with _ => _ end = _ => destruct X as [[t2 sc2]|] eqn:E2 end; [|discriminate].
        injection H as <- <-.
        destruct (IHr IHl' sc1 t2 sc2 E2) as (trs & HF & ->).
        exists (t1 :: trs). split; [constructor; [eapply IHq; exact E1|exact HF]|reflexivity]. }
    destruct G as (trs & HF & ->). constructor. exact HF.
  - assert (G : forall s0 i,
      (fix pick (l : list cprog) (i : nat) {struct l} : option (list caction * list nat) :=
         match l, i with
         | [], _ => None
         | [q], _ => choose d q s0
         | q :: _, O => choose d q s0
         | _ :: r, S j => pick r j
         end) alts i = Some (tr, sc') -> paths (PBranch alts) tr).
    { clear H. intros s0. induction alts as [|q r IHr]; intros i H0; [discriminate|].
      inversion IHa as [|? ? IHq IHa']; subst.
      destruct r as [|q2 r2].
      - eapply pa_branch; [left; reflexivity|]. destruct i; eapply IHq; exact H0.
      - destruct i as [|j].
        + eapply pa_branch; [left; reflexivity|eapply IHq; exact H0].
        + specialize (IHr IHa' j H0). inversion IHr; subst.
          eapply pa_branch; [right; eassumption|assumption]. }
    simpl in H. destruct sc as [|i sc0]; [exact (G [] d H)|exact (G sc0 i H)].
  - simpl in H.
    assert (G : forall n sc tr sc',
      (fix it (n : nat) (sc : list nat) : option (list caction * list nat) :=
         match n with
         | O => Some ([], sc)
         | S m => match choose d b sc with
                  | Some (t1, sc1) => match it m sc1 with
                                      | Some (t2, sc2) => Some (t1 ++ t2, sc2)
                                      | None => None
                                      end
                  | None => None
                  end
         end) n sc = Some (tr, sc') -> exists trs, Forall (paths b) trs /\ tr = List.concat trs).
    { induction n as [|m IHm]; intros sc0 tr0 sc0' H0.
      - injection H0 as <- <-. exists []. split; [constructor|reflexivity].
      - destruct (choose d b sc0) as [[t1 sc1]|] eqn:E1; [|discriminate].
        match type of H0 with match ?X with _ => _ end = _ => destruct X as [[t2 sc2]|] eqn:E2 end; [|discriminate].
        injection H0 as <- <-. destruct (IHm sc1 t2 sc2 E2) as (trs & HF & ->).
        exists (t1 :: trs). split; [constructor; [eapply IHb; exact E1|exact HF]|reflexivity]. }
    destruct sc as [|n sc0]; destruct (G _ _ _ _ H) as (trs & HF & ->); constructor; exact HF.
  - simpl in H. constructor. eapply IHc. exact H.
Qed.

Lemma path_of_paths : forall d p sc, choose d p sc <> None -> paths p (path_of d p sc).
Proof.
  intros d p sc H. unfold path_of. destruct (choose d p sc) as [[tr sc']|] eqn:E; [|contradiction].
  eapply choose_sound. exact E.
Qed.

(** paths only use actions that occur in the program *)
Lemma In_pactions_list : forall (f : cprog -> list caction) l q a,
  In q l -> In a (f q) ->
  In a ((fix go (l : list cprog) := match l with [] => [] | q :: r => f q ++ go r end) l).
Proof.
  induction l as [|x r IH]; intros q a Hq Ha; [contradiction|].
  apply in_or_app. destruct Hq as [->|Hq]; [left; exact Ha|right; eapply IH; eassumption].
Qed.

Lemma paths_actions : forall p tr, paths p tr -> forall a, In a tr -> In a (pactions p).
Proof.
  induction p as [a0|l IHl|alts IHa|b IHb|c IHc] using cprog_ind'; intros tr Hp a Ha.
  - inversion Hp; subst. exact Ha.
  - inversion Hp as [|l0 trs HF| | |]; subst. clear Hp. simpl.
    revert IHl Ha. induction HF as [|q t l' trs' Hq HF' IH2]; intros IHl Ha; [contradiction|].
    inversion IHl as [|? ? IHq IHl']; subst. simpl in Ha. apply in_app_or in Ha.
    apply in_or_app. destruct Ha as [Ha|Ha]; [left; eapply IHq; eassumption|right; apply IH2; assumption].
  - inversion Hp as [| |alts0 p tr0 Hpin Hpp| |]; subst. clear Hp. simpl.
    rewrite Forall_forall in IHa.
    apply (In_pactions_list pactions alts p a Hpin). eapply IHa; eassumption.
  - inversion Hp as [| | |b0 trs HF|]; subst. clear Hp. simpl.
    induction HF as [|t trs' Ht HF' IH2]; [contradiction|].
    simpl in Ha. apply in_app_or in Ha. destruct Ha as [Ha|Ha]; [eapply IHb; eassumption|apply IH2; exact Ha].
  - inversion Hp; subst. simpl. eapply IHc; eassumption.
Qed.

Theorem prog_worker_sound : forall p, prog_worker p = true ->
  forall tr, paths p tr -> cworker_ok tr = true.
Proof.
  intros p H tr Hp. unfold prog_worker in H. unfold cworker_ok.
  rewrite forallb_forall in *. intros a Ha. apply H. eapply paths_actions; eassumption.
Qed.

(* ------------------------------------------------------------ the generated programs *)
Lemma generated_programs_ordered :
  forallb (fun np : String.string * cprog => prog_ordered (snd np)) all_programs = true.
Proof. vm_compute. reflexivity. Qed.

(** the two generated tables agree: the textual-order linearisation of every structured program is
    the flat footprint of the same name *)
Lemma generated_tables_agree :
  map (fun np : String.string * cprog => (fst np, linear (snd np))) all_programs = all_footprints.
Proof. vm_compute. reflexivity. Qed.

Lemma generated_ticker_prog :
  In ("TickerControl::run"%string, ticker_prog) all_programs /\
  prog_worker ticker_prog = true /\ prog_ordered ticker_prog = true /\
  exists body, ticker_prog = PLoop body /\ linear body = ticker_body.
Proof.
  split; [vm_compute; tauto|]. split; [vm_compute; reflexivity|]. split; [vm_compute; reflexivity|].
  eexists. split; [reflexivity|vm_compute; reflexivity].
Qed.

Theorem all_paths_ordered : forall name p, In (name, p) all_programs ->
  forall tr, paths p tr ->
  cordered tr = true /\ forall b m k, Ordered (map (inst b m k) tr).
Proof.
  intros name p Hin tr Hp.
  pose proof generated_programs_ordered as H. rewrite forallb_forall in H.
  specialize (H _ Hin). simpl in H.
  pose proof (prog_ordered_sound p H tr Hp) as Hc.
  split; [exact Hc|]. intros b m k. apply cordered_inst. exact Hc.
Qed.

Theorem ticker_paths_worker : forall tr, paths ticker_prog tr ->
  forall b m k, Ordered (map (inst b m k) tr) /\ worker_ok (map (inst b m k) tr) = true.
Proof.
  intros tr Hp b m k. destruct generated_ticker_prog as (Hin & Hw & _).
  split.
  - apply (proj2 (all_paths_ordered _ _ Hin tr Hp)).
  - apply cworker_inst. eapply prog_worker_sound; eassumption.
Qed.

Lemma WFp_WF : forall ths, WFp all_programs ths -> WF ths.
Proof.
  intros ths [H1 H2]. split; [|exact H2].
  rewrite Forall_forall in *. intros t Hin. destruct (H1 t Hin) as [Hh (segs & Hc & Hs)].
  split; [exact Hh|]. exists (map seg_code segs). split; [exact Hc|].
  rewrite Forall_forall in *. intros fp Hfp. apply in_map_iff in Hfp.
  destruct Hfp as (sg & <- & Hsg). specialize (Hs sg Hsg).
  destruct sg as [[p [[b m] k]] tr]. simpl in *. destruct Hs as [(name & Hn) Hp].
  apply (proj2 (all_paths_ordered name p Hn tr Hp)).
Qed.

(** no deadlock, stated over PATHS of the generated programs, for every lock implementation in which
    a free lock can be taken ([en]; exclusive locks, shared readers, ...) *)
Theorem no_deadlock_paths_g : forall en,
  (forall s i a, enabled s a = true -> en s i a = true) ->
  forall ths s, WFp all_programs ths -> greachable en (init ths) s ->
  (exists i t, nth_error (threads s) i = Some t /\ unfinished t = true) ->
  exists j s', gstep en s j = Some s'.
Proof.
  intros en Hen ths s HW HR HU. eapply no_deadlock_g; eauto. apply WFp_WF. exact HW.
Qed.

Theorem no_deadlock_paths : forall ths s,
  WFp all_programs ths -> reachable (init ths) s ->
  (exists i t, nth_error (threads s) i = Some t /\ unfinished t = true) ->
  exists j s', step s j = Some s'.
Proof.
  intros ths s HW HR HU. apply (no_deadlock ths s (WFp_WF ths HW) HR HU).
Qed.

Theorem no_deadlock_shared_reads : forall reader ths s,
  WFp all_programs ths -> greachable (en_shared reader) (init ths) s ->
  (exists i t, nth_error (threads s) i = Some t /\ unfinished t = true) ->
  exists j s', gstep (en_shared reader) s j = Some s'.
Proof. intros reader. apply no_deadlock_paths_g. apply en_shared_perm. Qed.

(** shared readers really are more permissive: two readers hold the same Multi lock, which the
    exclusive semantics never allows - and the state is still covered by the theorem *)
Definition rd_pool : list thread :=
  [ uthread [Acq (Multi 0); Rel (Multi 0)]; uthread [Acq (Multi 0); Rel (Multi 0)] ].
Lemma shared_readers_example :
  exists s1 s2, gstep (en_shared (fun _ => true)) (init rd_pool) 0 = Some s1 /\
                gstep (en_shared (fun _ => true)) s1 1 = Some s2 /\
                step s1 1 = None /\
                forallb (fun t => holds t (Multi 0)) (threads s2) = true.
Proof. eexists. eexists. repeat split; vm_compute; reflexivity. Qed.

(** a path of a generated program *)
Definition is_finished_name : String.string := "ProgressBar::is_finished"%string.
Lemma paths_example :
  exists p, In (is_finished_name, p) all_programs /\
            paths p [CAcq CBar; CRel CBar].
Proof.
  eexists. split; [vm_compute; tauto|].
  change [CAcq CBar; CRel CBar] with (List.concat [[CAcq CBar]; [CRel CBar]]).
  apply pa_seq. repeat constructor.
Qed.

(* ------------------------------------------------------------ erasing a lock class *)
Lemma hfilter_cremove1_same : forall c h, hfilter c (cremove1 c h) = hfilter c h.
Proof.
  induction h as [|x h IH]; simpl; [reflexivity|].
  destruct (cres_eqb x c) eqn:E; simpl; [reflexivity|]. rewrite E. simpl. rewrite IH. reflexivity.
Qed.

Lemma hfilter_cremove1_other : forall c r h, cres_eqb r c = false ->
  hfilter c (cremove1 r h) = cremove1 r (hfilter c h).
Proof.
  intros c r h Hrc. induction h as [|x h IH]; simpl; [reflexivity|].
  destruct (cres_eqb x r) eqn:Exr.
  - apply cres_eqb_eq in Exr. subst x. rewrite Hrc. simpl. rewrite cres_eqb_refl. reflexivity.
  - simpl. destruct (cres_eqb x c) eqn:Exc; simpl; [exact IH|]. rewrite Exr, IH. reflexivity.
Qed.

Lemma forallb_hfilter : forall (f : cres -> bool) c h, forallb f h = true -> forallb f (hfilter c h) = true.
Proof.
  intros f c h. induction h as [|x h IH]; simpl; intro H; [reflexivity|].
  apply andb_prop in H. destruct H as [H1 H2].
  destruct (cres_eqb x c); simpl; [apply IH; exact H2|rewrite H1; apply IH; exact H2].
Qed.

Lemma existsb_hfilter : forall c r h, cres_eqb r c = false ->
  existsb (cres_eqb r) h = true -> existsb (cres_eqb r) (hfilter c h) = true.
Proof.
  intros c r h Hrc. induction h as [|x h IH]; simpl; intro H; [discriminate|].
  destruct (cres_eqb r x) eqn:E.
  - apply cres_eqb_eq in E. subst x. rewrite Hrc. simpl. rewrite cres_eqb_refl. reflexivity.
  - simpl in H. destruct (cres_eqb x c); simpl; [apply IH; exact H|rewrite E; apply IH; exact H].
Qed.

(** erasing a lock class preserves the discipline (e.g. the paths of a bar that is not a member of a
    MultiProgress are the paths of the generated programs with [CMulti] erased) *)
Theorem cordered_erase : forall c tr h,
  cordered_from h tr = true -> cordered_from (hfilter c h) (cerase c tr) = true.
Proof.
  intros c. induction tr as [|a tr IH]; intros h H.
  - simpl in *. destruct h; [reflexivity|discriminate].
  - destruct a as [r|r|r| | | | | | | | ]; simpl in H |- *; try (apply IH; exact H).
    + apply andb_prop in H. destruct H as [H1 H2]. specialize (IH _ H2). simpl in IH.
      destruct (cres_eqb r c) eqn:E; simpl in IH |- *.
      * exact IH.
      * rewrite (forallb_hfilter _ c h H1). exact IH.
    + apply andb_prop in H. destruct H as [H1 H2]. specialize (IH _ H2).
      destruct (cres_eqb r c) eqn:E.
      * apply cres_eqb_eq in E. subst r. rewrite hfilter_cremove1_same in IH. exact IH.
      * simpl. rewrite (existsb_hfilter c r h E H1). rewrite <- hfilter_cremove1_other by exact E. exact IH.
    + destruct h as [|x [|y h]]; try discriminate.
      apply andb_prop in H. destruct H as [H1 H2]. apply cres_eqb_eq in H1. subst x.
      specialize (IH _ H2). simpl in IH.
      destruct (cres_eqb r c) eqn:E; simpl; [rewrite E; simpl; exact IH|].
      rewrite E. simpl. rewrite cres_eqb_refl. exact IH.
    + apply andb_prop in H. destruct H as [H1 H2].
      rewrite (forallb_hfilter _ c h H1). apply IH. exact H2.
Qed.

Theorem all_paths_erased_ordered : forall name p, In (name, p) all_programs ->
  forall tr, paths p tr -> forall c, cordered (cerase c tr) = true.
Proof.
  intros name p Hin tr Hp c. destruct (all_paths_ordered name p Hin tr Hp) as [Hc _].
  exact (cordered_erase c tr [] Hc).
Qed.

(* ------------------------------------------------------------ obligations over ALL PATHS of the generated programs *)
(** (the flat-table versions - [table_ordered], [stop_protocol_ok], [cnest_from] on [all_footprints] - are
    no longer instantiated: a harmless rewrite may make a linearisation unbalanced; the flat table
    stays a checked view of the programs through [generated_tables_agree]) *)

Lemma enum_sound : forall p L, enum p = Some L -> forall tr, paths p tr -> In tr L.
Proof.
  induction p as [a|l IHl|alts IHa|b IHb|c IHc] using cprog_ind'; intros L H tr Hp.
  - inversion Hp; subst. simpl in H. injection H as <-. left. reflexivity.
  - inversion Hp as [|l0 trs HF| | |]; subst. clear Hp. simpl in H.
    revert IHl L H. induction HF as [|q t l' trs' Hq HF' IH2]; intros IHl L H.
    + injection H as <-. left. reflexivity.
    + inversion IHl as [|? ? IHq IHl']; subst.
      destruct (enum q) as [A|] eqn:E1; [|discriminate].
      match type of H with match ?X with _ => _ end = _ => destruct X as [B|] eqn:E2 end; [|discriminate].
      injection H as <-. simpl. apply in_flat_map. exists t. split; [eapply IHq; eauto|].
      apply in_map. eapply IH2; eauto.
  - inversion Hp as [| |alts0 p tr0 Hpin Hpp| |]; subst. clear Hp. simpl in H.
    revert L H. induction alts as [|q r IHr]; intros L H; [contradiction|].
    inversion IHa as [|? ? IHq IHa']; subst.
    destruct (enum q) as [A|] eqn:E1; [|discriminate].
    match type of H with match ?X with _ => _ end = _ => destruct X as [B|] eqn:E2 end; [|discriminate].
    injection H as <-. apply in_or_app. destruct Hpin as [->|Hpin].
    + left. eapply IHq; eauto.
    + right. eapply IHr; eauto.
  - discriminate.
  - inversion Hp; subst. simpl in H. eapply IHc; eauto.
Qed.

Lemma enum_forall : forall p L (f : list caction -> bool), enum p = Some L -> forallb f L = true ->
  forall tr, paths p tr -> f tr = true.
Proof.
  intros p L f HE HF tr Hp. rewrite forallb_forall in HF. apply HF. eapply enum_sound; eauto.
Qed.

Definition allowed_nesting : list (cres * cres) := [(CSlot, CStop); (CBar, CMulti)].

Lemma generated_nest_ok :
  forallb (fun np : String.string * cprog => prog_nest_ok allowed_nesting (snd np)) all_programs = true.
Proof. vm_compute. reflexivity. Qed.

(** every path of every generated program (every instance) is Ordered; every path of the ticker
    program is Ordered and a legal worker *)
Theorem footprints_ordered_paths :
  (forall name p, In (name, p) all_programs -> forall tr, paths p tr ->
     cordered tr = true /\ forall b m k, Ordered (map (inst b m k) tr)) /\
  (forall tr, paths ticker_prog tr ->
     forall b m k, Ordered (map (inst b m k) tr) /\ worker_ok (map (inst b m k) tr) = true).
Proof. split; [exact all_paths_ordered|exact ticker_paths_worker]. Qed.

(** the order is derived on all paths: the only nestings are Slot -> Stop and Bar -> Multi, and both occur *)
Theorem nesting_derived_paths :
  (forall name p, In (name, p) all_programs -> forall tr, paths p tr ->
     forall x r, In (x, r) (cnest_from [] tr) -> (x, r) = (CSlot, CStop) \/ (x, r) = (CBar, CMulti)) /\
  (exists name p tr, In (name, p) all_programs /\ paths p tr /\
     In (CSlot, CStop) (cnest_from [] tr) /\ In (CBar, CMulti) (cnest_from [] tr)).
Proof.
  split.
  - intros name p Hin tr Hp x r Hn.
    pose proof generated_nest_ok as H. rewrite forallb_forall in H. specialize (H _ Hin). simpl in H.
    destruct (prog_nest_sound allowed_nesting p H tr Hp) as [_ Hall]. specialize (Hall x r Hn).
    destruct x, r; simpl in Hall; try discriminate; auto.
  - exists "ProgressBar::finish"%string.
    destruct (pg_lookup "ProgressBar::finish"%string all_programs) as [p|] eqn:E; [|vm_compute in E; discriminate].
    exists p, (path_of 0 p []).
    assert (Hin : In ("ProgressBar::finish"%string, p) all_programs).
    { vm_compute in E. injection E as <-. vm_compute. tauto. }
    split; [exact Hin|]. split.
    + apply path_of_paths. vm_compute in E. injection E as <-. vm_compute. discriminate.
    + vm_compute in E. injection E as <-. vm_compute. tauto.
Qed.

(** the stop protocol on all paths of the programs *)
Definition noticker_wake_fp : list caction := [CRel CBar; CAcq CSlot; CRel CSlot].
Definition enum_all (tbl : list (String.string * cprog)) (name : String.string) (f : list caction -> bool) : bool :=
  match pg_lookup name tbl with
  | Some p => match enum p with Some L => forallb f L | None => false end
  | None => false
  end.
Definition stop_protocol_p (tbl : list (String.string * cprog)) : bool :=
  enum_all tbl "Ticker::stop" (fun tr => list_eqb caction_eqb tr stop_fp) &&
  enum_all tbl "Ticker::drop:drop"
    (fun tr => list_eqb caction_eqb tr (stop_fp ++ [CJoin]) || list_eqb caction_eqb tr stop_fp) &&
  forallb (fun n => enum_all tbl n (fun tr => ends_with wake_fp tr || ends_with noticker_wake_fp tr)) finish_names.

Lemma generated_stop_protocol_p : stop_protocol_p all_programs = true.
Proof. vm_compute. reflexivity. Qed.

Lemma enum_all_paths : forall tbl name f, enum_all tbl name f = true ->
  exists p, pg_lookup name tbl = Some p /\ forall tr, paths p tr -> f tr = true.
Proof.
  intros tbl name f H. unfold enum_all in H.
  destruct (pg_lookup name tbl) as [p|]; [|discriminate]. exists p. split; [reflexivity|].
  destruct (enum p) as [L|] eqn:E; [|discriminate]. eapply enum_forall; eauto.
Qed.

(** what the ticker automaton takes for granted about the code, on ALL PATHS of the generated programs:
    the only path of Ticker::stop is lock Stop, set the flag, unlock, notify; Ticker::drop is stop and
    then (if there is a handle) join; every path of every finish*/abandon* method ends with: release
    the bar state, lock the slot, (if a ticker is installed: stop it), unlock the slot *)
Definition Ticker_stop_name : String.string := "Ticker::stop".
Definition Ticker_drop_name : String.string := "Ticker::drop:drop".
Definition ProgressBar_tick_name : String.string := "ProgressBar::tick".
Theorem stop_protocol_paths :
  (exists p, pg_lookup Ticker_stop_name all_programs = Some p /\
     forall tr, paths p tr -> list_eqb caction_eqb tr stop_fp = true) /\
  (exists p, pg_lookup Ticker_drop_name all_programs = Some p /\
     forall tr, paths p tr ->
       list_eqb caction_eqb tr (stop_fp ++ [CJoin]) || list_eqb caction_eqb tr stop_fp = true) /\
  (forall n, In n finish_names ->
     exists p, pg_lookup n all_programs = Some p /\
       forall tr, paths p tr -> ends_with wake_fp tr || ends_with noticker_wake_fp tr = true).
Proof.
  pose proof generated_stop_protocol_p as H. unfold stop_protocol_p in H.
  apply andb_prop in H. destruct H as [H H3]. apply andb_prop in H. destruct H as [H1 H2].
  split; [exact (enum_all_paths _ _ _ H1)|]. split; [exact (enum_all_paths _ _ _ H2)|].
  intros n Hn. rewrite forallb_forall in H3. exact (enum_all_paths _ _ _ (H3 n Hn)).
Qed.

(** ProgressBar::tick_inner and BarState::tick are what [Locks.tick_inner] transcribes: the generated
    source pins (comments stripped, white space normalised) are literally these two bodies *)
Lemma generated_tick_sources :
  src_tick_inner = "if self.ticker.lock().unwrap().is_none() { self.state().tick(now); }"%string /\
  src_barstate_tick = "self.state.tick = self.state.tick.saturating_add(1); self.update_estimate_and_draw(now);"%string.
Proof. split; reflexivity. Qed.

(** ... and in the structured program of ProgressBar::tick the tick lies in one alternative of the branch
    that follows the slot test: the other alternative is the path "lock the slot, unlock it, nothing else" *)
Lemma generated_tick_program :
  exists p, pg_lookup "ProgressBar::tick" all_programs = Some p /\ paths p [CAcq CSlot; CRel CSlot].
Proof.
  destruct (pg_lookup "ProgressBar::tick"%string all_programs) as [p|] eqn:E; [|vm_compute in E; discriminate].
  exists p. split; [reflexivity|]. vm_compute in E. injection E as <-.
  match goal with |- paths ?P _ => change [CAcq CSlot; CRel CSlot] with (path_of 0 P [1]) end.
  apply path_of_paths. vm_compute. discriminate.
Qed.

(** on every path of every generated program BarState::tick (CTick) runs while the bar state is locked *)
Definition tub_step (a : caction) (held : bool) : option bool :=
  match a with
  | CAcq CBar => Some true
  | CRel CBar => Some false
  | CTick => if held then Some held else None
  | _ => Some held
  end.
Definition tick_guarded (tr : list caction) : bool :=
  match arun tub_step false tr with Some _ => true | None => false end.
Definition tick_under_bar (p : cprog) : bool :=
  match acheck Bool.eqb tub_step p [false] with Some _ => true | None => false end.

Lemma generated_tick_under_bar :
  forallb (fun np : String.string * cprog => tick_under_bar (snd np)) all_programs = true.
Proof. vm_compute. reflexivity. Qed.

Theorem tick_under_bar_paths : forall name p, In (name, p) all_programs ->
  forall tr, paths p tr -> tick_guarded tr = true.
Proof.
  intros name p Hin tr Hp. pose proof generated_tick_under_bar as H. rewrite forallb_forall in H.
  specialize (H _ Hin). simpl in H. unfold tick_under_bar in H.
  destruct (acheck Bool.eqb tub_step p [false]) as [outs|] eqn:E; [|discriminate].
  destruct (acheck_sound bool Bool.eqb (fun x y => proj1 (Bool.eqb_true_iff x y)) tub_step p [false] outs E
              false tr (or_introl eq_refl) Hp) as (s' & R & _).
  unfold tick_guarded. rewrite R. reflexivity.
Qed.

(* ------------------------------------------------------------ a well-formed pool given by paths (non-vacuity) *)
Lemma pg_lookup_In : forall name tbl p, pg_lookup name tbl = Some p -> In (name, p) tbl.
Proof.
  induction tbl as [|[n q] r IH]; intros p H; [discriminate|]. simpl in H.
  destruct (String.eqb n name) eqn:E.
  - injection H as <-. apply String.eqb_eq in E. subst n. left. reflexivity.
  - right. apply IH. exact H.
Qed.

Lemma spawns_okb_sound : forall ths p, spawns_okb ths p = true -> spawns_ok ths p.
Proof.
  intros ths p H sl u Hin. unfold spawns_okb in H. rewrite forallb_forall in H.
  specialize (H _ Hin). simpl in H.
  destruct (nth_error ths u) as [tu|]; [|discriminate]. exists tu. split; [reflexivity|exact H].
Qed.

(** a segment: the path of the program [name] chosen by the script [sc], for bar 0, multi 0, ticker 1 *)
Definition ex_seg (name : String.string) (d : nat) (sc : list nat) : option seg :=
  match pg_lookup name all_programs with
  | Some p => match choose d p sc with
              | Some (tr, _) => Some (p, (0, 0, 1), tr)
              | None => None
              end
  | None => None
  end.
Fixpoint somes {A} (l : list (option A)) : list A :=
  match l with [] => [] | Some x :: r => x :: somes r | None :: r => somes r end.

Lemma ex_seg_ok : forall name d sc sg, ex_seg name d sc = Some sg -> seg_ok all_programs sg.
Proof.
  intros name d sc sg H. unfold ex_seg in H.
  destruct (pg_lookup name all_programs) as [p|] eqn:E; [|discriminate].
  destruct (choose d p sc) as [[tr sc']|] eqn:C; [|discriminate]. injection H as <-.
  change ((exists nm, In (nm, p) all_programs) /\ paths p tr).
  split; [exists name; apply pg_lookup_In; exact E|eapply choose_sound; exact C].
Qed.

Lemma somes_ex_seg_ok : forall l : list (String.string * nat * list nat),
  Forall (seg_ok all_programs) (somes (map (fun x => ex_seg (fst (fst x)) (snd (fst x)) (snd x)) l)).
Proof.
  induction l as [|[[n d] sc] r IH]; simpl; [constructor|].
  destruct (ex_seg n d sc) as [sg|] eqn:E; [|exact IH]. constructor; [eapply ex_seg_ok; exact E|exact IH].
Qed.

(** thread 0: enable_steady_tick on the path "no ticker yet, spawn", disable_steady_tick on the path
    "ticker installed: stop, join", then drop of a handle; thread 1 (spawned by thread 0): one iteration
    of the ticker program that leaves through the early exit "bar finished" *)
Definition wfp_calls : list (String.string * nat * list nat) :=
  [ ("ProgressBar::enable_steady_tick", 0, [1; 0]);
    ("ProgressBar::disable_steady_tick", 0, [0; 0; 1]);
    ("ProgressBar::drop", 0, [1; 1]) ]%string.
Definition wfp_segs : list seg := somes (map (fun x => ex_seg (fst (fst x)) (snd (fst x)) (snd x)) wfp_calls).
Definition wfp_ticker_path : list caction := path_of 1 ticker_prog [1; 1; 0].
Definition wfp_pool : list thread :=
  [ uthread (List.concat (map seg_code wfp_segs)); wthread (map (inst 0 0 1) wfp_ticker_path) ].

Lemma wfp_pool_WFp :
  WFp all_programs wfp_pool /\
  List.length wfp_segs = 3 /\
  In (Spawn 0 1) (code (nth 0 wfp_pool (wthread []))) /\
  In (Join 0) (code (nth 0 wfp_pool (wthread []))) /\
  wfp_ticker_path =
    [CUpgrade; CAcq CBar; CRel CBar; CDropArc].
Proof.
  assert (Ht : paths ticker_prog wfp_ticker_path).
  { apply path_of_paths. vm_compute. discriminate. }
  split; [|vm_compute; intuition].
  split.
  - apply Forall_cons; [|apply Forall_cons; [|apply Forall_nil]]; (split; [reflexivity|]).
    + exists wfp_segs. split; [reflexivity|apply somes_ex_seg_ok].
    + exists [(ticker_prog, (0, 0, 1), wfp_ticker_path)]. split; [unfold wthread; cbn [code map seg_code List.concat]; symmetry; apply app_nil_r|].
      apply Forall_cons; [|apply Forall_nil].
      change ((exists nm, In (nm, ticker_prog) all_programs) /\ paths ticker_prog wfp_ticker_path). split; [|exact Ht].
      exists "TickerControl::run"%string. apply (proj1 generated_ticker_prog).
  - apply Forall_cons; [|apply Forall_cons; [|apply Forall_nil]].
    + intros sl u Hin. assert (Hu : (sl, u) = (0, 1)).
      { vm_compute in Hin. repeat (destruct Hin as [Hin|Hin]; [try discriminate Hin|]); try contradiction.
        injection Hin as <- <-. reflexivity. }
      injection Hu as -> ->. eexists. split; [reflexivity|]. simpl.
      apply (proj2 (ticker_paths_worker _ Ht 0 0 1)).
    + intros sl u Hin. exfalso. vm_compute in Hin.
      repeat (destruct Hin as [Hin|Hin]; [discriminate Hin|]). contradiction.
Qed.

Definition src_tick_inner_expected : String.string :=
  "if self.ticker.lock().unwrap().is_none() { self.state().tick(now); }".
Definition src_barstate_tick_expected : String.string :=
  "self.state.tick = self.state.tick.saturating_add(1); self.update_estimate_and_draw(now);".
(** TickerControl::run as the ticker automaton of Locks.v part 3 transcribes it (tpc control points in order:
    TUpgrade, TLockBar, TCheckFin -> TFinUnlock/TFinDrop, TTick, TUnlockBar, TDropArc, TLockStop, TCheckStop/TSleep/
    TRelock inside wait_timeout_while, TUnlockStopExit / TUnlockStopLoop): a textual pin, not a semantic tie *)
Definition src_ticker_run_expected : String.string :=
  "while let Some(arc) = self.state.upgrade() { let mut state = arc.lock().unwrap(); if state.state.is_finished() { break; } state.tick(Instant::now()); drop(state); drop(arc); let result = self .stopping .1 .wait_timeout_while(self.stopping.0.lock().unwrap(), interval, |stopped| { !*stopped }) .unwrap(); if !result.1.timed_out() { break; } }".
Theorem tick_transcription :
  (src_tick_inner = src_tick_inner_expected /\ src_barstate_tick = src_barstate_tick_expected /\
   src_ticker_run = src_ticker_run_expected) /\
  (exists p, pg_lookup ProgressBar_tick_name all_programs = Some p /\ paths p [CAcq CSlot; CRel CSlot]) /\
  (forall name p, In (name, p) all_programs -> forall tr, paths p tr -> tick_guarded tr = true).
Proof.
  split; [destruct generated_tick_sources as [H1 H2]; split; [exact H1|split; [exact H2|reflexivity]]|].
  split; [exact generated_tick_program|exact tick_under_bar_paths].
Qed.

(* ------------------------------------------------------------ the ticker automaton and the generated loop body *)
Lemma tacc_eqb_eq : forall x y, tacc_eqb x y = true -> x = y.
Proof. destruct x, y; simpl; intro H; try discriminate; reflexivity. Qed.

Lemma arun_tproj : forall w s, arun acc_step s w = arun acc_step s (tproj w).
Proof.
  induction w as [|a w IH]; intro s; [reflexivity|].
  unfold tproj. simpl. destruct (tk_relevant a) eqn:E.
  - simpl. destruct (acc_step a s); [apply IH|reflexivity].
  - unfold acc_step at 1. rewrite E. simpl. apply IH.
Qed.

Lemma tproj_relevant : forall w, Forall (fun a => tk_relevant a = true) (tproj w).
Proof.
  intro w. apply Forall_forall. intros a Hin. unfold tproj in Hin. apply filter_In in Hin. apply Hin.
Qed.

Tactic Notation "dfa_inv" hyp(Hr) hyp(H) "as" ident(R2) :=
  match type of Hr with
  | Forall _ (?a :: _) =>
      let R1 := fresh "Rel" in
      inversion Hr as [|? ? R1 R2]; subst; clear Hr;
      destruct a as [[]|[]|[]| | | | | | | | ]; simpl in R1, H; try discriminate R1; try discriminate H; clear R1
  end.

(** from the head of wait_timeout_while: any number of (park, re-acquire), then the release *)
Lemma dfa_wait_words : forall m w s,
  List.length w <= m -> Forall (fun a => tk_relevant a = true) w ->
  arun acc_step A7 w = Some s -> acc_final s = true ->
  exists n, w = it_waits n ++ [CRel CStop].
Proof.
  induction m as [|m IH]; intros w s Hl Hr H Hf.
  - destruct w; [|simpl in Hl; lia]. simpl in H. injection H as <-. discriminate.
  - destruct w as [|a w]; [simpl in H; injection H as <-; discriminate|].
    dfa_inv Hr H as Hr1.
    + (* CRel CStop: the iteration is over, nothing may follow *)
      destruct w as [|b w]; [exists 0; reflexivity|].
      exfalso. dfa_inv Hr1 H as Hr2.
    + (* CWaitRel CStop, then CAcq CStop *)
      destruct w as [|b w]; [simpl in H; injection H as <-; discriminate|].
      dfa_inv Hr1 H as Hr2.
      simpl in Hl. destruct (IH w s ltac:(lia) Hr2 H Hf) as (n & ->).
      exists (S n). reflexivity.
Qed.

(** the words of one iteration accepted by the acceptor are exactly the three families *)
Lemma dfa_words : forall w s,
  Forall (fun a => tk_relevant a = true) w ->
  arun acc_step A0 w = Some s -> acc_final s = true ->
  w = it_upgrade_fails \/ w = it_finished \/ exists n, w = it_tick n.
Proof.
  intros w s Hr H Hf.
  destruct w as [|a1 w]; [simpl in H; injection H as <-; discriminate|]. dfa_inv Hr H as Hr1.
  destruct w as [|a2 w]; [left; reflexivity|]. dfa_inv Hr1 H as Hr2.
  destruct w as [|a3 w]; [simpl in H; injection H as <-; discriminate|]. dfa_inv Hr2 H as Hr3.
  - (* finished: CRel CBar, CDropArc *)
    destruct w as [|a4 w]; [simpl in H; injection H as <-; discriminate|]. dfa_inv Hr3 H as Hr4.
    destruct w as [|a5 w]; [right; left; reflexivity|]. exfalso. dfa_inv Hr4 H as Hr5.
  - (* CTick, CRel CBar, CDropArc, CAcq CStop, waits *)
    destruct w as [|a4 w]; [simpl in H; injection H as <-; discriminate|]. dfa_inv Hr3 H as Hr4.
    destruct w as [|a5 w]; [simpl in H; injection H as <-; discriminate|]. dfa_inv Hr4 H as Hr5.
    destruct w as [|a6 w]; [simpl in H; injection H as <-; discriminate|]. dfa_inv Hr5 H as Hr6.
    destruct (dfa_wait_words (List.length w) w s (le_n _) Hr6 H Hf) as (n & ->).
    right. right. exists n. reflexivity.
Qed.

Lemma lrun_ev_app : forall l1 l2 s e1 s1 e2 s2,
  lrun_ev l1 s = Some (e1, s1) -> lrun_ev l2 s1 = Some (e2, s2) ->
  lrun_ev (l1 ++ l2) s = Some (e1 ++ e2, s2).
Proof.
  induction l1 as [|l l1 IH]; intros l2 s e1 s1 e2 s2 H1 H2; simpl in *.
  - injection H1 as <- <-. exact H2.
  - destruct (lstep l s) as [sa|]; [|discriminate].
    destruct (lrun_ev l1 sa) as [[ea sb]|] eqn:E; [|discriminate]. injection H1 as <- <-.
    rewrite (IH l2 sa ea sb e2 s2 E H2). rewrite app_assoc. reflexivity.
Qed.

(** the automaton runs that produce the three families *)
Definition wait_round : list label := [LT false; LWake; LT false].
Fixpoint wait_rounds (n : nat) : list label :=
  match n with O => [] | S m => wait_round ++ wait_rounds m end.
Definition run_tick (n : nat) : list label :=
  [LT false; LT false; LT false; LT false; LT false; LT false; LT false] ++ wait_rounds n ++ [LT true; LT false].
Definition at_check_stop : tsys :=
  {| pc := TCheckStop; flag := false; owed := false; fin := false; strong := 1; tarc := false;
     barl := Free; stopl := ByTicker; nticks := 1; iters := 1 |}.

Lemma wait_rounds_run : forall n, lrun_ev (wait_rounds n) at_check_stop = Some (it_waits n, at_check_stop).
Proof.
  induction n as [|n IH]; [reflexivity|].
  change (wait_rounds (S n)) with (wait_round ++ wait_rounds n).
  change (it_waits (S n)) with ([CWaitRel CStop; CAcq CStop] ++ it_waits n).
  eapply lrun_ev_app; [vm_compute; reflexivity|exact IH].
Qed.

Lemma run_tick_ok : forall n, exists s',
  lrun_ev (run_tick n) (tinit false 1 false) = Some (it_tick n, s') /\ iters s' = 1 /\ pc s' = TUpgrade.
Proof.
  intro n. eexists. split.
  - unfold run_tick, it_tick.
    eapply lrun_ev_app; [vm_compute; reflexivity|].
    eapply lrun_ev_app; [apply wait_rounds_run|vm_compute; reflexivity].
  - split; reflexivity.
Qed.

(** an automaton run of exactly one loop iteration, started by a freshly spawned ticker, with its events *)
Definition automaton_iteration (ev : list caction) : Prop :=
  exists fi st ls s',
    lrun_ev ls (tinit fi st false) = Some (ev, s') /\
    iters s' = 1 /\ (pc s' = TUpgrade \/ pc s' = TDone).

Lemma families_are_iterations :
  automaton_iteration it_upgrade_fails /\ automaton_iteration it_finished /\
  forall n, automaton_iteration (it_tick n).
Proof.
  split; [|split].
  - exists false, 0, [LT false]. eexists. split; [vm_compute; reflexivity|]. split; [reflexivity|right; reflexivity].
  - exists true, 1, [LT false; LT false; LT false; LT false; LT false]. eexists.
    split; [vm_compute; reflexivity|]. split; [reflexivity|right; reflexivity].
  - intro n. destruct (run_tick_ok n) as (s' & H & Hi & Hp).
    exists false, 1, (run_tick n), s'. split; [exact H|]. split; [exact Hi|left; exact Hp].
Qed.

(** every path of a loop body accepted by [ticker_body_refines] is, after erasing the MultiState lock and
    the callbacks, the event sequence of one loop iteration of the ticker automaton *)
Theorem ticker_refines_sound : forall b, ticker_body_refines b = true ->
  forall tr, paths b tr -> automaton_iteration (tproj tr).
Proof.
  intros b H tr Hp. unfold ticker_body_refines in H.
  destruct (acheck tacc_eqb acc_step b [A0]) as [outs|] eqn:E; [|discriminate].
  destruct (acheck_sound tacc tacc_eqb tacc_eqb_eq acc_step b [A0] outs E A0 tr (or_introl eq_refl) Hp)
    as (s' & R & I).
  rewrite forallb_forall in H. specialize (H s' I).
  rewrite arun_tproj in R.
  destruct families_are_iterations as (FA & FB & FC).
  destruct (dfa_words (tproj tr) s' (tproj_relevant tr) R H) as [->|[->|(n & ->)]];
    [exact FA|exact FB|apply FC].
Qed.

Lemma generated_ticker_refines :
  exists body, ticker_prog = PLoop body /\ ticker_body_refines body = true.
Proof. eexists. split; [reflexivity|vm_compute; reflexivity]. Qed.

(** bounded enumeration is sound: everything [enum_k] lists is a path *)
Lemma enum_k_sound : forall k p tr, In tr (enum_k k p) -> paths p tr.
Proof.
  intros k. induction p as [a|l IHl|alts IHa|b IHb|c IHc] using cprog_ind'; intros tr Hin.
  - simpl in Hin. destruct Hin as [<-|[]]. constructor.
  - simpl in Hin.
    assert (G : exists trs, Forall2 paths l trs /\ tr = List.concat trs).
    { revert tr Hin. induction l as [|q r IHr]; intros tr Hin.
      - destruct Hin as [<-|[]]. exists []. split; [constructor|reflexivity].
      - inversion IHl as [|? ? IHq IHl']; subst.
        apply in_flat_map in Hin. destruct Hin as (t1 & H1 & H2).
        apply in_map_iff in H2. destruct H2 as (t2 & <- & H2).
        destruct (IHr IHl' t2 H2) as (trs & HF & ->).
        exists (t1 :: trs). split; [constructor; [apply IHq; exact H1|exact HF]|reflexivity]. }
    destruct G as (trs & HF & ->). constructor. exact HF.
  - simpl in Hin. induction alts as [|q r IHr]; [contradiction|].
    inversion IHa as [|? ? IHq IHa']; subst. apply in_app_or in Hin. destruct Hin as [Hin|Hin].
    + eapply pa_branch; [left; reflexivity|apply IHq; exact Hin].
    + specialize (IHr IHa' Hin). inversion IHr; subst. eapply pa_branch; [right; eassumption|assumption].
  - simpl in Hin.
    assert (G : forall n tr,
      In tr ((fix it (n : nat) : list (list caction) :=
                match n with
                | O => [[]]
                | S m => [[]] ++ flat_map (fun t1 => map (fun t2 => t1 ++ t2) (it m)) (enum_k k b)
                end) n) -> exists trs, Forall (paths b) trs /\ tr = List.concat trs).
    { induction n as [|m IHm]; intros t Ht.
      - destruct Ht as [<-|[]]. exists []. split; [constructor|reflexivity].
      - destruct Ht as [<-|Ht]; [exists []; split; [constructor|reflexivity]|].
        apply in_flat_map in Ht. destruct Ht as (t1 & H1 & H2).
        apply in_map_iff in H2. destruct H2 as (t2 & <- & H2).
        destruct (IHm t2 H2) as (trs & HF & ->).
        exists (t1 :: trs). split; [constructor; [apply IHb; exact H1|exact HF]|reflexivity]. }
    destruct (G k tr Hin) as (trs & HF & ->). constructor. exact HF.
  - simpl in Hin. constructor. apply IHc. exact Hin.
Qed.

(** converse, bounded: the iteration traces of the automaton with at most 3 waits are projections of paths of
    the generated loop body (the automaton does not invent an event sequence), by enumeration *)
Definition fam_upto (k : nat) : list (list caction) :=
  it_upgrade_fails :: it_finished :: map it_tick (seq 0 (S k)).
Definition body_covers (k : nat) (b : cprog) : bool :=
  forallb (fun w => existsb (fun tr => list_eqb caction_eqb (tproj tr) w) (enum_k k b)) (fam_upto k).

Lemma caction_eqb_eq : forall x y, caction_eqb x y = true -> x = y.
Proof.
  destruct x, y; simpl; intro H; try discriminate; try reflexivity; apply cres_eqb_eq in H; subst; reflexivity.
Qed.

Lemma list_caction_eqb_eq : forall x y, list_eqb caction_eqb x y = true -> x = y.
Proof.
  induction x as [|a x IH]; destruct y as [|b y]; simpl; intro H; try discriminate; [reflexivity|].
  apply andb_prop in H. destruct H as [H1 H2]. apply caction_eqb_eq in H1. subst. rewrite (IH y H2). reflexivity.
Qed.

Lemma body_covers_sound : forall k b, body_covers k b = true ->
  forall w, In w (fam_upto k) -> exists tr, paths b tr /\ tproj tr = w.
Proof.
  intros k b H w Hw. unfold body_covers in H. rewrite forallb_forall in H. specialize (H w Hw).
  apply existsb_exists in H. destruct H as (tr & Hin & He).
  exists tr. split; [eapply enum_k_sound; exact Hin|apply list_caction_eqb_eq; exact He].
Qed.

Lemma generated_body_covers : exists body, ticker_prog = PLoop body /\ body_covers 3 body = true.
Proof. eexists. split; [reflexivity|vm_compute; reflexivity]. Qed.

(** the refinement statement exported as C08_ticker_automaton_refines_generated_partial *)
Theorem ticker_automaton_refines_generated :
  exists body, ticker_prog = PLoop body /\
    (* every path of the generated loop body is, modulo [tproj], one iteration of the automaton *)
    (forall tr, paths body tr -> automaton_iteration (tproj tr)) /\
    (* the three families of event sequences are produced by automaton runs of one iteration, for every
       number n of (park, re-acquire) rounds ... *)
    (automaton_iteration it_upgrade_fails /\ automaton_iteration it_finished /\
     forall n, automaton_iteration (it_tick n)) /\
    (* ... and those with at most 3 waits are projections of paths of the generated loop body *)
    (forall w, In w (fam_upto 3) -> exists tr, paths body tr /\ tproj tr = w).
Proof.
  destruct generated_ticker_refines as (b1 & E1 & H1).
  destruct generated_body_covers as (b2 & E2 & H2).
  assert (b1 = b2) by congruence. subst b2.
  exists b1. split; [exact E1|]. split; [apply ticker_refines_sound; exact H1|].
  split; [exact families_are_iterations|]. apply body_covers_sound. exact H2.
Qed.
