(** Proofs for model/MultiInterleave.v, part 1: clause 3 of C02 (concurrent updates) as a
    corollary of the sequential theorems applied to the merged call list. *)
From IndModel Require Import MultiInterleave.
From IndProofs Require Import MultiProofs MultiFrame MultiLatestProofs.
From Coq Require Import List NArith Lia Bool.
Import ListNotations.
Open Scope N_scope.

(* ------------------------------------------------------------------ lists *)
Lemma Merge_subseq {A} (ts : list (list A)) l : Merge ts l -> Forall (fun t => Subseq t l) ts.
Proof.
  induction 1 as [ts Hf|pre x t post l Hm IH].
  - induction Hf as [|t r Ht Hr IHr]; constructor; [subst; constructor | exact IHr].
  - apply Forall_app in IH. destruct IH as [Hp Hq]. inversion Hq as [|t' r' Ht Hr]; subst.
    apply Forall_app. split.
    + eapply Forall_impl; [|exact Hp]. intros a Ha. apply Sub_skip. exact Ha.
    + constructor; [apply Sub_take; exact Ht|].
      eapply Forall_impl; [|exact Hr]. intros a Ha. apply Sub_skip. exact Ha.
Qed.

Lemma firstn_S_app {A} (h1 : list A) x h2 : firstn (S (length h1)) (h1 ++ x :: h2) = h1 ++ [x].
Proof.
  rewrite firstn_app, firstn_all2 by lia. replace (S (length h1) - length h1)%nat with 1%nat by lia. reflexivity.
Qed.

Lemma nth_split {A} (l : list A) k x : nth_error l k = Some x ->
  exists h1 h2, l = h1 ++ x :: h2 /\ length h1 = k /\ firstn k l = h1 /\ firstn (S k) l = h1 ++ [x].
Proof.
  intros Hn. destruct (nth_error_split l k Hn) as (h1 & h2 & E & Hl). exists h1, h2.
  split; [exact E|]. split; [exact Hl|]. subst l k. split.
  - rewrite firstn_app, Nat.sub_diag, firstn_all. cbn. apply app_nil_r.
  - rewrite firstn_app, firstn_all2 by lia. replace (S (length h1) - length h1)%nat with 1%nat by lia. reflexivity.
Qed.

Section Inter.
  Variable W H : N.
  Variable fails : N -> bool.
  Variable s0 : sys.
  Local Notation run := (run W H fails).
  Local Notation hist_ok := (hist_ok W H fails).
  Local Notation lrun := (lrun W H fails).
  Local Notation step_sys := (step_sys W H fails).
  Local Notation ghost_after := (ghost_after W H fails s0).
  Local Notation state_before := (state_before W H fails s0).
  Local Notation state_after := (state_after W H fails s0).
  Local Notation DrawAt := (DrawAt W H fails s0).
  Local Notation PaintedAt := (PaintedAt W H fails s0).

  Hypothesis Hinit : init_ok s0.
  Hypothesis Hvis : mp_visible s0.

  Lemma hist_ok_firstn l n : hist_ok s0 l -> hist_ok s0 (firstn n l).
  Proof.
    intros Hh. rewrite <- (firstn_skipn n l) in Hh. apply (hist_ok_app W H fails) in Hh. tauto.
  Qed.

  (** the ghost after call number [length h1] is the one of frame_shows_latest *)
  Lemma ghost_after_eq h1 x h2 :
    let r := lrun s0 0 lg_empty h1 in
    ghost_after (h1 ++ x :: h2) (length h1) = lat_step (fst (fst r)) (fst x) (snd x) (length h1) (snd r).
  Proof.
    cbn zeta. unfold MultiInterleave.ghost_after.
    rewrite firstn_S_app, (lrun_app W H fails). destruct (lrun_fst W H fails h1 s0 0%nat lg_empty) as [_ En].
    destruct (lrun s0 0 lg_empty h1) as [[s n] g]. cbn [fst snd] in *. destruct x as [now o]. cbn. subst n. reflexivity.
  Qed.

  Lemma state_after_step h1 now o h2 :
    state_after (h1 ++ (now, o) :: h2) (length h1) = step_sys (run s0 h1) now o.
  Proof.
    unfold MultiInterleave.state_after.
    rewrite firstn_S_app, (run_app W H fails). reflexivity.
  Qed.

  (** everything frame_shows_latest says, about "call number k of l" *)
  Lemma draw_at_facts l k m f ex : hist_ok s0 l -> DrawAt l k m f ex ->
    let g := ghost_after l k in
    ms_frame m ex = (extra_lines ex ++ ms_orphans m) ++ concat (map (shown g) (ms_order m))
    /\ forall i e, In i (ms_order m) -> lg_slot g i = Some e ->
         b_target (get_bar (state_before l k) (le_bar e)) = TMulti i
         /\ lg_last g (le_bar e) = Some (le_step e) /\ (le_step e <= k)%nat
         /\ logic (le_state e) = logic (get_bar (state_after l (le_step e)) (le_bar e)).
  Proof.
    intros Hh (now & o & Hn & Hin). cbn zeta.
    destruct (nth_split l k (now, o) Hn) as (h1 & h2 & E & Hl & F1 & F2). subst l k.
    destruct (frame_shows_latest W H fails s0 h1 h2 now o Hinit Hvis Hh) as [A F].
    unfold MultiInterleave.state_before in *. rewrite F1 in *. rewrite <- A in Hin.
    rewrite (ghost_after_eq h1 (now, o) h2). cbn [fst snd].
    destruct (F m f ex Hin) as [G1 G2]. split; [exact G1|].
    intros i e Hi He. destruct (G2 i e Hi He) as (P1 & P2 & P3 & P4).
    rewrite <- A. repeat split; assumption.
  Qed.

  (** the most recent draw step of a bar only moves forward, between "after call k1" and "after call k2" *)
  Lemma ghost_mono l k1 k2 b a : hist_ok s0 l -> (k1 <= k2)%nat ->
    lg_last (ghost_after l k1) b = Some a ->
    exists c, lg_last (ghost_after l k2) b = Some c /\ (a <= c)%nat.
  Proof.
    intros Hh Hk Ha. unfold MultiInterleave.ghost_after in *.
    assert (E : firstn (S k2) l = firstn (S k1) l ++ skipn (S k1) (firstn (S k2) l)).
    { rewrite <- (firstn_skipn (S k1) (firstn (S k2) l)) at 1. rewrite firstn_firstn.
      replace (Nat.min (S k1) (S k2)) with (S k1) by lia. reflexivity. }
    rewrite E. apply (latest_monotone W H fails s0 _ _ b a Hinit Hvis); [|exact Ha].
    rewrite <- E. apply hist_ok_firstn. exact Hh.
  Qed.

  (* ---------------------------------------------------------------- the shape of a forced draw step *)
  Definition op_force (o : op) : bool :=
    match o with
    | OPrintln _ _ | OFinish _ _ | OFinishUsingStyle _ | OForceDraw _ | OSetTabWidth _ | ODrop _ => true
    | _ => false
    end.

  Lemma draw_op_actions_force s now o b st idx : op_ok s o = true -> op_draw s now o = Some (b, st) ->
    b_target (get_bar s b) = TMulti idx ->
    op_actions W s now o
    = AStore idx (op_texts o) (stored_frame W (s_mp s) st) :: ADraw (op_force o || finished st) None :: drop_tail o idx.
  Proof.
    intros Hk Hd Ht. pose proof (ok_alive s o b Hk (op_draw_bar s now o b st Hd)) as Ha.
    pose proof (alive_inrange s b Ha) as Hl.
    assert (Gen : forall f frc, keeps_target f -> st = f (get_bar s b) ->
              draw_actions W (upd_bar s b f) b frc
              = [AStore idx [] (stored_frame W (s_mp s) st); ADraw (frc || finished st) None]).
    { intros f frc Hf ->. rewrite (draw_actions_shape W) by assumption. rewrite Ht. reflexivity. }
    assert (Pos : forall f, option_map (pair b) (pos_draw (get_bar s b) f now) = Some (b, st) ->
              pos_actions W s b f now
              = [AStore idx [] (stored_frame W (s_mp s) st); ADraw (false || finished st) None]).
    { intros f Hp. unfold pos_actions, pos_draw in *.
      rewrite get_upd_same by exact Hl.
      change (b_ap (set_b_pos (get_bar s b) (f (b_pos (get_bar s b))))) with (b_ap (get_bar s b)) in *.
      destruct (ap_allow (b_ap (get_bar s b)) now) as [[|] ap']; [|discriminate Hp].
      cbn [option_map] in Hp. injection Hp as <-. unfold tick_actions.
      set (s2 := upd_bar (upd_bar s b _) b _).
      assert (Hl2 : (N.to_nat b < length (s_bars s2))%nat) by (unfold s2, upd_bar; cbn; rewrite !updN_length; exact Hl).
      rewrite (draw_actions_shape W) by (auto; intros y; reflexivity).
      assert (G2 : get_bar s2 b = set_b_ap (set_b_pos (get_bar s b) (f (b_pos (get_bar s b)))) ap').
      { unfold s2. rewrite get_upd_same by (unfold upd_bar; cbn; rewrite updN_length; exact Hl).
        rewrite get_upd_same by exact Hl. reflexivity. }
      rewrite G2. cbn [b_target set_b_ap set_b_pos]. rewrite Ht. reflexivity. }
    destruct o; cbn [op_draw] in Hd; try discriminate Hd;
      try (injection Hd as <- <-; cbn [op_actions op_texts drop_tail op_force];
           first [ apply Gen; [intros y; reflexivity | reflexivity] ]);
      try (assert (Hb : b0 = b) by (destruct (pos_draw (get_bar s b0) _ now); cbn in Hd; [injection Hd as <- _; reflexivity | discriminate]);
           subst b0; cbn [op_actions op_texts drop_tail op_force]; apply Pos; exact Hd).
    - (* OPrintln *) injection Hd as <- <-. cbn [op_actions op_texts drop_tail op_force]. rewrite Ht. reflexivity.
    - (* OFinish *) injection Hd as <- <-. cbn [op_actions op_texts drop_tail op_force]. unfold finish_actions. apply Gen; [|reflexivity].
      intros y. destruct k; cbn; destruct (b_len y); reflexivity.
    - injection Hd as <- <-. cbn [op_actions op_texts drop_tail op_force]. unfold finish_actions. apply Gen; [|reflexivity].
      intros y. destruct (b_on_finish (get_bar s b0)); cbn; destruct (b_len y); reflexivity.
    - (* OForceDraw *) injection Hd as <- <-. cbn [op_actions op_texts drop_tail op_force]. unfold draw_actions. rewrite Ht. reflexivity.
    - injection Hd as <- <-. cbn [op_actions op_texts drop_tail op_force]. unfold draw_actions. rewrite Ht. reflexivity.
    - (* ODrop *)
      destruct (finished (get_bar s b0)) eqn:Hf; [discriminate|]. injection Hd as <- <-.
      cbn [op_actions op_texts drop_tail op_force]. rewrite Hf, Ht. unfold finish_actions.
      rewrite (Gen (finish_upd (b_on_finish (get_bar s b0))) true); [reflexivity| |reflexivity].
      intros y. destruct (b_on_finish (get_bar s b0)); cbn; destruct (b_len y); reflexivity.
  Qed.

  (** a draw step in a finished state (finish*, abandon*, drop of an unfinished bar, any later
      call that draws a finished bar) makes ONE MultiState::draw: forced, hence attempted, on a
      MultiState whose slot [idx] holds the rendering of that state *)
  Lemma finished_draw_paints s now o b st idx :
    MInv s -> mp_visible s -> op_ok s o = true ->
    op_draw s now o = Some (b, st) -> finished st = true -> b_target (get_bar s b) = TMulti idx ->
    exists m, step_draws W H fails s now o = [(m, true, None)] /\ ms_attempt W m true None now = true
              /\ In idx (ms_order m) /\ member_lines (ms_members m) idx = frame_of st.
  Proof.
    intros MI Vis Hk Hd Hf Ht.
    pose proof (ok_alive s o b Hk (op_draw_bar s now o b st Hd)) as Ha.
    destruct (mi_alive s MI b idx Ha Ht) as [Hio _].
    assert (Hl : (N.to_nat idx < length (ms_members (s_mp s)))%nat) by (apply (ci_bound _ (MInv_core s MI)); auto).
    unfold step_draws. rewrite (draw_op_actions_force s now o b st idx Hk Hd Ht), Hf, orb_true_r.
    rewrite (visible_width W s Vis). cbn [mp_draws mp_exec1].
    set (m1 := ms_store (s_mp s) idx (op_texts o) (frame_of st)).
    exists m1.
    destruct (ms_draw W H fails m1 true None now (s_calls s)) as [[[m2 e2] c2] ok2]. cbn [app].
    split.
    - f_equal. destruct o; cbn [drop_tail mp_draws]; reflexivity.
    - split.
      + destruct Vis as [tg Htg]. unfold ms_attempt, m1. cbn [ms_store ms_target set_ms_orphans set_ms_members].
        rewrite Htg. unfold tt_allow. cbn [orb]. reflexivity.
      + split; [exact Hio|].
        pose proof (store_lines (s_mp s) idx (op_texts o) (frame_of st) idx Hl) as E. rewrite N.eqb_refl in E.
        unfold member_lines. unfold lines_at in E. fold m1 in E. rewrite E. reflexivity.
  Qed.
End Inter.

(* ------------------------------------------------------------------ the theorem *)
Theorem interleaving (W H : N) (fails : N -> bool) (ts : list (list (N * op))) (l : list (N * op)) (s0 : sys) :
  init_ok s0 -> mp_visible s0 -> AtomicExec W H fails s0 ts l ->
  (* the merged list keeps every thread's program order, and contains nothing else *)
  (Forall (fun t => Subseq t l) ts /\ length l = length (concat ts))
  (* 3a: every frame shows for each bar a state the bar really had *)
  /\ (forall k m f ex, DrawAt W H fails s0 l k m f ex ->
        let g := ghost_after W H fails s0 l k in
        ms_frame m ex = (extra_lines ex ++ ms_orphans m) ++ concat (map (shown g) (ms_order m))
        /\ forall i e, In i (ms_order m) -> lg_slot g i = Some e ->
             b_target (get_bar (state_before W H fails s0 l k) (le_bar e)) = TMulti i
             /\ (le_step e <= k)%nat
             /\ logic (le_state e) = logic (get_bar (state_after W H fails s0 l (le_step e)) (le_bar e)))
  (* 3b: never older than the one shown before *)
  /\ (forall k1 k2 m1 f1 ex1 m2 f2 ex2 i1 i2 e1 e2, (k1 <= k2)%nat ->
        DrawAt W H fails s0 l k1 m1 f1 ex1 -> DrawAt W H fails s0 l k2 m2 f2 ex2 ->
        In i1 (ms_order m1) -> lg_slot (ghost_after W H fails s0 l k1) i1 = Some e1 ->
        In i2 (ms_order m2) -> lg_slot (ghost_after W H fails s0 l k2) i2 = Some e2 ->
        le_bar e1 = le_bar e2 -> (le_step e1 <= le_step e2)%nat)
  (* 3c: a finishing call paints, and from then on every frame that shows the bar shows its final state *)
  /\ (forall k now o b st i, nth_error l k = Some (now, o) ->
        let s := state_before W H fails s0 l k in
        op_draw s now o = Some (b, st) -> finished st = true -> b_target (get_bar s b) = TMulti i ->
        (forall j, (k < j < length l)%nat ->
           logic (get_bar (state_after W H fails s0 l j) b) = logic (get_bar (state_after W H fails s0 l k) b)) ->
        logic (get_bar (run W H fails s0 l) b) = logic st
        /\ (exists m, step_draws W H fails s now o = [(m, true, None)]
                      /\ PaintedAt W H fails s0 l k m true None
                      /\ In i (ms_order m) /\ member_lines (ms_members m) i = frame_of st)
        /\ (forall k' m f ex i' e, (k <= k')%nat -> DrawAt W H fails s0 l k' m f ex ->
              In i' (ms_order m) -> lg_slot (ghost_after W H fails s0 l k') i' = Some e -> le_bar e = b ->
              logic (le_state e) = logic (get_bar (run W H fails s0 l) b))).
Proof.
  intros Hi Vis [Hm Hh].
  split; [split; [apply Merge_subseq; exact Hm | eapply Merge_length; eauto]|].
  split; [|split].
  - (* 3a *)
    intros k m f ex Hd. destruct (draw_at_facts W H fails s0 Hi Vis l k m f ex Hh Hd) as [G1 G2].
    cbn zeta. split; [exact G1|]. intros i e Hio He. destruct (G2 i e Hio He) as (P1 & P2 & P3 & P4). auto.
  - (* 3b *)
    intros k1 k2 m1 f1 ex1 m2 f2 ex2 i1 i2 e1 e2 Hk D1 D2 Hi1 He1 Hi2 He2 Eb.
    destruct (draw_at_facts W H fails s0 Hi Vis l k1 m1 f1 ex1 Hh D1) as [_ G1].
    destruct (draw_at_facts W H fails s0 Hi Vis l k2 m2 f2 ex2 Hh D2) as [_ G2].
    destruct (G1 i1 e1 Hi1 He1) as (_ & L1 & _). destruct (G2 i2 e2 Hi2 He2) as (_ & L2 & _).
    destruct (ghost_mono W H fails s0 Hi Vis l k1 k2 (le_bar e1) (le_step e1) Hh Hk L1) as (c & Lc & Hc).
    rewrite Eb, L2 in Lc. injection Lc as <-. exact Hc.
  - (* 3c *)
    intros k now o b st i Hn. cbn zeta. intros Hd Hf Ht Hq.
    destruct (nth_split l k (now, o) Hn) as (h1 & h2 & E & Hl & F1 & F2).
    pose proof Hh as Hh'. rewrite E in Hh'.
    change (h1 ++ (now, o) :: h2) with (h1 ++ [(now, o)] ++ h2) in Hh'. rewrite app_assoc in Hh'.
    apply (hist_ok_app W H fails) in Hh'. destruct Hh' as [Hh12 _].
    apply (hist_ok_app W H fails) in Hh12. destruct Hh12 as [Hh1 [Hk _]].
    unfold state_before in *. rewrite F1 in *.
    destruct (lrun_all W H fails s0 h1 Hi Vis Hh1) as (A & B & MI & V & LI & _). cbn zeta in *.
    rewrite A in MI, V.
    (* the state right after the call *)
    assert (Sk : logic (get_bar (state_after W H fails s0 l k) b) = logic st).
    { rewrite E, <- Hl, state_after_step.
      destruct (step_bar_facts W H fails (run W H fails s0 h1) now o Hk b) as (_ & _ & C).
      unfold logic_after in C. rewrite Hd, N.eqb_refl in C. exact C. }
    assert (J : forall j, (k <= j < length l)%nat -> logic (get_bar (state_after W H fails s0 l j) b) = logic st).
    { intros j Hj. destruct (Nat.eq_dec j k) as [->|Hne]; [exact Sk|]. rewrite Hq by lia. exact Sk. }
    assert (Hlen : (k < length l)%nat) by (apply nth_error_Some; congruence).
    assert (Fin : logic (get_bar (run W H fails s0 l) b) = logic st).
    { specialize (J (length l - 1)%nat ltac:(lia)). unfold state_after in J.
      replace (S (length l - 1)) with (length l) in J by lia. rewrite firstn_all in J. exact J. }
    split; [exact Fin|]. split.
    + destruct (finished_draw_paints W H fails _ now o b st i MI V Hk Hd Hf Ht) as (m & S1 & S2 & S3 & S4).
      exists m. split; [exact S1|]. split; [|split; assumption].
      exists now, o. split; [exact Hn|]. unfold state_before. rewrite F1, S1. split; [left; reflexivity | exact S2].
    + intros k' m f ex i' e Hk' D Hio He Eb.
      destruct (draw_at_facts W H fails s0 Hi Vis l k' m f ex Hh D) as [_ G].
      destruct (G i' e Hio He) as (_ & L & Hle & Hlog).
      (* the most recent draw step of b after call k is k *)
      assert (Lk : lg_last (ghost_after W H fails s0 l k) b = Some k).
      { rewrite E, <- Hl, (ghost_after_eq W H fails s0 h1 (now, o) h2). cbn [fst snd].
        rewrite lat_step_last_eq, A, Hd, Ht, N.eqb_refl. reflexivity. }
      destruct (ghost_mono W H fails s0 Hi Vis l k k' b k Hh Hk' Lk) as (c & Lc & Hc).
      rewrite Eb, Lc in L. injection L as Ec. subst c.
      assert (Hk'len : (k' < length l)%nat).
      { destruct D as (n' & o' & Hn' & _). apply nth_error_Some. congruence. }
      rewrite Hlog, Eb, Fin. apply J. lia.
Qed.
