(** Proofs about model/Builder.v (C14). *)
From IndModel Require Import Base Template Builder.
From IndGen Require Import Constants.
From IndProofs Require Import TemplateProofs.
From Coq Require Import Lia List NArith Bool.
Require Import ZifyBool ZifyNat ZifyN.
Import ListNotations.
Open Scope N_scope.
Arguments N.add : simpl never.
Arguments N.sub : simpl never.
Arguments N.mul : simpl never.
Arguments N.div : simpl never.
Arguments N.modulo : simpl never.

(** * width() *)
Lemma width_fold_some_ok w ws :
  Forall (fun x => x = w) ws -> width_fold (Some w) ws = Ok (Some w).
Proof.
  induction 1 as [|x r Hx Hr IH]; cbn [width_fold]; [reflexivity|].
  subst x. rewrite N.eqb_refl. exact IH.
Qed.

Lemma width_fold_some_inv w ws r :
  width_fold (Some w) ws = Ok r -> r = Some w /\ Forall (fun x => x = w) ws.
Proof.
  induction ws as [|x t IH]; cbn [width_fold]; intros H.
  - inversion H. split; [reflexivity | constructor].
  - destruct (N.eqb_spec w x) as [E|E]; [|discriminate].
    destruct (IH H) as [Hr Hf]. split; [exact Hr|]. constructor; [symmetry; exact E | exact Hf].
Qed.

Lemma width_fold_some_panic w ws s :
  width_fold (Some w) ws = Panic s -> s = SITE_WIDTH_UNEQUAL /\ ~ Forall (fun x => x = w) ws.
Proof.
  induction ws as [|x t IH]; cbn [width_fold]; intros H; [discriminate|].
  destruct (N.eqb_spec w x) as [E|E].
  - destruct (IH H) as [Hs Hn]. split; [exact Hs|]. intros Hf. apply Hn.
    inversion Hf; assumption.
  - inversion H. split; [reflexivity|]. intros Hf. inversion Hf; subst. apply E; reflexivity.
Qed.

Lemma width_of_ok cl w :
  width_of cl = Ok w <-> cl <> [] /\ Forall (fun c => cl_w c = w) cl.
Proof.
  unfold width_of. destruct cl as [|c r]; cbn [map width_fold].
  - split; [discriminate | intros [H _]; contradiction].
  - split.
    + destruct (width_fold (Some (cl_w c)) (map cl_w r)) as [[x|]|s] eqn:E; try discriminate.
      intros H. inversion H; subst x. apply width_fold_some_inv in E. destruct E as [E1 E2].
      inversion E1; subst w. split; [discriminate|]. constructor; [reflexivity|].
      apply Forall_map in E2. exact E2.
    + intros [_ Hf]. inversion Hf as [|? ? Hc Hr]; subst.
      rewrite width_fold_some_ok; [reflexivity|].
      apply Forall_map. exact Hr.
Qed.

Lemma width_of_panic cl s :
  width_of cl = Panic s ->
  (cl = [] /\ s = SITE_WIDTH_UNWRAP)
  \/ (s = SITE_WIDTH_UNEQUAL /\ exists c r, cl = c :: r /\ ~ Forall (fun x => cl_w x = cl_w c) r).
Proof.
  unfold width_of. destruct cl as [|c r]; cbn [map width_fold].
  - intros H. inversion H. left. split; reflexivity.
  - destruct (width_fold (Some (cl_w c)) (map cl_w r)) as [[x|]|s'] eqn:E.
    + discriminate.
    + apply width_fold_some_inv in E. destruct E as [E _]. discriminate.
    + intros H. inversion H; subst s'. apply width_fold_some_panic in E. destruct E as [Es En].
      right. split; [exact Es|]. exists c, r. split; [reflexivity|].
      intros Hf. apply En. apply Forall_map. exact Hf.
Qed.

(** * widths produced by the template parser fit in u16 *)
Lemma u16_digits_lt ds : forall acc w, acc < U16 -> u16_digits acc ds = Some w -> w < U16.
Proof.
  induction ds as [|d r IH]; intros acc w Hacc H; cbn [u16_digits] in H.
  - inversion H; subst; exact Hacc.
  - destruct (is_digit d); [|discriminate].
    destruct (N.leb_spec U16 (acc * 10)); [discriminate|].
    destruct (N.leb_spec U16 (acc * 10 + (d - 48))) as [|Hlt]; [discriminate|].
    exact (IH _ _ Hlt H).
Qed.

Lemma parse_u16_lt s w : parse_u16 s = Some w -> w < U16.
Proof.
  unfold parse_u16. destruct s as [|c r]; [discriminate|].
  assert (H0 : 0 < U16) by (unfold U16; lia).
  destruct (c =? 43).
  - destruct r; [discriminate|]. apply u16_digits_lt; exact H0.
  - apply u16_digits_lt; exact H0.
Qed.

Lemma upd_last_ok f parts :
  (forall p, ph_width (f p) = ph_width p) ->
  Forall part_ok parts -> Forall part_ok (upd_last f parts).
Proof.
  intros Hf Hp. destruct parts as [|[s|p|] r]; cbn [upd_last]; try exact Hp.
  inversion Hp as [|? ? H1 H2]; subst. constructor; [|exact H2].
  cbn [part_ok] in *. rewrite Hf. exact H1.
Qed.

Ltac break_if H :=
  repeat match type of H with context [if ?b then _ else _] => destruct b end.

Ltac parts_ok_tac :=
  repeat first
    [ assumption
    | exact I
    | apply upd_last_ok; [intros; reflexivity|]
    | apply Forall_cons
    | progress cbn [part_ok ph_width] ].

Lemma phase1_ok st c parts buf new push parts' buf' :
  Forall part_ok parts ->
  phase1 st c parts buf = Some (new, push, parts', buf') -> Forall part_ok parts'.
Proof.
  intros Hp H. unfold phase1, backtrack in H.
  destruct st; break_if H; try discriminate; inversion H; subst; parts_ok_tac.
Qed.

Lemma phase2_ok old new parts buf parts' buf' :
  Forall part_ok parts ->
  phase2 old new parts buf = Some (parts', buf') -> Forall part_ok parts'.
Proof.
  intros Hp H. unfold phase2 in H.
  destruct (nonempty buf); [|inversion H; subst; exact Hp].
  destruct old, new; try (inversion H; subst; parts_ok_tac; fail);
    destruct parts as [|[s|p|] r]; try (inversion H; subst; parts_ok_tac; fail).
  all: try (destruct (parse_u16 buf) as [w|] eqn:Ew; [|discriminate];
            inversion H; subst; inversion Hp as [|? ? H1 H2]; subst;
            constructor; [cbn [part_ok set_width ph_width]; exact (parse_u16_lt _ _ Ew) | exact H2]).
  all: inversion H; subst; inversion Hp as [|? ? H1 H2]; subst; constructor; [exact H1 | exact H2].
Qed.

Lemma tstep_ok s c s' :
  Forall part_ok (p_parts s) -> tstep s c = SOk s' -> Forall part_ok (p_parts s').
Proof.
  intros Hp H. unfold tstep in H.
  destruct (phase1 (p_state s) c (p_parts s) (p_buf s)) as [[[[new push] parts1] buf1]|] eqn:E1; [|discriminate].
  destruct (phase2 (p_state s) new parts1 buf1) as [[parts2 buf2]|] eqn:E2; [|discriminate].
  inversion H; subst. cbn [p_parts].
  eapply phase2_ok; [|exact E2]. eapply phase1_ok; [exact Hp | exact E1].
Qed.

Lemma trun_ok cs : forall s s',
  Forall part_ok (p_parts s) -> trun s cs = SOk s' -> Forall part_ok (p_parts s').
Proof.
  induction cs as [|c r IH]; intros s s' Hp H; cbn [trun] in H.
  - inversion H; subst; exact Hp.
  - destruct (tstep s c) as [s1|] eqn:E; [|discriminate].
    eapply IH; [|exact H]. eapply tstep_ok; [exact Hp | exact E].
Qed.

Lemma Forall_rev_ok {A} (P : A -> Prop) l : Forall P l -> Forall P (rev l).
Proof. intros H. apply Forall_forall. intros x Hx. apply in_rev in Hx. revert x Hx. apply Forall_forall. exact H. Qed.

(** every width the parser stores came out of u16::from_str *)
Lemma parse_parts_ok s ps : parse s = POk ps -> Forall part_ok ps.
Proof.
  unfold parse. destruct (trun pinit0 s) as [f|] eqn:E; [|discriminate].
  intros H. inversion H; subst. apply trun_ok in E; [|constructor].
  unfold tfinish. apply Forall_rev_ok.
  destruct (p_state f); try exact E; destruct (nonempty (p_buf f)); try exact E;
    (constructor; [exact I | exact E]).
Qed.

(** * the invariant holds initially and is preserved *)
Lemma default_width : width_of default_chars = Ok 1.
Proof. reflexivity. Qed.

Lemma new_style_ok parts st :
  Forall part_ok parts -> new_style parts = BOk st -> StyleOK st.
Proof.
  intros Hp H. unfold new_style in H. rewrite default_width in H. inversion H; subst.
  unfold StyleOK; cbn [st_ticks st_chars st_cw st_parts].
  repeat split; try (vm_compute; discriminate).
  - repeat constructor.
  - repeat constructor.
  - exact Hp.
Qed.

Lemma construct_ok c st : construct c = BOk st -> StyleOK st.
Proof.
  destruct c as [| |s]; cbn [construct]; rewrite parse_full_total.
  - destruct (parse DEFAULT_BAR_TEMPLATE) as [ps|] eqn:E; [|discriminate].
    apply new_style_ok. exact (parse_parts_ok _ _ E).
  - destruct (parse DEFAULT_SPINNER_TEMPLATE) as [ps|] eqn:E; [|discriminate].
    apply new_style_ok. exact (parse_parts_ok _ _ E).
  - destruct (parse s) as [ps|] eqn:E; [|discriminate].
    apply new_style_ok. exact (parse_parts_ok _ _ E).
Qed.

(* the two `unwrap`s on literal templates (style.rs:74, 79) and the `unwrap` of width() in
   new() (style.rs:96) cannot fail: the constructors never panic *)
Lemma construct_no_panic c s : construct c <> BPanic s.
Proof.
  destruct c as [| |t]; cbn [construct].
  - vm_compute. discriminate.
  - vm_compute. discriminate.
  - rewrite parse_full_total. destruct (parse t); [|discriminate]. unfold new_style. rewrite default_width. discriminate.
Qed.

Lemma nlen_map {A B} (f : A -> B) l : nlen (map f l) = nlen l.
Proof. unfold nlen. rewrite map_length. reflexivity. Qed.

Lemma existsb_tab_false cl :
  existsb (fun c => has_tab (cl_text c)) cl = false -> Forall (fun c => has_tab (cl_text c) = false) cl.
Proof.
  induction cl as [|c r IH]; cbn [existsb]; intros H; [constructor|].
  apply orb_false_elim in H. destruct H as [H1 H2]. constructor; [exact H1 | exact (IH H2)].
Qed.

Lemma has_tab_In s : has_tab s = true <-> In 9 s.
Proof.
  unfold has_tab. rewrite existsb_exists. split.
  - intros [x [Hx E]]. apply N.eqb_eq in E. subst x. exact Hx.
  - intros H. exists 9. split; [exact H | reflexivity].
Qed.

Lemma bstep_ok st o st' : StyleOK st -> bstep st o = BOk st' -> StyleOK st'.
Proof.
  intros (Ht & Hc & Hw & Hf & Hnt & Hp) H. destruct o as [s|l|cl|s|k|w]; cbn [bstep] in H.
  - destruct (N.ltb_spec (nlen (map (fun c => [c]) s)) 2) as [|Hl]; [discriminate|].
    inversion H; subst. repeat split; assumption.
  - destruct (N.ltb_spec (nlen l) 2) as [|Hl]; [discriminate|].
    inversion H; subst. repeat split; assumption.
  - destruct (N.ltb_spec (nlen cl) 2) as [|Hl]; [discriminate|].
    destruct (width_of cl) as [w|] eqn:E; [|discriminate].
    destruct (N.eqb_spec w 0) as [|Hw0]; [discriminate|].
    destruct (existsb (fun c => has_tab (cl_text c)) cl) eqn:Et; [discriminate|].
    inversion H; subst. apply width_of_ok in E. destruct E as [_ E].
    unfold StyleOK; cbn [st_ticks st_chars st_cw st_parts].
    repeat split; try assumption; [lia | exact (existsb_tab_false _ Et)].
  - rewrite parse_full_total in H. destruct (parse s) as [ps|] eqn:E; [|discriminate].
    inversion H; subst. unfold StyleOK; cbn [st_ticks st_chars st_cw st_parts].
    repeat split; try assumption. exact (parse_parts_ok _ _ E).
  - inversion H; subst. repeat split; assumption.
  - inversion H; subst. repeat split; assumption.
Qed.

Lemma brun_idx_ok ops : forall i st j st',
  StyleOK st -> brun_idx i st ops = (j, BOk st') -> StyleOK st'.
Proof.
  induction ops as [|o r IH]; intros i st j st' Hs H; cbn [brun_idx] in H.
  - inversion H; subst; exact Hs.
  - destruct (bstep st o) as [s1| |] eqn:E; try (inversion H; fail).
    eapply IH; [|exact H]. eapply bstep_ok; [exact Hs | exact E].
Qed.

Theorem build_ok c ops st : build c ops = BOk st -> StyleOK st.
Proof.
  unfold build, build_idx. destruct (construct c) as [s0| |] eqn:E; cbn [snd]; try discriminate.
  destruct (brun_idx 0 s0 ops) as [j r] eqn:Er. cbn [snd]. intros H; subst r.
  eapply brun_idx_ok; [|exact Er]. exact (construct_ok _ _ E).
Qed.

(** * the invariant implies every guard *)
Lemma nth_error_some {A} (l : list A) (i : N) :
  i < nlen l -> exists x, nth_error l (N.to_nat i) = Some x.
Proof.
  unfold nlen. intros H. destruct (nth_error l (N.to_nat i)) as [x|] eqn:E; [exists x; reflexivity|].
  apply nth_error_None in E. lia.
Qed.

Lemma get_tick_str_ok ticks idx : 2 <= nlen ticks -> exists s, get_tick_str ticks idx = Ok s.
Proof.
  intros H. unfold get_tick_str.
  destruct (N.eqb_spec (nlen ticks) 0); [lia|].
  destruct (N.eqb_spec (nlen ticks - 1) 0); [lia|].
  assert (Hi : idx mod (nlen ticks - 1) < nlen ticks).
  { pose proof (N.mod_lt idx (nlen ticks - 1)). lia. }
  destruct (nth_error_some ticks _ Hi) as [x Hx]. rewrite Hx. exists x; reflexivity.
Qed.

Lemma get_final_tick_str_ok ticks : 2 <= nlen ticks -> exists s, get_final_tick_str ticks = Ok s.
Proof.
  intros H. unfold get_final_tick_str.
  destruct (N.eqb_spec (nlen ticks) 0); [lia|].
  assert (Hi : nlen ticks - 1 < nlen ticks) by lia.
  destruct (nth_error_some ticks _ Hi) as [x Hx]. rewrite Hx. exists x; reflexivity.
Qed.

Lemma current_tick_str_ok st sn : StyleOK st -> exists s, current_tick_str st sn = Ok s.
Proof.
  intros (Ht & _). unfold current_tick_str. destruct (sn_finished sn).
  - apply get_final_tick_str_ok; exact Ht.
  - apply get_tick_str_ok; exact Ht.
Qed.

Lemma format_bar_ok st O width : StyleOK st -> format_bar st O width = Ok tt.
Proof.
  intros (_ & Hc & Hw & _). unfold format_bar, bar_cur.
  destruct (N.eqb_spec (st_cw st) 0); [lia|].
  destruct (N.eqb_spec (nlen (st_chars st)) 0); [lia|].
  rewrite andb_false_r.
  destruct (fb_head (o_bar O (width / st_cw st))); [|reflexivity].
  destruct (N.leb_spec (nlen (st_chars st) - 2) 1).
  - destruct (N.ltb_spec 1 (nlen (st_chars st))); [reflexivity | lia].
  - destruct (N.ltb_spec (nlen (st_chars st) - 2 - fb_k (o_bar O (width / st_cw st))) (nlen (st_chars st)));
      [reflexivity | lia].
Qed.

Lemma padded_sites_ok t width a trunc : mt_ok t -> padded_sites t width a trunc = Ok tt.
Proof.
  unfold mt_ok, padded_sites. intros H.
  destruct ((0 <? mt_cols t - width) && negb trunc); [reflexivity|].
  destruct (0 <? mt_cols t - width); [|reflexivity].
  destruct a; try reflexivity.
  - destruct (N.ltb_spec (mt_len t) (mt_cols t - width)); [lia | reflexivity].
  - destruct (N.ltb_spec (mt_len t) (mt_cols t - width - (mt_cols t - width) / 2)); [lia | reflexivity].
Qed.

Lemma tab_site_ok st b : tab_sane st -> tab_site st b = Ok tt.
Proof.
  unfold tab_sane, tab_site. intros H. destruct (N.ltb_spec ISIZE_MAX (st_tab st)); [lia|].
  rewrite andb_false_r. reflexivity.
Qed.

(* a value made by `new` never trips the debug_assert of `expanded`, and reaches the `repeat`
   exactly when its text has a tab *)
Lemma expanded_new_spec st b : expanded_new st b = tab_site st b.
Proof. unfold expanded_new, tes_new, expanded_site, tab_site. destruct b; reflexivity. Qed.

Lemma expanded_new_ok st b : tab_sane st -> expanded_new st b = Ok tt.
Proof. intros H. rewrite expanded_new_spec. apply tab_site_ok; exact H. Qed.

Lemma pad_tail (buf : mtext) (p : ph) (nw : option wide) :
  mt_ok buf ->
  oseq (match ph_width p with
       | Some w => padded_sites buf w (ph_align p) (ph_trunc p)
       | None => Ok tt
       end) (Ok nw) = Ok nw.
Proof.
  intros H. destruct (ph_width p); [rewrite padded_sites_ok by exact H|]; reflexivity.
Qed.

Lemma placeholder_sites_ok st sn O i p :
  StyleOK st -> tab_sane st -> snap_ok sn -> oracles_ok O -> part_ok (PPh p) ->
  exists nw, placeholder_sites st sn O i p = Ok nw.
Proof.
  intros Hs Htab [Hm Hpre] HO Hp. unfold placeholder_sites.
  pose proof (HO i) as Hi.
  destruct (existsb (list_eqb N.eqb (ph_key p)) (st_keys st)).
  { rewrite tab_site_ok by exact Htab. cbn [oseq]. eexists. apply pad_tail. exact Hi. }
  destruct (key_is (ph_key p) KeyNames.wide_bar).
  { eexists. apply pad_tail. exact Hi. }
  destruct (key_is (ph_key p) KeyNames.bar).
  { rewrite format_bar_ok by exact Hs. cbn [oseq]. eexists. apply pad_tail. exact Hi. }
  destruct (key_is (ph_key p) KeyNames.spinner).
  { destruct (current_tick_str_ok st sn Hs) as [s Es]. rewrite Es.
    rewrite tab_site_ok by exact Htab. cbn [oseq]. eexists. apply pad_tail. exact Hi. }
  destruct (key_is (ph_key p) KeyNames.wide_msg).
  { eexists. apply pad_tail. exact Hi. }
  destruct (key_is (ph_key p) KeyNames.msg).
  { rewrite expanded_new_ok by exact Htab. cbn [oseq]. eexists. apply pad_tail. exact Hm. }
  destruct (key_is (ph_key p) KeyNames.prefix).
  { rewrite expanded_new_ok by exact Htab. cbn [oseq]. eexists. apply pad_tail. exact Hpre. }
  destruct (key_is (ph_key p) KeyNames.per_sec).
  { cbn [part_ok] in Hp. destruct (ph_width p) as [w|] eqn:Ew.
    - destruct (N.leb_spec U16 w); [lia|]. eexists.
      rewrite padded_sites_ok by exact Hi. reflexivity.
    - eexists. reflexivity. }
  eexists. apply pad_tail. exact Hi.
Qed.

Lemma push_line_sites_ok st sn O i wd tw :
  StyleOK st -> tab_sane st -> snap_ok sn -> push_line_sites st sn O i wd tw = Ok tt.
Proof.
  intros Hs Htab [Hm _]. unfold push_line_sites. destruct wd as [[|a]|]; [| |reflexivity].
  - apply format_bar_ok; exact Hs.
  - rewrite expanded_new_ok by exact Htab. cbn [oseq]. apply padded_sites_ok; exact Hm.
Qed.

Lemma walk_ok st sn O tw ps : forall i wd,
  StyleOK st -> tab_sane st -> snap_ok sn -> oracles_ok O -> Forall part_ok ps ->
  exists wd', walk st sn O tw i ps wd = Ok wd'.
Proof.
  induction ps as [|p r IH]; intros i wd Hs Htab Hn HO Hp; cbn [walk].
  - eexists; reflexivity.
  - inversion Hp as [|? ? Hp1 Hpr]; subst. destruct p as [s|q|].
    + rewrite expanded_new_ok by exact Htab. cbn [oseq]. apply IH; assumption.
    + destruct (placeholder_sites_ok st sn O i q Hs Htab Hn HO Hp1) as [nw E]. rewrite E.
      apply IH; assumption.
    + rewrite push_line_sites_ok by assumption. cbn [oseq]. apply IH; assumption.
Qed.

(** format_state never reaches a panic site for a style that satisfies the invariant *)
Theorem render_ok st sn tw O :
  StyleOK st -> tab_sane st -> snap_ok sn -> oracles_ok O -> render_outcome st sn tw O = Ok tt.
Proof.
  intros Hs Htab Hn HO. unfold render_outcome.
  destruct Hs as (H1 & H2 & H3 & H4 & H4' & H5).
  assert (Hs : StyleOK st) by (repeat split; assumption).
  destruct (walk_ok st sn O tw (st_parts st) 0%nat None Hs Htab Hn HO H5) as [wd E]. rewrite E.
  destruct (o_cur_nonempty O); [|reflexivity].
  apply push_line_sites_ok; assumption.
Qed.

(** * one frame on the terminal *)
Lemma wrapped_height_fill cols tw :
  0 < tw -> wrapped_height cols tw * tw <= cols + tw.
Proof.
  intros Htw. unfold wrapped_height. destruct (N.eqb_spec tw 0); [lia|].
  pose proof (N.div_mod (cols + tw - 1) tw ltac:(lia)) as Hd.
  pose proof (N.mod_lt (cols + tw - 1) tw ltac:(lia)) as Hm.
  destruct (N.max_spec 1 ((cols + tw - 1) / tw)) as [[_ ->]|[_ ->]]; nia.
Qed.

Lemma paint_ok ls : forall idx total tw th real,
  tw < U16 -> th < U16 -> real <= th ->
  exists r, paint ls idx total tw th real = Ok r /\ r <= th.
Proof.
  induction ls as [|c r IH]; intros idx total tw th real Htw Hth Hreal; cbn [paint].
  - exists real. split; [reflexivity | exact Hreal].
  - unfold sat_addu.
    destruct (N.ltb_spec th (N.min USIZE_MAX (real + wrapped_height c tw))) as [|Hfit].
    { exists real. split; [reflexivity | exact Hreal]. }
    assert (Hsum : real + wrapped_height c tw <= th).
    { unfold USIZE_MAX, U64MAX, U16 in *. lia. }
    destruct (N.ltb_spec USIZE_MAX (real + wrapped_height c tw)) as [Hov|_].
    { unfold USIZE_MAX, U64MAX, U16 in *. lia. }
    assert (Hfill : (ISIZE_MAX <? sat_mulu (wrapped_height c tw) tw - c) = false).
    { apply N.ltb_ge. unfold sat_mulu.
      destruct (N.eq_dec tw 0) as [->|Hnz].
      - rewrite N.mul_0_r. unfold ISIZE_MAX. lia.
      - pose proof (wrapped_height_fill c tw ltac:(lia)).
        unfold ISIZE_MAX, USIZE_MAX, U64MAX, U16 in *. lia. }
    rewrite Hfill, andb_false_r.
    apply IH; assumption.
Qed.

(** draw_to_term never reaches a panic site: every terminal size a u16 pair can hold
    (width 0 included), every list of line widths, EVERY previous line count (it is capped at the
    terminal height first, 7d42cff); the new count is at most twice the height *)
Theorem frame_ok ls tw th n bottom :
  tw < U16 -> th < U16 ->
  exists n', frame_outcome ls tw th n bottom = Ok n' /\ n' <= th + (if bottom then th else 0).
Proof.
  intros Htw Hth. unfold frame_outcome, frame_clears.
  destruct (paint_ok ls 0 (nlen ls) tw th 0 Htw Hth ltac:(lia)) as [r [E Hr]].
  set (m := N.min n th).
  assert (Hm : m <= th) by (subst m; lia).
  set (shift := if bottom && (visual_line_count ls tw <? m) then m - visual_line_count ls tw else 0).
  assert (Hshift : shift <= (if bottom then th else 0)).
  { subst shift. destruct bottom; cbn [andb]; [|lia].
    destruct (visual_line_count ls tw <? m); lia. }
  assert (Hfs : (match ls with [] => (0 <? shift) && (th <=? shift) | _ :: _ => false end && (shift =? 0)) = false).
  { destruct ls; [|reflexivity]. destruct (N.eqb_spec shift 0) as [->|]; [reflexivity | apply andb_false_r]. }
  rewrite Hfs, E.
  destruct (N.ltb_spec USIZE_MAX (r + shift)) as [Hov|_].
  { destruct bottom; unfold USIZE_MAX, U64MAX, U16 in *; lia. }
  exists (r + shift). split; [reflexivity | lia].
Qed.

Theorem draw_ok st sn tw th n bottom O :
  StyleOK st -> tab_sane st -> snap_ok sn -> oracles_ok O ->
  tw < U16 -> th < U16 ->
  exists n', draw_outcome st sn tw th n bottom O = Ok n'.
Proof.
  intros Hs Htab Hsn HO Htw Hth. unfold draw_outcome. rewrite render_ok by assumption. cbn [oseq].
  destruct (frame_ok (o_lines O) tw th n bottom Htw Hth) as [n' [E _]]. exists n'. exact E.
Qed.

(** * the main statements *)
(* only OSetTab changes the tab width *)
Lemma bstep_tab st o st' : builder_op o -> bstep st o = BOk st' -> st_tab st' = st_tab st.
Proof.
  intros Hb H. destruct o as [s|l|cl|s|k|w]; cbn [bstep builder_op] in *; try contradiction.
  - destruct (nlen (map (fun c => [c]) s) <? 2); [discriminate|]. inversion H; reflexivity.
  - destruct (nlen l <? 2); [discriminate|]. inversion H; reflexivity.
  - destruct (nlen cl <? 2); [discriminate|]. destruct (width_of cl) as [w|]; [|discriminate].
    destruct (w =? 0); [discriminate|].
    destruct (existsb (fun c => has_tab (cl_text c)) cl); [discriminate|]. inversion H; reflexivity.
  - rewrite parse_full_total in H. destruct (parse s); [|discriminate]. inversion H; reflexivity.
  - inversion H; reflexivity.
Qed.

Lemma brun_idx_tab ops : forall i st j st',
  Forall builder_op ops -> brun_idx i st ops = (j, BOk st') -> st_tab st' = st_tab st.
Proof.
  induction ops as [|o r IH]; intros i st j st' Hf H; cbn [brun_idx] in H.
  - inversion H; reflexivity.
  - inversion Hf as [|? ? Ho Hr]; subst.
    destruct (bstep st o) as [s1| |] eqn:E; try (inversion H; fail).
    rewrite (IH _ _ _ _ Hr H). exact (bstep_tab _ _ _ Ho E).
Qed.

Lemma construct_tab c st : construct c = BOk st -> st_tab st = DEFAULT_TAB_WIDTH.
Proof.
  assert (Hn : forall ps st0, new_style ps = BOk st0 -> st_tab st0 = DEFAULT_TAB_WIDTH).
  { intros ps st0 H. unfold new_style in H. rewrite default_width in H. inversion H; reflexivity. }
  destruct c as [| |t]; cbn [construct]; rewrite parse_full_total.
  - destruct (parse DEFAULT_BAR_TEMPLATE); [apply Hn | discriminate].
  - destruct (parse DEFAULT_SPINNER_TEMPLATE); [apply Hn | discriminate].
  - destruct (parse t); [apply Hn | discriminate].
Qed.

(* a style as the builder methods return it carries the default tab width *)
Lemma build_tab c ops st :
  Forall builder_op ops -> build c ops = BOk st -> tab_sane st.
Proof.
  unfold build, build_idx. intros Hf. destruct (construct c) as [s0| |] eqn:E; cbn [snd]; try discriminate.
  destruct (brun_idx 0 s0 ops) as [j r] eqn:Er. cbn [snd]. intros H; subst r.
  unfold tab_sane. rewrite (brun_idx_tab _ _ _ _ _ Hf Er), (construct_tab _ _ E).
  vm_compute. discriminate.
Qed.

Theorem accepted_renders c ops st :
  Forall builder_op ops -> build c ops = BOk st ->
  forall sn tw O, snap_ok sn -> oracles_ok O -> render_outcome st sn tw O = Ok tt.
Proof.
  intros Hf Hb sn tw O Hsn HO.
  apply render_ok; [exact (build_ok _ _ _ Hb) | exact (build_tab _ _ _ Hf Hb) | exact Hsn | exact HO].
Qed.

Theorem accepted_renders_any_tab c ops st :
  build c ops = BOk st -> tab_sane st ->
  forall sn tw O, snap_ok sn -> oracles_ok O -> render_outcome st sn tw O = Ok tt.
Proof.
  intros Hb Htab sn tw O Hsn HO.
  apply render_ok; [exact (build_ok _ _ _ Hb) | exact Htab | exact Hsn | exact HO].
Qed.

Theorem accepted_draws c ops st :
  Forall builder_op ops -> build c ops = BOk st ->
  forall sn tw th n bottom O, snap_ok sn -> oracles_ok O ->
    tw < U16 -> th < U16 ->
    exists n', draw_outcome st sn tw th n bottom O = Ok n'.
Proof.
  intros Hf Hb sn tw th n bottom O Hsn HO Htw Hth.
  apply draw_ok; try assumption; [exact (build_ok _ _ _ Hb) | exact (build_tab _ _ _ Hf Hb)].
Qed.

Theorem accepted_draws_any_tab c ops st :
  build c ops = BOk st -> tab_sane st ->
  forall sn tw th n bottom O, snap_ok sn -> oracles_ok O ->
    tw < U16 -> th < U16 ->
    exists n', draw_outcome st sn tw th n bottom O = Ok n'.
Proof.
  intros Hb Htab sn tw th n bottom O Hsn HO Htw Hth.
  apply draw_ok; try assumption. exact (build_ok _ _ _ Hb).
Qed.

(** REFUTED beyond the known class [~ tab_sane]: a bar whose tab width exceeds isize::MAX
    (ProgressBar::with_tab_width(usize::MAX)) and whose template holds a with_key key panics in
    the draw (capacity overflow in TabRewriter::write_str) although every builder call succeeded. *)
Theorem huge_tab_refuted :
  exists st, build (CWithTemplate huge_tab_template) huge_tab_ops = BOk st
    /\ StyleOK st /\ snap_ok plain_snap /\ oracles_ok plain_oracles
    /\ render_outcome st plain_snap 80 plain_oracles = Panic SITE_TAB_REPEAT.
Proof.
  eexists. split; [vm_compute; reflexivity|].
  split; [apply (build_ok (CWithTemplate huge_tab_template) huge_tab_ops); vm_compute; reflexivity|].
  split; [split; vm_compute; discriminate|].
  split; [intros i; vm_compute; discriminate|].
  vm_compute. reflexivity.
Qed.

(** the public ProgressStyle::get_tick_str / get_final_tick_str on an accepted style: never a
    panic, and the string is the one the documentation names (index tick mod (n-1), resp. the
    last string) *)
Theorem accepted_ticks c ops st :
  build c ops = BOk st ->
  (forall idx, exists s, get_tick_str (st_ticks st) idx = Ok s
      /\ nth_error (st_ticks st) (N.to_nat (idx mod (nlen (st_ticks st) - 1))) = Some s)
  /\ (exists s, get_final_tick_str (st_ticks st) = Ok s /\ last (st_ticks st) [] = s).
Proof.
  intros Hb. pose proof (build_ok _ _ _ Hb) as (Ht & _). split.
  - intros idx. destruct (get_tick_str_ok (st_ticks st) idx Ht) as [s E]. exists s. split; [exact E|].
    unfold get_tick_str in E.
    destruct (nlen (st_ticks st) =? 0); [discriminate|].
    destruct (nlen (st_ticks st) - 1 =? 0); [discriminate|].
    destruct (nth_error (st_ticks st) (N.to_nat (idx mod (nlen (st_ticks st) - 1)))); inversion E; reflexivity.
  - destruct (get_final_tick_str_ok (st_ticks st) Ht) as [s E]. exists s. split; [exact E|].
    unfold get_final_tick_str in E.
    destruct (nlen (st_ticks st) =? 0); [discriminate|].
    destruct (nth_error (st_ticks st) (N.to_nat (nlen (st_ticks st) - 1))) as [x|] eqn:En; inversion E; subst x.
    clear E Ht Hb. unfold nlen in En. revert En.
    generalize (st_ticks st) as l. intros l.
    replace (N.to_nat (N.of_nat (length l) - 1)) with (length l - 1)%nat by lia.
    induction l as [|a r IH]; cbn [length]; intros H.
    + cbn in H. discriminate.
    + destruct r as [|b r'].
      * cbn in H. inversion H; reflexivity.
      * cbn [last]. apply IH. cbn [length] in *.
        replace (S (S (length r')) - 1)%nat with (S (length r')) in H by lia. cbn [nth_error] in H.
        replace (S (length r') - 1)%nat with (length r') by lia. exact H.
Qed.

(** * rejections happen in the builder call *)
Lemma tab_free_iff cl :
  existsb (fun c => has_tab (cl_text c)) cl = false <-> Forall (fun c => ~ In 9 (cl_text c)) cl.
Proof.
  induction cl as [|c r IH]; cbn [existsb].
  - split; [constructor | reflexivity].
  - rewrite orb_false_iff, IH. split.
    + intros [H1 H2]. constructor; [|exact H2]. intros Hin. apply has_tab_In in Hin. congruence.
    + intros H. inversion H as [|? ? H1 H2]; subst. split; [|exact H2].
      destruct (has_tab (cl_text c)) eqn:E; [|reflexivity]. exfalso. apply H1, has_tab_In, E.
Qed.

Theorem rejects_early st :
  (forall s, nlen s < 2 -> bstep st (OTickChars s) = BPanic SITE_TICK_CHARS)
  /\ (forall l, nlen l < 2 -> bstep st (OTickStrings l) = BPanic SITE_TICK_STRINGS)
  /\ (forall cl, nlen cl < 2 -> bstep st (OProgressChars cl) = BPanic SITE_PCHARS_LT2)
  /\ (forall cl, 2 <= nlen cl -> (exists a b, In a cl /\ In b cl /\ cl_w a <> cl_w b) ->
        bstep st (OProgressChars cl) = BPanic SITE_WIDTH_UNEQUAL)
  /\ (forall cl, 2 <= nlen cl -> Forall (fun c => cl_w c = 0) cl ->
        bstep st (OProgressChars cl) = BPanic SITE_PCHARS_ZERO)
  /\ (forall cl w, 2 <= nlen cl -> 1 <= w -> Forall (fun c => cl_w c = w) cl ->
        (exists c, In c cl /\ In 9 (cl_text c)) ->
        bstep st (OProgressChars cl) = BPanic SITE_PCHARS_TAB).
Proof.
  repeat split.
  - intros s H. cbn [bstep]. rewrite nlen_map. destruct (N.ltb_spec (nlen s) 2); [reflexivity | lia].
  - intros l H. cbn [bstep]. destruct (N.ltb_spec (nlen l) 2); [reflexivity | lia].
  - intros cl H. cbn [bstep]. destruct (N.ltb_spec (nlen cl) 2); [reflexivity | lia].
  - intros cl H (a & b & Ha & Hb & Hab). cbn [bstep].
    destruct (N.ltb_spec (nlen cl) 2); [lia|].
    destruct (width_of cl) as [w|s] eqn:E.
    + apply width_of_ok in E. destruct E as [_ E]. rewrite Forall_forall in E.
      exfalso. apply Hab. rewrite (E a Ha), (E b Hb). reflexivity.
    + apply width_of_panic in E. destruct E as [[E _]|[E _]]; [|rewrite E; reflexivity].
      subst cl. destruct Ha.
  - intros cl H Hz. cbn [bstep].
    destruct (N.ltb_spec (nlen cl) 2); [lia|].
    assert (E : width_of cl = Ok 0).
    { apply width_of_ok. split; [|exact Hz]. intros ->. unfold nlen in H. cbn in H. lia. }
    rewrite E. reflexivity.
  - intros cl w H Hw Hf (c & Hc & Ht). cbn [bstep].
    destruct (N.ltb_spec (nlen cl) 2); [lia|].
    assert (E : width_of cl = Ok w).
    { apply width_of_ok. split; [|exact Hf]. intros ->. unfold nlen in H. cbn in H. lia. }
    rewrite E. destruct (N.eqb_spec w 0); [lia|].
    destruct (existsb (fun c0 => has_tab (cl_text c0)) cl) eqn:Et; [reflexivity|].
    exfalso. apply tab_free_iff in Et. rewrite Forall_forall in Et. exact (Et c Hc Ht).
Qed.

(** the builder accepts exactly what the documentation allows *)
Theorem bstep_accepts st o : (exists st', bstep st o = BOk st') <-> accepts o.
Proof.
  destruct o as [s|l|cl|s|k|w]; cbn [bstep accepts].
  - rewrite nlen_map. destruct (N.ltb_spec (nlen s) 2) as [Hl|Hl]; split.
    + intros [? Hx]; discriminate. + lia. + lia. + intros _. eexists; reflexivity.
  - destruct (N.ltb_spec (nlen l) 2) as [Hl|Hl]; split.
    + intros [? Hx]; discriminate. + lia. + lia. + intros _. eexists; reflexivity.
  - destruct (N.ltb_spec (nlen cl) 2) as [Hl|Hl]; split.
    + intros [? Hx]; discriminate.
    + intros [H _]. lia.
    + destruct (width_of cl) as [w|s] eqn:E; [|intros [? Hx]; discriminate].
      destruct (N.eqb_spec w 0); [intros [? Hx]; discriminate|].
      destruct (existsb (fun c => has_tab (cl_text c)) cl) eqn:Et; [intros [? Hx]; discriminate|].
      intros _. split; [exact Hl|]. split; [|apply tab_free_iff; exact Et].
      exists w. split; [lia|]. apply width_of_ok in E. exact (proj2 E).
    + intros [_ [(w & Hw & Hf) Hnt]].
      assert (E : width_of cl = Ok w).
      { apply width_of_ok. split; [|exact Hf]. intros ->. unfold nlen in Hl. cbn in Hl. lia. }
      rewrite E. destruct (N.eqb_spec w 0); [lia|].
      apply tab_free_iff in Hnt. rewrite Hnt. eexists; reflexivity.
  - rewrite parse_full_total. destruct (parse s) as [ps|t c]; split.
    + intros _. exists ps; reflexivity. + intros _. eexists; reflexivity.
    + intros [? Hx]; discriminate. + intros [? Hx]; discriminate.
  - split; [intros _; exact I | intros _; eexists; reflexivity].
  - split; [intros _; exact I | intros _; eexists; reflexivity].
Qed.

(** what is not accepted is refused at once: a panic at one of the six builder sites, or
    Err(TemplateError) for a template *)
Theorem bstep_rejects st o :
  ~ accepts o ->
  match o with
  | OTemplate _ => exists t c, bstep st o = BErr t c
  | _ => exists s, bstep st o = BPanic s /\ builder_site s
  end.
Proof.
  intros Hn. pose proof (bstep_accepts st o) as Ha. unfold builder_site.
  destruct o as [s|l|cl|s|k|w]; cbn [bstep accepts] in *.
  - rewrite nlen_map in *. destruct (N.ltb_spec (nlen s) 2).
    + eexists; split; [reflexivity | tauto].
    + exfalso. apply Hn. lia.
  - destruct (N.ltb_spec (nlen l) 2).
    + eexists; split; [reflexivity | tauto].
    + exfalso. apply Hn. lia.
  - destruct (N.ltb_spec (nlen cl) 2) as [Hl|Hl].
    + eexists; split; [reflexivity | tauto].
    + destruct (width_of cl) as [w|s] eqn:E.
      * destruct (N.eqb_spec w 0).
        -- eexists; split; [reflexivity | tauto].
        -- destruct (existsb (fun c => has_tab (cl_text c)) cl).
           ++ eexists; split; [reflexivity | tauto].
           ++ exfalso. apply Hn. apply Ha. eexists; reflexivity.
      * exists s. split; [reflexivity|]. apply width_of_panic in E.
        destruct E as [[E _]|[E _]]; [|tauto]. subst cl. unfold nlen in Hl. cbn in Hl. lia.
  - rewrite parse_full_total in *. destruct (parse s) as [ps|t c].
    + exfalso. apply Hn. exists ps; reflexivity.
    + exists t, c; reflexivity.
  - exfalso. apply Hn. exact I.
  - exfalso. apply Hn. exact I.
Qed.

(** * agreement with the models of C12 (Padded.v) and C11 (Keys.v), which transcribe the same
      Rust functions independently: the panic condition / the selected string coincide *)
Require IndModel.Keys.

Lemma padded_sites_agrees (s : Padded.str) w a tr :
  is_ok (Padded.padded s w a tr)
  = is_ok (padded_sites (mkmt (Padded.blen s) (Padded.cols s)) w (conv_align a) tr).
Proof.
  unfold Padded.padded, padded_sites, Padded.trunc_range. cbn [mt_len mt_cols].
  destruct ((0 <? Padded.cols s - w) && negb tr); [reflexivity|].
  destruct (0 <? Padded.cols s - w).
  - destruct a; cbn [conv_align].
    + destruct (Padded.blen s <? Padded.cols s - w); reflexivity.
    + destruct (Padded.blen s <? Padded.cols s - w - (Padded.cols s - w) / 2); reflexivity.
    + reflexivity.
  - destruct (Padded.pad_split a (w - Padded.cols s)); reflexivity.
Qed.

Lemma get_tick_str_agrees ticks idx s :
  get_tick_str ticks idx = Ok s -> Keys.get_tick_str ticks idx = s.
Proof.
  unfold get_tick_str, Keys.get_tick_str, nlen.
  destruct (N.of_nat (length ticks) =? 0); [discriminate|].
  destruct (N.of_nat (length ticks) - 1 =? 0); [discriminate|].
  destruct (nth_error ticks (N.to_nat (idx mod (N.of_nat (length ticks) - 1)))) as [x|] eqn:E; [|discriminate].
  intros H; inversion H; subst. apply nth_error_nth. exact E.
Qed.

Lemma get_final_tick_str_agrees ticks s :
  get_final_tick_str ticks = Ok s -> Keys.get_final_tick_str ticks = s.
Proof.
  unfold get_final_tick_str, Keys.get_final_tick_str, nlen.
  destruct (N.of_nat (length ticks) =? 0); [discriminate|].
  destruct (nth_error ticks (N.to_nat (N.of_nat (length ticks) - 1))) as [x|] eqn:E; [|discriminate].
  intros H; inversion H; subst.
  replace (N.to_nat (N.of_nat (length ticks) - 1)) with (length ticks - 1)%nat in E by lia.
  apply nth_error_nth. exact E.
Qed.

Theorem models_agree :
  (forall (s : Padded.str) w a tr,
     is_ok (Padded.padded s w a tr)
     = is_ok (padded_sites (mkmt (Padded.blen s) (Padded.cols s)) w (conv_align a) tr))
  /\ (forall ticks idx s, get_tick_str ticks idx = Ok s -> Keys.get_tick_str ticks idx = s)
  /\ (forall ticks s, get_final_tick_str ticks = Ok s -> Keys.get_final_tick_str ticks = s).
Proof.
  split; [exact padded_sites_agrees|]. split; [exact get_tick_str_agrees | exact get_final_tick_str_agrees].
Qed.

(** * the debug_assert of TabExpandedString::expanded (state.rs:386) *)
Lemma tes_made_inv v b : tes_made v b -> v = VNoTabs -> b = false.
Proof.
  induction 1 as [b| |v b Hm IH]; intros Hv.
  - destruct b; [discriminate | reflexivity].
  - reflexivity.
  - exact (IH Hv).
Qed.

Theorem notabs_assert_unreachable st :
  (forall v b, tes_made v b -> expanded_site st v b <> Panic SITE_NOTABS_ASSERT)
  /\ expanded_site st VNoTabs true = Panic SITE_NOTABS_ASSERT.
Proof.
  split; [|reflexivity]. intros v b Hm. destruct v; cbn [expanded_site].
  - rewrite (tes_made_inv _ _ Hm eq_refl). discriminate.
  - unfold tab_site. cbn [andb]. destruct (ISIZE_MAX <? st_tab st); [|discriminate].
    intros H. inversion H.
Qed.

(** * [frame_outcome] returns the count of the shared value model of draw_to_term (Draw.v, the
      model C01/C19 tie to the code): for frames of Bar lines on a terminal of non-zero width *)
Require IndModel.Draw.
Module D := IndModel.Draw.
Module T := IndModel.Text.

Lemma wh_agree l W : W <> 0 -> wrapped_height (T.lwidth l) W = T.wrapped_height l W.
Proof.
  intros HW. unfold wrapped_height, T.wrapped_height.
  destruct (N.eqb_spec W 0); [contradiction | reflexivity].
Qed.

Lemma plain_fold_add (f : T.line -> N) ls : forall x,
  fold_left (fun a l => a + f l) ls x = x + fold_left (fun a l => a + f l) ls 0.
Proof.
  induction ls as [|l r IH]; intros x; cbn [fold_left]; [lia|].
  rewrite (IH (x + f l)), (IH (0 + f l)). lia.
Qed.

Lemma vlc_agree ls W : W <> 0 ->
  visual_line_count (map T.lwidth ls) W = N.min USIZE_MAX (T.visual_line_count ls W).
Proof.
  intros HW. unfold visual_line_count, T.visual_line_count.
  assert (G : forall acc, acc <= USIZE_MAX ->
    fold_left (fun a c => sat_addu a (wrapped_height c W)) (map T.lwidth ls) acc
    = N.min USIZE_MAX (fold_left (fun a l => a + T.wrapped_height l W) ls acc)).
  { induction ls as [|l r IH]; intros acc Hacc; cbn [fold_left map]; [lia|].
    rewrite IH by (unfold sat_addu; lia).
    rewrite wh_agree by exact HW. unfold sat_addu.
    rewrite (plain_fold_add _ r (N.min USIZE_MAX (acc + T.wrapped_height l W))).
    rewrite (plain_fold_add _ r (acc + T.wrapped_height l W)). lia. }
  apply G. unfold USIZE_MAX, U64MAX. lia.
Qed.

(* one iteration of the loop once the sites are known not to fire *)
Lemma paint_cons c r idx total tw th real :
  tw < U16 -> th < U16 -> real <= th ->
  paint (c :: r) idx total tw th real
  = if th <? real + wrapped_height c tw then Ok real
    else paint r (idx + 1) total tw th (real + wrapped_height c tw).
Proof.
  intros Htw Hth Hreal. cbn [paint]. unfold sat_addu.
  destruct (N.ltb_spec th (N.min USIZE_MAX (real + wrapped_height c tw))) as [Hb|Hfit];
    destruct (N.ltb_spec th (real + wrapped_height c tw)) as [Hb'|Hfit']; try reflexivity;
    try (unfold USIZE_MAX, U64MAX, U16 in *; lia).
  destruct (N.ltb_spec USIZE_MAX (real + wrapped_height c tw)) as [Hov|_].
  { unfold USIZE_MAX, U64MAX, U16 in *. lia. }
  assert (Hfill : (ISIZE_MAX <? sat_mulu (wrapped_height c tw) tw - c) = false).
  { apply N.ltb_ge. unfold sat_mulu.
    destruct (N.eq_dec tw 0) as [->|Hnz].
    - rewrite N.mul_0_r. unfold ISIZE_MAX. lia.
    - pose proof (wrapped_height_fill c tw ltac:(lia)).
      unfold ISIZE_MAX, USIZE_MAX, U64MAX, U16 in *. lia. }
  rewrite Hfill, andb_false_r. reflexivity.
Qed.

Lemma paint_agree ls W H : W <> 0 -> W < U16 -> H < U16 ->
  forallb T.is_bar ls = true ->
  forall idx total real, real <= H ->
    paint (map T.lwidth ls) idx total W H real = Ok (snd (D.paint ls idx total W H real)).
Proof.
  intros HW HW16 HH. induction ls as [|l r IH]; intros Hb idx total real Hreal; [reflexivity|].
  cbn [forallb] in Hb. apply andb_prop in Hb. destruct Hb as [Hl Hr].
  cbn [map]. rewrite paint_cons by assumption. rewrite wh_agree by exact HW.
  cbn [D.paint]. rewrite Hl. cbn [andb].
  destruct (N.ltb_spec H (real + T.wrapped_height l W)) as [Hbr|Hfit]; [reflexivity|].
  rewrite IH by (try assumption; lia).
  destruct (D.paint r (idx + 1) total W H (real + T.wrapped_height l W)) as [ops rf]. reflexivity.
Qed.

Lemma paint_pad_agree ls W H shift : forallb T.is_bar ls = true ->
  forall idx total real,
    let '(_, rf, pf) := D.paint_pad ls idx total W H real shift true in
    rf = snd (D.paint ls idx total W H real) /\ pf = true.
Proof.
  induction ls as [|l r IH]; intros Hb idx total real; [split; reflexivity|].
  cbn [forallb] in Hb. apply andb_prop in Hb. destruct Hb as [Hl Hr].
  cbn [D.paint_pad D.paint]. rewrite Hl. cbn [andb orb negb].
  destruct (H <? real + T.wrapped_height l W); [split; reflexivity|].
  specialize (IH Hr (idx + 1) total (real + T.wrapped_height l W)).
  destruct (D.paint_pad r (idx + 1) total W H (real + T.wrapped_height l W) shift true) as [[ops rf] pf].
  destruct (D.paint r (idx + 1) total W H (real + T.wrapped_height l W)) as [ops' rf'].
  exact IH.
Qed.

Lemma starts_with_text_bars ls : forallb T.is_bar ls = true -> D.starts_with_text ls = false.
Proof.
  destruct ls as [|l r]; [reflexivity|]. cbn [forallb D.starts_with_text].
  intros H. apply andb_prop in H. destruct H as [H _]. rewrite H. reflexivity.
Qed.

Theorem frame_agrees_with_draw_model (ls : list T.line) (W H n : N) (bottom below : bool) :
  forallb T.is_bar ls = true -> 0 < W -> W < U16 -> H < U16 ->
  frame_outcome (map T.lwidth ls) W H n bottom
  = Ok (snd (fst (D.draw_to_term ls n (if bottom then D.Bottom else D.Top) below W H))).
Proof.
  intros Hb HW0 HW HH. assert (HWn : W <> 0) by lia.
  unfold frame_outcome, frame_clears, D.draw_to_term.
  rewrite vlc_agree by exact HWn.
  set (m := N.min n H). set (full := T.visual_line_count ls W).
  assert (Hm : m <= H) by (subst m; lia).
  set (shift0 := match (if bottom then D.Bottom else D.Top) with
                 | D.Bottom => if full <? m then m - full else 0
                 | D.Top => 0 end).
  assert (Hs : (if bottom && (N.min USIZE_MAX full <? m) then m - N.min USIZE_MAX full else 0) = shift0).
  { subst shift0. destruct bottom; cbn [andb]; [|reflexivity].
    destruct (N.ltb_spec (N.min USIZE_MAX full) m); destruct (N.ltb_spec full m);
      unfold USIZE_MAX, U64MAX, U16 in *; lia. }
  rewrite Hs.
  assert (Hsh : shift0 <= H).
  { subst shift0. destruct bottom; [destruct (full <? m)|]; lia. }
  assert (Hfs : (match map T.lwidth ls with [] => (0 <? shift0) && (H <=? shift0) | _ :: _ => false end
                 && (shift0 =? 0)) = false).
  { destruct (map T.lwidth ls); [|reflexivity].
    destruct (N.eqb_spec shift0 0) as [->|]; [reflexivity | apply andb_false_r]. }
  rewrite Hfs. unfold nlen. rewrite map_length.
  rewrite (paint_agree ls W H HWn HW HH Hb 0 (N.of_nat (length ls)) 0) by lia.
  pose proof (paint_pad_agree ls W H shift0 Hb 0 (N.of_nat (length ls)) 0) as Hpp.
  rewrite (starts_with_text_bars ls Hb). cbn [negb].
  destruct (D.paint ls 0 (N.of_nat (length ls)) W H 0) as [po re] eqn:Ep. cbn [snd] in *.
  assert (Hre : re <= H).
  { destruct (paint_ok (map T.lwidth ls) 0 (N.of_nat (length ls)) W H 0 HW HH ltac:(lia)) as [r0 [E0 H0]].
    rewrite (paint_agree ls W H HWn HW HH Hb 0 (N.of_nat (length ls)) 0) in E0 by lia.
    rewrite Ep in E0. cbn [snd] in E0. inversion E0; subst; exact H0. }
  destruct (N.eqb_spec shift0 0) as [Hz|Hnz].
  - rewrite Hz. cbn [fst snd]. rewrite N.add_0_r.
    destruct (N.ltb_spec USIZE_MAX re); [unfold USIZE_MAX, U64MAX, U16 in *; lia | reflexivity].
  - destruct (D.paint_pad ls 0 (N.of_nat (length ls)) W H 0 shift0 true) as [[po' re'] pf].
    destruct Hpp as [-> ->]. cbn [fst snd].
    destruct (N.ltb_spec USIZE_MAX (re + shift0)); [unfold USIZE_MAX, U64MAX, U16 in *; lia | reflexivity].
Qed.

(** * the Display impls format_state calls are total (C15), whatever the getters return *)
Require IndProofs.FmtProofs.

(* the entry named for a key is the case C11's dispatch evaluates (with C16's formatter record):
   the drawn text is the formatter's output (or [] if the model panicked) followed by the suffix *)
Lemma formatter_call_agrees dec32 ticks tab s b w c suf :
  formatter_call s b w = Some (c, suf) ->
  fst (Keys.builtin_value (TabsEnv.fmt_formatters dec32) ticks tab s b w)
  = TabsEnv.ok_or_nil (Fmt.fmt_model c) ++ suf.
Proof.
  destruct b; cbn [formatter_call]; intros H; inversion H; subst; clear H;
    cbn [Keys.builtin_value fst TabsEnv.fmt_formatters Keys.f_count Keys.f_hbytes Keys.f_dbytes
         Keys.f_bbytes Keys.f_fdur Keys.f_hdur Keys.f_hfloat Fmt.fmt_model TabsEnv.ok_or_nil snd];
    rewrite ?app_nil_r; try reflexivity.
  destruct w; reflexivity.
Qed.

(* keys without an entry do not use a formatter of src/format.rs at all *)
Lemma formatter_call_none F G ticks tab s b w :
  formatter_call s b w = None -> same_core_formatters F G ->
  Keys.builtin_value F ticks tab s b w = Keys.builtin_value G ticks tab s b w.
Proof.
  intros H [Hp Hb]. destruct b; cbn [formatter_call] in H; try discriminate;
    cbn [Keys.builtin_value]; rewrite ?Hp, ?Hb; reflexivity.
Qed.

(** every formatter of src/format.rs that the key dispatch evaluates returns a string, and that
    string (not the [] a model panic would be turned into) is what the dispatch draws *)
Theorem formatters_total dec32 ticks tab s b w c suf :
  formatter_call s b w = Some (c, suf) ->
  exists str, Fmt.fmt_model c = Ok str
    /\ fst (Keys.builtin_value (TabsEnv.fmt_formatters dec32) ticks tab s b w) = str ++ suf.
Proof.
  intros H. destruct (FmtProofs.fmt_total c) as [str E]. exists str. split; [exact E|].
  rewrite (formatter_call_agrees dec32 ticks tab s b w c suf H), E. reflexivity.
Qed.
