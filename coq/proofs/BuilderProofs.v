(** Proofs about model/Builder.v (C14). *)
From IndModel Require Import Base Template Builder.
From IndGen Require Import Constants.
From IndProofs Require Import TemplateProofs.
From Coq Require Import Lia List NArith Bool.
Require Import ZifyBool ZifyNat ZifyN.
Import ListNotations.
Open Scope N_scope.
Arguments N.add : simpl never.
Arguments N.sub : simpl never.
Arguments N.mul : simpl never.
Arguments N.div : simpl never.
Arguments N.modulo : simpl never.

(** * width() *)
Lemma width_fold_some_ok w ws :
  Forall (fun x => x = w) ws -> width_fold (Some w) ws = Ok (Some w).
Proof.
  induction 1 as [|x r Hx Hr IH]; cbn [width_fold]; [reflexivity|].
  subst x. rewrite N.eqb_refl. exact IH.
Qed.

Lemma width_fold_some_inv w ws r :
  width_fold (Some w) ws = Ok r -> r = Some w /\ Forall (fun x => x = w) ws.
Proof.
  induction ws as [|x t IH]; cbn [width_fold]; intros H.
  - inversion H. split; [reflexivity | constructor].
  - destruct (N.eqb_spec w x) as [E|E]; [|discriminate].
    destruct (IH H) as [Hr Hf]. split; [exact Hr|]. constructor; [symmetry; exact E | exact Hf].
Qed.

Lemma width_fold_some_panic w ws s :
  width_fold (Some w) ws = Panic s -> s = SITE_WIDTH_UNEQUAL /\ ~ Forall (fun x => x = w) ws.
Proof.
  induction ws as [|x t IH]; cbn [width_fold]; intros H; [discriminate|].
  destruct (N.eqb_spec w x) as [E|E].
  - destruct (IH H) as [Hs Hn]. split; [exact Hs|]. intros Hf. apply Hn.
    inversion Hf; assumption.
  - inversion H. split; [reflexivity|]. intros Hf. inversion Hf; subst. apply E; reflexivity.
Qed.

Lemma width_of_ok cl w :
  width_of cl = Ok w <-> cl <> [] /\ Forall (fun c => cl_w c = w) cl.
Proof.
  unfold width_of. destruct cl as [|c r]; cbn [map width_fold].
  - split; [discriminate | intros [H _]; contradiction].
  - split.
    + destruct (width_fold (Some (cl_w c)) (map cl_w r)) as [[x|]|s] eqn:E; try discriminate.
      intros H. inversion H; subst x. apply width_fold_some_inv in E. destruct E as [E1 E2].
      inversion E1; subst w. split; [discriminate|]. constructor; [reflexivity|].
      apply Forall_map in E2. exact E2.
    + intros [_ Hf]. inversion Hf as [|? ? Hc Hr]; subst.
      rewrite width_fold_some_ok; [reflexivity|].
      apply Forall_map. exact Hr.
Qed.

Lemma width_of_panic cl s :
  width_of cl = Panic s ->
  (cl = [] /\ s = SITE_WIDTH_UNWRAP)
  \/ (s = SITE_WIDTH_UNEQUAL /\ exists c r, cl = c :: r /\ ~ Forall (fun x => cl_w x = cl_w c) r).
Proof.
  unfold width_of. destruct cl as [|c r]; cbn [map width_fold].
  - intros H. inversion H. left. split; reflexivity.
  - destruct (width_fold (Some (cl_w c)) (map cl_w r)) as [[x|]|s'] eqn:E.
    + discriminate.
    + apply width_fold_some_inv in E. destruct E as [E _]. discriminate.
    + intros H. inversion H; subst s'. apply width_fold_some_panic in E. destruct E as [Es En].
      right. split; [exact Es|]. exists c, r. split; [reflexivity|].
      intros Hf. apply En. apply Forall_map. exact Hf.
Qed.

(** * widths produced by the template parser fit in u16 *)
Lemma u16_digits_lt ds : forall acc w, acc < U16 -> u16_digits acc ds = Some w -> w < U16.
Proof.
  induction ds as [|d r IH]; intros acc w Hacc H; cbn [u16_digits] in H.
  - inversion H; subst; exact Hacc.
  - destruct (is_digit d); [|discriminate].
    destruct (N.leb_spec U16 (acc * 10)); [discriminate|].
    destruct (N.leb_spec U16 (acc * 10 + (d - 48))) as [|Hlt]; [discriminate|].
    exact (IH _ _ Hlt H).
Qed.

Lemma parse_u16_lt s w : parse_u16 s = Some w -> w < U16.
Proof.
  unfold parse_u16. destruct s as [|c r]; [discriminate|].
  assert (H0 : 0 < U16) by (unfold U16; lia).
  destruct (c =? 43).
  - destruct r; [discriminate|]. apply u16_digits_lt; exact H0.
  - apply u16_digits_lt; exact H0.
Qed.
