(** C09 – proofs about the real-number instance [Rar] of the estimator model. *)
From IndModel Require Import Base Estimator.
From IndGen Require Import Constants.
From Coq Require Import Reals Lra Lia Psatz ZArith NArith List.
From Flocq Require Import Core.Zaux Core.Raux Core.Defs Core.Generic_fmt Core.FLT Core.Round_NE.
Import ListNotations.
Open Scope R_scope.

(** * The weight function W(t) = (1/10)^(t/15)  (definition: model/Estimator.v) *)

Lemma est_weight_R : forall t, est_weight Rar t = W t.
Proof.
  intros t. unfold est_weight, W. cbn [pow_base div of_int Rar].
  unfold R_pow_base, EST_WEIGHT_BASE_NUM, EST_WEIGHT_BASE_DEN, EST_WEIGHTING_SECONDS.
  cbn [Z.of_N Z.of_nat]. reflexivity.
Qed.

Lemma W_pos : forall t, 0 < W t.
Proof. intros t. unfold W, Rpower. apply exp_pos. Qed.

Lemma W_0 : W 0 = 1.
Proof. unfold W. replace (0 / 15) with 0 by lra. apply Rpower_O. lra. Qed.

Lemma W_add : forall a b, W (a + b) = W a * W b.
Proof.
  intros a b. unfold W. rewrite <- Rpower_plus. f_equal. lra.
Qed.

Lemma ln_tenth_neg : ln (1 / 10) < 0.
Proof.
  rewrite <- ln_1. apply ln_increasing; lra.
Qed.

Lemma W_lt_1 : forall t, 0 < t -> W t < 1.
Proof.
  intros t Ht. unfold W, Rpower.
  apply Rlt_le_trans with (exp 0); [apply exp_increasing | rewrite exp_0; lra].
  assert (Hl := ln_tenth_neg).
  assert (Hq : 0 < t / 15) by lra.
  assert (Hp : 0 < (t / 15) * (- ln (1 / 10))) by (apply Rmult_lt_0_compat; lra).
  lra.
Qed.

Lemma W_le_1 : forall t, 0 <= t -> W t <= 1.
Proof.
  intros t [Ht | Ht].
  - left. now apply W_lt_1.
  - subst t. rewrite W_0. lra.
Qed.

Lemma W_decr : forall a b, a <= b -> W b <= W a.
Proof.
  intros a b Hab. replace b with (a + (b - a)) by lra. rewrite W_add.
  assert (H1 := W_pos a). assert (H2 := W_le_1 (b - a)). assert (H3 := W_pos (b - a)).
  nra.
Qed.

Lemma W_15 : W 15 = 1 / 10.
Proof. unfold W. replace (15 / 15) with 1 by lra. apply Rpower_1. lra. Qed.

(** W tends to 0: explicit bound W t <= eps once t >= 15 * ln(1/eps) / ln 10 *)
Lemma W_small : forall eps, 0 < eps -> exists X, 0 <= X /\ forall t, X <= t -> W t <= eps.
Proof.
  intros eps He.
  destruct (Rle_dec 1 eps) as [H1 | H1].
  - exists 0. split; [lra|]. intros t Ht. assert (H := W_le_1 t Ht). lra.
  - assert (Hl : ln eps < 0).
    { rewrite <- ln_1. apply ln_increasing; lra. }
    assert (Hn := ln_tenth_neg).
    exists (15 * (ln eps / ln (1 / 10))). split.
    + apply Rmult_le_pos; [lra|]. apply Rlt_le.
      replace (ln eps / ln (1/10)) with ((- ln eps) / (- ln (1/10))) by (field; lra).
      apply Rdiv_lt_0_compat; lra.
    + intros t Ht. apply Rle_trans with (W (15 * (ln eps / ln (1 / 10)))).
      * now apply W_decr.
      * unfold W, Rpower. right.
        replace (15 * (ln eps / ln (1 / 10)) / 15 * ln (1 / 10)) with (ln eps) by (field; lra).
        now apply exp_ln.
Qed.

(** * Seconds of a duration given in nanoseconds ([secs], model/Estimator.v); R-forms of the
    model functions *)

Lemma dur_secs_R : forall d, dur_secs Rar d = secs d.
Proof.
  intros d. unfold dur_secs, secs, NS_PER_SEC. cbn [add div of_int Rar].
  assert (H := N.div_mod d 1000000000 ltac:(discriminate)).
  apply (f_equal Z.of_N) in H. rewrite N2Z.inj_add, N2Z.inj_mul in H.
  apply (f_equal IZR) in H. rewrite plus_IZR, mult_IZR in H.
  rewrite H. cbn [Z.of_N]. lra.
Qed.

Lemma secs_0 : secs 0 = 0.
Proof. unfold secs. cbn. lra. Qed.

Lemma secs_nonneg : forall d, 0 <= secs d.
Proof.
  intros d. unfold secs. apply Rmult_le_pos; [|lra].
  apply IZR_le. lia.
Qed.

Lemma secs_lt : forall a b, (a < b)%N -> secs a < secs b.
Proof.
  intros a b H. unfold secs. apply Rmult_lt_compat_r; [lra|]. apply IZR_lt. lia.
Qed.

Lemma secs_le : forall a b, (a <= b)%N -> secs a <= secs b.
Proof.
  intros a b H. unfold secs. apply Rmult_le_compat_r; [lra|]. apply IZR_le. lia.
Qed.

Lemma secs_pos : forall d, (0 < d)%N -> 0 < secs d.
Proof. intros d H. rewrite <- secs_0. now apply secs_lt. Qed.

Lemma secs_sub : forall a b, (a <= b)%N -> secs (b - a) = secs b - secs a.
Proof.
  intros a b H. unfold secs. rewrite N2Z.inj_sub by exact H. rewrite minus_IZR. lra.
Qed.

Lemma secs_add : forall a b, secs (a + b) = secs a + secs b.
Proof.
  intros a b. unfold secs. rewrite N2Z.inj_add, plus_IZR. lra.
Qed.

Lemma fone_R : fone Rar = 1.
Proof. reflexivity. Qed.
Lemma fzero_R : fzero Rar = 0.
Proof. reflexivity. Qed.

(** steps_per_second over R: [sps_R] (model/Estimator.v) *)

(** the function before fix 56491a5 is the plain formula; the current one returns 0 when the
    normaliser is zero, i.e. when no time has passed since the (re)start *)
Lemma est_sps_pre_R : forall (e : est R) now,
  est_sps_pre_56491a5 Rar e now =
  sps_R (sm e) (dsm e) (W (secs (now - prev_time e))) (1 - W (secs (now - start_time e))).
Proof.
  intros e now. unfold est_sps_pre_56491a5, since, sps_R.
  rewrite !dur_secs_R, !est_weight_R, fone_R. reflexivity.
Qed.

Lemma is_zero_R_iff : forall x, is_zero Rar x = true <-> x = 0.
Proof.
  intros x. cbn [is_zero Rar]. destruct (Req_EM_T x 0); split; intros H; try reflexivity;
    try assumption; try discriminate H. contradiction.
Qed.

Lemma est_sps_unfold_R : forall (e : est R) now,
  est_sps Rar e now =
  if is_zero Rar (1 - W (secs (now - start_time e))) then 0
  else sps_R (sm e) (dsm e) (W (secs (now - prev_time e))) (1 - W (secs (now - start_time e))).
Proof.
  intros e now. unfold est_sps, since, sps_R.
  rewrite !dur_secs_R, !est_weight_R, fone_R. reflexivity.
Qed.

(** strictly after the (re)start: the formula *)
Lemma est_sps_R : forall (e : est R) now, (start_time e < now)%N ->
  est_sps Rar e now =
  sps_R (sm e) (dsm e) (W (secs (now - prev_time e))) (1 - W (secs (now - start_time e))).
Proof.
  intros e now Hst. rewrite est_sps_unfold_R.
  destruct (is_zero Rar (1 - W (secs (now - start_time e)))) eqn:Z; [|reflexivity].
  apply is_zero_R_iff in Z.
  assert (H : W (secs (now - start_time e)) < 1) by (apply W_lt_1, secs_pos; lia). lra.
Qed.

(** at (or, with a non-monotonic clock, before) the instant of the (re)start: 0 *)
Lemma est_sps_R_restart : forall (e : est R) now, (now <= start_time e)%N -> est_sps Rar e now = 0.
Proof.
  intros e now Hst. rewrite est_sps_unfold_R.
  replace (now - start_time e)%N with 0%N by lia. rewrite secs_0, W_0.
  replace (1 - 1) with 0 by ring.
  destruct (is_zero Rar 0) eqn:Z; [reflexivity|].
  assert (H : is_zero Rar 0 = true) by (apply is_zero_R_iff; reflexivity). congruence.
Qed.

Lemma est_sps_old_new : forall (e : est R) now, (start_time e < now)%N ->
  est_sps Rar e now = est_sps_pre_56491a5 Rar e now.
Proof. intros e now H. rewrite est_sps_R by exact H. symmetry. apply est_sps_pre_R. Qed.

(** [seg_rate e new now] (model/Estimator.v) = the rate of the segment a record would add *)
Definition rec_s (e : est R) (new now : N) : R :=
  let w := W (secs (now - prev_time e)) in sm e * w + seg_rate e new now * (1 - w).
Definition rec_d (e : est R) (new now : N) : R :=
  let w := W (secs (now - prev_time e)) in
  dsm e * w + rec_s e new now / (1 - W (secs (now - start_time e))) * (1 - w).

Lemma est_record_accept : forall new now (e : est R),
  (prev_steps e < new)%N -> (prev_time e < now)%N ->
  est_record Rar new now e =
  (mkEst (rec_s e new now) (rec_d e new now) new now (start_time e) : est R).
Proof.
  intros new now e Hs Ht. unfold est_record. change (T Rar) with R.
  assert (G1 : (new <=? prev_steps e)%N = false) by (apply N.leb_gt; exact Hs).
  assert (G2 : (now <=? prev_time e)%N = false) by (apply N.leb_gt; exact Ht).
  rewrite G1, G2. cbn [orb]. unfold rec_s, rec_d, seg_rate, since.
  rewrite !dur_secs_R, !est_weight_R, fone_R. reflexivity.
Qed.

Lemma est_record_rewind : forall new now (e : est R),
  (new < prev_steps e)%N -> est_record Rar new now e = (mkEst 0 0 new now now : est R).
Proof.
  intros new now e Hs. unfold est_record. change (T Rar) with R.
  assert (G1 : (new <=? prev_steps e)%N = true) by (apply N.leb_le; lia).
  assert (G2 : (new <? prev_steps e)%N = true) by (apply N.ltb_lt; exact Hs).
  rewrite G1, G2. cbn [orb]. reflexivity.
Qed.

Lemma est_record_ignore : forall new now (e : est R),
  (prev_steps e <= new)%N -> (new = prev_steps e \/ (now <= prev_time e)%N) ->
  est_record Rar new now e = e.
Proof.
  intros new now e Hs Hc. unfold est_record. change (T Rar) with R.
  assert (G2 : (new <? prev_steps e)%N = false) by (apply N.ltb_ge; exact Hs).
  rewrite G2.
  destruct Hc as [Hc | Hc].
  - assert (G1 : (new <=? prev_steps e)%N = true) by (apply N.leb_le; lia).
    rewrite G1. reflexivity.
  - assert (G1 : (now <=? prev_time e)%N = true) by (apply N.leb_le; exact Hc).
    rewrite G1, orb_true_r. reflexivity.
Qed.

(** the three cases are exhaustive *)
Lemma est_record_cases : forall new now (e : est R),
  ((prev_steps e < new)%N /\ (prev_time e < now)%N /\
     est_record Rar new now e =
       (mkEst (rec_s e new now) (rec_d e new now) new now (start_time e) : est R))
  \/ ((new < prev_steps e)%N /\ est_record Rar new now e = (mkEst 0 0 new now now : est R))
  \/ ((prev_steps e <= new)%N /\ est_record Rar new now e = e).
Proof.
  intros new now e.
  destruct (N.lt_ge_cases new (prev_steps e)) as [H | H].
  - right; left. split; [exact H|]. now apply est_record_rewind.
  - destruct (N.eq_dec new (prev_steps e)) as [He | He].
    + right; right. split; [exact H|]. apply est_record_ignore; auto.
    + destruct (N.lt_ge_cases (prev_time e) now) as [Ht | Ht].
      * left. split; [lia|]. split; [exact Ht|]. apply est_record_accept; [lia | exact Ht].
      * right; right. split; [exact H|]. apply est_record_ignore; auto.
Qed.

Lemma bar_reset_est_R : forall now pos (e : est R),
  bar_reset_est Rar now pos e = (mkEst 0 0 pos now now : est R).
Proof. reflexivity. Qed.

(** * Pure algebra of one accepted record and of a query
    A = W(prev - start), w = W(now - prev), so W(now - start) = A*w. *)
Lemma div_le_of_le_mul : forall a b c, 0 < b -> a <= c * b -> a / b <= c.
Proof.
  intros a b c Hb H. unfold Rdiv. apply Rmult_le_reg_r with b; [exact Hb|].
  rewrite Rmult_assoc, Rinv_l by lra. lra.
Qed.

Lemma div_ge_of_ge_mul : forall a b c, 0 < b -> c * b <= a -> c <= a / b.
Proof.
  intros a b c Hb H. unfold Rdiv. apply Rmult_le_reg_r with b; [exact Hb|].
  rewrite Rmult_assoc, Rinv_l by lra. lra.
Qed.

Lemma div_nonneg : forall a b, 0 <= a -> 0 < b -> 0 <= a / b.
Proof.
  intros a b Ha Hb. unfold Rdiv. apply Rmult_le_pos; [exact Ha|]. left. now apply Rinv_0_lt_compat.
Qed.

Lemma alg_rec_nonneg : forall s d A w rate,
  0 <= w <= 1 -> 0 < A <= 1 -> A * w < 1 -> 0 <= s -> 0 <= d -> 0 <= rate ->
  0 <= s * w + rate * (1 - w) /\
  0 <= d * w + (s * w + rate * (1 - w)) / (1 - A * w) * (1 - w).
Proof.
  intros s d A w rate Hw HA HAw Hs Hd Hr.
  assert (H1 : 0 <= s * w) by (apply Rmult_le_pos; lra).
  assert (H2 : 0 <= rate * (1 - w)) by (apply Rmult_le_pos; lra).
  assert (H3 : 0 <= d * w) by (apply Rmult_le_pos; lra).
  split; [lra|].
  assert (H4 : 0 <= (s * w + rate * (1 - w)) / (1 - A * w)) by (apply div_nonneg; lra).
  assert (H5 : 0 <= (s * w + rate * (1 - w)) / (1 - A * w) * (1 - w)) by (apply Rmult_le_pos; lra).
  lra.
Qed.

Lemma alg_rec_bound : forall s d M A w rate,
  0 <= w <= 1 -> 0 < A <= 1 -> A * w < 1 ->
  s <= M * (1 - A) -> d <= M * (1 - A) -> rate <= M ->
  s * w + rate * (1 - w) <= M * (1 - A * w) /\
  d * w + (s * w + rate * (1 - w)) / (1 - A * w) * (1 - w) <= M * (1 - A * w).
Proof.
  intros s d M A w rate Hw HA HAw Hs Hd Hr.
  assert (H1 : s * w <= M * (1 - A) * w) by (apply Rmult_le_compat_r; lra).
  assert (H2 : rate * (1 - w) <= M * (1 - w)) by (apply Rmult_le_compat_r; lra).
  assert (H3 : d * w <= M * (1 - A) * w) by (apply Rmult_le_compat_r; lra).
  assert (Hs' : s * w + rate * (1 - w) <= M * (1 - A * w)) by lra.
  split; [exact Hs'|].
  assert (H4 : (s * w + rate * (1 - w)) / (1 - A * w) <= M) by (apply div_le_of_le_mul; lra).
  assert (H5 : (s * w + rate * (1 - w)) / (1 - A * w) * (1 - w) <= M * (1 - w))
    by (apply Rmult_le_compat_r; lra).
  lra.
Qed.

Lemma alg_rec_steady : forall s d r A w,
  A * w < 1 -> s = r * (1 - A) -> d = r * (1 - A) ->
  s * w + r * (1 - w) = r * (1 - A * w) /\
  d * w + (s * w + r * (1 - w)) / (1 - A * w) * (1 - w) = r * (1 - A * w).
Proof.
  intros s d r A w HAw Hs Hd. subst s d.
  assert (E : r * (1 - A) * w + r * (1 - w) = r * (1 - A * w)) by ring.
  split; [exact E|]. rewrite E. field. lra.
Qed.

(** closed form of a query: with v = w / n, n = 1 - A*w, Np = 1 - A:
      sps = (d + s) * v - Np * s * v^2 *)
Lemma alg_sps_closed : forall s d A w,
  A * w < 1 ->
  sps_R s d w (1 - A * w) =
  (d + s) * (w / (1 - A * w)) - (1 - A) * s * (w / (1 - A * w)) * (w / (1 - A * w)).
Proof.
  intros s d A w H. unfold sps_R. field. lra.
Qed.

Lemma alg_sps_nonneg : forall s d A w,
  0 <= w <= 1 -> 0 < A <= 1 -> A * w < 1 -> 0 <= s -> 0 <= d ->
  0 <= sps_R s d w (1 - A * w).
Proof.
  intros s d A w Hw HA HAw Hs Hd. unfold sps_R.
  assert (H1 : 0 <= d * w) by (apply Rmult_le_pos; lra).
  assert (H2 : 0 <= s * w) by (apply Rmult_le_pos; lra).
  assert (H3 : 0 <= s * w / (1 - A * w)) by (apply div_nonneg; lra).
  assert (H4 : 0 <= s * w / (1 - A * w) * (1 - w)) by (apply Rmult_le_pos; lra).
  apply div_nonneg; lra.
Qed.

Lemma alg_sps_bound : forall s d M A w,
  0 <= w <= 1 -> 0 < A <= 1 -> A * w < 1 -> 0 <= M ->
  s <= M * (1 - A) -> d <= M * (1 - A) ->
  sps_R s d w (1 - A * w) <= M.
Proof.
  intros s d M A w Hw HA HAw HM Hs Hd. unfold sps_R.
  assert (H1 : s * w <= M * (1 - A) * w) by (apply Rmult_le_compat_r; lra).
  assert (H3 : d * w <= M * (1 - A) * w) by (apply Rmult_le_compat_r; lra).
  assert (H0 : 0 <= M * (1 - w)) by (apply Rmult_le_pos; lra).
  assert (H4 : s * w / (1 - A * w) <= M) by (apply div_le_of_le_mul; lra).
  assert (H5 : s * w / (1 - A * w) * (1 - w) <= M * (1 - w)) by (apply Rmult_le_compat_r; lra).
  apply div_le_of_le_mul; lra.
Qed.

(** envelope: the stalled rate is at most 2*M*w (hence tends to 0 with w = W(stall)) *)
Lemma alg_sps_envelope : forall s d M A w,
  0 <= w <= 1 -> 0 < A <= 1 -> A * w < 1 -> 0 <= M -> 0 <= s ->
  s <= M * (1 - A) -> d <= M * (1 - A) ->
  sps_R s d w (1 - A * w) <= 2 * M * w.
Proof.
  intros s d M A w Hw HA HAw HM Hs0 Hs Hd.
  rewrite alg_sps_closed by exact HAw.
  set (v := w / (1 - A * w)).
  assert (Hv0 : 0 <= v) by (apply div_nonneg; lra).
  assert (Hv1 : (1 - A) * v <= w).
  { unfold v. unfold Rdiv. rewrite <- Rmult_assoc. apply div_le_of_le_mul; [lra|].
    assert (0 <= A * (w * (1 - w))) by (apply Rmult_le_pos; [lra | apply Rmult_le_pos; lra]). lra. }
  assert (H1 : 0 <= (1 - A) * s * v * v).
  { apply Rmult_le_pos; [|exact Hv0]. apply Rmult_le_pos; [|exact Hv0]. apply Rmult_le_pos; lra. }
  assert (H2 : (d + s) * v <= 2 * M * (1 - A) * v) by (apply Rmult_le_compat_r; lra).
  assert (H3 : 2 * M * ((1 - A) * v) <= 2 * M * w) by (apply Rmult_le_compat_l; lra).
  lra.
Qed.

(** v = w/(1 - A w) is monotone in w, and (1-A) v <= 1 *)
Lemma alg_v_mono : forall A w1 w2,
  0 < A <= 1 -> 0 <= w2 <= w1 -> w1 <= 1 -> A * w1 < 1 ->
  w2 / (1 - A * w2) <= w1 / (1 - A * w1).
Proof.
  intros A w1 w2 HA Hw H1 HAw.
  assert (HAw2 : A * w2 < 1) by nra.
  apply div_le_of_le_mul; [lra|].
  unfold Rdiv. rewrite Rmult_assoc, (Rmult_comm (/ _)), <- Rmult_assoc.
  apply div_ge_of_ge_mul; [lra|]. nra.
Qed.

(** monotone decay while stalled when d >= s *)
Lemma alg_sps_decay : forall s d A w1 w2,
  0 < A <= 1 -> 0 <= w2 <= w1 -> w1 <= 1 -> A * w1 < 1 -> 0 <= s -> s <= d ->
  sps_R s d w2 (1 - A * w2) <= sps_R s d w1 (1 - A * w1).
Proof.
  intros s d A w1 w2 HA Hw H1 HAw Hs Hsd.
  assert (HAw2 : A * w2 < 1) by nra.
  rewrite !alg_sps_closed by assumption.
  set (v1 := w1 / (1 - A * w1)). set (v2 := w2 / (1 - A * w2)).
  assert (Hv : v2 <= v1) by (apply alg_v_mono; assumption).
  assert (Hv20 : 0 <= v2) by (apply div_nonneg; lra).
  assert (Hb1 : (1 - A) * v1 <= 1).
  { unfold v1, Rdiv. rewrite <- Rmult_assoc. apply div_le_of_le_mul; [lra|]. nra. }
  assert (Hb2 : (1 - A) * v2 <= 1).
  { unfold v2, Rdiv. rewrite <- Rmult_assoc. apply div_le_of_le_mul; [lra|]. nra. }
  (* g(v1) - g(v2) = (v1 - v2) * ((d+s) - (1-A) s (v1+v2)) *)
  assert (Hk : 0 <= (v1 - v2) * ((d + s) - s * ((1 - A) * v1 + (1 - A) * v2))).
  { apply Rmult_le_pos; [lra|].
    assert (s * ((1 - A) * v1 + (1 - A) * v2) <= s * 2) by (apply Rmult_le_compat_l; lra). lra. }
  nra.
Qed.

(** * Histories at the level of the estimator
    ([ev], [est_ev], [est_run], [hist_ok], [segs_ok], [wf], [Np]: model/Estimator.v) *)
Lemma W_split : forall (e : est R) now, wf e -> (prev_time e <= now)%N ->
  W (secs (now - start_time e)) =
  W (secs (prev_time e - start_time e)) * W (secs (now - prev_time e)).
Proof.
  intros e now Hwf Hn. unfold wf in Hwf. rewrite <- W_add. f_equal.
  rewrite !secs_sub by lia. lra.
Qed.

Lemma A_range : forall e : est R, 0 < W (secs (prev_time e - start_time e)) <= 1.
Proof.
  intros e. split; [apply W_pos | apply W_le_1, secs_nonneg].
Qed.

Lemma w_range : forall (e : est R) now, 0 <= W (secs (now - prev_time e)) <= 1.
Proof.
  intros e now. split; [left; apply W_pos | apply W_le_1, secs_nonneg].
Qed.

(** the denominators: 1 - W(t) > 0 for every t > 0 *)
Lemma denominator_pos : forall t : N, (0 < t)%N -> 0 < 1 - W (secs t).
Proof.
  intros t Ht. assert (H := W_lt_1 (secs t) (secs_pos t Ht)). lra.
Qed.

Lemma Aw_lt_1 : forall (e : est R) now, wf e -> (prev_time e <= now)%N -> (start_time e < now)%N ->
  W (secs (prev_time e - start_time e)) * W (secs (now - prev_time e)) < 1.
Proof.
  intros e now Hwf Hn Hs. rewrite <- W_split by assumption.
  apply W_lt_1, secs_pos. lia.
Qed.

(** induction principle over histories *)
Lemma est_run_inv : forall (J : est R -> Prop) (P : R -> Prop),
  (forall e new now, wf e -> J e -> (prev_steps e < new)%N -> (prev_time e < now)%N ->
     P (seg_rate e new now) ->
     J (mkEst (rec_s e new now) (rec_d e new now) new now (start_time e))) ->
  (forall now pos, J (mkEst 0 0 pos now now)) ->
  forall evs e, wf e -> J e -> hist_ok evs e -> segs_ok P evs e ->
    J (est_run evs e) /\ wf (est_run evs e).
Proof.
  intros J P Hacc Hrst evs. induction evs as [|x r IH]; intros e Hwf HJ Hh Hs.
  - split; assumption.
  - cbn [est_run]. cbn [hist_ok] in Hh. cbn [segs_ok] in Hs.
    destruct Hh as [Ht Hh]. destruct Hs as [Hp Hs].
    apply IH; try assumption.
    + destruct x as [new now | now pos]; cbn [est_ev].
      * destruct (est_record_cases new now e) as [(H1 & H2 & E) | [(H1 & E) | (H1 & E)]];
          rewrite E; unfold wf in *; cbn [start_time prev_time]; change (T Rar) with R in *; lia.
      * rewrite bar_reset_est_R. unfold wf. cbn. lia.
    + destruct x as [new now | now pos]; cbn [est_ev].
      * destruct (est_record_cases new now e) as [(H1 & H2 & E) | [(H1 & E) | (H1 & E)]];
          rewrite E.
        -- apply Hacc; auto.
        -- apply Hrst.
        -- exact HJ.
      * rewrite bar_reset_est_R. apply Hrst.
Qed.

(** ** Invariants *)
Definition J_bound (M : R) (e : est R) : Prop := sm e <= M * Np e /\ dsm e <= M * Np e.

Lemma Np_restart : forall pos now, Np (mkEst 0 0 pos now now) = 0.
Proof.
  intros pos now. unfold Np. cbn [prev_time start_time]. rewrite N.sub_diag, secs_0, W_0. lra.
Qed.

Lemma seg_rate_nonneg : forall e new now, (prev_time e < now)%N -> 0 <= seg_rate e new now.
Proof.
  intros e new now H. unfold seg_rate. apply div_nonneg.
  - apply IZR_le. lia.
  - apply secs_pos. lia.
Qed.

Lemma Np_accept : forall e new now s d, wf e -> (prev_time e < now)%N ->
  Np (mkEst s d new now (start_time e)) =
  1 - W (secs (prev_time e - start_time e)) * W (secs (now - prev_time e)).
Proof.
  intros e new now s d Hwf Ht. unfold Np. cbn [prev_time start_time].
  rewrite (W_split e now) by (try assumption; lia). reflexivity.
Qed.

Lemma inv_nonneg : forall evs e, wf e -> J_nonneg e -> hist_ok evs e ->
  J_nonneg (est_run evs e) /\ wf (est_run evs e).
Proof.
  intros evs e Hwf HJ Hh.
  apply (est_run_inv J_nonneg (fun _ => True)); auto.
  - intros e0 new now Hwf0 [Hs Hd] Hn Ht _. unfold J_nonneg. cbn [sm dsm].
    unfold rec_d, rec_s.
    rewrite (W_split e0 now) by (try assumption; lia).
    apply alg_rec_nonneg; auto using A_range, w_range, seg_rate_nonneg.
    apply Aw_lt_1; unfold wf in *; try assumption; lia.
  - intros now pos. unfold J_nonneg. cbn. lra.
  - clear. revert e. induction evs as [|x r IH]; intros e0; cbn [segs_ok]; auto.
    split; [destruct x; auto | apply IH].
Qed.

Lemma inv_bound : forall M evs e, wf e -> J_bound M e -> hist_ok evs e ->
  segs_ok (fun r => r <= M) evs e ->
  J_bound M (est_run evs e) /\ wf (est_run evs e).
Proof.
  intros M evs e Hwf HJ Hh Hs.
  apply (est_run_inv (J_bound M) (fun r => r <= M)); auto.
  - intros e0 new now Hwf0 [Hs0 Hd0] Hn Ht Hr. unfold J_bound. cbn [sm dsm].
    rewrite Np_accept by assumption. unfold rec_d, rec_s.
    rewrite (W_split e0 now) by (try assumption; lia).
    apply alg_rec_bound; auto using A_range, w_range.
    apply Aw_lt_1; unfold wf in *; try assumption; lia.
  - intros now pos. unfold J_bound. rewrite Np_restart. cbn. lra.
Qed.

Lemma inv_steady : forall r evs e, wf e -> J_steady r e -> hist_ok evs e ->
  segs_ok (fun x => x = r) evs e ->
  J_steady r (est_run evs e) /\ wf (est_run evs e).
Proof.
  intros r evs e Hwf HJ Hh Hs.
  apply (est_run_inv (J_steady r) (fun x => x = r)); auto.
  - intros e0 new now Hwf0 [Hs0 Hd0] Hn Ht Hr. unfold J_steady. cbn [sm dsm].
    rewrite Np_accept by assumption. unfold rec_d, rec_s. rewrite Hr.
    rewrite (W_split e0 now) by (try assumption; lia).
    apply alg_rec_steady; auto.
    apply Aw_lt_1; unfold wf in *; try assumption; lia.
  - intros now pos. unfold J_steady. rewrite Np_restart. cbn. lra.
Qed.

(** ** Queries *)
Lemma est_sps_split : forall e now, wf e -> (prev_time e <= now)%N -> (start_time e < now)%N ->
  est_sps Rar e now =
  sps_R (sm e) (dsm e) (W (secs (now - prev_time e)))
        (1 - W (secs (prev_time e - start_time e)) * W (secs (now - prev_time e))).
Proof.
  intros e now Hwf Hn Hst. rewrite est_sps_R, (W_split e now) by assumption. reflexivity.
Qed.

Lemma sps_nonneg : forall e now, wf e -> J_nonneg e ->
  (prev_time e <= now)%N -> (start_time e < now)%N -> 0 <= est_sps Rar e now.
Proof.
  intros e now Hwf [Hs Hd] Hn Hst. rewrite est_sps_split by assumption.
  apply alg_sps_nonneg; auto using A_range, w_range. now apply Aw_lt_1.
Qed.

Lemma sps_bound : forall M e now, wf e -> J_bound M e -> 0 <= M ->
  (prev_time e <= now)%N -> (start_time e < now)%N -> est_sps Rar e now <= M.
Proof.
  intros M e now Hwf [Hs Hd] HM Hn Hst. rewrite est_sps_split by assumption.
  apply alg_sps_bound; auto using A_range, w_range. now apply Aw_lt_1.
Qed.

Lemma sps_envelope : forall M e now, wf e -> J_bound M e -> J_nonneg e -> 0 <= M ->
  (prev_time e <= now)%N -> (start_time e < now)%N ->
  est_sps Rar e now <= 2 * M * W (secs (now - prev_time e)).
Proof.
  intros M e now Hwf [Hs Hd] [Hs0 _] HM Hn Hst. rewrite est_sps_split by assumption.
  apply alg_sps_envelope; auto using A_range, w_range. now apply Aw_lt_1.
Qed.

Lemma sps_steady : forall r e, wf e -> J_steady r e -> (start_time e < prev_time e)%N ->
  est_sps Rar e (prev_time e) = r.
Proof.
  intros r e Hwf [Hs Hd] Hst. rewrite est_sps_R by exact Hst. rewrite N.sub_diag, secs_0, W_0.
  unfold sps_R. rewrite Hs, Hd. unfold Np.
  assert (H := denominator_pos (prev_time e - start_time e) ltac:(lia)).
  change (T Rar) with R. field. lra.
Qed.

Lemma sps_decay : forall e now1 now2, wf e -> 0 <= sm e -> sm e <= dsm e ->
  (prev_time e <= now1)%N -> (now1 <= now2)%N -> (start_time e < now1)%N ->
  est_sps Rar e now2 <= est_sps Rar e now1.
Proof.
  intros e now1 now2 Hwf Hs Hsd H1 H12 Hst.
  rewrite (est_sps_split e now1), (est_sps_split e now2) by (try assumption; lia).
  apply alg_sps_decay; auto using A_range.
  - split; [left; apply W_pos|]. apply W_decr, secs_le. lia.
  - apply W_le_1, secs_nonneg.
  - now apply Aw_lt_1.
Qed.

(** * Theorems at the level of the estimator *)

Lemma wf_new : forall now, wf (est_new Rar now).
Proof. intros now. unfold wf. cbn. lia. Qed.

Lemma restart_state_invariants : forall pos now M r,
  let e : est R := mkEst 0 0 pos now now in
  wf e /\ J_nonneg e /\ J_bound M e /\ J_steady r e.
Proof.
  intros pos now M r e. unfold wf, J_nonneg, J_bound, J_steady, e.
  rewrite Np_restart. cbn [sm dsm prev_time start_time]. repeat split; try lra. lia.
Qed.

Lemma est_new_is_restart : forall now, est_new Rar now = (mkEst 0 0 0%N now now : est R).
Proof. reflexivity. Qed.

(** FINITE / NON-NEGATIVE: at EVERY query instant not before the last call (the instant of the
    restart included, where the code returns 0 since fix 56491a5); the only division executed is
    by the normaliser, which is positive whenever it is not zero, i.e. strictly after the restart *)
Theorem finite_nonneg : forall evs t0 now,
  let e := est_run evs (est_new Rar t0) in
  hist_ok evs (est_new Rar t0) ->
  (prev_time e <= now)%N ->
  0 <= est_sps Rar e now /\
  ((start_time e < now)%N -> 0 < 1 - W (secs (now - start_time e))) /\
  ((now <= start_time e)%N -> est_sps Rar e now = 0).
Proof.
  intros evs t0 now e Hh Hn.
  destruct (restart_state_invariants 0%N t0 0 0) as (Hwf & Hnn & _).
  destruct (inv_nonneg evs (est_new Rar t0) Hwf Hnn Hh) as [HJ Hwf'].
  split; [|split].
  - destruct (N.lt_ge_cases (start_time e) now) as [Hs | Hs].
    + now apply sps_nonneg.
    + rewrite est_sps_R_restart by exact Hs. lra.
  - intros Hs. apply denominator_pos. lia.
  - apply est_sps_R_restart.
Qed.

(** STEADY-RATE EXACTNESS *)
Theorem steady_exact : forall r evs t0,
  let e := est_run evs (est_new Rar t0) in
  hist_ok evs (est_new Rar t0) ->
  segs_ok (fun x => x = r) evs (est_new Rar t0) ->
  (start_time e < prev_time e)%N ->
  est_sps Rar e (prev_time e) = r.
Proof.
  intros r evs t0 e Hh Hs Hst.
  destruct (restart_state_invariants 0%N t0 0 r) as (Hwf & _ & _ & Hst0).
  destruct (inv_steady r evs (est_new Rar t0) Hwf Hst0 Hh Hs) as [HJ Hwf'].
  now apply sps_steady.
Qed.

(** BOUNDS *)
Theorem bounded : forall M evs t0 now,
  let e := est_run evs (est_new Rar t0) in
  0 <= M ->
  hist_ok evs (est_new Rar t0) ->
  segs_ok (fun x => x <= M) evs (est_new Rar t0) ->
  (prev_time e <= now)%N -> (start_time e < now)%N ->
  0 <= est_sps Rar e now <= M /\
  est_sps Rar e now <= 2 * M * W (secs (now - prev_time e)).
Proof.
  intros M evs t0 now e HM Hh Hs Hn Hst.
  destruct (restart_state_invariants 0%N t0 M 0) as (Hwf & Hnn & Hb & _).
  destruct (inv_bound M evs (est_new Rar t0) Hwf Hb Hh Hs) as [HJ Hwf'].
  destruct (inv_nonneg evs (est_new Rar t0) Hwf Hnn Hh) as [HJ0 _].
  repeat split.
  - now apply sps_nonneg.
  - now apply sps_bound.
  - now apply sps_envelope.
Qed.

(** decay to zero: an explicit instant after which the stalled rate stays below eps *)
Theorem decay_limit : forall M evs t0 eps,
  let e := est_run evs (est_new Rar t0) in
  0 <= M -> 0 < eps ->
  hist_ok evs (est_new Rar t0) ->
  segs_ok (fun x => x <= M) evs (est_new Rar t0) ->
  exists X, forall now, (prev_time e <= now)%N -> (start_time e < now)%N ->
    X <= secs (now - prev_time e) -> est_sps Rar e now <= eps.
Proof.
  intros M evs t0 eps e HM He Hh Hs.
  destruct (W_small (eps / (2 * M + 1))) as (X & HX0 & HX).
  { apply Rdiv_lt_0_compat; lra. }
  exists X. intros now Hn Hst Hx.
  destruct (bounded M evs t0 now HM Hh Hs Hn Hst) as [_ Henv]. fold e in Henv.
  specialize (HX _ Hx).
  assert (Hw := W_pos (secs (now - prev_time e))).
  apply Rle_trans with (2 * M * W (secs (now - prev_time e))); [exact Henv|].
  apply Rle_trans with ((2 * M + 1) * (eps / (2 * M + 1))).
  - apply Rle_trans with ((2 * M + 1) * W (secs (now - prev_time e))).
    + apply Rmult_le_compat_r; lra.
    + apply Rmult_le_compat_l; lra.
  - right. field. lra.
Qed.

(** MONOTONE DECAY WHILE STALLED – conditional form *)
Theorem decay_when_d_ge_s : forall evs t0 now1 now2,
  let e := est_run evs (est_new Rar t0) in
  hist_ok evs (est_new Rar t0) ->
  sm e <= dsm e ->
  (prev_time e <= now1)%N -> (now1 <= now2)%N -> (start_time e < now1)%N ->
  est_sps Rar e now2 <= est_sps Rar e now1.
Proof.
  intros evs t0 now1 now2 e Hh Hsd H1 H12 Hst.
  destruct (restart_state_invariants 0%N t0 0 0) as (Hwf & Hnn & _).
  destruct (inv_nonneg evs (est_new Rar t0) Hwf Hnn Hh) as [[Hs0 _] Hwf'].
  now apply sps_decay.
Qed.

(** steady and decelerating progress satisfy the condition; an acceleration violates it *)
Lemma accept_d_vs_s : forall (e : est R) new now, wf e -> (prev_time e < now)%N ->
  let w := W (secs (now - prev_time e)) in
  let n := 1 - W (secs (now - start_time e)) in
  rec_s e new now - rec_d e new now =
  (sm e - dsm e) * w + (1 - w) * (seg_rate e new now - rec_s e new now / n).
Proof.
  intros e new now Hwf Ht w n. unfold rec_d. fold w. fold n. unfold rec_s at 1. fold w. ring.
Qed.

Lemma accel_breaks_condition : forall r1 (e : est R) new now,
  wf e -> J_steady r1 e -> (start_time e < prev_time e)%N ->
  (prev_steps e < new)%N -> (prev_time e < now)%N ->
  r1 < seg_rate e new now ->
  dsm (est_record Rar new now e) < sm (est_record Rar new now e).
Proof.
  intros r1 e new now Hwf [Hs Hd] Hst Hn Ht Hr.
  rewrite est_record_accept by assumption. cbn [sm dsm].
  assert (E := accept_d_vs_s e new now Hwf Ht). cbv zeta in E.
  assert (HA := A_range e). assert (Hw := W_pos (secs (now - prev_time e))).
  assert (Hw1 : W (secs (now - prev_time e)) < 1) by (apply W_lt_1, secs_pos; lia).
  assert (HAw : W (secs (prev_time e - start_time e)) * W (secs (now - prev_time e)) < 1)
    by (apply Aw_lt_1; unfold wf in *; try assumption; lia).
  assert (HA1 : W (secs (prev_time e - start_time e)) < 1) by (apply W_lt_1, secs_pos; lia).
  rewrite (W_split e now) in E by (try assumption; lia).
  rewrite Hs, Hd in E.
  set (A := W (secs (prev_time e - start_time e))) in *.
  set (w := W (secs (now - prev_time e))) in *.
  set (rate := seg_rate e new now) in *.
  assert (Hlt : rec_s e new now / (1 - A * w) < rate).
  { unfold rec_s. fold w. fold rate. rewrite Hs. unfold Np. fold A.
    apply Rmult_lt_reg_r with (1 - A * w); [lra|].
    unfold Rdiv. rewrite Rmult_assoc, Rinv_l by lra.
    assert (0 < (rate - r1) * ((1 - A) * w)).
    { apply Rmult_lt_0_compat; [lra|]. apply Rmult_lt_0_compat; lra. }
    lra. }
  assert (0 < (1 - w) * (rate - rec_s e new now / (1 - A * w))) by (apply Rmult_lt_0_compat; lra).
  lra.
Qed.

(** * Refutation of "decays monotonically while progress stalls" (D11)
    Witness: estimator created at t = 0; 15 steps by t = 15 s (1/s); 1500 more by t = 30 s
    (100/s); then no progress.  Reported rate at t = 30 s: 81.99/0.99 = 82.82; at t = 30.5 s it
    is strictly larger. *)
Lemma W_pow : forall t n, W t ^ n = W (INR n * t).
Proof.
  intros t n. induction n as [|n IH].
  - cbn [pow INR]. rewrite Rmult_0_l, W_0. reflexivity.
  - rewrite S_INR. cbn [pow]. rewrite IH, <- W_add. f_equal. lra.
Qed.

Lemma W_half_gt : 92 / 100 < W (1 / 2).
Proof.
  destruct (Rlt_le_dec (92 / 100) (W (1 / 2))) as [H | H]; [exact H|exfalso].
  assert (Hp : W (1 / 2) ^ 30 <= (92 / 100) ^ 30).
  { apply pow_incr. split; [left; apply W_pos | exact H]. }
  rewrite W_pow in Hp.
  replace (INR 30 * (1 / 2)) with 15 in Hp by (cbn [INR]; lra).
  rewrite W_15 in Hp. cbn [pow] in Hp. lra.
Qed.

Lemma secs_15 : secs 15000000000 = 15.
Proof. unfold secs. cbn [Z.of_N]. lra. Qed.
Lemma secs_30 : secs 30000000000 = 30.
Proof. unfold secs. cbn [Z.of_N]. lra. Qed.
Lemma secs_half : secs 500000000 = 1 / 2.
Proof. unfold secs. cbn [Z.of_N]. lra. Qed.
Lemma secs_30_half : secs 30500000000 = 30 + 1 / 2.
Proof. unfold secs. cbn [Z.of_N]. lra. Qed.
Lemma W_30 : W 30 = 1 / 100.
Proof. replace 30 with (15 + 15) by lra. rewrite W_add, W_15. lra. Qed.

Definition wit_evs : list ev := [ERec 15 15000000000; ERec 1515 30000000000].

Lemma wit_state :
  est_run wit_evs (est_new Rar 0) =
  (mkEst (9009 / 100) (8199 / 100) 1515%N 30000000000%N 0%N : est R).
Proof.
  unfold wit_evs. cbn [est_run est_ev].
  assert (E1 : est_record Rar 15 15000000000 (est_new Rar 0) =
               (mkEst (9 / 10) (9 / 10) 15%N 15000000000%N 0%N : est R)).
  { rewrite est_record_accept by (cbn; lia).
    unfold rec_d, rec_s, seg_rate. cbn [sm dsm prev_steps prev_time start_time est_new].
    change (15000000000 - 0)%N with 15000000000%N. change (15 - 0)%N with 15%N.
    rewrite secs_15, W_15, fzero_R. cbn [Z.of_N]. f_equal; field. }
  rewrite E1.
  rewrite est_record_accept by (cbn; lia).
  unfold rec_d, rec_s, seg_rate. cbn [sm dsm prev_steps prev_time start_time].
  change (30000000000 - 15000000000)%N with 15000000000%N.
  change (30000000000 - 0)%N with 30000000000%N. change (1515 - 15)%N with 1500%N.
  rewrite secs_15, secs_30, W_15, W_30. cbn [Z.of_N]. f_equal; field.
Qed.

Lemma wit_hist_ok : hist_ok wit_evs (est_new Rar 0).
Proof.
  unfold wit_evs. cbn [hist_ok ev_time est_ev]. split; [cbn; lia|].
  rewrite est_record_accept by (cbn; lia). cbn [prev_time].
  split; [lia | exact I].
Qed.

Definition wit_e : est R := mkEst (9009 / 100) (8199 / 100) 1515%N 30000000000%N 0%N.

(** the reported rate half a second into the stall is larger than at the last sample *)
Lemma wit_rise : est_sps Rar wit_e 30000000000 < est_sps Rar wit_e 30500000000.
Proof.
  unfold wit_e.
  rewrite !est_sps_R by (cbn [start_time]; lia). cbn [sm dsm prev_time start_time].
  change (30000000000 - 30000000000)%N with 0%N.
  change (30000000000 - 0)%N with 30000000000%N.
  change (30500000000 - 30000000000)%N with 500000000%N.
  change (30500000000 - 0)%N with 30500000000%N.
  rewrite secs_0, secs_30, secs_half, secs_30_half, W_0, W_add, W_30.
  assert (Hq := W_half_gt). assert (Hq1 : W (1 / 2) < 1) by (apply W_lt_1; lra).
  set (q := W (1 / 2)) in *. unfold sps_R.
  replace ((8199 / 100 * 1 + 9009 / 100 * 1 / (1 - 1 / 100) * (1 - 1)) / (1 - 1 / 100))
    with (8199 / 99) by field.
  assert (Hn : 0 < 1 - 1 / 100 * q) by lra.
  replace ((8199 / 100 * q + 9009 / 100 * q / (1 - 1 / 100 * q) * (1 - q)) / (1 - 1 / 100 * q))
    with (q * (8199 / 100 * (1 - 1 / 100 * q) + 9009 / 100 * (1 - q))
          / ((1 - 1 / 100 * q) * (1 - 1 / 100 * q))) by (field; lra).
  set (X := q * (8199 / 100 * (1 - 1 / 100 * q) + 9009 / 100 * (1 - q))).
  set (D := (1 - 1 / 100 * q) * (1 - 1 / 100 * q)).
  assert (HD : 0 < D) by (apply Rmult_lt_0_compat; lra).
  apply Rmult_lt_reg_r with D; [exact HD|].
  replace (X / D * D) with X by (field; lra).
  unfold X, D. nra.
Qed.

Theorem stall_decay_refuted :
  exists evs t0 now1 now2,
    let e := est_run evs (est_new Rar t0) in
    hist_ok evs (est_new Rar t0) /\
    (prev_time e <= now1)%N /\ (now1 < now2)%N /\ (start_time e < now1)%N /\
    est_sps Rar e now1 < est_sps Rar e now2.
Proof.
  exists wit_evs, 0%N, 30000000000%N, 30500000000%N. cbv zeta.
  rewrite wit_state. cbn [prev_time start_time].
  split; [exact wit_hist_ok|]. split; [lia|]. split; [lia|]. split; [lia|].
  exact wit_rise.
Qed.

(** * STEADY PROGRESS AT EVERY QUERY INSTANT: the stall discount
    With s = d = r (1 - A) (the steady state) the query formula collapses to
      r * (1 - ((1 - w) / (1 - A w))^2),   A = W(last sample - restart), w = W(now - last sample). *)
Lemma alg_sps_steady : forall r A w,
  A * w < 1 ->
  sps_R (r * (1 - A)) (r * (1 - A)) w (1 - A * w) = r * steady_discount A w.
Proof.
  intros r A w H. unfold sps_R, steady_discount. field. lra.
Qed.

Lemma steady_discount_range : forall A w,
  0 < A <= 1 -> 0 <= w <= 1 -> A * w < 1 -> 0 <= steady_discount A w <= 1.
Proof.
  intros A w HA Hw HAw. unfold steady_discount.
  set (q := (1 - w) / (1 - A * w)).
  assert (Hq0 : 0 <= q) by (apply div_nonneg; lra).
  assert (Hq1 : q <= 1).
  { apply div_le_of_le_mul; [lra|]. assert (A * w <= w) by nra. lra. }
  split; nra.
Qed.

Lemma steady_discount_one_iff : forall A w,
  0 < A <= 1 -> 0 <= w <= 1 -> A * w < 1 -> (steady_discount A w = 1 <-> w = 1).
Proof.
  intros A w HA Hw HAw. unfold steady_discount. split.
  - intros H.
    assert (Hq : (1 - w) / (1 - A * w) = 0) by nra.
    assert (Hn : 0 < 1 - A * w) by lra.
    unfold Rdiv in Hq. apply Rmult_integral in Hq. destruct Hq as [Hq | Hq]; [lra|].
    assert (0 < / (1 - A * w)) by now apply Rinv_0_lt_compat. lra.
  - intros ->. replace (1 - 1) with 0 by ring. unfold Rdiv. rewrite Rmult_0_l. ring.
Qed.

Lemma sps_steady_at : forall r e now, wf e -> J_steady r e ->
  (prev_time e <= now)%N -> (start_time e < now)%N ->
  est_sps Rar e now =
  r * steady_discount (W (secs (prev_time e - start_time e))) (W (secs (now - prev_time e))).
Proof.
  intros r e now Hwf [Hs Hd] Hn Hst. rewrite est_sps_split by assumption.
  rewrite Hs, Hd. unfold Np. apply alg_sps_steady. now apply Aw_lt_1.
Qed.

(** if every accepted segment has rate r, then at EVERY query instant not before the last call
    and strictly after the last restart the reported rate is r times the explicit discount *)
Theorem steady_every_instant : forall r evs t0 now,
  let e := est_run evs (est_new Rar t0) in
  hist_ok evs (est_new Rar t0) ->
  segs_ok (fun x => x = r) evs (est_new Rar t0) ->
  (prev_time e <= now)%N -> (start_time e < now)%N ->
  let A := W (secs (prev_time e - start_time e)) in
  let w := W (secs (now - prev_time e)) in
  est_sps Rar e now = r * steady_discount A w /\
  0 <= steady_discount A w <= 1 /\
  (steady_discount A w = 1 <-> now = prev_time e).
Proof.
  intros r evs t0 now e Hh Hs Hn Hst A w.
  destruct (restart_state_invariants 0%N t0 0 r) as (Hwf & _ & _ & Hst0).
  destruct (inv_steady r evs (est_new Rar t0) Hwf Hst0 Hh Hs) as [HJ Hwf'].
  assert (HAw : A * w < 1) by (now apply Aw_lt_1).
  split; [now apply sps_steady_at|]. split.
  - apply steady_discount_range; [apply A_range | apply w_range | exact HAw].
  - rewrite (steady_discount_one_iff A w (A_range e) (w_range e now) HAw). unfold w. split.
    + intros H1. destruct (N.eq_dec now (prev_time e)) as [E | E]; [exact E | exfalso].
      assert (Hlt : W (secs (now - prev_time e)) < 1) by (apply W_lt_1, secs_pos; fold e; lia).
      lra.
    + intros ->. rewrite N.sub_diag, secs_0. apply W_0.
Qed.

(** the literal reading "reported rate = true rate at every query instant after the last update"
    is REFUTED: one sample (15 steps at 15 s, rate 1), query 15 s later: 21/121 *)
Lemma W_15_ns : W (secs 15000000000) = 1 / 10.
Proof. rewrite secs_15. apply W_15. Qed.

Theorem steady_between_samples_refuted :
  exists r evs t0 now,
    let e := est_run evs (est_new Rar t0) in
    hist_ok evs (est_new Rar t0) /\ segs_ok (fun x => x = r) evs (est_new Rar t0) /\
    (prev_time e <= now)%N /\ (start_time e < now)%N /\ est_sps Rar e now < r.
Proof.
  exists 1, [ERec 15 15000000000], 0%N, 30000000000%N. cbv zeta.
  assert (Hh : hist_ok [ERec 15 15000000000] (est_new Rar 0)).
  { cbn [hist_ok ev_time]. split; [cbn; lia | exact I]. }
  assert (Hs : segs_ok (fun x => x = 1) [ERec 15 15000000000] (est_new Rar 0)).
  { cbn [segs_ok]. split; [|exact I]. intros _ _. unfold seg_rate.
    cbn [prev_steps prev_time est_new].
    change (15000000000 - 0)%N with 15000000000%N. change (15 - 0)%N with 15%N.
    rewrite secs_15. cbn [Z.of_N]. lra. }
  assert (E : est_run [ERec 15 15000000000] (est_new Rar 0) =
              (mkEst (9 / 10) (9 / 10) 15%N 15000000000%N 0%N : est R)).
  { cbn [est_run est_ev]. rewrite est_record_accept by (cbn; lia).
    unfold rec_d, rec_s, seg_rate. cbn [sm dsm prev_steps prev_time start_time est_new].
    change (15000000000 - 0)%N with 15000000000%N. change (15 - 0)%N with 15%N.
    rewrite secs_15, W_15, fzero_R. cbn [Z.of_N]. f_equal; field. }
  split; [exact Hh|]. split; [exact Hs|].
  destruct (steady_every_instant 1 _ 0%N 30000000000%N Hh Hs) as (Hv & _).
  - rewrite E. cbn [prev_time]. lia.
  - rewrite E. cbn [start_time]. lia.
  - rewrite E in *. cbn [prev_time start_time] in *.
    split; [lia|]. split; [lia|]. rewrite Hv.
    change (15000000000 - 0)%N with 15000000000%N.
    change (30000000000 - 15000000000)%N with 15000000000%N.
    rewrite W_15_ns. unfold steady_discount. lra.
Qed.

(** * NO PROGRESS SEEN <=> RATE ZERO
    [progress_seen e] = a sample was accepted after the last (re)start. *)
Definition J_seen (e : est R) : Prop :=
  J_nonneg e /\ (progress_seen e -> 0 < sm e /\ 0 < dsm e) /\
  (prev_time e = start_time e -> sm e = 0 /\ dsm e = 0).

Lemma seg_rate_pos : forall e new now, (prev_steps e < new)%N -> (prev_time e < now)%N ->
  0 < seg_rate e new now.
Proof.
  intros e new now Hs Ht. unfold seg_rate. apply Rdiv_lt_0_compat.
  - apply IZR_lt. lia.
  - apply secs_pos. lia.
Qed.

Lemma inv_seen : forall evs e, wf e -> J_seen e -> hist_ok evs e ->
  J_seen (est_run evs e) /\ wf (est_run evs e).
Proof.
  intros evs e Hwf HJ Hh.
  apply (est_run_inv J_seen (fun _ => True)); auto.
  - intros e0 new now Hwf0 ((Hs0 & Hd0) & _ & _) Hn Ht _.
    assert (Hw : 0 < W (secs (now - prev_time e0)) < 1).
    { split; [apply W_pos | apply W_lt_1, secs_pos; lia]. }
    assert (Hr := seg_rate_pos e0 new now Hn Ht).
    assert (Hden : 0 < 1 - W (secs (now - start_time e0))).
    { apply denominator_pos. unfold wf in Hwf0. lia. }
    assert (Hrs : 0 < rec_s e0 new now).
    { unfold rec_s. cbv zeta.
      assert (0 <= sm e0 * W (secs (now - prev_time e0))) by (apply Rmult_le_pos; lra).
      assert (0 < seg_rate e0 new now * (1 - W (secs (now - prev_time e0))))
        by (apply Rmult_lt_0_compat; lra).
      lra. }
    assert (Hrd : 0 < rec_d e0 new now).
    { unfold rec_d. cbv zeta.
      assert (0 <= dsm e0 * W (secs (now - prev_time e0))) by (apply Rmult_le_pos; lra).
      assert (0 < rec_s e0 new now / (1 - W (secs (now - start_time e0))))
        by (apply Rdiv_lt_0_compat; assumption).
      assert (0 < rec_s e0 new now / (1 - W (secs (now - start_time e0)))
                  * (1 - W (secs (now - prev_time e0)))) by (apply Rmult_lt_0_compat; lra).
      lra. }
    unfold J_seen, J_nonneg, progress_seen. cbn [sm dsm prev_time start_time].
    split; [split; lra|]. split; [intros _; split; assumption|].
    intros E. unfold wf in Hwf0. exfalso. lia.
  - intros now pos. unfold J_seen, J_nonneg, progress_seen. cbn [sm dsm prev_time start_time].
    split; [split; lra|]. split; [intros H; exfalso; lia | intros _; split; reflexivity].
  - clear. revert e. induction evs as [|x r IH]; intros e0; cbn [segs_ok]; auto.
    split; [destruct x; auto | apply IH].
Qed.

Lemma J_seen_new : forall t0, J_seen (est_new Rar t0).
Proof.
  intros t0. unfold J_seen, J_nonneg, progress_seen. cbn [est_new sm dsm prev_time start_time].
  rewrite fzero_R. split; [split; lra|]. split; [intros H; exfalso; lia | intros _; split; reflexivity].
Qed.

Theorem rate_zero_iff_no_progress : forall evs t0 now,
  let e := est_run evs (est_new Rar t0) in
  hist_ok evs (est_new Rar t0) ->
  (prev_time e <= now)%N -> (start_time e < now)%N ->
  (progress_seen e -> 0 < est_sps Rar e now) /\
  (~ progress_seen e -> est_sps Rar e now = 0) /\
  (est_sps Rar e now = 0 <-> ~ progress_seen e).
Proof.
  intros evs t0 now e Hh Hn Hst.
  destruct (inv_seen evs (est_new Rar t0) (wf_new t0) (J_seen_new t0) Hh) as [(HJ & Hp & Hz) Hwf].
  fold e in HJ, Hp, Hz, Hwf.
  assert (Hden : 0 < 1 - W (secs (now - start_time e))) by (apply denominator_pos; lia).
  assert (Hw : 0 < W (secs (now - prev_time e)) <= 1).
  { split; [apply W_pos | apply W_le_1, secs_nonneg]. }
  assert (P1 : progress_seen e -> 0 < est_sps Rar e now).
  { intros Hseen. destruct (Hp Hseen) as [Hs Hd]. rewrite est_sps_R by exact Hst. unfold sps_R.
    set (n := 1 - W (secs (now - start_time e))) in *.
    set (w := W (secs (now - prev_time e))) in *.
    assert (0 < dsm e * w) by (apply Rmult_lt_0_compat; lra).
    assert (0 < sm e * w / n) by (apply Rdiv_lt_0_compat; [apply Rmult_lt_0_compat; lra | exact Hden]).
    assert (0 <= sm e * w / n * (1 - w)) by (apply Rmult_le_pos; lra).
    apply Rdiv_lt_0_compat; lra. }
  assert (P2 : ~ progress_seen e -> est_sps Rar e now = 0).
  { intros Hno. unfold progress_seen, wf in *.
    destruct Hz as [Hs Hd]; [lia|]. rewrite est_sps_R by exact Hst. unfold sps_R. rewrite Hs, Hd.
    unfold Rdiv. rewrite !Rmult_0_l. rewrite Rplus_0_l, Rmult_0_l. reflexivity. }
  split; [exact P1|]. split; [exact P2|]. split.
  - intros Hz0 Hseen. specialize (P1 Hseen). lra.
  - exact P2.
Qed.

(** what [progress_seen] means in terms of the calls: it becomes true exactly when [record]
    accepts a sample, stays as it is when [record] ignores the call, and becomes false at every
    restart (reset*, recorded backwards seek) *)
Lemma progress_seen_step : forall x (e : est R), wf e ->
  (progress_seen (est_ev x e) <->
   match x with
   | ERec new now =>
       ((prev_steps e < new)%N /\ (prev_time e < now)%N) \/
       ((prev_steps e <= new)%N /\ (new = prev_steps e \/ (now <= prev_time e)%N) /\ progress_seen e)
   | ERst _ _ => False
   end).
Proof.
  intros x e Hwf. unfold progress_seen, wf in *. destruct x as [new now | now pos]; cbn [est_ev].
  - destruct (est_record_cases new now e) as [(H1 & H2 & E) | [(H1 & E) | (H1 & E)]]; rewrite E;
      cbn [prev_time start_time].
    + split; [intros _; left; split; assumption | intros _; lia].
    + split; [intros H; exfalso; lia | intros [[H _] | [H _]]; exfalso; lia].
    + destruct (N.eq_dec new (prev_steps e)) as [He | He].
      * split; [intros H; right; repeat split; auto | intros [[H _] | (_ & _ & H)]; [exfalso; lia | exact H]].
      * destruct (N.lt_ge_cases (prev_time e) now) as [Ht | Ht].
        -- exfalso. rewrite est_record_accept in E by (try assumption; lia).
           apply (f_equal prev_steps) in E. cbn [prev_steps] in E. change (T Rar) with R in *. lia.
        -- split; [intros H; right; repeat split; auto | intros [[_ H] | (_ & _ & H)]; [exfalso; lia | exact H]].
  - rewrite bar_reset_est_R. cbn [prev_time start_time]. split; [intros H; lia | intros []].
Qed.

(** * WHEN DOES THE STALLED RATE RISE?  Exactly when smoothed > double_smoothed.
    [stall_rate e x] is the rate reported x seconds after the last accepted sample. *)
Lemma stall_rate_spec : forall e now, wf e -> (prev_time e <= now)%N -> (start_time e < now)%N ->
  est_sps Rar e now = stall_rate e (secs (now - prev_time e)).
Proof. intros e now Hwf Hn Hst. unfold stall_rate. now apply est_sps_split. Qed.

Lemma W_onto : forall w, 0 < w < 1 -> exists x, 0 < x /\ W x = w.
Proof.
  intros w [H0 H1]. assert (Hl := ln_tenth_neg).
  assert (Hlw : ln w < 0) by (rewrite <- ln_1; apply ln_increasing; lra).
  exists (15 * (ln w / ln (1 / 10))). split.
  - apply Rmult_lt_0_compat; [lra|].
    replace (ln w / ln (1 / 10)) with ((- ln w) / (- ln (1 / 10))) by (field; lra).
    apply Rdiv_lt_0_compat; lra.
  - unfold W, Rpower.
    replace (15 * (ln w / ln (1 / 10)) / 15 * ln (1 / 10)) with (ln w) by (field; lra).
    now apply exp_ln.
Qed.

Lemma alg_rise_iff : forall s d A,
  0 < A < 1 -> 0 <= d -> 0 < s ->
  ((exists w, 0 < w < 1 /\ sps_R s d 1 (1 - A * 1) < sps_R s d w (1 - A * w)) <-> d < s).
Proof.
  intros s d A HA Hd Hs. split.
  - intros (w & Hw & Hlt).
    destruct (Rlt_le_dec d s) as [H | H]; [exact H | exfalso].
    assert (Hdec : sps_R s d w (1 - A * w) <= sps_R s d 1 (1 - A * 1)).
    { apply alg_sps_decay; try lra. }
    lra.
  - intros Hds.
    (* any w above w0 = d / (s (1 - A) + d A) works *)
    set (den := s * (1 - A) + d * A).
    assert (Hden : 0 < den).
    { unfold den. assert (0 < s * (1 - A)) by (apply Rmult_lt_0_compat; lra).
      assert (0 <= d * A) by (apply Rmult_le_pos; lra). lra. }
    assert (Hw0 : 0 <= d / den < 1).
    { split; [apply div_nonneg; lra|].
      apply Rmult_lt_reg_r with den; [exact Hden|].
      unfold Rdiv. rewrite Rmult_assoc, Rinv_l by lra. unfold den.
      assert (0 < (s - d) * (1 - A)) by (apply Rmult_lt_0_compat; lra). lra. }
    set (w := (1 + d / den) / 2).
    assert (Hw : 0 < w < 1) by (unfold w; lra).
    assert (Hww0 : d / den < w) by (unfold w; lra).
    exists w. split; [exact Hw|].
    assert (HAw : A * w < 1) by nra.
    assert (HA1 : A * 1 < 1) by lra.
    rewrite !alg_sps_closed by assumption.
    set (v := w / (1 - A * w)). set (v1 := 1 / (1 - A * 1)).
    assert (Hv1 : (1 - A) * v1 = 1) by (unfold v1; field; lra).
    assert (Hvlt : v < v1).
    { unfold v, v1. apply Rmult_lt_reg_r with ((1 - A * w) * (1 - A * 1)).
      - apply Rmult_lt_0_compat; lra.
      - replace (w / (1 - A * w) * ((1 - A * w) * (1 - A * 1))) with (w * (1 - A * 1)) by (field; lra).
        replace (1 / (1 - A * 1) * ((1 - A * w) * (1 - A * 1))) with (1 - A * w) by (field; lra).
        nra. }
    (* d < (1 - A) s v  <=>  d (1 - A w) < (1 - A) s w  <=>  d < w * den *)
    assert (Hkey : d < (1 - A) * s * v).
    { unfold v. apply Rmult_lt_reg_r with (1 - A * w); [lra|].
      replace ((1 - A) * s * (w / (1 - A * w)) * (1 - A * w)) with ((1 - A) * s * w) by (field; lra).
      assert (Hd2 : d < w * den).
      { apply Rmult_lt_reg_r with (/ den); [now apply Rinv_0_lt_compat|].
        rewrite Rmult_assoc, Rinv_r by lra. unfold Rdiv in Hww0. lra. }
      unfold den in Hd2. lra. }
    (* g(v) - g(v1) = (v - v1) * (d - (1 - A) s v) > 0 *)
    assert (Hprod : 0 < (v1 - v) * ((1 - A) * s * v - d)) by (apply Rmult_lt_0_compat; lra).
    assert (Hs1 : (1 - A) * s * v1 = s) by (rewrite (Rmult_comm (1 - A) s), Rmult_assoc, Hv1; ring).
    nra.
Qed.

Theorem stall_rise_iff : forall evs t0,
  let e := est_run evs (est_new Rar t0) in
  hist_ok evs (est_new Rar t0) -> progress_seen e ->
  ((exists x, 0 < x /\ stall_rate e 0 < stall_rate e x) <-> dsm e < sm e).
Proof.
  intros evs t0 e Hh Hseen.
  destruct (inv_seen evs (est_new Rar t0) (wf_new t0) (J_seen_new t0) Hh) as [((_ & Hd0) & Hp & _) Hwf].
  fold e in Hd0, Hp, Hwf. destruct (Hp Hseen) as [Hs Hd].
  set (A := W (secs (prev_time e - start_time e))).
  assert (HA : 0 < A < 1).
  { split; [apply W_pos | apply W_lt_1, secs_pos]. unfold progress_seen in Hseen. lia. }
  unfold stall_rate. fold A. rewrite W_0.
  rewrite <- (alg_rise_iff (sm e) (dsm e) A HA Hd0 Hs). split.
  - intros (x & Hx & Hlt). exists (W x). split; [|exact Hlt].
    split; [apply W_pos | now apply W_lt_1].
  - intros (w & Hw & Hlt). destruct (W_onto w Hw) as (x & Hx & E). exists x. rewrite E. auto.
Qed.

(** * BINARY64 UNDERFLOW OF THE WEIGHT
    W(T seconds)^15 = (1/10)^T, so comparing W(T) with a power of two is a comparison of integers. *)
Lemma W_pow15 : forall T : nat, W (INR T) ^ 15 = (1 / 10) ^ T.
Proof.
  intros T. rewrite W_pow. rewrite <- W_15, W_pow. f_equal. cbn [INR]. ring.
Qed.

Lemma tenth_pow : forall T : nat, (1 / 10) ^ T = / IZR (10 ^ Z.of_nat T).
Proof.
  intros T. rewrite <- pow_IZR. unfold Rdiv. rewrite Rmult_1_l. rewrite pow_inv. reflexivity.
Qed.

Lemma bpow_neg_pow15 : forall k : Z, (0 <= k)%Z ->
  bpow radix2 (- k) ^ 15 = / IZR (2 ^ (15 * k)).
Proof.
  intros k Hk. rewrite bpow_opp, <- IZR_Zpower by exact Hk. rewrite pow_inv. f_equal.
  rewrite pow_IZR. f_equal. change (radix_val radix2) with 2%Z.
  rewrite <- Z.pow_mul_r by lia. f_equal. lia.
Qed.

Lemma W_lt_bpow : forall (T : nat) (k : Z), (0 <= k)%Z ->
  (2 ^ (15 * k) < 10 ^ Z.of_nat T)%Z -> W (INR T) < bpow radix2 (- k).
Proof.
  intros T k Hk Hlt.
  destruct (Rlt_le_dec (W (INR T)) (bpow radix2 (- k))) as [H | H]; [exact H | exfalso].
  assert (Hp : bpow radix2 (- k) ^ 15 <= W (INR T) ^ 15).
  { apply pow_incr. split; [apply bpow_ge_0 | exact H]. }
  rewrite W_pow15, tenth_pow, bpow_neg_pow15 in Hp by exact Hk.
  assert (H2 : (0 < 2 ^ (15 * k))%Z) by (apply Z.pow_pos_nonneg; lia).
  apply Rinv_le_contravar in Hp.
  - rewrite !Rinv_inv in Hp. apply le_IZR in Hp. lia.
  - apply Rinv_0_lt_compat, IZR_lt. lia.
Qed.

Lemma W_gt_bpow : forall (T : nat) (k : Z), (0 <= k)%Z ->
  (10 ^ Z.of_nat T < 2 ^ (15 * k))%Z -> bpow radix2 (- k) < W (INR T).
Proof.
  intros T k Hk Hlt.
  destruct (Rlt_le_dec (bpow radix2 (- k)) (W (INR T))) as [H | H]; [exact H | exfalso].
  assert (Hp : W (INR T) ^ 15 <= bpow radix2 (- k) ^ 15).
  { apply pow_incr. split; [left; apply W_pos | exact H]. }
  rewrite W_pow15, tenth_pow, bpow_neg_pow15 in Hp by exact Hk.
  assert (H10 : (0 < 10 ^ Z.of_nat T)%Z) by (apply Z.pow_pos_nonneg; lia).
  apply Rinv_le_contravar in Hp.
  - rewrite !Rinv_inv in Hp. apply le_IZR in Hp. lia.
  - apply Rinv_0_lt_compat, IZR_lt. lia.
Qed.

Lemma secs_of_seconds : forall T : nat, secs (N.of_nat T * 1000000000) = INR T.
Proof.
  intros T. unfold secs. rewrite N2Z.inj_mul, nat_N_Z, mult_IZR, <- INR_IZR_INZ.
  cbn [Z.of_N]. field.
Qed.

(** binary64: smallest positive subnormal 2^-1074 (half of it: 2^-1075), smallest positive
    normal 2^-1022; [STALL_ZERO_NS] = 4855 s, [STALL_SUBNORMAL_NS] = 4615 s (model/Estimator.v) *)
Definition T_ZERO : nat := 4855.
Definition T_SUBNORMAL : nat := 4615.

(** the integer comparisons, from small ones (convergents 485/146 < log2 10 < 2136/643) so that
    no number beyond ~2100 bits is ever computed (coqchk re-checks computations with the lazy
    machine, not the VM) *)
Lemma pow_chain : forall a b p q r s n : Z,
  (0 < a)%Z -> (0 < b)%Z -> (0 <= p)%Z -> (0 <= q)%Z -> (0 <= r)%Z -> (0 <= s)%Z -> (0 < n)%Z ->
  (a ^ p < b ^ q)%Z -> (a ^ r <= b ^ s)%Z -> (a ^ (p * n + r) < b ^ (q * n + s))%Z.
Proof.
  intros a b p q r s n Ha Hb Hp Hq Hr Hs Hn H1 H2.
  assert (Hn0 : (0 <= n)%Z) by (apply Z.lt_le_incl; exact Hn).
  assert (Hpn : (0 <= p * n)%Z) by (apply Z.mul_nonneg_nonneg; assumption).
  assert (Hqn : (0 <= q * n)%Z) by (apply Z.mul_nonneg_nonneg; assumption).
  rewrite (Z.pow_add_r a (p * n) r Hpn Hr), (Z.pow_add_r b (q * n) s Hqn Hs).
  rewrite (Z.pow_mul_r a p n Hp Hn0), (Z.pow_mul_r b q n Hq Hn0).
  assert (Hap : (0 < a ^ p)%Z) by (apply Z.pow_pos_nonneg; assumption).
  assert (HAB : ((a ^ p) ^ n < (b ^ q) ^ n)%Z).
  { apply Z.pow_lt_mono_l; [exact Hn|]. split; [apply Z.lt_le_incl; exact Hap | exact H1]. }
  assert (HC : (0 < a ^ r)%Z) by (apply Z.pow_pos_nonneg; assumption).
  assert (HB : (0 <= (b ^ q) ^ n)%Z).
  { apply Z.pow_nonneg. apply Z.pow_nonneg. apply Z.lt_le_incl; exact Hb. }
  apply Z.lt_le_trans with ((b ^ q) ^ n * a ^ r)%Z.
  - apply Z.mul_lt_mono_pos_r; assumption.
  - apply Z.mul_le_mono_nonneg_l; [exact HB | exact H2].
Qed.

Lemma cmp_485_146 : (2 ^ 485 < 10 ^ 146)%Z.  Proof. vm_compute. reflexivity. Qed.
Lemma cmp_643_2136 : (10 ^ 643 < 2 ^ 2136)%Z.  Proof. vm_compute. reflexivity. Qed.
Lemma cmp_120_37 : (2 ^ 120 <= 10 ^ 37)%Z.  Proof. vm_compute. discriminate. Qed.
Lemma cmp_353_1173 : (10 ^ 353 <= 2 ^ 1173)%Z.  Proof. vm_compute. discriminate. Qed.
Lemma cmp_295_89 : (2 ^ 295 <= 10 ^ 89)%Z.  Proof. vm_compute. discriminate. Qed.
Lemma cmp_113_378 : (10 ^ 113 <= 2 ^ 378)%Z.  Proof. vm_compute. discriminate. Qed.

Lemma W_4855 : W (INR T_ZERO) < bpow radix2 (-1075).
Proof.
  apply (W_lt_bpow T_ZERO 1075); [lia|].
  change (Z.of_nat T_ZERO) with (146 * 33 + 37)%Z. change (15 * 1075)%Z with (485 * 33 + 120)%Z.
  apply pow_chain; [lia | lia | lia | lia | lia | lia | lia | exact cmp_485_146 | exact cmp_120_37].
Qed.
Lemma W_4854 : bpow radix2 (-1075) < W (INR (pred T_ZERO)).
Proof.
  apply (W_gt_bpow (pred T_ZERO) 1075); [lia|].
  change (Z.of_nat (pred T_ZERO)) with (643 * 7 + 353)%Z. change (15 * 1075)%Z with (2136 * 7 + 1173)%Z.
  apply pow_chain; [lia | lia | lia | lia | lia | lia | lia | exact cmp_643_2136 | exact cmp_353_1173].
Qed.
Lemma W_4615 : W (INR T_SUBNORMAL) < bpow radix2 (-1022).
Proof.
  apply (W_lt_bpow T_SUBNORMAL 1022); [lia|].
  change (Z.of_nat T_SUBNORMAL) with (146 * 31 + 89)%Z. change (15 * 1022)%Z with (485 * 31 + 295)%Z.
  apply pow_chain; [lia | lia | lia | lia | lia | lia | lia | exact cmp_485_146 | exact cmp_295_89].
Qed.
Lemma W_4614 : bpow radix2 (-1022) < W (INR (pred T_SUBNORMAL)).
Proof.
  apply (W_gt_bpow (pred T_SUBNORMAL) 1022); [lia|].
  change (Z.of_nat (pred T_SUBNORMAL)) with (643 * 7 + 113)%Z. change (15 * 1022)%Z with (2136 * 7 + 378)%Z.
  apply pow_chain; [lia | lia | lia | lia | lia | lia | lia | exact cmp_643_2136 | exact cmp_113_378].
Qed.

Lemma RN64_tiny : forall x, 0 < x < bpow radix2 (-1075) -> RN64 x = 0.
Proof.
  intros x [H0 H1]. unfold RN64.
  assert (Hx : x <> 0) by lra.
  assert (Hm : (mag radix2 x <= -1075)%Z).
  { apply mag_le_bpow; [exact Hx|]. rewrite Rabs_pos_eq by lra. exact H1. }
  apply round_N_small_pos with (ex := mag radix2 x).
  - destruct (mag radix2 x) as [ex He]. cbn [mag_val] in *. specialize (He Hx).
    rewrite Rabs_pos_eq in He by lra. exact He.
  - unfold FLT_exp. lia.
Qed.

(** the underflow thresholds, for every stall length given in nanoseconds *)
Theorem weight_underflow : forall t : N,
  ((STALL_ZERO_NS <= t)%N ->
     0 < W (secs t) < bpow radix2 (-1075) /\ RN64 (W (secs t)) = 0) /\
  ((t <= STALL_ZERO_NS - 1000000000)%N -> bpow radix2 (-1075) < W (secs t)) /\
  ((STALL_SUBNORMAL_NS <= t)%N -> W (secs t) < bpow radix2 (-1022)) /\
  ((t <= STALL_SUBNORMAL_NS - 1000000000)%N -> bpow radix2 (-1022) < W (secs t)).
Proof.
  intros t.
  change STALL_ZERO_NS with (N.of_nat T_ZERO * 1000000000)%N.
  change (N.of_nat T_ZERO * 1000000000 - 1000000000)%N with (N.of_nat (pred T_ZERO) * 1000000000)%N.
  change STALL_SUBNORMAL_NS with (N.of_nat T_SUBNORMAL * 1000000000)%N.
  change (N.of_nat T_SUBNORMAL * 1000000000 - 1000000000)%N with (N.of_nat (pred T_SUBNORMAL) * 1000000000)%N.
  repeat split.
  - apply W_pos.
  - apply Rle_lt_trans with (2 := W_4855). apply W_decr. rewrite <- secs_of_seconds. now apply secs_le.
  - apply RN64_tiny. split; [apply W_pos|].
    apply Rle_lt_trans with (2 := W_4855). apply W_decr. rewrite <- secs_of_seconds. now apply secs_le.
  - intros H. apply Rlt_le_trans with (1 := W_4854). apply W_decr. rewrite <- secs_of_seconds. now apply secs_le.
  - intros H. apply Rle_lt_trans with (2 := W_4615). apply W_decr. rewrite <- secs_of_seconds. now apply secs_le.
  - intros H. apply Rlt_le_trans with (1 := W_4614). apply W_decr. rewrite <- secs_of_seconds. now apply secs_le.
Qed.

(** * FORGETTING *)
(** a restart (reset_eta / reset_elapsed / reset, or a recorded backwards seek) leaves a state
    that is a function of the instant and the current position only *)
Lemma reset_forgets : forall now pos (e1 e2 : est R),
  bar_reset_est Rar now pos e1 = bar_reset_est Rar now pos e2.
Proof. reflexivity. Qed.

Lemma rewind_forgets : forall new now (e1 e2 : est R),
  (new < prev_steps e1)%N -> (new < prev_steps e2)%N ->
  est_record Rar new now e1 = est_record Rar new now e2.
Proof. intros new now e1 e2 H1 H2. now rewrite !est_record_rewind. Qed.

(** the restarted state is the state of a NEW estimator created at that instant, with the
    position origin moved to the current position *)
Lemma reset_is_shifted_new : forall (A : arith) now pos (e : est (T A)),
  bar_reset_est A now pos e = est_shift pos (est_new A now).
Proof. reflexivity. Qed.

(** the estimator is invariant under translation of the positions – for EVERY arithmetic,
    including the binary64 one: this is what makes the "fresh twin" comparison of the harness
    exact *)
Lemma est_record_shift : forall (A : arith) p new now (e : est (T A)),
  est_record A (new + p) now (est_shift p e) = est_shift p (est_record A new now e).
Proof.
  intros A p new now e. unfold est_record, est_shift, est_reset.
  cbn [sm dsm prev_steps prev_time start_time].
  assert (G1 : (new + p <=? prev_steps e + p)%N = (new <=? prev_steps e)%N).
  { destruct (N.leb_spec new (prev_steps e)); [apply N.leb_le | apply N.leb_gt]; lia. }
  assert (G2 : (new + p <? prev_steps e + p)%N = (new <? prev_steps e)%N).
  { destruct (N.ltb_spec new (prev_steps e)); [apply N.ltb_lt | apply N.ltb_ge]; lia. }
  assert (G3 : (new + p - (prev_steps e + p))%N = (new - prev_steps e)%N) by lia.
  rewrite G1, G2, G3.
  destruct ((new <=? prev_steps e)%N || (now <=? prev_time e)%N);
    [destruct (new <? prev_steps e)%N|]; reflexivity.
Qed.

Lemma est_sps_shift : forall (A : arith) p (e : est (T A)) now,
  est_sps A (est_shift p e) now = est_sps A e now.
Proof. reflexivity. Qed.
