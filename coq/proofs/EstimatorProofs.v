(** C09 – proofs about the real-number instance [Rar] of the estimator model. *)
From IndModel Require Import Base Estimator.
From IndGen Require Import Constants.
From Coq Require Import Reals Lra Lia Psatz ZArith NArith List.
Import ListNotations.
Open Scope R_scope.

(** * The weight function W(t) = (1/10)^(t/15) *)
Definition W (t : R) : R := Rpower (1 / 10) (t / 15).

Lemma est_weight_R : forall t, est_weight Rar t = W t.
Proof.
  intros t. unfold est_weight, W. cbn [pow_base div of_int Rar].
  unfold R_pow_base, EST_WEIGHT_BASE_NUM, EST_WEIGHT_BASE_DEN, EST_WEIGHTING_SECONDS.
  cbn [Z.of_N Z.of_nat]. reflexivity.
Qed.

Lemma W_pos : forall t, 0 < W t.
Proof. intros t. unfold W, Rpower. apply exp_pos. Qed.

Lemma W_0 : W 0 = 1.
Proof. unfold W. replace (0 / 15) with 0 by lra. apply Rpower_O. lra. Qed.

Lemma W_add : forall a b, W (a + b) = W a * W b.
Proof.
  intros a b. unfold W. rewrite <- Rpower_plus. f_equal. lra.
Qed.

Lemma ln_tenth_neg : ln (1 / 10) < 0.
Proof.
  rewrite <- ln_1. apply ln_increasing; lra.
Qed.

Lemma W_lt_1 : forall t, 0 < t -> W t < 1.
Proof.
  intros t Ht. unfold W, Rpower.
  apply Rlt_le_trans with (exp 0); [apply exp_increasing | rewrite exp_0; lra].
  assert (Hl := ln_tenth_neg).
  assert (Hq : 0 < t / 15) by lra.
  assert (Hp : 0 < (t / 15) * (- ln (1 / 10))) by (apply Rmult_lt_0_compat; lra).
  lra.
Qed.

Lemma W_le_1 : forall t, 0 <= t -> W t <= 1.
Proof.
  intros t [Ht | Ht].
  - left. now apply W_lt_1.
  - subst t. rewrite W_0. lra.
Qed.

Lemma W_decr : forall a b, a <= b -> W b <= W a.
Proof.
  intros a b Hab. replace b with (a + (b - a)) by lra. rewrite W_add.
  assert (H1 := W_pos a). assert (H2 := W_le_1 (b - a)). assert (H3 := W_pos (b - a)).
  nra.
Qed.

Lemma W_15 : W 15 = 1 / 10.
Proof. unfold W. replace (15 / 15) with 1 by lra. apply Rpower_1. lra. Qed.

(** W tends to 0: explicit bound W t <= eps once t >= 15 * ln(1/eps) / ln 10 *)
Lemma W_small : forall eps, 0 < eps -> exists X, 0 <= X /\ forall t, X <= t -> W t <= eps.
Proof.
  intros eps He.
  destruct (Rle_dec 1 eps) as [H1 | H1].
  - exists 0. split; [lra|]. intros t Ht. assert (H := W_le_1 t Ht). lra.
  - assert (Hl : ln eps < 0).
    { rewrite <- ln_1. apply ln_increasing; lra. }
    assert (Hn := ln_tenth_neg).
    exists (15 * (ln eps / ln (1 / 10))). split.
    + apply Rmult_le_pos; [lra|]. apply Rlt_le.
      replace (ln eps / ln (1/10)) with ((- ln eps) / (- ln (1/10))) by (field; lra).
      apply Rdiv_lt_0_compat; lra.
    + intros t Ht. apply Rle_trans with (W (15 * (ln eps / ln (1 / 10)))).
      * now apply W_decr.
      * unfold W, Rpower. right.
        replace (15 * (ln eps / ln (1 / 10)) / 15 * ln (1 / 10)) with (ln eps) by (field; lra).
        now apply exp_ln.
Qed.

(** * Seconds of a duration given in nanoseconds; R-forms of the model functions *)
Definition secs (d : N) : R := IZR (Z.of_N d) / 1000000000.

Lemma dur_secs_R : forall d, dur_secs Rar d = secs d.
Proof.
  intros d. unfold dur_secs, secs, NS_PER_SEC. cbn [add div of_int Rar].
  assert (H := N.div_mod d 1000000000 ltac:(discriminate)).
  apply (f_equal Z.of_N) in H. rewrite N2Z.inj_add, N2Z.inj_mul in H.
  apply (f_equal IZR) in H. rewrite plus_IZR, mult_IZR in H.
  rewrite H. cbn [Z.of_N]. lra.
Qed.

Lemma secs_0 : secs 0 = 0.
Proof. unfold secs. cbn. lra. Qed.

Lemma secs_nonneg : forall d, 0 <= secs d.
Proof.
  intros d. unfold secs. apply Rmult_le_pos; [|lra].
  apply IZR_le. lia.
Qed.

Lemma secs_lt : forall a b, (a < b)%N -> secs a < secs b.
Proof.
  intros a b H. unfold secs. apply Rmult_lt_compat_r; [lra|]. apply IZR_lt. lia.
Qed.

Lemma secs_le : forall a b, (a <= b)%N -> secs a <= secs b.
Proof.
  intros a b H. unfold secs. apply Rmult_le_compat_r; [lra|]. apply IZR_le. lia.
Qed.

Lemma secs_pos : forall d, (0 < d)%N -> 0 < secs d.
Proof. intros d H. rewrite <- secs_0. now apply secs_lt. Qed.

Lemma secs_sub : forall a b, (a <= b)%N -> secs (b - a) = secs b - secs a.
Proof.
  intros a b H. unfold secs. rewrite N2Z.inj_sub by exact H. rewrite minus_IZR. lra.
Qed.

Lemma secs_add : forall a b, secs (a + b) = secs a + secs b.
Proof.
  intros a b. unfold secs. rewrite N2Z.inj_add, plus_IZR. lra.
Qed.

Lemma fone_R : fone Rar = 1.
Proof. reflexivity. Qed.
Lemma fzero_R : fzero Rar = 0.
Proof. reflexivity. Qed.

(** steps_per_second over R *)
Definition sps_R (s d : R) (w n : R) : R := (d * w + s * w / n * (1 - w)) / n.

Lemma est_sps_R : forall (e : est R) now,
  est_sps Rar e now =
  sps_R (sm e) (dsm e) (W (secs (now - prev_time e))) (1 - W (secs (now - start_time e))).
Proof.
  intros e now. unfold est_sps, since, sps_R.
  rewrite !dur_secs_R, !est_weight_R, fone_R. reflexivity.
Qed.

(** the rate of the segment a record would add *)
Definition seg_rate (e : est R) (new now : N) : R :=
  IZR (Z.of_N (new - prev_steps e)) / secs (now - prev_time e).

Definition rec_s (e : est R) (new now : N) : R :=
  let w := W (secs (now - prev_time e)) in sm e * w + seg_rate e new now * (1 - w).
Definition rec_d (e : est R) (new now : N) : R :=
  let w := W (secs (now - prev_time e)) in
  dsm e * w + rec_s e new now / (1 - W (secs (now - start_time e))) * (1 - w).

Lemma est_record_accept : forall new now (e : est R),
  (prev_steps e < new)%N -> (prev_time e < now)%N ->
  est_record Rar new now e =
  (mkEst (rec_s e new now) (rec_d e new now) new now (start_time e) : est R).
Proof.
  intros new now e Hs Ht. unfold est_record. change (T Rar) with R.
  assert (G1 : (new <=? prev_steps e)%N = false) by (apply N.leb_gt; exact Hs).
  assert (G2 : (now <=? prev_time e)%N = false) by (apply N.leb_gt; exact Ht).
  rewrite G1, G2. cbn [orb]. unfold rec_s, rec_d, seg_rate, since.
  rewrite !dur_secs_R, !est_weight_R, fone_R. reflexivity.
Qed.

Lemma est_record_rewind : forall new now (e : est R),
  (new < prev_steps e)%N -> est_record Rar new now e = (mkEst 0 0 new now now : est R).
Proof.
  intros new now e Hs. unfold est_record. change (T Rar) with R.
  assert (G1 : (new <=? prev_steps e)%N = true) by (apply N.leb_le; lia).
  assert (G2 : (new <? prev_steps e)%N = true) by (apply N.ltb_lt; exact Hs).
  rewrite G1, G2. cbn [orb]. reflexivity.
Qed.

Lemma est_record_ignore : forall new now (e : est R),
  (prev_steps e <= new)%N -> (new = prev_steps e \/ (now <= prev_time e)%N) ->
  est_record Rar new now e = e.
Proof.
  intros new now e Hs Hc. unfold est_record. change (T Rar) with R.
  assert (G2 : (new <? prev_steps e)%N = false) by (apply N.ltb_ge; exact Hs).
  rewrite G2.
  destruct Hc as [Hc | Hc].
  - assert (G1 : (new <=? prev_steps e)%N = true) by (apply N.leb_le; lia).
    rewrite G1. reflexivity.
  - assert (G1 : (now <=? prev_time e)%N = true) by (apply N.leb_le; exact Hc).
    rewrite G1, orb_true_r. reflexivity.
Qed.

(** the three cases are exhaustive *)
Lemma est_record_cases : forall new now (e : est R),
  ((prev_steps e < new)%N /\ (prev_time e < now)%N /\
     est_record Rar new now e =
       (mkEst (rec_s e new now) (rec_d e new now) new now (start_time e) : est R))
  \/ ((new < prev_steps e)%N /\ est_record Rar new now e = (mkEst 0 0 new now now : est R))
  \/ ((prev_steps e <= new)%N /\ est_record Rar new now e = e).
Proof.
  intros new now e.
  destruct (N.lt_ge_cases new (prev_steps e)) as [H | H].
  - right; left. split; [exact H|]. now apply est_record_rewind.
  - destruct (N.eq_dec new (prev_steps e)) as [He | He].
    + right; right. split; [exact H|]. apply est_record_ignore; auto.
    + destruct (N.lt_ge_cases (prev_time e) now) as [Ht | Ht].
      * left. split; [lia|]. split; [exact Ht|]. apply est_record_accept; [lia | exact Ht].
      * right; right. split; [exact H|]. apply est_record_ignore; auto.
Qed.

Lemma bar_reset_est_R : forall now pos (e : est R),
  bar_reset_est Rar now pos e = (mkEst 0 0 pos now now : est R).
Proof. reflexivity. Qed.

(** * Pure algebra of one accepted record and of a query
    A = W(prev - start), w = W(now - prev), so W(now - start) = A*w. *)
Lemma div_le_of_le_mul : forall a b c, 0 < b -> a <= c * b -> a / b <= c.
Proof.
  intros a b c Hb H. unfold Rdiv. apply Rmult_le_reg_r with b; [exact Hb|].
  rewrite Rmult_assoc, Rinv_l by lra. lra.
Qed.

Lemma div_ge_of_ge_mul : forall a b c, 0 < b -> c * b <= a -> c <= a / b.
Proof.
  intros a b c Hb H. unfold Rdiv. apply Rmult_le_reg_r with b; [exact Hb|].
  rewrite Rmult_assoc, Rinv_l by lra. lra.
Qed.

Lemma div_nonneg : forall a b, 0 <= a -> 0 < b -> 0 <= a / b.
Proof.
  intros a b Ha Hb. unfold Rdiv. apply Rmult_le_pos; [exact Ha|]. left. now apply Rinv_0_lt_compat.
Qed.

Lemma alg_rec_nonneg : forall s d A w rate,
  0 <= w <= 1 -> 0 < A <= 1 -> A * w < 1 -> 0 <= s -> 0 <= d -> 0 <= rate ->
  0 <= s * w + rate * (1 - w) /\
  0 <= d * w + (s * w + rate * (1 - w)) / (1 - A * w) * (1 - w).
Proof.
  intros s d A w rate Hw HA HAw Hs Hd Hr.
  assert (H1 : 0 <= s * w) by (apply Rmult_le_pos; lra).
  assert (H2 : 0 <= rate * (1 - w)) by (apply Rmult_le_pos; lra).
  assert (H3 : 0 <= d * w) by (apply Rmult_le_pos; lra).
  split; [lra|].
  assert (H4 : 0 <= (s * w + rate * (1 - w)) / (1 - A * w)) by (apply div_nonneg; lra).
  assert (H5 : 0 <= (s * w + rate * (1 - w)) / (1 - A * w) * (1 - w)) by (apply Rmult_le_pos; lra).
  lra.
Qed.

Lemma alg_rec_bound : forall s d M A w rate,
  0 <= w <= 1 -> 0 < A <= 1 -> A * w < 1 ->
  s <= M * (1 - A) -> d <= M * (1 - A) -> rate <= M ->
  s * w + rate * (1 - w) <= M * (1 - A * w) /\
  d * w + (s * w + rate * (1 - w)) / (1 - A * w) * (1 - w) <= M * (1 - A * w).
Proof.
  intros s d M A w rate Hw HA HAw Hs Hd Hr.
  assert (H1 : s * w <= M * (1 - A) * w) by (apply Rmult_le_compat_r; lra).
  assert (H2 : rate * (1 - w) <= M * (1 - w)) by (apply Rmult_le_compat_r; lra).
  assert (H3 : d * w <= M * (1 - A) * w) by (apply Rmult_le_compat_r; lra).
  assert (Hs' : s * w + rate * (1 - w) <= M * (1 - A * w)) by lra.
  split; [exact Hs'|].
  assert (H4 : (s * w + rate * (1 - w)) / (1 - A * w) <= M) by (apply div_le_of_le_mul; lra).
  assert (H5 : (s * w + rate * (1 - w)) / (1 - A * w) * (1 - w) <= M * (1 - w))
    by (apply Rmult_le_compat_r; lra).
  lra.
Qed.

Lemma alg_rec_steady : forall s d r A w,
  A * w < 1 -> s = r * (1 - A) -> d = r * (1 - A) ->
  s * w + r * (1 - w) = r * (1 - A * w) /\
  d * w + (s * w + r * (1 - w)) / (1 - A * w) * (1 - w) = r * (1 - A * w).
Proof.
  intros s d r A w HAw Hs Hd. subst s d.
  assert (E : r * (1 - A) * w + r * (1 - w) = r * (1 - A * w)) by ring.
  split; [exact E|]. rewrite E. field. lra.
Qed.

(** closed form of a query: with v = w / n, n = 1 - A*w, Np = 1 - A:
      sps = (d + s) * v - Np * s * v^2 *)
Lemma alg_sps_closed : forall s d A w,
  A * w < 1 ->
  sps_R s d w (1 - A * w) =
  (d + s) * (w / (1 - A * w)) - (1 - A) * s * (w / (1 - A * w)) * (w / (1 - A * w)).
Proof.
  intros s d A w H. unfold sps_R. field. lra.
Qed.

Lemma alg_sps_nonneg : forall s d A w,
  0 <= w <= 1 -> 0 < A <= 1 -> A * w < 1 -> 0 <= s -> 0 <= d ->
  0 <= sps_R s d w (1 - A * w).
Proof.
  intros s d A w Hw HA HAw Hs Hd. unfold sps_R.
  assert (H1 : 0 <= d * w) by (apply Rmult_le_pos; lra).
  assert (H2 : 0 <= s * w) by (apply Rmult_le_pos; lra).
  assert (H3 : 0 <= s * w / (1 - A * w)) by (apply div_nonneg; lra).
  assert (H4 : 0 <= s * w / (1 - A * w) * (1 - w)) by (apply Rmult_le_pos; lra).
  apply div_nonneg; lra.
Qed.

Lemma alg_sps_bound : forall s d M A w,
  0 <= w <= 1 -> 0 < A <= 1 -> A * w < 1 -> 0 <= M ->
  s <= M * (1 - A) -> d <= M * (1 - A) ->
  sps_R s d w (1 - A * w) <= M.
Proof.
  intros s d M A w Hw HA HAw HM Hs Hd. unfold sps_R.
  assert (H1 : s * w <= M * (1 - A) * w) by (apply Rmult_le_compat_r; lra).
  assert (H3 : d * w <= M * (1 - A) * w) by (apply Rmult_le_compat_r; lra).
  assert (H0 : 0 <= M * (1 - w)) by (apply Rmult_le_pos; lra).
  assert (H4 : s * w / (1 - A * w) <= M) by (apply div_le_of_le_mul; lra).
  assert (H5 : s * w / (1 - A * w) * (1 - w) <= M * (1 - w)) by (apply Rmult_le_compat_r; lra).
  apply div_le_of_le_mul; lra.
Qed.

(** envelope: the stalled rate is at most 2*M*w (hence tends to 0 with w = W(stall)) *)
Lemma alg_sps_envelope : forall s d M A w,
  0 <= w <= 1 -> 0 < A <= 1 -> A * w < 1 -> 0 <= M -> 0 <= s ->
  s <= M * (1 - A) -> d <= M * (1 - A) ->
  sps_R s d w (1 - A * w) <= 2 * M * w.
Proof.
  intros s d M A w Hw HA HAw HM Hs0 Hs Hd.
  rewrite alg_sps_closed by exact HAw.
  set (v := w / (1 - A * w)).
  assert (Hv0 : 0 <= v) by (apply div_nonneg; lra).
  assert (Hv1 : (1 - A) * v <= w).
  { unfold v. unfold Rdiv. rewrite <- Rmult_assoc. apply div_le_of_le_mul; [lra|].
    assert (0 <= A * (w * (1 - w))) by (apply Rmult_le_pos; [lra | apply Rmult_le_pos; lra]). lra. }
  assert (H1 : 0 <= (1 - A) * s * v * v).
  { apply Rmult_le_pos; [|exact Hv0]. apply Rmult_le_pos; [|exact Hv0]. apply Rmult_le_pos; lra. }
  assert (H2 : (d + s) * v <= 2 * M * (1 - A) * v) by (apply Rmult_le_compat_r; lra).
  assert (H3 : 2 * M * ((1 - A) * v) <= 2 * M * w) by (apply Rmult_le_compat_l; lra).
  lra.
Qed.

(** v = w/(1 - A w) is monotone in w, and (1-A) v <= 1 *)
Lemma alg_v_mono : forall A w1 w2,
  0 < A <= 1 -> 0 <= w2 <= w1 -> w1 <= 1 -> A * w1 < 1 ->
  w2 / (1 - A * w2) <= w1 / (1 - A * w1).
Proof.
  intros A w1 w2 HA Hw H1 HAw.
  assert (HAw2 : A * w2 < 1) by nra.
  apply div_le_of_le_mul; [lra|].
  unfold Rdiv. rewrite Rmult_assoc, (Rmult_comm (/ _)), <- Rmult_assoc.
  apply div_ge_of_ge_mul; [lra|]. nra.
Qed.

(** monotone decay while stalled when d >= s *)
Lemma alg_sps_decay : forall s d A w1 w2,
  0 < A <= 1 -> 0 <= w2 <= w1 -> w1 <= 1 -> A * w1 < 1 -> 0 <= s -> s <= d ->
  sps_R s d w2 (1 - A * w2) <= sps_R s d w1 (1 - A * w1).
Proof.
  intros s d A w1 w2 HA Hw H1 HAw Hs Hsd.
  assert (HAw2 : A * w2 < 1) by nra.
  rewrite !alg_sps_closed by assumption.
  set (v1 := w1 / (1 - A * w1)). set (v2 := w2 / (1 - A * w2)).
  assert (Hv : v2 <= v1) by (apply alg_v_mono; assumption).
  assert (Hv20 : 0 <= v2) by (apply div_nonneg; lra).
  assert (Hb1 : (1 - A) * v1 <= 1).
  { unfold v1, Rdiv. rewrite <- Rmult_assoc. apply div_le_of_le_mul; [lra|]. nra. }
  assert (Hb2 : (1 - A) * v2 <= 1).
  { unfold v2, Rdiv. rewrite <- Rmult_assoc. apply div_le_of_le_mul; [lra|]. nra. }
  (* g(v1) - g(v2) = (v1 - v2) * ((d+s) - (1-A) s (v1+v2)) *)
  assert (Hk : 0 <= (v1 - v2) * ((d + s) - s * ((1 - A) * v1 + (1 - A) * v2))).
  { apply Rmult_le_pos; [lra|].
    assert (s * ((1 - A) * v1 + (1 - A) * v2) <= s * 2) by (apply Rmult_le_compat_l; lra). lra. }
  nra.
Qed.

(** * Histories at the level of the estimator *)
Inductive ev : Type :=
| ERec (new now : N)     (* Estimator::record(new, now) *)
| ERst (now pos : N).    (* BarState::reset: est.reset(now); est.prev_steps = pos *)

Definition ev_time (x : ev) : N := match x with ERec _ t => t | ERst t _ => t end.
Definition est_ev (x : ev) (e : est R) : est R :=
  match x with
  | ERec new now => est_record Rar new now e
  | ERst now pos => bar_reset_est Rar now pos e
  end.
Fixpoint est_run (evs : list ev) (e : est R) : est R :=
  match evs with [] => e | x :: r => est_run r (est_ev x e) end.

(** monotonic clock: no call carries an instant before the estimator's last sample / restart *)
Fixpoint hist_ok (evs : list ev) (e : est R) : Prop :=
  match evs with
  | [] => True
  | x :: r => (prev_time e <= ev_time x)%N /\ hist_ok r (est_ev x e)
  end.

(** every segment the estimator accepts has a rate satisfying P *)
Fixpoint segs_ok (P : R -> Prop) (evs : list ev) (e : est R) : Prop :=
  match evs with
  | [] => True
  | x :: r =>
      match x with
      | ERec new now => (prev_steps e < new)%N -> (prev_time e < now)%N -> P (seg_rate e new now)
      | ERst _ _ => True
      end /\ segs_ok P r (est_ev x e)
  end.

Definition wf (e : est R) : Prop := (start_time e <= prev_time e)%N.
(** normaliser at the last sample: 1 - W(prev_time - start_time) *)
Definition Np (e : est R) : R := 1 - W (secs (prev_time e - start_time e)).

Lemma W_split : forall (e : est R) now, wf e -> (prev_time e <= now)%N ->
  W (secs (now - start_time e)) =
  W (secs (prev_time e - start_time e)) * W (secs (now - prev_time e)).
Proof.
  intros e now Hwf Hn. unfold wf in Hwf. rewrite <- W_add. f_equal.
  rewrite !secs_sub by lia. lra.
Qed.

Lemma A_range : forall e : est R, 0 < W (secs (prev_time e - start_time e)) <= 1.
Proof.
  intros e. split; [apply W_pos | apply W_le_1, secs_nonneg].
Qed.

Lemma w_range : forall (e : est R) now, 0 <= W (secs (now - prev_time e)) <= 1.
Proof.
  intros e now. split; [left; apply W_pos | apply W_le_1, secs_nonneg].
Qed.

(** the denominators: 1 - W(t) > 0 for every t > 0 *)
Lemma denominator_pos : forall t : N, (0 < t)%N -> 0 < 1 - W (secs t).
Proof.
  intros t Ht. assert (H := W_lt_1 (secs t) (secs_pos t Ht)). lra.
Qed.

Lemma Aw_lt_1 : forall (e : est R) now, wf e -> (prev_time e <= now)%N -> (start_time e < now)%N ->
  W (secs (prev_time e - start_time e)) * W (secs (now - prev_time e)) < 1.
Proof.
  intros e now Hwf Hn Hs. rewrite <- W_split by assumption.
  apply W_lt_1, secs_pos. lia.
Qed.

(** induction principle over histories *)
Lemma est_run_inv : forall (J : est R -> Prop) (P : R -> Prop),
  (forall e new now, wf e -> J e -> (prev_steps e < new)%N -> (prev_time e < now)%N ->
     P (seg_rate e new now) ->
     J (mkEst (rec_s e new now) (rec_d e new now) new now (start_time e))) ->
  (forall now pos, J (mkEst 0 0 pos now now)) ->
  forall evs e, wf e -> J e -> hist_ok evs e -> segs_ok P evs e ->
    J (est_run evs e) /\ wf (est_run evs e).
Proof.
  intros J P Hacc Hrst evs. induction evs as [|x r IH]; intros e Hwf HJ Hh Hs.
  - split; assumption.
  - cbn [est_run]. cbn [hist_ok] in Hh. cbn [segs_ok] in Hs.
    destruct Hh as [Ht Hh]. destruct Hs as [Hp Hs].
    apply IH; try assumption.
    + destruct x as [new now | now pos]; cbn [est_ev].
      * destruct (est_record_cases new now e) as [(H1 & H2 & E) | [(H1 & E) | (H1 & E)]];
          rewrite E; unfold wf in *; cbn [start_time prev_time]; change (T Rar) with R in *; lia.
      * rewrite bar_reset_est_R. unfold wf. cbn. lia.
    + destruct x as [new now | now pos]; cbn [est_ev].
      * destruct (est_record_cases new now e) as [(H1 & H2 & E) | [(H1 & E) | (H1 & E)]];
          rewrite E.
        -- apply Hacc; auto.
        -- apply Hrst.
        -- exact HJ.
      * rewrite bar_reset_est_R. apply Hrst.
Qed.

(** ** Invariants *)
Definition J_nonneg (e : est R) : Prop := 0 <= sm e /\ 0 <= dsm e.
Definition J_bound (M : R) (e : est R) : Prop := sm e <= M * Np e /\ dsm e <= M * Np e.
Definition J_steady (r : R) (e : est R) : Prop := sm e = r * Np e /\ dsm e = r * Np e.

Lemma Np_restart : forall pos now, Np (mkEst 0 0 pos now now) = 0.
Proof.
  intros pos now. unfold Np. cbn [prev_time start_time]. rewrite N.sub_diag, secs_0, W_0. lra.
Qed.

Lemma seg_rate_nonneg : forall e new now, (prev_time e < now)%N -> 0 <= seg_rate e new now.
Proof.
  intros e new now H. unfold seg_rate. apply div_nonneg.
  - apply IZR_le. lia.
  - apply secs_pos. lia.
Qed.

Lemma Np_accept : forall e new now s d, wf e -> (prev_time e < now)%N ->
  Np (mkEst s d new now (start_time e)) =
  1 - W (secs (prev_time e - start_time e)) * W (secs (now - prev_time e)).
Proof.
  intros e new now s d Hwf Ht. unfold Np. cbn [prev_time start_time].
  rewrite (W_split e now) by (try assumption; lia). reflexivity.
Qed.

Lemma inv_nonneg : forall evs e, wf e -> J_nonneg e -> hist_ok evs e ->
  J_nonneg (est_run evs e) /\ wf (est_run evs e).
Proof.
  intros evs e Hwf HJ Hh.
  apply (est_run_inv J_nonneg (fun _ => True)); auto.
  - intros e0 new now Hwf0 [Hs Hd] Hn Ht _. unfold J_nonneg. cbn [sm dsm].
    unfold rec_d, rec_s.
    rewrite (W_split e0 now) by (try assumption; lia).
    apply alg_rec_nonneg; auto using A_range, w_range, seg_rate_nonneg.
    apply Aw_lt_1; unfold wf in *; try assumption; lia.
  - intros now pos. unfold J_nonneg. cbn. lra.
  - clear. revert e. induction evs as [|x r IH]; intros e0; cbn [segs_ok]; auto.
    split; [destruct x; auto | apply IH].
Qed.

Lemma inv_bound : forall M evs e, wf e -> J_bound M e -> hist_ok evs e ->
  segs_ok (fun r => r <= M) evs e ->
  J_bound M (est_run evs e) /\ wf (est_run evs e).
Proof.
  intros M evs e Hwf HJ Hh Hs.
  apply (est_run_inv (J_bound M) (fun r => r <= M)); auto.
  - intros e0 new now Hwf0 [Hs0 Hd0] Hn Ht Hr. unfold J_bound. cbn [sm dsm].
    rewrite Np_accept by assumption. unfold rec_d, rec_s.
    rewrite (W_split e0 now) by (try assumption; lia).
    apply alg_rec_bound; auto using A_range, w_range.
    apply Aw_lt_1; unfold wf in *; try assumption; lia.
  - intros now pos. unfold J_bound. rewrite Np_restart. cbn. lra.
Qed.

Lemma inv_steady : forall r evs e, wf e -> J_steady r e -> hist_ok evs e ->
  segs_ok (fun x => x = r) evs e ->
  J_steady r (est_run evs e) /\ wf (est_run evs e).
Proof.
  intros r evs e Hwf HJ Hh Hs.
  apply (est_run_inv (J_steady r) (fun x => x = r)); auto.
  - intros e0 new now Hwf0 [Hs0 Hd0] Hn Ht Hr. unfold J_steady. cbn [sm dsm].
    rewrite Np_accept by assumption. unfold rec_d, rec_s. rewrite Hr.
    rewrite (W_split e0 now) by (try assumption; lia).
    apply alg_rec_steady; auto.
    apply Aw_lt_1; unfold wf in *; try assumption; lia.
  - intros now pos. unfold J_steady. rewrite Np_restart. cbn. lra.
Qed.

(** ** Queries *)
Lemma est_sps_split : forall e now, wf e -> (prev_time e <= now)%N ->
  est_sps Rar e now =
  sps_R (sm e) (dsm e) (W (secs (now - prev_time e)))
        (1 - W (secs (prev_time e - start_time e)) * W (secs (now - prev_time e))).
Proof.
  intros e now Hwf Hn. rewrite est_sps_R, (W_split e now) by assumption. reflexivity.
Qed.

Lemma sps_nonneg : forall e now, wf e -> J_nonneg e ->
  (prev_time e <= now)%N -> (start_time e < now)%N -> 0 <= est_sps Rar e now.
Proof.
  intros e now Hwf [Hs Hd] Hn Hst. rewrite est_sps_split by assumption.
  apply alg_sps_nonneg; auto using A_range, w_range. now apply Aw_lt_1.
Qed.

Lemma sps_bound : forall M e now, wf e -> J_bound M e -> 0 <= M ->
  (prev_time e <= now)%N -> (start_time e < now)%N -> est_sps Rar e now <= M.
Proof.
  intros M e now Hwf [Hs Hd] HM Hn Hst. rewrite est_sps_split by assumption.
  apply alg_sps_bound; auto using A_range, w_range. now apply Aw_lt_1.
Qed.

Lemma sps_envelope : forall M e now, wf e -> J_bound M e -> J_nonneg e -> 0 <= M ->
  (prev_time e <= now)%N -> (start_time e < now)%N ->
  est_sps Rar e now <= 2 * M * W (secs (now - prev_time e)).
Proof.
  intros M e now Hwf [Hs Hd] [Hs0 _] HM Hn Hst. rewrite est_sps_split by assumption.
  apply alg_sps_envelope; auto using A_range, w_range. now apply Aw_lt_1.
Qed.

Lemma sps_steady : forall r e, wf e -> J_steady r e -> (start_time e < prev_time e)%N ->
  est_sps Rar e (prev_time e) = r.
Proof.
  intros r e Hwf [Hs Hd] Hst. rewrite est_sps_R. rewrite N.sub_diag, secs_0, W_0.
  unfold sps_R. rewrite Hs, Hd. unfold Np.
  assert (H := denominator_pos (prev_time e - start_time e) ltac:(lia)).
  change (T Rar) with R. field. lra.
Qed.

Lemma sps_decay : forall e now1 now2, wf e -> 0 <= sm e -> sm e <= dsm e ->
  (prev_time e <= now1)%N -> (now1 <= now2)%N -> (start_time e < now1)%N ->
  est_sps Rar e now2 <= est_sps Rar e now1.
Proof.
  intros e now1 now2 Hwf Hs Hsd H1 H12 Hst.
  rewrite !est_sps_split by (try assumption; lia).
  apply alg_sps_decay; auto using A_range.
  - split; [left; apply W_pos|]. apply W_decr, secs_le. lia.
  - apply W_le_1, secs_nonneg.
  - now apply Aw_lt_1.
Qed.

(** * Theorems at the level of the estimator *)

Lemma wf_new : forall now, wf (est_new Rar now).
Proof. intros now. unfold wf. cbn. lia. Qed.

Lemma restart_state_invariants : forall pos now M r,
  let e : est R := mkEst 0 0 pos now now in
  wf e /\ J_nonneg e /\ J_bound M e /\ J_steady r e.
Proof.
  intros pos now M r e. unfold wf, J_nonneg, J_bound, J_steady, e.
  rewrite Np_restart. cbn [sm dsm prev_time start_time]. repeat split; try lra. lia.
Qed.

Lemma est_new_is_restart : forall now, est_new Rar now = (mkEst 0 0 0%N now now : est R).
Proof. reflexivity. Qed.

(** FINITE / NON-NEGATIVE *)
Theorem finite_nonneg : forall evs t0 now,
  let e := est_run evs (est_new Rar t0) in
  hist_ok evs (est_new Rar t0) ->
  (prev_time e <= now)%N -> (start_time e < now)%N ->
  0 < 1 - W (secs (now - start_time e)) /\ 0 <= est_sps Rar e now.
Proof.
  intros evs t0 now e Hh Hn Hs.
  destruct (restart_state_invariants 0%N t0 0 0) as (Hwf & Hnn & _).
  destruct (inv_nonneg evs (est_new Rar t0) Hwf Hnn Hh) as [HJ Hwf'].
  split.
  - apply denominator_pos. lia.
  - now apply sps_nonneg.
Qed.

(** STEADY-RATE EXACTNESS *)
Theorem steady_exact : forall r evs t0,
  let e := est_run evs (est_new Rar t0) in
  hist_ok evs (est_new Rar t0) ->
  segs_ok (fun x => x = r) evs (est_new Rar t0) ->
  (start_time e < prev_time e)%N ->
  est_sps Rar e (prev_time e) = r.
Proof.
  intros r evs t0 e Hh Hs Hst.
  destruct (restart_state_invariants 0%N t0 0 r) as (Hwf & _ & _ & Hst0).
  destruct (inv_steady r evs (est_new Rar t0) Hwf Hst0 Hh Hs) as [HJ Hwf'].
  now apply sps_steady.
Qed.

(** BOUNDS *)
Theorem bounded : forall M evs t0 now,
  let e := est_run evs (est_new Rar t0) in
  0 <= M ->
  hist_ok evs (est_new Rar t0) ->
  segs_ok (fun x => x <= M) evs (est_new Rar t0) ->
  (prev_time e <= now)%N -> (start_time e < now)%N ->
  0 <= est_sps Rar e now <= M /\
  est_sps Rar e now <= 2 * M * W (secs (now - prev_time e)).
Proof.
  intros M evs t0 now e HM Hh Hs Hn Hst.
  destruct (restart_state_invariants 0%N t0 M 0) as (Hwf & Hnn & Hb & _).
  destruct (inv_bound M evs (est_new Rar t0) Hwf Hb Hh Hs) as [HJ Hwf'].
  destruct (inv_nonneg evs (est_new Rar t0) Hwf Hnn Hh) as [HJ0 _].
  repeat split.
  - now apply sps_nonneg.
  - now apply sps_bound.
  - now apply sps_envelope.
Qed.

(** decay to zero: an explicit instant after which the stalled rate stays below eps *)
Theorem decay_limit : forall M evs t0 eps,
  let e := est_run evs (est_new Rar t0) in
  0 <= M -> 0 < eps ->
  hist_ok evs (est_new Rar t0) ->
  segs_ok (fun x => x <= M) evs (est_new Rar t0) ->
  exists X, forall now, (prev_time e <= now)%N -> (start_time e < now)%N ->
    X <= secs (now - prev_time e) -> est_sps Rar e now <= eps.
Proof.
  intros M evs t0 eps e HM He Hh Hs.
  destruct (W_small (eps / (2 * M + 1))) as (X & HX0 & HX).
  { apply Rdiv_lt_0_compat; lra. }
  exists X. intros now Hn Hst Hx.
  destruct (bounded M evs t0 now HM Hh Hs Hn Hst) as [_ Henv]. fold e in Henv.
  specialize (HX _ Hx).
  assert (Hw := W_pos (secs (now - prev_time e))).
  apply Rle_trans with (2 * M * W (secs (now - prev_time e))); [exact Henv|].
  apply Rle_trans with ((2 * M + 1) * (eps / (2 * M + 1))).
  - apply Rle_trans with ((2 * M + 1) * W (secs (now - prev_time e))).
    + apply Rmult_le_compat_r; lra.
    + apply Rmult_le_compat_l; lra.
  - right. field. lra.
Qed.

(** MONOTONE DECAY WHILE STALLED – conditional form *)
Theorem decay_when_d_ge_s : forall evs t0 now1 now2,
  let e := est_run evs (est_new Rar t0) in
  hist_ok evs (est_new Rar t0) ->
  sm e <= dsm e ->
  (prev_time e <= now1)%N -> (now1 <= now2)%N -> (start_time e < now1)%N ->
  est_sps Rar e now2 <= est_sps Rar e now1.
Proof.
  intros evs t0 now1 now2 e Hh Hsd H1 H12 Hst.
  destruct (restart_state_invariants 0%N t0 0 0) as (Hwf & Hnn & _).
  destruct (inv_nonneg evs (est_new Rar t0) Hwf Hnn Hh) as [[Hs0 _] Hwf'].
  now apply sps_decay.
Qed.

(** steady and decelerating progress satisfy the condition; an acceleration violates it *)
Lemma accept_d_vs_s : forall (e : est R) new now, wf e -> (prev_time e < now)%N ->
  let w := W (secs (now - prev_time e)) in
  let n := 1 - W (secs (now - start_time e)) in
  rec_s e new now - rec_d e new now =
  (sm e - dsm e) * w + (1 - w) * (seg_rate e new now - rec_s e new now / n).
Proof.
  intros e new now Hwf Ht w n. unfold rec_d. fold w. fold n. unfold rec_s at 1. fold w. ring.
Qed.

Lemma accel_breaks_condition : forall r1 (e : est R) new now,
  wf e -> J_steady r1 e -> (start_time e < prev_time e)%N ->
  (prev_steps e < new)%N -> (prev_time e < now)%N ->
  r1 < seg_rate e new now ->
  dsm (est_record Rar new now e) < sm (est_record Rar new now e).
Proof.
  intros r1 e new now Hwf [Hs Hd] Hst Hn Ht Hr.
  rewrite est_record_accept by assumption. cbn [sm dsm].
  assert (E := accept_d_vs_s e new now Hwf Ht). cbv zeta in E.
  assert (HA := A_range e). assert (Hw := W_pos (secs (now - prev_time e))).
  assert (Hw1 : W (secs (now - prev_time e)) < 1) by (apply W_lt_1, secs_pos; lia).
  assert (HAw : W (secs (prev_time e - start_time e)) * W (secs (now - prev_time e)) < 1)
    by (apply Aw_lt_1; unfold wf in *; try assumption; lia).
  assert (HA1 : W (secs (prev_time e - start_time e)) < 1) by (apply W_lt_1, secs_pos; lia).
  rewrite (W_split e now) in E by (try assumption; lia).
  rewrite Hs, Hd in E.
  set (A := W (secs (prev_time e - start_time e))) in *.
  set (w := W (secs (now - prev_time e))) in *.
  set (rate := seg_rate e new now) in *.
  assert (Hlt : rec_s e new now / (1 - A * w) < rate).
  { unfold rec_s. fold w. fold rate. rewrite Hs. unfold Np. fold A.
    apply Rmult_lt_reg_r with (1 - A * w); [lra|].
    unfold Rdiv. rewrite Rmult_assoc, Rinv_l by lra.
    assert (0 < (rate - r1) * ((1 - A) * w)).
    { apply Rmult_lt_0_compat; [lra|]. apply Rmult_lt_0_compat; lra. }
    lra. }
  assert (0 < (1 - w) * (rate - rec_s e new now / (1 - A * w))) by (apply Rmult_lt_0_compat; lra).
  lra.
Qed.

(** * Refutation of "decays monotonically while progress stalls" (D11)
    Witness: estimator created at t = 0; 15 steps by t = 15 s (1/s); 1500 more by t = 30 s
    (100/s); then no progress.  Reported rate at t = 30 s: 81.99/0.99 = 82.82; at t = 30.5 s it
    is strictly larger. *)
Lemma W_pow : forall t n, W t ^ n = W (INR n * t).
Proof.
  intros t n. induction n as [|n IH].
  - cbn [pow INR]. rewrite Rmult_0_l, W_0. reflexivity.
  - rewrite S_INR. cbn [pow]. rewrite IH, <- W_add. f_equal. lra.
Qed.

Lemma W_half_gt : 92 / 100 < W (1 / 2).
Proof.
  destruct (Rlt_le_dec (92 / 100) (W (1 / 2))) as [H | H]; [exact H|exfalso].
  assert (Hp : W (1 / 2) ^ 30 <= (92 / 100) ^ 30).
  { apply pow_incr. split; [left; apply W_pos | exact H]. }
  rewrite W_pow in Hp.
  replace (INR 30 * (1 / 2)) with 15 in Hp by (cbn [INR]; lra).
  rewrite W_15 in Hp. cbn [pow] in Hp. lra.
Qed.

Lemma secs_15 : secs 15000000000 = 15.
Proof. unfold secs. cbn [Z.of_N]. lra. Qed.
Lemma secs_30 : secs 30000000000 = 30.
Proof. unfold secs. cbn [Z.of_N]. lra. Qed.
Lemma secs_half : secs 500000000 = 1 / 2.
Proof. unfold secs. cbn [Z.of_N]. lra. Qed.
Lemma secs_30_half : secs 30500000000 = 30 + 1 / 2.
Proof. unfold secs. cbn [Z.of_N]. lra. Qed.
Lemma W_30 : W 30 = 1 / 100.
Proof. replace 30 with (15 + 15) by lra. rewrite W_add, W_15. lra. Qed.

Definition wit_evs : list ev := [ERec 15 15000000000; ERec 1515 30000000000].

Lemma wit_state :
  est_run wit_evs (est_new Rar 0) =
  (mkEst (9009 / 100) (8199 / 100) 1515%N 30000000000%N 0%N : est R).
Proof.
  unfold wit_evs. cbn [est_run est_ev].
  assert (E1 : est_record Rar 15 15000000000 (est_new Rar 0) =
               (mkEst (9 / 10) (9 / 10) 15%N 15000000000%N 0%N : est R)).
  { rewrite est_record_accept by (cbn; lia).
    unfold rec_d, rec_s, seg_rate. cbn [sm dsm prev_steps prev_time start_time est_new].
    change (15000000000 - 0)%N with 15000000000%N. change (15 - 0)%N with 15%N.
    rewrite secs_15, W_15, fzero_R. cbn [Z.of_N]. f_equal; field. }
  rewrite E1.
  rewrite est_record_accept by (cbn; lia).
  unfold rec_d, rec_s, seg_rate. cbn [sm dsm prev_steps prev_time start_time].
  change (30000000000 - 15000000000)%N with 15000000000%N.
  change (30000000000 - 0)%N with 30000000000%N. change (1515 - 15)%N with 1500%N.
  rewrite secs_15, secs_30, W_15, W_30. cbn [Z.of_N]. f_equal; field.
Qed.

Lemma wit_hist_ok : hist_ok wit_evs (est_new Rar 0).
Proof.
  unfold wit_evs. cbn [hist_ok ev_time est_ev]. split; [cbn; lia|].
  rewrite est_record_accept by (cbn; lia). cbn [prev_time].
  split; [lia | exact I].
Qed.

Definition wit_e : est R := mkEst (9009 / 100) (8199 / 100) 1515%N 30000000000%N 0%N.

(** the reported rate half a second into the stall is larger than at the last sample *)
Lemma wit_rise : est_sps Rar wit_e 30000000000 < est_sps Rar wit_e 30500000000.
Proof.
  unfold wit_e.
  rewrite !est_sps_R. cbn [sm dsm prev_time start_time].
  change (30000000000 - 30000000000)%N with 0%N.
  change (30000000000 - 0)%N with 30000000000%N.
  change (30500000000 - 30000000000)%N with 500000000%N.
  change (30500000000 - 0)%N with 30500000000%N.
  rewrite secs_0, secs_30, secs_half, secs_30_half, W_0, W_add, W_30.
  assert (Hq := W_half_gt). assert (Hq1 : W (1 / 2) < 1) by (apply W_lt_1; lra).
  set (q := W (1 / 2)) in *. unfold sps_R.
  replace ((8199 / 100 * 1 + 9009 / 100 * 1 / (1 - 1 / 100) * (1 - 1)) / (1 - 1 / 100))
    with (8199 / 99) by field.
  assert (Hn : 0 < 1 - 1 / 100 * q) by lra.
  replace ((8199 / 100 * q + 9009 / 100 * q / (1 - 1 / 100 * q) * (1 - q)) / (1 - 1 / 100 * q))
    with (q * (8199 / 100 * (1 - 1 / 100 * q) + 9009 / 100 * (1 - q))
          / ((1 - 1 / 100 * q) * (1 - 1 / 100 * q))) by (field; lra).
  set (X := q * (8199 / 100 * (1 - 1 / 100 * q) + 9009 / 100 * (1 - q))).
  set (D := (1 - 1 / 100 * q) * (1 - 1 / 100 * q)).
  assert (HD : 0 < D) by (apply Rmult_lt_0_compat; lra).
  apply Rmult_lt_reg_r with D; [exact HD|].
  replace (X / D * D) with X by (field; lra).
  unfold X, D. nra.
Qed.

Theorem stall_decay_refuted :
  exists evs t0 now1 now2,
    let e := est_run evs (est_new Rar t0) in
    hist_ok evs (est_new Rar t0) /\
    (prev_time e <= now1)%N /\ (now1 < now2)%N /\ (start_time e < now1)%N /\
    est_sps Rar e now1 < est_sps Rar e now2.
Proof.
  exists wit_evs, 0%N, 30000000000%N, 30500000000%N. cbv zeta.
  rewrite wit_state. cbn [prev_time start_time].
  split; [exact wit_hist_ok|]. split; [lia|]. split; [lia|]. split; [lia|].
  exact wit_rise.
Qed.

(** * FORGETTING *)
(** a restart (reset_eta / reset_elapsed / reset, or a recorded backwards seek) leaves a state
    that is a function of the instant and the current position only *)
Lemma reset_forgets : forall now pos (e1 e2 : est R),
  bar_reset_est Rar now pos e1 = bar_reset_est Rar now pos e2.
Proof. reflexivity. Qed.

Lemma rewind_forgets : forall new now (e1 e2 : est R),
  (new < prev_steps e1)%N -> (new < prev_steps e2)%N ->
  est_record Rar new now e1 = est_record Rar new now e2.
Proof. intros new now e1 e2 H1 H2. now rewrite !est_record_rewind. Qed.

(** the restarted state is the state of a NEW estimator created at that instant, with the
    position origin moved to the current position *)
Definition est_shift {F} (p : N) (e : est F) : est F :=
  mkEst (sm e) (dsm e) (prev_steps e + p)%N (prev_time e) (start_time e).

Lemma reset_is_shifted_new : forall (A : arith) now pos (e : est (T A)),
  bar_reset_est A now pos e = est_shift pos (est_new A now).
Proof. reflexivity. Qed.

(** the estimator is invariant under translation of the positions – for EVERY arithmetic,
    including the binary64 one: this is what makes the "fresh twin" comparison of the harness
    exact *)
Lemma est_record_shift : forall (A : arith) p new now (e : est (T A)),
  est_record A (new + p) now (est_shift p e) = est_shift p (est_record A new now e).
Proof.
  intros A p new now e. unfold est_record, est_shift, est_reset.
  cbn [sm dsm prev_steps prev_time start_time].
  assert (G1 : (new + p <=? prev_steps e + p)%N = (new <=? prev_steps e)%N).
  { destruct (N.leb_spec new (prev_steps e)); [apply N.leb_le | apply N.leb_gt]; lia. }
  assert (G2 : (new + p <? prev_steps e + p)%N = (new <? prev_steps e)%N).
  { destruct (N.ltb_spec new (prev_steps e)); [apply N.ltb_lt | apply N.ltb_ge]; lia. }
  assert (G3 : (new + p - (prev_steps e + p))%N = (new - prev_steps e)%N) by lia.
  rewrite G1, G2, G3.
  destruct ((new <=? prev_steps e)%N || (now <=? prev_time e)%N);
    [destruct (new <? prev_steps e)%N|]; reflexivity.
Qed.

Lemma est_sps_shift : forall (A : arith) p (e : est (T A)) now,
  est_sps A (est_shift p e) now = est_sps A e now.
Proof. reflexivity. Qed.
